//go:build verif

package vm

import (
	"errors"
	"fmt"
	"math/big"
	"testing"

	"github.com/ethereum/go-ethereum/common"
	"github.com/ethereum/go-ethereum/core/state"
	"github.com/ethereum/go-ethereum/core/tracing"
	"github.com/ethereum/go-ethereum/core/types"
	"github.com/ethereum/go-ethereum/crypto"
	"github.com/ethereum/go-ethereum/params"
	"github.com/holiman/uint256"
	"pgregory.net/rapid"
	vs "verif.local/kit/stat"
)

// ---------------------------------------------------------------------------
// Reference: the bytecode definition of a valid jump destination (Yellow Paper
// 9.4.3, D_J): walk the code from 0; an opcode in PUSH1..PUSH32 (0x60..0x7f)
// skips its n = op-0x5f immediate bytes; a position is a valid destination iff
// the walk visits it and it holds 0x5b.
// ---------------------------------------------------------------------------

type c30Info struct {
	valid     []bool // valid[i] <=> i is an acceptable jump target
	dataJD    int    // number of 0x5b bytes lying inside push data
	truncated bool   // final push lacks some of its immediate bytes
	nvalid    int
}

func c30Ref(code []byte) c30Info {
	inf := c30Info{valid: make([]bool, len(code))}
	visited := make([]bool, len(code))
	for pc := 0; pc < len(code); pc++ {
		visited[pc] = true
		b := code[pc]
		if b == 0x5b {
			inf.valid[pc] = true
			inf.nvalid++
		}
		if b >= 0x60 && b <= 0x7f {
			n := int(b) - 0x5f
			if pc+n >= len(code) {
				inf.truncated = true
			}
			pc += n
		}
	}
	for i, b := range code {
		if b == 0x5b && !visited[i] {
			inf.dataJD++
		}
	}
	return inf
}

func (inf c30Info) nontrivial() bool { return inf.dataJD > 0 || inf.truncated }

func (inf c30Info) class() string {
	switch {
	case inf.dataJD > 0 && inf.truncated:
		return "jd-in-pushdata+truncated-push"
	case inf.dataJD > 0:
		return "jd-in-pushdata"
	case inf.truncated:
		return "truncated-push"
	case inf.nvalid > 0:
		return "plain-with-jumpdest"
	}
	return "plain-no-jumpdest"
}

type c30Fataler interface {
	Fatalf(string, ...any)
}

// c30BigPositions returns 256-bit positions that do not fit a code offset but whose
// low 64 bits alias the in-range offset p.
func c30BigPositions(p uint64) []*uint256.Int {
	var out []*uint256.Int
	for _, sh := range []uint{64, 65, 128, 255} {
		v := new(uint256.Int).Lsh(uint256.NewInt(1), sh)
		v.Add(v, uint256.NewInt(p))
		out = append(out, v)
	}
	return out
}

// c30CheckContract compares validJumpdest on every position against the reference.
// order: 0 ascending, 1 descending (the lazily built analysis is triggered by a
// different first query).
func c30CheckContract(t c30Fataler, what string, c *Contract, inf c30Info, order int) {
	n := len(c.Code)
	limit := n + 80
	for k := 0; k < limit; k++ {
		i := k
		if order == 1 {
			i = limit - 1 - k
		}
		want := i < n && inf.valid[i]
		if got := c.validJumpdest(uint256.NewInt(uint64(i))); got != want {
			t.Fatalf("%s: code=%x validJumpdest(%d)=%v, bytecode definition says %v", what, c.Code, i, got, want)
		}
	}
	// positions that do not fit / are far outside
	far := []*uint256.Int{
		uint256.NewInt(1 << 63), uint256.NewInt(1<<63 - 1), uint256.NewInt(^uint64(0)),
		uint256.NewInt(uint64(n) + 1<<32), new(uint256.Int).SetAllOne(),
	}
	for i := 0; i < n; i++ {
		if c.Code[i] == 0x5b {
			far = append(far, c30BigPositions(uint64(i))...)
			if len(far) > 40 {
				break
			}
		}
	}
	for _, p := range far {
		if c.validJumpdest(p) {
			t.Fatalf("%s: code=%x validJumpdest(%s)=true for a position outside the code", what, c.Code, p.Hex())
		}
	}
}

// c30CheckCode runs the white-box comparison of one code through the three analysis
// paths: no code hash (initcode), code hash with a cold shared cache, code hash with a
// warm shared cache; `cache` is shared with other codes of the same case.
func c30CheckCode(t c30Fataler, code []byte, cache JumpDestCache) c30Info {
	inf := c30Ref(code)
	// fresh analysis, initcode path (no hash, nothing may be stored in the cache)
	c0 := NewContract(common.Address{}, common.Address{}, new(uint256.Int), GasBudget{}, cache)
	c0.SetCallCode(common.Hash{}, code)
	c30CheckContract(t, "fresh/no-hash", c0, inf, 0)
	if cache == nil {
		return inf
	}
	h := crypto.Keccak256Hash(code)
	for round := 0; round < 2; round++ {
		c := NewContract(common.Address{}, common.Address{}, new(uint256.Int), GasBudget{}, cache)
		c.SetCallCode(h, code)
		c30CheckContract(t, fmt.Sprintf("hashed/round%d", round), c, inf, round)
	}
	if inf.nvalid+inf.dataJD > 0 {
		// an analysis was needed, so the shared cache must now hold one for this hash,
		// and it must answer like a fresh analysis on every position of the code
		vec, ok := cache.Load(h)
		if !ok {
			t.Fatalf("code=%x: analysis not stored in the shared cache", code)
		}
		fresh := codeBitmap(code)
		for i := range code {
			if code[i] == 0x5b && vec.codeSegment(uint64(i)) != fresh.codeSegment(uint64(i)) {
				t.Fatalf("code=%x: cached analysis differs from fresh analysis at %d", code, i)
			}
		}
	}
	return inf
}

// ---------------------------------------------------------------------------
// Execution: JUMP / JUMPI through the interpreter
// ---------------------------------------------------------------------------

type c30Env struct {
	evm   *EVM
	state *state.StateDB
	pcs   []uint64
	ops   []byte
}

func newC30Env() *c30Env {
	env := &c30Env{}
	statedb, _ := state.New(types.EmptyRootHash, state.NewDatabaseForTesting())
	env.state = statedb
	rnd := common.Hash{1}
	ctx := BlockContext{
		CanTransfer: func(StateDB, common.Address, *uint256.Int) bool { return true },
		Transfer:    func(StateDB, common.Address, common.Address, *uint256.Int, *params.Rules) {},
		GetHash:     func(uint64) common.Hash { return common.Hash{} },
		BlockNumber: big.NewInt(1),
		Time:        1,
		Difficulty:  big.NewInt(0),
		Random:      &rnd,
		BaseFee:     big.NewInt(1),
		BlobBaseFee: big.NewInt(1),
		GasLimit:    30_000_000,
	}
	hooks := &tracing.Hooks{
		OnOpcode: func(pc uint64, op byte, gas, cost uint64, scope tracing.OpContext, rData []byte, depth int, err error) {
			env.pcs = append(env.pcs, pc)
			env.ops = append(env.ops, op)
		},
	}
	env.evm = NewEVM(ctx, statedb, params.MergedTestChainConfig, Config{Tracer: hooks})
	return env
}

// c30JumpProgram renders `PUSH target; JUMP` or `PUSH cond; PUSH target; JUMPI`
// followed by body. It returns the code, the pc of the jump instruction and the
// gas that lets execution reach exactly the end of a JUMPDEST at the target.
func c30JumpProgram(target *uint256.Int, wide bool, jumpi bool, cond byte, body []byte) (code []byte, jumpPC uint64, gas uint64) {
	if jumpi {
		code = append(code, 0x60, cond) // PUSH1 cond
		gas += 3
	}
	if wide {
		b := target.Bytes32()
		code = append(code, 0x7f)
		code = append(code, b[:]...)
	} else {
		v := target.Uint64()
		code = append(code, 0x61, byte(v>>8), byte(v))
	}
	gas += 3
	jumpPC = uint64(len(code))
	if jumpi {
		code = append(code, 0x57)
		gas += 10
	} else {
		code = append(code, 0x56)
		gas += 8
	}
	gas++ // the JUMPDEST
	code = append(code, body...)
	return
}

type c30Exec struct {
	err    error
	landed bool   // the instruction traced right after the jump
	landPC uint64 // its pc
}

func (env *c30Env) finish(jumpPC uint64, err error, t c30Fataler, code []byte) c30Exec {
	res := c30Exec{err: err}
	idx := -1
	for i, pc := range env.pcs {
		if pc == jumpPC {
			idx = i
			break
		}
	}
	if idx < 0 {
		t.Fatalf("VERIF-HARNESS-BUG: jump instruction at %d never traced, code=%x pcs=%v err=%v", jumpPC, code, env.pcs, err)
	}
	if idx+1 < len(env.pcs) {
		res.landed, res.landPC = true, env.pcs[idx+1]
	}
	return res
}

// runCall installs code at addr and calls it (code-hash path, EVM-wide cache).
func (env *c30Env) runCall(t c30Fataler, addr common.Address, code []byte, jumpPC, gas uint64) c30Exec {
	env.state.SetCode(addr, code, tracing.CodeChangeUnspecified)
	env.pcs, env.ops = env.pcs[:0], env.ops[:0]
	_, _, err := env.evm.Call(common.Address{0xca}, addr, nil, NewGasBudget(gas, 0), new(uint256.Int))
	return env.finish(jumpPC, err, t, code)
}

// runInit runs code as a hash-less frame (the way initcode is run).
func (env *c30Env) runInit(t c30Fataler, code []byte, jumpPC, gas uint64) c30Exec {
	env.pcs, env.ops = env.pcs[:0], env.ops[:0]
	c := NewContract(common.Address{0xca}, common.Address{0xee}, new(uint256.Int), NewGasBudget(gas, 0), env.evm.jumpDests)
	c.SetCallCode(common.Hash{}, code)
	c.IsDeployment = true
	_, err := env.evm.Run(c, nil, false)
	return env.finish(jumpPC, err, t, code)
}

func c30JudgeExec(t c30Fataler, what string, code []byte, target *uint256.Int, res c30Exec) {
	inf := c30Ref(code)
	want := target.IsUint64() && target.Uint64() < uint64(len(code)) && inf.valid[target.Uint64()]
	if want {
		if errors.Is(res.err, ErrInvalidJump) {
			t.Fatalf("%s: code=%x jump to %s rejected (ErrInvalidJump) but the target is a valid JUMPDEST", what, code, target.Hex())
		}
		if !res.landed || res.landPC != target.Uint64() {
			t.Fatalf("%s: code=%x jump to %s accepted but next instruction traced at landed=%v pc=%d (err=%v)", what, code, target.Hex(), res.landed, res.landPC, res.err)
		}
	} else {
		if !errors.Is(res.err, ErrInvalidJump) {
			t.Fatalf("%s: code=%x jump to %s must fail with ErrInvalidJump (not a valid destination), got err=%v landed=%v pc=%d", what, code, target.Hex(), res.err, res.landed, res.landPC)
		}
		if res.landed {
			t.Fatalf("%s: code=%x invalid jump to %s still executed an instruction at pc=%d", what, code, target.Hex(), res.landPC)
		}
	}
}

// ---------------------------------------------------------------------------
// Generators
// ---------------------------------------------------------------------------

var c30PushSizes = []int{1, 2, 3, 7, 8, 9, 15, 16, 17, 23, 24, 25, 31, 32}

func c30GenData(rt *rapid.T, n int) []byte {
	out := make([]byte, n)
	mode := rapid.IntRange(0, 3).Draw(rt, "datamode")
	for i := range out {
		switch mode {
		case 0: // all JUMPDEST
			out[i] = 0x5b
		case 1: // JUMPDESTs and push opcodes
			if rapid.Bool().Draw(rt, "d") {
				out[i] = 0x5b
			} else {
				out[i] = byte(rapid.IntRange(0x60, 0x7f).Draw(rt, "dp"))
			}
		case 2:
			out[i] = rapid.Byte().Draw(rt, "db")
		default:
			out[i] = rapid.SampledFrom([]byte{0x5b, 0x00, 0x5b, 0x7f, 0x60, 0xff, 0x5b}).Draw(rt, "ds")
		}
	}
	return out
}

func c30GenCode(rt *rapid.T, maxLen int) []byte {
	var code []byte
	nseg := rapid.IntRange(0, 14).Draw(rt, "nseg")
	for s := 0; s < nseg && len(code) < maxLen; s++ {
		switch rapid.IntRange(0, 6).Draw(rt, "seg") {
		case 0, 1: // one push
			var n int
			if rapid.Bool().Draw(rt, "hostilesize") {
				n = rapid.SampledFrom(c30PushSizes).Draw(rt, "n")
			} else {
				n = rapid.IntRange(1, 32).Draw(rt, "n")
			}
			code = append(code, byte(0x5f+n))
			code = append(code, c30GenData(rt, n)...)
		case 2: // run of JUMPDESTs (alignment shifter)
			k := rapid.IntRange(1, 9).Draw(rt, "jdrun")
			for i := 0; i < k; i++ {
				code = append(code, 0x5b)
			}
		case 3: // run of PUSH32 / PUSH31 / PUSH16 at the current alignment
			op := rapid.SampledFrom([]byte{0x7f, 0x7f, 0x7e, 0x6f, 0x77}).Draw(rt, "runop")
			k := rapid.IntRange(1, 4).Draw(rt, "runlen")
			for i := 0; i < k; i++ {
				code = append(code, op)
				code = append(code, c30GenData(rt, int(op)-0x5f)...)
			}
		case 4: // non-push filler
			k := rapid.IntRange(1, 6).Draw(rt, "fill")
			for i := 0; i < k; i++ {
				code = append(code, rapid.SampledFrom([]byte{0x00, 0x01, 0x50, 0x5a, 0x5c, 0x5f, 0x80, 0xfe, 0xff, 0x5b}).Draw(rt, "f"))
			}
		case 5: // raw bytes
			code = append(code, rapid.SliceOfN(rapid.Byte(), 1, 24).Draw(rt, "raw")...)
		case 6: // dense small pushes
			k := rapid.IntRange(1, 10).Draw(rt, "dense")
			for i := 0; i < k; i++ {
				n := rapid.IntRange(1, 4).Draw(rt, "dn")
				code = append(code, byte(0x5f+n))
				code = append(code, c30GenData(rt, n)...)
			}
		}
	}
	if len(code) > maxLen {
		code = code[:maxLen]
	}
	// truncate (often cuts the final push short)
	if len(code) > 0 && rapid.IntRange(0, 2).Draw(rt, "truncate") == 0 {
		code = code[:rapid.IntRange(0, len(code)).Draw(rt, "cut")]
	}
	// or end with a push whose data is (partly) missing
	if rapid.IntRange(0, 3).Draw(rt, "tailpush") == 0 {
		n := rapid.SampledFrom(c30PushSizes).Draw(rt, "tn")
		have := rapid.IntRange(0, n).Draw(rt, "thave")
		code = append(code, byte(0x5f+n))
		code = append(code, c30GenData(rt, have)...)
	}
	return code
}

// c30Sibling returns a code of the same length as code with a different content
// (a push opcode neutralised or introduced), so that hash-keyed caching must tell
// them apart.
func c30Sibling(rt *rapid.T, code []byte) []byte {
	sib := append([]byte{}, code...)
	if len(sib) == 0 {
		return sib
	}
	i := rapid.IntRange(0, len(sib)-1).Draw(rt, "sibpos")
	switch {
	case sib[i] >= 0x60 && sib[i] <= 0x7f:
		sib[i] = 0x5b
	case sib[i] == 0x5b:
		sib[i] = 0x7f
	default:
		sib[i] = byte(rapid.IntRange(0x60, 0x7f).Draw(rt, "sibop"))
	}
	return sib
}

// ---------------------------------------------------------------------------
// Tests
// ---------------------------------------------------------------------------

// TestVerifC30Exhaustive enumerates (a) every bytecode of length <= 4 (quick) / 5
// (thorough) over a reduced alphabet and (b) every placement of a single PUSHn
// (n = 1..32) at offsets 0..71 with 0..n data bytes present (truncated or not) inside
// a sea of JUMPDEST bytes, and (c) all pairs PUSHn PUSHm at offsets 0..16.
func TestVerifC30Exhaustive(t *testing.T) {
	vs.OnlyShard0(t)
	st := vs.New("C30", t)
	alphabet := []byte{0x00, 0x5b, 0x60, 0x61, 0x6f, 0x7e, 0x7f, 0xff}
	maxLen := 4
	if vs.Thorough() {
		maxLen = 5
	}
	count := 0
	check := func(code []byte, class string) {
		c := st.Case()
		cache := newMapJumpDests()
		inf := c30CheckCode(t, code, cache)
		c.Class(class + "/" + inf.class())
		c.NonTrivial(inf.nontrivial(), fmt.Sprintf("%x", code))
		if count%4001 == 0 {
			c.Sample(inf.nontrivial(), func() any {
				return map[string]any{"code": fmt.Sprintf("%x", code), "valid_targets": inf.nvalid, "jumpdest_bytes_in_pushdata": inf.dataJD, "truncated": inf.truncated}
			})
		}
		count++
	}
	var rec func(prefix []byte)
	rec = func(prefix []byte) {
		check(prefix, "alphabet")
		if len(prefix) == maxLen {
			return
		}
		for _, b := range alphabet {
			rec(append(append([]byte{}, prefix...), b))
		}
	}
	rec(nil)
	nAlpha := count
	for n := 1; n <= 32; n++ {
		for off := 0; off <= 71; off++ {
			for have := 0; have <= n; have++ {
				tails := []int{0, 1, 9}
				if have < n {
					tails = []int{0} // truncated push must be last
				}
				for _, tail := range tails {
					code := make([]byte, 0, off+1+have+tail)
					for i := 0; i < off; i++ {
						code = append(code, 0x5b)
					}
					code = append(code, byte(0x5f+n))
					for i := 0; i < have+tail; i++ {
						code = append(code, 0x5b)
					}
					check(code, "single-push")
				}
			}
		}
	}
	nSingle := count - nAlpha
	for n := 1; n <= 32; n++ {
		for m := 1; m <= 32; m++ {
			for off := 0; off <= 16; off++ {
				code := make([]byte, 0, off+n+m+6)
				for i := 0; i < off; i++ {
					code = append(code, 0x5b)
				}
				code = append(code, byte(0x5f+n))
				for i := 0; i < n; i++ {
					code = append(code, 0x5b)
				}
				code = append(code, byte(0x5f+m))
				for i := 0; i < m+3; i++ {
					code = append(code, 0x5b)
				}
				check(code, "push-pair")
			}
		}
	}
	st.Exhaustive(fmt.Sprintf("all bytecodes of length 0..%d over {00,5b,60,61,6f,7e,7f,ff} (%d); every PUSH1..32 at offsets 0..71 with 0..n immediate bytes present, JUMPDEST elsewhere (%d); every pair PUSHn PUSHm at offsets 0..16 (%d); every position 0..len+79 each", maxLen, nAlpha, nSingle, count-nAlpha-nSingle))
}

// TestVerifC30Random: random bytecodes up to 400 bytes; every position white-box
// (three analysis paths, shared cache with a same-length sibling code).
func TestVerifC30Random(t *testing.T) {
	st := vs.New("C30", t)
	vs.Check(t, 1, func(rt *rapid.T) {
		c := st.Case()
		code := c30GenCode(rt, 400)
		sib := c30Sibling(rt, code)
		cache := newMapJumpDests()
		inf := c30CheckCode(rt, code, cache)
		// same length, different hash, same cache: must get its own answer
		c30CheckCode(rt, sib, cache)
		// and the first code again through the now warm cache
		c30CheckCode(rt, code, cache)
		c.Class(inf.class())
		c.NonTrivial(inf.nontrivial(), fmt.Sprintf("%x", code))
		c.Sample(inf.nontrivial(), func() any {
			return map[string]any{"code": fmt.Sprintf("%x", code), "valid_targets": inf.nvalid, "jumpdest_bytes_in_pushdata": inf.dataJD, "truncated": inf.truncated}
		})
	})
}

// TestVerifC30Exec: JUMP/JUMPI executed by the interpreter succeed exactly on the
// reference's members, for hashed code (EVM-wide analysis cache, two accounts
// sharing one code hash, interleaved with other codes of equal length) and for
// hash-less frames.
func TestVerifC30Exec(t *testing.T) {
	st := vs.New("C30", t)
	vs.Check(t, 0.4, func(rt *rapid.T) {
		c := st.Case()
		env := newC30Env()
		body := c30GenCode(rt, 300)
		jumpi := rapid.Bool().Draw(rt, "jumpi")
		cond := rapid.SampledFrom([]byte{1, 2, 0x80, 0xff}).Draw(rt, "cond")
		wideAll := rapid.Bool().Draw(rt, "wide")
		prefixLen := 4
		if wideAll {
			prefixLen = 34
		}
		if jumpi {
			prefixLen += 2
		}
		total := prefixLen + len(body)
		// candidate targets: every 0x5b byte of the body (valid or not), plus others
		var jd, good []uint64
		{
			probe, _, _ := c30JumpProgram(uint256.NewInt(0), wideAll, jumpi, cond, body)
			pinf := c30Ref(probe) // the prefix pushes are complete, so body validity does not depend on the target bytes
			for i, b := range body {
				if b == 0x5b {
					jd = append(jd, uint64(prefixLen+i))
					if pinf.valid[prefixLen+i] {
						good = append(good, uint64(prefixLen+i))
					}
				}
			}
		}
		ntargets := rapid.IntRange(1, 5).Draw(rt, "ntargets")
		accepted, rejected := 0, 0
		anyNT := false
		var lastCode []byte
		for k := 0; k < ntargets; k++ {
			var target *uint256.Int
			kind := rapid.IntRange(0, 9).Draw(rt, "tkind")
			switch {
			case kind <= 2 && len(good) > 0:
				target = uint256.NewInt(rapid.SampledFrom(good).Draw(rt, "tgood"))
			case kind <= 5 && len(jd) > 0:
				target = uint256.NewInt(rapid.SampledFrom(jd).Draw(rt, "tjd"))
			case kind <= 7:
				target = uint256.NewInt(uint64(rapid.IntRange(0, total+3).Draw(rt, "tany")))
			case kind == 8 && wideAll && len(jd) > 0:
				target = rapid.SampledFrom(c30BigPositions(rapid.SampledFrom(jd).Draw(rt, "tbigbase"))).Draw(rt, "tbig")
			default:
				target = uint256.NewInt(uint64(total + rapid.IntRange(0, 70).Draw(rt, "tbeyond")))
			}
			wide := wideAll
			code, jumpPC, gas := c30JumpProgram(target, wide, jumpi, cond, body)
			if len(code) != total {
				rt.Fatalf("VERIF-HARNESS-BUG: prefix length %d != %d", len(code)-len(body), prefixLen)
			}
			// the embedded target bytes are part of the analysed code: judge on the full code
			inf := c30Ref(code)
			anyNT = anyNT || inf.nontrivial()
			a1 := common.BytesToAddress([]byte{0xa1, byte(k)})
			a2 := common.BytesToAddress([]byte{0xa2, byte(k)})
			r1 := env.runCall(rt, a1, code, jumpPC, gas)
			c30JudgeExec(rt, "call/cold", code, target, r1)
			r2 := env.runCall(rt, a2, code, jumpPC, gas) // same hash, warm EVM cache
			c30JudgeExec(rt, "call/warm-same-hash", code, target, r2)
			r3 := env.runInit(rt, code, jumpPC, gas)
			c30JudgeExec(rt, "hashless-frame", code, target, r3)
			if errors.Is(r1.err, ErrInvalidJump) {
				rejected++
			} else {
				accepted++
			}
			lastCode = code
		}
		switch {
		case accepted > 0 && rejected > 0:
			c.Class("exec:accepted+rejected")
		case accepted > 0:
			c.Class("exec:accepted-only")
		default:
			c.Class("exec:rejected-only")
		}
		c.NonTrivial(anyNT, fmt.Sprintf("%x/%d", lastCode, ntargets))
		c.Sample(anyNT, func() any {
			return map[string]any{"last_code": fmt.Sprintf("%x", lastCode), "targets": ntargets, "accepted": accepted, "rejected": rejected}
		})
	})
}

// FuzzVerifC30Bytes: coverage-guided raw bytecodes, every position, all analysis paths.
func FuzzVerifC30Bytes(f *testing.F) {
	f.Add([]byte{})
	f.Add([]byte{0x5b})
	f.Add([]byte{0x60, 0x5b, 0x5b})
	f.Add([]byte{0x7f, 0x5b, 0x5b, 0x5b, 0x5b, 0x5b, 0x5b, 0x5b, 0x5b, 0x5b, 0x5b, 0x5b, 0x5b, 0x5b, 0x5b, 0x5b, 0x5b, 0x5b, 0x5b, 0x5b, 0x5b, 0x5b, 0x5b, 0x5b, 0x5b, 0x5b, 0x5b, 0x5b, 0x5b, 0x5b, 0x5b, 0x5b, 0x5b, 0x5b})
	f.Add([]byte{0x5b, 0x5b, 0x5b, 0x6f, 0x5b, 0x5b, 0x5b, 0x5b, 0x5b, 0x5b, 0x5b})
	f.Fuzz(func(t *testing.T, code []byte) {
		if len(code) > 600 {
			code = code[:600]
		}
		c30CheckCode(t, code, newMapJumpDests())
	})
}
