//go:build verif

package vm

import (
	"errors"
	"fmt"
	"math/big"
	"strings"
	"testing"

	"pgregory.net/rapid"
	"verif.local/kit/refgas"
	vs "verif.local/kit/stat"
)

// ---------------------------------------------------------------------------
// System under test next to the reference model
// ---------------------------------------------------------------------------

type c31Op struct {
	kind byte // 'C' charge, 'X' charge execution only, 'R' refund, 'F' forward, 'E' exit, 'D' drain
	a, b uint64
	api  byte // which API variant to use (charge: 0 Charge, 1 ChargeExecution/ChargeState wrapper; exit: 0 direct, 1 via Exit(err))
}

func (o c31Op) String() string {
	switch o.kind {
	case 'C':
		return fmt.Sprintf("C(%d,%d)", o.a, o.b)
	case 'X':
		return fmt.Sprintf("X(%d)", o.a)
	case 'R':
		return fmt.Sprintf("R(%d)", o.a)
	case 'F':
		return fmt.Sprintf("F(%d)", o.a)
	case 'E':
		return "E" + refgas.ExitKind(o.a).String()
	default:
		return "D"
	}
}

type c31Sys struct {
	g    []GasBudget // running budgets, root first
	init []GasBudget // the budget each frame started with
	m    *refgas.Tree

	spilled bool // some successful charge borrowed from gas_left
	nt      bool // ... and later a refund or a reverting/halting child happened
	nops    int
}

func c31u(v uint64) *big.Int { return new(big.Int).SetUint64(v) }

func newC31Sys(e, s uint64) *c31Sys {
	b := NewGasBudget(e, s)
	return &c31Sys{g: []GasBudget{b}, init: []GasBudget{b}, m: refgas.New(c31u(e), c31u(s))}
}

func (y *c31Sys) clone() *c31Sys {
	return &c31Sys{g: append([]GasBudget(nil), y.g...), init: append([]GasBudget(nil), y.init...), m: y.m.Clone(),
		spilled: y.spilled, nt: y.nt, nops: y.nops}
}

func (y *c31Sys) top() *GasBudget { return &y.g[len(y.g)-1] }

type c31Fataler interface{ Fatalf(string, ...any) }

// compare checks every frame field by field against the model, the per-frame
// invariants of the running frame, and the global conservation law.
func (y *c31Sys) compare(t c31Fataler, hist func() string) {
	if msg := y.m.Conserved(); msg != "" {
		t.Fatalf("VERIF-HARNESS-BUG: %s after %s", msg, hist())
	}
	if len(y.g) != len(y.m.Stack) {
		t.Fatalf("VERIF-HARNESS-BUG: stack depth %d vs model %d", len(y.g), len(y.m.Stack))
	}
	live := new(big.Int)
	for i := range y.g {
		g, f := y.g[i], y.m.Stack[i]
		ue := new(big.Int).Add(f.Exec, f.Forwarded)
		if c31u(g.ExecutionGas).Cmp(f.GasLeft) != 0 || c31u(g.StateGas).Cmp(f.Reservoir) != 0 || c31u(g.UsedExecutionGas).Cmp(ue) != 0 ||
			big.NewInt(g.UsedStateGas).Cmp(f.NetState) != 0 || c31u(g.Spilled).Cmp(f.Borrowed) != 0 {
			t.Fatalf("frame %d: GasBudget %v differs from the reference {gas_left=%v reservoir=%v usedExec=%v(own %v + forwarded %v) netState=%v borrowed=%v} after %s",
				i, g, f.GasLeft, f.Reservoir, ue, f.Exec, f.Forwarded, f.NetState, f.Borrowed, hist())
		}
		live.Add(live, c31u(g.ExecutionGas))
		live.Add(live, c31u(g.StateGas))
	}
	// global conservation with the real remaining balances and the model's independent tallies
	live.Add(live, y.m.Burned)
	live.Add(live, y.m.NetState)
	if live.Cmp(y.m.Initial) != 0 {
		t.Fatalf("gas not conserved: remaining over all frames + burned %v + net state %v = %v, initial %v, after %s", y.m.Burned, y.m.NetState, live, y.m.Initial, hist())
	}
	// invariants of the running frame relative to what it started with
	g, in := *y.top(), y.init[len(y.init)-1]
	e0, s0 := c31u(in.ExecutionGas), c31u(in.StateGas)
	sum := new(big.Int).Add(c31u(g.ExecutionGas), c31u(g.StateGas))
	sum.Add(sum, c31u(g.UsedExecutionGas))
	sum.Add(sum, big.NewInt(g.UsedStateGas))
	if sum.Cmp(new(big.Int).Add(e0, s0)) != 0 {
		t.Fatalf("frame conservation: E+S+UsedE+UsedS=%v, started with %v: %v after %s", sum, new(big.Int).Add(e0, s0), g, hist())
	}
	ex := new(big.Int).Add(c31u(g.ExecutionGas), c31u(g.UsedExecutionGas))
	ex.Add(ex, c31u(g.Spilled))
	if ex.Cmp(e0) != 0 {
		t.Fatalf("execution dimension: E+UsedE+Spilled=%v, started with %v: %v after %s", ex, e0, g, hist())
	}
	sx := new(big.Int).Add(c31u(g.StateGas), big.NewInt(g.UsedStateGas))
	sx.Sub(sx, c31u(g.Spilled))
	if sx.Cmp(s0) != 0 {
		t.Fatalf("state dimension: S+UsedS-Spilled=%v, started with %v: %v after %s", sx, s0, g, hist())
	}
	if len(y.g) == 1 {
		// root: the accumulated usage equals the independent global tallies
		if c31u(g.UsedExecutionGas).Cmp(y.m.Burned) != 0 || big.NewInt(g.UsedStateGas).Cmp(y.m.NetState) != 0 {
			t.Fatalf("root usage <%d,%d> differs from the tallies burned=%v netState=%v after %s", g.UsedExecutionGas, g.UsedStateGas, y.m.Burned, y.m.NetState, hist())
		}
		used := new(big.Int).Add(y.m.Burned, y.m.NetState)
		if c31u(g.Used(in)).Cmp(used) != 0 {
			t.Fatalf("root Used()=%d differs from burned+netState=%v after %s", g.Used(in), used, hist())
		}
	}
}

// apply performs one operation on both sides and checks its local contract.
// It returns false for a charge that was (consistently) refused.
func (y *c31Sys) apply(t c31Fataler, op c31Op, hist func() string) bool {
	y.nops++
	top := y.top()
	pre := *top
	switch op.kind {
	case 'C':
		cost := GasCosts{ExecutionGas: op.a, StateGas: op.b}
		can := top.CanAfford(cost)
		wantCan := y.m.CanAfford(c31u(op.a), c31u(op.b))
		if can != wantCan {
			t.Fatalf("CanAfford(%v) on %v = %v, reference %v, after %s", cost, pre, can, wantCan, hist())
		}
		var prior GasBudget
		var ok bool
		switch {
		case op.api == 1 && op.b == 0:
			prior, ok = top.ChargeExecution(op.a)
		case op.api == 1 && op.a == 0:
			prior, ok = top.ChargeState(op.b)
		default:
			prior, ok = top.Charge(cost)
		}
		if ok != can {
			t.Fatalf("Charge(%v) on %v succeeded=%v but CanAfford said %v, after %s", cost, pre, ok, can, hist())
		}
		if prior != pre {
			t.Fatalf("Charge(%v) returned prior %v, budget was %v", cost, prior, pre)
		}
		mok := y.m.Charge(c31u(op.a), c31u(op.b))
		if mok != ok {
			t.Fatalf("VERIF-HARNESS-BUG: model charge %v vs CanAfford %v", mok, wantCan)
		}
		if !ok {
			if *top != pre {
				t.Fatalf("refused Charge(%v) changed the budget %v -> %v, after %s", cost, pre, *top, hist())
			}
			return false
		}
		if op.b > pre.StateGas {
			y.spilled = true
		}
		if op.b == 0 {
			// the execution-only fast path must behave like Charge
			alt := pre
			if !alt.ChargeExecutionOnly(op.a) || alt != *top {
				t.Fatalf("ChargeExecutionOnly(%d) on %v gives %v, Charge gives %v", op.a, pre, alt, *top)
			}
		}
	case 'X':
		ok := top.ChargeExecutionOnly(op.a)
		mok := y.m.Charge(c31u(op.a), new(big.Int))
		if ok != mok {
			t.Fatalf("ChargeExecutionOnly(%d) on %v = %v, reference %v, after %s", op.a, pre, ok, mok, hist())
		}
		if !ok {
			if *top != pre {
				t.Fatalf("refused ChargeExecutionOnly(%d) changed the budget %v -> %v", op.a, pre, *top)
			}
			return false
		}
	case 'R':
		top.RefundState(op.a)
		y.m.Refund(c31u(op.a))
		if y.spilled && op.a > 0 {
			y.nt = true
		}
	case 'D':
		top.DrainExecution()
		y.m.Drain()
		if top.ExecutionGas != 0 {
			t.Fatalf("DrainExecution left %d execution gas", top.ExecutionGas)
		}
	case 'F':
		var child GasBudget
		if op.api == 1 && op.a == pre.ExecutionGas {
			child = top.ForwardAll()
		} else {
			child = top.Forward(op.a)
		}
		y.m.Forward(c31u(op.a))
		if child.ExecutionGas != op.a || child.StateGas != pre.StateGas || child.UsedExecutionGas != 0 || child.UsedStateGas != 0 || child.Spilled != 0 {
			t.Fatalf("Forward(%d) on %v produced child %v", op.a, pre, child)
		}
		y.g = append(y.g, child)
		y.init = append(y.init, child)
	case 'E':
		kind := refgas.ExitKind(op.a)
		child := pre
		childInit := y.init[len(y.init)-1]
		var lo GasBudget
		switch {
		case op.api == 1 && kind == refgas.ExitOK:
			lo = child.Exit(nil)
		case op.api == 1 && kind == refgas.ExitRevert:
			lo = child.Exit(ErrExecutionReverted)
		case op.api == 1:
			lo = child.Exit(errors.New("any other error"))
		case kind == refgas.ExitOK:
			lo = child.ExitSuccess()
		case kind == refgas.ExitRevert:
			lo = child.ExitRevert()
		default:
			lo = child.ExitHalt()
		}
		mlo := y.m.Exit(kind)
		if c31u(lo.ExecutionGas).Cmp(mlo.GasLeft) != 0 || c31u(lo.StateGas).Cmp(mlo.Reservoir) != 0 {
			t.Fatalf("exit(%v) of %v hands back <%d,%d>, reference <%v,%v>, after %s", kind, child, lo.ExecutionGas, lo.StateGas, mlo.GasLeft, mlo.Reservoir, hist())
		}
		// the leftover form itself conserves the frame's initial budget in both dimensions
		{
			e0, s0 := c31u(childInit.ExecutionGas), c31u(childInit.StateGas)
			ex := new(big.Int).Add(c31u(lo.ExecutionGas), c31u(lo.UsedExecutionGas))
			ex.Add(ex, c31u(lo.Spilled))
			sx := new(big.Int).Add(c31u(lo.StateGas), big.NewInt(lo.UsedStateGas))
			sx.Sub(sx, c31u(lo.Spilled))
			if ex.Cmp(e0) != 0 || sx.Cmp(s0) != 0 {
				t.Fatalf("exit(%v) of %v (started <%d,%d>) yields leftover %v: E+UsedE+Spilled=%v, S+UsedS-Spilled=%v, after %s", kind, child, childInit.ExecutionGas, childInit.StateGas, lo, ex, sx, hist())
			}
		}
		if kind != refgas.ExitOK {
			if lo.StateGas != childInit.StateGas {
				t.Fatalf("exit(%v) of %v hands back reservoir %d, the frame started with %d, after %s", kind, child, lo.StateGas, childInit.StateGas, hist())
			}
			if lo.UsedStateGas != 0 || lo.Spilled != 0 {
				t.Fatalf("exit(%v) of %v keeps state usage: %v", kind, child, lo)
			}
			if kind == refgas.ExitHalt && lo.ExecutionGas != 0 {
				t.Fatalf("halted frame hands back execution gas %d", lo.ExecutionGas)
			}
			if y.spilled {
				y.nt = true
			}
		}
		y.g = y.g[:len(y.g)-1]
		y.init = y.init[:len(y.init)-1]
		y.top().Absorb(lo)
	}
	y.compare(t, hist)
	return true
}

func c31Hist(e0, s0 uint64, path []c31Op) func() string {
	return func() string {
		var sb strings.Builder
		fmt.Fprintf(&sb, "init<%d,%d>", e0, s0)
		for _, o := range path {
			sb.WriteByte(' ')
			sb.WriteString(o.String())
		}
		return sb.String()
	}
}

// ---------------------------------------------------------------------------
// (a) exhaustive small scope
// ---------------------------------------------------------------------------

// TestVerifC31Exhaustive runs every operation sequence up to a length bound over
// Charge(e,s), RefundState(s), Forward(x), exit ok/revert/halt + Absorb, DrainExecution
// with all values in {0,1,2,3} from every initial budget in {0..3}^2. A refused
// charge ends its branch (the budget is checked to be unchanged). Preconditions taken
// from the callers: Forward(x) only with x <= execution gas (opcode gas tables), refunds
// only up to the state gas charged and still live in the transaction (SSTORE 0->x->0,
// failed CREATE/CALL refills).
func TestVerifC31Exhaustive(t *testing.T) {
	vs.OnlyShard0(t)
	st := vs.New("C31", t)
	maxLen := 4
	if vs.Thorough() {
		maxLen = 5
	}
	vals := []uint64{0, 1, 2, 3}
	var seqs, refused int64
	var path []c31Op
	var e0, s0 uint64
	var rec func(y *c31Sys)
	rec = func(y *c31Sys) {
		if len(path) == maxLen {
			return
		}
		try := func(op c31Op) {
			path = append(path, op)
			n := y.clone()
			c := st.Case()
			seqs++
			ok := n.apply(t, op, c31Hist(e0, s0, path))
			if n.nt {
				c.NonTrivial(true, c31Hist(e0, s0, path)())
			}
			if seqs%200003 == 0 {
				c.Sample(n.nt, func() any { return map[string]any{"sequence": c31Hist(e0, s0, path)(), "root": n.g[0].String(), "depth": len(n.g) - 1} })
			}
			switch {
			case !ok:
				c.Class("refused-charge")
				refused++
			case n.nt:
				c.Class("spill-then-refund-or-failed-child")
			case n.spilled:
				c.Class("spill")
			default:
				c.Class("no-spill")
			}
			if ok {
				rec(n)
			}
			path = path[:len(path)-1]
		}
		for _, e := range vals {
			for _, s := range vals {
				try(c31Op{kind: 'C', a: e, b: s, api: byte((e + s + uint64(len(path))) % 2)})
			}
		}
		live := y.m.LiveNetState()
		for _, s := range vals {
			if c31u(s).Cmp(live) <= 0 {
				try(c31Op{kind: 'R', a: s})
			}
		}
		for _, x := range vals {
			if x <= y.top().ExecutionGas {
				try(c31Op{kind: 'F', a: x, api: byte(len(path) % 2)})
			}
		}
		if len(y.g) > 1 {
			for k := 0; k < 3; k++ {
				try(c31Op{kind: 'E', a: uint64(k), api: byte(len(path) % 2)})
			}
		}
		try(c31Op{kind: 'D'})
	}
	for _, e0 = range vals {
		for _, s0 = range vals {
			y := newC31Sys(e0, s0)
			y.compare(t, c31Hist(e0, s0, nil))
			rec(y)
		}
	}
	st.Exhaustive(fmt.Sprintf("all GasBudget operation sequences of length <= %d over Charge(e,s)/RefundState(s)/Forward(x)/exit{ok,revert,halt}+Absorb/DrainExecution with values in {0..3} from initial budgets {0..3}^2: %d sequences (%d ending in a refused charge)", maxLen, seqs, refused))
}

// ---------------------------------------------------------------------------
// (b) random frame trees with 64-bit hostile values
// ---------------------------------------------------------------------------

const c31MaxGas = uint64(1)<<63 - 1 // params.MaxGasLimit bounds a transaction's total gas

func c31GenAmount(rt *rapid.T, label string, g GasBudget) uint64 {
	e, s := g.ExecutionGas, g.StateGas
	switch rapid.IntRange(0, 5).Draw(rt, label+"kind") {
	case 0:
		return rapid.SampledFrom([]uint64{0, 1, 2, 1 << 63, 1<<63 - 1, 1<<63 + 1, ^uint64(0), ^uint64(0) - 1}).Draw(rt, label)
	case 1: // near the execution gas
		return c31Near(rt, label, e)
	case 2: // near the reservoir
		return c31Near(rt, label, s)
	case 3: // near the sum: the largest affordable state charge
		if e+s >= e {
			return c31Near(rt, label, e+s)
		}
		return ^uint64(0)
	case 4:
		if e == 0 {
			return 0
		}
		return rapid.Uint64Range(0, e).Draw(rt, label)
	default:
		return rapid.Uint64Range(0, 1000).Draw(rt, label)
	}
}

func c31Near(rt *rapid.T, label string, v uint64) uint64 {
	switch rapid.IntRange(0, 4).Draw(rt, label+"near") {
	case 0:
		if v > 0 {
			return v - 1
		}
		return 0
	case 1:
		return v
	case 2:
		if v < ^uint64(0) {
			return v + 1
		}
		return v
	case 3:
		return v / 2
	default:
		return v - v/64
	}
}

// TestVerifC31Trees drives random frame trees (depth <= 6) with hostile 64-bit
// amounts, then unwinds all frames and compares the root's accounting with the
// independent tallies.
func TestVerifC31Trees(t *testing.T) {
	st := vs.New("C31", t)
	vs.Check(t, 1, func(rt *rapid.T) {
		c := st.Case()
		var e0, s0 uint64
		switch rapid.IntRange(0, 3).Draw(rt, "initkind") {
		case 0:
			s0 = rapid.SampledFrom([]uint64{0, 1, 1000, 1 << 40, 1 << 62}).Draw(rt, "s0")
			e0 = c31MaxGas - s0
		case 1:
			e0 = rapid.Uint64Range(0, 100_000_000).Draw(rt, "e0")
			s0 = rapid.Uint64Range(0, 10_000_000).Draw(rt, "s0")
		case 2:
			e0 = rapid.Uint64Range(0, 3000).Draw(rt, "e0")
			s0 = rapid.Uint64Range(0, 300).Draw(rt, "s0")
		default:
			e0 = rapid.Uint64Range(0, c31MaxGas).Draw(rt, "e0")
			s0 = rapid.Uint64Range(0, c31MaxGas-e0).Draw(rt, "s0")
		}
		y := newC31Sys(e0, s0)
		var path []c31Op
		hist := func() string { return c31Hist(e0, s0, path)() }
		y.compare(rt, hist)
		steps := rapid.IntRange(1, 60).Draw(rt, "steps")
		maxDepth, failedChild, refusedCharges := 0, 0, 0
		do := func(op c31Op) {
			path = append(path, op)
			if !y.apply(rt, op, hist) {
				refusedCharges++
			}
			if d := len(y.g) - 1; d > maxDepth {
				maxDepth = d
			}
		}
		for i := 0; i < steps; i++ {
			top := *y.top()
			switch k := rapid.IntRange(0, 11).Draw(rt, "op"); {
			case k <= 3:
				var e, s uint64
				switch rapid.IntRange(0, 3).Draw(rt, "shape") {
				case 0:
					e = c31GenAmount(rt, "e", top)
				case 1:
					s = c31GenAmount(rt, "s", top)
				default:
					e = rapid.Uint64Range(0, 500).Draw(rt, "e")
					if top.ExecutionGas > 100 && rapid.Bool().Draw(rt, "bige") {
						e = rapid.Uint64Range(0, top.ExecutionGas/4).Draw(rt, "e2")
					}
					s = c31GenAmount(rt, "s", top)
				}
				do(c31Op{kind: 'C', a: e, b: s, api: byte(rapid.IntRange(0, 1).Draw(rt, "api"))})
			case k == 4:
				do(c31Op{kind: 'X', a: c31GenAmount(rt, "x", top)})
			case k <= 6:
				live := y.m.LiveNetState()
				if live.Sign() <= 0 {
					continue
				}
				lv := live.Uint64() // live <= total gas < 2^63
				var s uint64
				switch rapid.IntRange(0, 3).Draw(rt, "refkind") {
				case 0:
					s = lv
				case 1:
					s = rapid.Uint64Range(0, lv).Draw(rt, "ref")
				case 2: // exactly / around what this frame borrowed
					s = top.Spilled
					if rapid.Bool().Draw(rt, "refplus") {
						s++
					}
				default:
					s = 1
				}
				if s > lv {
					s = lv
				}
				do(c31Op{kind: 'R', a: s})
			case k <= 8:
				if len(y.g) > 6 {
					continue
				}
				var x uint64
				switch rapid.IntRange(0, 3).Draw(rt, "fwdkind") {
				case 0:
					x = top.ExecutionGas
				case 1:
					x = top.ExecutionGas - top.ExecutionGas/64
				case 2:
					x = 0
				default:
					x = rapid.Uint64Range(0, top.ExecutionGas).Draw(rt, "fwd")
				}
				do(c31Op{kind: 'F', a: x, api: byte(rapid.IntRange(0, 1).Draw(rt, "api"))})
			case k <= 10:
				if len(y.g) == 1 {
					continue
				}
				kind := rapid.IntRange(0, 2).Draw(rt, "exit")
				if kind != 0 {
					failedChild++
				}
				do(c31Op{kind: 'E', a: uint64(kind), api: byte(rapid.IntRange(0, 1).Draw(rt, "api"))})
			default:
				if rapid.IntRange(0, 3).Draw(rt, "drain") == 0 {
					do(c31Op{kind: 'D'})
				}
			}
		}
		// unwind
		for len(y.g) > 1 {
			kind := rapid.IntRange(0, 2).Draw(rt, "finalexit")
			if kind != 0 {
				failedChild++
			}
			do(c31Op{kind: 'E', a: uint64(kind), api: byte(rapid.IntRange(0, 1).Draw(rt, "api"))})
		}
		root := y.g[0]
		if root.ExecutionGas > e0+s0 || root.StateGas > e0+s0 {
			rt.Fatalf("root left with more than it started with: %v from <%d,%d> after %s", root, e0, s0, hist())
		}
		switch {
		case y.nt:
			c.Class("spill-then-refund-or-failed-child")
		case y.spilled:
			c.Class("spill")
		default:
			c.Class("no-spill")
		}
		c.Classf("maxdepth=%d", maxDepth)
		if failedChild > 0 {
			c.Class("has-failed-child")
		}
		if refusedCharges > 0 {
			c.Class("has-refused-charge")
		}
		if e0+s0 > 1<<62 {
			c.Class("huge-budget")
		}
		c.NonTrivial(y.nt, hist())
		c.Sample(y.nt, func() any { return map[string]any{"history": hist(), "root": root.String()} })
	})
}
