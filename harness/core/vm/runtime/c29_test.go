//go:build verif

package runtime

import (
	"encoding/binary"
	"errors"
	"fmt"
	"math/big"
	"runtime/debug"
	"sort"
	"testing"

	"github.com/ethereum/go-ethereum/common"
	"github.com/ethereum/go-ethereum/core"
	"github.com/ethereum/go-ethereum/core/state"
	"github.com/ethereum/go-ethereum/core/tracing"
	"github.com/ethereum/go-ethereum/core/types"
	"github.com/ethereum/go-ethereum/core/vm"
	"github.com/ethereum/go-ethereum/crypto"
	"github.com/ethereum/go-ethereum/internal/verifx/evmx"
	"github.com/ethereum/go-ethereum/params"
	"github.com/holiman/uint256"
	"pgregory.net/rapid"
	ep "verif.local/kit/evmprog"
	vs "verif.local/kit/stat"
)

// ---------------------------------------------------------------------------
// C29: static and reverted frames have no lasting effects.
//
// The oracle is a shadow undo log kept outside go-ethereum's journal. The EVM runs
// on a thin wrapper around *state.StateDB that sees every mutating call of the
// vm.StateDB interface. Before a mutation goes through, the wrapper stores the
// current value of each affected observable (read with the public getters) in the
// "before" map of every open frame that does not know the observable yet - so each
// frame lazily learns the entry value of everything that changes while it is open.
// When a frame ends in REVERT or an exceptional halt, every observable in its map
// must read as it did at entry; when a frame that ran in a static context ends (in
// any way), balances, nonces, code, storage, transient storage, logs, refund and
// self-destruct marks in its map must be unchanged. Independently, when the
// top-level call fails the state root after finalisation must equal the root
// before (this covers storage keys the shadow could not know about).
// ---------------------------------------------------------------------------

type c29Kind uint8

const (
	kBalance c29Kind = iota
	kNonce
	kCode
	kExist
	kStorage
	kTransient
	kWarmAddr
	kWarmSlot
	kRefund
	kLogs
	kDestructed
	kNewContract
	c29NumKinds
)

var c29KindNames = [...]string{"balance", "nonce", "code", "exist", "storage", "transient", "warm-addr", "warm-slot", "refund", "logs", "selfdestructed", "new-contract"}

// effect kinds the property statement names for static frames
var c29StaticKinds = map[c29Kind]bool{kBalance: true, kNonce: true, kCode: true, kStorage: true, kTransient: true, kLogs: true, kRefund: true, kDestructed: true, kNewContract: true}

type c29Key struct {
	kind c29Kind
	addr common.Address
	slot common.Hash
}

func (k c29Key) String() string {
	switch k.kind {
	case kRefund, kLogs:
		return c29KindNames[k.kind]
	case kStorage, kTransient, kWarmSlot:
		return fmt.Sprintf("%s[%x][%x]", c29KindNames[k.kind], k.addr, k.slot)
	}
	return fmt.Sprintf("%s[%x]", c29KindNames[k.kind], k.addr)
}

type c29Frame struct {
	typ      byte
	depth    int
	from, to common.Address
	static   bool // this frame runs in a static context
	before   map[c29Key]common.Hash
	order    []c29Key
	mustFail string // static context: a state-modifying instruction passed validation
	tracked  bool
}

type c29Monitor struct {
	db     *state.StateDB
	rules  params.Rules
	frames []*c29Frame
	viol   []string

	opened        int
	untracked     int
	failedFrames  int
	failedEffects int // failed frames whose shadow holds >= 2 distinct effect kinds
	staticFrames  int
	staticDenied  int
	maxKinds      int
	classes       map[string]int
}

const c29MaxTrackedFrames = 3000

func (m *c29Monitor) bad(format string, a ...any) {
	if len(m.viol) < 5 {
		m.viol = append(m.viol, fmt.Sprintf(format, a...))
	}
}

func u64Hash(v uint64) (h common.Hash) {
	binary.BigEndian.PutUint64(h[24:], v)
	return
}

func boolHash(b bool) (h common.Hash) {
	if b {
		h[31] = 1
	}
	return
}

// read returns the current value of an observable through the public getters.
func (m *c29Monitor) read(k c29Key) common.Hash {
	db := m.db
	switch k.kind {
	case kBalance:
		return db.GetBalance(k.addr).Bytes32()
	case kNonce:
		return u64Hash(db.GetNonce(k.addr))
	case kCode:
		return crypto.Keccak256Hash(db.GetCode(k.addr))
	case kExist:
		return boolHash(db.Exist(k.addr))
	case kStorage:
		return db.GetState(k.addr, k.slot)
	case kTransient:
		return db.GetTransientState(k.addr, k.slot)
	case kWarmAddr:
		return boolHash(db.AddressInAccessList(k.addr))
	case kWarmSlot:
		_, ok := db.SlotInAccessList(k.addr, k.slot)
		return boolHash(ok)
	case kRefund:
		return u64Hash(db.GetRefund())
	case kLogs:
		logs := db.Logs()
		var buf []byte
		for _, l := range logs {
			buf = append(buf, l.Address[:]...)
			for _, t := range l.Topics {
				buf = append(buf, t[:]...)
			}
			buf = append(buf, byte(len(l.Topics)))
			buf = append(buf, l.Data...)
			buf = binary.BigEndian.AppendUint64(buf, uint64(len(l.Data)))
		}
		h := crypto.Keccak256Hash(buf)
		binary.BigEndian.PutUint32(h[:4], uint32(len(logs)))
		return h
	case kDestructed:
		return boolHash(db.HasSelfDestructed(k.addr))
	case kNewContract:
		return boolHash(db.IsNewContract(k.addr))
	}
	return common.Hash{}
}

// touch is called before a mutation of k goes through.
func (m *c29Monitor) touch(keys ...c29Key) {
	for _, k := range keys {
		var cur common.Hash
		have := false
		for i := len(m.frames) - 1; i >= 0; i-- {
			f := m.frames[i]
			if !f.tracked {
				continue
			}
			if _, ok := f.before[k]; ok {
				break // all enclosing frames know it too
			}
			if !have {
				cur, have = m.read(k), true
			}
			f.before[k] = cur
			f.order = append(f.order, k)
		}
	}
}

func (m *c29Monitor) hooks() *tracing.Hooks {
	return &tracing.Hooks{OnEnter: m.onEnter, OnExit: m.onExit, OnOpcode: m.onOpcode}
}

func (m *c29Monitor) onEnter(depth int, typ byte, from, to common.Address, input []byte, gas uint64, value *big.Int) {
	f := &c29Frame{typ: typ, depth: depth, from: from, to: to}
	if n := len(m.frames); n > 0 {
		f.static = m.frames[n-1].static
	}
	if typ == ep.STATICCALL {
		f.static = true
	}
	m.opened++
	if m.opened <= c29MaxTrackedFrames && typ != ep.SELFDESTRUCT {
		f.tracked = true
		f.before = map[c29Key]common.Hash{}
	} else if typ != ep.SELFDESTRUCT {
		m.untracked++
	}
	m.frames = append(m.frames, f)
}

func (m *c29Monitor) onOpcode(pc uint64, op byte, gas, cost uint64, scope tracing.OpContext, rData []byte, depth int, err error) {
	n := len(m.frames)
	if n == 0 {
		return
	}
	f := m.frames[n-1]
	if !f.static {
		return
	}
	if f.mustFail != "" {
		m.bad("static context (depth %d): execution continued at pc=%d %s after %s", depth, pc, ep.OpName(op), f.mustFail)
		return
	}
	if err != nil {
		return
	}
	modifies := false
	switch {
	case op == ep.SSTORE, op == ep.SELFDESTRUCT, op == ep.CREATE, op >= ep.LOG0 && op <= ep.LOG4:
		modifies = true
	case op == ep.CREATE2:
		modifies = m.rules.IsConstantinople
	case op == ep.TSTORE:
		modifies = m.rules.IsCancun
	case op == ep.CALL:
		st := scope.StackData()
		modifies = len(st) >= 3 && !st[len(st)-3].IsZero()
	}
	if modifies {
		f.mustFail = fmt.Sprintf("%s at pc=%d", ep.OpName(op), pc)
		m.staticDenied++
	}
}

func (m *c29Monitor) onExit(depth int, output []byte, gasUsed uint64, err error, reverted bool) {
	n := len(m.frames)
	if n == 0 {
		m.bad("OnExit without frame")
		return
	}
	f := m.frames[n-1]
	m.frames = m.frames[:n-1]
	if f.typ == ep.SELFDESTRUCT {
		return
	}
	if f.static {
		m.staticFrames++
	}
	if f.mustFail != "" && err == nil {
		m.bad("static context (depth %d, %s to %x): frame succeeded although it executed %s", depth, ep.OpName(f.typ), f.to, f.mustFail)
	}
	if !f.tracked {
		return
	}
	failed := err != nil && reverted
	kinds := map[c29Kind]bool{}
	for _, k := range f.order {
		if k.kind != kWarmAddr && k.kind != kWarmSlot && k.kind != kExist {
			kinds[k.kind] = true
		}
	}
	if failed {
		m.failedFrames++
		if len(kinds) >= 2 {
			m.failedEffects++
		}
		if len(kinds) > m.maxKinds {
			m.maxKinds = len(kinds)
		}
		m.classes[fmt.Sprintf("failed:%s:%s", ep.OpName(f.typ), evmx.ErrClass(err))]++
		if len(kinds) > 0 {
			m.classes["failed-with-effects:"+ep.OpName(f.typ)]++
		}
	}
	if !failed && !f.static {
		return
	}
	if f.static && !failed {
		m.classes["static-ok:"+ep.OpName(f.typ)]++
	}
	isCreate := f.typ == ep.CREATE || f.typ == ep.CREATE2
	for _, k := range f.order {
		was, now := f.before[k], m.read(k)
		if was == now {
			continue
		}
		if !failed && !c29StaticKinds[k.kind] {
			continue // successful static frame: warmth / account existence may change
		}
		if failed && isCreate {
			// What a failed creation keeps (it happens in the creating instruction, before
			// the new frame's snapshot): the creator's nonce increment and the warmth of the
			// new address.
			if k.kind == kWarmAddr && k.addr == f.to {
				continue
			}
			if k.kind == kNonce && k.addr == f.from && now == u64Hash(binary.BigEndian.Uint64(was[24:])+1) {
				continue
			}
		}
		what := "failed (" + evmx.ErrClass(err) + ")"
		if !failed {
			what = "static"
		}
		m.bad("%s %s frame at depth %d (from %x to %x): %s was %x at entry, is %x after the frame", what, ep.OpName(f.typ), depth, f.from, f.to, k, was, now)
	}
}

// c29State is the recording wrapper handed to the EVM.
type c29State struct {
	*state.StateDB
	m *c29Monitor
}

func (s *c29State) CreateAccount(a common.Address) {
	s.m.touch(c29Key{kind: kExist, addr: a}, c29Key{kind: kBalance, addr: a}, c29Key{kind: kNonce, addr: a}, c29Key{kind: kCode, addr: a})
	s.StateDB.CreateAccount(a)
}
func (s *c29State) CreateContract(a common.Address) {
	s.m.touch(c29Key{kind: kNewContract, addr: a}, c29Key{kind: kExist, addr: a})
	s.StateDB.CreateContract(a)
}
func (s *c29State) SubBalance(a common.Address, v *uint256.Int, r tracing.BalanceChangeReason) uint256.Int {
	s.m.touch(c29Key{kind: kBalance, addr: a}, c29Key{kind: kExist, addr: a})
	return s.StateDB.SubBalance(a, v, r)
}
func (s *c29State) AddBalance(a common.Address, v *uint256.Int, r tracing.BalanceChangeReason) uint256.Int {
	s.m.touch(c29Key{kind: kBalance, addr: a}, c29Key{kind: kExist, addr: a})
	return s.StateDB.AddBalance(a, v, r)
}
func (s *c29State) SetNonce(a common.Address, n uint64, r tracing.NonceChangeReason) {
	s.m.touch(c29Key{kind: kNonce, addr: a}, c29Key{kind: kExist, addr: a})
	s.StateDB.SetNonce(a, n, r)
}
func (s *c29State) SetCode(a common.Address, c []byte, r tracing.CodeChangeReason) []byte {
	s.m.touch(c29Key{kind: kCode, addr: a}, c29Key{kind: kExist, addr: a})
	return s.StateDB.SetCode(a, c, r)
}
func (s *c29State) SetState(a common.Address, k, v common.Hash) common.Hash {
	s.m.touch(c29Key{kind: kStorage, addr: a, slot: k}, c29Key{kind: kExist, addr: a})
	return s.StateDB.SetState(a, k, v)
}
func (s *c29State) SetTransientState(a common.Address, k, v common.Hash) {
	s.m.touch(c29Key{kind: kTransient, addr: a, slot: k})
	s.StateDB.SetTransientState(a, k, v)
}
func (s *c29State) SelfDestruct(a common.Address) {
	s.m.touch(c29Key{kind: kDestructed, addr: a}, c29Key{kind: kBalance, addr: a})
	s.StateDB.SelfDestruct(a)
}
func (s *c29State) AddAddressToAccessList(a common.Address) {
	s.m.touch(c29Key{kind: kWarmAddr, addr: a})
	s.StateDB.AddAddressToAccessList(a)
}
func (s *c29State) AddSlotToAccessList(a common.Address, k common.Hash) {
	s.m.touch(c29Key{kind: kWarmAddr, addr: a}, c29Key{kind: kWarmSlot, addr: a, slot: k})
	s.StateDB.AddSlotToAccessList(a, k)
}
func (s *c29State) AddRefund(g uint64) {
	s.m.touch(c29Key{kind: kRefund})
	s.StateDB.AddRefund(g)
}
func (s *c29State) SubRefund(g uint64) {
	s.m.touch(c29Key{kind: kRefund})
	s.StateDB.SubRefund(g)
}
func (s *c29State) AddLog(l *types.Log) {
	s.m.touch(c29Key{kind: kLogs})
	s.StateDB.AddLog(l)
}

// c29Run executes the case on a recording state. It builds the EVM exactly like
// runtime.NewEnv does, except that the state handed to it is the wrapper.
func c29Run(cs *c27Case, base *state.StateDB) (res c27Result, mon *c29Monitor) {
	db := base.Copy()
	res.db = db
	rules := evmx.Rules(cs.fork)
	mon = &c29Monitor{db: db, rules: rules, classes: map[string]int{}}
	defer func() {
		if r := recover(); r != nil {
			res.panic = fmt.Sprintf("%v\n%s", r, debug.Stack())
		}
	}()
	cfg := cs.config(db, mon.hooks())
	wrapped := &c29State{StateDB: db, m: mon}
	blockContext := vm.BlockContext{
		CanTransfer: core.CanTransfer, Transfer: core.Transfer, GetHash: cfg.GetHashFn,
		Coinbase: cfg.Coinbase, BlockNumber: cfg.BlockNumber, Time: cfg.Time, Difficulty: cfg.Difficulty,
		GasLimit: cfg.GasLimit, BaseFee: cfg.BaseFee, BlobBaseFee: cfg.BlobBaseFee, Random: cfg.Random,
		CostPerStateByte: params.CostPerStateByte,
	}
	env := vm.NewEVM(blockContext, wrapped, cfg.ChainConfig, cfg.EVMConfig)
	env.SetTxContext(vm.TxContext{Origin: cfg.Origin, GasPrice: uint256.MustFromBig(cfg.GasPrice), BlobHashes: cfg.BlobHashes})
	budget := vm.NewGasBudget(cs.gas, cs.resv)
	if cs.create {
		db.Prepare(rules, cfg.Origin, cfg.Coinbase, nil, vm.ActivePrecompiles(rules), nil)
		res.ret, res.addr, res.gas, res.err = env.Create(cfg.Origin, cs.world.Contracts[0].Code, budget, cs.value)
	} else {
		to := evmx.Addr(cs.world.Contracts[0].Addr)
		db.Prepare(rules, cfg.Origin, cfg.Coinbase, &to, vm.ActivePrecompiles(rules), nil)
		res.ret, res.gas, res.err = env.Call(cfg.Origin, to, cs.input, budget, cs.value)
	}
	return res, mon
}

var c29ForkWeights = []int{1, 1, 1, 2, 5, 4, 4, 5, 7, 6, 4, 6, 10, 9, 9, 26}

func c29DrawCase(rt *rapid.T) *c27Case {
	total := 0
	for _, w := range c29ForkWeights {
		total += w
	}
	r := ep.Uniform(rt, "fork", total)
	fork := ep.Amsterdam
	for i, w := range c29ForkWeights {
		if r < w {
			fork = ep.AllForks[i]
			break
		}
		r -= w
	}
	cs := &c27Case{fork: fork}
	wc := ep.WorldConfig{Fork: fork, MinContracts: 2, MaxContracts: 4, RawEntryPct: 3}
	wc.Gen.EffectBias = true
	wc.Gen.MaxBlocks = 7
	w, err := ep.DrawWorld(rt, wc)
	if err != nil {
		rt.Fatalf("VERIF-HARNESS-BUG: evmprog: %v", err)
	}
	cs.world = w
	cs.create = ep.Uniform(rt, "entry-create", 100) < 10
	switch gc := ep.Uniform(rt, "gas-class", 10); {
	case gc < 2:
		cs.gas = uint64(20000 + ep.Uniform(rt, "gas", 80000))
		cs.gasClass = "20k-100k"
	case gc < 7:
		cs.gas = uint64(100000 + ep.Uniform(rt, "gas", 900000))
		cs.gasClass = "100k-1M"
	default:
		cs.gas = uint64(1000000 + ep.Uniform(rt, "gas", 1000000)*4)
		cs.gasClass = "1M-5M"
	}
	if fork >= ep.Amsterdam {
		cs.resv = []uint64{0, 0, 1000, 200_000, 10_000_000}[ep.Uniform(rt, "reservoir", 5)]
	}
	cs.value = new(uint256.Int)
	if ep.Uniform(rt, "value", 4) == 0 {
		cs.value = uint256.NewInt(1)
	}
	cs.input = rapid.SliceOfN(rapid.Byte(), 0, 64).Draw(rt, "calldata")
	cs.pre = evmx.Pre{ContractBalance: []uint64{0, 1000, 1_000_000}[ep.Uniform(rt, "contract-balance", 3)], EOABalance: 5}
	cs.pre.Storage = map[int]map[common.Hash]common.Hash{}
	slots := []common.Hash{{}, {31: 1}, {31: 2}, {31: 3}}
	for i := range w.Contracts {
		n := ep.Uniform(rt, "prestorage-n", 3)
		if n == 0 {
			continue
		}
		cs.pre.Storage[i] = map[common.Hash]common.Hash{}
		for j := 0; j < n; j++ {
			k := slots[ep.Uniform(rt, "prestorage-slot", len(slots))]
			cs.pre.Storage[i][k] = common.Hash{31: byte(1 + ep.Uniform(rt, "prestorage-val", 2))}
		}
	}
	return cs
}

func TestVerifC29Frames(t *testing.T) {
	st := vs.New("C29", t)
	vs.Check(t, 1, func(rt *rapid.T) {
		c := st.Case()
		cs := c29DrawCase(rt)
		base := evmx.NewState()
		evmx.Install(base, cs.world, cs.pre)
		rules := evmx.Rules(cs.fork)
		rootBefore := base.Copy().IntermediateRoot(rules)

		res, mon := c29Run(cs, base)
		if res.panic != "" {
			rt.Fatalf("C29: panic during execution: %s\n%s", res.panic, cs.dump())
		}
		if len(mon.viol) > 0 {
			rt.Fatalf("C29: %d violation(s), first: %s\n%s", len(mon.viol), mon.viol[0], cs.dump())
		}
		if len(mon.frames) != 0 {
			rt.Fatalf("VERIF-HARNESS-BUG: %d frames left open", len(mon.frames))
		}
		// Whole-state check for a failed top-level frame: nothing but the creator's nonce
		// (creation entry) may differ once the transaction is finalised.
		topFailed := res.err != nil && !(errors.Is(res.err, vm.ErrCodeStoreOutOfGas) && !rules.IsHomestead)
		if topFailed {
			after := res.db
			if len(after.Logs()) != 0 {
				rt.Fatalf("C29: top-level frame failed (%v) but %d logs remain\n%s", res.err, len(after.Logs()), cs.dump())
			}
			if after.GetRefund() != 0 {
				rt.Fatalf("C29: top-level frame failed (%v) but refund counter is %d\n%s", res.err, after.GetRefund(), cs.dump())
			}
			if cs.create {
				after.SetNonce(evmx.Origin, 1, tracing.NonceChangeUnspecified)
			}
			after.Finalise(rules)
			if rootAfter := after.IntermediateRoot(rules); rootAfter != rootBefore {
				rt.Fatalf("C29: top-level frame failed (%v) but the state root changed %x -> %x\n%s", res.err, rootBefore, rootAfter, cs.dump())
			}
		}

		nt := mon.failedEffects > 0 || (mon.staticDenied > 0)
		h := fmt.Sprintf("%d/%d/%d/%v/%s/%x", cs.fork, cs.gas, cs.resv, cs.create, cs.value, cs.input)
		for _, k := range cs.world.Contracts {
			h += fmt.Sprintf("/%x", k.Code)
		}
		c.NonTrivial(nt, h)
		c.Class("fork:" + cs.fork.String())
		c.Class("top:" + evmx.ErrClass(res.err))
		keys := make([]string, 0, len(mon.classes))
		for k := range mon.classes {
			keys = append(keys, k)
		}
		sort.Strings(keys)
		for _, k := range keys {
			c.Class(k)
		}
		switch {
		case mon.failedEffects >= 3:
			c.Class("failed-frames-with-2+-effect-kinds:3+")
		case mon.failedEffects >= 1:
			c.Class("failed-frames-with-2+-effect-kinds:1-2")
		case mon.failedFrames > 0:
			c.Class("failed-frames:only-trivial")
		default:
			c.Class("failed-frames:none")
		}
		if mon.staticDenied > 0 {
			c.Class("static:write-denied")
		}
		if mon.staticFrames > 0 {
			c.Class("static:frames")
		}
		if mon.untracked > 0 {
			c.Class("untracked-frames(>3000)")
		}
		c.Classf("max-effect-kinds:%d", mon.maxKinds)
		c.Sample(nt, func() any {
			d := cs.describe()
			d["failedFrames"], d["failedWith2Kinds"], d["staticDenied"], d["result"] = mon.failedFrames, mon.failedEffects, mon.staticDenied, evmx.ErrClass(res.err)
			return d
		})
	})
}
