//go:build verif

package runtime

import (
	"encoding/binary"
	"errors"
	"fmt"
	"math/big"
	"runtime/debug"
	"sort"
	"testing"

	"github.com/ethereum/go-ethereum/common"
	"github.com/ethereum/go-ethereum/core"
	"github.com/ethereum/go-ethereum/core/state"
	"github.com/ethereum/go-ethereum/core/tracing"
	"github.com/ethereum/go-ethereum/core/types"
	"github.com/ethereum/go-ethereum/core/vm"
	"github.com/ethereum/go-ethereum/crypto"
	"github.com/ethereum/go-ethereum/internal/verifx/evmx"
	"github.com/ethereum/go-ethereum/params"
	"github.com/holiman/uint256"
	"pgregory.net/rapid"
	ep "verif.local/kit/evmprog"
	vs "verif.local/kit/stat"
)

// ---------------------------------------------------------------------------
// C29: static and reverted frames have no lasting effects.
//
// The oracle is a shadow undo log kept outside go-ethereum's journal. The EVM runs
// on a thin wrapper around *state.StateDB that sees every mutating call of the
// vm.StateDB interface. Before a mutation goes through, the wrapper stores the
// current value of each affected observable (read with the public getters) in the
// "before" map of every open frame that does not know the observable yet - so each
// frame lazily learns the entry value of everything that changes while it is open.
// When a frame ends in REVERT or an exceptional halt, every observable in its map
// must read as it did at entry; when a frame that ran in a static context ends (in
// any way), balances, nonces, code, storage, transient storage, logs, refund and
// self-destruct marks in its map must be unchanged. Independently, when the
// top-level call fails the state root after finalisation must equal the root
// before (this covers storage keys the shadow could not know about).
// ---------------------------------------------------------------------------

type c29Kind uint8

const (
	kBalance c29Kind = iota
	kNonce
	kCode
	kExist
	kStorage
	kTransient
	kWarmAddr
	kWarmSlot
	kRefund
	kLogs
	kDestructed
	kNewContract
	c29NumKinds
)

var c29KindNames = [...]string{"balance", "nonce", "code", "exist", "storage", "transient", "warm-addr", "warm-slot", "refund", "logs", "selfdestructed", "new-contract"}

// effect kinds the property statement names for static frames
var c29StaticKinds = map[c29Kind]bool{kBalance: true, kNonce: true, kCode: true, kStorage: true, kTransient: true, kLogs: true, kRefund: true, kDestructed: true, kNewContract: true}

type c29Key struct {
	kind c29Kind
	addr common.Address
	slot common.Hash
}

func (k c29Key) String() string {
	switch k.kind {
	case kRefund, kLogs:
		return c29KindNames[k.kind]
	case kStorage, kTransient, kWarmSlot:
		return fmt.Sprintf("%s[%x][%x]", c29KindNames[k.kind], k.addr, k.slot)
	}
	return fmt.Sprintf("%s[%x]", c29KindNames[k.kind], k.addr)
}

type c29Frame struct {
	typ      byte
	depth    int
	from, to common.Address
	static   bool // this frame runs in a static context
	before   map[c29Key]common.Hash
	order    []c29Key
	mustFail string // static context: a state-modifying instruction passed validation
	tracked  bool
}

type c29Monitor struct {
	db     *state.StateDB
	rules  params.Rules
	frames []*c29Frame
	viol   []string

	opened        int
	untracked     int
	failedFrames  int
	failedEffects int // failed frames whose shadow holds >= 2 distinct effect kinds
	staticFrames  int
	staticDenied  int
	maxKinds      int
	classes       map[string]int

	// multi-transaction histories: value of a slot at the start of the block, the
	// keys the top-level frame changed, and two history-shape counters (statistics
	// only): failed frames that had to restore a slot which an enclosing frame of the
	// same transaction had already changed, and among those the ones whose restored
	// value equals the block-start value although an earlier transaction of the block
	// had changed the slot.
	blockStart     func(common.Address, common.Hash) common.Hash
	topKeys        []c29Key
	topBefore      map[c29Key]common.Hash
	restoredOuter  int
	restoredToOrig int
}

const c29MaxTrackedFrames = 3000

func (m *c29Monitor) bad(format string, a ...any) {
	if len(m.viol) < 5 {
		m.viol = append(m.viol, fmt.Sprintf(format, a...))
	}
}

func u64Hash(v uint64) (h common.Hash) {
	binary.BigEndian.PutUint64(h[24:], v)
	return
}

func boolHash(b bool) (h common.Hash) {
	if b {
		h[31] = 1
	}
	return
}

// read returns the current value of an observable through the public getters.
func (m *c29Monitor) read(k c29Key) common.Hash {
	db := m.db
	switch k.kind {
	case kBalance:
		return db.GetBalance(k.addr).Bytes32()
	case kNonce:
		return u64Hash(db.GetNonce(k.addr))
	case kCode:
		return crypto.Keccak256Hash(db.GetCode(k.addr))
	case kExist:
		return boolHash(db.Exist(k.addr))
	case kStorage:
		return db.GetState(k.addr, k.slot)
	case kTransient:
		return db.GetTransientState(k.addr, k.slot)
	case kWarmAddr:
		return boolHash(db.AddressInAccessList(k.addr))
	case kWarmSlot:
		_, ok := db.SlotInAccessList(k.addr, k.slot)
		return boolHash(ok)
	case kRefund:
		return u64Hash(db.GetRefund())
	case kLogs:
		logs := db.Logs()
		var buf []byte
		for _, l := range logs {
			buf = append(buf, l.Address[:]...)
			for _, t := range l.Topics {
				buf = append(buf, t[:]...)
			}
			buf = append(buf, byte(len(l.Topics)))
			buf = append(buf, l.Data...)
			buf = binary.BigEndian.AppendUint64(buf, uint64(len(l.Data)))
		}
		h := crypto.Keccak256Hash(buf)
		binary.BigEndian.PutUint32(h[:4], uint32(len(logs)))
		return h
	case kDestructed:
		return boolHash(db.HasSelfDestructed(k.addr))
	case kNewContract:
		return boolHash(db.IsNewContract(k.addr))
	}
	return common.Hash{}
}

// touch is called before a mutation of k goes through.
func (m *c29Monitor) touch(keys ...c29Key) {
	for _, k := range keys {
		var cur common.Hash
		have := false
		for i := len(m.frames) - 1; i >= 0; i-- {
			f := m.frames[i]
			if !f.tracked {
				continue
			}
			if _, ok := f.before[k]; ok {
				break // all enclosing frames know it too
			}
			if !have {
				cur, have = m.read(k), true
			}
			f.before[k] = cur
			f.order = append(f.order, k)
		}
	}
}

func (m *c29Monitor) hooks() *tracing.Hooks {
	return &tracing.Hooks{OnEnter: m.onEnter, OnExit: m.onExit, OnOpcode: m.onOpcode}
}

func (m *c29Monitor) onEnter(depth int, typ byte, from, to common.Address, input []byte, gas uint64, value *big.Int) {
	f := &c29Frame{typ: typ, depth: depth, from: from, to: to}
	if n := len(m.frames); n > 0 {
		f.static = m.frames[n-1].static
	}
	if typ == ep.STATICCALL {
		f.static = true
	}
	m.opened++
	if m.opened <= c29MaxTrackedFrames && typ != ep.SELFDESTRUCT {
		f.tracked = true
		f.before = map[c29Key]common.Hash{}
	} else if typ != ep.SELFDESTRUCT {
		m.untracked++
	}
	m.frames = append(m.frames, f)
}

func (m *c29Monitor) onOpcode(pc uint64, op byte, gas, cost uint64, scope tracing.OpContext, rData []byte, depth int, err error) {
	n := len(m.frames)
	if n == 0 {
		return
	}
	f := m.frames[n-1]
	if !f.static {
		return
	}
	if f.mustFail != "" {
		m.bad("static context (depth %d): execution continued at pc=%d %s after %s", depth, pc, ep.OpName(op), f.mustFail)
		return
	}
	if err != nil {
		return
	}
	modifies := false
	switch {
	case op == ep.SSTORE, op == ep.SELFDESTRUCT, op == ep.CREATE, op >= ep.LOG0 && op <= ep.LOG4:
		modifies = true
	case op == ep.CREATE2:
		modifies = m.rules.IsConstantinople
	case op == ep.TSTORE:
		modifies = m.rules.IsCancun
	case op == ep.CALL:
		st := scope.StackData()
		modifies = len(st) >= 3 && !st[len(st)-3].IsZero()
	}
	if modifies {
		f.mustFail = fmt.Sprintf("%s at pc=%d", ep.OpName(op), pc)
		m.staticDenied++
	}
}

func (m *c29Monitor) onExit(depth int, output []byte, gasUsed uint64, err error, reverted bool) {
	n := len(m.frames)
	if n == 0 {
		m.bad("OnExit without frame")
		return
	}
	f := m.frames[n-1]
	m.frames = m.frames[:n-1]
	if f.typ == ep.SELFDESTRUCT {
		return
	}
	if f.static {
		m.staticFrames++
	}
	if f.mustFail != "" && err == nil {
		m.bad("static context (depth %d, %s to %x): frame succeeded although it executed %s", depth, ep.OpName(f.typ), f.to, f.mustFail)
	}
	if !f.tracked {
		return
	}
	if len(m.frames) == 0 {
		m.topKeys, m.topBefore = f.order, f.before
	}
	failed := err != nil && reverted
	kinds := map[c29Kind]bool{}
	for _, k := range f.order {
		if k.kind != kWarmAddr && k.kind != kWarmSlot && k.kind != kExist {
			kinds[k.kind] = true
		}
	}
	if failed {
		m.failedFrames++
		if len(kinds) >= 2 {
			m.failedEffects++
		}
		if len(kinds) > m.maxKinds {
			m.maxKinds = len(kinds)
		}
		m.classes[fmt.Sprintf("failed:%s:%s", ep.OpName(f.typ), evmx.ErrClass(err))]++
		if len(kinds) > 0 {
			m.classes["failed-with-effects:"+ep.OpName(f.typ)]++
		}
		if len(m.frames) > 0 && m.frames[0].tracked {
			outer, orig := false, false
			for _, k := range f.order {
				if k.kind != kStorage {
					continue
				}
				// The top-level frame learnt the slot's value at the start of the transaction
				// when the slot was first changed.
				if txStart, ok := m.frames[0].before[k]; ok && txStart != f.before[k] {
					outer = true
					if m.blockStart != nil && m.blockStart(k.addr, k.slot) == f.before[k] {
						orig = true
					}
				}
			}
			if outer {
				m.restoredOuter++
			}
			if orig {
				m.restoredToOrig++
			}
		}
	}
	if !failed && !f.static {
		return
	}
	if f.static && !failed {
		m.classes["static-ok:"+ep.OpName(f.typ)]++
	}
	isCreate := f.typ == ep.CREATE || f.typ == ep.CREATE2
	for _, k := range f.order {
		was, now := f.before[k], m.read(k)
		if was == now {
			continue
		}
		if !failed && !c29StaticKinds[k.kind] {
			continue // successful static frame: warmth / account existence may change
		}
		if failed && isCreate {
			// What a failed creation keeps (it happens in the creating instruction, before
			// the new frame's snapshot): the creator's nonce increment and the warmth of the
			// new address.
			if k.kind == kWarmAddr && k.addr == f.to {
				continue
			}
			if k.kind == kNonce && k.addr == f.from && now == u64Hash(binary.BigEndian.Uint64(was[24:])+1) {
				continue
			}
		}
		what := "failed (" + evmx.ErrClass(err) + ")"
		if !failed {
			what = "static"
		}
		m.bad("%s %s frame at depth %d (from %x to %x): %s was %x at entry, is %x after the frame", what, ep.OpName(f.typ), depth, f.from, f.to, k, was, now)
	}
}

// c29State is the recording wrapper handed to the EVM.
type c29State struct {
	*state.StateDB
	m *c29Monitor
}

func (s *c29State) CreateAccount(a common.Address) {
	s.m.touch(c29Key{kind: kExist, addr: a}, c29Key{kind: kBalance, addr: a}, c29Key{kind: kNonce, addr: a}, c29Key{kind: kCode, addr: a})
	s.StateDB.CreateAccount(a)
}
func (s *c29State) CreateContract(a common.Address) {
	s.m.touch(c29Key{kind: kNewContract, addr: a}, c29Key{kind: kExist, addr: a})
	s.StateDB.CreateContract(a)
}
func (s *c29State) SubBalance(a common.Address, v *uint256.Int, r tracing.BalanceChangeReason) uint256.Int {
	s.m.touch(c29Key{kind: kBalance, addr: a}, c29Key{kind: kExist, addr: a})
	return s.StateDB.SubBalance(a, v, r)
}
func (s *c29State) AddBalance(a common.Address, v *uint256.Int, r tracing.BalanceChangeReason) uint256.Int {
	s.m.touch(c29Key{kind: kBalance, addr: a}, c29Key{kind: kExist, addr: a})
	return s.StateDB.AddBalance(a, v, r)
}
func (s *c29State) SetNonce(a common.Address, n uint64, r tracing.NonceChangeReason) {
	s.m.touch(c29Key{kind: kNonce, addr: a}, c29Key{kind: kExist, addr: a})
	s.StateDB.SetNonce(a, n, r)
}
func (s *c29State) SetCode(a common.Address, c []byte, r tracing.CodeChangeReason) []byte {
	s.m.touch(c29Key{kind: kCode, addr: a}, c29Key{kind: kExist, addr: a})
	return s.StateDB.SetCode(a, c, r)
}
func (s *c29State) SetState(a common.Address, k, v common.Hash) common.Hash {
	s.m.touch(c29Key{kind: kStorage, addr: a, slot: k}, c29Key{kind: kExist, addr: a})
	return s.StateDB.SetState(a, k, v)
}
func (s *c29State) SetTransientState(a common.Address, k, v common.Hash) {
	s.m.touch(c29Key{kind: kTransient, addr: a, slot: k})
	s.StateDB.SetTransientState(a, k, v)
}
func (s *c29State) SelfDestruct(a common.Address) {
	s.m.touch(c29Key{kind: kDestructed, addr: a}, c29Key{kind: kBalance, addr: a})
	s.StateDB.SelfDestruct(a)
}
func (s *c29State) AddAddressToAccessList(a common.Address) {
	s.m.touch(c29Key{kind: kWarmAddr, addr: a})
	s.StateDB.AddAddressToAccessList(a)
}
func (s *c29State) AddSlotToAccessList(a common.Address, k common.Hash) {
	s.m.touch(c29Key{kind: kWarmAddr, addr: a}, c29Key{kind: kWarmSlot, addr: a, slot: k})
	s.StateDB.AddSlotToAccessList(a, k)
}
func (s *c29State) AddRefund(g uint64) {
	s.m.touch(c29Key{kind: kRefund})
	s.StateDB.AddRefund(g)
}
func (s *c29State) SubRefund(g uint64) {
	s.m.touch(c29Key{kind: kRefund})
	s.StateDB.SubRefund(g)
}
func (s *c29State) AddLog(l *types.Log) {
	s.m.touch(c29Key{kind: kLogs})
	s.StateDB.AddLog(l)
}

// c29Run executes the case on a recording state. It builds the EVM exactly like
// runtime.NewEnv does, except that the state handed to it is the wrapper.
func c29Run(cs *c27Case, base *state.StateDB) (res c27Result, mon *c29Monitor) {
	db := base.Copy()
	mon = &c29Monitor{db: db, rules: evmx.Rules(cs.fork), classes: map[string]int{}}
	return c29Exec(cs, db, nil, mon), mon
}

// c29Exec executes one transaction-like call (cs.gas/resv/value/input; creation of
// contract 0's code if cs.create, else a call to *to, default contract 0) directly on
// db, observed by mon. Prepare is called first, as the state transition does.
func c29Exec(cs *c27Case, db *state.StateDB, to *common.Address, mon *c29Monitor) (res c27Result) {
	res.db = db
	rules := evmx.Rules(cs.fork)
	defer func() {
		if r := recover(); r != nil {
			res.panic = fmt.Sprintf("%v\n%s", r, debug.Stack())
		}
	}()
	cfg := cs.config(db, mon.hooks())
	wrapped := &c29State{StateDB: db, m: mon}
	blockContext := vm.BlockContext{
		CanTransfer: core.CanTransfer, Transfer: core.Transfer, GetHash: cfg.GetHashFn,
		Coinbase: cfg.Coinbase, BlockNumber: cfg.BlockNumber, Time: cfg.Time, Difficulty: cfg.Difficulty,
		GasLimit: cfg.GasLimit, BaseFee: cfg.BaseFee, BlobBaseFee: cfg.BlobBaseFee, Random: cfg.Random,
		CostPerStateByte: params.CostPerStateByte,
	}
	env := vm.NewEVM(blockContext, wrapped, cfg.ChainConfig, cfg.EVMConfig)
	env.SetTxContext(vm.TxContext{Origin: cfg.Origin, GasPrice: uint256.MustFromBig(cfg.GasPrice), BlobHashes: cfg.BlobHashes})
	budget := vm.NewGasBudget(cs.gas, cs.resv)
	if cs.create {
		db.Prepare(rules, cfg.Origin, cfg.Coinbase, nil, vm.ActivePrecompiles(rules), nil)
		res.ret, res.addr, res.gas, res.err = env.Create(cfg.Origin, cs.world.Contracts[0].Code, budget, cs.value)
	} else {
		dst := evmx.Addr(cs.world.Contracts[0].Addr)
		if to != nil {
			dst = *to
		}
		db.Prepare(rules, cfg.Origin, cfg.Coinbase, &dst, vm.ActivePrecompiles(rules), nil)
		res.ret, res.gas, res.err = env.Call(cfg.Origin, dst, cs.input, budget, cs.value)
	}
	return res
}

var c29ForkWeights = []int{1, 1, 1, 2, 5, 4, 4, 5, 7, 6, 4, 6, 10, 9, 9, 26}

func c29DrawCase(rt *rapid.T) *c27Case {
	total := 0
	for _, w := range c29ForkWeights {
		total += w
	}
	r := ep.Uniform(rt, "fork", total)
	fork := ep.Amsterdam
	for i, w := range c29ForkWeights {
		if r < w {
			fork = ep.AllForks[i]
			break
		}
		r -= w
	}
	cs := &c27Case{fork: fork}
	wc := ep.WorldConfig{Fork: fork, MinContracts: 2, MaxContracts: 4, RawEntryPct: 3}
	wc.Gen.EffectBias = true
	wc.Gen.MaxBlocks = 7
	w, err := ep.DrawWorld(rt, wc)
	if err != nil {
		rt.Fatalf("VERIF-HARNESS-BUG: evmprog: %v", err)
	}
	cs.world = w
	cs.create = ep.Uniform(rt, "entry-create", 100) < 10
	switch gc := ep.Uniform(rt, "gas-class", 10); {
	case gc < 2:
		cs.gas = uint64(20000 + ep.Uniform(rt, "gas", 80000))
		cs.gasClass = "20k-100k"
	case gc < 7:
		cs.gas = uint64(100000 + ep.Uniform(rt, "gas", 900000))
		cs.gasClass = "100k-1M"
	default:
		cs.gas = uint64(1000000 + ep.Uniform(rt, "gas", 1000000)*4)
		cs.gasClass = "1M-5M"
	}
	if fork >= ep.Amsterdam {
		cs.resv = []uint64{0, 0, 1000, 200_000, 10_000_000}[ep.Uniform(rt, "reservoir", 5)]
	}
	cs.value = new(uint256.Int)
	if ep.Uniform(rt, "value", 4) == 0 {
		cs.value = uint256.NewInt(1)
	}
	cs.input = rapid.SliceOfN(rapid.Byte(), 0, 64).Draw(rt, "calldata")
	cs.pre = evmx.Pre{ContractBalance: []uint64{0, 1000, 1_000_000}[ep.Uniform(rt, "contract-balance", 3)], EOABalance: 5}
	cs.pre.Storage = map[int]map[common.Hash]common.Hash{}
	slots := []common.Hash{{}, {31: 1}, {31: 2}, {31: 3}}
	for i := range w.Contracts {
		n := ep.Uniform(rt, "prestorage-n", 3)
		if n == 0 {
			continue
		}
		cs.pre.Storage[i] = map[common.Hash]common.Hash{}
		for j := 0; j < n; j++ {
			k := slots[ep.Uniform(rt, "prestorage-slot", len(slots))]
			cs.pre.Storage[i][k] = common.Hash{31: byte(1 + ep.Uniform(rt, "prestorage-val", 2))}
		}
	}
	return cs
}

func TestVerifC29Frames(t *testing.T) {
	st := vs.New("C29", t)
	vs.Check(t, 1, func(rt *rapid.T) {
		c := st.Case()
		cs := c29DrawCase(rt)
		base := evmx.NewState()
		evmx.Install(base, cs.world, cs.pre)
		rules := evmx.Rules(cs.fork)
		rootBefore := base.Copy().IntermediateRoot(rules)

		res, mon := c29Run(cs, base)
		if res.panic != "" {
			rt.Fatalf("C29: panic during execution: %s\n%s", res.panic, cs.dump())
		}
		if len(mon.viol) > 0 {
			rt.Fatalf("C29: %d violation(s), first: %s\n%s", len(mon.viol), mon.viol[0], cs.dump())
		}
		if len(mon.frames) != 0 {
			rt.Fatalf("VERIF-HARNESS-BUG: %d frames left open", len(mon.frames))
		}
		// Whole-state check for a failed top-level frame: nothing but the creator's nonce
		// (creation entry) may differ once the transaction is finalised.
		topFailed := res.err != nil && !(errors.Is(res.err, vm.ErrCodeStoreOutOfGas) && !rules.IsHomestead)
		if topFailed {
			after := res.db
			if len(after.Logs()) != 0 {
				rt.Fatalf("C29: top-level frame failed (%v) but %d logs remain\n%s", res.err, len(after.Logs()), cs.dump())
			}
			if after.GetRefund() != 0 {
				rt.Fatalf("C29: top-level frame failed (%v) but refund counter is %d\n%s", res.err, after.GetRefund(), cs.dump())
			}
			if cs.create {
				after.SetNonce(evmx.Origin, 1, tracing.NonceChangeUnspecified)
			}
			after.Finalise(rules)
			if rootAfter := after.IntermediateRoot(rules); rootAfter != rootBefore {
				rt.Fatalf("C29: top-level frame failed (%v) but the state root changed %x -> %x\n%s", res.err, rootBefore, rootAfter, cs.dump())
			}
		}

		nt := mon.failedEffects > 0 || (mon.staticDenied > 0)
		h := fmt.Sprintf("%d/%d/%d/%v/%s/%x", cs.fork, cs.gas, cs.resv, cs.create, cs.value, cs.input)
		for _, k := range cs.world.Contracts {
			h += fmt.Sprintf("/%x", k.Code)
		}
		c.NonTrivial(nt, h)
		c.Class("fork:" + cs.fork.String())
		c.Class("top:" + evmx.ErrClass(res.err))
		keys := make([]string, 0, len(mon.classes))
		for k := range mon.classes {
			keys = append(keys, k)
		}
		sort.Strings(keys)
		for _, k := range keys {
			c.Class(k)
		}
		switch {
		case mon.failedEffects >= 3:
			c.Class("failed-frames-with-2+-effect-kinds:3+")
		case mon.failedEffects >= 1:
			c.Class("failed-frames-with-2+-effect-kinds:1-2")
		case mon.failedFrames > 0:
			c.Class("failed-frames:only-trivial")
		default:
			c.Class("failed-frames:none")
		}
		if mon.staticDenied > 0 {
			c.Class("static:write-denied")
		}
		if mon.staticFrames > 0 {
			c.Class("static:frames")
		}
		if mon.untracked > 0 {
			c.Class("untracked-frames(>3000)")
		}
		c.Classf("max-effect-kinds:%d", mon.maxKinds)
		c.Sample(nt, func() any {
			d := cs.describe()
			d["failedFrames"], d["failedWith2Kinds"], d["staticDenied"], d["result"] = mon.failedFrames, mon.failedEffects, mon.staticDenied, evmx.ErrClass(res.err)
			return d
		})
	})
}

// ---------------------------------------------------------------------------
// Multi-transaction histories (TestVerifC29History).
//
// A failed frame must restore what was there at frame entry whatever the history of
// the touched state is. go-ethereum keeps a slot's value in up to four tiers (dirty
// in this transaction, pending from earlier transactions of the block, origin cache,
// disk); which tier holds the entry value of a frame depends on what earlier
// transactions of the same block and enclosing frames did. So: 2-3 executions run on
// ONE StateDB separated by Finalise (sometimes IntermediateRoot), all of them under
// the shadow undo log. The callee programs are wrapped by a harness-built caller (the
// wrapper of the property's quantifier): it writes pool slots with pool values
// (literal or taken from calldata, so the same code writes other values in the next
// transaction), calls generated contracts through CALL/CALLCODE/DELEGATECALL/
// STATICCALL and ends successfully or, if calldata says so, fails.
//
// Second, metamorphic oracle: the final transaction is also run on a state in which
// the earlier transactions were COMMITTED and reopened from the database. Whether
// earlier effects are pending or on disk must not change what the final
// transaction's (failed/static) frames leave behind: observables and the state root
// must agree, and if the top-level frame failed the root must equal the committed
// root before it.
// ---------------------------------------------------------------------------

type c29Tx struct {
	entry     int // index into world.Contracts; len(Contracts) = the wrapper
	gas, resv uint64
	value     *uint256.Int
	input     []byte
	interRoot bool // IntermediateRoot after the transaction (always before Byzantium)
}

type c29History struct {
	cs           *c27Case // fork, world, pre-state (per-tx fields unused)
	wrapAddr     common.Address
	wrapCode     []byte
	wrapDesc     string
	wrapStorage  map[common.Hash]common.Hash
	preCommitted bool // pre-state committed to the database (else pending, like an earlier tx of the block)
	txs          []c29Tx
}

// Slots of the generator's slot pool (kit/evmprog: 0, 1, 2, 2^256-1) plus slot 3 (its SSTORE sink).
var (
	c29Slots    = []common.Hash{{}, {31: 1}, {31: 2}, {31: 3}, common.HexToHash("0xffffffffffffffffffffffffffffffffffffffffffffffffffffffffffffffff")}
	c29PoolVals = [][]byte{nil, {1}, {2}}
)

// c29DrawWrapper assembles the caller wrapper. Calldata layout it understands: words
// 0..3 are values for its stores, word 4 != 0 makes the top-level frame fail at the end.
func c29DrawWrapper(rt *rapid.T, fork ep.Fork, ncontracts int) ([]byte, string) {
	a := ep.NewAsm(fork >= ep.Shanghai)
	desc := ""
	fail := func() {
		if fork >= ep.Byzantium {
			a.PushU(0).PushU(0).Op(ep.REVERT)
		} else {
			a.Op(ep.INVALID)
		}
	}
	// forward the calldata to the callees
	a.Op(ep.CALLDATASIZE).PushU(0).PushU(0).Op(ep.CALLDATACOPY)
	pushVal := func() string {
		if ep.Uniform(rt, "w-val-src", 2) == 0 {
			v := c29PoolVals[ep.Uniform(rt, "w-val", len(c29PoolVals))]
			a.Push(v)
			return fmt.Sprintf("%x", v)
		}
		j := ep.Uniform(rt, "w-val-word", 4)
		a.PushU(uint64(32 * j)).Op(ep.CALLDATALOAD)
		return fmt.Sprintf("cd%d", j)
	}
	calls := []byte{ep.CALL, ep.CALL, ep.CALLCODE, ep.CALLCODE}
	if fork >= ep.Homestead {
		calls = append(calls, ep.DELEGATECALL, ep.DELEGATECALL, ep.DELEGATECALL)
	}
	if fork >= ep.Byzantium {
		calls = append(calls, ep.STATICCALL)
	}
	n := 3 + ep.Uniform(rt, "w-steps", 7)
	for i := 0; i < n; i++ {
		w := []int{6, 5, 0, 1}
		if fork >= ep.Cancun {
			w[2] = 1
		}
		r := ep.Uniform(rt, "w-step", w[0]+w[1]+w[2]+w[3])
		switch {
		case r < w[0]:
			slot := c29Slots[ep.Uniform(rt, "w-slot", len(c29Slots))]
			v := pushVal()
			a.Push(slot[:]).Op(ep.SSTORE)
			desc += fmt.Sprintf("SSTORE(%x,%s);", new(big.Int).SetBytes(slot[:]), v)
		case r < w[0]+w[1]:
			op := calls[ep.Uniform(rt, "w-call-op", len(calls))]
			tgt := ep.Uniform(rt, "w-call-target", ncontracts)
			gas := []uint64{2300, 30000, 100000, 100000, 300000, 1000000}[ep.Uniform(rt, "w-call-gas", 6)]
			a.PushU(0).PushU(0).Op(ep.CALLDATASIZE).PushU(0)
			val := uint64(0)
			if op == ep.CALL || op == ep.CALLCODE {
				if ep.Uniform(rt, "w-call-value", 3) == 0 {
					val = 1
				}
				a.PushU(val)
			}
			a.PushAddr(ep.ContractAddr(tgt)).PushU(gas).Op(op)
			must := ep.Uniform(rt, "w-call-must", 10) == 0
			if must {
				a.Op(ep.ISZERO).IfElse(fail, nil)
			} else {
				a.Op(ep.POP)
			}
			desc += fmt.Sprintf("%s(c%d,gas=%d,value=%d,must=%v);", ep.OpName(op), tgt, gas, val, must)
		case r < w[0]+w[1]+w[2]:
			slot := c29Slots[ep.Uniform(rt, "w-slot", len(c29Slots))]
			v := pushVal()
			a.Push(slot[:]).Op(ep.TSTORE)
			desc += fmt.Sprintf("TSTORE(%x,%s);", new(big.Int).SetBytes(slot[:]), v)
		default:
			a.PushU(32).PushU(0).Op(ep.LOG0)
			desc += "LOG0;"
		}
	}
	a.PushU(128).Op(ep.CALLDATALOAD).IfElse(fail, nil)
	a.Op(ep.STOP)
	code, err := a.Bytes()
	if err != nil {
		rt.Fatalf("VERIF-HARNESS-BUG: wrapper assembly: %v", err)
	}
	return code, desc + "cd4?fail:STOP"
}

func c29DrawTx(rt *rapid.T, h *c29History) c29Tx {
	tx := c29Tx{}
	n := len(h.cs.world.Contracts)
	tx.entry = n
	if ep.Uniform(rt, "tx-entry-contract", 5) == 0 {
		tx.entry = ep.Uniform(rt, "tx-entry", n)
	}
	switch gc := ep.Uniform(rt, "tx-gas-class", 10); {
	case gc < 1:
		tx.gas = uint64(20000 + ep.Uniform(rt, "tx-gas", 80000))
	case gc < 6:
		tx.gas = uint64(100000 + ep.Uniform(rt, "tx-gas", 900000))
	default:
		tx.gas = uint64(1000000 + ep.Uniform(rt, "tx-gas", 1000000)*4)
	}
	if h.cs.fork >= ep.Amsterdam {
		tx.resv = []uint64{0, 0, 1000, 200_000, 10_000_000}[ep.Uniform(rt, "tx-reservoir", 5)]
	}
	tx.value = new(uint256.Int)
	if ep.Uniform(rt, "tx-value", 4) == 0 {
		tx.value = uint256.NewInt(1)
	}
	for j := 0; j < 4; j++ {
		var word [32]byte
		switch r := ep.Uniform(rt, "tx-word", 20); {
		case r < 7:
		case r < 14:
			word[31] = 1
		case r < 19:
			word[31] = 2
		default:
			copy(word[:], rapid.SliceOfN(rapid.Byte(), 32, 32).Draw(rt, "tx-word-bytes"))
		}
		tx.input = append(tx.input, word[:]...)
	}
	var sel [32]byte
	if ep.Uniform(rt, "tx-fail", 10) == 0 {
		sel[31] = 1
	}
	tx.input = append(tx.input, sel[:]...)
	tx.input = append(tx.input, rapid.SliceOfN(rapid.Byte(), 0, 32).Draw(rt, "tx-tail")...)
	tx.interRoot = h.cs.fork < ep.Byzantium || ep.Uniform(rt, "tx-interroot", 3) == 0
	return tx
}

func c29DrawHistory(rt *rapid.T) *c29History {
	cs := c29DrawCase(rt)
	cs.create = false
	h := &c29History{cs: cs}
	n := len(cs.world.Contracts)
	h.wrapAddr = evmx.Addr(ep.ContractAddr(n))
	h.wrapCode, h.wrapDesc = c29DrawWrapper(rt, cs.fork, n)
	h.wrapStorage = map[common.Hash]common.Hash{}
	for j, k := 0, ep.Uniform(rt, "w-prestorage-n", 4); j < k; j++ {
		h.wrapStorage[c29Slots[ep.Uniform(rt, "w-prestorage-slot", len(c29Slots))]] = common.Hash{31: byte(1 + ep.Uniform(rt, "w-prestorage-val", 2))}
	}
	h.preCommitted = ep.Uniform(rt, "pre-committed", 4) != 0
	ntx := 2 + ep.Uniform(rt, "ntx", 2)
	for i := 0; i < ntx; i++ {
		h.txs = append(h.txs, c29DrawTx(rt, h))
	}
	return h
}

func (h *c29History) dump() string {
	s := h.cs.dump()
	s += fmt.Sprintf("  wrapper %x: %s\n  wrapper code: %x\n  wrapper pre-storage: %v\n  pre-state committed: %v\n", h.wrapAddr, h.wrapDesc, h.wrapCode, h.wrapStorage, h.preCommitted)
	for i, tx := range h.txs {
		s += fmt.Sprintf("  tx%d: entry=%d gas=%d reservoir=%d value=%s interRoot=%v input=%x\n", i, tx.entry, tx.gas, tx.resv, tx.value, tx.interRoot, tx.input)
	}
	return s + "  (per-transaction gas/value/calldata above override the single-call fields)\n"
}

// install writes the pre-state (world + wrapper) into a fresh database and returns a
// state on it: reopened from the committed root, or finalised only.
func (h *c29History) install() (db *state.StateDB, committedRoot common.Hash, err error) {
	rules := evmx.Rules(h.cs.fork)
	db = evmx.NewState()
	evmx.Install(db, h.cs.world, h.cs.pre)
	db.CreateAccount(h.wrapAddr)
	db.SetCode(h.wrapAddr, h.wrapCode, tracing.CodeChangeUnspecified)
	db.SetNonce(h.wrapAddr, 1, tracing.NonceChangeUnspecified)
	if h.cs.pre.ContractBalance > 0 {
		db.SetBalance(h.wrapAddr, uint256.NewInt(h.cs.pre.ContractBalance), tracing.BalanceChangeUnspecified)
	}
	for _, k := range c29Slots {
		if v, ok := h.wrapStorage[k]; ok {
			db.SetState(h.wrapAddr, k, v)
		}
	}
	db.Finalise(rules)
	if !h.preCommitted {
		return db, types.EmptyRootHash, nil
	}
	root, err := db.Commit(rules, 0)
	if err != nil {
		return nil, common.Hash{}, err
	}
	db, err = state.New(root, db.Database())
	return db, root, err
}

func (h *c29History) txHash(i int) common.Hash { return common.Hash{0: 0x29, 31: byte(i + 1)} }

// exec runs transaction i on db under a fresh monitor.
func (h *c29History) exec(db *state.StateDB, i int, blockStart func(common.Address, common.Hash) common.Hash) (c27Result, *c29Monitor) {
	tx := h.txs[i]
	tcs := *h.cs
	tcs.gas, tcs.resv, tcs.value, tcs.input, tcs.create = tx.gas, tx.resv, tx.value, tx.input, false
	to := h.wrapAddr
	if tx.entry < len(h.cs.world.Contracts) {
		to = evmx.Addr(h.cs.world.Contracts[tx.entry].Addr)
	}
	db.SetTxContext(h.txHash(i), i, uint32(i+1))
	mon := &c29Monitor{db: db, rules: evmx.Rules(h.cs.fork), classes: map[string]int{}, blockStart: blockStart}
	return c29Exec(&tcs, db, &to, mon), mon
}

type c29Log struct {
	addr   common.Address
	topics string
	data   string
}

func c29TxLogs(db *state.StateDB, thash common.Hash) []c29Log {
	var out []c29Log
	for _, l := range db.GetLogs(thash, 0, common.Hash{}, 0) {
		out = append(out, c29Log{l.Address, fmt.Sprintf("%x", l.Topics), fmt.Sprintf("%x", l.Data)})
	}
	return out
}

func TestVerifC29History(t *testing.T) {
	st := vs.New("C29", t)
	vs.Check(t, 0.7, func(rt *rapid.T) {
		c := st.Case()
		h := c29DrawHistory(rt)
		rules := evmx.Rules(h.cs.fork)
		last := len(h.txs) - 1

		// Block-start values, read from a state of its own.
		pristine, _, err := h.install()
		if err != nil {
			rt.Fatalf("VERIF-HARNESS-BUG: install: %v", err)
		}
		blockStart := func(a common.Address, k common.Hash) common.Hash {
			if !h.preCommitted {
				return common.Hash{} // nothing on disk: the pre-state itself is pending
			}
			return pristine.GetState(a, k)
		}

		// checked runs one transaction and applies the frame oracle.
		checked := func(db *state.StateDB, i int, variant string) (c27Result, *c29Monitor) {
			res, mon := h.exec(db, i, blockStart)
			if res.panic != "" {
				rt.Fatalf("C29: panic during tx%d (%s): %s\n%s", i, variant, res.panic, h.dump())
			}
			if len(mon.viol) > 0 {
				rt.Fatalf("C29: tx%d (%s): %d violation(s), first: %s\n%s", i, variant, len(mon.viol), mon.viol[0], h.dump())
			}
			if len(mon.frames) != 0 {
				rt.Fatalf("VERIF-HARNESS-BUG: %d frames left open", len(mon.frames))
			}
			if res.err != nil && !(errors.Is(res.err, vm.ErrCodeStoreOutOfGas) && !rules.IsHomestead) {
				if n := len(db.GetLogs(h.txHash(i), 0, common.Hash{}, 0)); n != 0 {
					rt.Fatalf("C29: tx%d (%s): top-level frame failed (%v) but %d logs remain\n%s", i, variant, res.err, n, h.dump())
				}
				if db.GetRefund() != 0 {
					rt.Fatalf("C29: tx%d (%s): top-level frame failed (%v) but refund counter is %d\n%s", i, variant, res.err, db.GetRefund(), h.dump())
				}
			}
			return res, mon
		}

		// History A: everything in one block on one StateDB (Finalise between transactions).
		dbA, _, err := h.install()
		if err != nil {
			rt.Fatalf("VERIF-HARNESS-BUG: install: %v", err)
		}
		total := &c29Monitor{classes: map[string]int{}}
		earlierChanged := false
		for i := 0; i < last; i++ {
			_, mon := checked(dbA, i, "one block")
			for _, k := range mon.topKeys {
				if k.kind == kStorage && mon.read(k) != mon.frames0Before(k) {
					earlierChanged = true
				}
			}
			total.add(mon)
			dbA.Finalise(rules)
			if h.txs[i].interRoot {
				dbA.IntermediateRoot(rules)
			}
		}
		resA, monA := checked(dbA, last, "one block")
		total.add(monA)

		// History B: earlier transactions committed and the state reopened.
		dbB, _, err := h.install()
		if err != nil {
			rt.Fatalf("VERIF-HARNESS-BUG: install: %v", err)
		}
		for i := 0; i < last; i++ {
			checked(dbB, i, "earlier txs, to be committed")
			dbB.Finalise(rules)
			if h.txs[i].interRoot {
				dbB.IntermediateRoot(rules)
			}
		}
		rootBefore, err := dbB.Commit(rules, 1)
		if err != nil {
			rt.Fatalf("VERIF-HARNESS-BUG: commit: %v", err)
		}
		if dbB, err = state.New(rootBefore, dbB.Database()); err != nil {
			rt.Fatalf("VERIF-HARNESS-BUG: reopen: %v", err)
		}
		resB, monB := checked(dbB, last, "earlier txs committed")

		// Metamorphic comparison. Only claimed when the final transaction had failed or
		// static frames: that is what the property speaks about.
		relevant := monA.failedFrames+monA.staticFrames > 0 || monB.failedFrames+monB.staticFrames > 0
		if relevant {
			if (resA.err == nil) != (resB.err == nil) || evmx.ErrClass(resA.err) != evmx.ErrClass(resB.err) {
				rt.Fatalf("C29: final tx ends with %v after finalised earlier txs but with %v after committed earlier txs\n%s", resA.err, resB.err, h.dump())
			}
			keys := map[c29Key]bool{}
			var order []c29Key
			addKey := func(k c29Key) {
				if !keys[k] && k.kind != kLogs {
					keys[k] = true
					order = append(order, k)
				}
			}
			for _, k := range monA.topKeys {
				addKey(k)
			}
			for _, k := range monB.topKeys {
				addKey(k)
			}
			addrs := []common.Address{h.wrapAddr}
			for _, ct := range h.cs.world.Contracts {
				addrs = append(addrs, evmx.Addr(ct.Addr))
			}
			for _, a := range addrs {
				for _, s := range c29Slots {
					addKey(c29Key{kind: kStorage, addr: a, slot: s})
				}
			}
			ra, rb := &c29Monitor{db: dbA}, &c29Monitor{db: dbB}
			for _, k := range order {
				if va, vb := ra.read(k), rb.read(k); va != vb {
					rt.Fatalf("C29: after the final tx (failed frames: %d) %s reads %x when the earlier txs were only finalised, %x when they were committed\n%s",
						monA.failedFrames, k, va, vb, h.dump())
				}
			}
			la, lb := c29TxLogs(dbA, h.txHash(last)), c29TxLogs(dbB, h.txHash(last))
			if fmt.Sprint(la) != fmt.Sprint(lb) {
				rt.Fatalf("C29: logs of the final tx differ: %v (earlier txs finalised) vs %v (committed)\n%s", la, lb, h.dump())
			}
		}
		topFailed := resA.err != nil && !(errors.Is(resA.err, vm.ErrCodeStoreOutOfGas) && !rules.IsHomestead)
		if relevant || topFailed {
			dbA.Finalise(rules)
			rootA := dbA.IntermediateRoot(rules)
			if topFailed && rootA != rootBefore {
				rt.Fatalf("C29: top-level frame of the final tx failed (%v) but the state root changed %x -> %x\n%s", resA.err, rootBefore, rootA, h.dump())
			}
			dbB.Finalise(rules)
			if rootB := dbB.IntermediateRoot(rules); relevant && rootA != rootB {
				rt.Fatalf("C29: state root after the final tx is %x when the earlier txs were only finalised, %x when they were committed\n%s", rootA, rootB, h.dump())
			}
		}

		nt := total.failedEffects > 0 || total.staticDenied > 0
		d := fmt.Sprintf("H/%d/%v/%x/%x", h.cs.fork, h.preCommitted, h.wrapCode, h.wrapStorage)
		for _, tx := range h.txs {
			d += fmt.Sprintf("/%d.%d.%d.%s.%x", tx.entry, tx.gas, tx.resv, tx.value, tx.input)
		}
		for _, k := range h.cs.world.Contracts {
			d += fmt.Sprintf("/%x", k.Code)
		}
		c.NonTrivial(nt, d)
		c.Class("fork:" + h.cs.fork.String())
		c.Classf("history:txs=%d", len(h.txs))
		c.Class("history:final-top:" + evmx.ErrClass(resA.err))
		if h.preCommitted {
			c.Class("history:pre-state-committed")
		} else {
			c.Class("history:pre-state-pending")
		}
		if earlierChanged {
			c.Class("history:earlier-tx-changed-storage")
		}
		if relevant {
			c.Class("history:finalise-vs-commit-compared")
		}
		if monA.failedEffects > 0 {
			c.Class("history:final-tx-failed-frame-with-2+-effect-kinds")
		}
		if total.restoredOuter > 0 {
			c.Class("history:failed-frame-restored-slot-written-by-enclosing-frame")
		}
		if monA.restoredOuter > 0 && earlierChanged {
			c.Class("history:final-tx-failed-frame-restored-enclosing-write-after-earlier-tx-changed-storage")
		}
		if total.restoredToOrig > 0 {
			c.Class("history:failed-frame-restored-block-start-value-of-slot-changed-by-earlier-tx")
		}
		keys := make([]string, 0, len(total.classes))
		for k := range total.classes {
			keys = append(keys, k)
		}
		sort.Strings(keys)
		for _, k := range keys {
			c.Class(k)
		}
		if total.staticDenied > 0 {
			c.Class("static:write-denied")
		}
		if total.untracked > 0 {
			c.Class("untracked-frames(>3000)")
		}
		c.Sample(nt, func() any {
			m := h.cs.describe()
			delete(m, "gas")
			delete(m, "calldata")
			delete(m, "value")
			delete(m, "reservoir")
			m["wrapper"], m["txs"], m["preCommitted"] = h.wrapDesc, len(h.txs), h.preCommitted
			m["failedFrames"], m["failedWith2Kinds"], m["finalResult"] = total.failedFrames, total.failedEffects, evmx.ErrClass(resA.err)
			return m
		})
	})
}

// frames0Before returns the value k had when the (finished) top-level frame first
// changed it, i.e. at the start of the transaction.
func (m *c29Monitor) frames0Before(k c29Key) common.Hash { return m.topBefore[k] }

// add accumulates the counters of one transaction's monitor.
func (m *c29Monitor) add(o *c29Monitor) {
	m.failedFrames += o.failedFrames
	m.failedEffects += o.failedEffects
	m.staticFrames += o.staticFrames
	m.staticDenied += o.staticDenied
	m.untracked += o.untracked
	m.restoredOuter += o.restoredOuter
	m.restoredToOrig += o.restoredToOrig
	for k, v := range o.classes {
		m.classes[k] += v
	}
}
