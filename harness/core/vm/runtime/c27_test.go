//go:build verif

package runtime

import (
	"bytes"
	"errors"
	"fmt"
	"math/big"
	"runtime/debug"
	"sort"
	"testing"

	"github.com/ethereum/go-ethereum/common"
	"github.com/ethereum/go-ethereum/core/state"
	"github.com/ethereum/go-ethereum/core/tracing"
	"github.com/ethereum/go-ethereum/core/vm"
	"github.com/ethereum/go-ethereum/internal/verifx/evmx"
	"github.com/ethereum/go-ethereum/params"
	"github.com/holiman/uint256"
	"pgregory.net/rapid"
	ep "verif.local/kit/evmprog"
	vs "verif.local/kit/stat"
)

// ---------------------------------------------------------------------------
// Execution monitor (tracing hooks). It re-derives, from the step trace alone,
// the bookkeeping the interpreter must respect: stack bounds and per-opcode stack
// effect, memory size vs. operand ranges, memory-expansion gas (Yellow Paper
// C_mem(w) = 3w + floor(w^2/512), computed in big ints), gas flow between
// consecutive steps of a frame and between frames. Violations are collected, not
// raised inside the hooks (the hooks run inside the interpreter).
// ---------------------------------------------------------------------------

type c27Frame struct {
	typ      byte
	start    uint64
	depth    int
	to       common.Address
	steps    int
	has      bool // a previous completed step exists
	pc       uint64
	op       byte
	gas      uint64
	cost     uint64
	stackLen int
	memLen   uint64
	needMem  uint64 // memory bytes the previous op addresses (0 = none)
	add, sub uint64 // gas returned by / forwarded to children since the previous step
	children int
	input    []byte
}

type c27Monitor struct {
	fork      ep.Fork
	amsterdam bool
	rules     params.Rules
	frames    []*c27Frame
	viol      []string

	steps      int
	maxDepth   int
	maxStack   int
	maxMem     uint64
	expansions int
	nested     int
	slack      uint64 // Amsterdam: execution gas that went to state-gas spill so far (may come back)
	// active precompiles; their price list (RequiredGas) is trusted, that the EVM
	// charges exactly that price is checked
	precompiles vm.PrecompiledContracts
	depthErr    bool
	topUsed     uint64
	topStart    uint64
	topSeen     bool
}

// c27Abort is panicked by the monitor to stop an execution that is about to
// allocate an absurd amount of memory after a violation was recorded (a mutant
// interpreter must not take the shared machine down). run() recovers it.
type c27Abort struct{}

func (m *c27Monitor) bad(format string, a ...any) {
	if len(m.viol) < 5 {
		m.viol = append(m.viol, fmt.Sprintf(format, a...))
	}
}

func (m *c27Monitor) top() *c27Frame {
	if len(m.frames) == 0 {
		return nil
	}
	return m.frames[len(m.frames)-1]
}

// cMem is the Yellow Paper memory cost for w words.
func cMem(w uint64) *big.Int {
	bw := new(big.Int).SetUint64(w)
	sq := new(big.Int).Mul(bw, bw)
	sq.Div(sq, big.NewInt(512))
	return sq.Add(sq, new(big.Int).Mul(bw, big.NewInt(3)))
}

func words(n uint64) uint64 { return n/32 + b2u(n%32 != 0) }

func b2u(b bool) uint64 {
	if b {
		return 1
	}
	return 0
}

// c27Range returns off+len for a memory range taken from the stack (0 when len is
// zero); overflow when it does not fit in 64 bits.
func c27Range(off, ln *uint256.Int) (uint64, bool) {
	if ln.IsZero() {
		return 0, false
	}
	if !ln.IsUint64() || !off.IsUint64() {
		return 0, true
	}
	s := off.Uint64() + ln.Uint64()
	return s, s < off.Uint64()
}

func c27Fixed(off *uint256.Int, n uint64) (uint64, bool) {
	if !off.IsUint64() {
		return 0, true
	}
	s := off.Uint64() + n
	return s, s < n
}

// c27MemNeed computes, independently of the interpreter's memory_table, how many
// bytes of memory the instruction addresses. st is bottom..top.
func c27MemNeed(op byte, st []uint256.Int) (need uint64, overflow bool, lenOperand uint64) {
	n := len(st)
	at := func(k int) *uint256.Int { return &st[n-1-k] }
	rng := func(o, l int) (uint64, bool) { return c27Range(at(o), at(l)) }
	max2 := func(a uint64, ao bool, b uint64, bo bool) (uint64, bool) {
		if ao || bo {
			return 0, true
		}
		if b > a {
			a = b
		}
		return a, false
	}
	ln := func(k int) uint64 {
		if at(k).IsUint64() {
			return at(k).Uint64()
		}
		return 0
	}
	switch {
	case op == ep.MLOAD || op == ep.MSTORE:
		need, overflow = c27Fixed(at(0), 32)
	case op == ep.MSTORE8:
		need, overflow = c27Fixed(at(0), 1)
	case op == ep.KECCAK256 || op == ep.RETURN || op == ep.REVERT || (op >= ep.LOG0 && op <= ep.LOG4):
		need, overflow = rng(0, 1)
		lenOperand = ln(1)
	case op == ep.CALLDATACOPY || op == ep.CODECOPY || op == ep.RETURNDATACOPY:
		need, overflow = rng(0, 2)
		lenOperand = ln(2)
	case op == ep.MCOPY:
		a, ao := rng(0, 2)
		b, bo := rng(1, 2)
		need, overflow = max2(a, ao, b, bo)
		lenOperand = ln(2)
	case op == ep.EXTCODECOPY:
		need, overflow = rng(1, 3)
		lenOperand = ln(3)
	case op == ep.CREATE || op == ep.CREATE2:
		need, overflow = rng(1, 2)
		lenOperand = ln(2)
	case op == ep.CALL || op == ep.CALLCODE:
		a, ao := rng(3, 4)
		b, bo := rng(5, 6)
		need, overflow = max2(a, ao, b, bo)
	case op == ep.DELEGATECALL || op == ep.STATICCALL:
		a, ao := rng(2, 3)
		b, bo := rng(4, 5)
		need, overflow = max2(a, ao, b, bo)
	}
	return
}

// c27ExactBase returns the fork-independent non-memory part of the gas cost for
// instructions whose price is "base + per-word + memory expansion".
func (m *c27Monitor) exactBase(op byte, lenOperand uint64) (uint64, bool) {
	w := words(lenOperand)
	switch {
	case op == ep.MLOAD || op == ep.MSTORE || op == ep.MSTORE8:
		return 3, true
	case op == ep.CALLDATACOPY || op == ep.CODECOPY || op == ep.RETURNDATACOPY || op == ep.MCOPY:
		return 3 + 3*w, true
	case op == ep.KECCAK256:
		return 30 + 6*w, true
	case op >= ep.LOG0 && op <= ep.LOG4:
		return 375 + 375*uint64(op-ep.LOG0) + 8*lenOperand, true
	case op == ep.RETURN || op == ep.REVERT:
		return 0, true
	case op == ep.CREATE && !m.amsterdam:
		if m.fork >= ep.Shanghai {
			return 32000 + 2*w, true
		}
		return 32000, true
	case op == ep.CREATE2 && !m.amsterdam:
		if m.fork >= ep.Shanghai {
			return 32000 + 8*w, true
		}
		return 32000 + 6*w, true
	}
	return 0, false
}

func c27NewMonitor(f ep.Fork) *c27Monitor {
	rules := evmx.Rules(f)
	return &c27Monitor{fork: f, amsterdam: rules.IsAmsterdam, rules: rules, precompiles: vm.ActivePrecompiledContracts(rules)}
}

func (m *c27Monitor) hooks() *tracing.Hooks {
	return &tracing.Hooks{OnEnter: m.onEnter, OnExit: m.onExit, OnOpcode: m.onOpcode}
}

func isCreateType(typ byte) bool { return typ == ep.CREATE || typ == ep.CREATE2 }

func (m *c27Monitor) onEnter(depth int, typ byte, from, to common.Address, input []byte, gas uint64, value *big.Int) {
	if depth != len(m.frames) {
		m.bad("OnEnter depth %d with %d open frames", depth, len(m.frames))
	}
	if p := m.top(); p != nil {
		p.children++
		if isCreateType(typ) {
			p.sub += gas // forwarded out of the parent's balance, not part of the opcode cost
		}
		if typ != ep.SELFDESTRUCT {
			m.nested++
		}
	} else {
		m.topStart = gas
	}
	fr := &c27Frame{typ: typ, start: gas, depth: depth, to: to}
	if _, ok := m.precompiles[to]; ok && !isCreateType(typ) && typ != ep.SELFDESTRUCT {
		fr.input = append([]byte{}, input...)
	}
	m.frames = append(m.frames, fr)
	if depth > m.maxDepth {
		m.maxDepth = depth
	}
}

func (m *c27Monitor) onExit(depth int, output []byte, gasUsed uint64, err error, reverted bool) {
	f := m.top()
	if f == nil || f.depth != depth {
		m.bad("OnExit depth %d without matching frame", depth)
		return
	}
	m.frames = m.frames[:len(m.frames)-1]
	if errors.Is(err, vm.ErrDepth) {
		m.depthErr = true
	}
	if gasUsed > f.start {
		m.bad("frame depth %d (%s): gas used %d exceeds gas given %d (err=%v)", depth, ep.OpName(f.typ), gasUsed, f.start, err)
		gasUsed = f.start
	}
	left := f.start - gasUsed
	switch {
	case f.typ == ep.SELFDESTRUCT:
		if gasUsed != 0 {
			m.bad("selfdestruct pseudo-frame used gas %d", gasUsed)
		}
	case evmx.Halts(err, m.rules):
		if left != 0 {
			m.bad("frame depth %d (%s) halted with %v but returned %d of %d gas", depth, ep.OpName(f.typ), err, left, f.start)
		}
	case errors.Is(err, vm.ErrDepth), errors.Is(err, vm.ErrInsufficientBalance), errors.Is(err, vm.ErrNonceUintOverflow):
		if gasUsed != 0 {
			m.bad("frame depth %d refused with %v consumed %d gas", depth, err, gasUsed)
		}
	case f.steps == 0 && err == nil:
		if p, ok := m.precompiles[f.to]; ok && !isCreateType(f.typ) {
			if want := p.RequiredGas(f.input); gasUsed != want {
				m.bad("precompile %x (%s, %d input bytes) succeeded using %d gas, its price is %d", f.to, ep.OpName(f.typ), len(f.input), gasUsed, want)
			}
		} else if gasUsed != 0 && !isCreateType(f.typ) {
			m.bad("frame depth %d (%s to %x) executed no instruction but used %d gas", depth, ep.OpName(f.typ), f.to, gasUsed)
		}
	case f.steps > 0:
		// success, REVERT, or pre-Homestead code-store OOG: unused gas returned exactly
		after, ok := f.after()
		if !ok {
			m.bad("frame depth %d: last step pc=%d %s gas=%d cost=%d underflows", depth, f.pc, ep.OpName(f.op), f.gas, f.cost)
			break
		}
		want := after
		if isCreateType(f.typ) && err == nil && !m.amsterdam {
			dep := uint64(len(output)) * params.CreateDataGas
			if dep > want {
				m.bad("create frame depth %d succeeded with %d gas left but deposit of %d bytes costs %d", depth, after, len(output), dep)
				dep = want
			}
			want -= dep
		}
		switch {
		case m.amsterdam:
			// Code deposit (hash + state gas) and spill/refill move execution gas in
			// ways the step trace does not itemise: bound from above only.
			if left > after+m.slack {
				m.bad("frame depth %d (%s) err=%v returned %d gas but only %d (+%d spill) were left after its last step", depth, ep.OpName(f.typ), err, left, after, m.slack)
			} else if left < after {
				// code deposit: hash cost plus state gas spilled into execution gas; the
				// spilled part comes back if an enclosing frame reverts
				m.slack += after - left
			}
		case left != want:
			m.bad("frame depth %d (%s) err=%v: returned %d gas, trace says %d were left (last step pc=%d %s gas=%d cost=%d, output %d bytes)",
				depth, ep.OpName(f.typ), err, left, want, f.pc, ep.OpName(f.op), f.gas, f.cost, len(output))
		}
	}
	if p := m.top(); p != nil {
		p.add += left
	} else {
		m.topUsed, m.topSeen = gasUsed, true
	}
}

// after returns the gas left after the frame's last recorded step.
func (f *c27Frame) after() (uint64, bool) {
	g := new(big.Int).SetUint64(f.gas)
	g.Sub(g, new(big.Int).SetUint64(f.cost))
	g.Add(g, new(big.Int).SetUint64(f.add))
	g.Sub(g, new(big.Int).SetUint64(f.sub))
	if g.Sign() < 0 || !g.IsUint64() {
		return 0, false
	}
	return g.Uint64(), true
}

func (m *c27Monitor) onOpcode(pc uint64, op byte, gas, cost uint64, scope tracing.OpContext, rData []byte, depth int, err error) {
	f := m.top()
	if f == nil || f.depth+1 != depth {
		m.bad("OnOpcode depth %d outside a frame", depth)
		return
	}
	m.steps++
	st := scope.StackData()
	mem := uint64(len(scope.MemoryData()))
	if len(st) > 1024 {
		m.bad("depth %d pc=%d %s: stack holds %d items", depth, pc, ep.OpName(op), len(st))
	}
	if len(st) > m.maxStack {
		m.maxStack = len(st)
	}
	if mem%32 != 0 {
		m.bad("depth %d pc=%d %s: memory length %d not a multiple of 32", depth, pc, ep.OpName(op), mem)
	}
	if mem > m.maxMem {
		m.maxMem = mem
	}
	if f.has {
		// --- the previous step of this frame completed: check its effects ---
		pi := ep.Info(f.op)
		if ep.Active(f.op, m.fork) {
			if want := f.stackLen - pi.Pops + pi.Pushes; len(st) != want {
				m.bad("depth %d pc=%d %s: stack went %d -> %d, opcode effect is -%d +%d", depth, f.pc, ep.OpName(f.op), f.stackLen, len(st), pi.Pops, pi.Pushes)
			}
		}
		wantMem := f.memLen
		if nw := words(f.needMem) * 32; nw > wantMem {
			wantMem = nw
		}
		if mem != wantMem {
			m.bad("depth %d pc=%d %s: memory %d -> %d bytes, operands address %d bytes", depth, f.pc, ep.OpName(f.op), f.memLen, mem, f.needMem)
		}
		after, ok := f.after()
		switch {
		case !ok:
			m.bad("depth %d pc=%d %s: gas %d < cost %d", depth, f.pc, ep.OpName(f.op), f.gas, f.cost)
		case !m.amsterdam:
			if gas != after {
				m.bad("depth %d pc=%d %s: gas %d - cost %d + returned %d - forwarded %d = %d, next step sees %d",
					depth, f.pc, ep.OpName(f.op), f.gas, f.cost, f.add, f.sub, after, gas)
			}
		default:
			if gas > after {
				if gas-after > m.slack {
					m.bad("depth %d pc=%d %s: gas rose to %d, trace allows %d (+%d spilled earlier)", depth, f.pc, ep.OpName(f.op), gas, after, m.slack)
				} else {
					m.slack -= gas - after
				}
			} else {
				m.slack += after - gas // state gas spilled into execution gas
			}
		}
	} else if gas != f.start && !m.amsterdam {
		m.bad("depth %d: first step sees gas %d, frame was entered with %d", depth, gas, f.start)
	} else if gas > f.start {
		m.bad("depth %d: first step sees gas %d > %d given", depth, gas, f.start)
	}
	f.has = false
	if err != nil {
		return // the step did not pass validation / gas charging; OnExit follows
	}
	// --- the step passed stack validation and was charged: check the charge ---
	info := ep.Info(op)
	if ep.Active(op, m.fork) && len(st) < info.Pops {
		m.bad("depth %d pc=%d %s executes with %d stack items, needs %d", depth, pc, ep.OpName(op), len(st), info.Pops)
		return
	}
	if ep.Active(op, m.fork) && len(st)-info.Pops+info.Pushes > 1024 {
		m.bad("depth %d pc=%d %s executes at stack %d and would exceed 1024", depth, pc, ep.OpName(op), len(st))
	}
	if cost > gas {
		m.bad("depth %d pc=%d %s: charged %d with only %d gas", depth, pc, ep.OpName(op), cost, gas)
	}
	var need, lenOp uint64
	if ep.Active(op, m.fork) {
		var ovf bool
		need, ovf, lenOp = c27MemNeed(op, st)
		if ovf {
			m.bad("depth %d pc=%d %s: memory range overflows 64 bits but the step was accepted", depth, pc, ep.OpName(op))
			panic(c27Abort{})
		}
		if need > 0x1FFFFFFFE0 {
			// beyond this size the quadratic term no longer fits 64 bits: no gas limit can pay for it
			m.bad("depth %d pc=%d %s: accepted a memory size of %d bytes, beyond the range whose cost fits 64 bits", depth, pc, ep.OpName(op), need)
			panic(c27Abort{})
		}
	}
	if need > mem {
		m.expansions++
		exp := new(big.Int).Sub(cMem(words(need)), cMem(mem/32))
		bc := new(big.Int).SetUint64(cost)
		if base, exact := m.exactBase(op, lenOp); exact {
			if want := new(big.Int).Add(exp, new(big.Int).SetUint64(base)); want.Cmp(bc) != 0 {
				m.bad("depth %d pc=%d %s: memory %d -> %d bytes must cost %s (base %d + expansion %s), charged %d", depth, pc, ep.OpName(op), mem, words(need)*32, want, base, exp, cost)
			}
		} else if bc.Cmp(exp) < 0 {
			m.bad("depth %d pc=%d %s: memory %d -> %d bytes needs expansion gas %s, charged only %d", depth, pc, ep.OpName(op), mem, words(need)*32, exp, cost)
		}
		if len(m.viol) > 0 && need-mem > 1<<26 {
			panic(c27Abort{})
		}
	} else if base, exact := m.exactBase(op, lenOp); exact && ep.Active(op, m.fork) && cost != base {
		m.bad("depth %d pc=%d %s: no memory growth, cost must be %d, charged %d", depth, pc, ep.OpName(op), base, cost)
	}
	f.has, f.pc, f.op, f.gas, f.cost, f.stackLen, f.memLen, f.needMem = true, pc, op, gas, cost, len(st), mem, need
	f.add, f.sub = 0, 0
	f.steps++
}

// ---------------------------------------------------------------------------
// Case generation and execution
// ---------------------------------------------------------------------------

type c27Case struct {
	fork     ep.Fork
	world    *ep.World
	create   bool // entry point: Create(initcode) instead of Call(contract 0)
	gas      uint64
	resv     uint64 // state-gas reservoir (Amsterdam)
	value    *uint256.Int
	input    []byte
	pre      evmx.Pre
	gasClass string
}

type c27Result struct {
	ret   []byte
	addr  common.Address
	gas   vm.GasBudget
	err   error
	panic string
	db    *state.StateDB
	// aborted: the monitor stopped the run after recording a violation
	aborted bool
}

var c27ForkWeights = []int{3, 3, 3, 3, 4, 3, 4, 5, 6, 6, 4, 6, 9, 9, 10, 22}

func c27DrawFork(rt *rapid.T) ep.Fork {
	total := 0
	for _, w := range c27ForkWeights {
		total += w
	}
	r := ep.Uniform(rt, "fork", total)
	for i, w := range c27ForkWeights {
		if r < w {
			return ep.AllForks[i]
		}
		r -= w
	}
	return ep.Amsterdam
}

var c27GasPool = []uint64{0, 1, 2, 20, 99, 100, 700, 2300, 2301, 9000, 21000, 32000, 53000, 100_000, 100_000, 300_000, 300_000, 1_000_000}
var c27HugeGas = []uint64{1 << 40, 1<<63 - 1, 1 << 63, 1<<64 - 1}

func c27DrawCase(rt *rapid.T) *c27Case {
	cs := &c27Case{fork: c27DrawFork(rt)}
	huge := ep.Uniform(rt, "huge-gas", 99+1) < 12
	wc := ep.WorldConfig{Fork: cs.fork, RawEntryPct: 12, MaxContracts: 4}
	wc.Gen.Bounded = huge
	w, err := ep.DrawWorld(rt, wc)
	if err != nil {
		rt.Fatalf("VERIF-HARNESS-BUG: evmprog: %v", err)
	}
	cs.world = w
	cs.create = ep.Uniform(rt, "entry-create", 99+1) < 20
	switch {
	case huge:
		cs.gas = c27HugeGas[ep.Uniform(rt, "gas", len(c27HugeGas))]
		cs.gasClass = "huge"
	default:
		switch gc := ep.Uniform(rt, "gas-class", 20); {
		case gc < 6:
			cs.gas = c27GasPool[ep.Uniform(rt, "gas", len(c27GasPool))]
			cs.gasClass = "pool"
		case gc < 13:
			cs.gas = uint64(ep.Uniform(rt, "gas", 200000+1))
			cs.gasClass = "uniform200k"
		case gc < 19:
			cs.gas = uint64(200000 + ep.Uniform(rt, "gas", 3000000-200000+1))
			cs.gasClass = "uniform3M"
		default:
			cs.gas = []uint64{5_000_000, params.MaxTxGas - 1, params.MaxTxGas, params.MaxTxGas + 1, 30_000_000}[ep.Uniform(rt, "gas", 4+1)]
			cs.gasClass = "tx-limit"
		}
	}
	if cs.fork >= ep.Amsterdam {
		cs.resv = []uint64{0, 0, 1, 1000, 183_600, 200_000, 10_000_000}[ep.Uniform(rt, "reservoir", 6+1)]
		if huge {
			cs.resv = []uint64{0, 1 << 40, 1<<63 - 1}[ep.Uniform(rt, "reservoir-huge", 2+1)]
			if cs.gas > 1<<63 { // keep exec+state within uint64
				cs.gas = 1 << 63
			}
		}
	}
	switch ep.Uniform(rt, "value", 9+1) {
	case 0, 1:
		cs.value = uint256.NewInt(1)
	case 2:
		cs.value = new(uint256.Int).Lsh(uint256.NewInt(1), 200) // more than the origin owns
	default:
		cs.value = new(uint256.Int)
	}
	if cs.create && cs.fork >= ep.Amsterdam && !cs.value.IsUint64() {
		// From Amsterdam on the sender-balance precheck of a top-level creation is the
		// caller's duty (state transition); evm.Create assumes it was done.
		cs.value = uint256.NewInt(1)
	}
	cs.input = rapid.SliceOfN(rapid.Byte(), 0, 160).Draw(rt, "calldata")
	cs.pre = evmx.Pre{ContractBalance: []uint64{0, 1, 1000, 1_000_000}[ep.Uniform(rt, "contract-balance", 4)], EOABalance: 5}
	cs.pre.Storage = map[int]map[common.Hash]common.Hash{}
	slots := []common.Hash{{}, {31: 1}, {31: 2}, common.BytesToHash(bytes.Repeat([]byte{0xff}, 32))}
	for i := range w.Contracts {
		n := ep.Uniform(rt, "prestorage-n", 2+1)
		if n == 0 {
			continue
		}
		cs.pre.Storage[i] = map[common.Hash]common.Hash{}
		for j := 0; j < n; j++ {
			k := slots[ep.Uniform(rt, "prestorage-slot", len(slots))]
			cs.pre.Storage[i][k] = common.Hash{31: byte(1 + ep.Uniform(rt, "prestorage-val", 2-1+1))}
		}
	}
	return cs
}

func (cs *c27Case) config(db *state.StateDB, tracer *tracing.Hooks) *Config {
	cfg := &Config{
		ChainConfig: evmx.ChainConfig(cs.fork),
		Origin:      evmx.Origin,
		Coinbase:    evmx.Coinbase,
		BlockNumber: big.NewInt(0),
		Time:        0,
		GasLimit:    cs.gas,
		Value:       cs.value.ToBig(),
		State:       db,
		BlobHashes:  []common.Hash{{1}, {2}},
		EVMConfig:   vm.Config{Tracer: tracer},
	}
	setDefaults(cfg)
	if !evmx.Merged(cs.fork) {
		cfg.Random = nil
		cfg.Difficulty = big.NewInt(131072)
	}
	return cfg
}

// run executes the case once on a private copy of the prepared state. It mirrors
// runtime.Call / runtime.Create (same Prepare + NewEnv + evm.Call/Create) but keeps
// the complete GasBudget that the runtime wrappers truncate to its execution part.
func (cs *c27Case) run(base *state.StateDB, tracer *tracing.Hooks) (res c27Result) {
	db := base.Copy()
	res.db = db
	defer func() {
		if r := recover(); r != nil {
			if _, ok := r.(c27Abort); ok {
				res.aborted = true
				return
			}
			res.panic = fmt.Sprintf("%v\n%s", r, debug.Stack())
		}
	}()
	cfg := cs.config(db, tracer)
	env := NewEnv(cfg)
	rules := cfg.ChainConfig.Rules(env.Context.BlockNumber, env.Context.Random != nil, env.Context.Time)
	budget := vm.NewGasBudget(cs.gas, cs.resv)
	if cs.create {
		db.Prepare(rules, cfg.Origin, cfg.Coinbase, nil, vm.ActivePrecompiles(rules), nil)
		res.ret, res.addr, res.gas, res.err = env.Create(cfg.Origin, cs.world.Contracts[0].Code, budget, cs.value)
	} else {
		to := evmx.Addr(cs.world.Contracts[0].Addr)
		db.Prepare(rules, cfg.Origin, cfg.Coinbase, &to, vm.ActivePrecompiles(rules), nil)
		res.ret, res.gas, res.err = env.Call(cfg.Origin, to, cs.input, budget, cs.value)
	}
	return res
}

func (cs *c27Case) describe() map[string]any {
	m := map[string]any{"fork": cs.fork.String(), "gas": cs.gas, "reservoir": cs.resv, "value": cs.value.String(),
		"entry": map[bool]string{false: "call", true: "create"}[cs.create], "calldata": fmt.Sprintf("%x", cs.input),
		"world": cs.world.Describe()}
	for i, c := range cs.world.Contracts {
		m[fmt.Sprintf("code%d", i)] = fmt.Sprintf("%x", c.Code)
	}
	return m
}

func (cs *c27Case) dump() string {
	d := cs.describe()
	keys := make([]string, 0, len(d))
	for k := range d {
		keys = append(keys, k)
	}
	sort.Strings(keys)
	s := ""
	for _, k := range keys {
		s += fmt.Sprintf("  %s: %v\n", k, d[k])
	}
	return s
}

// c27CheckTop checks the result of one top-level execution against the gas given.
func c27CheckTop(cs *c27Case, r c27Result, rules params.Rules) string {
	if r.panic != "" {
		return "runtime panic: " + r.panic
	}
	if r.gas.ExecutionGas > cs.gas {
		return fmt.Sprintf("execution gas left %d exceeds gas given %d (err=%v)", r.gas.ExecutionGas, cs.gas, r.err)
	}
	given := new(big.Int).Add(new(big.Int).SetUint64(cs.gas), new(big.Int).SetUint64(cs.resv))
	left := new(big.Int).Add(new(big.Int).SetUint64(r.gas.ExecutionGas), new(big.Int).SetUint64(r.gas.StateGas))
	if left.Cmp(given) > 0 {
		return fmt.Sprintf("gas left <%d,%d> exceeds gas given <%d,%d> (err=%v)", r.gas.ExecutionGas, r.gas.StateGas, cs.gas, cs.resv, r.err)
	}
	if !rules.IsAmsterdam && r.gas.StateGas != 0 {
		return fmt.Sprintf("state gas %d appeared before Amsterdam", r.gas.StateGas)
	}
	if evmx.Halts(r.err, rules) && r.gas.ExecutionGas != 0 {
		return fmt.Sprintf("exceptional halt %v left %d execution gas", r.err, r.gas.ExecutionGas)
	}
	if cs.gas == 0 && r.gas.ExecutionGas != 0 {
		return "gas appeared from nothing"
	}
	return ""
}

func c27Property(rt *rapid.T, st *vs.S) {
	c := st.Case()
	cs := c27DrawCase(rt)
	base := evmx.NewState()
	evmx.Install(base, cs.world, cs.pre)
	rules := evmx.Rules(cs.fork)

	// 1. monitored path first: a violation stops here, before the unmonitored run could
	// act on it (e.g. allocate unpaid memory)
	mon := c27NewMonitor(cs.fork)
	r2 := cs.run(base, mon.hooks())
	if len(mon.viol) > 0 {
		rt.Fatalf("C27 monitor: %d violation(s), first: %s\n%s", len(mon.viol), mon.viol[0], cs.dump())
	}
	if msg := c27CheckTop(cs, r2, rules); msg != "" {
		rt.Fatalf("C27 (traced run): %s\n%s", msg, cs.dump())
	}
	// 2. production path (no tracer)
	r1 := cs.run(base, nil)
	if msg := c27CheckTop(cs, r1, rules); msg != "" {
		rt.Fatalf("C27 (untraced run): %s\n%s", msg, cs.dump())
	}
	if len(mon.frames) != 0 {
		rt.Fatalf("C27 monitor: %d frames left open\n%s", len(mon.frames), cs.dump())
	}
	if mon.topSeen {
		if mon.topStart != cs.gas {
			rt.Fatalf("C27: top frame entered with %d gas, %d supplied\n%s", mon.topStart, cs.gas, cs.dump())
		}
		if cs.gas-mon.topUsed != r2.gas.ExecutionGas {
			rt.Fatalf("C27: tracer saw %d gas used of %d, result reports %d left\n%s", mon.topUsed, cs.gas, r2.gas.ExecutionGas, cs.dump())
		}
	}
	// 3. the tracer must not change the outcome
	if evmx.ErrClass(r1.err) != evmx.ErrClass(r2.err) || !bytes.Equal(r1.ret, r2.ret) ||
		r1.gas.ExecutionGas != r2.gas.ExecutionGas || r1.gas.StateGas != r2.gas.StateGas {
		rt.Fatalf("C27: traced and untraced runs differ: err %v / %v, gas %v / %v, ret %x / %x\n%s",
			r1.err, r2.err, r1.gas, r2.gas, r1.ret, r2.ret, cs.dump())
	}

	// statistics
	nt := mon.steps >= 10 && (mon.expansions > 0 || mon.nested > 0)
	h := fmt.Sprintf("%d/%d/%d/%v/%s/%x", cs.fork, cs.gas, cs.resv, cs.create, cs.value, cs.input)
	for _, k := range cs.world.Contracts {
		h += fmt.Sprintf("/%x", k.Code)
	}
	c.NonTrivial(nt, h)
	c.Class("fork:" + cs.fork.String())
	c.Class("gas:" + cs.gasClass)
	c.Class("result:" + evmx.ErrClass(r2.err))
	c.Class("entry:" + map[bool]string{false: "call", true: "create"}[cs.create])
	c.Class("term:" + cs.world.Contracts[0].Prog.Term.Kind.String())
	for _, f := range cs.world.Features.Names() {
		c.Class("feat:" + f)
	}
	switch {
	case mon.maxDepth >= 1024:
		c.Class("depth:1024")
	case mon.maxDepth >= 100:
		c.Class("depth:100+")
	case mon.maxDepth >= 2:
		c.Class("depth:2+")
	case mon.maxDepth == 1:
		c.Class("depth:1")
	default:
		c.Class("depth:0")
	}
	if mon.depthErr {
		c.Class("hit:depth-limit")
	}
	if mon.maxStack >= 1024 {
		c.Class("hit:stack-1024")
	}
	if mon.maxMem >= 1<<16 {
		c.Class("hit:mem-64K")
	}
	if mon.expansions > 0 {
		c.Class("hit:mem-expansion")
	}
	if cs.resv > 0 {
		c.Class("hit:reservoir")
	}
	switch {
	case mon.steps >= 10000:
		c.Class("steps:10k+")
	case mon.steps >= 100:
		c.Class("steps:100+")
	case mon.steps >= 10:
		c.Class("steps:10+")
	default:
		c.Class("steps:<10")
	}
	c.Sample(nt, func() any {
		d := cs.describe()
		d["steps"], d["maxDepth"], d["maxMem"], d["result"] = mon.steps, mon.maxDepth, mon.maxMem, evmx.ErrClass(r2.err)
		return d
	})
}

// TestVerifC27Exec: generated worlds and raw bytecode under every rule set.
func TestVerifC27Exec(t *testing.T) {
	st := vs.New("C27", t)
	vs.Check(t, 1, func(rt *rapid.T) { c27Property(rt, st) })
}

// TestVerifC27Api drives the exported runtime.Execute / Call / Create wrappers
// (the property's stated observation points) with raw and generated code and
// checks totality and leftover <= supplied on what they return.
func TestVerifC27Api(t *testing.T) {
	st := vs.New("C27", t)
	vs.Check(t, 0.3, func(rt *rapid.T) {
		c := st.Case()
		cs := c27DrawCase(rt)
		if cs.gas == 0 {
			cs.gas = 1 // the wrappers replace 0 by MaxUint64, which generated (unbounded) programs must not get
		}
		base := evmx.NewState()
		evmx.Install(base, cs.world, cs.pre)
		var (
			left uint64
			err  error
			ret  []byte
			pan  string
			kind = ep.Uniform(rt, "api", 2+1)
			mon  = c27NewMonitor(cs.fork)
		)
		func() {
			defer func() {
				if r := recover(); r != nil {
					if _, ok := r.(c27Abort); !ok {
						pan = fmt.Sprintf("%v\n%s", r, debug.Stack())
					}
				}
			}()
			cfg := cs.config(base.Copy(), mon.hooks())
			switch kind {
			case 0:
				ret, _, err = Execute(cs.world.Contracts[0].Code, cs.input, cfg)
			case 1:
				ret, left, err = Call(evmx.Addr(cs.world.Contracts[0].Addr), cs.input, cfg)
			default:
				ret, _, left, err = Create(cs.world.Contracts[0].Code, cfg)
			}
		}()
		if len(mon.viol) > 0 {
			rt.Fatalf("C27 monitor (runtime API): %s\n%s", mon.viol[0], cs.dump())
		}
		if pan != "" {
			rt.Fatalf("C27: runtime API panicked: %s\n%s", pan, cs.dump())
		}
		if left > cs.gas {
			rt.Fatalf("C27: runtime API returned %d gas of %d supplied (err=%v)\n%s", left, cs.gas, err, cs.dump())
		}
		if kind != 0 && evmx.Halts(err, evmx.Rules(cs.fork)) && left != 0 {
			rt.Fatalf("C27: runtime API halted with %v and %d gas left\n%s", err, left, cs.dump())
		}
		_ = ret
		c.Class([]string{"api:execute", "api:call", "api:create"}[kind])
		c.Class("result:" + evmx.ErrClass(err))
		c.NonTrivial(len(cs.world.Contracts[0].Code) >= 10 && cs.gas >= 100, fmt.Sprintf("%d/%d/%d/%x/%x", kind, cs.fork, cs.gas, cs.world.Contracts[0].Code, cs.input))
	})
}

// FuzzVerifC27Bytes: coverage-guided raw bytecode through the same monitors.
func FuzzVerifC27Bytes(f *testing.F) {
	f.Add([]byte{0x60, 0x01, 0x60, 0x00, 0x52, 0x60, 0x20, 0x60, 0x00, 0xf3}, []byte{}, uint8(15), uint32(100000))
	f.Add([]byte{0x5b, 0x60, 0x00, 0x56}, []byte{1, 2, 3}, uint8(9), uint32(30000))
	f.Add([]byte{0x30, 0x5f, 0x5f, 0x5f, 0x5f, 0x30, 0x5a, 0xf1, 0x00}, []byte{}, uint8(12), uint32(500000))
	f.Add(ep.Deployer([]byte{0x00}, false), []byte{}, uint8(4), uint32(200000))
	f.Fuzz(func(t *testing.T, code, input []byte, forkSel uint8, gas uint32) {
		if len(code) > 4096 || len(input) > 1024 {
			return
		}
		fork := ep.AllForks[int(forkSel)%len(ep.AllForks)]
		prog := &ep.Program{Fork: fork, Features: ep.FRaw, Term: ep.Block{Kind: ep.TRawTail, Raw: code}, Code: code}
		w := &ep.World{Fork: fork, Contracts: []*ep.Contract{{Addr: ep.ContractAddr(0), Prog: prog, Code: code}}}
		cs := &c27Case{fork: fork, world: w, gas: uint64(gas) % 2_000_000, value: new(uint256.Int), input: input,
			pre: evmx.Pre{ContractBalance: 1000, EOABalance: 5}, create: forkSel&0x80 != 0}
		base := evmx.NewState()
		evmx.Install(base, w, cs.pre)
		rules := evmx.Rules(fork)
		mon := c27NewMonitor(fork)
		r := cs.run(base, mon.hooks())
		if len(mon.viol) > 0 {
			t.Fatalf("C27 monitor: %s\n%s", mon.viol[0], cs.dump())
		}
		if msg := c27CheckTop(cs, r, rules); msg != "" {
			t.Fatalf("C27: %s\n%s", msg, cs.dump())
		}
	})
}
