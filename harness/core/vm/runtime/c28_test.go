//go:build verif

package runtime

import (
	"bytes"
	"encoding/binary"
	"errors"
	"fmt"
	"math/big"
	"runtime"
	"runtime/debug"
	"sync"
	"testing"

	"github.com/ethereum/go-ethereum/common"
	"github.com/ethereum/go-ethereum/core"
	"github.com/ethereum/go-ethereum/core/state"
	"github.com/ethereum/go-ethereum/core/tracing"
	"github.com/ethereum/go-ethereum/core/vm"
	"github.com/ethereum/go-ethereum/crypto"
	"github.com/ethereum/go-ethereum/internal/verifx/evmx"
	"github.com/ethereum/go-ethereum/params"
	"github.com/holiman/uint256"
	"pgregory.net/rapid"
	ep "verif.local/kit/evmprog"
	vs "verif.local/kit/stat"
)

// ---------------------------------------------------------------------------
// C28: results are independent of pooling, caching, call depth and concurrency.
//
// A case is a set of 4-8 (state, message) pairs, each with its own rule set and
// world (all worlds reuse the same contract addresses, so address-keyed caching
// would mix them up). R(pair) = (return data, error class, gas left in both
// dimensions, logs, finalised state root). The baseline R0 is taken right after
// two GC cycles (which empty sync.Pools: fresh stack arena, fresh memory objects),
// in a new EVM without shared caches. It must be reproduced
//   (a) after the other pairs ran first, in a drawn order, with every EVM released
//       so that stack arenas and memory buffers are recycled dirty,
//   (c) with a shared jump-destination cache and precompile cache, cold and warm,
//   (b) when the message is forwarded through 1-8 wrapper frames (for messages
//       whose behaviour cannot depend on the small gas difference), and
//   (d) when all pairs run concurrently in goroutines sharing the caches.
// Self-checking template programs carry the expected return data by construction:
// unwritten memory reads as zero, a callee's stack and memory leftovers are
// invisible to the caller, a repeated precompile call returns the same bytes,
// a creation whose init code jumps to a JUMPDEST succeeds and one that jumps into
// push data fails - also onto an address that already exists as a funded account
// without code, and whatever init code was analysed before it.
// ---------------------------------------------------------------------------

type c28Pair struct {
	kind     string
	cs       *c27Case
	base     *state.StateDB
	expect   []byte // self-checking templates: exact return data
	hasExp   bool
	expErrc  string // self-checking creation message: exact error class ("" = not fixed)
	polluter bool
	// funded: accounts that exist in the pair's state with a balance and nothing else
	// (no code, nonce 0) and that a creation of this message targets
	funded []common.Address
}

func (p *c28Pair) isFunded(a common.Address) bool {
	for _, f := range p.funded {
		if f == a {
			return true
		}
	}
	return false
}

// fund turns the given addresses into pre-existing code-less accounts (skipping
// any that exist already) and makes that part of the committed pre-state.
func (p *c28Pair) fund(addrs []common.Address) {
	for _, a := range addrs {
		if p.base.Exist(a) || p.isFunded(a) {
			continue
		}
		p.base.SetBalance(a, uint256.NewInt(1), tracing.BalanceChangeUnspecified)
		p.funded = append(p.funded, a)
	}
	p.base.Finalise(evmx.Rules(p.cs.fork))
}

type c28Result struct {
	ret    []byte
	errc   string
	ok     bool
	gasE   uint64
	gasS   uint64
	logs   common.Hash
	nlogs  int
	root   common.Hash
	panic  string
	direct bool
}

func (r c28Result) String() string {
	return fmt.Sprintf("{err=%s gas=<%d,%d> ret=%s logs=%d/%x root=%x}", r.errc, r.gasE, r.gasS, c28Hex(r.ret), r.nlogs, r.logs[:4], r.root[:6])
}

// c28Hex renders data for a report, abbreviating long data: rapid cannot load a fail
// file that has a line above 64 KiB.
func c28Hex(b []byte) string {
	if len(b) <= 256 {
		return fmt.Sprintf("%x", b)
	}
	return fmt.Sprintf("%x...(%d bytes, keccak %x)", b[:64], len(b), crypto.Keccak256(b)[:8])
}

func c28Same(a, b c28Result) bool {
	return a.errc == b.errc && a.gasE == b.gasE && a.gasS == b.gasS && bytes.Equal(a.ret, b.ret) && a.logs == b.logs && a.root == b.root
}

func c28LogsHash(db *state.StateDB) (common.Hash, int) {
	var buf []byte
	logs := db.Logs()
	for _, l := range logs {
		buf = append(buf, l.Address[:]...)
		for _, t := range l.Topics {
			buf = append(buf, t[:]...)
		}
		buf = append(buf, byte(len(l.Topics)))
		buf = append(buf, l.Data...)
		buf = binary.BigEndian.AppendUint64(buf, uint64(len(l.Data)))
	}
	return crypto.Keccak256Hash(buf), len(logs)
}

// c28Exec runs the pair's message on a private copy of its state. to overrides the
// destination (wrapper entry) when non-nil.
func c28Exec(p *c28Pair, jd vm.JumpDestCache, pc *vm.PrecompileCache, release bool, to *common.Address, tracer *tracing.Hooks) (res c28Result) {
	return c28ExecOn(p, p.base.Copy(), jd, pc, release, to, tracer)
}

func c28ExecOn(p *c28Pair, db *state.StateDB, jd vm.JumpDestCache, pc *vm.PrecompileCache, release bool, to *common.Address, tracer *tracing.Hooks) (res c28Result) {
	cs := p.cs
	defer func() {
		if r := recover(); r != nil {
			res.panic = fmt.Sprintf("%v\n%s", r, debug.Stack())
		}
	}()
	cfg := cs.config(db, tracer)
	env := NewEnv(cfg)
	if jd != nil {
		env.SetJumpDestCache(jd)
	}
	if pc != nil {
		env.SetPrecompileCache(pc)
	}
	rules := cfg.ChainConfig.Rules(env.Context.BlockNumber, env.Context.Random != nil, env.Context.Time)
	budget := vm.NewGasBudget(cs.gas, cs.resv)
	var (
		ret []byte
		gas vm.GasBudget
		err error
	)
	if cs.create {
		db.Prepare(rules, cfg.Origin, cfg.Coinbase, nil, vm.ActivePrecompiles(rules), nil)
		ret, _, gas, err = env.Create(cfg.Origin, cs.world.Contracts[0].Code, budget, cs.value)
	} else {
		dst := evmx.Addr(cs.world.Contracts[0].Addr)
		if to != nil {
			dst = *to
		}
		db.Prepare(rules, cfg.Origin, cfg.Coinbase, &dst, vm.ActivePrecompiles(rules), nil)
		ret, gas, err = env.Call(cfg.Origin, dst, cs.input, budget, cs.value)
	}
	res.ret = append([]byte{}, ret...)
	// The caller owns the returned slice: scribbling over it must not reach anybody else.
	for i := range ret {
		ret[i] ^= 0xa5
	}
	res.errc, res.ok = evmx.ErrClass(err), err == nil
	res.gasE, res.gasS = gas.ExecutionGas, gas.StateGas
	res.logs, res.nlogs = c28LogsHash(db)
	db.Finalise(rules)
	res.root = db.IntermediateRoot(rules)
	if release {
		env.Release()
	}
	return res
}

// ---- self-checking templates ------------------------------------------------

func c28World(f ep.Fork, codes ...[]byte) *ep.World {
	w := &ep.World{Fork: f}
	for i, c := range codes {
		prog := &ep.Program{Fork: f, Code: c, Term: ep.Block{Kind: ep.TStop}}
		w.Contracts = append(w.Contracts, &ep.Contract{Addr: ep.ContractAddr(i), Prog: prog, Code: c})
	}
	return w
}

var c28Junk = bytes.Repeat([]byte{0xee}, 32)

// c28AllGas is the gas operand of template calls: "everything" where EIP-150 caps
// the request, a fixed amount before (an unaffordable request fails there).
func c28AllGas(f ep.Fork) []byte {
	if f < ep.Tangerine {
		return []byte{0x01, 0x86, 0xa0} // 100000
	}
	return bytes.Repeat([]byte{0xff}, 8)
}

// polluter: fills 16 KiB of memory and 1000 stack slots with junk, then calls the
// next polluter (3 levels) and stops with everything left in place.
func c28PolluterCode(f ep.Fork, next *[20]byte) []byte {
	a := ep.NewAsm(f >= ep.Shanghai)
	a.PushU(0)
	a.Loop(512, func() {
		// stack: off, counter
		a.Op(ep.DUP1 + 1)                        // off
		a.PushN(c28Junk).Op(ep.SWAP1, ep.MSTORE) // mem[off] = junk
		a.Op(ep.SWAP1).PushU(32).Op(ep.ADD, ep.SWAP1)
	})
	a.Op(ep.POP)
	a.PushN(c28Junk)
	for i := 0; i < 999; i++ {
		a.Op(ep.DUP1)
	}
	if next != nil {
		a.PushU(0).PushU(0).PushU(0).PushU(0).PushU(0).PushAddr(*next).Push(c28AllGas(f)).Op(ep.CALL)
	}
	a.Op(ep.STOP)
	return a.MustBytes()
}

// junk child: leaves k junk words on its stack and 64 junk bytes in memory, returns
// 64 bytes of junk.
func c28JunkChild(f ep.Fork, k int) []byte {
	a := ep.NewAsm(f >= ep.Shanghai)
	a.PushN(c28Junk).PushU(0).Op(ep.MSTORE).PushN(c28Junk).PushU(32).Op(ep.MSTORE)
	a.PushN(c28Junk)
	for i := 1; i < k; i++ {
		a.Op(ep.DUP1)
	}
	a.PushU(64).PushU(0).Op(ep.RETURN)
	return a.MustBytes()
}

func c28DrawTemplate(rt *rapid.T, f ep.Fork) (*ep.World, []byte, string) {
	push0 := f >= ep.Shanghai
	switch ep.Uniform(rt, "template", 4) {
	case 0: // unwritten memory reads as zero
		off := []uint64{0, 1, 31, 32, 100, 1000, 4000, 16000}[ep.Uniform(rt, "zr-off", 8)]
		ln := []uint64{32, 33, 64, 256, 1024, 4096, 16384}[ep.Uniform(rt, "zr-len", 7)]
		a := ep.NewAsm(push0)
		a.Op(ep.MSIZE).PushU(off).Op(ep.MLOAD, ep.OR).PushU(0).Op(ep.MSTORE)
		a.PushU(ln).PushU(0).Op(ep.RETURN)
		return c28World(f, a.MustBytes()), make([]byte, ln), "tpl:zero-memory"
	case 1: // callee stack leftovers are invisible
		k := []int{1, 2, 16, 17, 100, 999, 1020}[ep.Uniform(rt, "sj-k", 7)]
		x := ep.DrawWord(rt, "sj-x")
		s1 := ep.DrawWord(rt, "sj-s")
		child := ep.ContractAddr(1)
		a := ep.NewAsm(push0)
		a.Push(s1)
		a.PushU(0).PushU(0).PushU(0).PushU(0).PushU(0).PushAddr(child).Push(c28AllGas(f)).Op(ep.CALL)
		a.Push(x).Op(ep.DUP1, ep.ADD)         // s1 flag 2x
		a.Op(ep.DUP1+2, ep.DUP1+2, ep.DUP1+2) // s1 flag 2x s1 flag 2x
		a.PushU(0).Op(ep.MSTORE).PushU(32).Op(ep.MSTORE).PushU(64).Op(ep.MSTORE)
		a.Op(ep.SWAP1 + 1) // 2x flag s1
		a.PushU(96).Op(ep.MSTORE).PushU(128).Op(ep.MSTORE).PushU(160).Op(ep.MSTORE)
		a.PushU(192).PushU(0).Op(ep.RETURN)
		xv := new(uint256.Int).SetBytes(x)
		two := new(uint256.Int).Add(xv, xv).Bytes32()
		sv := new(uint256.Int).SetBytes(s1).Bytes32()
		one := common.Hash{31: 1}
		exp := append([]byte{}, two[:]...)
		exp = append(exp, one[:]...)
		exp = append(exp, sv[:]...)
		exp = append(exp, sv[:]...)
		exp = append(exp, one[:]...)
		exp = append(exp, two[:]...)
		return c28World(f, a.MustBytes(), c28JunkChild(f, k)), exp, "tpl:stack-isolation"
	case 2: // callee memory is invisible except through the output range
		child := ep.ContractAddr(1)
		a := ep.NewAsm(push0)
		a.PushU(32).PushU(0x40).PushU(0).PushU(0).PushU(0).PushAddr(child).Push(c28AllGas(f)).Op(ep.CALL)
		a.PushU(0).Op(ep.MSTORE) // flag at 0
		a.PushU(0xa0).PushU(0).Op(ep.RETURN)
		exp := make([]byte, 0xa0)
		exp[31] = 1
		copy(exp[0x40:0x60], c28Junk)
		return c28World(f, a.MustBytes(), c28JunkChild(f, 3)), exp, "tpl:memory-isolation"
	default: // the same precompile call twice gives the same bytes (identity / sha256)
		n := []uint64{0, 1, 32, 100, 1024, 1025, 8191, 8192, 8193}[ep.Uniform(rt, "pc-n", 9)]
		pre := ep.PrecompileAddr([]int{2, 4}[ep.Uniform(rt, "pc-which", 2)])
		a := ep.NewAsm(push0)
		// mem[0:n] = pattern from code (CODECOPY wraps zero beyond code end: fine, deterministic)
		a.PushU(n).PushU(0).PushU(0).Op(ep.CODECOPY)
		outLen := n
		if pre == ep.PrecompileAddr(2) {
			outLen = 32
		}
		o1, o2 := uint64(0x4000), uint64(0x8000)
		for _, o := range []uint64{o1, o2} {
			a.PushU(outLen).PushU(o).PushU(n).PushU(0).PushU(0).PushAddr(pre).Push(c28AllGas(f)).Op(ep.CALL, ep.POP)
		}
		a.PushU(outLen).PushU(o1).Op(ep.KECCAK256).PushU(outLen).PushU(o2).Op(ep.KECCAK256, ep.EQ)
		a.PushU(0).Op(ep.MSTORE).PushU(32).PushU(0).Op(ep.RETURN)
		exp := make([]byte, 32)
		exp[31] = 1
		return c28World(f, a.MustBytes()), exp, "tpl:precompile-repeat"
	}
}

// ---- creations onto pre-existing code-less accounts ---------------------------
//
// A deployment address may exist before the deployment as a plain funded account
// (counterfactual address, or value sent to it earlier). The creation goes ahead
// there, and its init code - like any init code - must be judged by its own
// JUMPDEST analysis, whatever was analysed earlier through the same cache.

// c28Init is a small jumping init code whose outcome is known by construction.
type c28Init struct {
	code    []byte
	good    bool   // the jump lands on a JUMPDEST (else: on a 0x5b inside PUSH1 data)
	runtime []byte // code deployed when good
}

// c28DrawInit draws
//
//	m x (PUSHn <data> POP)  [PUSH1 1] PUSH1 target JUMP|JUMPI  g x INVALID  dest  body
//
// with dest = JUMPDEST (good) or PUSH1 0x5b whose data byte is the target (bad); the
// PUSHn data is dense in 0x5b, and m, n, g move the destination around, so that the
// code/data bitmaps of two drawn init codes disagree at each other's targets. body
// stores a marker in slot 0, optionally logs, and returns 0..3 bytes of code.
func c28DrawInit(rt *rapid.T, allowBad bool) c28Init {
	var c []byte
	for i, m := 0, ep.Uniform(rt, "init-prefix", 4); i < m; i++ {
		n := []int{1, 2, 4, 8, 16, 32}[ep.Uniform(rt, "init-push-n", 6)]
		c = append(c, ep.PUSH1+byte(n-1))
		switch ep.Uniform(rt, "init-data-kind", 3) {
		case 0:
			c = append(c, bytes.Repeat([]byte{ep.JUMPDEST}, n)...)
		case 1:
			for k := 0; k < n; k++ {
				c = append(c, []byte{ep.JUMPDEST, 0x00}[k%2])
			}
		default:
			c = append(c, rapid.SliceOfN(rapid.Byte(), n, n).Draw(rt, "init-data")...)
		}
		c = append(c, ep.POP)
	}
	in := c28Init{good: !(allowBad && ep.Uniform(rt, "init-bad", 4) == 0)}
	cond := ep.Uniform(rt, "init-jumpi", 3) == 0
	gap := ep.Uniform(rt, "init-gap", 3)
	target := len(c) + 3 + gap
	if cond {
		target += 2
		c = append(c, ep.PUSH1, 1)
	}
	if !in.good {
		target++ // the data byte of the PUSH1 below
	}
	c = append(c, ep.PUSH1, byte(target), map[bool]byte{false: ep.JUMP, true: ep.JUMPI}[cond])
	c = append(c, bytes.Repeat([]byte{ep.INVALID}, gap)...)
	if in.good {
		c = append(c, ep.JUMPDEST)
	} else {
		c = append(c, ep.PUSH1, ep.JUMPDEST)
	}
	c = append(c, ep.PUSH1, byte(1+ep.Uniform(rt, "init-marker", 255)), ep.PUSH1, 0, ep.SSTORE)
	if ep.Uniform(rt, "init-log", 3) == 0 {
		c = append(c, ep.PUSH1, 0, ep.PUSH1, 0, ep.LOG0)
	}
	in.runtime = [][]byte{{}, {0x00}, {ep.PUSH1, 0x00, ep.POP}, {ep.JUMPDEST, ep.JUMPDEST}}[ep.Uniform(rt, "init-runtime", 4)]
	for i, b := range in.runtime {
		c = append(c, ep.PUSH1, b, ep.PUSH1, byte(i), ep.MSTORE8)
	}
	c = append(c, ep.PUSH1, byte(len(in.runtime)), ep.PUSH1, 0, ep.RETURN)
	if target > 255 || c[target] != ep.JUMPDEST {
		rt.Fatalf("VERIF-HARNESS-BUG: init code target %d misplaced in %x", target, c)
	}
	in.code = c
	return in
}

// c28DrawCreation draws a message that performs 1-3 creations with c28DrawInit
// codes: a creation message from the origin, or a call of a factory that CREATEs /
// CREATE2s (drawn salts) and returns the resulting address words. It reports the
// creation addresses (to be pre-funded by the caller) and what the message returns.
func c28DrawCreation(rt *rapid.T, f ep.Fork, cs *c27Case, p *c28Pair) []common.Address {
	if ep.Uniform(rt, "creation-shape", 3) == 0 {
		// creation message; the origin's nonce is 1 in every installed state
		in := c28DrawInit(rt, true)
		cs.world, cs.create = c28World(f, in.code), true
		if in.good {
			p.expect, p.hasExp = in.runtime, true
		} else {
			p.expErrc = "invalid-jump"
		}
		p.kind = "create-direct"
		return []common.Address{crypto.CreateAddress(evmx.Origin, 1)}
	}
	factory := evmx.Addr(ep.ContractAddr(0))
	n := 1 + ep.Uniform(rt, "creation-n", 3)
	a := ep.NewAsm(f >= ep.Shanghai)
	var targets []common.Address
	for j := 0; j < n; j++ {
		// A failed creation burns all the gas it was given (all but 1/64 of what is left,
		// everything before EIP-150): only the last creation may fail, and none before
		// EIP-150, so that the factory always gets to return.
		in := c28DrawInit(rt, j == n-1 && f >= ep.Tangerine)
		op := ep.CREATE
		if f >= ep.Constantinople && ep.Uniform(rt, "creation-op", 2) == 1 {
			op = ep.CREATE2
		}
		value := uint64(ep.Uniform(rt, "creation-value", 2))
		s, e := a.Data(in.code)
		a.PushDistance(s, e).PushLabel(s).PushU(0).Op(ep.CODECOPY)
		var addr common.Address
		if op == ep.CREATE2 {
			salt := common.BytesToHash(ep.DrawWord(rt, "creation-salt"))
			a.PushN(salt[:])
			addr = crypto.CreateAddress2(factory, salt, crypto.Keccak256(in.code))
		} else {
			// every creation attempt, CREATE2 included, advances the creator's nonce
			addr = crypto.CreateAddress(factory, uint64(1+j))
		}
		a.PushDistance(s, e).PushU(0).PushU(value).Op(op)
		a.PushU(uint64(0x100 + 32*j)).Op(ep.MSTORE)
		targets = append(targets, addr)
		word := common.Hash{}
		if in.good {
			word = common.BytesToHash(addr[:])
		}
		p.expect = append(p.expect, word[:]...)
	}
	a.PushU(uint64(32 * n)).PushU(0x100).Op(ep.RETURN)
	cs.world, p.hasExp, p.kind = c28World(f, a.MustBytes()), true, "create-factory"
	return targets
}

// c28CreateTargets executes the pair's message once and reports the addresses its
// creation frames ran at (none if the run blew up).
func c28CreateTargets(p *c28Pair) []common.Address {
	var out []common.Address
	r := c28Exec(p, nil, nil, true, nil, &tracing.Hooks{
		OnEnter: func(depth int, typ byte, from, to common.Address, input []byte, gas uint64, value *big.Int) {
			if isCreateType(typ) && len(out) < 8 {
				out = append(out, to)
			}
		},
	})
	if r.panic != "" {
		return nil
	}
	return out
}

// ---- wrappers for the nesting relation ---------------------------------------

func c28WrapAddr(i int) [20]byte { return [20]byte{0x3a, 0xbb, 19: byte(i + 1)} }

// wrapper i forwards calldata to next with all gas and relays result and status.
func c28WrapperCode(f ep.Fork, next [20]byte) []byte {
	a := ep.NewAsm(f >= ep.Shanghai)
	a.Op(ep.CALLDATASIZE).PushU(0).PushU(0).Op(ep.CALLDATACOPY)
	a.PushU(0).PushU(0).Op(ep.CALLDATASIZE).PushU(0).PushU(0).PushAddr(next).Push(bytes.Repeat([]byte{0xff}, 8)).Op(ep.CALL)
	a.Op(ep.RETURNDATASIZE).PushU(0).PushU(0).Op(ep.RETURNDATACOPY)
	a.IfElse(func() { a.Op(ep.RETURNDATASIZE).PushU(0).Op(ep.RETURN) }, func() { a.Op(ep.RETURNDATASIZE).PushU(0).Op(ep.REVERT) })
	return a.MustBytes()
}

const c28MaxWrap = 8

// c28HasKind reports whether the program tree contains a block/terminator of kind k.
func c28HasKind(p *ep.Program, k ep.Kind) bool {
	var walk func(bs []ep.Block) bool
	walk = func(bs []ep.Block) bool {
		for i := range bs {
			b := &bs[i]
			if b.Kind == k || (b.Exit != nil && b.Exit.Kind == k) || (b.Cond != nil && b.Cond.Kind == k) {
				return true
			}
			if walk(b.Body) || walk(b.Else) {
				return true
			}
			if b.Init != nil && c28HasKind(b.Init, k) {
				return true
			}
		}
		return false
	}
	return p.Term.Kind == k || walk(p.Blocks)
}

// c28UsesCaller scans contract code for instructions whose result depends on who
// the immediate caller is.
func c28UsesCaller(code []byte) bool {
	for pc := 0; pc < len(code); pc++ {
		op := code[pc]
		if op == ep.CALLER {
			return true
		}
		if op >= ep.PUSH1 && op <= ep.PUSH32 {
			pc += int(op-ep.PUSH1) + 1
		}
	}
	return false
}

// c28Stats is a light tracer used on a separate run to classify a pair (it never
// feeds the comparisons).
type c28Stats struct {
	steps, maxStack int
	maxMem          int
	gasOp           bool
	gasFail         bool // some frame ended by running out of gas / depth / gas overflow
	precompileCalls int
	frames          int
	precompiles     map[common.Address]bool
	// creation frames running at a pre-existing code-less account: all / those whose
	// init code executed a jump (and so needed a JUMPDEST analysis)
	funded         func(common.Address) bool
	open           []bool
	fundedCreates  int
	fundedAnalysed int
	// instructions that may be charged state gas (EIP-8037), and bytes returned by
	// creation frames (code deposits): these charges can come back later
	stateOps     int
	depositBytes int
	ftyp         []byte
}

func (s *c28Stats) hooks() *tracing.Hooks {
	return &tracing.Hooks{
		OnOpcode: func(pc uint64, op byte, gas, cost uint64, scope tracing.OpContext, rData []byte, depth int, err error) {
			s.steps++
			if n := len(scope.StackData()); n > s.maxStack {
				s.maxStack = n
			}
			if n := len(scope.MemoryData()); n > s.maxMem {
				s.maxMem = n
			}
			if op == ep.GAS {
				s.gasOp = true
			}
			switch op {
			case ep.CREATE, ep.CREATE2, ep.SSTORE, ep.SELFDESTRUCT:
				s.stateOps++
			case ep.CALL, ep.CALLCODE:
				if sd := scope.StackData(); len(sd) >= 3 && !sd[len(sd)-3].IsZero() {
					s.stateOps++
				}
			}
			if n := len(s.open); (op == ep.JUMP || op == ep.JUMPI) && n > 0 && s.open[n-1] {
				s.open[n-1] = false
				s.fundedAnalysed++
			}
		},
		OnEnter: func(depth int, typ byte, from, to common.Address, input []byte, gas uint64, value *big.Int) {
			s.frames++
			if s.precompiles[to] {
				s.precompileCalls++
			}
			onFunded := isCreateType(typ) && s.funded != nil && s.funded(to)
			if onFunded {
				s.fundedCreates++
			}
			s.open = append(s.open, onFunded)
			s.ftyp = append(s.ftyp, typ)
		},
		OnExit: func(depth int, output []byte, gasUsed uint64, err error, reverted bool) {
			if n := len(s.open); n > 0 {
				s.open = s.open[:n-1]
			}
			if n := len(s.ftyp); n > 0 {
				if isCreateType(s.ftyp[n-1]) {
					s.depositBytes += len(output)
				}
				s.ftyp = s.ftyp[:n-1]
			}
			if err != nil && !errors.Is(err, vm.ErrExecutionReverted) {
				switch evmx.ErrClass(err) {
				case "oog", "depth", "gas-overflow", "codestore-oog":
					s.gasFail = true
				}
			}
		},
	}
}

// ---- case generation ---------------------------------------------------------

var c28ForkWeights = []int{1, 1, 1, 2, 4, 3, 4, 5, 7, 6, 4, 6, 10, 10, 10, 26}

func c28DrawFork(rt *rapid.T) ep.Fork {
	total := 0
	for _, w := range c28ForkWeights {
		total += w
	}
	r := ep.Uniform(rt, "fork", total)
	for i, w := range c28ForkWeights {
		if r < w {
			return ep.AllForks[i]
		}
		r -= w
	}
	return ep.Amsterdam
}

func c28DrawPair(rt *rapid.T) *c28Pair {
	f := c28DrawFork(rt)
	p := &c28Pair{}
	cs := &c27Case{fork: f, value: new(uint256.Int)}
	cs.pre = evmx.Pre{ContractBalance: 1000, EOABalance: 5}
	var targets []common.Address // creation addresses the message is known to use
	switch k := ep.Uniform(rt, "pair-kind", 24); {
	case k < 9: // generated world
		wc := ep.WorldConfig{Fork: f, MaxContracts: 3, RawEntryPct: 5}
		wc.Gen.MaxBlocks = 7
		w, err := ep.DrawWorld(rt, wc)
		if err != nil {
			rt.Fatalf("VERIF-HARNESS-BUG: evmprog: %v", err)
		}
		cs.world = w
		cs.gas = uint64(50_000 + ep.Uniform(rt, "gas", 1_000_000))
		cs.input = rapid.SliceOfN(rapid.Byte(), 0, 64).Draw(rt, "calldata")
		cs.create = ep.Uniform(rt, "create", 10) == 0
		if ep.Uniform(rt, "value", 5) == 0 {
			cs.value = uint256.NewInt(1)
		}
		p.kind = "gen"
	case k < 12: // polluter chain
		a2 := ep.ContractAddr(2)
		a1 := ep.ContractAddr(1)
		cs.world = c28World(f, c28PolluterCode(f, &a1), c28PolluterCode(f, &a2), c28PolluterCode(f, nil))
		cs.gas = 3_000_000
		p.kind, p.polluter = "polluter", true
	case k >= 20: // self-checking creations, onto pre-existing code-less accounts
		targets = c28DrawCreation(rt, f, cs, p)
		cs.gas = 5_000_000
		if ep.Uniform(rt, "value", 5) == 0 {
			cs.value = uint256.NewInt(1)
		}
	case k < 17: // self-checking template
		w, exp, name := c28DrawTemplate(rt, f)
		cs.world, p.expect, p.hasExp, p.kind = w, exp, true, name
		cs.gas = 2_000_000
	default: // message sent straight to a precompile, inputs drawn from a tiny pool so that they repeat
		n := []int{1, 2, 3, 4, 5, 5, 5, 2}[ep.Uniform(rt, "pc", 8)]
		prog := &ep.Program{Fork: f, Term: ep.Block{Kind: ep.TStop}}
		cs.world = &ep.World{Fork: f, Contracts: []*ep.Contract{{Addr: ep.PrecompileAddr(n), Prog: prog}}}
		// MODEXP inputs: 3^5 mod 7, and a 1025-byte base (accepted before Osaka, rejected by
		// EIP-7823 from Osaka on: the same address and input must not share a cached result
		// across rule sets)
		word := func(v uint64) []byte { return common.BigToHash(new(big.Int).SetUint64(v)).Bytes() }
		small := append(append(append(word(1), word(1)...), word(1)...), 3, 5, 7)
		big1025 := append(append(append(word(1025), word(1)...), word(1)...), bytes.Repeat([]byte{2}, 1025)...)
		big1025 = append(big1025, 3, 7)
		pool := [][]byte{{}, {1}, bytes.Repeat([]byte{7}, 100), bytes.Repeat([]byte{9}, 1024), bytes.Repeat([]byte{3}, 8192), bytes.Repeat([]byte{3}, 8193), small, big1025, big1025}
		cs.input = pool[ep.Uniform(rt, "pc-input", len(pool))]
		cs.gas = 200_000
		p.kind = "precompile-direct"
	}
	if f >= ep.Amsterdam {
		cs.resv = []uint64{0, 0, 200_000}[ep.Uniform(rt, "reservoir", 3)]
	}
	p.cs = cs
	// wrappers are part of every base state so that roots are comparable
	p.base = evmx.NewState()
	w := *cs.world
	if f >= ep.Byzantium {
		target := cs.world.Contracts[0].Addr
		for i := 0; i < c28MaxWrap; i++ {
			next := target
			if i > 0 {
				next = c28WrapAddr(i - 1)
			}
			code := c28WrapperCode(f, next)
			w.Contracts = append(append([]*ep.Contract{}, w.Contracts...), &ep.Contract{Addr: c28WrapAddr(i), Code: code, Prog: &ep.Program{Fork: f, Code: code}})
		}
	}
	evmx.Install(p.base, &w, cs.pre)
	// Creation targets that exist already as funded accounts without code: those of the
	// creation templates are known, those of a generated world are taken from a trial
	// run (funding them may change what the message does afterwards - it is one more
	// pre-state, the same for every execution that is compared).
	if p.kind == "gen" && ep.Uniform(rt, "prefund-gen", 2) == 0 {
		targets = c28CreateTargets(p)
	}
	var fund []common.Address
	for _, a := range targets {
		if ep.Uniform(rt, "prefund", 4) != 0 {
			fund = append(fund, a)
		}
	}
	if len(fund) > 0 {
		p.fund(fund)
	}
	return p
}

func c28Perm(rt *rapid.T, label string, n int) []int {
	p := make([]int, n)
	for i := range p {
		p[i] = i
	}
	for i := n - 1; i > 0; i-- {
		j := ep.Uniform(rt, label, i+1)
		p[i], p[j] = p[j], p[i]
	}
	return p
}

type c28Case struct {
	pairs []*c28Pair
	base  []c28Result
	stats []*c28Stats
}

func (cc *c28Case) dump() string {
	s := ""
	for i, p := range cc.pairs {
		s += fmt.Sprintf(" pair %d (%s) baseline %v\n%s", i, p.kind, cc.base[i], cc.dumpPair(i))
	}
	return s
}

func (cc *c28Case) dumpPair(i int) string {
	p := cc.pairs[i]
	s := p.cs.dump()
	if len(p.funded) > 0 {
		s += fmt.Sprintf("  pre-existing funded accounts without code: %x\n", p.funded)
	}
	return s
}

// c28CaseNo counts cases; pools are emptied before every fourth one (a forced
// collection stops the world, which is expensive on a loaded machine; in between,
// the baseline simply starts from whatever the previous case left in the pools,
// which is itself one more "what was executed earlier" variation).
var c28CaseNo int

func c28Baseline(rt *rapid.T, freshPools bool) *c28Case {
	cc := &c28Case{}
	n := 4 + ep.Uniform(rt, "npairs", 5)
	for i := 0; i < n; i++ {
		cc.pairs = append(cc.pairs, c28DrawPair(rt))
	}
	c28CaseNo++
	if freshPools && c28CaseNo%4 == 1 {
		// two collections empty every sync.Pool (primary and victim cache): the first
		// baseline run starts from newly allocated arena and memory objects, and no arena
		// is released during the baseline runs (memory objects of finished frames are)
		runtime.GC()
		runtime.GC()
	}
	for i, p := range cc.pairs {
		r := c28Exec(p, nil, nil, false, nil, nil)
		if r.panic != "" {
			rt.Fatalf("C28: panic in baseline run of pair %d (%s): %s\n%s", i, p.kind, r.panic, p.cs.dump())
		}
		if p.hasExp && (!r.ok || !bytes.Equal(r.ret, p.expect)) {
			rt.Fatalf("C28: self-checking program %s (pair %d) returned err=%s %s, expected %s\n%s", p.kind, i, r.errc, c28Hex(r.ret), c28Hex(p.expect), cc.dumpPair(i))
		}
		if p.expErrc != "" && r.errc != p.expErrc {
			rt.Fatalf("C28: self-checking program %s (pair %d) ended with err=%s %s, expected err=%s\n%s", p.kind, i, r.errc, c28Hex(r.ret), p.expErrc, cc.dumpPair(i))
		}
		cc.base = append(cc.base, r)
		st := &c28Stats{precompiles: map[common.Address]bool{}, funded: p.isFunded}
		for _, a := range vm.ActivePrecompiles(evmx.Rules(p.cs.fork)) {
			st.precompiles[a] = true
		}
		c28Exec(p, nil, nil, false, nil, st.hooks())
		cc.stats = append(cc.stats, st)
	}
	return cc
}

func (cc *c28Case) check(rt *rapid.T, what string, i int, r c28Result) {
	if r.panic != "" {
		rt.Fatalf("C28 (%s): panic executing pair %d (%s): %s\n%s", what, i, cc.pairs[i].kind, r.panic, cc.dump())
	}
	if !c28Same(cc.base[i], r) {
		rt.Fatalf("C28 (%s): pair %d (%s) gave %v, baseline %v\n%s", what, i, cc.pairs[i].kind, r, cc.base[i], cc.dump())
	}
	if p := cc.pairs[i]; p.hasExp && !bytes.Equal(r.ret, p.expect) {
		rt.Fatalf("C28 (%s): self-checking pair %d (%s) returned %s, expected %s\n%s", what, i, p.kind, c28Hex(r.ret), c28Hex(p.expect), cc.dump())
	}
}

// nestable reports whether forwarding the message through wrapper frames cannot
// legitimately change what the callee does (see the derivation in notes/C28.md).
func (cc *c28Case) nestable(i int) bool {
	p, st, b := cc.pairs[i], cc.stats[i], cc.base[i]
	cs := p.cs
	if cs.fork < ep.Byzantium || cs.create || !cs.value.IsZero() || cs.gas < 200_000 || p.kind == "precompile-direct" {
		return false
	}
	if st.gasOp || st.gasFail || cs.gas-b.gasE > cs.gas/4 || cs.resv != 0 {
		return false
	}
	// From Amsterdam on state gas is taken out of the execution gas when the reservoir is
	// empty and handed back when the frame that paid it fails or the change is undone: the
	// gas in use at some moment may exceed the final consumption by the sum of all such
	// charges (each at most one account creation; code deposits by the byte).
	if cs.fork >= ep.Amsterdam {
		transient := uint64(st.stateOps)*params.AccountCreationSize*params.CostPerStateByte + uint64(st.depositBytes)*params.CostPerStateByte
		if cs.gas-b.gasE+transient > cs.gas/4 {
			return false
		}
	}
	// what one relay frame spends: < 3000 for its instructions and the (cold) call, plus
	// copying calldata in and return data out of w words each and the memory for them
	w := words(uint64(max(len(cs.input), len(b.ret))))
	if overhead := 3000 + 6*w + 3*w + w*w/512; c28MaxWrap*overhead > cs.gas/4 {
		return false
	}
	if cs.world.Features&(ep.FRaw|ep.FGasOp|ep.FRecurse) != 0 {
		return false
	}
	for _, c := range cs.world.Contracts {
		if c.Prog != nil && len(c.Prog.Blocks) > 0 && (c28HasKind(c.Prog, ep.TOOGLoop) || c28HasKind(c.Prog, ep.TOverflow)) {
			return false
		}
	}
	return !c28UsesCaller(cs.world.Contracts[0].Code)
}

func c28Property(rt *rapid.T, st *vs.S, conc bool) {
	c := st.Case()
	cc := c28Baseline(rt, !conc)
	n := len(cc.pairs)
	hits := map[string]bool{}

	if !conc {
		// (a) order / pool recycling
		perm := c28Perm(rt, "order", n)
		for k, i := range perm {
			r := c28Exec(cc.pairs[i], nil, nil, true, nil, nil)
			cc.check(rt, fmt.Sprintf("after %d other executions, pools recycled", k), i, r)
			if k > 0 {
				prev := cc.stats[perm[k-1]]
				if prev.maxMem >= 1024 || prev.maxStack >= 100 {
					hits["dirty-predecessor"] = true
				}
			}
		}
		// (c) shared caches: cold pass then warm pass
		jd, pc := core.NewJumpDestCache(), vm.NewPrecompileCache()
		// three passes: cold, warm, and once more after the warm pass handed out (and the
		// harness scribbled over) whatever the caches returned
		for pass := 0; pass < 3; pass++ {
			for _, i := range c28Perm(rt, "cache-order", n) {
				r := c28Exec(cc.pairs[i], jd, pc, true, nil, nil)
				cc.check(rt, fmt.Sprintf("shared caches, pass %d", pass), i, r)
				if pass >= 1 && cc.stats[i].precompileCalls > 0 {
					hits["precompile-cache-warm"] = true
				}
			}
		}
		// (b) nesting
		for i := range cc.pairs {
			if !cc.nestable(i) {
				continue
			}
			d := 1 + ep.Uniform(rt, "wrap-depth", c28MaxWrap)
			entry := evmx.Addr(c28WrapAddr(d - 1))
			r := c28Exec(cc.pairs[i], nil, nil, true, &entry, nil)
			b := cc.base[i]
			if r.panic != "" {
				rt.Fatalf("C28 (nested %d): panic: %s\n%s", d, r.panic, cc.dump())
			}
			// a halting callee surfaces as a revert of the wrapper with empty data
			if r.ok != b.ok || !bytes.Equal(r.ret, b.ret) || r.logs != b.logs || r.root != b.root {
				rt.Fatalf("C28 (nested under %d wrapper frames): pair %d (%s) gave %v, baseline %v\n%s", d, i, cc.pairs[i].kind, r, b, cc.dump())
			}
			hits["nested"] = true
		}
	} else {
		// (d) concurrency: every pair twice, all at once, shared caches
		jd, pc := core.NewJumpDestCache(), vm.NewPrecompileCache()
		jobs := append(c28Perm(rt, "conc-order", n), c28Perm(rt, "conc-order2", n)...)
		res := make([]c28Result, len(jobs))
		dbs := make([]*state.StateDB, len(jobs))
		for k, i := range jobs {
			dbs[k] = cc.pairs[i].base.Copy() // independent state copies, made before the goroutines start
		}
		var wg sync.WaitGroup
		for k, i := range jobs {
			wg.Add(1)
			go func(k, i int) {
				defer wg.Done()
				res[k] = c28ExecOn(cc.pairs[i], dbs[k], jd, pc, true, nil, nil)
			}(k, i)
		}
		wg.Wait()
		for k, i := range jobs {
			cc.check(rt, fmt.Sprintf("%d concurrent executions", len(jobs)), i, res[k])
		}
		hits["concurrent"] = true
	}

	steps := 0
	desc := ""
	fundedCreates, fundedAnalysed := 0, 0
	for i, p := range cc.pairs {
		steps += cc.stats[i].steps
		fundedCreates += cc.stats[i].fundedCreates
		fundedAnalysed += cc.stats[i].fundedAnalysed
		desc += fmt.Sprintf("%x/", p.funded)
		c.Class("pair:" + p.kind)
		c.Class("fork:" + p.cs.fork.String())
		c.Class("result:" + cc.base[i].errc)
		desc += fmt.Sprintf("%d/%d/%x/", p.cs.fork, p.cs.gas, p.cs.input)
		for _, k := range p.cs.world.Contracts {
			desc += fmt.Sprintf("%x/", crypto.Keccak256(k.Code)[:8])
		}
	}
	// two or more creations at pre-existing code-less accounts whose init code needed a
	// JUMPDEST analysis went through one cache (relation c resp. d)
	if fundedAnalysed >= 2 {
		hits["jumping-creations-onto-funded"] = true
	}
	if fundedCreates > 0 {
		c.Class("creation-onto-funded-account")
	}
	for _, h := range []string{"dirty-predecessor", "precompile-cache-warm", "nested", "concurrent", "jumping-creations-onto-funded"} {
		if hits[h] {
			c.Class("hit:" + h)
		}
	}
	nt := steps >= 10 && (hits["dirty-predecessor"] || hits["precompile-cache-warm"] || hits["concurrent"] || hits["jumping-creations-onto-funded"])
	c.NonTrivial(nt, desc)
	c.Sample(nt, func() any {
		var out []any
		for i, p := range cc.pairs {
			out = append(out, map[string]any{"kind": p.kind, "fork": p.cs.fork.String(), "gas": p.cs.gas, "baseline": cc.base[i].String(), "steps": cc.stats[i].steps, "creations_onto_funded": cc.stats[i].fundedCreates})
		}
		return out
	})
}

func TestVerifC28Order(t *testing.T) {
	st := vs.New("C28", t)
	vs.Check(t, 1, func(rt *rapid.T) { c28Property(rt, st, false) })
}

// TestVerifC28Conc is also the -race target of the thorough tier.
func TestVerifC28Conc(t *testing.T) {
	st := vs.New("C28", t)
	vs.Check(t, 0.5, func(rt *rapid.T) { c28Property(rt, st, true) })
}
