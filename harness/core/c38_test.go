//go:build verif

package core

// C38 — canonical chain index consistent under reorgs.
//
// A block *tree* is generated from one genesis (trunk + forks, log-emitting
// transactions, the same transaction on several forks), then a drawn sequence of
// InsertChain / InsertBlockWithoutSetHead / SetCanonical / SetHead /
// SetHeadWithTimestamp / clean restart actions is applied to a BlockChain with the
// transaction indexer enabled. After every action the canonical index, head markers,
// head state, transaction/receipt lookups and the emitted chain events are compared
// with the model tree.

import (
	"context"
	"crypto/ecdsa"
	"fmt"
	"math/big"
	"runtime"
	"sort"
	"strings"
	"testing"
	"time"

	"github.com/ethereum/go-ethereum/common"
	"github.com/ethereum/go-ethereum/consensus"
	"github.com/ethereum/go-ethereum/consensus/beacon"
	"github.com/ethereum/go-ethereum/consensus/ethash"
	"github.com/ethereum/go-ethereum/core/rawdb"
	"github.com/ethereum/go-ethereum/core/types"
	"github.com/ethereum/go-ethereum/crypto"
	"github.com/ethereum/go-ethereum/ethdb"
	"github.com/ethereum/go-ethereum/event"
	"github.com/ethereum/go-ethereum/params"
	"pgregory.net/rapid"
	vs "verif.local/kit/stat"
)

// c38LogCode is init code that emits one LOG1 while the contract is created (same
// byte string as the package's logCode test constant, copied so that the harness
// does not depend on another test file's variable).
var c38LogCode = common.Hex2Bytes("60606040525b7f24ec1d3ff24c2f6ff210738839dbc339cd45a5294d85c79361016243157aae7b60405180905060405180910390a15b600a8060416000396000f360606040526008565b00")

// c38LoggerAddr is a contract placed in the genesis allocation of every case. Called
// with a 32-byte big-endian count n it emits n LOG1s (empty data, topic n-1 .. 0), so
// one transaction can carry 50..150 logs and one block several hundred: the reorg
// code announces removed / reborn logs in chunks (flushed once more than 512 have
// accumulated), which is only exercised by sides carrying that many logs.
var c38LoggerAddr = common.Address{0x10, 0x99}

// PUSH1 0 CALLDATALOAD; loop: JUMPDEST DUP1 ISZERO PUSH1 end JUMPI PUSH1 1 SWAP1 SUB
// DUP1 PUSH1 0 PUSH1 0 LOG1 PUSH1 loop JUMP; end: JUMPDEST STOP   (no PUSH0: pre-Shanghai configs)
var c38LoggerCode = common.Hex2Bytes("6000355b8015601657600190038060006000a16003565b00")

// c38ChunkLimit mirrors the flush threshold documented in reorg ("> 512 accumulated");
// it is used for the class histogram only, never by the oracle.
const c38ChunkLimit = 512

// ---------------------------------------------------------------------------
// model tree

type c38Log struct {
	BlockHash common.Hash
	BlockNum  uint64
	TxHash    common.Hash
	TxIndex   uint
	Index     uint
	Address   common.Address
	Topic0    common.Hash
}

func (l c38Log) key(removed bool) string {
	return fmt.Sprintf("%x/%d/%x/%d/%d/%x/%x/%v", l.BlockHash[:6], l.BlockNum, l.TxHash[:6], l.TxIndex, l.Index, l.Address[:4], l.Topic0[:4], removed)
}

type c38Node struct {
	block    *types.Block
	receipts types.Receipts // as produced by the chain maker (derived fields set)
	parent   *c38Node       // nil for genesis
	fork     int            // 0 = trunk
	logs     []c38Log       // expected logs, in block order
}

func (n *c38Node) num() uint64       { return n.block.NumberU64() }
func (n *c38Node) hash() common.Hash { return n.block.Hash() }

type c38Tree struct {
	genesis *c38Node
	nodes   []*c38Node // all non-genesis nodes in generation order
	byHash  map[common.Hash]*c38Node
	txs     map[common.Hash][]*c38Node // tx hash -> blocks containing it
	txOrder []common.Hash              // deterministic iteration order
	maxNum  uint64
	heavy   bool // tree class: blocks carrying hundreds of logs
}

func (tr *c38Tree) add(n *c38Node) {
	tr.byHash[n.hash()] = n
	if n.parent != nil {
		tr.nodes = append(tr.nodes, n)
	}
	if n.num() > tr.maxNum {
		tr.maxNum = n.num()
	}
	idx := uint(0)
	for i, tx := range n.block.Transactions() {
		if _, ok := tr.txs[tx.Hash()]; !ok {
			tr.txOrder = append(tr.txOrder, tx.Hash())
		}
		tr.txs[tx.Hash()] = append(tr.txs[tx.Hash()], n)
		for _, l := range n.receipts[i].Logs {
			cl := c38Log{BlockHash: n.hash(), BlockNum: n.num(), TxHash: tx.Hash(), TxIndex: uint(i), Index: idx, Address: l.Address}
			if len(l.Topics) > 0 {
				cl.Topic0 = l.Topics[0]
			}
			n.logs = append(n.logs, cl)
			idx++
		}
	}
}

// chainTo returns the nodes from genesis (index 0) to n.
func (tr *c38Tree) chainTo(n *c38Node) []*c38Node {
	var rev []*c38Node
	for x := n; x != nil; x = x.parent {
		rev = append(rev, x)
	}
	for i, j := 0, len(rev)-1; i < j; i, j = i+1, j-1 {
		rev[i], rev[j] = rev[j], rev[i]
	}
	return rev
}

type c38Env struct {
	config  *params.ChainConfig
	engine  func() consensus.Engine
	gspec   *Genesis
	keys    []*keyPair
	variant string
}

type keyPair struct {
	key  *ecdsa.PrivateKey
	addr common.Address
}

// c38GenTree draws the block tree.
func c38GenTree(rt *rapid.T, env *c38Env, maxTrunk int) *c38Tree {
	signer := types.LatestSigner(env.config)
	// Tree class "heavy-logs": most blocks additionally carry 2..5 calls of the logger
	// contract with 50..150 logs each (100..750 logs per block), so that the sides of a
	// reorg regularly exceed the 512-log chunk of the removed/reborn log announcements
	// several times over.
	heavy := rapid.IntRange(0, 2).Draw(rt, "heavyLogs") == 0
	fill := func(forkID int) func(int, *BlockGen) {
		return func(i int, gen *BlockGen) {
			// Distinguish competing blocks even when they carry no transactions.
			gen.SetExtra([]byte{byte(forkID), byte(i)})
			// A fork-specific fee recipient keeps the state roots of competing non-empty
			// blocks distinct (as on real networks); identical roots of distinct blocks
			// would let HasBlockAndState mistake one block's state for the other's.
			gen.SetCoinbase(common.Address{0xc0, byte(forkID)})
			ntx := rapid.SampledFrom([]int{0, 0, 1, 1, 2, 3}).Draw(rt, "ntx")
			for k := 0; k < ntx; k++ {
				kp := env.keys[rapid.IntRange(0, len(env.keys)-1).Draw(rt, "key")]
				salt := uint64(rapid.IntRange(0, 1).Draw(rt, "salt"))
				nonce := gen.TxNonce(kp.addr)
				var tx *types.Transaction
				if rapid.IntRange(0, 3).Draw(rt, "kind") > 0 {
					tx = types.MustSignNewTx(kp.key, signer, &types.LegacyTx{
						Nonce: nonce, GasPrice: new(big.Int).Add(gen.BaseFee(), big.NewInt(int64(salt+1))), Gas: 300000 + salt, Data: c38LogCode,
					})
				} else {
					to := common.Address{0xaa, byte(salt)}
					tx = types.MustSignNewTx(kp.key, signer, &types.LegacyTx{
						Nonce: nonce, To: &to, Value: big.NewInt(1000), GasPrice: new(big.Int).Add(gen.BaseFee(), big.NewInt(1)), Gas: params.TxGas,
					})
				}
				gen.AddTx(tx)
			}
			if heavy && rapid.IntRange(0, 3).Draw(rt, "heavyBlock") > 0 {
				ncall := rapid.IntRange(2, 5).Draw(rt, "ncall")
				for k := 0; k < ncall; k++ {
					kp := env.keys[rapid.IntRange(0, len(env.keys)-1).Draw(rt, "key")]
					count := rapid.IntRange(50, 150).Draw(rt, "nlogs")
					to := c38LoggerAddr
					tx := types.MustSignNewTx(kp.key, signer, &types.LegacyTx{
						Nonce: gen.TxNonce(kp.addr), To: &to, GasPrice: new(big.Int).Add(gen.BaseFee(), big.NewInt(1)),
						Gas: 400000, Data: common.LeftPadBytes(big.NewInt(int64(count)).Bytes(), 32),
					})
					gen.AddTx(tx)
				}
			}
		}
	}
	tr := &c38Tree{byHash: map[common.Hash]*c38Node{}, txs: map[common.Hash][]*c38Node{}, heavy: heavy}
	trunkLen := rapid.IntRange(6, maxTrunk).Draw(rt, "trunk")
	genDb, blocks, receipts := GenerateChainWithGenesis(env.gspec, env.engine(), trunkLen, fill(0))
	gblock := env.gspec.ToBlock()
	tr.genesis = &c38Node{block: gblock}
	tr.add(tr.genesis)
	prev := tr.genesis
	var trunk []*c38Node
	for i, b := range blocks {
		n := &c38Node{block: b, receipts: receipts[i], parent: prev}
		tr.add(n)
		trunk = append(trunk, n)
		prev = n
	}
	nforks := rapid.IntRange(1, 4).Draw(rt, "forks")
	for f := 1; f <= nforks; f++ {
		// fork point: genesis, a trunk block or (sometimes) a block of an earlier fork
		var at *c38Node
		if len(tr.nodes) > len(trunk) && rapid.IntRange(0, 3).Draw(rt, "nested") == 0 {
			at = tr.nodes[rapid.IntRange(len(trunk), len(tr.nodes)-1).Draw(rt, "forkAtSide")]
		} else {
			p := rapid.IntRange(0, trunkLen-1).Draw(rt, "forkAt")
			// bias towards recent fork points so forks stay short
			if p < trunkLen-8 && rapid.IntRange(0, 2).Draw(rt, "deep") > 0 {
				p = trunkLen - 1 - rapid.IntRange(0, 7).Draw(rt, "forkBack")
			}
			if p == 0 {
				at = tr.genesis
			} else {
				at = trunk[p-1]
			}
		}
		delta := rapid.IntRange(-3, 4).Draw(rt, "delta")
		flen := trunkLen - int(at.num()) + delta
		if flen < 1 {
			flen = 1
		}
		if flen > 14 {
			flen = 14
		}
		fb, fr := GenerateChain(env.config, at.block, env.engine(), genDb, flen, fill(f))
		prev := at
		for i, b := range fb {
			if _, dup := tr.byHash[b.Hash()]; dup {
				rt.Fatalf("VERIF-HARNESS-BUG: generated duplicate block")
			}
			n := &c38Node{block: b, receipts: fr[i], parent: prev, fork: f}
			tr.add(n)
			prev = n
		}
	}
	// generator self-check: every logger call succeeded and emitted the requested number of logs
	for _, n := range tr.nodes {
		for i, tx := range n.block.Transactions() {
			if tx.To() != nil && *tx.To() == c38LoggerAddr {
				want := new(big.Int).SetBytes(tx.Data()).Int64()
				if r := n.receipts[i]; r.Status != types.ReceiptStatusSuccessful || int64(len(r.Logs)) != want {
					rt.Fatalf("VERIF-HARNESS-BUG: logger call in block #%d emitted %d logs (status %d), want %d", n.num(), len(r.Logs), r.Status, want)
				}
			}
		}
	}
	return tr
}

// ---------------------------------------------------------------------------
// event collection

// c38Events collects the four feeds through ONE goroutine reading unbuffered
// channels. Feed.Send returns only after the subscriber received the value, and the
// chain sends its events sequentially, so the order of reception is exactly the order
// of emission across all four feeds.
//
// The collector behaves like an asynchronous subscriber (eth/filters' EventSystem, any
// consumer with a buffered channel): it only *queues* what it receives — the very
// slices handed over by the feed, no copy, no look at the elements — and the contents
// are read in drain(), i.e. after the chain operation returned. An event's payload
// belongs to the receiver from the moment it is sent; whatever the chain does with a
// slice after sending it is therefore visible to the oracle.
type c38Events struct {
	chainCh  chan ChainEvent
	headCh   chan ChainHeadEvent
	logsCh   chan []*types.Log
	rmLogsCh chan RemovedLogsEvent
	flushCh  chan chan []c38Event
	quitCh   chan struct{}
	doneCh   chan struct{}
	subs     []event.Subscription
}

type c38Event struct {
	chain   *ChainEvent
	head    *ChainHeadEvent
	logs    []*types.Log // as received (shares the sender's backing array), inspected in drain
	removed []*types.Log // ditto
}

func c38Subscribe(bc *BlockChain) *c38Events {
	ev := &c38Events{
		chainCh:  make(chan ChainEvent),
		headCh:   make(chan ChainHeadEvent),
		logsCh:   make(chan []*types.Log),
		rmLogsCh: make(chan RemovedLogsEvent),
		flushCh:  make(chan chan []c38Event),
		quitCh:   make(chan struct{}),
		doneCh:   make(chan struct{}),
	}
	ev.subs = append(ev.subs, bc.SubscribeChainEvent(ev.chainCh), bc.SubscribeChainHeadEvent(ev.headCh),
		bc.SubscribeLogsEvent(ev.logsCh), bc.SubscribeRemovedLogsEvent(ev.rmLogsCh))
	go func() {
		defer close(ev.doneCh)
		var list []c38Event
		for {
			select {
			case e := <-ev.chainCh:
				list = append(list, c38Event{chain: &e})
			case e := <-ev.headCh:
				list = append(list, c38Event{head: &e})
			case e := <-ev.logsCh:
				list = append(list, c38Event{logs: e})
			case e := <-ev.rmLogsCh:
				list = append(list, c38Event{removed: e.Logs})
			case reply := <-ev.flushCh:
				reply <- list
				list = nil
			case <-ev.quitCh:
				return
			}
		}
	}()
	return ev
}

func (ev *c38Events) close() {
	for _, s := range ev.subs {
		s.Unsubscribe()
	}
	close(ev.quitCh)
	<-ev.doneCh
}

type c38Observed struct {
	seq     []c38Event // everything, in emission order
	chain   []ChainEvent
	heads   []ChainHeadEvent
	logs    []*types.Log
	removed []*types.Log
}

// drain returns the events emitted since the previous drain. It must be called
// after the chain operation returned (all Sends are complete by then).
func (ev *c38Events) drain() c38Observed {
	reply := make(chan []c38Event, 1)
	ev.flushCh <- reply
	var o c38Observed
	o.seq = <-reply
	for _, e := range o.seq {
		switch {
		case e.chain != nil:
			o.chain = append(o.chain, *e.chain)
		case e.head != nil:
			o.heads = append(o.heads, *e.head)
		case e.logs != nil:
			o.logs = append(o.logs, e.logs...)
		case e.removed != nil:
			o.removed = append(o.removed, e.removed...)
		}
	}
	return o
}

// ---------------------------------------------------------------------------
// tx indexer quiescence (passive: inspects goroutine states, changes nothing)

var c38StackBuf []byte

// c38IndexerIdle reports whether no txIndexer.run goroutine exists and every
// txIndexer.loop goroutine is parked in its select.
func c38IndexerIdle() bool {
	// the scratch buffer is reused between polls (only the test goroutine calls this)
	if c38StackBuf == nil {
		c38StackBuf = make([]byte, 1<<20)
	}
	var buf []byte
	for {
		n := runtime.Stack(c38StackBuf, true)
		if n < len(c38StackBuf) {
			buf = c38StackBuf[:n]
			break
		}
		c38StackBuf = make([]byte, 2*len(c38StackBuf))
	}
	for _, g := range strings.Split(string(buf), "\n\n") {
		if strings.Contains(g, "core.(*txIndexer).run") || strings.Contains(g, "rawdb.indexTransactions") ||
			strings.Contains(g, "rawdb.unindexTransactions") || strings.Contains(g, "rawdb.iterateTransactions") {
			return false
		}
		if strings.Contains(g, "core.(*txIndexer).loop") {
			head := g
			if i := strings.IndexByte(g, '\n'); i >= 0 {
				head = g[:i]
			}
			if !strings.Contains(head, "[select") {
				return false
			}
		}
	}
	return true
}

func c38WaitIndexer(rt *rapid.T) {
	deadline := time.Now().Add(20 * time.Second)
	for !c38IndexerIdle() {
		if time.Now().After(deadline) {
			rt.Fatalf("VERIF-INCONCLUSIVE: transaction indexer did not become idle within 20s")
		}
		time.Sleep(200 * time.Microsecond)
	}
}

// ---------------------------------------------------------------------------
// the machine

type c38Machine struct {
	rt      *rapid.T
	env     *c38Env
	tree    *c38Tree
	db      ethdb.Database
	bc      *BlockChain
	cfg     *BlockChainConfig
	ev      *c38Events
	limit   int64
	canon   []*c38Node               // model canonical chain genesis..head block (as last observed)
	stale   map[common.Hash]struct{} // tx hashes whose raw lookup entry may be stale (blocks dropped by SetHead)
	trace   []string
	hadSet  bool // a SetHead below a fork point happened earlier
	deepOK  bool // non-trivial rule satisfied
	reorgs  int
	maxDeep int
	st      *vs.S
	leaves  []*c38Node
	rewound map[*c38Node]bool // blocks whose data a SetHead deleted at least once
	S       map[string]struct{} // logs a subscriber currently holds as announced

	dupAnnounce int // logs announced again while still announced (observation, not asserted)
	multiChunk  bool // some action retracted / re-announced the logs of one side in >= 2 chunks

	// per-action context for the event oracle
	actKind      string
	actTarget    *c38Node
	preWithState map[*c38Node]bool // blocks stored with state before the action
}

func (m *c38Machine) logf(format string, a ...any) {
	m.trace = append(m.trace, fmt.Sprintf(format, a...))
}

func (m *c38Machine) fatalf(format string, a ...any) {
	m.rt.Fatalf("%s\n--- action trace (%s, scheme=%s, txlookuplimit=%d, snapshots=%v) ---\n%s", fmt.Sprintf(format, a...),
		m.env.variant, m.cfg.StateScheme, m.limit, m.cfg.SnapshotLimit > 0, strings.Join(m.trace, "\n"))
}

func (m *c38Machine) open() {
	bc, err := NewBlockChain(m.db, m.env.gspec, m.env.engine(), m.cfg)
	if err != nil {
		m.fatalf("NewBlockChain failed: %v", err)
	}
	m.bc = bc
	m.ev = c38Subscribe(bc)
}

func (m *c38Machine) name(n *c38Node) string {
	if n == nil {
		return "<nil>"
	}
	return fmt.Sprintf("#%d/f%d/%x", n.num(), n.fork, n.hash().Bytes()[:3])
}

// observeCanon reads the head from the chain and returns the model chain to it.
func (m *c38Machine) observeCanon() []*c38Node {
	h := m.bc.CurrentBlock()
	if h == nil {
		m.fatalf("CurrentBlock() is nil")
	}
	n, ok := m.tree.byHash[h.Hash()]
	if !ok {
		m.fatalf("CurrentBlock %d %x is not a block of the generated tree", h.Number, h.Hash())
	}
	return m.tree.chainTo(n)
}

// verify checks every clause of the property against the database and the model.
func (m *c38Machine) verify(what string) {
	bc, db, tree := m.bc, m.db, m.tree
	canon := m.observeCanon()
	head := canon[len(canon)-1]
	H := bc.CurrentBlock()

	// --- head header / snap block relation and persisted markers
	hh := bc.CurrentHeader()
	hhNode, ok := tree.byHash[hh.Hash()]
	if !ok {
		m.fatalf("%s: CurrentHeader %d %x is not in the tree", what, hh.Number, hh.Hash())
	}
	if hh.Number.Uint64() < H.Number.Uint64() {
		m.fatalf("%s: CurrentHeader #%d is below CurrentBlock #%d", what, hh.Number, H.Number)
	}
	hdrChain := tree.chainTo(hhNode)
	if hdrChain[H.Number.Uint64()] != head {
		m.fatalf("%s: CurrentBlock %s is not an ancestor of CurrentHeader %s", what, m.name(head), m.name(hhNode))
	}
	if got := rawdb.ReadHeadBlockHash(db); got != H.Hash() {
		m.fatalf("%s: persisted head block hash %x != CurrentBlock %x (#%d)", what, got, H.Hash(), H.Number)
	}
	if got := rawdb.ReadHeadHeaderHash(db); got != hh.Hash() {
		m.fatalf("%s: persisted head header hash %x != CurrentHeader %x (#%d)", what, got, hh.Hash(), hh.Number)
	}
	sb := bc.CurrentSnapBlock()
	if got := rawdb.ReadHeadFastBlockHash(db); got != sb.Hash() {
		m.fatalf("%s: persisted head snap block hash %x != CurrentSnapBlock %x (#%d)", what, got, sb.Hash(), sb.Number)
	}
	if sb.Number.Uint64() > hh.Number.Uint64() || hdrChain[sb.Number.Uint64()].hash() != sb.Hash() {
		m.fatalf("%s: CurrentSnapBlock #%d %x is not on the chain of CurrentHeader %s", what, sb.Number, sb.Hash(), m.name(hhNode))
	}

	// --- canonical index: parent-linked from the head header to genesis, nothing above
	for i := len(hdrChain) - 1; i >= 0; i-- {
		n := hdrChain[i]
		got := rawdb.ReadCanonicalHash(db, uint64(i))
		if got != n.hash() {
			m.fatalf("%s: canonical hash at #%d is %x, want %s (head header %s, head block %s)", what, i, got.Bytes()[:4], m.name(n), m.name(hhNode), m.name(head))
		}
		hdr := rawdb.ReadHeader(db, got, uint64(i))
		if hdr == nil {
			m.fatalf("%s: canonical header #%d %x missing", what, i, got)
		}
		if i > 0 && hdr.ParentHash != rawdb.ReadCanonicalHash(db, uint64(i-1)) {
			m.fatalf("%s: canonical header #%d parent %x != canonical hash #%d", what, i, hdr.ParentHash, i-1)
		}
		if bc.GetCanonicalHash(uint64(i)) != got {
			m.fatalf("%s: GetCanonicalHash(%d) disagrees with the database", what, i)
		}
	}
	for n := hh.Number.Uint64() + 1; n <= tree.maxNum+2; n++ {
		if got := rawdb.ReadCanonicalHash(db, n); got != (common.Hash{}) {
			m.fatalf("%s: canonical hash %x present at #%d above the head header #%d (head block #%d)", what, got.Bytes()[:4], n, hh.Number, H.Number)
		}
	}

	// --- head state
	if !bc.HasState(H.Root) {
		m.fatalf("%s: state of head block %s is not available", what, m.name(head))
	}
	if st, err := bc.StateAt(H); err != nil || st == nil {
		m.fatalf("%s: state of head block %s cannot be opened: %v", what, m.name(head), err)
	} else {
		// read something through it
		for _, kp := range m.env.keys {
			st.GetNonce(kp.addr)
		}
		if st.Error() != nil {
			m.fatalf("%s: reading head state failed: %v", what, st.Error())
		}
	}

	// --- canonical blocks up to the head block: body + receipts with correct derived fields
	for _, n := range canon[1:] {
		blk := bc.GetBlockByNumber(n.num())
		if blk == nil || blk.Hash() != n.hash() {
			m.fatalf("%s: GetBlockByNumber(%d) does not return canonical block %s", what, n.num(), m.name(n))
		}
		m.checkReceipts(what, n, bc.GetReceiptsByHash(n.hash()), "GetReceiptsByHash")
		m.checkReceipts(what, n, rawdb.ReadReceipts(db, n.hash(), n.num(), n.block.Time(), m.env.config), "rawdb.ReadReceipts")
	}

	// --- transaction / receipt lookups
	inCanon := func(txh common.Hash, num uint64) (*c38Node, int) {
		if num >= uint64(len(hdrChain)) {
			return nil, -1
		}
		n := hdrChain[num]
		for i, tx := range n.block.Transactions() {
			if tx.Hash() == txh {
				return n, i
			}
		}
		return n, -1
	}
	tail := rawdb.ReadTxIndexTail(db)
	for _, txh := range tree.txOrder {
		// raw entry
		if num := rawdb.ReadTxLookupEntry(db, txh); num != nil {
			if _, idx := inCanon(txh, *num); idx < 0 {
				if _, ok := m.stale[txh]; !ok {
					m.fatalf("%s: tx lookup entry %x -> #%d, but the canonical block at that number does not contain the transaction (and no SetHead dropped it)", what, txh.Bytes()[:4], *num)
				}
			} else {
				delete(m.stale, txh)
			}
		}
		// API level, uncached and cached
		tx, bh, bn, ti := rawdb.ReadCanonicalTransaction(db, txh)
		if tx != nil {
			n, idx := inCanon(txh, bn)
			if idx < 0 || n.hash() != bh || uint64(idx) != ti || tx.Hash() != txh {
				m.fatalf("%s: ReadCanonicalTransaction(%x) = block %x #%d index %d, which is not a canonical inclusion", what, txh.Bytes()[:4], bh.Bytes()[:4], bn, ti)
			}
			rc, rbh, rbn, ri := rawdb.ReadCanonicalReceipt(db, txh, m.env.config)
			if rc == nil && m.ghostTolerated(n) {
				// known finding, see ghostTolerated
			} else if rc == nil || rbh != bh || rbn != bn || ri != ti || rc.TxHash != txh || rc.BlockHash != bh || rc.TransactionIndex != uint(idx) {
				m.fatalf("%s: ReadCanonicalReceipt(%x) inconsistent with the transaction lookup (%v)", what, txh.Bytes()[:4], rc)
			}
		}
		lookup, ctx := bc.GetCanonicalTransaction(txh)
		if lookup != nil {
			n, idx := inCanon(txh, lookup.BlockIndex)
			if idx < 0 || n.hash() != lookup.BlockHash || uint64(idx) != lookup.Index || ctx == nil || ctx.Hash() != txh {
				m.fatalf("%s: GetCanonicalTransaction(%x) = block %x #%d index %d, which is not a canonical inclusion", what, txh.Bytes()[:4], lookup.BlockHash.Bytes()[:4], lookup.BlockIndex, lookup.Index)
			}
		}
		// The lookup cache may outlive an entry removed by the unindexer (the cached
		// answer is still a canonical inclusion, checked above); the converse must hold.
		if lookup == nil && tx != nil {
			m.fatalf("%s: GetCanonicalTransaction(%x) finds nothing although the database resolves it", what, txh.Bytes()[:4])
		}
	}
	// completeness inside the indexed range [tail, head]
	if tail != nil {
		for _, n := range canon[1:] {
			if n.num() < *tail {
				continue
			}
			for i, tx := range n.block.Transactions() {
				lookup, _ := bc.GetCanonicalTransaction(tx.Hash())
				if lookup == nil || lookup.BlockHash != n.hash() || lookup.Index != uint64(i) {
					m.fatalf("%s: tx %x of canonical block %s (index tail %d, head #%d) is not resolvable: %v", what, tx.Hash().Bytes()[:4], m.name(n), *tail, H.Number, lookup)
				}
			}
		}
	}
	m.canon = canon
}

// ghostTolerated reports whether missing receipts of n fall under the known finding
// "state left behind by SetHead makes a block re-stored without execution look executed".
func (m *c38Machine) ghostTolerated(n *c38Node) bool {
	if m.rewound[n] && vs.Known("TestVerifC38Machine", c38ClassGhostState) {
		m.st.Excluded()
		return true
	}
	return false
}

func (m *c38Machine) checkReceipts(what string, n *c38Node, rs types.Receipts, via string) {
	txs := n.block.Transactions()
	if len(rs) == 0 && len(txs) > 0 && m.ghostTolerated(n) {
		return
	}
	if rs == nil && len(txs) > 0 || len(rs) != len(txs) {
		m.fatalf("%s: %s for canonical block %s returned %d receipts, want %d", what, via, m.name(n), len(rs), len(txs))
	}
	li := 0
	var cum uint64
	for i, r := range rs {
		want := n.receipts[i]
		cum += want.GasUsed
		if r.TxHash != txs[i].Hash() || r.BlockHash != n.hash() || r.BlockNumber == nil || r.BlockNumber.Uint64() != n.num() || r.TransactionIndex != uint(i) {
			m.fatalf("%s: %s block %s receipt %d has wrong position fields: tx %x block %x #%v idx %d", what, via, m.name(n), i, r.TxHash.Bytes()[:4], r.BlockHash.Bytes()[:4], r.BlockNumber, r.TransactionIndex)
		}
		if r.Status != want.Status || r.CumulativeGasUsed != cum || r.GasUsed != want.GasUsed || r.ContractAddress != want.ContractAddress {
			m.fatalf("%s: %s block %s receipt %d differs from the generated one (status %d/%d cum %d/%d)", what, via, m.name(n), i, r.Status, want.Status, r.CumulativeGasUsed, cum)
		}
		if len(r.Logs) != len(want.Logs) {
			m.fatalf("%s: %s block %s receipt %d has %d logs, want %d", what, via, m.name(n), i, len(r.Logs), len(want.Logs))
		}
		for _, l := range r.Logs {
			exp := n.logs[li]
			li++
			if m.logOf(l) != exp || l.Removed {
				m.fatalf("%s: %s block %s log %d = %+v, want %+v", what, via, m.name(n), li-1, m.logOf(l), exp)
			}
		}
	}
}

func (m *c38Machine) logOf(l *types.Log) c38Log {
	cl := c38Log{BlockHash: l.BlockHash, BlockNum: l.BlockNumber, TxHash: l.TxHash, TxIndex: l.TxIndex, Index: l.Index, Address: l.Address}
	if len(l.Topics) > 0 {
		cl.Topic0 = l.Topics[0]
	}
	return cl
}

// checkEvents compares the events emitted by a reorg-capable action with the
// switch old canonical chain -> new canonical chain.
func (m *c38Machine) checkEvents(what string, old, cur []*c38Node, o c38Observed, reorgAction bool) (dropped, added []*c38Node) {
	common := 0
	for common < len(old) && common < len(cur) && old[common] == cur[common] {
		common++
	}
	dropped, added = old[common:], cur[common:]
	newHead := cur[len(cur)-1]
	// head events: the last one (if any) names the current head; a head change is announced
	if len(o.heads) > 0 {
		if last := o.heads[len(o.heads)-1]; last.Header.Hash() != newHead.hash() {
			m.fatalf("%s: last ChainHeadEvent is for #%d %x but the head block is %s", what, last.Header.Number, last.Header.Hash().Bytes()[:4], m.name(newHead))
		}
	} else if old[len(old)-1] != newHead {
		m.fatalf("%s: head changed %s -> %s without a ChainHeadEvent", what, m.name(old[len(old)-1]), m.name(newHead))
	}
	for _, he := range o.heads {
		n, ok := m.tree.byHash[he.Header.Hash()]
		if !ok {
			m.fatalf("%s: ChainHeadEvent for unknown block %x", what, he.Header.Hash())
		}
		// every announced head was canonical at emission: it lies on the old or on the new chain
		onNew := n.num() < uint64(len(cur)) && cur[n.num()] == n
		onOld := n.num() < uint64(len(old)) && old[n.num()] == n
		if !onNew && !onOld {
			m.fatalf("%s: ChainHeadEvent for %s which is neither on the old nor on the new canonical chain", what, m.name(n))
		}
	}
	if !reorgAction {
		return dropped, added
	}
	// chain events only for blocks of the new canonical chain, with matching content
	for _, ce := range o.chain {
		n, ok := m.tree.byHash[ce.Header.Hash()]
		if !ok || n.num() >= uint64(len(cur)) || cur[n.num()] != n {
			m.fatalf("%s: ChainEvent for block #%d %x which is not on the new canonical chain", what, ce.Header.Number, ce.Header.Hash().Bytes()[:4])
		}
		if len(ce.Receipts) == 0 && len(ce.Transactions) == len(n.block.Transactions()) && len(ce.Transactions) > 0 && m.ghostTolerated(n) {
			continue // known finding, see ghostTolerated
		}
		if len(ce.Transactions) != len(n.block.Transactions()) || len(ce.Receipts) != len(n.block.Transactions()) {
			m.fatalf("%s: ChainEvent for %s carries %d txs / %d receipts, block has %d", what, m.name(n), len(ce.Transactions), len(ce.Receipts), len(n.block.Transactions()))
		}
	}
	// Log events, applied in emission order to the set of logs a subscriber holds
	// (initially the logs of the old canonical chain), must leave exactly the logs of
	// the new canonical chain; a removal must name a log that is currently announced.
	S := m.S // the subscriber's log set carried over from the previous observation
	strictDup := 0
	for _, e := range o.seq {
		for _, l := range e.removed {
			if !l.Removed {
				m.fatalf("%s: RemovedLogsEvent carries a log without the Removed flag: %+v", what, m.logOf(l))
			}
			k := m.logOf(l).key(false)
			if _, ok := S[k]; !ok {
				m.fatalf("%s: RemovedLogsEvent names log %s which is not an announced log of the canonical chain at that point", what, k)
			}
			delete(S, k)
		}
		for _, l := range e.logs {
			if l.Removed {
				m.fatalf("%s: LogsEvent carries a log with the Removed flag: %+v", what, m.logOf(l))
			}
			cl := m.logOf(l)
			n, ok := m.tree.byHash[cl.BlockHash]
			if !ok || int(cl.Index) >= len(n.logs) || n.logs[cl.Index] != cl {
				m.fatalf("%s: LogsEvent carries log %s which is not a log of a generated block", what, cl.key(false))
			}
			k := cl.key(false)
			if _, ok := S[k]; ok {
				strictDup++ // announced again without an intervening removal
			}
			S[k] = struct{}{}
		}
	}
	want := map[string]struct{}{}
	tolerated := map[string]struct{}{}
	retractable := map[string]bool{} // the block's receipts exist, so geth can retract the log later
	for _, n := range cur {
		hasReceipts := len(n.logs) > 0 && len(rawdb.ReadRawReceipts(m.db, n.hash(), n.num())) > 0
		for _, l := range n.logs {
			retractable[l.key(false)] = hasReceipts
			if m.actKind == "insert" && m.preWithState[n] && vs.Known("TestVerifC38Machine", c38ClassKnownNoLogs) {
				// known finding: blocks already stored with state that InsertChain makes
				// canonical again through writeKnownBlock do not get their logs announced
				tolerated[l.key(false)] = struct{}{}
			}
			if m.rewound[n] && vs.Known("TestVerifC38Machine", c38ClassGhostState) {
				// known finding: such blocks have no receipts, hence no logs to announce
				tolerated[l.key(false)] = struct{}{}
			}
			want[l.key(false)] = struct{}{}
		}
	}
	var diff []string
	for k := range want {
		if _, ok := S[k]; !ok {
			if _, tol := tolerated[k]; tol {
				m.st.Excluded()
				if retractable[k] {
					S[k] = struct{}{} // never announced (known finding) but will be retracted on a reorg
				}
				continue
			}
			diff = append(diff, "  never announced: "+k)
		}
	}
	for k := range S {
		if _, ok := want[k]; !ok {
			diff = append(diff, "  still announced (no RemovedLogsEvent): "+k)
		}
	}
	if len(diff) > 0 {
		sort.Strings(diff)
		if len(diff) > 40 { // sides may carry thousands of logs
			diff = append(diff[:40:40], fmt.Sprintf("  ... and %d more", len(diff)-40))
		}
		m.fatalf("%s: after applying the emitted log events in order, a subscriber's log set differs from the logs of the new canonical chain (dropped %s, added %s):\n%s",
			what, m.names(dropped), m.names(added), strings.Join(diff, "\n"))
	}
	if strictDup > 0 {
		m.dupAnnounce += strictDup
	}
	return dropped, added
}

// resetSubscriber models a subscriber that (re)starts from the logs of the current
// canonical chain, as after a restart or after SetHead (which emits no log events).
func (m *c38Machine) resetSubscriber() {
	m.S = map[string]struct{}{}
	for _, n := range m.canon {
		if len(n.logs) > 0 && m.rewound[n] && len(rawdb.ReadRawReceipts(m.db, n.hash(), n.num())) == 0 && m.ghostTolerated(n) {
			continue // known finding: canonical block without receipts, nothing it could announce or retract
		}
		for _, l := range n.logs {
			m.S[l.key(false)] = struct{}{}
		}
	}
}

func (m *c38Machine) names(ns []*c38Node) string {
	var s []string
	for _, n := range ns {
		s = append(s, fmt.Sprintf("%s(%dlogs)", m.name(n), len(n.logs)))
	}
	return "[" + strings.Join(s, " ") + "]"
}

// Classes of suspected geth defects (see notes/C38.md); only honoured when the lead
// lists them in known_findings.json.
const (
	c38ClassKnownNoLogs   = "insertchain-known-blocks-no-logs"
	c38ClassHeaderAhead   = "head-header-ahead-stale-canonical-above"
	c38ClassGhostState    = "sethead-leftover-state-blocks-without-receipts"
)

// known returns the tree nodes whose block is stored in the chain database.
func (m *c38Machine) known() []*c38Node {
	var out []*c38Node
	for _, n := range m.tree.nodes {
		if m.bc.HasBlock(n.hash(), n.num()) {
			out = append(out, n)
		}
	}
	return out
}

func c38LogCount(ns []*c38Node) int {
	c := 0
	for _, n := range ns {
		c += len(n.logs)
	}
	return c
}

// c38Chunks returns into how many announcements the logs of the given blocks (in
// emission order) are split when a chunk is flushed as soon as more than c38ChunkLimit
// logs have accumulated. Histogram only.
func c38Chunks(ns []*c38Node) int {
	chunks, acc := 0, 0
	for _, n := range ns {
		acc += len(n.logs)
		if acc > c38ChunkLimit {
			chunks++
			acc = 0
		}
	}
	if acc > 0 {
		chunks++
	}
	return chunks
}

func (m *c38Machine) noteReorg(c *vs.Case, dropped, added []*c38Node) {
	// Sides announced in several chunks. The dropped side of an action is retracted by
	// one reorg call (the first head switch of the action); the added side is announced
	// by one reorg call only for SetCanonical (InsertChain adopts block by block), and
	// never includes the new head, which the caller announces itself.
	if c38Chunks(dropped) >= 2 {
		m.multiChunk = true
		c.Class("reorg:removed-logs-in>=2-chunks")
	}
	if m.actKind == "setCanonical" && len(added) > 1 && c38Chunks(added[:len(added)-1]) >= 2 {
		m.multiChunk = true
		c.Class("reorg:reborn-logs-in>=2-chunks")
	}
	if len(dropped) > 0 && len(added) > 0 {
		m.reorgs++
		d := len(dropped)
		if len(added) < d {
			d = len(added)
		}
		if d > m.maxDeep {
			m.maxDeep = d
		}
		if len(dropped) >= 2 && len(added) >= 2 && c38LogCount(dropped) > 0 && c38LogCount(added) > 0 {
			m.deepOK = true
			c.Class("reorg:deep>=2-logs-both-sides")
		}
		if m.hadSet {
			m.deepOK = true
			c.Class("reorg:after-sethead-below-fork")
		}
		c.Class("reorg:any")
	} else if len(dropped) > 0 {
		c.Class("canon:shortened")
	} else if len(added) > 0 {
		c.Class("canon:extended")
	} else {
		c.Class("canon:unchanged")
	}
}

func c38Run(rt *rapid.T, st *vs.S, maxTrunk, maxActions int) {
	c := st.Case()
	env := c38DrawEnv(rt)
	tree := c38GenTree(rt, env, maxTrunk)
	m := &c38Machine{rt: rt, env: env, tree: tree, db: rawdb.NewMemoryDatabase(), stale: map[common.Hash]struct{}{}, st: st, rewound: map[*c38Node]bool{}}
	scheme := rapid.SampledFrom([]string{rawdb.HashScheme, rawdb.PathScheme}).Draw(rt, "scheme")
	m.cfg = DefaultConfig().WithStateScheme(scheme)
	m.limit = rapid.SampledFrom([]int64{0, 0, 2, 5}).Draw(rt, "txLookupLimit")
	m.cfg.TxLookupLimit = m.limit
	if scheme == rawdb.HashScheme && rapid.Bool().Draw(rt, "noSnapshots") {
		m.cfg.SnapshotLimit = 0
	}
	c.Classf("cfg:%s/%s/limit%d/snap%v", env.variant, scheme, m.limit, m.cfg.SnapshotLimit > 0)
	hasChild := map[*c38Node]bool{}
	for _, n := range tree.nodes {
		hasChild[n.parent] = true
	}
	for _, n := range tree.nodes {
		if !hasChild[n] {
			m.leaves = append(m.leaves, n)
		}
	}
	m.logf("tree: %d blocks, %d txs, %d logs, max height %d, %d leaves", len(tree.nodes), len(tree.txOrder), c38LogCount(tree.nodes), tree.maxNum, len(m.leaves))
	if tree.heavy {
		c.Class("tree:heavy-logs")
	} else {
		c.Class("tree:light-logs")
	}
	m.open()
	defer func() {
		m.ev.close()
		m.bc.Stop()
	}()
	m.verify("initial")
	m.resetSubscriber()

	nActions := rapid.IntRange(4, maxActions).Draw(rt, "nActions")
	for a := 0; a < nActions; a++ {
		kind := rapid.SampledFrom([]string{"insert", "insert", "insert", "insert", "insertNoHead", "setCanonical", "setCanonical", "setHead", "setHeadTime", "restart"}).Draw(rt, "action")
		if m.bc.CurrentHeader().Number.Uint64() == 0 && kind != "insertNoHead" && kind != "restart" {
			kind = "insert" // nothing to rewind or to switch to yet
		}
		old := m.canon
		reorgAction := false
		m.actKind, m.actTarget = kind, nil
		m.preWithState = map[*c38Node]bool{}
		for _, n := range tree.nodes {
			if m.bc.HasBlockAndState(n.hash(), n.num()) {
				m.preWithState[n] = true
			}
		}
		switch kind {
		case "insert":
			var tip *c38Node
			if rapid.IntRange(0, 2).Draw(rt, "tipKind") > 0 {
				tip = m.leaves[rapid.IntRange(0, len(m.leaves)-1).Draw(rt, "leaf")]
			} else {
				tip = tree.nodes[rapid.IntRange(0, len(tree.nodes)-1).Draw(rt, "tip")]
			}
			path := tree.chainTo(tip)[1:]
			firstUnknown := len(path)
			for i, n := range path {
				if !m.bc.HasBlock(n.hash(), n.num()) {
					firstUnknown = i
					break
				}
			}
			start := firstUnknown
			if start > len(path)-1 {
				start = len(path) - 1
			}
			mode := rapid.SampledFrom([]string{"extend", "extend", "extend", "extend", "extend", "extend", "overlap", "overlap", "gap", "whole"}).Draw(rt, "insertMode")
			switch mode {
			case "overlap":
				start = rapid.IntRange(0, start).Draw(rt, "segStart")
			case "gap":
				if firstUnknown < len(path)-1 {
					start = rapid.IntRange(firstUnknown+1, len(path)-1).Draw(rt, "segStart")
				}
			case "whole":
				start = 0
			}
			end := len(path) - 1
			if rapid.IntRange(0, 3).Draw(rt, "partial") == 0 {
				end = rapid.IntRange(start, len(path)-1).Draw(rt, "segEnd")
			}
			seg := path[start : end+1]
			blocks := make(types.Blocks, len(seg))
			for i, n := range seg {
				blocks[i] = n.block
			}
			idx, err := m.bc.InsertChain(blocks)
			m.logf("%d InsertChain(%s .. %s) [%s, %d blocks] -> %d, %v", a, m.name(seg[0]), m.name(seg[len(seg)-1]), mode, len(seg), idx, err)
			if err != nil {
				c.Class("insert:error")
			} else {
				c.Class("insert:ok")
			}
			c.Class("insert:mode-" + mode)
			reorgAction = true
		case "insertNoHead":
			// preconditions of the only production caller (engine API newPayload): the
			// block is not yet known locally and its parent is known with state
			var cands []*c38Node
			for _, n := range tree.nodes {
				if !m.bc.HasBlock(n.hash(), n.num()) && m.bc.GetBlockByHash(n.hash()) == nil && m.bc.HasBlockAndState(n.parent.hash(), n.parent.num()) {
					cands = append(cands, n)
				}
			}
			if len(cands) == 0 {
				c.Class("insertNoHead:no-candidate")
				m.logf("%d insertNoHead skipped (no candidate)", a)
				continue
			}
			n := cands[rapid.IntRange(0, len(cands)-1).Draw(rt, "block")]
			_, err := m.bc.InsertBlockWithoutSetHead(context.Background(), n.block, false)
			m.logf("%d InsertBlockWithoutSetHead(%s) -> %v", a, m.name(n), err)
			if err != nil {
				c.Class("insertNoHead:error")
			} else {
				c.Class("insertNoHead:ok")
			}
			reorgAction = true
		case "setCanonical":
			// precondition of the only caller (engine API forkchoiceUpdated): the block is
			// known locally and is not the current head block
			var cands []*c38Node
			for _, n := range m.known() {
				if n.hash() != m.bc.CurrentBlock().Hash() {
					cands = append(cands, n)
				}
			}
			if len(cands) == 0 {
				c.Class("setCanonical:none-known")
				m.logf("%d setCanonical skipped (no candidate)", a)
				continue
			}
			// Bias towards what forkchoiceUpdated is mostly used for when it is not a plain
			// extension: switching to a stored block of another fork (1/3 any such block,
			// 1/3 the stored tip of such a fork, 1/3 any candidate incl. ancestors of the head).
			var side, sideTips []*c38Node
			knownParent := map[*c38Node]bool{}
			for _, n := range cands {
				knownParent[n.parent] = true
			}
			for _, n := range cands {
				if n.num() < uint64(len(old)) && old[n.num()] == n {
					continue
				}
				side = append(side, n)
				if !knownParent[n] {
					sideTips = append(sideTips, n)
				}
			}
			if len(side) > 0 {
				switch rapid.IntRange(0, 2).Draw(rt, "targetKind") {
				case 1:
					cands = side
				case 2:
					cands = sideTips
				}
			}
			n := cands[rapid.IntRange(0, len(cands)-1).Draw(rt, "target")]
			_, err := m.bc.SetCanonical(n.block)
			m.logf("%d SetCanonical(%s) -> %v", a, m.name(n), err)
			if err != nil {
				c.Class("setCanonical:error")
			} else {
				c.Class("setCanonical:ok")
			}
			reorgAction = true
		case "setHead", "setHeadTime":
			hdr := m.bc.CurrentHeader().Number.Uint64()
			if hdr == 0 {
				c.Class("setHead:at-genesis")
				m.logf("%d setHead skipped (at genesis)", a)
				continue
			}
			// precondition of the debug API: target strictly below the head header; in path
			// mode additionally the target state must be available or recoverable
			target := uint64(rapid.IntRange(0, int(hdr)-1).Draw(rt, "target"))
			if rapid.IntRange(0, 2).Draw(rt, "near") > 0 && hdr > 4 {
				target = hdr - 1 - uint64(rapid.IntRange(0, 3).Draw(rt, "back"))
			}
			if m.cfg.StateScheme == rawdb.PathScheme {
				if h := m.bc.GetHeaderByNumber(target); h != nil && !m.bc.HasState(h.Root) && !m.bc.StateRecoverable(h.Root) {
					c.Class("setHead:target-unrecoverable-skipped")
					m.logf("%d setHead(%d) skipped: target state not recoverable in path mode", a, target)
					continue
				}
			}
			if h := m.bc.GetHeaderByNumber(target); h != nil && !m.bc.HasState(h.Root) && vs.Known("TestVerifC38Machine", c38ClassHeaderAhead) {
				// known finding: rewinding to a block without state leaves the head header
				// above the head block; a later head update on another fork then keeps the
				// old canonical markers above the new head. Avoid the trigger.
				st.Excluded()
				c.Class("setHead:stateless-target-skipped-known")
				m.logf("%d setHead(%d) skipped: target state missing (known finding)", a, target)
				continue
			}
			// transactions of every stored block above the target may keep a stale lookup entry
			for _, n := range m.known() {
				if n.num() > target {
					for _, tx := range n.block.Transactions() {
						m.stale[tx.Hash()] = struct{}{}
					}
					m.rewound[n] = true
				}
			}
			forkBelow := false
			for _, n := range tree.nodes {
				if n.fork != 0 && n.parent.fork != n.fork && n.parent.num() >= target {
					forkBelow = true
				}
			}
			var err error
			if kind == "setHead" {
				err = m.bc.SetHead(target)
				m.logf("%d SetHead(%d) -> %v", a, target, err)
			} else {
				ts := m.canonHeaderTime(target)
				err = m.bc.SetHeadWithTimestamp(ts)
				m.logf("%d SetHeadWithTimestamp(%d /* #%d */) -> %v", a, ts, target, err)
			}
			if err != nil {
				m.fatalf("%s returned an error: %v", kind, err)
			}
			if forkBelow {
				m.hadSet = true
			}
			c.Class(kind + ":ok")
		case "restart":
			m.ev.close()
			m.bc.Stop()
			m.open()
			m.logf("%d restart", a)
			c.Class("restart")
			if got := m.bc.CurrentBlock().Hash(); got != old[len(old)-1].hash() {
				c.Class("restart:head-moved")
				m.logf("   head after clean restart: #%d %x (was %s)", m.bc.CurrentBlock().Number, got.Bytes()[:3], m.name(old[len(old)-1]))
			}
		}
		c38WaitIndexer(rt)
		obs := m.ev.drain()
		what := m.trace[len(m.trace)-1]
		m.verify(what)
		if kind != "restart" {
			dropped, added := m.checkEvents(what, old, m.canon, obs, reorgAction)
			m.noteReorg(c, dropped, added)
		}
		if !reorgAction {
			m.resetSubscriber()
		}
	}
	desc := fmt.Sprintf("%s|%s|%d|%s", env.variant, scheme, m.limit, strings.Join(m.trace, ";"))
	c.NonTrivial(m.deepOK, desc)
	c.Classf("reorgs:%s", c38Bucket(m.reorgs))
	if m.dupAnnounce > 0 {
		c.Class("obs:logs-reannounced-without-removal")
	}
	if m.multiChunk {
		c.Class("case:some-side-announced-in>=2-chunks")
	}
	c.Sample(m.deepOK, func() any {
		return map[string]any{"variant": env.variant, "scheme": scheme, "txLookupLimit": m.limit, "trace": m.trace}
	})
}

func c38Bucket(n int) string {
	switch {
	case n == 0:
		return "0"
	case n <= 2:
		return "1-2"
	case n <= 5:
		return "3-5"
	default:
		return "6+"
	}
}

// canonHeaderTime returns the timestamp of the header at the given number on the
// current header chain.
func (m *c38Machine) canonHeaderTime(num uint64) uint64 {
	h := m.bc.GetHeaderByNumber(num)
	if h == nil {
		m.fatalf("VERIF-HARNESS-BUG: no canonical header at #%d", num)
	}
	return h.Time
}

func c38DrawEnv(rt *rapid.T) *c38Env {
	env := &c38Env{}
	for i := 1; i <= 3; i++ {
		k, err := crypto.ToECDSA(common.LeftPadBytes([]byte{byte(0x40 + i)}, 32))
		if err != nil {
			rt.Fatalf("VERIF-HARNESS-BUG: %v", err)
		}
		env.keys = append(env.keys, &keyPair{key: k, addr: crypto.PubkeyToAddress(k.PublicKey)})
	}
	alloc := types.GenesisAlloc{}
	for _, kp := range env.keys {
		alloc[kp.addr] = types.Account{Balance: new(big.Int).Mul(big.NewInt(1000), big.NewInt(params.Ether))}
	}
	alloc[c38LoggerAddr] = types.Account{Code: c38LoggerCode, Balance: big.NewInt(1)}
	env.variant = rapid.SampledFrom([]string{"ethash", "ethash", "merged"}).Draw(rt, "variant")
	switch env.variant {
	case "ethash":
		env.config = params.TestChainConfig
		env.engine = func() consensus.Engine { return ethash.NewFaker() }
	case "merged":
		cfg := *params.MergedTestChainConfig
		cfg.PragueTime, cfg.OsakaTime = nil, nil
		env.config = &cfg
		env.engine = func() consensus.Engine { return beacon.New(ethash.NewFaker()) }
	}
	env.gspec = &Genesis{Config: env.config, Alloc: alloc, BaseFee: big.NewInt(params.InitialBaseFee), GasLimit: 8_000_000}
	return env
}

// TestVerifC38Machine is the main property.
func TestVerifC38Machine(t *testing.T) {
	st := vs.New("C38", t)
	maxTrunk, maxActions := 18, 20
	if vs.Thorough() {
		maxTrunk, maxActions = 30, 25
	}
	vs.Check(t, 1, func(rt *rapid.T) {
		c38Run(rt, st, maxTrunk, maxActions)
	})
}
