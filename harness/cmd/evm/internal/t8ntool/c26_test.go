//go:build verif

package t8ntool

// C26: geth's transition tool entry (Prestate.Apply) against kit/refevm, the
// in-harness reference written from the Yellow Paper / EIP texts, for the Cancun,
// Prague and Osaka rule sets. See notes/C26.md for the domain and its limits.

import (
	"bytes"
	"crypto/ecdsa"
	"crypto/sha256"
	"fmt"
	"math/big"
	"os"
	"sort"
	"strings"
	"testing"

	"github.com/ethereum/go-ethereum/common"
	"github.com/ethereum/go-ethereum/common/math"
	"github.com/ethereum/go-ethereum/core"
	"github.com/ethereum/go-ethereum/core/types"
	"github.com/ethereum/go-ethereum/core/vm"
	"github.com/ethereum/go-ethereum/crypto"
	"github.com/ethereum/go-ethereum/internal/verifx/evmx"
	"github.com/ethereum/go-ethereum/params"
	"github.com/holiman/uint256"
	"pgregory.net/rapid"
	ep "verif.local/kit/evmprog"
	"verif.local/kit/refevm"
	vs "verif.local/kit/stat"
)

// ---------------------------------------------------------------------------
// Host: precompile results and prices come from geth's exported objects.
// ---------------------------------------------------------------------------

type c26Host struct {
	pre map[refevm.Fork]vm.PrecompiledContracts
}

func newC26Host() *c26Host {
	h := &c26Host{pre: map[refevm.Fork]vm.PrecompiledContracts{}}
	for _, f := range []refevm.Fork{refevm.Cancun, refevm.Prague, refevm.Osaka} {
		h.pre[f] = vm.ActivePrecompiledContracts(evmx.Rules(c26EpFork(f)))
	}
	return h
}

func (h *c26Host) PrecompileGas(f refevm.Fork, a refevm.Addr, in []byte) uint64 {
	p, ok := h.pre[f][common.Address(a)]
	if !ok {
		panic(fmt.Sprintf("VERIF-HARNESS-BUG: reference asked for precompile %x not active in %v", a, f))
	}
	return p.RequiredGas(in)
}

func (h *c26Host) PrecompileRun(f refevm.Fork, a refevm.Addr, in []byte) ([]byte, bool) {
	p, ok := h.pre[f][common.Address(a)]
	if !ok {
		panic(fmt.Sprintf("VERIF-HARNESS-BUG: reference asked for precompile %x not active in %v", a, f))
	}
	out, err := p.Run(append([]byte{}, in...))
	return out, err == nil
}

func c26EpFork(f refevm.Fork) ep.Fork {
	switch f {
	case refevm.Cancun:
		return ep.Cancun
	case refevm.Prague:
		return ep.Prague
	}
	return ep.Osaka
}

// ---------------------------------------------------------------------------
// Fixed cast
// ---------------------------------------------------------------------------

var (
	c26Keys  []*ecdsa.PrivateKey
	c26Addrs []common.Address

	c26DepositAddr  = common.HexToAddress("0x00000000219ab540356cBB839Cbe05303d7705Fa")
	c26FreshAddr    = common.HexToAddress("0xc01bc01bc01bc01bc01bc01bc01bc01bc01b0001") // absent from every pre-state
	c26ObserverAddr = common.HexToAddress("0x0b5e000000000000000000000000000000000001")
	// authority probe: performs one EIP-2929 priced access per address that can be the
	// authority of an EIP-7702 tuple and records what that access cost (c26AuthProbeCode)
	c26AuthProbeAddr = common.HexToAddress("0x0b5e000000000000000000000000000000000002")
	c26Gwei          = big.NewInt(1_000_000_000)
	c26Ether         = new(big.Int).Exp(big.NewInt(10), big.NewInt(18), nil)
)

// Keys 0-3 send transactions (key 4 too when it carries a delegation), keys 2-5 sign
// authorizations. Key 5 never sends: its account is absent, a plain EOA or holds real
// (non-delegation) code, the state in which EIP-7702 skips a tuple at the code check.
const (
	c26NumKeys     = 6
	c26AuthOnlyKey = 5
)

func init() {
	for i := 0; i < c26NumKeys; i++ {
		var b [32]byte
		b[0], b[31] = 0x26, byte(i+1)
		k, err := crypto.ToECDSA(b[:])
		if err != nil {
			panic(err)
		}
		c26Keys = append(c26Keys, k)
		c26Addrs = append(c26Addrs, crypto.PubkeyToAddress(k.PublicKey))
	}
}

func c26Config(f refevm.Fork) *params.ChainConfig {
	c := evmx.ChainConfig(c26EpFork(f))
	c.DepositContractAddress = c26DepositAddr
	c.BlobScheduleConfig = &params.BlobScheduleConfig{
		Cancun: &params.BlobConfig{Target: 3, Max: 6, UpdateFraction: 3338477},
		Prague: &params.BlobConfig{Target: 6, Max: 9, UpdateFraction: 5007716},
	}
	return c
}

// blob schedule of the reference, from EIP-4844 (Cancun) and EIP-7691 (Prague on).
func c26BlobSchedule(f refevm.Fork) (maxBlobs, fraction uint64) {
	if f == refevm.Cancun {
		return 6, 3338477
	}
	return 9, 5007716
}

// ---------------------------------------------------------------------------
// Case
// ---------------------------------------------------------------------------

type c26Case struct {
	fork    refevm.Fork
	cfg     *params.ChainConfig
	pre     types.GenesisAlloc
	refPre  refevm.World
	env     stEnv
	refEnv  *refevm.Env
	txs     []*types.Transaction
	refTxs  []*refevm.Tx
	txNotes []string
	remake  []func(gas uint64) // re-sign transaction i with another gas limit
	txNeed  []uint64           // max(intrinsic, floor) of transaction i
	world   *ep.World
	classes []string
	// authOnly is the pre-state of key 5's account: "absent", "eoa" or "code"
	authOnly  string
	probeNote string
	// excluded counts triggers of the acknowledged finding "deposit-layout" that the
	// generator replaced by a canonical record.
	excluded int
}

func (c *c26Case) class(s string) { c.classes = append(c.classes, s) }

// put installs an account in both pre-states.
func (c *c26Case) put(a common.Address, nonce uint64, bal *big.Int, code []byte, st map[common.Hash]common.Hash) {
	if nonce == 0 && bal.Sign() == 0 && len(code) == 0 {
		panic("VERIF-HARNESS-BUG: empty account in pre-state")
	}
	if len(st) > 0 && nonce == 0 && len(code) == 0 {
		panic("VERIF-HARNESS-BUG: storage without code/nonce in pre-state")
	}
	acc := types.Account{Nonce: nonce, Balance: new(big.Int).Set(bal), Code: append([]byte{}, code...)}
	racc := &refevm.Acct{Nonce: nonce, Balance: new(big.Int).Set(bal), Code: append([]byte{}, code...), Storage: map[refevm.Hash]refevm.Hash{}}
	if len(st) > 0 {
		acc.Storage = map[common.Hash]common.Hash{}
		for k, v := range st {
			if v == (common.Hash{}) {
				continue
			}
			acc.Storage[k] = v
			racc.Storage[refevm.Hash(k)] = refevm.Hash(v)
		}
	}
	c.pre[a] = acc
	c.refPre[refevm.Addr(a)] = racc
}

func c26Pick[T any](rt *rapid.T, label string, xs ...T) T { return xs[ep.Uniform(rt, label, len(xs))] }

func c26Big(s string) *big.Int {
	v, ok := new(big.Int).SetString(s, 10)
	if !ok {
		panic(s)
	}
	return v
}

// c26Domain switches parts of the generated domain; everything listed here is
// implemented by kit/refevm.
type c26Domain struct {
	forks        []refevm.Fork
	maxTxs       int
	creates      bool
	blobTxs      bool
	setCodeTxs   bool
	defects      bool
	withdrawals  bool
	systemCode   bool
	rawEntryPct  int
	maxContracts int
}

var c26Full = c26Domain{
	forks:  []refevm.Fork{refevm.Cancun, refevm.Prague, refevm.Osaka},
	maxTxs: 4, creates: true, blobTxs: true, setCodeTxs: true, defects: true, withdrawals: true, systemCode: true,
	rawEntryPct: 8, maxContracts: 4,
}

func c26Draw(rt *rapid.T, d c26Domain) *c26Case {
	c := &c26Case{pre: types.GenesisAlloc{}, refPre: refevm.World{}}
	c.fork = d.forks[ep.Uniform(rt, "fork", len(d.forks))]
	c.cfg = c26Config(c.fork)
	c.class("fork:" + c.fork.String())

	// ---- delegated EOA (Prague+): key 4 carries a delegation designator
	delegated := c.fork >= refevm.Prague && d.setCodeTxs && ep.Uniform(rt, "delegated-eoa", 3) == 0

	// ---- contracts
	others := ep.DefaultOthers()
	extra := []common.Address{c26Addrs[0], c26Addrs[4], c26FreshAddr}
	if d.setCodeTxs { // two more possible authorities of EIP-7702 tuples
		extra = append(extra, c26Addrs[2], c26Addrs[c26AuthOnlyKey])
	}
	if d.systemCode {
		extra = append(extra, params.BeaconRootsAddress, params.HistoryStorageAddress, params.WithdrawalQueueAddress, params.ConsolidationQueueAddress)
	}
	for _, a := range extra {
		others = append(others, ep.Target{Kind: ep.TgtEOA, Addr: a})
	}
	w, err := ep.DrawWorld(rt, ep.WorldConfig{Fork: c26EpFork(c.fork), MaxContracts: d.maxContracts, RawEntryPct: d.rawEntryPct,
		Gen: ep.GenConfig{Others: others, EffectBias: ep.Uniform(rt, "effect-bias", 2) == 0, MaxBlocks: c26Pick(rt, "max-blocks", 6, 8, 12)}})
	if err != nil {
		rt.Fatalf("VERIF-HARNESS-BUG: evmprog: %v", err)
	}
	c.world = w
	for i, ct := range w.Contracts {
		bal := c26Pick(rt, "contract-balance", big.NewInt(0), big.NewInt(1), big.NewInt(1000), c26Ether)
		st := map[common.Hash]common.Hash{}
		for s := 0; s < 4; s++ {
			if ep.Uniform(rt, "slot-set", 3) == 0 {
				v := c26Pick(rt, "slot-val", uint64(1), 2, 1<<63)
				st[common.BigToHash(big.NewInt(int64(s)))] = common.BigToHash(new(big.Int).SetUint64(v))
			}
		}
		// EIP-2681: a creator whose nonce is 2^64-1 cannot CREATE any more
		cn := c26Pick(rt, "contract-nonce", uint64(1), 1, 1, 1, 1, 1, 1, 1, 1, 1, 1, 1, 1, 1, 1, 1, 1, 5, 5, 1<<64-1)
		if cn == 1<<64-1 {
			c.class("pre:contract-nonce-max")
		}
		c.put(common.Address(ct.Addr), cn, bal, ct.Code, st)
		_ = i
	}
	c.put(common.Address(ep.EOAAddr), 0, big.NewInt(1_000_000), nil, nil)

	// ---- senders
	rich := new(big.Int).Mul(c26Ether, big.NewInt(1_000_000))
	nonces := make([]uint64, c26NumKeys)
	for i := 0; i < c26NumKeys; i++ {
		nonces[i] = c26Pick(rt, "sender-nonce", uint64(0), 0, 1, 7)
		if i == 3 && d.defects && ep.Uniform(rt, "sender-nonce-max", 8) == 0 {
			nonces[i] = 1<<64 - 1 // EIP-2681: such a sender can never transact again
			c.class("pre:sender-nonce-max")
		}
		var code []byte
		if i == c26AuthOnlyKey {
			// the authority-only account: absent (a valid tuple then earns no refund), a
			// plain EOA, or an account with real code (EIP-7702 step 5 skips the tuple,
			// after step 4 has made the authority warm)
			c.authOnly = "eoa"
			if d.setCodeTxs {
				c.authOnly = c26Pick(rt, "auth-only-account", "absent", "eoa", "code", "code")
			}
			c.class("pre:auth-only-" + c.authOnly)
			switch c.authOnly {
			case "absent":
				nonces[i] = 0
				continue
			case "code":
				nonces[i] = c26Pick(rt, "auth-only-nonce", uint64(0), 1)
				code = c26Pick(rt, "auth-only-code", []byte{0x00}, []byte{0x60, 0x01, 0x5f, 0x55, 0x00}, w.Contracts[0].Code)
				if _, isDelegation := types.ParseDelegation(code); len(code) == 0 || isDelegation {
					code = []byte{0x00}
				}
			}
		}
		if i == 4 && delegated {
			tgt := c26Pick(rt, "delegation-target", common.Address(w.Contracts[0].Addr), common.Address(w.Contracts[len(w.Contracts)-1].Addr),
				common.Address(ep.PrecompileAddr(4)), common.Address(ep.EOAAddr), c26Addrs[4], common.Address(ep.MissingAddr))
			code = types.AddressToDelegation(tgt)
			c.class("pre:delegated-eoa")
		}
		c.put(c26Addrs[i], nonces[i], rich, code, nil)
	}

	// ---- system contracts
	if d.systemCode {
		sys := []struct {
			a    common.Address
			code []byte
			must bool
		}{
			{params.BeaconRootsAddress, params.BeaconRootsCode, false},
			{params.HistoryStorageAddress, params.HistoryStorageCode, false},
			{params.WithdrawalQueueAddress, params.WithdrawalQueueCode, c.fork >= refevm.Prague},
			{params.ConsolidationQueueAddress, params.ConsolidationQueueCode, c.fork >= refevm.Prague},
		}
		for _, s := range sys {
			if s.must || ep.Uniform(rt, "system-code", 4) != 0 {
				c.put(s.a, 1, big.NewInt(0), s.code, nil)
			}
		}
	} else if c.fork >= refevm.Prague {
		c.put(params.WithdrawalQueueAddress, 1, big.NewInt(0), params.WithdrawalQueueCode, nil)
		c.put(params.ConsolidationQueueAddress, 1, big.NewInt(0), params.ConsolidationQueueCode, nil)
	}

	// ---- observer: forwards the transaction to contract 0 and makes the outcome
	// (success flag, return data) part of the post-state and of the logs
	c.put(c26ObserverAddr, 1, big.NewInt(0), c26Observer(w.Contracts[0].Addr),
		map[common.Hash]common.Hash{{}: common.BigToHash(big.NewInt(7)), common.BigToHash(big.NewInt(1)): common.BigToHash(big.NewInt(7))})

	// ---- authority probe (see c26AuthProbeCode)
	if d.setCodeTxs {
		var probe []byte
		probe, c.probeNote = c26AuthProbeCode(rt)
		c.put(c26AuthProbeAddr, 1, big.NewInt(1000), probe, nil)
	}

	// ---- deposit contract stand-in: LOG1(DepositEvent topic, calldata)
	if d.systemCode {
		c.put(c26DepositAddr, 1, big.NewInt(0), c26DepositEmitter(), nil)
	}

	// ---- environment
	number := uint64(1 + ep.Uniform(rt, "number", 600))
	coinbase := c26Pick(rt, "coinbase", c26FreshAddr, c26FreshAddr, c26Addrs[0], common.Address(w.Contracts[0].Addr),
		common.Address(ep.EOAAddr), common.Address(ep.PrecompileAddr(3)))
	baseFee := c26Pick(rt, "basefee", big.NewInt(7), big.NewInt(7), big.NewInt(1000), big.NewInt(1_000_000_000), big.NewInt(0))
	gasLimit := c26Pick(rt, "block-gaslimit", uint64(30_000_000), 30_000_000, 30_000_000, 30_000_000, 36_000_000, 60_000_000, 3_000_000, 400_000)
	excess := c26Pick(rt, "excess-blob-gas", uint64(0), 0, 393216, 10_000_000, 60_000_000)
	var random common.Hash
	copy(random[:], rapid.SliceOfN(rapid.Byte(), 32, 32).Draw(rt, "random"))
	var beacon common.Hash
	copy(beacon[:], rapid.SliceOfN(rapid.Byte(), 32, 32).Draw(rt, "beacon-root"))
	timestamp := uint64(1_700_000_000 + ep.Uniform(rt, "time", 100000))

	hashes := map[math.HexOrDecimal64]common.Hash{}
	refHashes := map[uint64]refevm.Hash{}
	lo := uint64(0)
	if number > 256 {
		lo = number - 256
	}
	for n := lo; n < number; n++ {
		h := crypto.Keccak256Hash([]byte(fmt.Sprintf("c26-block-%d", n)))
		hashes[math.HexOrDecimal64(n)] = h
		refHashes[n] = refevm.Hash(h)
	}
	c.env = stEnv{
		Coinbase: coinbase, Difficulty: big.NewInt(0), Random: new(big.Int).SetBytes(random[:]), GasLimit: gasLimit,
		Number: number, Timestamp: timestamp, BlockHashes: hashes, BaseFee: baseFee, ExcessBlobGas: &excess,
		ParentBeaconBlockRoot: &beacon,
	}
	maxBlobs, fraction := c26BlobSchedule(c.fork)
	rb := refevm.Hash(beacon)
	c.refEnv = &refevm.Env{
		Fork: c.fork, ChainID: big.NewInt(1), Coinbase: refevm.Addr(coinbase), Number: number, Time: timestamp, GasLimit: gasLimit,
		BaseFee: baseFee, Random: refevm.Hash(random), ExcessBlobGas: excess, MaxBlobsPerBlock: maxBlobs, BlobUpdateFraction: fraction,
		BlockHashes: refHashes, ParentBeaconRoot: &rb, DepositContract: refevm.Addr(c26DepositAddr),
	}
	if c.fork >= refevm.Prague {
		ph := refHashes[number-1]
		c.refEnv.ParentHash = &ph
	}
	if d.withdrawals {
		c.env.Withdrawals = []*types.Withdrawal{}
		n := ep.Uniform(rt, "withdrawals", 3)
		for i := 0; i < n; i++ {
			a := c26Pick(rt, "withdrawal-addr", common.Address(ep.EOAAddr), common.Address(ep.MissingAddr), c26FreshAddr, c26Addrs[1],
				common.Address(w.Contracts[0].Addr))
			amt := c26Pick(rt, "withdrawal-amount", uint64(0), 1, 1_000_000_000, 1<<63)
			c.env.Withdrawals = append(c.env.Withdrawals, &types.Withdrawal{Index: uint64(i), Validator: 1, Address: a, Amount: amt})
			c.refEnv.Withdrawals = append(c.refEnv.Withdrawals, refevm.Withdrawal{Addr: refevm.Addr(a), Amount: amt})
			c.class("withdrawal")
		}
	}
	blobBaseFee := refevm.BlobBaseFee(c.refEnv)

	// ---- transactions
	ntx := 1 + ep.Uniform(rt, "ntx", d.maxTxs)
	for i := 0; i < ntx; i++ {
		c.drawTx(rt, d, i, nonces, blobBaseFee, delegated)
	}
	return c
}

// drawTx appends one transaction (signed geth tx and reference tx).
func (c *c26Case) drawTx(rt *rapid.T, d c26Domain, idx int, nonces []uint64, blobBaseFee *big.Int, delegated bool) {
	w := c.world
	fork := c.fork
	nsenders := 4
	if delegated {
		nsenders = 5
	}
	si := ep.Uniform(rt, "sender", nsenders)
	key, from := c26Keys[si], c26Addrs[si]

	// type
	typeW := []int{3, 2, 4, 0, 0}
	if d.blobTxs {
		typeW[3] = 2
	}
	if d.setCodeTxs {
		typeW[4] = 3
		if fork == refevm.Cancun { // there this is the "unsupported type" defect
			typeW[4] = 1
			if !d.defects {
				typeW[4] = 0
			}
		}
	}
	typ := c26Weighted(rt, "tx-type", typeW)

	// destination
	var to *common.Address
	var toNote string
	{
		wts := []int{6, 3, 2, 1, 2, 0, 0, 0, 0, 0, 7, 0}
		if d.setCodeTxs {
			wts[11] = 1
			if typ == refevm.TxSetCode && fork >= refevm.Prague {
				wts[11] = 10
			}
		}
		if d.systemCode {
			wts[8], wts[9] = 1, 1
		}
		if d.creates && typ != refevm.TxBlob && typ != refevm.TxSetCode {
			wts[5] = 4
		}
		if delegated {
			wts[6] = 3
		}
		if d.systemCode {
			wts[7] = 2
		}
		switch c26Weighted(rt, "tx-to", wts) {
		case 0:
			a := common.Address(w.Contracts[0].Addr)
			to, toNote = &a, "contract0"
		case 1:
			a := common.Address(w.Contracts[ep.Uniform(rt, "to-contract", len(w.Contracts))].Addr)
			to, toNote = &a, "contract"
		case 2:
			a := c26Pick(rt, "to-eoa", common.Address(ep.EOAAddr), c26Addrs[1], from)
			to, toNote = &a, "eoa"
		case 3:
			a := c26Pick(rt, "to-missing", common.Address(ep.MissingAddr), c26FreshAddr)
			to, toNote = &a, "missing"
		case 4:
			a := common.Address(ep.PrecompileAddr(c26Pick(rt, "to-precompile", 1, 2, 3, 4, 5, 6, 9, 0x0a, 0x0b, 0x100)))
			to, toNote = &a, "precompile"
		case 5:
			to, toNote = nil, "create"
		case 6:
			a := c26Addrs[4]
			to, toNote = &a, "delegated-eoa"
		case 7:
			a := c26Pick(rt, "to-system", params.BeaconRootsAddress, params.HistoryStorageAddress, params.WithdrawalQueueAddress, params.ConsolidationQueueAddress)
			to, toNote = &a, "system"
		case 8: // a well-formed EIP-7002 / EIP-7251 request (56 / 96 bytes of calldata, fee attached)
			a := c26Pick(rt, "to-request", params.WithdrawalQueueAddress, params.ConsolidationQueueAddress)
			to, toNote = &a, "request"
		case 9:
			a := c26DepositAddr
			to, toNote = &a, "deposit"
		case 10:
			a := c26ObserverAddr
			to, toNote = &a, "observer"
		case 11:
			a := c26AuthProbeAddr
			to, toNote = &a, "auth-probe"
		}
	}

	// calldata / initcode
	var data []byte
	if to == nil {
		switch ep.Uniform(rt, "initcode-kind", 13) {
		case 12: // EIP-3860 boundary: 49152 bytes are allowed, 49153 make the transaction invalid
			n := 49152
			if d.defects {
				n = c26Pick(rt, "initcode-size", 49152, 49153)
			}
			data = make([]byte, n)
			c.class(fmt.Sprintf("tx:initcode-%d", n))
		case 0, 1, 2, 3, 4, 5:
			prog := ep.DrawProgram(rt, &ep.GenConfig{Fork: c26EpFork(fork), Self: -1, Contracts: c26ContractAddrs(w), Others: w.Others, MaxBlocks: 5, CreateDepth: 1})
			rtc, err := prog.Assemble()
			if err != nil {
				rt.Fatalf("VERIF-HARNESS-BUG: evmprog: %v", err)
			}
			data = ep.Deployer(rtc, true)
		case 6, 7, 8:
			prog := ep.DrawProgram(rt, &ep.GenConfig{Fork: c26EpFork(fork), Self: -1, Contracts: c26ContractAddrs(w), Others: w.Others, MaxBlocks: 5, CreateDepth: 1, AsInit: true})
			code, err := prog.Assemble()
			if err != nil {
				rt.Fatalf("VERIF-HARNESS-BUG: evmprog: %v", err)
			}
			data = code
		default:
			data = rapid.SliceOfN(rapid.Byte(), 0, 40).Draw(rt, "raw-initcode")
		}
	} else {
		switch toNote {
		case "request":
			n := 56
			if *to == params.ConsolidationQueueAddress {
				n = 96
			}
			data = rapid.SliceOfN(rapid.Byte(), n, n).Draw(rt, "request-data")
		case "deposit":
			data = c26DepositData(rt, c)
		case "system":
			// lengths the request contracts care about: 0 (fee query), 56 (7002), 96 (7251), 32 (4788/2935 getters)
			n := c26Pick(rt, "sys-data-len", 0, 32, 56, 96, 55)
			data = rapid.SliceOfN(rapid.Byte(), n, n).Draw(rt, "sys-data")
		default:
			n := c26Pick(rt, "data-len", 0, 0, 4, 32, 33, 68, 200, 1024)
			data = make([]byte, n)
			fill := rapid.SliceOfN(rapid.Byte(), n, n).Draw(rt, "data")
			zeroPct := c26Pick(rt, "data-zero-pct", 0, 50, 100)
			for i := range data {
				if int(fill[i])%100 >= zeroPct {
					data[i] = fill[i] | 1
				}
			}
		}
	}

	// access list
	var al types.AccessList
	var refAL []refevm.AccessTuple
	if typ != refevm.TxLegacy {
		n := c26Pick(rt, "access-list-len", 0, 0, 1, 2)
		for i := 0; i < n; i++ {
			a := c26Pick(rt, "al-addr", common.Address(w.Contracts[0].Addr), common.Address(w.Contracts[len(w.Contracts)-1].Addr),
				common.Address(ep.EOAAddr), common.Address(ep.MissingAddr), common.Address(ep.PrecompileAddr(2)), from)
			nk := c26Pick(rt, "al-keys", 0, 1, 3)
			var keys []common.Hash
			var rkeys []refevm.Hash
			for k := 0; k < nk; k++ {
				h := common.BigToHash(big.NewInt(int64(ep.Uniform(rt, "al-key", 5))))
				keys = append(keys, h)
				rkeys = append(rkeys, refevm.Hash(h))
			}
			al = append(al, types.AccessTuple{Address: a, StorageKeys: keys})
			refAL = append(refAL, refevm.AccessTuple{Addr: refevm.Addr(a), Keys: rkeys})
		}
	}

	// authorizations
	var auths []types.SetCodeAuthorization
	var refAuths []refevm.Auth
	authBumps := make([]uint64, c26NumKeys) // authorizations expected to be applied, per key
	var authNotes []string
	if typ == refevm.TxSetCode {
		n := c26Pick(rt, "auth-len", 1, 1, 2, 3)
		if d.defects && ep.Uniform(rt, "auth-empty", 12) == 0 {
			n = 0
		}
		for i := 0; i < n; i++ {
			ai := c26Pick(rt, "auth-key", 2, 3, 4, si, c26AuthOnlyKey, c26AuthOnlyKey)
			chain := c26Pick(rt, "auth-chain", uint64(1), 1, 0, 2)
			nonce := nonces[ai] + authBumps[ai]
			if ai == si {
				nonce++ // the sender's nonce is bumped before the list is processed
			}
			expected := nonce
			likely := chain != 2
			switch ep.Uniform(rt, "auth-nonce", 8) {
			case 0, 2:
				nonce++
				likely = false
			case 1:
				nonce = c26Pick(rt, "auth-nonce-odd", uint64(0), 1<<64-1)
				likely = false
			}
			hasCode := ai == c26AuthOnlyKey && c.authOnly == "code"
			if hasCode {
				likely = false
			}
			target := c26Pick(rt, "auth-target", common.Address(w.Contracts[0].Addr), common.Address(w.Contracts[len(w.Contracts)-1].Addr),
				common.Address{}, common.Address(ep.PrecompileAddr(1)), common.Address(ep.EOAAddr), c26Addrs[4], c26Addrs[ai])
			auth, err := types.SignSetCode(c26Keys[ai], types.SetCodeAuthorization{ChainID: *uint256.NewInt(chain), Address: target, Nonce: nonce})
			if err != nil {
				rt.Fatalf("VERIF-HARNESS-BUG: SignSetCode: %v", err)
			}
			sigDefect := ep.Uniform(rt, "auth-sig-defect", 14)
			if likely && sigDefect > 3 {
				authBumps[ai]++
			}
			// A tuple with a good signature, chain id and nonce < 2^64-1 that the code check
			// or the nonce check skips: EIP-7702 has already added its authority to
			// accessed_addresses. (Labels are the generator's expectation, not an oracle.)
			if sigDefect > 3 && chain != 2 && nonce != 1<<64-1 && (hasCode || nonce != expected) {
				kind := "nonce"
				if hasCode {
					kind = "has-code"
				}
				c.class("auth:skipped-" + kind)
				if ai != si && toNote == "auth-probe" && fork >= refevm.Prague {
					c.class("auth:skipped-" + kind + "-authority-probed")
				}
			}
			switch sigDefect {
			case 0: // high-s twin of the same signature: valid ECDSA, forbidden by EIP-7702/EIP-2
				s := new(big.Int).Sub(crypto.S256().Params().N, auth.S.ToBig())
				auth.S = *uint256.MustFromBig(s)
				auth.V ^= 1
				c.class("auth:high-s")
			case 1:
				auth.R = *uint256.NewInt(0)
				c.class("auth:r-zero")
			case 2:
				auth.V = c26Pick(rt, "auth-v", uint8(2), 27, 255)
				c.class("auth:bad-parity")
			case 3: // signature over something else: recovers to an unrelated address
				auth.Nonce ^= 1 << 20
				c.class("auth:other-signer")
			}
			auths = append(auths, auth)
			sigNote := "ok"
			if sigDefect <= 3 {
				sigNote = []string{"high-s", "r-zero", "bad-parity", "other-signer"}[sigDefect]
			}
			authNotes = append(authNotes, fmt.Sprintf("{key%d chain=%d nonce=%d(account %d) target=%x sig=%s}", ai, chain, auth.Nonce, expected, target, sigNote))
			refAuths = append(refAuths, refevm.Auth{ChainID: new(big.Int).SetUint64(chain), Addr: refevm.Addr(auth.Address), Nonce: auth.Nonce,
				YParity: auth.V, R: auth.R.ToBig(), S: auth.S.ToBig()})
		}
	}

	// blobs
	var blobHashes []common.Hash
	var refBlobHashes []refevm.Hash
	blobFeeCap := new(big.Int)
	if typ == refevm.TxBlob {
		n := c26Pick(rt, "blob-count", 1, 1, 2, 3, 6)
		if d.defects {
			n = c26Pick(rt, "blob-count-d", n, n, n, n, 0, 7, 10)
		}
		for i := 0; i < n; i++ {
			var h common.Hash
			copy(h[:], rapid.SliceOfN(rapid.Byte(), 32, 32).Draw(rt, "blob-hash"))
			h[0] = 0x01
			if d.defects && ep.Uniform(rt, "blob-version-defect", 25) == 0 {
				h[0] = c26Pick(rt, "blob-version", byte(0), 2, 0xff)
			}
			blobHashes = append(blobHashes, h)
			refBlobHashes = append(refBlobHashes, refevm.Hash(h))
		}
		blobFeeCap = new(big.Int).Add(blobBaseFee, big.NewInt(int64(c26Pick(rt, "blob-fee-delta", 0, 0, 1, 1000))))
		if d.defects && blobBaseFee.Sign() > 0 && ep.Uniform(rt, "blob-fee-defect", 12) == 0 {
			blobFeeCap = new(big.Int).Sub(blobBaseFee, big.NewInt(1))
		}
	}

	// fees
	baseFee := c.env.BaseFee
	feeCap := new(big.Int).Add(baseFee, big.NewInt(int64(c26Pick(rt, "fee-delta", 0, 1, 10, 1_000_000_000))))
	tipCap := c26Pick(rt, "tip", big.NewInt(0), big.NewInt(1), big.NewInt(2_000_000_000), feeCap)
	if tipCap.Cmp(feeCap) > 0 {
		tipCap = feeCap
	}
	feeDefect := ""
	if d.defects {
		switch ep.Uniform(rt, "fee-defect", 30) {
		case 0:
			if baseFee.Sign() > 0 {
				feeCap = new(big.Int).Sub(baseFee, big.NewInt(1))
				if tipCap.Cmp(feeCap) > 0 {
					tipCap = new(big.Int).Set(feeCap)
				}
				feeDefect = "fee-below-base"
			}
		case 1:
			if typ >= refevm.TxDynamic {
				tipCap = new(big.Int).Add(feeCap, big.NewInt(1))
				feeDefect = "tip-above-cap"
			}
		}
	}

	// value
	value := c26Pick(rt, "value", big.NewInt(0), big.NewInt(0), big.NewInt(1), big.NewInt(1_000_000_000), c26Ether)
	if d.defects && ep.Uniform(rt, "value-defect", 30) == 0 {
		value = new(big.Int).Mul(c26Ether, big.NewInt(2_000_000)) // more than any sender owns
	}

	if toNote == "request" {
		value = c26Pick(rt, "request-fee", big.NewInt(1), big.NewInt(1), big.NewInt(2), big.NewInt(1_000_000_000), big.NewInt(0))
	}

	// nonce
	nonce := nonces[si]
	nonceDefect := false
	if d.defects {
		switch ep.Uniform(rt, "nonce-defect", 30) {
		case 0:
			nonce++
			nonceDefect = true
		case 1:
			if nonce > 0 {
				nonce--
				nonceDefect = true
			}
		}
	}

	// gas limit around the boundaries
	ref := &refevm.Tx{Type: typ, From: refevm.Addr(from), Nonce: nonce, Value: value, Data: data, AccessList: refAL,
		BlobHashes: refBlobHashes, MaxBlobFee: blobFeeCap, Auths: refAuths}
	if to != nil {
		a := refevm.Addr(*to)
		ref.To = &a
	}
	if typ >= refevm.TxDynamic {
		ref.MaxFee, ref.MaxTip = feeCap, tipCap
	} else {
		ref.GasPrice = feeCap
	}
	intrinsicB, floorB := refevm.IntrinsicGas(fork, ref)
	intrinsic, floor := intrinsicB.Uint64(), floorB.Uint64()
	need := intrinsic
	if floor > need {
		need = floor
	}
	var gas uint64
	gasNote := ""
	switch c26Weighted(rt, "gas-class", []int{10, 3, 4, 1, 1}) {
	case 0:
		gas = need + uint64(50_000+ep.Uniform(rt, "gas-ample", 1_500_000))
		gasNote = "ample"
	case 1:
		gas = need + c26Pick(rt, "gas-tight", uint64(0), 1, 2, 3, 10, 100, 2300, 2301, 9000, 25000, 32000)
		gasNote = "tight"
	case 2:
		gas = need + uint64(ep.Uniform(rt, "gas-mid", 60_000))
		gasNote = "mid"
	case 3:
		if d.defects {
			gas = c26Pick(rt, "gas-low", need-1, intrinsic-1, 20999, 0)
			gasNote = "below-need"
		} else {
			gas = need
		}
	case 4:
		if d.defects {
			gas = c26Pick(rt, "gas-high", c.env.GasLimit+1, 1<<24+1, 1<<24, 5_000_000)
			gasNote = "high"
		} else {
			gas = need + 3_000_000
		}
	}
	// sign the geth transaction
	chainID := big.NewInt(1)
	slot := len(c.txs)
	c.txs = append(c.txs, nil)
	c.refTxs = append(c.refTxs, ref)
	c.txNeed = append(c.txNeed, need)
	mk := func(gas uint64) {
		ref.GasLimit = gas
		var inner types.TxData
		switch typ {
		case refevm.TxLegacy:
			inner = &types.LegacyTx{Nonce: nonce, GasPrice: feeCap, Gas: gas, To: to, Value: value, Data: data}
		case refevm.TxAccess:
			inner = &types.AccessListTx{ChainID: chainID, Nonce: nonce, GasPrice: feeCap, Gas: gas, To: to, Value: value, Data: data, AccessList: al}
		case refevm.TxDynamic:
			inner = &types.DynamicFeeTx{ChainID: chainID, Nonce: nonce, GasTipCap: tipCap, GasFeeCap: feeCap, Gas: gas, To: to, Value: value, Data: data, AccessList: al}
		case refevm.TxBlob:
			inner = &types.BlobTx{ChainID: uint256.NewInt(1), Nonce: nonce, GasTipCap: uint256.MustFromBig(tipCap), GasFeeCap: uint256.MustFromBig(feeCap),
				Gas: gas, To: *to, Value: uint256.MustFromBig(value), Data: data, AccessList: al, BlobFeeCap: uint256.MustFromBig(blobFeeCap), BlobHashes: blobHashes}
		case refevm.TxSetCode:
			inner = &types.SetCodeTx{ChainID: uint256.NewInt(1), Nonce: nonce, GasTipCap: uint256.MustFromBig(tipCap), GasFeeCap: uint256.MustFromBig(feeCap),
				Gas: gas, To: *to, Value: uint256.MustFromBig(value), Data: data, AccessList: al, AuthList: auths}
		}
		tx, err := types.SignNewTx(key, types.LatestSignerForChainID(chainID), inner)
		if err != nil {
			rt.Fatalf("VERIF-HARNESS-BUG: sign: %v", err)
		}
		c.txs[slot] = tx
	}
	mk(gas)
	c.remake = append(c.remake, mk)
	c.txNotes = append(c.txNotes, fmt.Sprintf("type=%d from=key%d to=%s gas=%d(%s; intrinsic=%d floor=%d) nonce=%d value=%v feeCap=%v tip=%v data=%d auths=%d%s blobs=%d %s",
		typ, si, toNote, gas, gasNote, intrinsic, floor, nonce, value, feeCap, tipCap, len(data), len(auths), strings.Join(authNotes, ""), len(blobHashes), feeDefect))
	c.class(fmt.Sprintf("tx:type%d", typ))
	c.class("tx:to-" + toNote)
	c.class("tx:gas-" + gasNote)

	// nonce bookkeeping for later transactions: assume inclusion unless a defect
	// was injected on purpose (a wrong guess only produces one more rejected tx)
	likelyOK := !nonceDefect && feeDefect == "" && gasNote != "below-need" && gasNote != "high" && value.Cmp(c26Ether) <= 0 &&
		!(typ == refevm.TxSetCode && (len(auths) == 0 || fork < refevm.Prague))
	if likelyOK && nonces[si] != 1<<64-1 {
		nonces[si]++
		for k, b := range authBumps {
			nonces[k] += b
		}
	}
}

// c26Observer returns the code of the observer contract. Return data of a top-level
// frame is not part of a transition's result, so values a generated program only
// RETURNs (or REVERTs with) would go unobserved; the observer calls the program
// with the transaction's calldata and value, then stores success+1 in slot 0, the
// Keccak hash of the return data in slot 1 and emits the return data as LOG0. It keeps
// 70000 gas back for that.
//
//	CALLDATASIZE PUSH0 PUSH0 CALLDATACOPY
//	PUSH0 PUSH0 CALLDATASIZE PUSH0 CALLVALUE PUSH20 target PUSH3 70000 GAS SUB CALL
//	PUSH1 1 ADD PUSH0 SSTORE
//	RETURNDATASIZE PUSH0 PUSH0 RETURNDATACOPY
//	RETURNDATASIZE PUSH0 KECCAK256 PUSH1 1 SSTORE
//	RETURNDATASIZE PUSH0 LOG0 STOP
func c26Observer(target [20]byte) []byte {
	code := []byte{0x36, 0x5f, 0x5f, 0x37, 0x5f, 0x5f, 0x36, 0x5f, 0x34, 0x73}
	code = append(code, target[:]...)
	code = append(code, 0x62, 0x01, 0x11, 0x70, 0x5a, 0x03, 0xf1)
	code = append(code, 0x60, 0x01, 0x01, 0x5f, 0x55)
	code = append(code, 0x3d, 0x5f, 0x5f, 0x3e)
	code = append(code, 0x3d, 0x5f, 0x20, 0x60, 0x01, 0x55)
	code = append(code, 0x3d, 0x5f, 0xa0, 0x00)
	return code
}

// c26AuthProbeCode draws the code of the authority probe. EIP-7702 adds the authority
// of a tuple to accessed_addresses as soon as chain id, nonce bound and signature are
// fine - before the "code empty or delegation" and "nonce matches" checks - so whether
// a skipped tuple left its authority warm is visible only in the price of the first
// later access to that address. The probe makes that first access, once per key that
// can sign tuples (keys 2..5, drawn order, drawn EIP-2929 priced opcode), and stores
// the gas each access consumed; it ends with STOP or with SELFDESTRUCT to one such
// address (which is then left out of the other probes, so that the SELFDESTRUCT is the
// first access).
func c26AuthProbeCode(rt *rapid.T) ([]byte, string) {
	a := &c26Asm{Asm: ep.NewAsm(true), slot: 0x40}
	var notes []string
	keys := []int{2, 3, 4, 5}
	rot := ep.Uniform(rt, "probe-rotation", len(keys))
	keys = append(keys[rot:], keys[:rot]...)
	if ep.Uniform(rt, "probe-reverse", 2) == 0 {
		for i, j := 0, len(keys)-1; i < j; i, j = i+1, j-1 {
			keys[i], keys[j] = keys[j], keys[i]
		}
	}
	beneficiary := -1
	if ep.Uniform(rt, "probe-selfdestruct", 4) == 0 {
		beneficiary = keys[len(keys)-1]
		keys = keys[:len(keys)-1]
	}
	for _, k := range keys {
		x := c26Addrs[k]
		op := c26Pick(rt, "probe-op", ep.BALANCE, ep.BALANCE, ep.EXTCODESIZE, ep.EXTCODEHASH, ep.EXTCODECOPY, ep.CALL, ep.CALL, ep.CALLCODE, ep.DELEGATECALL, ep.STATICCALL)
		switch op {
		case ep.BALANCE, ep.EXTCODESIZE, ep.EXTCODEHASH:
			a.gasOf(func() { a.PushAddr(x).Op(op) })
			notes = append(notes, fmt.Sprintf("%s(key%d)", ep.OpName(op), k))
		case ep.EXTCODECOPY:
			a.gasOf(func() { a.PushU(32).PushU(0).PushU(0).PushAddr(x).Op(ep.EXTCODECOPY).PushU(0) })
			notes = append(notes, fmt.Sprintf("EXTCODECOPY(key%d)", k))
		default:
			gas := c26Pick(rt, "probe-call-gas", uint64(0), 2300, 30_000, 30_000)
			all := ep.Uniform(rt, "probe-call-all-gas", 4) == 0
			val := uint64(ep.Uniform(rt, "probe-call-value", 2))
			a.gasOf(func() { a.call(op, gas, all, x, val, 0) })
			notes = append(notes, fmt.Sprintf("%s(key%d gas=%d all=%v value=%d)", ep.OpName(op), k, gas, all, val))
		}
	}
	if beneficiary >= 0 {
		a.PushAddr(c26Addrs[beneficiary]).Op(ep.SELFDESTRUCT)
		notes = append(notes, fmt.Sprintf("SELFDESTRUCT(key%d)", beneficiary))
	} else {
		a.Op(ep.STOP)
	}
	code, err := a.Bytes()
	if err != nil {
		rt.Fatalf("VERIF-HARNESS-BUG: asm: %v", err)
	}
	return code, strings.Join(notes, " ")
}

// c26DepositEmitter is a stand-in for the deposit contract: it emits its calldata as
// the data of a log whose only topic is the DepositEvent signature hash.
//
//	CALLDATASIZE PUSH0 PUSH0 CALLDATACOPY PUSH32 topic CALLDATASIZE PUSH0 LOG1 STOP
func c26DepositEmitter() []byte {
	code := []byte{0x36, 0x5f, 0x5f, 0x37, 0x7f}
	code = append(code, refevm.DepositEventTopic[:]...)
	return append(code, 0x36, 0x5f, 0xa1, 0x00)
}

// c26DepositData draws DepositEvent data: mostly the canonical ABI layout of EIP-6110
// (five dynamic byte strings of 48, 32, 8, 96 and 8 bytes), sometimes a wrong total
// length, and - only where the finding is acknowledged - a right-length record with a
// broken offset or size word.
func c26DepositData(rt *rapid.T, c *c26Case) []byte {
	data := make([]byte, 576)
	put := func(off int, v uint64) { new(big.Int).SetUint64(v).FillBytes(data[off : off+32]) }
	offs := []int{160, 256, 320, 384, 512}
	sizes := []int{48, 32, 8, 96, 8}
	fill := rapid.SliceOfN(rapid.Byte(), 192, 192).Draw(rt, "deposit-fields")
	k := 0
	for i := range offs {
		put(32*i, uint64(offs[i]))
		put(offs[i], uint64(sizes[i]))
		copy(data[offs[i]+32:], fill[k:k+sizes[i]])
		k += sizes[i]
	}
	switch ep.Uniform(rt, "deposit-defect", 10) {
	case 0:
		c.class("deposit:wrong-length")
		return c26Pick(rt, "deposit-len", data[:575], append(data, 0), data[:32], nil)
	case 1:
		// EIP-6110 makes a block with a mis-laid-out DepositEvent invalid; geth only
		// checks the total length. Generated only when not acknowledged as a known finding.
		if !vs.Known("TestVerifC26Transition", "deposit-layout") && os.Getenv("VERIF_C26_NO_BAD_DEPOSIT") == "" {
			c.class("deposit:bad-layout")
			i := ep.Uniform(rt, "deposit-bad-word", 10)
			if i < 5 {
				put(32*i, uint64(offs[i])+32)
			} else {
				put(offs[i-5], uint64(sizes[i-5])+1)
			}
			return data
		}
		c.class("deposit:bad-layout-excluded")
		c.excluded++
	}
	c.class("deposit:canonical")
	return data
}

func c26Weighted(rt *rapid.T, label string, w []int) int {
	total := 0
	for _, x := range w {
		total += x
	}
	r := ep.Uniform(rt, label, total)
	for i, x := range w {
		if r < x {
			return i
		}
		r -= x
	}
	return len(w) - 1
}

func c26ContractAddrs(w *ep.World) [][20]byte {
	var out [][20]byte
	for _, c := range w.Contracts {
		out = append(out, c.Addr)
	}
	return out
}

// ---------------------------------------------------------------------------
// Comparison
// ---------------------------------------------------------------------------

// c26ErrClasses maps a geth rejection message to the reference's reason labels
// that describe the same rule.
func c26ErrClasses(msg string) []string {
	table := []struct {
		needle string
		class  []string
	}{
		{core.ErrNonceTooLow.Error(), []string{"nonce-too-low"}},
		{core.ErrNonceTooHigh.Error(), []string{"nonce-too-high"}},
		{core.ErrNonceMax.Error(), []string{"nonce-max"}},
		{core.ErrGasLimitReached.Error(), []string{"gas-limit-reached"}},
		{core.ErrInsufficientFundsForTransfer.Error(), []string{"insufficient-funds"}},
		{core.ErrInsufficientFunds.Error(), []string{"insufficient-funds"}},
		{core.ErrIntrinsicGas.Error(), []string{"intrinsic-gas"}},
		{core.ErrFloorDataGas.Error(), []string{"floor-gas"}},
		{core.ErrTipAboveFeeCap.Error(), []string{"tip-above-cap"}},
		{core.ErrFeeCapTooLow.Error(), []string{"fee-cap-too-low"}},
		{core.ErrSenderNoEOA.Error(), []string{"sender-not-eoa"}},
		{core.ErrBlobFeeCapTooLow.Error(), []string{"blob-fee-cap-too-low"}},
		{core.ErrMissingBlobHashes.Error(), []string{"no-blobs"}},
		{core.ErrTooManyBlobs.Error(), []string{"too-many-blobs"}},
		{core.ErrEmptyAuthList.Error(), []string{"empty-auth-list"}},
		{core.ErrGasLimitTooHigh.Error(), []string{"tx-gas-cap"}},
		{vm.ErrMaxInitCodeSizeExceeded.Error(), []string{"initcode-too-large"}},
		{types.ErrTxTypeNotSupported.Error(), []string{"tx-type-unsupported"}},
		{"would exceed maximum allowance", []string{"blob-gas-exceeded"}},
		{"has invalid hash version", []string{"blob-hash-version"}},
	}
	for _, e := range table {
		if strings.Contains(msg, e.needle) {
			return e.class
		}
	}
	return nil
}

func c26Hex(b []byte) string {
	if len(b) > 48 {
		return fmt.Sprintf("%x..(%d bytes)", b[:48], len(b))
	}
	return fmt.Sprintf("%x", b)
}

// c26Compare returns the list of disagreements (empty: conforming).
func c26Compare(c *c26Case, ref *refevm.Result, got *ExecutionResult, alloc Alloc, applyErr error) []string {
	var diffs []string
	bad := func(f string, a ...any) { diffs = append(diffs, fmt.Sprintf(f, a...)) }

	if ref.Invalid != "" || applyErr != nil {
		if (ref.Invalid != "") != (applyErr != nil) {
			bad("block validity: reference %q, geth error %v", ref.Invalid, applyErr)
		}
		return diffs
	}
	// rejected transactions
	if len(ref.Rejected) != len(got.Rejected) {
		bad("rejected count: reference %d, geth %d", len(ref.Rejected), len(got.Rejected))
	}
	gotRej := map[int]string{}
	for _, r := range got.Rejected {
		gotRej[r.Index] = r.Err
	}
	for _, r := range ref.Rejected {
		msg, ok := gotRej[r.Index]
		if !ok {
			bad("tx %d: reference rejects it (%v), geth includes it", r.Index, r.Reasons)
			continue
		}
		cls := c26ErrClasses(msg)
		if cls == nil {
			bad("tx %d: geth rejection %q has no known class (reference: %v)", r.Index, msg, r.Reasons)
			continue
		}
		found := false
		for _, x := range cls {
			for _, y := range r.Reasons {
				found = found || x == y
			}
		}
		if !found {
			bad("tx %d: geth rejects with %q (class %v); the reference finds only %v violated", r.Index, msg, cls, r.Reasons)
		}
		delete(gotRej, r.Index)
	}
	for i, msg := range gotRej {
		bad("tx %d: geth rejects it (%s), reference includes it", i, msg)
	}
	// receipts
	if len(ref.Receipts) != len(got.Receipts) {
		bad("receipt count: reference %d, geth %d", len(ref.Receipts), len(got.Receipts))
	} else {
		for i, rr := range ref.Receipts {
			gr := got.Receipts[i]
			if (gr.Status == types.ReceiptStatusSuccessful) != rr.Status {
				bad("receipt %d status: reference %v (%s), geth %d", i, rr.Status, rr.Err, gr.Status)
			}
			if gr.GasUsed != rr.GasUsed {
				bad("receipt %d gasUsed: reference %d (%s), geth %d", i, rr.GasUsed, rr.Err, gr.GasUsed)
			}
			if gr.CumulativeGasUsed != rr.CumGas {
				bad("receipt %d cumulativeGasUsed: reference %d, geth %d", i, rr.CumGas, gr.CumulativeGasUsed)
			}
			if len(gr.Logs) != len(rr.Logs) {
				bad("receipt %d logs: reference %d, geth %d", i, len(rr.Logs), len(gr.Logs))
			} else {
				for j, rl := range rr.Logs {
					gl := gr.Logs[j]
					same := gl.Address == common.Address(rl.Addr) && bytes.Equal(gl.Data, rl.Data) && len(gl.Topics) == len(rl.Topics)
					for k := 0; same && k < len(rl.Topics); k++ {
						same = gl.Topics[k] == common.Hash(rl.Topics[k])
					}
					if !same {
						bad("receipt %d log %d: reference {%x %x %s}, geth {%x %x %s}", i, j, rl.Addr, rl.Topics, c26Hex(rl.Data), gl.Address, gl.Topics, c26Hex(gl.Data))
					}
				}
			}
			if rb := refevm.Bloom(rr.Logs); types.Bloom(rb) != gr.Bloom {
				bad("receipt %d bloom differs", i)
			}
		}
	}
	if uint64(got.GasUsed) != ref.GasUsed {
		bad("block gasUsed: reference %d, geth %d", ref.GasUsed, uint64(got.GasUsed))
	}
	if got.CurrentBlobGasUsed == nil || uint64(*got.CurrentBlobGasUsed) != ref.BlobGasUsed {
		bad("blobGasUsed: reference %d, geth %v", ref.BlobGasUsed, got.CurrentBlobGasUsed)
	}
	// requests
	if (ref.Requests == nil) != (got.Requests == nil) {
		bad("requests presence: reference %v, geth %v", ref.Requests != nil, got.Requests != nil)
	} else if ref.Requests != nil {
		if len(ref.Requests) != len(got.Requests) {
			bad("requests: reference %d entries, geth %d", len(ref.Requests), len(got.Requests))
		} else {
			for i := range ref.Requests {
				if !bytes.Equal(ref.Requests[i], got.Requests[i]) {
					bad("request %d: reference %s, geth %s", i, c26Hex(ref.Requests[i]), c26Hex(got.Requests[i]))
				}
			}
		}
		h := sha256.New()
		for _, r := range ref.Requests {
			s := sha256.Sum256(r)
			h.Write(s[:])
		}
		var want common.Hash
		h.Sum(want[:0])
		if got.RequestsHash == nil || *got.RequestsHash != want {
			bad("requestsHash: reference %x, geth %v", want, got.RequestsHash)
		}
	}
	// post-state
	seen := map[common.Address]bool{}
	for _, a := range ref.Post.Addrs() {
		ra := ref.Post[a]
		seen[common.Address(a)] = true
		ga, ok := alloc[common.Address(a)]
		if !ok {
			bad("account %x: in reference post-state (nonce %d balance %v code %d bytes), missing in geth", a, ra.Nonce, ra.Balance, len(ra.Code))
			continue
		}
		if ga.Nonce != ra.Nonce {
			bad("account %x nonce: reference %d, geth %d", a, ra.Nonce, ga.Nonce)
		}
		if ga.Balance.Cmp(ra.Balance) != 0 {
			bad("account %x balance: reference %v, geth %v (geth-ref = %v)", a, ra.Balance, ga.Balance, new(big.Int).Sub(ga.Balance, ra.Balance))
		}
		if !bytes.Equal(ga.Code, ra.Code) {
			bad("account %x code: reference %s, geth %s", a, c26Hex(ra.Code), c26Hex(ga.Code))
		}
		keys := map[common.Hash]bool{}
		for k := range ra.Storage {
			keys[common.Hash(k)] = true
		}
		for k := range ga.Storage {
			keys[k] = true
		}
		var ks []common.Hash
		for k := range keys {
			ks = append(ks, k)
		}
		sort.Slice(ks, func(i, j int) bool { return bytes.Compare(ks[i][:], ks[j][:]) < 0 })
		for _, k := range ks {
			if rv, gv := common.Hash(ra.Storage[refevm.Hash(k)]), ga.Storage[k]; rv != gv {
				bad("account %x slot %x: reference %x, geth %x", a, k, rv, gv)
			}
		}
	}
	for a, ga := range alloc {
		if !seen[a] {
			bad("account %x: in geth post-state (nonce %d balance %v code %d bytes), missing in reference", a, ga.Nonce, ga.Balance, len(ga.Code))
		}
	}
	if root := refevm.StateRoot(ref.Post); common.Hash(root) != got.StateRoot {
		bad("state root: reference (reftrie over its post-state) %x, geth %x", root, got.StateRoot)
	}
	return diffs
}

func (c *c26Case) render() string {
	var b strings.Builder
	fmt.Fprintf(&b, "fork=%v number=%d time=%d coinbase=%x basefee=%v gaslimit=%d excessBlobGas=%d withdrawals=%d\n",
		c.fork, c.env.Number, c.env.Timestamp, c.env.Coinbase, c.env.BaseFee, c.env.GasLimit, *c.env.ExcessBlobGas, len(c.env.Withdrawals))
	var addrs []common.Address
	for a := range c.pre {
		addrs = append(addrs, a)
	}
	sort.Slice(addrs, func(i, j int) bool { return bytes.Compare(addrs[i][:], addrs[j][:]) < 0 })
	for _, a := range addrs {
		acc := c.pre[a]
		fmt.Fprintf(&b, "  pre %x nonce=%d balance=%v code=%d bytes storage=%v\n", a, acc.Nonce, acc.Balance, len(acc.Code), acc.Storage)
	}
	if c.world != nil {
		for i, ct := range c.world.Contracts {
			fmt.Fprintf(&b, "  contract %d @%x: %s\n    code %x\n", i, ct.Addr, ct.Prog.Describe(), ct.Code)
		}
	}
	if c.probeNote != "" {
		fmt.Fprintf(&b, "  authority probe @%x (keys 2..5 = %x %x %x %x): %s\n", c26AuthProbeAddr, c26Addrs[2], c26Addrs[3], c26Addrs[4], c26Addrs[5], c.probeNote)
	}
	for i, n := range c.txNotes {
		fmt.Fprintf(&b, "  tx %d: %s\n    data %x\n", i, n, c.txs[i].Data())
	}
	return b.String()
}

func (c *c26Case) descriptor() string {
	h := sha256.New()
	for _, ct := range c.world.Contracts {
		h.Write(ct.Code)
	}
	for _, tx := range c.txs {
		th := tx.Hash()
		h.Write(th[:])
	}
	return fmt.Sprintf("%v-%x", c.fork, h.Sum(nil)[:12])
}

var c26TheHost = newC26Host()

func c26Run(c *c26Case) (*refevm.Result, *ExecutionResult, Alloc, error) {
	ref := refevm.Apply(c.refPre, c.refEnv, c.refTxs, c26TheHost)
	pre := &Prestate{Env: c.env, Pre: c.pre}
	statedb, res, _, err := pre.Apply(vm.Config{}, c.cfg, newSliceTxIterator(c.txs), -1)
	if err != nil {
		return ref, nil, nil, err
	}
	alloc := make(Alloc)
	statedb.DumpToCollector(alloc, nil)
	return ref, res, alloc, nil
}

func c26Property(st *vs.S, d c26Domain) func(rt *rapid.T) {
	return func(rt *rapid.T) {
		c := c26Draw(rt, d)
		sc := st.Case()
		ref, got, alloc, err := c26Run(c)
		// Gas-boundary pass: learn from the reference how much gas one included
		// transaction consumed and re-issue it with a limit right at that boundary
		// (the last instruction, or the deepest frame, runs out of gas or just makes it).
		if diffs := c26Compare(c, ref, got, alloc, err); len(diffs) == 0 && len(ref.Receipts) > 0 && ep.Uniform(rt, "boundary-pass", 3) == 0 {
			rejected := map[int]bool{}
			for _, r := range ref.Rejected {
				rejected[r.Index] = true
			}
			var included []int
			for i := range c.txs {
				if !rejected[i] {
					included = append(included, i)
				}
			}
			k := ep.Uniform(rt, "boundary-tx", len(included))
			rc := ref.Receipts[k]
			p := rc.GasBeforeRefund
			g := c26Pick(rt, "boundary-gas", p, p-1, p+1, p+p/63, p+p/63+1, p+p/64, rc.GasUsed, p-2300, p+2300)
			if ti := included[k]; g >= c.txNeed[ti] && g <= 1<<24 {
				c.remake[ti](g)
				c.txNotes[ti] += fmt.Sprintf(" [gas re-issued at boundary: %d]", g)
				c.class("tx:gas-boundary")
				ref, got, alloc, err = c26Run(c)
			}
		}
		for _, cl := range c.classes {
			sc.Class(cl)
		}
		for i := 0; i < c.excluded; i++ {
			st.Excluded()
		}
		sc.Classf("included:%d", len(ref.Receipts))
		for _, r := range ref.Rejected {
			sc.Class("rejected:" + r.Reasons[0])
		}
		for _, r := range ref.Receipts {
			if r.Status {
				sc.Class("receipt:ok")
			} else {
				sc.Class("receipt:failed:" + r.Err)
			}
		}
		if ref.Invalid != "" {
			sc.Class("block-invalid:" + ref.Invalid)
		}
		if len(ref.Requests) > 0 {
			sc.Class("requests-nonempty")
		}
		for _, f := range []struct {
			n    int
			name string
		}{{ref.Stats.Frames, "nested-frames"}, {ref.Stats.Creates, "creates"}, {ref.Stats.Precompiles, "precompile-runs"},
			{ref.Stats.SelfDestructs, "selfdestruct"}, {ref.Stats.SelfDestructsFresh, "selfdestruct-same-tx"},
			{ref.Stats.DelegationsSet, "7702-delegation-set"}, {ref.Stats.DelegatedRuns, "7702-delegated-run"},
			{ref.Stats.Collisions, "create-collision"}, {ref.Stats.RefundedTxs, "refund"}, {ref.Stats.FlooredTxs, "7623-floor-applied"},
			{ref.Stats.ValueCalls, "value-call"}, {ref.Stats.Logs, "logs"}, {ref.Stats.Reverts, "frame-reverted"}} {
			if f.n > 0 {
				sc.Class("did:" + f.name)
			}
		}
		switch {
		case ref.Stats.MaxDepth >= 10:
			sc.Class("depth:10+")
		case ref.Stats.MaxDepth >= 2:
			sc.Class("depth:2-9")
		default:
			sc.Classf("depth:%d", ref.Stats.MaxDepth)
		}
		switch {
		case ref.Stats.Steps >= 100000:
			sc.Class("steps:100k+")
		case ref.Stats.Steps >= 1000:
			sc.Class("steps:1k-100k")
		case ref.Stats.Steps >= 20:
			sc.Class("steps:20-1k")
		default:
			sc.Class("steps:<20")
		}
		nontrivial := ref.Stats.Frames >= 1 && ref.Stats.Steps >= 20 && ref.Stats.StateWrites >= 1
		sc.NonTrivial(nontrivial, c.descriptor())
		sc.Sample(nontrivial, func() any {
			return map[string]any{"fork": c.fork.String(), "txs": c.txNotes, "steps": ref.Stats.Steps, "frames": ref.Stats.Frames,
				"maxDepth": ref.Stats.MaxDepth, "stateWrites": ref.Stats.StateWrites, "world": c.world.Describe()}
		})
		if diffs := c26Compare(c, ref, got, alloc, err); len(diffs) > 0 {
			if len(diffs) > 12 {
				diffs = append(diffs[:12], fmt.Sprintf("... %d more", len(diffs)-12))
			}
			rt.Fatalf("geth's transition disagrees with the reference (kit/refevm):\n  %s\ncase:\n%s", strings.Join(diffs, "\n  "), c.render())
		}
	}
}

// ---------------------------------------------------------------------------
// Computation-focused differential: every arithmetic / comparison / bitwise /
// shift result and the content of memory after a script of memory operations is
// written to storage, so value errors cannot hide behind an unobserved stack.
// ---------------------------------------------------------------------------

var c26ComputeAddr = common.HexToAddress("0xc0de00000000000000000000000000000000c26a")

func c26DrawOperands(rt *rapid.T, n int) [][]byte {
	out := make([][]byte, n)
	for i := range out {
		out[i] = ep.DrawWord(rt, "operand")
	}
	if n >= 2 {
		neg := func(b []byte) []byte {
			v := new(big.Int).Sub(new(big.Int).Lsh(big.NewInt(1), 256), new(big.Int).SetBytes(b))
			return v.Mod(v, new(big.Int).Lsh(big.NewInt(1), 256)).Bytes()
		}
		switch ep.Uniform(rt, "operand-relation", 8) {
		case 0:
			out[1] = out[0]
		case 1:
			out[1] = neg(out[0])
		case 2:
			out[0] = neg(out[0])
		case 3:
			out[0], out[1] = neg(out[0]), neg(out[1])
		}
	}
	return out
}

// c26ComputeProgram draws the program and the calldata it reads.
func c26ComputeProgram(rt *rapid.T, fork refevm.Fork) (code, calldata []byte, ops []string) {
	a := ep.NewAsm(true)
	slot := uint64(0)
	store := func() { a.PushU(slot).Op(ep.SSTORE); slot++ }
	calldata = rapid.SliceOfN(rapid.Byte(), 0, 70).Draw(rt, "calldata")

	binary := []byte{ep.ADD, ep.MUL, ep.SUB, ep.DIV, ep.SDIV, ep.MOD, ep.SMOD, ep.EXP, ep.SIGNEXTEND, ep.LT, ep.GT, ep.SLT, ep.SGT, ep.EQ,
		ep.AND, ep.OR, ep.XOR, ep.BYTE, ep.SHL, ep.SHR, ep.SAR}
	unary := []byte{ep.ISZERO, ep.NOT, ep.CALLDATALOAD}
	if fork >= refevm.Osaka {
		unary = append(unary, ep.CLZ)
	}
	ternary := []byte{ep.ADDMOD, ep.MULMOD}
	n := 3 + ep.Uniform(rt, "n-arith", 8)
	for i := 0; i < n; i++ {
		var op byte
		var vals [][]byte
		switch c26Weighted(rt, "arity", []int{3, 12, 2}) {
		case 0:
			op, vals = unary[ep.Uniform(rt, "op1", len(unary))], c26DrawOperands(rt, 1)
		case 1:
			op, vals = binary[ep.Uniform(rt, "op2", len(binary))], c26DrawOperands(rt, 2)
		default:
			op, vals = ternary[ep.Uniform(rt, "op3", len(ternary))], c26DrawOperands(rt, 3)
		}
		if (op == ep.SHL || op == ep.SHR || op == ep.SAR || op == ep.BYTE || op == ep.SIGNEXTEND) && ep.Uniform(rt, "small-first", 2) == 0 {
			vals[0] = []byte{byte(c26Pick(rt, "small-operand", 0, 1, 7, 8, 30, 31, 32, 33, 127, 128, 254, 255))}
		}
		for j := len(vals) - 1; j >= 0; j-- { // vals[0] ends up on top
			a.Push(vals[j])
		}
		a.Op(op)
		store()
		ops = append(ops, ep.OpName(op))
	}
	// memory script over the first 256 bytes
	m := ep.Uniform(rt, "n-mem", 8)
	small := func(label string, max int) uint64 { return uint64(ep.Uniform(rt, label, max+1)) }
	for i := 0; i < m; i++ {
		switch ep.Uniform(rt, "mem-op", 7) {
		case 0:
			a.Push(ep.DrawWord(rt, "mstore-val")).PushU(small("off", 200)).Op(ep.MSTORE)
			ops = append(ops, "MSTORE")
		case 1:
			a.Push(ep.DrawWord(rt, "mstore8-val")).PushU(small("off", 230)).Op(ep.MSTORE8)
			ops = append(ops, "MSTORE8")
		case 2: // MCOPY(dst, src, len) with overlapping ranges
			a.PushU(small("len", 96)).PushU(small("src", 128)).PushU(small("dst", 128)).Op(ep.MCOPY)
			ops = append(ops, "MCOPY")
		case 3: // CALLDATACOPY(dst, off, len), reading past the end of the calldata
			a.PushU(small("len", 80)).PushU(small("cd-off", 90)).PushU(small("dst", 150)).Op(ep.CALLDATACOPY)
			ops = append(ops, "CALLDATACOPY")
		case 4:
			a.PushU(small("len", 80)).PushU(small("code-off", 300)).PushU(small("dst", 150)).Op(ep.CODECOPY)
			ops = append(ops, "CODECOPY")
		case 5:
			a.PushU(small("off", 220)).Op(ep.MLOAD)
			store()
			ops = append(ops, "MLOAD")
		case 6: // identity precompile round trip: RETURNDATACOPY of a sub-range
			a.PushU(0).PushU(0).PushU(small("in-len", 64)).PushU(small("in-off", 128)).PushU(4).Op(ep.GAS, ep.STATICCALL, ep.POP)
			a.Op(ep.RETURNDATASIZE)
			store()
			ops = append(ops, "IDENTITY")
		}
	}
	a.PushU(256).PushU(0).Op(ep.KECCAK256)
	store()
	a.Op(ep.MSIZE)
	store()
	a.Op(ep.STOP)
	code, err := a.Bytes()
	if err != nil {
		rt.Fatalf("VERIF-HARNESS-BUG: asm: %v", err)
	}
	return code, calldata, ops
}

func c26ComputeProperty(st *vs.S) func(rt *rapid.T) {
	return func(rt *rapid.T) {
		c := &c26Case{pre: types.GenesisAlloc{}, refPre: refevm.World{}}
		c.fork = c26Pick(rt, "fork", refevm.Cancun, refevm.Prague, refevm.Osaka)
		c.cfg = c26Config(c.fork)
		code, calldata, ops := c26ComputeProgram(rt, c.fork)
		c.put(c26ComputeAddr, 1, big.NewInt(0), code, nil)
		c.put(c26Addrs[0], 0, new(big.Int).Mul(c26Ether, big.NewInt(1000)), nil, nil)
		if c.fork >= refevm.Prague {
			c.put(params.WithdrawalQueueAddress, 1, big.NewInt(0), params.WithdrawalQueueCode, nil)
			c.put(params.ConsolidationQueueAddress, 1, big.NewInt(0), params.ConsolidationQueueCode, nil)
		}
		excess := uint64(0)
		random := common.Hash{1}
		c.env = stEnv{Coinbase: c26FreshAddr, Difficulty: big.NewInt(0), Random: new(big.Int).SetBytes(random[:]), GasLimit: 30_000_000,
			Number: 1, Timestamp: 1_700_000_000, BaseFee: big.NewInt(7), ExcessBlobGas: &excess}
		maxBlobs, fraction := c26BlobSchedule(c.fork)
		c.refEnv = &refevm.Env{Fork: c.fork, ChainID: big.NewInt(1), Coinbase: refevm.Addr(c26FreshAddr), Number: 1, Time: 1_700_000_000,
			GasLimit: 30_000_000, BaseFee: big.NewInt(7), Random: refevm.Hash(random), MaxBlobsPerBlock: maxBlobs, BlobUpdateFraction: fraction,
			DepositContract: refevm.Addr(c26DepositAddr)}
		to := c26ComputeAddr
		tx, err := types.SignNewTx(c26Keys[0], types.LatestSignerForChainID(big.NewInt(1)),
			&types.LegacyTx{Nonce: 0, GasPrice: big.NewInt(7), Gas: 2_000_000, To: &to, Value: big.NewInt(0), Data: calldata})
		if err != nil {
			rt.Fatalf("VERIF-HARNESS-BUG: sign: %v", err)
		}
		rto := refevm.Addr(to)
		c.txs = []*types.Transaction{tx}
		c.refTxs = []*refevm.Tx{{Type: refevm.TxLegacy, From: refevm.Addr(c26Addrs[0]), GasLimit: 2_000_000, GasPrice: big.NewInt(7), To: &rto,
			Value: big.NewInt(0), Data: calldata}}
		c.txNotes = []string{"compute program: " + strings.Join(ops, " ")}

		sc := st.Case()
		ref, got, alloc, aerr := c26Run(c)
		sc.Class("fork:" + c.fork.String())
		for _, o := range ops {
			sc.Class("op:" + o)
		}
		if len(ref.Receipts) != 1 || !ref.Receipts[0].Status {
			rt.Fatalf("VERIF-HARNESS-BUG: compute program did not succeed in the reference: %+v\n%s", ref.Receipts, ep.Disasm(code))
		}
		sc.NonTrivial(true, fmt.Sprintf("%v-%x", c.fork, crypto.Keccak256(code, calldata)[:12]))
		sc.Sample(true, func() any {
			return map[string]any{"fork": c.fork.String(), "ops": ops, "code": fmt.Sprintf("%x", code)}
		})
		if diffs := c26Compare(c, ref, got, alloc, aerr); len(diffs) > 0 {
			rt.Fatalf("geth's transition disagrees with the reference (kit/refevm) on a computation:\n  %s\nprogram:\n%scalldata %x", strings.Join(diffs, "\n  "), ep.Disasm(code), calldata)
		}
	}
}

// TestVerifC26Compute: non-trivial = every case (each stores >= 5 computed words).
func TestVerifC26Compute(t *testing.T) {
	st := vs.New("C26", t)
	vs.Check(t, 2, c26ComputeProperty(st))
}

// ---------------------------------------------------------------------------
// Scenario-focused differential: hand-written contract templates with drawn
// parameters for the semantics that random programs reach too rarely - what
// survives a reverted / halted callee (storage, transient storage, logs, balances,
// warm sets, refunds, created accounts) and the create / SELFDESTRUCT life cycle
// (EIP-6780) - each followed by probes that write what they see to storage.
// ---------------------------------------------------------------------------

var (
	c26ScnA     = common.HexToAddress("0xc0de0000000000000000000000000000000000a1") // entry / caller / factory
	c26ScnB     = common.HexToAddress("0xc0de0000000000000000000000000000000000b1") // callee
	c26ScnX     = common.HexToAddress("0xe0a00000000000000000000000000000000000e1") // funded EOA
	c26ScnFresh = common.HexToAddress("0xf5e5000000000000000000000000000000000001") // never in the pre-state
)

// c26Probe emits code that stores a value and the gas an operation costs.
type c26Asm struct {
	*ep.Asm
	slot uint64
}

func (a *c26Asm) store() { a.PushU(a.slot).Op(ep.SSTORE); a.slot++ }

// gasOf stores the gas consumed by body (which must leave one value, which is popped).
func (a *c26Asm) gasOf(body func()) {
	a.Op(ep.GAS)
	body()
	a.Op(ep.POP, ep.GAS, ep.SWAP1, ep.SUB)
	a.store()
}

// call emits a call of the given kind; args in the usual order.
func (a *c26Asm) call(kind byte, gas uint64, allGas bool, to common.Address, value uint64, inSize uint64) {
	a.PushU(0).PushU(0).PushU(inSize).PushU(0)
	if kind == ep.CALL || kind == ep.CALLCODE {
		a.PushU(value)
	}
	a.PushAddr(to)
	if allGas {
		a.Op(ep.GAS)
	} else {
		a.PushU(gas)
	}
	a.Op(kind)
}

// c26CalleeCode: with empty calldata run the drawn effects and end with the drawn
// outcome; with non-empty calldata report the transient slots into storage.
func c26CalleeCode(rt *rapid.T, notes *[]string) []byte {
	a := &c26Asm{Asm: ep.NewAsm(true), slot: 0x20}
	note := func(f string, x ...any) { *notes = append(*notes, fmt.Sprintf(f, x...)) }
	a.Op(ep.CALLDATASIZE)
	a.IfElse(func() {
		a.PushU(0).Op(ep.TLOAD)
		a.store()
		a.PushU(1).Op(ep.TLOAD)
		a.store()
		a.Op(ep.STOP)
	}, nil)
	n := 1 + ep.Uniform(rt, "n-effects", 5)
	for i := 0; i < n; i++ {
		switch ep.Uniform(rt, "effect", 8) {
		case 0, 1:
			k, v := uint64(ep.Uniform(rt, "sstore-slot", 2)), uint64(ep.Uniform(rt, "sstore-val", 3))
			a.PushU(v).PushU(k).Op(ep.SSTORE)
			note("sstore[%d]=%d", k, v)
		case 2:
			k, v := uint64(ep.Uniform(rt, "tstore-slot", 2)), uint64(1+ep.Uniform(rt, "tstore-val", 3))
			a.PushU(v).PushU(k).Op(ep.TSTORE)
			note("tstore[%d]=%d", k, v)
		case 3:
			a.PushU(0xabc).PushU(0).PushU(0).Op(ep.LOG0 + 1)
			note("log")
		case 4:
			a.call(ep.CALL, 0, false, c26ScnX, 1, 0)
			a.Op(ep.POP)
			note("pay-eoa")
		case 5:
			a.PushAddr(c26ScnFresh).Op(ep.BALANCE, ep.POP)
			a.PushU(1).Op(ep.SLOAD, ep.POP)
			note("warm")
		case 6:
			a.call(ep.CALL, 0, false, c26ScnFresh, 1, 0)
			a.Op(ep.POP)
			note("pay-new-account")
		case 7:
			init := ep.Deployer([]byte{0x00}, true)
			a.PushN(append(init, make([]byte, 32-len(init))...)).PushU(0).Op(ep.MSTORE)
			a.PushU(uint64(len(init))).PushU(0).PushU(0).Op(ep.CREATE, ep.POP)
			note("create")
		}
	}
	switch ep.Uniform(rt, "outcome", 7) {
	case 0, 1:
		a.Op(ep.STOP)
		note("-> stop")
	case 2:
		a.PushU(32).PushU(0).Op(ep.RETURN)
		note("-> return")
	case 3:
		a.PushU(32).PushU(0).Op(ep.REVERT)
		note("-> revert")
	case 4:
		a.Op(ep.INVALID)
		note("-> invalid")
	case 5:
		l := a.NewLabel()
		a.Bind(l)
		a.Jump(l)
		note("-> oog-loop")
	case 6:
		a.PushAddr(c26Pick(rt, "sd-beneficiary", c26ScnX, c26ScnFresh, c26ScnA, c26ScnB)).Op(ep.SELFDESTRUCT)
		note("-> selfdestruct")
	}
	return a.MustBytes()
}

// c26CallerCode: own effects, the call, then probes.
func c26CallerCode(rt *rapid.T, notes *[]string) []byte {
	a := &c26Asm{Asm: ep.NewAsm(true), slot: 0x10}
	note := func(f string, x ...any) { *notes = append(*notes, fmt.Sprintf(f, x...)) }
	a.PushU(5).PushU(0).Op(ep.TSTORE)
	if ep.Uniform(rt, "caller-sstore", 2) == 0 {
		a.PushU(uint64(ep.Uniform(rt, "caller-sstore-val", 3))).PushU(0).Op(ep.SSTORE)
	}
	kind := c26Pick(rt, "call-kind", ep.CALL, ep.CALL, ep.DELEGATECALL, ep.CALLCODE, ep.STATICCALL)
	gas := c26Pick(rt, "call-gas", uint64(0), 2300, 25_000, 50_000, 120_000)
	all := ep.Uniform(rt, "call-all-gas", 2) == 0
	val := uint64(ep.Uniform(rt, "call-value", 2))
	a.call(kind, gas, all, c26ScnB, val, 0)
	a.store()
	note("caller: %s gas=%d all=%v value=%d", ep.OpName(kind), gas, all, val)
	// what the caller sees afterwards
	a.Op(ep.RETURNDATASIZE)
	a.store()
	for k := uint64(0); k < 2; k++ {
		a.PushU(k).Op(ep.TLOAD)
		a.store()
		a.gasOf(func() { a.PushU(k).Op(ep.SLOAD) })
		a.PushU(k).Op(ep.SLOAD)
		a.store()
	}
	a.gasOf(func() { a.PushAddr(c26ScnFresh).Op(ep.BALANCE) })
	for _, x := range []common.Address{c26ScnFresh, c26ScnX, c26ScnB} {
		a.PushAddr(x).Op(ep.BALANCE)
		a.store()
	}
	a.Op(ep.SELFBALANCE)
	a.store()
	a.PushAddr(c26ScnB).Op(ep.EXTCODESIZE)
	a.store()
	a.PushAddr(c26ScnFresh).Op(ep.EXTCODEHASH)
	a.store()
	// ask the callee for its transient storage
	a.call(ep.CALL, 0, true, c26ScnB, 0, 1)
	a.store()
	if ep.Uniform(rt, "caller-outcome", 8) == 0 {
		a.PushU(0).PushU(0).Op(ep.REVERT)
		note("caller reverts")
	} else {
		a.Op(ep.STOP)
	}
	return a.MustBytes()
}

// c26FactoryCode: create a child (drawn initcode, value, CREATE/CREATE2), poke it,
// report what is visible.
func c26FactoryCode(rt *rapid.T, notes *[]string) []byte {
	a := &c26Asm{Asm: ep.NewAsm(true), slot: 0x10}
	note := func(f string, x ...any) { *notes = append(*notes, fmt.Sprintf(f, x...)) }
	sd := func(ben int) []byte { // PUSH20 ben / ADDRESS ; SELFDESTRUCT
		switch ben {
		case 0:
			return []byte{0x30, 0xff}
		case 1:
			return append(append([]byte{0x73}, c26ScnX[:]...), 0xff)
		case 2:
			return append(append([]byte{0x73}, c26ScnFresh[:]...), 0xff)
		}
		return append(append([]byte{0x73}, c26ScnA[:]...), 0xff)
	}
	ben := ep.Uniform(rt, "beneficiary", 4)
	var init []byte
	switch ep.Uniform(rt, "initcode", 6) {
	case 0:
		init = sd(ben)
		note("init: selfdestruct(ben%d)", ben)
	case 1, 2:
		init = ep.Deployer(sd(ben), true)
		note("init: deploy runtime selfdestruct(ben%d)", ben)
	case 3:
		init = ep.Deployer([]byte{0x00}, true)
		note("init: deploy STOP")
	case 4:
		init = []byte{0x5f, 0x5f, 0xfd}
		note("init: revert")
	case 5:
		init = []byte{0xfe}
		note("init: invalid")
	}
	// initcode into memory, byte by byte via one or two words
	padded := append(append([]byte{}, init...), make([]byte, 64-len(init))...)
	a.PushN(padded[:32]).PushU(0).Op(ep.MSTORE)
	a.PushN(padded[32:]).PushU(32).Op(ep.MSTORE)
	value := c26Pick(rt, "endowment", uint64(0), 1, 1000)
	create2 := ep.Uniform(rt, "create2", 2) == 0
	if create2 {
		a.PushU(0).PushU(uint64(len(init))).PushU(0).PushU(value).Op(ep.CREATE2)
	} else {
		a.PushU(uint64(len(init))).PushU(0).PushU(value).Op(ep.CREATE)
	}
	note("create2=%v endowment=%d", create2, value)
	a.Op(ep.DUP1)
	a.store() // child address (0 on failure) ; the address stays on the stack
	poke := func(value uint64) {
		a.PushU(0).PushU(0).PushU(0).PushU(0).PushU(value).Op(ep.DUP1+5, ep.GAS, ep.CALL)
		a.store()
	}
	for i, n := 0, ep.Uniform(rt, "pokes", 3); i < n; i++ {
		v := uint64(ep.Uniform(rt, "poke-value", 2))
		poke(v)
		note("poke value=%d", v)
	}
	for _, op := range []byte{ep.BALANCE, ep.EXTCODESIZE, ep.EXTCODEHASH} {
		a.Op(ep.DUP1, op)
		a.store()
	}
	for _, x := range []common.Address{c26ScnX, c26ScnFresh} {
		a.PushAddr(x).Op(ep.BALANCE)
		a.store()
	}
	a.Op(ep.SELFBALANCE)
	a.store()
	a.Op(ep.POP, ep.STOP)
	return a.MustBytes()
}

func c26ScenarioProperty(st *vs.S) func(rt *rapid.T) {
	return func(rt *rapid.T) {
		c := &c26Case{pre: types.GenesisAlloc{}, refPre: refevm.World{}}
		c.fork = c26Pick(rt, "fork", refevm.Cancun, refevm.Prague, refevm.Osaka)
		c.cfg = c26Config(c.fork)
		var notes []string
		factory := ep.Uniform(rt, "scenario", 2) == 0
		var codeA, codeB []byte
		if factory {
			codeA = c26FactoryCode(rt, &notes)
			c.class("scenario:factory")
		} else {
			codeB = c26CalleeCode(rt, &notes)
			codeA = c26CallerCode(rt, &notes)
			c.class("scenario:callee-effects")
			st := map[common.Hash]common.Hash{}
			if ep.Uniform(rt, "callee-slot0", 2) == 0 {
				st[common.Hash{}] = common.BigToHash(big.NewInt(1))
			}
			c.put(c26ScnB, 1, c26Pick(rt, "callee-balance", big.NewInt(10), big.NewInt(10), big.NewInt(0)), codeB, st)
		}
		stA := map[common.Hash]common.Hash{}
		if ep.Uniform(rt, "caller-slot0", 2) == 0 {
			stA[common.Hash{}] = common.BigToHash(big.NewInt(1))
		}
		c.put(c26ScnA, 1, big.NewInt(5000), codeA, stA)
		c.put(c26ScnX, 0, big.NewInt(1), nil, nil)
		c.put(c26Addrs[0], 0, new(big.Int).Mul(c26Ether, big.NewInt(1000)), nil, nil)
		if c.fork >= refevm.Prague {
			c.put(params.WithdrawalQueueAddress, 1, big.NewInt(0), params.WithdrawalQueueCode, nil)
			c.put(params.ConsolidationQueueAddress, 1, big.NewInt(0), params.ConsolidationQueueCode, nil)
		}
		excess := uint64(0)
		random := common.Hash{2}
		coinbase := c26Pick(rt, "coinbase", c26FreshAddr, c26ScnFresh, c26ScnX)
		c.env = stEnv{Coinbase: coinbase, Difficulty: big.NewInt(0), Random: new(big.Int).SetBytes(random[:]), GasLimit: 30_000_000,
			Number: 1, Timestamp: 1_700_000_000, BaseFee: big.NewInt(7), ExcessBlobGas: &excess}
		maxBlobs, fraction := c26BlobSchedule(c.fork)
		c.refEnv = &refevm.Env{Fork: c.fork, ChainID: big.NewInt(1), Coinbase: refevm.Addr(coinbase), Number: 1, Time: 1_700_000_000,
			GasLimit: 30_000_000, BaseFee: big.NewInt(7), Random: refevm.Hash(random), MaxBlobsPerBlock: maxBlobs, BlobUpdateFraction: fraction,
			DepositContract: refevm.Addr(c26DepositAddr)}
		// one to three transactions: the scenario, possibly repeated, possibly followed
		// by a direct call of the child created by the first one
		ntx := 1 + ep.Uniform(rt, "ntx", 3)
		for i := 0; i < ntx; i++ {
			to := c26ScnA
			if factory && i > 0 && ep.Uniform(rt, "poke-child-directly", 2) == 0 {
				to = common.Address(refevm.CreateAddress(refevm.Addr(c26ScnA), 1))
			}
			gas := c26Pick(rt, "tx-gas", uint64(5_000_000), 3_000_000, 1_500_000, 500_000)
			val := int64(ep.Uniform(rt, "tx-value", 2))
			tx, err := types.SignNewTx(c26Keys[0], types.LatestSignerForChainID(big.NewInt(1)),
				&types.LegacyTx{Nonce: uint64(i), GasPrice: big.NewInt(8), Gas: gas, To: &to, Value: big.NewInt(val)})
			if err != nil {
				rt.Fatalf("VERIF-HARNESS-BUG: sign: %v", err)
			}
			rto := refevm.Addr(to)
			c.txs = append(c.txs, tx)
			c.refTxs = append(c.refTxs, &refevm.Tx{Type: refevm.TxLegacy, From: refevm.Addr(c26Addrs[0]), Nonce: uint64(i), GasLimit: gas,
				GasPrice: big.NewInt(8), To: &rto, Value: big.NewInt(val), Data: nil})
			c.txNotes = append(c.txNotes, fmt.Sprintf("to=%x gas=%d value=%d", to, gas, val))
		}
		sc := st.Case()
		ref, got, alloc, aerr := c26Run(c)
		for _, cl := range c.classes {
			sc.Class(cl)
		}
		sc.Class("fork:" + c.fork.String())
		for _, n := range notes {
			if strings.HasPrefix(n, "->") || strings.HasPrefix(n, "init:") {
				sc.Class("scn:" + n)
			}
		}
		for _, r := range ref.Receipts {
			if r.Status {
				sc.Class("receipt:ok")
			} else {
				sc.Class("receipt:failed:" + r.Err)
			}
		}
		if ref.Stats.SelfDestructsFresh > 0 {
			sc.Class("did:selfdestruct-same-tx")
		}
		if ref.Stats.SelfDestructs > ref.Stats.SelfDestructsFresh {
			sc.Class("did:selfdestruct-old-contract")
		}
		if ref.Stats.Collisions > 0 {
			sc.Class("did:create-collision")
		}
		nontrivial := ref.Stats.Frames >= 1 && ref.Stats.Steps >= 20 && ref.Stats.StateWrites >= 1
		sc.NonTrivial(nontrivial, fmt.Sprintf("%v-%x-%d", c.fork, crypto.Keccak256(codeA, codeB)[:12], ntx))
		sc.Sample(nontrivial, func() any { return map[string]any{"fork": c.fork.String(), "scenario": notes, "txs": c.txNotes} })
		if diffs := c26Compare(c, ref, got, alloc, aerr); len(diffs) > 0 {
			rt.Fatalf("geth's transition disagrees with the reference (kit/refevm) on a scenario:\n  %s\nscenario: %s\ncase:\n%s\ncode A:\n%scode B:\n%s",
				strings.Join(diffs, "\n  "), strings.Join(notes, "; "), c.render(), ep.Disasm(codeA), ep.Disasm(codeB))
		}
	}
}

func TestVerifC26Scenarios(t *testing.T) {
	st := vs.New("C26", t)
	vs.Check(t, 1, c26ScenarioProperty(st))
}

func TestVerifC26Transition(t *testing.T) {
	st := vs.New("C26", t)
	d := c26Full
	if os.Getenv("VERIF_C26_NARROW") != "" { // development aid: the first, small differential
		d = c26Domain{forks: []refevm.Fork{refevm.Cancun}, maxTxs: 2, maxContracts: 2}
	}
	if vs.Thorough() {
		d.maxTxs = 6
	}
	vs.Check(t, 1, c26Property(st, d))
}
