//go:build verif

package event

// C50 — event feeds deliver every value exactly once to active subscribers.
//
// A rapid-drawn *script* (senders, subscribers with buffer sizes, late joins,
// self/controller/scope/joined unsubscribes, perturbation classes, GOMAXPROCS) is
// executed several times against Feed or FeedOf. Every execution records a ledger
// (stamps from one global atomic counter taken before/after every Subscribe, Send and
// Unsubscribe; per-channel receive logs) and the ledger is judged afterwards.
//
// Every rule of the judge is schedule-independent: it only draws conclusions from
// stamp orderings that imply happens-before (stamp taken after call A returned <
// stamp taken before call B was made), so no legal schedule can trip it.

import (
	"fmt"
	"os"
	"reflect"
	"runtime"
	"sort"
	"strings"
	"sync"
	"sync/atomic"
	"testing"
	"time"

	"pgregory.net/rapid"
	vs "verif.local/kit/stat"
)

type c50Ev struct{ Sender, Seq int }

type c50API interface {
	Subscribe(ch chan c50Ev) Subscription
	Send(v c50Ev) int
}

type c50Untyped struct{ f Feed }

func (u *c50Untyped) Subscribe(ch chan c50Ev) Subscription { return u.f.Subscribe(ch) }
func (u *c50Untyped) Send(v c50Ev) int                     { return u.f.Send(v) }

type c50Typed struct{ f FeedOf[c50Ev] }

func (u *c50Typed) Subscribe(ch chan c50Ev) Subscription { return u.f.Subscribe(ch) }
func (u *c50Typed) Send(v c50Ev) int                     { return u.f.Send(v) }

// unsubscribe modes of a subscriber
const (
	c50ModeNone = iota // stays subscribed until the end of the script
	c50ModeSelf        // consumer unsubscribes after K received values
	c50ModeCtrl        // a controller goroutine unsubscribes once K2 sends were started (races sends)
	c50ModeBoth        // both of the above, concurrently
)

type c50SubSpec struct {
	Cap    int  // channel buffer
	Late   int  // -1: subscribed before any sender starts; else subscribes once Late sends were started
	Mode   int  // c50Mode*
	K, K2  int  // trigger points
	Twice  bool // every Unsubscribe call is made twice
	Scope  bool // tracked by the SubscriptionScope
	Joined bool // member of the JoinSubscriptions group (initial subscribers only)
	Pert   int  // 0 none, 1 yield, 2 spin, 3 sleep
}

type c50SenderSpec struct {
	N    int
	Pert int
}

type c50Script struct {
	Typed        bool
	Procs        int
	Senders      []c50SenderSpec
	Subs         []c50SubSpec
	ScopeCloseAt int // -1 never (before the end), else once that many sends were started
	JoinUnsubAt  int // same for the joined subscription
	Seed         uint64
}

func (s *c50Script) String() string {
	var b strings.Builder
	fmt.Fprintf(&b, "typed=%v procs=%d seed=%d scopeCloseAt=%d joinUnsubAt=%d senders=[", s.Typed, s.Procs, s.Seed, s.ScopeCloseAt, s.JoinUnsubAt)
	for _, x := range s.Senders {
		fmt.Fprintf(&b, "{n=%d p=%d}", x.N, x.Pert)
	}
	b.WriteString("] subs=[")
	for _, x := range s.Subs {
		fmt.Fprintf(&b, "{cap=%d late=%d mode=%d k=%d k2=%d twice=%v scope=%v joined=%v p=%d}", x.Cap, x.Late, x.Mode, x.K, x.K2, x.Twice, x.Scope, x.Joined, x.Pert)
	}
	b.WriteString("]")
	return b.String()
}

func c50DrawScript(rt *rapid.T) *c50Script {
	s := &c50Script{
		Typed: rapid.Bool().Draw(rt, "typed"),
		Procs: rapid.SampledFrom([]int{1, 2, 4, 16}).Draw(rt, "procs"),
		Seed:  rapid.Uint64().Draw(rt, "seed"),
	}
	ns := rapid.IntRange(1, 4).Draw(rt, "senders")
	total := 0
	for i := 0; i < ns; i++ {
		n := rapid.IntRange(1, 8).Draw(rt, "nsend")
		total += n
		s.Senders = append(s.Senders, c50SenderSpec{N: n, Pert: rapid.IntRange(0, 3).Draw(rt, "spert")})
	}
	nr := rapid.IntRange(1, 6).Draw(rt, "subs")
	for i := 0; i < nr; i++ {
		x := c50SubSpec{
			Cap:   rapid.SampledFrom([]int{0, 0, 1, 4}).Draw(rt, "cap"),
			Late:  -1,
			Mode:  rapid.SampledFrom([]int{c50ModeNone, c50ModeSelf, c50ModeSelf, c50ModeCtrl, c50ModeCtrl, c50ModeBoth}).Draw(rt, "mode"),
			K:     rapid.IntRange(1, total).Draw(rt, "k"),
			K2:    rapid.IntRange(0, total).Draw(rt, "k2"),
			Twice: rapid.IntRange(0, 3).Draw(rt, "twice") == 0,
			Scope: rapid.IntRange(0, 2).Draw(rt, "scope") == 0,
			Pert:  rapid.IntRange(0, 3).Draw(rt, "cpert"),
		}
		if rapid.IntRange(0, 3).Draw(rt, "islate") == 0 {
			x.Late = rapid.IntRange(0, total).Draw(rt, "late")
		} else if rapid.IntRange(0, 3).Draw(rt, "isjoined") == 0 {
			// joined members are cancelled through the joined subscription only
			x.Joined = true
			x.Mode = c50ModeNone
		}
		s.Subs = append(s.Subs, x)
	}
	s.ScopeCloseAt, s.JoinUnsubAt = -1, -1
	if rapid.Bool().Draw(rt, "scopeclose") {
		s.ScopeCloseAt = rapid.IntRange(0, total).Draw(rt, "scopeat")
	}
	if rapid.Bool().Draw(rt, "joinunsub") {
		s.JoinUnsubAt = rapid.IntRange(0, total).Draw(rt, "joinat")
	}
	return s
}

// ---- ledger ----------------------------------------------------------------------

type c50SendRec struct {
	Ev         c50Ev
	Start, End int64
	N          int
}

type c50UnsubRec struct {
	Sub           int // subscriber index; -1 = scope.Close; -2 = joined.Unsubscribe
	Kind          string
	Before, After int64
}

type c50SubRec struct {
	SubStart, SubEnd int64 // 0 = Subscribe never called
	TrackedNonNil    bool
	Recv             []c50Ev
	Viol             []string
}

type c50Ledger struct {
	Sends  []c50SendRec
	Unsubs []c50UnsubRec
	Subs   []c50SubRec
}

type c50pert struct{ x uint64 }

func (p *c50pert) next() uint64 {
	p.x += 0x9e3779b97f4a7c15
	z := p.x
	z = (z ^ (z >> 30)) * 0xbf58476d1ce4e5b9
	z = (z ^ (z >> 27)) * 0x94d049bb133111eb
	return z ^ (z >> 31)
}

var c50sink atomic.Uint64

// perturb disturbs the schedule at a harness-controlled point.
func (p *c50pert) perturb(class int) {
	r := p.next()
	switch class {
	case 1:
		for i := uint64(0); i < r%4; i++ {
			runtime.Gosched()
		}
	case 2:
		n := (r >> 8) % 2000
		var acc uint64
		for i := uint64(0); i < n; i++ {
			acc += i * r
		}
		c50sink.Add(acc)
	case 3:
		if r%4 == 0 {
			time.Sleep(time.Duration(r>>8%20) * time.Microsecond)
		} else {
			runtime.Gosched()
		}
	}
}

const c50HangBound = 120 * time.Second

// c50Run executes the script once. hang is set when a bounded wait expired; the
// ledger must not be read in that case (blocked goroutines still own parts of it).
func c50Run(s *c50Script, rep int) (led *c50Ledger, hang string) {
	var feed c50API
	if s.Typed {
		feed = new(c50Typed)
	} else {
		feed = new(c50Untyped)
	}
	var (
		clock        atomic.Int64
		sendsStarted atomic.Int64
		done         = make(chan struct{})
		scope        SubscriptionScope
		nsub         = len(s.Subs)
		chans        = make([]chan c50Ev, nsub)
		handles      = make([]Subscription, nsub)
		ready        = make([]chan struct{}, nsub)
		unsubFlag    = make([]atomic.Bool, nsub)
		tracked      = make([]atomic.Bool, nsub)
		subRecs      = make([]c50SubRec, nsub)
		unsubLogs    = make([][]c50UnsubRec, 2*nsub+2) // one private log per goroutine
		sendLogs     = make([][]c50SendRec, len(s.Senders))
	)
	stamp := func() int64 { return clock.Add(1) }
	newPert := func(id int) *c50pert {
		return &c50pert{x: s.Seed ^ uint64(id+1)*0xd6e8feb86659fd93 ^ uint64(rep+1)*0xa0761d6478bd642f}
	}
	// waitStarted blocks (yielding) until at least k sends were started or the script is over.
	waitStarted := func(k int) {
		for sendsStarted.Load() < int64(k) {
			select {
			case <-done:
				return
			default:
				runtime.Gosched()
			}
		}
	}
	// doUnsub calls Unsubscribe on h and records the stamps in the caller's private log.
	doUnsub := func(log *[]c50UnsubRec, viol *[]string, idx int, kind string, h Subscription, twice bool) {
		n := 1
		if twice {
			n = 2
		}
		for i := 0; i < n; i++ {
			before := stamp()
			h.Unsubscribe()
			after := stamp()
			*log = append(*log, c50UnsubRec{Sub: idx, Kind: kind, Before: before, After: after})
			select {
			case err, ok := <-h.Err():
				if ok {
					*viol = append(*viol, fmt.Sprintf("sub %d: Err() delivered %v after %s Unsubscribe returned (want closed)", idx, err, kind))
				}
			default:
				*viol = append(*viol, fmt.Sprintf("sub %d: Err() channel not closed after %s Unsubscribe returned", idx, kind))
			}
		}
	}
	// subscribe performs Subscribe (+Track) for subscriber i; called by main for initial
	// subscribers and by the consumer goroutine for late ones.
	subscribe := func(i int, log *[]c50UnsubRec) {
		spec := s.Subs[i]
		rec := &subRecs[i]
		rec.SubStart = stamp()
		inner := feed.Subscribe(chans[i])
		rec.SubEnd = stamp()
		h := inner
		if spec.Scope {
			if th := scope.Track(inner); th != nil {
				h = th
				rec.TrackedNonNil = true
				tracked[i].Store(true)
			} else {
				// scope already closed: the caller owns the subscription and cancels it
				doUnsub(log, &rec.Viol, i, "tracknil", inner, false)
				unsubFlag[i].Store(true)
			}
		}
		handles[i] = h
		close(ready[i])
	}

	for i := range chans {
		chans[i] = make(chan c50Ev, s.Subs[i].Cap)
		ready[i] = make(chan struct{})
	}
	var mainLog []c50UnsubRec
	var joinedMembers []int
	for i, spec := range s.Subs {
		if spec.Late < 0 {
			subscribe(i, &mainLog)
			if spec.Joined {
				joinedMembers = append(joinedMembers, i)
			}
		}
	}
	var joined Subscription
	if len(joinedMembers) > 0 {
		var hs []Subscription
		for _, i := range joinedMembers {
			hs = append(hs, handles[i])
		}
		joined = JoinSubscriptions(hs...)
	}

	var others, senders sync.WaitGroup
	// consumers
	for i := range s.Subs {
		others.Add(1)
		go func(i int) {
			defer others.Done()
			spec := s.Subs[i]
			rec := &subRecs[i]
			log := &unsubLogs[i]
			p := newPert(i)
			if spec.Late >= 0 {
				waitStarted(spec.Late)
				p.perturb(spec.Pert)
				subscribe(i, log)
			}
			ch := chans[i]
			got, post, budget, selfDone := 0, false, 0, false
			for {
				if !post && unsubFlag[i].Load() {
					// An Unsubscribe of this subscription has returned (the flag is set after the
					// return). This goroutine is the only receiver, so whatever is still to come
					// must already sit in the buffer.
					post, budget = true, len(ch)
				}
				select {
				case v := <-ch:
					rec.Recv = append(rec.Recv, v)
					if post {
						if budget == 0 {
							rec.Viol = append(rec.Viol, fmt.Sprintf("sub %d: value %v delivered to the channel after Unsubscribe had returned", i, v))
						} else {
							budget--
						}
					}
					got++
					p.perturb(spec.Pert)
					if (spec.Mode == c50ModeSelf || spec.Mode == c50ModeBoth) && !selfDone && got == spec.K {
						selfDone = true
						doUnsub(log, &rec.Viol, i, "self", handles[i], spec.Twice)
						unsubFlag[i].Store(true)
					}
				case <-done:
					return
				}
			}
		}(i)
	}
	// per-subscriber controllers
	for i, spec := range s.Subs {
		if spec.Mode != c50ModeCtrl && spec.Mode != c50ModeBoth {
			continue
		}
		others.Add(1)
		go func(i int, spec c50SubSpec) {
			defer others.Done()
			log := &unsubLogs[nsub+i]
			var viol []string
			p := newPert(100 + i)
			waitStarted(spec.K2)
			select {
			case <-ready[i]:
			case <-done:
				return
			}
			p.perturb(spec.Pert)
			doUnsub(log, &viol, i, "ctrl", handles[i], spec.Twice)
			unsubFlag[i].Store(true)
			if len(viol) > 0 {
				// reported through the unsub log owner: append as pseudo records
				for _, v := range viol {
					*log = append(*log, c50UnsubRec{Sub: i, Kind: "VIOL:" + v})
				}
			}
		}(i, spec)
	}
	// scope closer
	if s.ScopeCloseAt >= 0 {
		others.Add(1)
		go func() {
			defer others.Done()
			log := &unsubLogs[2*nsub]
			waitStarted(s.ScopeCloseAt)
			before := stamp()
			scope.Close()
			after := stamp()
			*log = append(*log, c50UnsubRec{Sub: -1, Kind: "scope", Before: before, After: after})
			for i, spec := range s.Subs {
				if spec.Scope && tracked[i].Load() {
					unsubFlag[i].Store(true)
				}
			}
		}()
	}
	// joined unsubscriber (the only caller of joined.Unsubscribe before the end)
	if s.JoinUnsubAt >= 0 && joined != nil {
		others.Add(1)
		go func() {
			defer others.Done()
			log := &unsubLogs[2*nsub+1]
			waitStarted(s.JoinUnsubAt)
			before := stamp()
			joined.Unsubscribe()
			after := stamp()
			*log = append(*log, c50UnsubRec{Sub: -2, Kind: "joined", Before: before, After: after})
			for _, i := range joinedMembers {
				unsubFlag[i].Store(true)
			}
		}()
	}
	// senders
	for si, spec := range s.Senders {
		senders.Add(1)
		go func(si int, spec c50SenderSpec) {
			defer senders.Done()
			p := newPert(200 + si)
			for seq := 0; seq < spec.N; seq++ {
				p.perturb(spec.Pert)
				ev := c50Ev{Sender: si, Seq: seq}
				sendsStarted.Add(1)
				start := stamp()
				n := feed.Send(ev)
				end := stamp()
				sendLogs[si] = append(sendLogs[si], c50SendRec{Ev: ev, Start: start, End: end, N: n})
			}
		}(si, spec)
	}

	wait := func(wg *sync.WaitGroup) bool {
		c := make(chan struct{})
		go func() { wg.Wait(); close(c) }()
		t := time.NewTimer(c50HangBound)
		defer t.Stop()
		select {
		case <-c:
			return true
		case <-t.C:
			return false
		}
	}
	if !wait(&senders) {
		close(done)
		return nil, "senders did not finish"
	}
	close(done)
	if !wait(&others) {
		return nil, "consumers/controllers did not finish"
	}

	// final cleanup: cancel everything, then drain the buffers (no Send is running).
	cleanup := make(chan struct{})
	go func() {
		defer close(cleanup)
		if joined != nil {
			before := stamp()
			joined.Unsubscribe()
			mainLog = append(mainLog, c50UnsubRec{Sub: -2, Kind: "final-joined", Before: before, After: stamp()})
		}
		before := stamp()
		scope.Close()
		mainLog = append(mainLog, c50UnsubRec{Sub: -1, Kind: "final-scope", Before: before, After: stamp()})
		for i := range s.Subs {
			if handles[i] != nil {
				doUnsub(&mainLog, &subRecs[i].Viol, i, "final", handles[i], false)
			}
		}
	}()
	select {
	case <-cleanup:
	case <-time.After(c50HangBound):
		return nil, "final unsubscribe did not finish"
	}
	for i := range s.Subs {
	drain:
		for {
			select {
			case v := <-chans[i]:
				subRecs[i].Recv = append(subRecs[i].Recv, v)
			default:
				break drain
			}
		}
	}

	led = &c50Ledger{Subs: subRecs}
	for _, l := range sendLogs {
		led.Sends = append(led.Sends, l...)
	}
	sort.Slice(led.Sends, func(a, b int) bool { return led.Sends[a].Start < led.Sends[b].Start })
	led.Unsubs = append(led.Unsubs, mainLog...)
	for _, l := range unsubLogs {
		led.Unsubs = append(led.Unsubs, l...)
	}
	return led, ""
}

// ---- judge -----------------------------------------------------------------------

type c50Verdict struct {
	Viol                         []string
	Overlaps                     []string // (unsub kind, sub, send) pairs that overlapped in time
	MustRecv, MustNot, FreeCases int
	Delivered                    int
}

const c50Inf = int64(1) << 62

func c50Judge(s *c50Script, led *c50Ledger) *c50Verdict {
	v := &c50Verdict{}
	nsub := len(s.Subs)
	uStart := make([]int64, nsub) // earliest stamp taken before any call that may cancel sub i
	uEnd := make([]int64, nsub)   // earliest stamp taken after a call returned that guarantees sub i is cancelled
	for i := range uStart {
		uStart[i], uEnd[i] = c50Inf, c50Inf
	}
	applies := func(u c50UnsubRec, i int) (start, end bool) {
		switch {
		case u.Sub == i:
			return true, true
		case u.Sub == -1 && s.Subs[i].Scope:
			// Close cancels exactly the subscriptions whose Track returned non-nil.
			return true, led.Subs[i].TrackedNonNil
		case u.Sub == -2 && s.Subs[i].Joined:
			return true, true
		}
		return false, false
	}
	for _, u := range led.Unsubs {
		if strings.HasPrefix(u.Kind, "VIOL:") {
			v.Viol = append(v.Viol, strings.TrimPrefix(u.Kind, "VIOL:"))
			continue
		}
		for i := 0; i < nsub; i++ {
			st, en := applies(u, i)
			if st && u.Before < uStart[i] {
				uStart[i] = u.Before
			}
			if en && u.After < uEnd[i] {
				uEnd[i] = u.After
			}
		}
	}
	sendIdx := map[c50Ev]int{}
	for k, snd := range led.Sends {
		sendIdx[snd.Ev] = k
	}
	totalRecv := make([]int, len(led.Sends))
	for i := 0; i < nsub; i++ {
		rec := &led.Subs[i]
		v.Viol = append(v.Viol, rec.Viol...)
		cnt := make([]int, len(led.Sends))
		for pos, ev := range rec.Recv {
			k, ok := sendIdx[ev]
			if !ok {
				v.Viol = append(v.Viol, fmt.Sprintf("sub %d received %v which no sender sent", i, ev))
				continue
			}
			cnt[k]++
			totalRecv[k]++
			v.Delivered++
			// order: a value whose Send had returned before another Send was called must
			// not be received after that other value on the same channel.
			for _, prev := range rec.Recv[:pos] {
				if pk, ok := sendIdx[prev]; ok && led.Sends[k].End < led.Sends[pk].Start {
					v.Viol = append(v.Viol, fmt.Sprintf("sub %d received %v before %v although Send(%v) returned (stamp %d) before Send(%v) was called (stamp %d)",
						i, prev, ev, ev, led.Sends[k].End, prev, led.Sends[pk].Start))
				}
			}
		}
		for k, snd := range led.Sends {
			switch {
			case cnt[k] > 1:
				v.Viol = append(v.Viol, fmt.Sprintf("sub %d received %v %d times", i, snd.Ev, cnt[k]))
			case rec.SubEnd != 0 && rec.SubEnd < snd.Start && snd.End < uStart[i]:
				v.MustRecv++
				if cnt[k] != 1 {
					v.Viol = append(v.Viol, fmt.Sprintf("sub %d was subscribed (stamp %d) before Send(%v) [%d,%d] and not unsubscribed before stamp %d, but received it %d times",
						i, rec.SubEnd, snd.Ev, snd.Start, snd.End, uStart[i], cnt[k]))
				}
			case rec.SubStart == 0 || snd.End < rec.SubStart || uEnd[i] < snd.Start:
				v.MustNot++
				if cnt[k] != 0 {
					v.Viol = append(v.Viol, fmt.Sprintf("sub %d (Subscribe called at %d, Unsubscribe returned at %d) received %v sent during [%d,%d]",
						i, rec.SubStart, uEnd[i], snd.Ev, snd.Start, snd.End))
				}
			default:
				v.FreeCases++
			}
		}
	}
	for k, snd := range led.Sends {
		if totalRecv[k] != snd.N {
			v.Viol = append(v.Viol, fmt.Sprintf("Send(%v) returned %d but %d channels received the value", snd.Ev, snd.N, totalRecv[k]))
		}
	}
	// non-trivial rule: an Unsubscribe (not the final cleanup) overlapped an in-flight Send
	for _, u := range led.Unsubs {
		if strings.HasPrefix(u.Kind, "final") || strings.HasPrefix(u.Kind, "VIOL:") {
			continue
		}
		for _, snd := range led.Sends {
			if u.Before < snd.End && snd.Start < u.After {
				v.Overlaps = append(v.Overlaps, fmt.Sprintf("%s/%d~%d.%d", u.Kind, u.Sub, snd.Ev.Sender, snd.Ev.Seq))
			}
		}
	}
	sort.Strings(v.Overlaps)
	return v
}

func c50History(s *c50Script, led *c50Ledger) string {
	var b strings.Builder
	fmt.Fprintf(&b, "script: %s\n", s)
	for _, x := range led.Sends {
		fmt.Fprintf(&b, "  send %v start=%d end=%d n=%d\n", x.Ev, x.Start, x.End, x.N)
	}
	for _, u := range led.Unsubs {
		fmt.Fprintf(&b, "  unsub sub=%d kind=%s before=%d after=%d\n", u.Sub, u.Kind, u.Before, u.After)
	}
	for i, r := range led.Subs {
		fmt.Fprintf(&b, "  sub %d subscribe=[%d,%d] trackedNonNil=%v recv=%v\n", i, r.SubStart, r.SubEnd, r.TrackedNonNil, r.Recv)
	}
	return b.String()
}

var c50Printed, c50Hung atomic.Bool

func c50Reps() int {
	if vs.Thorough() {
		return 30
	}
	return 20
}

func c50Property(t *testing.T, st *vs.S) func(rt *rapid.T) {
	return func(rt *rapid.T) {
		s := c50DrawScript(rt)
		old := runtime.GOMAXPROCS(s.Procs)
		defer runtime.GOMAXPROCS(old)
		desc := s.String()
		for rep := 0; rep < c50Reps(); rep++ {
			c := st.Case()
			led, hang := c50Run(s, rep)
			if hang != "" {
				// Liveness is not part of the property; a bounded wait that expires is
				// reported as inconclusive, outside rapid (no shrinking of a hang).
				fmt.Fprintf(os.Stderr, "VERIF-INCONCLUSIVE C50: %s within %v (rep %d)\nscript: %s\n", hang, c50HangBound, rep, desc)
				runtime.GOMAXPROCS(old)
				c50Hung.Store(true)
				t.Fatalf("VERIF-INCONCLUSIVE C50: %s within %v; script: %s", hang, c50HangBound, desc)
			}
			v := c50Judge(s, led)
			kind := "Feed"
			if s.Typed {
				kind = "FeedOf"
			}
			c.Class(kind)
			c.Classf("procs=%d", s.Procs)
			if len(v.Overlaps) > 0 {
				c.Class("unsub-overlaps-send")
			} else {
				c.Class("no-overlap")
			}
			if v.MustRecv > 0 {
				c.Class("has-must-receive")
			}
			if v.MustNot > 0 {
				c.Class("has-must-not-receive")
			}
			if v.FreeCases > 0 {
				c.Class("has-racing(0or1)")
			}
			if rep == 0 {
				for _, x := range s.Subs {
					switch {
					case x.Joined:
						c.Class("script:joined-member")
					case x.Late >= 0:
						c.Class("script:late-subscriber")
					}
					if x.Scope {
						c.Class("script:scope-tracked")
					}
					c.Classf("script:mode%d", x.Mode)
					c.Classf("script:cap%d", x.Cap)
				}
			}
			for i, r := range led.Subs {
				if s.Subs[i].Scope && r.SubEnd != 0 && !r.TrackedNonNil {
					c.Class("track-on-closed-scope")
				}
			}
			nt := len(v.Overlaps) > 0
			c.NonTrivial(nt, desc+"|"+strings.Join(v.Overlaps, ","))
			c.Sample(nt, func() any {
				return map[string]any{"script": desc, "rep": rep, "overlaps": v.Overlaps, "must_receive": v.MustRecv,
					"must_not_receive": v.MustNot, "racing": v.FreeCases, "delivered": v.Delivered}
			})
			if len(v.Viol) > 0 {
				st.MarkFailed()
				if c50Printed.CompareAndSwap(false, true) {
					// schedule-dependent: rapid cannot replay this, so the observed history is the evidence
					fmt.Fprintf(os.Stderr, "C50 observed history (rep %d):\n%s", rep, c50History(s, led))
				}
				rt.Fatalf("C50 violated (rep %d): %s\n%s", rep, strings.Join(v.Viol, "\n"), c50History(s, led))
			}
		}
	}
}

// TestVerifC50Ledger is the concurrent exactly-once ledger check (also run under -race).
func TestVerifC50Ledger(t *testing.T) {
	st := vs.New("C50", t)
	vs.Check(t, 1, c50Property(t, st))
}

// TestVerifC50TypePanic: Send/Subscribe with a type other than the feed's panic with
// the documented error and leave the feed usable.
func TestVerifC50TypePanic(t *testing.T) {
	if c50Hung.Load() {
		t.Skip("VERIF-INCONCLUSIVE: an earlier test left blocked feed goroutines behind")
	}
	st := vs.New("C50", t)
	catch := func(fn func()) (p any) {
		defer func() { p = recover() }()
		fn()
		return nil
	}
	vs.Check(t, 0.5, func(rt *rapid.T) {
		c := st.Case()
		var f Feed
		var chans []chan int
		subscribed := 0
		if rapid.Bool().Draw(rt, "firstIsSubscribe") {
			ch := make(chan int, 64)
			f.Subscribe(ch)
			chans = append(chans, ch)
			subscribed++
		} else if n := f.Send(7); n != 0 {
			rt.Fatalf("Send on empty feed returned %d", n)
		}
		intT := reflect.TypeOf(0)
		nops := rapid.IntRange(1, 12).Draw(rt, "nops")
		bad, goodAfterBad := 0, false
		for i := 0; i < nops; i++ {
			switch op := rapid.IntRange(0, 6).Draw(rt, "op"); op {
			case 0: // valid send
				if n := f.Send(i); n != subscribed {
					rt.Fatalf("Send returned %d, want %d subscribers", n, subscribed)
				}
				for _, ch := range chans {
					if got := <-ch; got != i {
						rt.Fatalf("received %d want %d", got, i)
					}
				}
				if bad > 0 {
					goodAfterBad = true
				}
			case 1: // valid subscribe
				if subscribed < 8 {
					ch := make(chan int, 64)
					f.Subscribe(ch)
					chans = append(chans, ch)
					subscribed++
				}
			case 2, 3, 4: // wrong-type send
				var val any
				switch op {
				case 2:
					val = "x"
				case 3:
					val = uint64(1)
				default:
					val = struct{ A int }{1}
				}
				p := catch(func() { f.Send(val) })
				want := feedTypeError{op: "Send", got: reflect.TypeOf(val), want: intT}
				if !reflect.DeepEqual(p, want) {
					rt.Fatalf("Send(%T) on an int feed: panic value %#v, want %#v", val, p, want)
				}
				if msg := p.(error).Error(); msg != "event: wrong type in Send got "+reflect.TypeOf(val).String()+", want int" {
					rt.Fatalf("unexpected message %q", msg)
				}
				bad++
			case 5: // wrong-type subscribe
				p := catch(func() { f.Subscribe(make(chan string)) })
				want := feedTypeError{op: "Subscribe", got: reflect.TypeOf(make(chan string)), want: reflect.TypeOf(make(chan<- int))}
				if !reflect.DeepEqual(p, want) {
					rt.Fatalf("Subscribe(chan string) on an int feed: panic value %#v, want %#v", p, want)
				}
				bad++
			case 6: // not a sendable channel
				var arg any = 0
				if rapid.Bool().Draw(rt, "recvonly") {
					arg = make(<-chan int)
				}
				if p := catch(func() { f.Subscribe(arg) }); p != error(errBadChannel) {
					rt.Fatalf("Subscribe(%T): panic value %#v, want errBadChannel", arg, p)
				}
				bad++
			}
		}
		c.Classf("bad=%v goodAfterBad=%v", bad > 0, goodAfterBad)
		c.NonTrivial(goodAfterBad, fmt.Sprintf("%d/%d/%d", nops, bad, subscribed))
	})
}
