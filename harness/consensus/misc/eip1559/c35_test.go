//go:build verif

package eip1559

import (
	"fmt"
	"math/big"
	"testing"

	"github.com/ethereum/go-ethereum/core/types"
	"github.com/ethereum/go-ethereum/params"
	"pgregory.net/rapid"
	"verif.local/kit/reffee"
	vs "verif.local/kit/stat"
)

const c35MaxGasLimit = uint64(1)<<63 - 1 // params.MaxGasLimit: enforced on every verified header

func c35u(v uint64) *big.Int { return new(big.Int).SetUint64(v) }

func c35Config(london int64) *params.ChainConfig {
	cfg := *params.AllEthashProtocolChanges
	cfg.LondonBlock = big.NewInt(london)
	return &cfg
}

func c35GenGasLimit(rt *rapid.T, label string) uint64 {
	switch rapid.IntRange(0, 3).Draw(rt, label+"kind") {
	case 0:
		return rapid.SampledFrom([]uint64{5000, 5001, 5002, 5003, 1 << 24, 30_000_000, 30_000_001, 36_000_000, 1 << 32, 1<<53 + 1,
			1<<62 - 1, 1 << 62, 1<<62 + 1, c35MaxGasLimit - 1, c35MaxGasLimit}).Draw(rt, label)
	case 1:
		bits := rapid.IntRange(13, 63).Draw(rt, label+"bits")
		v := rapid.Uint64().Draw(rt, label) >> uint(64-bits)
		if v < 5000 {
			v += 5000
		}
		return v
	case 2:
		return uint64(rapid.IntRange(5000, 60_000_000).Draw(rt, label))
	default: // tiny limits (below the protocol minimum; the formula is still defined for target >= 1)
		return uint64(rapid.IntRange(2, 4999).Draw(rt, label))
	}
}

var c35BaseFees = []string{"0", "1", "2", "6", "7", "8", "9", "15", "16", "17", "1000000000", "999999999", "1000000001", "7000000000",
	"18446744073709551615", "18446744073709551616", "340282366920938463463374607431768211455",
	"1606938044258990275541962092341162602522202993782792835301376", // 2^200
	"115792089237316195423570985008687907853269984665640564039457584007913129639935"} // 2^256-1

func c35GenBaseFee(rt *rapid.T, label string) *big.Int {
	switch rapid.IntRange(0, 2).Draw(rt, label+"kind") {
	case 0:
		v, _ := new(big.Int).SetString(rapid.SampledFrom(c35BaseFees).Draw(rt, label), 10)
		return v
	case 1:
		return c35u(uint64(rapid.IntRange(0, 200_000_000_000).Draw(rt, label)))
	default:
		bits := rapid.IntRange(1, 256).Draw(rt, label+"bits")
		b := rapid.SliceOfN(rapid.Byte(), 32, 32).Draw(rt, label)
		v := new(big.Int).SetBytes(b)
		return v.Rsh(v, uint(256-bits))
	}
}

// c35GenUsed draws the parent's gas used: boundary values around the target and the
// limit, or anything up to the limit; rarely above the limit (formula still defined).
func c35GenUsed(rt *rapid.T, limit uint64) (uint64, string) {
	target := limit / 2
	switch rapid.IntRange(0, 9).Draw(rt, "usedkind") {
	case 0:
		return target, "at-target"
	case 1:
		return target + 1, "target+1"
	case 2:
		if target > 0 {
			return target - 1, "target-1"
		}
		return 0, "zero"
	case 3:
		return 0, "zero"
	case 4:
		return limit, "full"
	case 5:
		return 2 * target, "2*target"
	case 6:
		if limit == ^uint64(0) {
			return limit, "full"
		}
		v := limit + 1 + uint64(rapid.IntRange(0, 1000).Draw(rt, "over"))
		return v, "above-limit"
	default:
		return rapid.Uint64Range(0, limit).Draw(rt, "used"), "random"
	}
}

// TestVerifC35BaseFee: CalcBaseFee against the EIP-1559 formula, plus the derived
// bounds (change of at most one eighth, minimum increase 1, never negative).
func TestVerifC35BaseFee(t *testing.T) {
	st := vs.New("C35", t)
	vs.Check(t, 1, func(rt *rapid.T) {
		c := st.Case()
		london := int64(rapid.SampledFrom([]int{0, 1, 5, 12_965_000}).Draw(rt, "london"))
		rel := rapid.SampledFrom([]int64{-2, -1, 0, 1, 1000}).Draw(rt, "rel")
		num := london + rel
		if num < 0 {
			num = 0
		}
		parentIsLondon := num >= london
		limit := c35GenGasLimit(rt, "limit")
		used, usedClass := c35GenUsed(rt, limit)
		baseFee := c35GenBaseFee(rt, "basefee")
		parent := &types.Header{Number: big.NewInt(num), GasLimit: limit, GasUsed: used}
		if parentIsLondon || rapid.Bool().Draw(rt, "strayBaseFee") {
			parent.BaseFee = new(big.Int).Set(baseFee)
		}
		got := CalcBaseFee(c35Config(london), parent)
		var want *big.Int
		if parentIsLondon {
			want = reffee.BaseFee(c35u(limit), c35u(used), baseFee)
		} else {
			want = big.NewInt(reffee.InitialBaseFee)
		}
		if got == nil || got.Cmp(want) != 0 {
			rt.Fatalf("CalcBaseFee(london=%d parent{number=%d gasLimit=%d gasUsed=%d baseFee=%v}) = %v, EIP-1559 formula gives %v", london, num, limit, used, baseFee, got, want)
		}
		if got.Sign() < 0 {
			rt.Fatalf("negative base fee %v", got)
		}
		boundary := false
		class := "fork-block"
		if parentIsLondon {
			class = usedClass
			// derived bounds, valid when used <= ELASTICITY * target
			target := limit / 2
			eighth := new(big.Int).Div(baseFee, big.NewInt(8))
			delta := new(big.Int).Sub(got, baseFee)
			if used <= 2*target {
				switch {
				case used > target:
					maxInc := eighth
					if maxInc.Sign() == 0 {
						maxInc = big.NewInt(1)
					}
					if delta.Sign() <= 0 || delta.Cmp(maxInc) > 0 {
						rt.Fatalf("base fee increase %v outside [1, max(1, baseFee/8)=%v] (limit=%d used=%d baseFee=%v)", delta, maxInc, limit, used, baseFee)
					}
					if delta.Cmp(big.NewInt(1)) == 0 {
						boundary = true // increase clamped to (or exactly) 1
						class += "/inc=1"
					}
				case used < target:
					if delta.Sign() > 0 || new(big.Int).Neg(delta).Cmp(eighth) > 0 {
						rt.Fatalf("base fee decrease %v larger than baseFee/8=%v (limit=%d used=%d baseFee=%v)", delta, eighth, limit, used, baseFee)
					}
				default:
					if delta.Sign() != 0 {
						rt.Fatalf("base fee changed at target")
					}
				}
			}
			if used == target || used == target+1 || used+1 == target || used == limit || used == 0 {
				boundary = true
			}
		} else {
			boundary = rel == -1 // the child is exactly the fork block
		}
		if baseFee.BitLen() > 64 {
			class += "/bf>64bit"
		}
		c.Class(class)
		c.NonTrivial(boundary, fmt.Sprintf("%d/%d/%d/%d/%v", london, num, limit, used, baseFee))
		c.Sample(boundary, func() any {
			return map[string]any{"london": london, "parentNumber": num, "gasLimit": limit, "gasUsed": used, "baseFee": baseFee.String(), "result": got.String()}
		})
	})
}

// TestVerifC35Verify1559: accept/reject of VerifyEIP1559Header equals the EIP-1559
// validity rule (gas-limit bound with the elasticity adjustment at the fork block,
// base fee presence and equality).
func TestVerifC35Verify1559(t *testing.T) {
	st := vs.New("C35", t)
	vs.Check(t, 1, func(rt *rapid.T) {
		c := st.Case()
		london := int64(rapid.SampledFrom([]int{0, 1, 5, 12_965_000}).Draw(rt, "london"))
		rel := rapid.SampledFrom([]int64{-1, -1, 0, 1, 1000, -2}).Draw(rt, "rel")
		num := london + rel
		if num < 0 {
			num = 0
		}
		parentIsLondon := num >= london
		limit := c35GenGasLimit(rt, "limit")
		if limit < 5000 {
			limit += 5000 // a verified parent has gasLimit >= 5000
		}
		known := vs.Known("TestVerifC35Verify1559", "fork-block-parent-gaslimit-ge-2^62")
		if !parentIsLondon && limit >= 1<<62 && known {
			st.Excluded()
			limit >>= 2
		}
		used, _ := c35GenUsed(rt, limit)
		if used > limit {
			used = limit
		}
		baseFee := c35GenBaseFee(rt, "basefee")
		parent := &types.Header{Number: big.NewInt(num), GasLimit: limit, GasUsed: used}
		parentHasBaseFee := parentIsLondon
		if parentIsLondon && rapid.IntRange(0, 19).Draw(rt, "dropParentBaseFee") == 0 {
			parentHasBaseFee = false
		}
		if parentHasBaseFee {
			parent.BaseFee = new(big.Int).Set(baseFee)
		}
		// the header's gas limit: around the bound of the (elasticity adjusted) parent limit
		adj := new(big.Int).SetUint64(limit)
		if !parentIsLondon {
			adj.Mul(adj, big.NewInt(2))
		}
		maxDelta := new(big.Int).Div(adj, big.NewInt(1024))
		var hl *big.Int
		glClass := ""
		switch rapid.IntRange(0, 5).Draw(rt, "glkind") {
		case 0:
			hl, glClass = new(big.Int).Set(adj), "gl=parent"
		case 1, 2:
			off := int64(rapid.IntRange(-2, 1).Draw(rt, "gloff"))
			d := new(big.Int).Add(maxDelta, big.NewInt(off))
			if rapid.Bool().Draw(rt, "glup") {
				hl = d.Add(adj, d)
			} else {
				hl = d.Sub(adj, d)
			}
			glClass = fmt.Sprintf("gl=bound%+d", off)
		case 3:
			hl, glClass = c35u(c35GenGasLimit(rt, "hl")), "gl=random"
		case 4:
			hl, glClass = new(big.Int).SetUint64(limit), "gl=unadjusted-parent"
		default:
			hl, glClass = c35u(uint64(rapid.IntRange(4998, 5002).Draw(rt, "hlmin"))), "gl=min"
		}
		if hl.Sign() < 0 {
			hl = new(big.Int)
		}
		if hl.Cmp(c35u(c35MaxGasLimit)) > 0 {
			hl = c35u(c35MaxGasLimit) // header.GasLimit > MaxGasLimit is rejected before this function
			glClass = "gl=max"
		}
		header := &types.Header{Number: big.NewInt(num + 1), GasLimit: hl.Uint64()}
		// the header's base fee
		var expected *big.Int
		if !parentIsLondon {
			expected = big.NewInt(reffee.InitialBaseFee)
		} else if parentHasBaseFee {
			expected = reffee.BaseFee(c35u(limit), c35u(used), baseFee)
		} else {
			expected = big.NewInt(7)
		}
		bfClass := ""
		switch rapid.IntRange(0, 7).Draw(rt, "bfkind") {
		case 0:
			bfClass = "bf=nil"
		case 1:
			header.BaseFee, bfClass = new(big.Int).Add(expected, big.NewInt(1)), "bf=+1"
		case 2:
			header.BaseFee, bfClass = new(big.Int).Sub(expected, big.NewInt(1)), "bf=-1"
			if header.BaseFee.Sign() < 0 {
				header.BaseFee = big.NewInt(0)
			}
		case 3:
			header.BaseFee, bfClass = new(big.Int).Set(baseFee), "bf=parent"
		default:
			header.BaseFee, bfClass = new(big.Int).Set(expected), "bf=expected"
		}
		cfg := c35Config(london)
		err := VerifyEIP1559Header(cfg, parent, header)
		ph := reffee.Header1559{GasLimit: c35u(limit), GasUsed: c35u(used)}
		if parentHasBaseFee {
			ph.BaseFee = baseFee
		}
		hh := reffee.Header1559{GasLimit: c35u(header.GasLimit), BaseFee: header.BaseFee}
		want := reffee.Validate1559(ph, hh, parentIsLondon)
		if (err == nil) != want {
			rt.Fatalf("VerifyEIP1559Header(london=%d, parent{number=%d gasLimit=%d gasUsed=%d baseFee=%v}, header{gasLimit=%d baseFee=%v}) = %v; EIP-1559 validity = %v",
				london, num, limit, used, parent.BaseFee, header.GasLimit, header.BaseFee, err, want)
		}
		fork := "london-parent"
		if !parentIsLondon {
			fork = "fork-block"
		}
		c.Classf("%s %s %s valid=%v", fork, glClass, bfClass, want)
		if !parentIsLondon && limit >= 1<<62 {
			c.Classf("fork-block parent gasLimit>=2^62 valid=%v", want) // x2 elasticity adjustment leaves the int64 range
		}
		nt := glClass != "gl=random" && glClass != "gl=parent" || !parentIsLondon
		c.NonTrivial(nt, fmt.Sprintf("%d/%d/%d/%d/%v/%d/%v", london, num, limit, used, parent.BaseFee, header.GasLimit, header.BaseFee))
		c.Sample(nt, func() any {
			return map[string]any{"london": london, "parentNumber": num, "parentGasLimit": limit, "parentGasUsed": used, "parentBaseFee": fmt.Sprint(parent.BaseFee),
				"headerGasLimit": header.GasLimit, "headerBaseFee": fmt.Sprint(header.BaseFee), "valid": want}
		})
	})
}
