//go:build verif

package misc

import (
	"fmt"
	"math/big"
	"testing"

	"pgregory.net/rapid"
	"verif.local/kit/reffee"
	vs "verif.local/kit/stat"
)

// Domain note: every caller (ethash/clique/beacon verifyHeader) rejects
// header.GasLimit > params.MaxGasLimit (2^63-1) before calling VerifyGaslimit, and the
// parent is itself a verified header, so both arguments are < 2^63 here.
const c35MaxGasLimit = uint64(1)<<63 - 1

func c35u(v uint64) *big.Int { return new(big.Int).SetUint64(v) }

// c35GasLimitBoundary says whether (parent, header) sits on a decision boundary.
func c35GasLimitBoundary(parent, header uint64) bool {
	lim := parent / 1024
	var diff uint64
	if parent > header {
		diff = parent - header
	} else {
		diff = header - parent
	}
	near := func(a, b uint64) bool { return a == b || a+1 == b || b+1 == a }
	return near(diff, lim) || near(header, 5000)
}

func c35CheckGasLimit(t interface{ Fatalf(string, ...any) }, parent, header uint64) bool {
	err := VerifyGaslimit(parent, header)
	want := reffee.GasLimitOK(c35u(parent), c35u(header))
	if (err == nil) != want {
		t.Fatalf("VerifyGaslimit(parent=%d, header=%d) = %v; specification (|delta| < parent//1024 and >= 5000) says valid=%v", parent, header, err, want)
	}
	return want
}

// TestVerifC35GasLimitExhaustive enumerates all parents 0..20000 with every header
// within +-24 of the parent, and all pairs in [4980,5140]^2.
func TestVerifC35GasLimitExhaustive(t *testing.T) {
	vs.OnlyShard0(t)
	st := vs.New("C35", t)
	n := 0
	for p := uint64(0); p <= 20000; p++ {
		lo := uint64(0)
		if p > 24 {
			lo = p - 24
		}
		for h := lo; h <= p+24; h++ {
			c := st.Case()
			ok := c35CheckGasLimit(t, p, h)
			c.Classf("valid=%v", ok)
			c.NonTrivial(c35GasLimitBoundary(p, h), fmt.Sprintf("%d/%d", p, h))
			n++
		}
	}
	for p := uint64(4980); p <= 5140; p++ {
		for h := uint64(4980); h <= 5140; h++ {
			c := st.Case()
			ok := c35CheckGasLimit(t, p, h)
			c.Classf("valid=%v", ok)
			c.NonTrivial(c35GasLimitBoundary(p, h), fmt.Sprintf("%d/%d", p, h))
			n++
		}
	}
	st.Exhaustive(fmt.Sprintf("VerifyGaslimit: parents 0..20000 x headers parent-24..parent+24, and [4980,5140]^2 (%d pairs)", n))
}

func c35GenLimit(rt *rapid.T, label string) uint64 {
	switch rapid.IntRange(0, 3).Draw(rt, label+"kind") {
	case 0:
		return rapid.SampledFrom([]uint64{0, 1, 1023, 1024, 1025, 2047, 2048, 4999, 5000, 5001, 5119, 5120, 5121, 1 << 24, 30_000_000,
			36_000_000, 1 << 32, 1 << 53, 1 << 62, 1<<62 + 1, c35MaxGasLimit - 1, c35MaxGasLimit}).Draw(rt, label)
	case 1:
		bits := rapid.IntRange(0, 63).Draw(rt, label+"bits")
		if bits == 0 {
			return 0
		}
		v := rapid.Uint64().Draw(rt, label)
		v >>= uint(64 - bits)
		return v
	case 2:
		return uint64(rapid.IntRange(4000, 40_000_000).Draw(rt, label))
	default: // multiples of 1024 +- small
		k := uint64(rapid.IntRange(1, 1<<40).Draw(rt, label+"k"))
		d := uint64(rapid.IntRange(0, 2).Draw(rt, label+"d"))
		return k*1024 + d - 1
	}
}

// TestVerifC35GasLimit: random and boundary pairs over the whole valid range < 2^63.
func TestVerifC35GasLimit(t *testing.T) {
	st := vs.New("C35", t)
	vs.Check(t, 1, func(rt *rapid.T) {
		c := st.Case()
		parent := c35GenLimit(rt, "parent")
		var header uint64
		switch rapid.IntRange(0, 3).Draw(rt, "hkind") {
		case 0, 1: // around the bound
			lim := parent / 1024
			off := uint64(rapid.IntRange(0, 3).Draw(rt, "off"))
			d := lim + off
			if d >= 2 {
				d -= 2
			} else {
				d = 0
			}
			if rapid.Bool().Draw(rt, "up") {
				header = parent + d
				if header < parent || header > c35MaxGasLimit {
					header = c35MaxGasLimit
				}
			} else if d <= parent {
				header = parent - d
			}
		case 2:
			header = c35GenLimit(rt, "header")
		default:
			header = parent
		}
		ok := c35CheckGasLimit(rt, parent, header)
		b := c35GasLimitBoundary(parent, header)
		c.Classf("valid=%v boundary=%v big=%v", ok, b, parent >= 1<<53)
		c.NonTrivial(b, fmt.Sprintf("%d/%d", parent, header))
		c.Sample(b, func() any { return map[string]any{"parent": parent, "header": header, "valid": ok} })
	})
}
