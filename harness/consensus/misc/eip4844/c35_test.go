//go:build verif

package eip4844

import (
	"fmt"
	"math/big"
	"testing"

	"github.com/ethereum/go-ethereum/core/types"
	"github.com/ethereum/go-ethereum/params"
	"pgregory.net/rapid"
	"verif.local/kit/reffee"
	vs "verif.local/kit/stat"
)

func c35u(v uint64) *big.Int { return new(big.Int).SetUint64(v) }

// c35World is a chain configuration with a drawn fork timeline and blob schedule,
// together with the harness's own view of it (times and entries per fork).
type c35World struct {
	cfg     *params.ChainConfig
	names   []string // cancun, prague, osaka, bpo1..bpo5 (active prefix)
	times   []uint64
	entries []*reffee.BlobSchedule // nil for osaka (no schedule entry of its own)
}

var c35ForkNames = []string{"cancun", "prague", "osaka", "bpo1", "bpo2", "bpo3", "bpo4", "bpo5"}

var c35DefaultSched = map[string]reffee.BlobSchedule{
	"cancun": {Target: 3, Max: 6, UpdateFraction: 3338477},  // EIP-4844
	"prague": {Target: 6, Max: 9, UpdateFraction: 5007716},  // EIP-7691
	"bpo1":   {Target: 10, Max: 15, UpdateFraction: 8346193}, // EIP-7892 schedule
	"bpo2":   {Target: 14, Max: 21, UpdateFraction: 11684671},
	"bpo3":   {Target: 21, Max: 32, UpdateFraction: 20609697},
	"bpo4":   {Target: 14, Max: 21, UpdateFraction: 13739630},
	"bpo5":   {Target: 48, Max: 72, UpdateFraction: 40000000},
}

func c35GenSched(rt *rapid.T, name string) reffee.BlobSchedule {
	if rapid.IntRange(0, 2).Draw(rt, name+"custom") != 0 {
		return c35DefaultSched[name]
	}
	max := int64(rapid.IntRange(1, 64).Draw(rt, name+"max"))
	target := int64(rapid.IntRange(0, int(max)).Draw(rt, name+"target"))
	frac := rapid.SampledFrom([]int64{1, 2, 3, 1000, 131072, 3338477, 5007716, 1 << 32, 1 << 40}).Draw(rt, name+"frac")
	// keep target/fraction moderate so that the fee at "excess around the target" stays computable (e^ratio)
	if tg := target * reffee.GasPerBlob; tg > 300*frac {
		frac = tg / int64(rapid.IntRange(1, 300).Draw(rt, name+"fracdiv"))
	}
	return reffee.BlobSchedule{Target: target, Max: max, UpdateFraction: frac}
}

func c35GenWorld(rt *rapid.T) *c35World {
	w := &c35World{}
	n := rapid.IntRange(1, len(c35ForkNames)).Draw(rt, "nforks")
	cfg := *params.MergedTestChainConfig
	cfg.LondonBlock = big.NewInt(0)
	cfg.ShanghaiTime = new(uint64)
	cfg.CancunTime, cfg.PragueTime, cfg.OsakaTime = nil, nil, nil
	cfg.BPO1Time, cfg.BPO2Time, cfg.BPO3Time, cfg.BPO4Time, cfg.BPO5Time = nil, nil, nil, nil, nil
	cfg.AmsterdamTime = nil
	cfg.BlobScheduleConfig = &params.BlobScheduleConfig{}
	t := uint64(rapid.IntRange(0, 3).Draw(rt, "t0"))
	for i := 0; i < n; i++ {
		name := c35ForkNames[i]
		if i > 0 {
			t += uint64(rapid.SampledFrom([]int{0, 1, 2, 10, 1000}).Draw(rt, name+"dt"))
		}
		tt := t
		w.names = append(w.names, name)
		w.times = append(w.times, tt)
		var entry *reffee.BlobSchedule
		if name != "osaka" {
			s := c35GenSched(rt, name)
			entry = &s
		}
		w.entries = append(w.entries, entry)
		var pc *params.BlobConfig
		if entry != nil {
			pc = &params.BlobConfig{Target: int(entry.Target), Max: int(entry.Max), UpdateFraction: uint64(entry.UpdateFraction)}
		}
		switch name {
		case "cancun":
			cfg.CancunTime, cfg.BlobScheduleConfig.Cancun = &tt, pc
		case "prague":
			cfg.PragueTime, cfg.BlobScheduleConfig.Prague = &tt, pc
		case "osaka":
			cfg.OsakaTime = &tt
		case "bpo1":
			cfg.BPO1Time, cfg.BlobScheduleConfig.BPO1 = &tt, pc
		case "bpo2":
			cfg.BPO2Time, cfg.BlobScheduleConfig.BPO2 = &tt, pc
		case "bpo3":
			cfg.BPO3Time, cfg.BlobScheduleConfig.BPO3 = &tt, pc
		case "bpo4":
			cfg.BPO4Time, cfg.BlobScheduleConfig.BPO4 = &tt, pc
		case "bpo5":
			cfg.BPO5Time, cfg.BlobScheduleConfig.BPO5 = &tt, pc
		}
	}
	w.cfg = &cfg
	return w
}

// at returns the schedule in force at time ts (the entry of the latest active fork
// that has one), whether EIP-7918 (Osaka) is active, and the name of the latest fork.
func (w *c35World) at(ts uint64) (reffee.BlobSchedule, bool, string) {
	var s reffee.BlobSchedule
	osaka := false
	latest := ""
	for i, name := range w.names {
		if w.times[i] <= ts {
			latest = name
			if w.entries[i] != nil {
				s = *w.entries[i]
			}
			if name == "osaka" {
				osaka = true
			}
		}
	}
	return s, osaka, latest
}

// genTime draws a timestamp >= Cancun activation, biased to fork boundaries.
func (w *c35World) genTime(rt *rapid.T, label string) uint64 {
	var cands []uint64
	for _, t := range w.times {
		for _, d := range []int64{-1, 0, 1} {
			v := int64(t) + d
			if v >= int64(w.times[0]) {
				cands = append(cands, uint64(v))
			}
		}
	}
	last := w.times[len(w.times)-1]
	cands = append(cands, last+1000, ^uint64(0))
	if rapid.IntRange(0, 4).Draw(rt, label+"rnd") == 0 {
		return rapid.Uint64Range(w.times[0], last+5).Draw(rt, label)
	}
	return rapid.SampledFrom(cands).Draw(rt, label)
}

// c35GenExcess draws an excess blob gas value whose ratio to the update fraction is
// bounded (the blob fee is e^(excess/fraction): the specification's loop needs about
// 2.7*ratio iterations, so the ratio is kept <= 700).
func c35GenExcess(rt *rapid.T, s reffee.BlobSchedule, label string) uint64 {
	frac := uint64(s.UpdateFraction)
	v := c35GenExcessRaw(rt, s, label)
	if v > 700*frac {
		v = 700 * frac
	}
	return v
}

func c35GenExcessRaw(rt *rapid.T, s reffee.BlobSchedule, label string) uint64 {
	frac := uint64(s.UpdateFraction)
	switch rapid.IntRange(0, 7).Draw(rt, label+"kind") {
	case 0:
		return 0
	case 1: // around the target
		tg := uint64(s.Target) * reffee.GasPerBlob
		d := uint64(rapid.IntRange(0, 2).Draw(rt, label+"d"))
		if tg+d >= 1 {
			return tg + d - 1
		}
		return 0
	case 2: // multiples of GAS_PER_BLOB
		return uint64(rapid.IntRange(0, 400).Draw(rt, label+"blobs")) * reffee.GasPerBlob
	case 3: // below one fraction
		return rapid.Uint64Range(0, frac).Draw(rt, label)
	case 4, 5: // moderate
		return rapid.Uint64Range(0, 30*frac).Draw(rt, label)
	case 6:
		return rapid.Uint64Range(30*frac, 200*frac).Draw(rt, label)
	default:
		return rapid.Uint64Range(200*frac, 700*frac).Draw(rt, label)
	}
}

func c35GenUsedBlobGas(rt *rapid.T, s reffee.BlobSchedule, label string) (uint64, string) {
	switch rapid.IntRange(0, 7).Draw(rt, label+"kind") {
	case 0:
		return 0, "used=0"
	case 1:
		return uint64(s.Max) * reffee.GasPerBlob, "used=max"
	case 2:
		return uint64(s.Target) * reffee.GasPerBlob, "used=target"
	case 3:
		return uint64(s.Max+1) * reffee.GasPerBlob, "used=max+1"
	case 4:
		return uint64(rapid.IntRange(0, int(s.Max)).Draw(rt, label+"blobs"))*reffee.GasPerBlob + uint64(rapid.IntRange(1, reffee.GasPerBlob-1).Draw(rt, label+"odd")), "used=non-multiple"
	case 5:
		return rapid.Uint64Range(0, 1<<40).Draw(rt, label), "used=random"
	default:
		return uint64(rapid.IntRange(0, int(s.Max)).Draw(rt, label+"blobs")) * reffee.GasPerBlob, "used=valid"
	}
}

var c35BaseFees = []string{"0", "1", "7", "8", "15", "16", "17", "1000000000", "30000000000", "18446744073709551615", "18446744073709551616",
	"1606938044258990275541962092341162602522202993782792835301376"}

// TestVerifC35FakeExponential: the Taylor-series approximation equals the EIP-4844 pseudo code.
func TestVerifC35FakeExponential(t *testing.T) {
	st := vs.New("C35", t)
	vs.Check(t, 0.5, func(rt *rapid.T) {
		c := st.Case()
		factor, _ := new(big.Int).SetString(rapid.SampledFrom([]string{"1", "1", "2", "3", "1000000000", "18446744073709551616", "0"}).Draw(rt, "factor"), 10)
		denom := rapid.SampledFrom([]uint64{1, 2, 3, 7, 1000, 3338477, 5007716, 8346193, 1 << 32, 1<<40 + 1}).Draw(rt, "denom")
		if rapid.IntRange(0, 3).Draw(rt, "denomrnd") == 0 {
			denom = rapid.Uint64Range(1, 1<<40).Draw(rt, "denomv")
		}
		var num uint64
		cls := ""
		switch rapid.IntRange(0, 5).Draw(rt, "numkind") {
		case 0:
			num, cls = 0, "ratio=0"
		case 1:
			num, cls = rapid.Uint64Range(0, denom).Draw(rt, "num"), "ratio<1"
		case 2, 3:
			num, cls = rapid.Uint64Range(denom, 40*denom).Draw(rt, "num"), "ratio<40"
		case 4:
			num, cls = rapid.Uint64Range(40*denom, 300*denom).Draw(rt, "num"), "ratio<300"
		default:
			num, cls = rapid.Uint64Range(300*denom, 700*denom).Draw(rt, "num"), "ratio<700"
		}
		f0, n0, d0 := new(big.Int).Set(factor), c35u(num), c35u(denom)
		got := fakeExponential(f0, n0, d0)
		want := reffee.FakeExponential(factor, c35u(num), c35u(denom))
		if got.Cmp(want) != 0 {
			rt.Fatalf("fakeExponential(%v, %d, %d) = %v, EIP-4844 fake_exponential = %v", factor, num, denom, got, want)
		}
		if f0.Cmp(factor) != 0 || n0.Cmp(c35u(num)) != 0 || d0.Cmp(c35u(denom)) != 0 {
			rt.Fatalf("fakeExponential modified its arguments")
		}
		c.Class(cls)
		c.NonTrivial(num > 0 && factor.Sign() > 0, fmt.Sprintf("%v/%d/%d", factor, num, denom))
		c.Sample(num > 0, func() any {
			return map[string]any{"factor": factor.String(), "numerator": num, "denominator": denom, "bits": got.BitLen()}
		})
	})
}

// TestVerifC35Blob: CalcExcessBlobGas, CalcBlobFee and VerifyEIP4844Header against the
// EIP-4844/7691/7840/7918 formulas across drawn fork timelines and blob schedules.
func TestVerifC35Blob(t *testing.T) {
	st := vs.New("C35", t)
	vs.Check(t, 1, func(rt *rapid.T) {
		c := st.Case()
		w := c35GenWorld(rt)
		headTime := w.genTime(rt, "headtime")
		sched, osaka, latest := w.at(headTime)
		// parent
		parent := &types.Header{Number: big.NewInt(int64(rapid.IntRange(0, 1000).Draw(rt, "pnum"))), Time: headTime}
		if parent.Time > 0 && rapid.Bool().Draw(rt, "ptimeEarlier") {
			parent.Time--
		}
		parentHasBlobFields := rapid.IntRange(0, 9).Draw(rt, "pfields") != 0
		var pExcess, pUsed uint64
		usedClass := "parent-preCancun"
		if parentHasBlobFields {
			pExcess = c35GenExcess(rt, sched, "pexcess")
			pUsed, usedClass = c35GenUsedBlobGas(rt, sched, "pused")
			parent.ExcessBlobGas, parent.BlobGasUsed = &pExcess, &pUsed
		}
		var pBaseFee *big.Int
		bfClass := ""
		if osaka && rapid.IntRange(0, 2).Draw(rt, "bfboundary") == 0 {
			// reserve-price boundary: BLOB_BASE_COST*baseFee > GAS_PER_BLOB*blobFee <=> baseFee > 16*blobFee
			fee := reffee.BlobBaseFee(c35u(pExcess), sched)
			pBaseFee = fee.Mul(fee, big.NewInt(16))
			d := int64(rapid.IntRange(-1, 1).Draw(rt, "bfd"))
			pBaseFee.Add(pBaseFee, big.NewInt(d))
			if pBaseFee.Sign() < 0 {
				pBaseFee.SetInt64(0)
			}
			bfClass = fmt.Sprintf("reserve-boundary%+d", d)
		} else {
			pBaseFee, _ = new(big.Int).SetString(rapid.SampledFrom(c35BaseFees).Draw(rt, "pbasefee"), 10)
		}
		parent.BaseFee = new(big.Int).Set(pBaseFee)

		// --- CalcExcessBlobGas
		got := CalcExcessBlobGas(w.cfg, parent, headTime)
		want := reffee.ExcessBlobGas(c35u(pExcess), c35u(pUsed), pBaseFee, sched, osaka)
		if !want.IsUint64() {
			rt.Fatalf("VERIF-HARNESS-BUG: generated inputs overflow 64 bits in the specification (excess=%d used=%d)", pExcess, pUsed)
		}
		if got != want.Uint64() {
			rt.Fatalf("CalcExcessBlobGas(fork=%s osaka=%v schedule=%+v, parent{excess=%d used=%d baseFee=%v fields=%v}, time=%d) = %d, specification = %v",
				latest, osaka, sched, pExcess, pUsed, pBaseFee, parentHasBlobFields, headTime, got, want)
		}
		reserve := osaka && reffee.ReserveBranch(c35u(pExcess), c35u(pUsed), pBaseFee, sched)
		targetGas := uint64(sched.Target) * reffee.GasPerBlob
		sum := pExcess + pUsed
		atTarget := sum+1 == targetGas || sum == targetGas || sum == targetGas+1

		// --- CalcBlobFee on a header carrying some excess
		hExcessForFee := c35GenExcess(rt, sched, "feeexcess")
		feeHeader := &types.Header{Number: big.NewInt(1), Time: headTime, ExcessBlobGas: &hExcessForFee}
		gotFee := CalcBlobFee(w.cfg, feeHeader)
		wantFee := reffee.BlobBaseFee(c35u(hExcessForFee), sched)
		if gotFee.Cmp(wantFee) != 0 {
			rt.Fatalf("CalcBlobFee(fork=%s schedule=%+v, excess=%d) = %v, specification = %v", latest, sched, hExcessForFee, gotFee, wantFee)
		}
		if gotFee.Sign() <= 0 {
			rt.Fatalf("blob base fee %v below MIN_BASE_FEE_PER_BLOB_GAS", gotFee)
		}

		// --- VerifyEIP4844Header
		header := &types.Header{Number: new(big.Int).Add(parent.Number, big.NewInt(1)), Time: headTime}
		var hExcess, hUsed *uint64
		exClass := ""
		switch rapid.IntRange(0, 7).Draw(rt, "hexkind") {
		case 0:
			exClass = "hexcess=nil"
		case 1:
			v := got + 1
			hExcess, exClass = &v, "hexcess=+1"
		case 2:
			v := got - 1
			if got == 0 {
				v = 1
			}
			hExcess, exClass = &v, "hexcess=-1"
		case 3:
			v := pExcess + pUsed // the pre-target sum, a plausible slip
			hExcess, exClass = &v, "hexcess=sum"
		default:
			v := got
			hExcess, exClass = &v, "hexcess=ok"
		}
		hu, huClass := c35GenUsedBlobGas(rt, sched, "hused")
		if rapid.IntRange(0, 11).Draw(rt, "husednil") == 0 {
			huClass = "used=nil"
		} else {
			hUsed = &hu
		}
		header.ExcessBlobGas, header.BlobGasUsed = hExcess, hUsed
		err := VerifyEIP4844Header(w.cfg, parent, header)
		var he, hu2 *big.Int
		if hExcess != nil {
			he = c35u(*hExcess)
		}
		if hUsed != nil {
			hu2 = c35u(*hUsed)
		}
		wantOK := reffee.BlobHeaderOK(he, hu2, want, sched)
		if (err == nil) != wantOK {
			rt.Fatalf("VerifyEIP4844Header(fork=%s schedule=%+v, parent{excess=%d used=%d baseFee=%v}, header{excess=%v used=%v}) = %v; specification validity = %v (expected excess %v)",
				latest, sched, pExcess, pUsed, pBaseFee, he, hu2, err, wantOK, want)
		}

		branch := "excess=0"
		switch {
		case reserve:
			branch = "reserve-price"
		case got != 0 || sum >= targetGas:
			branch = "4844-formula"
		}
		c.Classf("fork=%s", latest)
		c.Classf("branch=%s", branch)
		c.Classf("header:%s %s valid=%v", exClass, huClass, wantOK)
		if bfClass != "" {
			c.Class(bfClass)
		}
		c.Class("parent:" + usedClass)
		nt := atTarget || reserve || bfClass != ""
		c.NonTrivial(nt, fmt.Sprintf("%v/%v/%d/%+v/%d/%d/%v/%v/%v", w.names, w.times, headTime, sched, pExcess, pUsed, pBaseFee, he, hu2))
		c.Sample(nt, func() any {
			return map[string]any{"forks": w.names, "times": w.times, "headTime": headTime, "schedule": fmt.Sprintf("%+v", sched), "osaka": osaka,
				"parentExcess": pExcess, "parentUsed": pUsed, "parentBaseFee": pBaseFee.String(), "excess": got, "branch": branch, "headerValid": wantOK}
		})
	})
}
