//go:build verif

package discover

// C46 — the node table maintains Kademlia and IP-diversity invariants.
//
// A rapid state machine drives a Table whose main loop is not running (the actions
// call the same handlers the loop would call, in one goroutine): found/inbound adds,
// endpoint updates of known ids, removals, findnode tracking, and the real
// revalidation flow (tableRevalidation.run -> ping through a scripted transport ->
// handleResponse, with responses that may be delivered late). After every action the
// table is compared against reference computations written here from the statement:
// own log-distance / XOR order / subnet / LAN definitions, no geth helper is used in an
// oracle. All randomness (node ids, the table's replacement choice) comes from rapid.

import (
	"bytes"
	"flag"
	"fmt"
	"math/bits"
	mrand "math/rand"
	"net/netip"
	"sort"
	"strconv"
	"strings"
	"sync"
	"testing"
	"time"

	"github.com/ethereum/go-ethereum/common/mclock"
	"github.com/ethereum/go-ethereum/p2p/enode"
	"github.com/ethereum/go-ethereum/p2p/enr"
	"pgregory.net/rapid"
	vs "verif.local/kit/stat"
)

// ---- reference definitions ----------------------------------------------------------

const (
	c46BucketSize      = 16
	c46MaxReplacements = 10
	c46BucketIPLimit   = 2
	c46TableIPLimit    = 10
	c46NumBuckets      = 17  // 256/15
	c46FirstOwnDist    = 241 // bucket i>0 holds exactly log-distance 240+i; bucket 0 everything closer
)

// c46LogDist is the logarithmic XOR distance: bit length of a^b.
func c46LogDist(a, b enode.ID) int {
	for i := range a {
		if x := a[i] ^ b[i]; x != 0 {
			return (len(a)-i)*8 - bits.LeadingZeros8(x)
		}
	}
	return 0
}

func c46BucketIndex(dist int) int {
	if dist < c46FirstOwnDist {
		return 0
	}
	return dist - (c46FirstOwnDist - 1)
}

// c46DistLess orders ids by XOR distance to target (big-endian comparison of id^target).
func c46DistLess(target, a, b enode.ID) bool {
	for i := range target {
		da, db := a[i]^target[i], b[i]^target[i]
		if da != db {
			return da < db
		}
	}
	return false
}

func c46Prefixes(ps ...string) (out []netip.Prefix) {
	for _, p := range ps {
		out = append(out, netip.MustParsePrefix(p))
	}
	return out
}

var (
	c46LAN4 = c46Prefixes("10.0.0.0/8", "172.16.0.0/12", "192.168.0.0/16", "127.0.0.0/8", "169.254.0.0/16")
	c46LAN6 = c46Prefixes("::1/128", "fc00::/7", "fe80::/10")
)

// c46IsLAN: loopback, RFC1918/ULA private and link-local addresses are exempt from limits.
func c46IsLAN(ip netip.Addr) bool {
	list := c46LAN6
	if ip.Is4() {
		list = c46LAN4
	}
	for _, p := range list {
		if p.Contains(ip) {
			return true
		}
	}
	return false
}

// c46Subnet is the /24 the limits are counted in (first 24 bits of the address).
func c46Subnet(ip netip.Addr) string {
	if ip.Is4() {
		b := ip.As4()
		return fmt.Sprintf("%d.%d.%d.0/24", b[0], b[1], b[2])
	}
	b := ip.As16()
	return fmt.Sprintf("%02x%02x:%02x00::/24", b[0], b[1], b[2])
}

// ---- scripted transport ---------------------------------------------------------------

type c46Transport struct {
	self    *enode.Node
	mu      sync.Mutex
	dead    map[enode.ID]bool
	records map[enode.ID]*enode.Node
}

func (t *c46Transport) Self() *enode.Node           { return t.self }
func (t *c46Transport) lookupSelf() []*enode.Node   { return nil }
func (t *c46Transport) lookupRandom() []*enode.Node { return nil }
func (t *c46Transport) ping(n *enode.Node) (uint64, error) {
	t.mu.Lock()
	defer t.mu.Unlock()
	if t.dead[n.ID()] {
		return 0, errTimeout
	}
	if r := t.records[n.ID()]; r != nil {
		return r.Seq(), nil
	}
	return n.Seq(), nil
}
func (t *c46Transport) RequestENR(n *enode.Node) (*enode.Node, error) {
	t.mu.Lock()
	defer t.mu.Unlock()
	if r := t.records[n.ID()]; r != nil && !t.dead[n.ID()] {
		return r, nil
	}
	return nil, errTimeout
}

// ---- world ----------------------------------------------------------------------------

var c46IPPool = []string{
	// three public /24s, several hosts each
	"51.15.7.1", "51.15.7.2", "51.15.7.3", "51.15.7.4", "51.15.7.5", "51.15.7.6", "51.15.7.7", "51.15.7.8", "51.15.7.9", "51.15.7.10", "51.15.7.11", "51.15.7.12",
	"51.15.8.1", "51.15.8.2", "51.15.8.3", "51.15.8.4",
	"88.99.1.1", "88.99.1.2", "88.99.1.3",
	// same /16, different /24 (one host each)
	"88.99.2.1", "88.99.3.1", "88.99.4.1", "88.99.5.1",
	// IPv6: two /64s inside one /24, one elsewhere
	"2a01:4f8:1:2::1", "2a01:4f8:1:2::2", "2a01:4f8:1:2::3", "2a01:4f8:1:3::1", "2a01:4f8:1:3::2", "2600:1f18::1",
	// LAN / loopback / link-local (exempt)
	"10.0.0.1", "10.0.0.2", "10.0.0.3", "10.0.0.4", "192.168.1.1", "192.168.1.2", "172.16.5.5", "127.0.0.1", "169.254.1.1", "fe80::1", "fd00::1", "::1",
	// special
	"0.0.0.0", "224.0.0.1", "255.255.255.255", "192.0.2.5", "::",
	"", // record without any IP
}

type c46World struct {
	tab     *Table
	db      *enode.DB
	tr      *c46Transport
	clock   *mclock.Simulated
	self    enode.ID
	pool    []enode.ID
	seq     map[enode.ID]uint64
	pending []revalidationResponse
	stale   []*tableNode // pointers to nodes seen in the table earlier (may have been removed since)
	initOK  bool

	// per-machine observations for the non-trivial rule
	ipRefused, diverted, promoted, findChecks, actions int
	trace                                              []string
}

func (w *c46World) logf(format string, a ...any) {
	if len(w.trace) < 400 {
		w.trace = append(w.trace, fmt.Sprintf(format, a...))
	}
}

// c46IDAtDistance returns self ^ x where x has bit length d (drawn low bits).
func c46IDAtDistance(self enode.ID, d int, fill []byte) enode.ID {
	if d == 0 {
		return self
	}
	var x enode.ID
	copy(x[:], fill)
	top := d - 1 // index of the highest set bit, 0 = least significant
	for k := 255; k > top; k-- {
		x[31-k/8] &^= 1 << (k % 8)
	}
	x[31-top/8] |= 1 << (top % 8)
	var id enode.ID
	for i := range id {
		id[i] = self[i] ^ x[i]
	}
	return id
}

var c46Distances = []int{256, 256, 256, 256, 256, 256, 256, 255, 255, 255, 254, 254, 253, 250, 245, 242, 241, 240, 239, 238, 200, 9, 1}

func c46NewWorld(rt *rapid.T) *c46World {
	w := &c46World{seq: map[enode.ID]uint64{}}
	copy(w.self[:], rapid.SliceOfN(rapid.Byte(), 32, 32).Draw(rt, "self"))
	var r enr.Record
	r.Set(enr.IPv4Addr(netip.MustParseAddr("51.15.7.200")))
	r.Set(enr.UDP(30303))
	w.tr = &c46Transport{self: enode.SignNull(&r, w.self), dead: map[enode.ID]bool{}, records: map[enode.ID]*enode.Node{}}
	w.clock = new(mclock.Simulated)
	w.tab, w.db = newInactiveTestTable(w.tr, Config{Clock: w.clock})
	if w.tab == nil {
		rt.Fatalf("VERIF-HARNESS-BUG: newTable failed")
	}
	// the table's own randomness (replacement choice, revalidation picks) becomes a function of the drawn seed
	w.tab.rand.mu.Lock()
	w.tab.rand.cur = mrand.New(mrand.NewSource(rapid.Int64().Draw(rt, "tabseed")))
	w.tab.rand.mu.Unlock()
	if w.initOK = rapid.IntRange(0, 9).Draw(rt, "initDone") != 0; w.initOK {
		close(w.tab.initDone)
	}
	n := rapid.IntRange(20, 70).Draw(rt, "poolsize")
	focus := rapid.SampledFrom([]int{256, 256, 255, 254, 0}).Draw(rt, "focus") // 0 = no focus
	for i := 0; i < n; i++ {
		d := rapid.SampledFrom(c46Distances).Draw(rt, "dist")
		if focus != 0 && rapid.IntRange(0, 2).Draw(rt, "focused") != 0 {
			d = focus
		}
		id := c46IDAtDistance(w.self, d, rapid.SliceOfN(rapid.Byte(), 32, 32).Draw(rt, "idfill"))
		w.pool = append(w.pool, id)
	}
	return w
}

func (w *c46World) close() {
	select {
	case <-w.tab.closed:
	default:
		close(w.tab.closed) // releases revalidation goroutines still waiting to report
	}
	w.db.Close()
}

func (w *c46World) drawID(rt *rapid.T) enode.ID {
	switch k := rapid.IntRange(0, 19).Draw(rt, "idkind"); {
	case k == 0:
		return w.self
	case k == 1:
		d := rapid.SampledFrom(c46Distances).Draw(rt, "dist")
		return c46IDAtDistance(w.self, d, rapid.SliceOfN(rapid.Byte(), 32, 32).Draw(rt, "idfill"))
	default:
		return w.pool[rapid.IntRange(0, len(w.pool)-1).Draw(rt, "poolidx")]
	}
}

func (w *c46World) drawIP(rt *rapid.T) netip.Addr {
	var s string
	switch k := rapid.IntRange(0, 19).Draw(rt, "ipkind"); {
	case k <= 2:
		s = c46IPPool[rapid.IntRange(0, 11).Draw(rt, "ipA")] // the crowded /24
	case k <= 5:
		s = c46IPPool[rapid.IntRange(12, 28).Draw(rt, "ipB")] // other public, few hosts per /24
	case k <= 11:
		// exempt addresses let buckets fill up completely
		s = fmt.Sprintf("10.%d.%d.%d", rapid.IntRange(0, 3).Draw(rt, "lanA"), rapid.IntRange(0, 3).Draw(rt, "lanB"), rapid.IntRange(1, 40).Draw(rt, "lanC"))
	case k <= 17:
		// one host per public /24: only capacity limits apply
		s = fmt.Sprintf("100.%d.%d.1", rapid.IntRange(64, 127).Draw(rt, "pubA"), rapid.IntRange(0, 255).Draw(rt, "pubB"))
	default:
		s = c46IPPool[rapid.IntRange(0, len(c46IPPool)-1).Draw(rt, "ipAny")]
	}
	if s == "" {
		return netip.Addr{}
	}
	return netip.MustParseAddr(s)
}

func (w *c46World) makeNode(id enode.ID, ip netip.Addr, udp int, seq uint64) *enode.Node {
	var r enr.Record
	if ip.IsValid() {
		if ip.Is4() {
			r.Set(enr.IPv4Addr(ip))
		} else {
			r.Set(enr.IPv6Addr(ip))
		}
	}
	if udp != 0 {
		r.Set(enr.UDP(udp))
	}
	r.SetSeq(seq)
	return enode.SignNull(&r, id)
}

func (w *c46World) drawNode(rt *rapid.T) *enode.Node {
	id := w.drawID(rt)
	seq := w.seq[id] + uint64(rapid.SampledFrom([]int{0, 0, 1, 1, 5}).Draw(rt, "seqbump"))
	if rapid.IntRange(0, 9).Draw(rt, "seqzero") == 0 {
		seq = 0
	}
	if seq > w.seq[id] {
		w.seq[id] = seq
	}
	return w.makeNode(id, w.drawIP(rt), rapid.SampledFrom([]int{30303, 30303, 30304, 0}).Draw(rt, "udp"), seq)
}

// ---- snapshot & invariants ---------------------------------------------------------------

type c46Snap struct {
	entries      [c46NumBuckets][]*tableNode
	replacements [c46NumBuckets][]*tableNode
	where        map[enode.ID]string // "e<bucket>" or "r<bucket>"
	bucketCount  [c46NumBuckets]map[string]int
	tableCount   map[string]int
}

func (w *c46World) snap() *c46Snap {
	s := &c46Snap{where: map[enode.ID]string{}, tableCount: map[string]int{}}
	w.tab.mutex.Lock()
	defer w.tab.mutex.Unlock()
	for i, b := range &w.tab.buckets {
		s.entries[i] = append([]*tableNode{}, b.entries...)
		s.replacements[i] = append([]*tableNode{}, b.replacements...)
		s.bucketCount[i] = map[string]int{}
	}
	return s
}

func c46Fmt(n *enode.Node) string {
	return fmt.Sprintf("%x@%v:%d#%d", n.ID().Bytes()[:4], n.IPAddr(), n.UDP(), n.Seq())
}

// check evaluates every invariant of the statement on the current table.
func (w *c46World) check(rt *rapid.T) *c46Snap {
	tab := w.tab
	if len(tab.buckets) != c46NumBuckets {
		rt.Fatalf("table has %d buckets, reference expects %d", len(tab.buckets), c46NumBuckets)
	}
	s := w.snap()
	total := 0
	for i := 0; i < c46NumBuckets; i++ {
		if len(s.entries[i]) > c46BucketSize {
			rt.Fatalf("bucket %d holds %d entries (capacity %d)", i, len(s.entries[i]), c46BucketSize)
		}
		if len(s.replacements[i]) > c46MaxReplacements {
			rt.Fatalf("bucket %d holds %d replacements (cap %d)", i, len(s.replacements[i]), c46MaxReplacements)
		}
		total += len(s.entries[i])
		for kind, list := range [][]*tableNode{s.entries[i], s.replacements[i]} {
			tag := fmt.Sprintf("%c%d", "er"[kind], i)
			for _, n := range list {
				if n == nil || n.Node == nil {
					rt.Fatalf("nil node in %s", tag)
				}
				id := n.ID()
				if id == w.self {
					rt.Fatalf("the local node is in the table (%s)", tag)
				}
				if prev, dup := s.where[id]; dup {
					rt.Fatalf("node %s appears twice in the table: %s and %s", c46Fmt(n.Node), prev, tag)
				}
				s.where[id] = tag
				if d := c46LogDist(w.self, id); c46BucketIndex(d) != i {
					rt.Fatalf("node %s at log-distance %d sits in bucket %d, belongs to bucket %d", c46Fmt(n.Node), d, i, c46BucketIndex(d))
				}
				ip := n.IPAddr()
				if !ip.IsValid() || ip.IsUnspecified() {
					rt.Fatalf("node %s without a usable IP address is in the table (%s)", c46Fmt(n.Node), tag)
				}
				if !c46IsLAN(ip) {
					k := c46Subnet(ip)
					s.bucketCount[i][k]++
					s.tableCount[k]++
				}
			}
		}
		for k, c := range s.bucketCount[i] {
			if c > c46BucketIPLimit {
				rt.Fatalf("bucket %d has %d nodes (entries+replacements) in %s, limit %d", i, c, k, c46BucketIPLimit)
			}
		}
	}
	for k, c := range s.tableCount {
		if c > c46TableIPLimit {
			rt.Fatalf("table has %d nodes (entries+replacements) in %s, limit %d", c, k, c46TableIPLimit)
		}
	}
	// the table's own counters must describe the same multiset (white-box)
	// DistinctNetSet keeps its members private; its String() is "{prefix×count prefix×count}".
	conv := func(set fmt.Stringer) map[string]int {
		out := map[string]int{}
		for _, f := range strings.Fields(strings.Trim(set.String(), "{}")) {
			ps, cs, ok := strings.Cut(f, "×")
			p, err := netip.ParsePrefix(ps)
			c, err2 := strconv.Atoi(cs)
			if !ok || err != nil || err2 != nil {
				rt.Fatalf("VERIF-HARNESS-BUG: cannot parse DistinctNetSet element %q", f)
			}
			out[c46Subnet(p.Addr())] += c
		}
		return out
	}
	eq := func(a, b map[string]int) bool {
		if len(a) != len(b) {
			return false
		}
		for k, v := range a {
			if b[k] != v {
				return false
			}
		}
		return true
	}
	if have := conv(tab.ips); !eq(have, s.tableCount) {
		rt.Fatalf("table-wide IP counters %v differ from the nodes actually present %v", have, s.tableCount)
	}
	for i, b := range &tab.buckets {
		if have := conv(b.ips); !eq(have, s.bucketCount[i]) {
			rt.Fatalf("bucket %d IP counters %v differ from the nodes actually present %v", i, have, s.bucketCount[i])
		}
	}
	if tab.len() != total {
		rt.Fatalf("tab.len() = %d, buckets hold %d entries", tab.len(), total)
	}
	// Nodes() snapshot
	nodes := tab.Nodes()
	if len(nodes) != c46NumBuckets {
		rt.Fatalf("Nodes() returned %d buckets", len(nodes))
	}
	for i := range nodes {
		if len(nodes[i]) != len(s.entries[i]) {
			rt.Fatalf("Nodes()[%d] has %d nodes, bucket has %d", i, len(nodes[i]), len(s.entries[i]))
		}
		for j, bn := range nodes[i] {
			e := s.entries[i][j]
			if bn.Node != e.Node || bn.Live != e.isValidatedLive || bn.Checks != int(e.livenessChecks) {
				rt.Fatalf("Nodes()[%d][%d] = %s live=%v checks=%d, bucket entry is %s live=%v checks=%d", i, j,
					c46Fmt(bn.Node), bn.Live, bn.Checks, c46Fmt(e.Node), e.isValidatedLive, e.livenessChecks)
			}
		}
	}
	return s
}

func (w *c46World) refClosest(s *c46Snap, target enode.ID, n int, preferLive bool) []*enode.Node {
	var all, live []*enode.Node
	for i := range s.entries {
		for _, e := range s.entries[i] {
			all = append(all, e.Node)
			if e.isValidatedLive {
				live = append(live, e.Node)
			}
		}
	}
	set := all
	if preferLive && len(live) > 0 {
		set = live
	}
	sort.Slice(set, func(a, b int) bool { return c46DistLess(target, set[a].ID(), set[b].ID()) })
	if len(set) > n {
		set = set[:n]
	}
	return set
}

// ---- actions ----------------------------------------------------------------------------

func (w *c46World) remember(s *c46Snap, rt *rapid.T) {
	// keep a few pointers to nodes currently in the table; later they may be stale
	for i := range s.entries {
		for _, e := range s.entries[i] {
			if len(w.stale) < 12 && rapid.IntRange(0, 7).Draw(rt, "remember") == 0 {
				w.stale = append(w.stale, e)
			}
		}
	}
}

func (w *c46World) add(rt *rapid.T, inbound bool) {
	before := w.check(rt)
	n := w.drawNode(rt)
	forceLive := !inbound && rapid.IntRange(0, 2).Draw(rt, "forceLive") == 0
	id, ip := n.ID(), n.IPAddr()
	bi := c46BucketIndex(c46LogDist(w.self, id))
	_, known := before.where[id]
	usable := ip.IsValid() && !ip.IsUnspecified()
	fitsIP := usable && (c46IsLAN(ip) || (before.tableCount[c46Subnet(ip)] < c46TableIPLimit && before.bucketCount[bi][c46Subnet(ip)] < c46BucketIPLimit))
	hasSpace := len(before.entries[bi]) < c46BucketSize

	w.tab.mutex.Lock()
	ok := w.tab.handleAddNode(addNodeOp{node: n, isInbound: inbound, forceSetLive: forceLive})
	w.tab.mutex.Unlock()
	w.logf("add inbound=%v live=%v %s -> %v", inbound, forceLive, c46Fmt(n), ok)

	after := w.check(rt)
	loc, present := after.where[id]
	if id == w.self && (ok || present) {
		rt.Fatalf("adding the local node: returned %v, present=%v", ok, present)
	}
	blockedInbound := inbound && !w.initOK
	if blockedInbound && (ok || len(after.where) != len(before.where)) {
		rt.Fatalf("inbound node accepted before table initialisation finished")
	}
	if id != w.self && !known && !blockedInbound {
		switch {
		case hasSpace && fitsIP:
			// documented: "If the bucket has space available, adding the node succeeds immediately."
			if !present || loc[0] != 'e' {
				rt.Fatalf("node %s not added although bucket %d has %d/%d entries and its address fits the limits (returned %v)",
					c46Fmt(n), bi, len(before.entries[bi]), c46BucketSize, ok)
			}
		case usable && !fitsIP:
			w.ipRefused++ // refusal itself is enforced by the limit invariants in check()
		case !hasSpace && present && loc[0] == 'r':
			w.diverted++
		}
	}
	w.remember(after, rt)
}

func (w *c46World) actAddFound(rt *rapid.T) { w.add(rt, false) }

// actAddBurst adds several nodes in a row (a NEIGHBORS/NODES response worth of discoveries).
func (w *c46World) actAddBurst(rt *rapid.T) {
	k := rapid.IntRange(4, 24).Draw(rt, "burst")
	for i := 0; i < k; i++ {
		w.add(rt, rapid.IntRange(0, 5).Draw(rt, "burstInbound") == 0)
	}
}

func (w *c46World) actAddInbound(rt *rapid.T) { w.add(rt, true) }

func (w *c46World) actDelete(rt *rapid.T) {
	s := w.check(rt)
	id := w.drawID(rt)
	if rapid.Bool().Draw(rt, "existing") {
		// prefer a node that is in the table
		var ids []enode.ID
		for i := range s.entries {
			for _, e := range s.entries[i] {
				ids = append(ids, e.ID())
			}
		}
		if len(ids) > 0 {
			id = ids[rapid.IntRange(0, len(ids)-1).Draw(rt, "victim")]
		}
	}
	loc, had := s.where[id]
	bi := c46BucketIndex(c46LogDist(w.self, id))
	hadRepl := len(s.replacements[bi]) > 0
	w.tab.deleteNode(w.makeNode(id, netip.Addr{}, 0, 0))
	w.logf("delete %x (was %s)", id[:4], loc)
	after := w.check(rt)
	if had && loc[0] == 'e' {
		if l2, still := after.where[id]; still && l2[0] == 'e' {
			rt.Fatalf("node %x still a bucket entry after deleteNode", id[:4])
		}
		if hadRepl {
			w.promoted++
		}
	}
}

func (w *c46World) actTrack(rt *rapid.T) {
	w.check(rt)
	n := w.drawNode(rt)
	if !n.IPAddr().IsValid() {
		n = w.makeNode(n.ID(), netip.MustParseAddr("51.15.7.1"), 30303, n.Seq()) // requests are only sent to nodes with an endpoint
	}
	success := rapid.Bool().Draw(rt, "success")
	var found []*enode.Node
	if success {
		k := rapid.IntRange(1, 6).Draw(rt, "nfound")
		for i := 0; i < k; i++ {
			found = append(found, w.drawNode(rt))
		}
	}
	reps := 1
	if !success && rapid.Bool().Draw(rt, "repeatFail") {
		reps = rapid.IntRange(2, 6).Draw(rt, "fails") // reach maxFindnodeFailures
	}
	for i := 0; i < reps; i++ {
		w.tab.handleTrackRequest(trackRequestOp{node: n, foundNodes: found, success: success})
	}
	w.logf("track %s success=%v found=%d x%d", c46Fmt(n), success, len(found), reps)
}

func (w *c46World) actFind(rt *rapid.T) {
	s := w.check(rt)
	var target enode.ID
	switch rapid.IntRange(0, 4).Draw(rt, "targetkind") {
	case 0:
		target = w.self
	case 1, 2:
		target = w.drawID(rt)
	default:
		copy(target[:], rapid.SliceOfN(rapid.Byte(), 32, 32).Draw(rt, "target"))
	}
	n := rapid.SampledFrom([]int{0, 1, 2, 3, 15, 16, 17, 40, 300}).Draw(rt, "nresults")
	preferLive := rapid.Bool().Draw(rt, "preferLive")
	got := w.tab.findnodeByID(target, n, preferLive)
	want := w.refClosest(s, target, n, preferLive)
	if got.target != target {
		rt.Fatalf("findnodeByID result carries target %x, asked for %x", got.target[:4], target[:4])
	}
	if len(got.entries) != len(want) {
		rt.Fatalf("findnodeByID(%x, %d, live=%v) returned %d nodes, the table has %d qualifying -> want %d", target[:4], n, preferLive, len(got.entries), len(want), len(want))
	}
	for i := range want {
		if got.entries[i] != want[i] {
			rt.Fatalf("findnodeByID(%x, %d, live=%v): position %d is %s, the %d-th closest node of the table is %s", target[:4], n, preferLive, i,
				c46Fmt(got.entries[i]), i, c46Fmt(want[i]))
		}
	}
	w.findChecks++
}

// actRevalRun advances the clock and lets the real scheduler start revalidation requests;
// the scripted transport answers and the responses are parked in w.pending.
func (w *c46World) actRevalRun(rt *rapid.T) {
	w.check(rt)
	d := rapid.SampledFrom([]time.Duration{0, time.Millisecond, time.Second, 3 * time.Second, 10 * time.Second, time.Minute}).Draw(rt, "advance")
	w.clock.Run(d)
	tr := &w.tab.revalidation
	before := len(tr.activeReq)
	tr.run(w.tab, w.clock.Now())
	started := len(tr.activeReq) - before
	var got []revalidationResponse
	for i := 0; i < started; i++ {
		select {
		case r := <-w.tab.revalResponseCh:
			got = append(got, r)
		case <-time.After(2 * time.Minute):
			rt.Fatalf("VERIF-INCONCLUSIVE C46: revalidation goroutine did not report within 2 minutes")
		}
	}
	sort.Slice(got, func(a, b int) bool { return bytes.Compare(got[a].n.ID().Bytes(), got[b].n.ID().Bytes()) < 0 })
	w.pending = append(w.pending, got...)
	w.logf("reval run +%v started=%d", d, started)
}

func (w *c46World) deliver(rt *rapid.T, resp revalidationResponse, how string) {
	before := w.check(rt)
	n := resp.n
	id := n.ID()
	bi := c46BucketIndex(c46LogDist(w.self, id))
	loc, had := before.where[id]
	isCurrent := had && loc[0] == 'e' && n.revalList != nil
	willDrop := isCurrent && !resp.didRespond && n.livenessChecks/3 == 0
	replIDs := map[enode.ID]bool{}
	for _, r := range before.replacements[bi] {
		replIDs[r.ID()] = true
	}
	w.tab.revalidation.handleResponse(w.tab, resp)
	w.logf("reval %s %s responded=%v newrec=%v", how, c46Fmt(n.Node), resp.didRespond, resp.newRecord != nil)
	after := w.check(rt)
	if !isCurrent {
		// a response for a node that left the table must not bring it back
		if _, now := after.where[id]; now && !had {
			rt.Fatalf("late revalidation response re-added node %x", id[:4])
		}
		return
	}
	if willDrop {
		if l2, still := after.where[id]; still && l2[0] == 'e' {
			rt.Fatalf("node %x failed revalidation with no liveness credit left but is still a bucket entry", id[:4])
		}
		if len(replIDs) > 0 {
			promoted := false
			for _, e := range after.entries[bi] {
				if replIDs[e.ID()] {
					promoted = true
				}
			}
			if promoted {
				w.promoted++
			}
		}
	}
}

func (w *c46World) actRevalDeliver(rt *rapid.T) {
	if len(w.pending) == 0 {
		rt.Skip("no pending revalidation response")
	}
	i := rapid.IntRange(0, len(w.pending)-1).Draw(rt, "which")
	resp := w.pending[i]
	w.pending = append(w.pending[:i], w.pending[i+1:]...)
	w.deliver(rt, resp, "deliver")
}

// actRevalInject feeds a revalidation result for a node the harness picks (current entry or
// a stale pointer), as the loop would after a ping finished.
func (w *c46World) actRevalInject(rt *rapid.T) {
	s := w.check(rt)
	var cands []*tableNode
	for i := range s.entries {
		cands = append(cands, s.entries[i]...)
	}
	cands = append(cands, w.stale...)
	active := w.tab.revalidation.activeReq
	var ok []*tableNode
	for _, c := range cands {
		if _, busy := active[c.ID()]; !busy {
			ok = append(ok, c)
		}
	}
	if len(ok) == 0 {
		rt.Skip("no node to revalidate")
	}
	n := ok[rapid.IntRange(0, len(ok)-1).Draw(rt, "node")]
	resp := revalidationResponse{n: n, didRespond: rapid.IntRange(0, 2).Draw(rt, "responded") != 0}
	if resp.didRespond && rapid.IntRange(0, 2).Draw(rt, "newRecord") == 0 {
		id := n.ID()
		w.seq[id] += uint64(rapid.IntRange(1, 3).Draw(rt, "bump"))
		ip := n.IPAddr()
		if rapid.Bool().Draw(rt, "moveIP") {
			ip = w.drawIP(rt)
		}
		resp.newRecord = w.makeNode(id, ip, rapid.SampledFrom([]int{30303, 30305}).Draw(rt, "udp"), w.seq[id])
	}
	w.deliver(rt, resp, "inject")
}

func (w *c46World) actScript(rt *rapid.T) {
	id := w.drawID(rt)
	w.tr.mu.Lock()
	defer w.tr.mu.Unlock()
	switch rapid.IntRange(0, 2).Draw(rt, "script") {
	case 0:
		w.tr.dead[id] = true
	case 1:
		delete(w.tr.dead, id)
	default:
		w.seq[id] += uint64(rapid.IntRange(1, 3).Draw(rt, "bump"))
		w.tr.records[id] = w.makeNode(id, w.drawIP(rt), 30303, w.seq[id])
	}
}

// ---- the test ---------------------------------------------------------------------------

func TestVerifC46Machine(t *testing.T) {
	st := vs.New("C46", t)
	if f := flag.Lookup("rapid.steps"); f != nil {
		old := f.Value.String()
		f.Value.Set("60")
		defer f.Value.Set(old)
	}
	vs.Check(t, 1, func(rt *rapid.T) {
		c := st.Case()
		w := c46NewWorld(rt)
		defer w.close()
		count := func(f func(*rapid.T)) func(*rapid.T) {
			return func(rt *rapid.T) { f(rt); w.actions++ }
		}
		rt.Repeat(map[string]func(*rapid.T){
			"addFound1":     count(w.actAddFound),
			"addFound2":     count(w.actAddFound),
			"addFound3":     count(w.actAddFound),
			"addFound4":     count(w.actAddFound),
			"addBurst":      count(w.actAddBurst),
			"addInbound1":   count(w.actAddInbound),
			"addInbound2":   count(w.actAddInbound),
			"delete":        count(w.actDelete),
			"track":         count(w.actTrack),
			"find1":         count(w.actFind),
			"find2":         count(w.actFind),
			"revalRun":      count(w.actRevalRun),
			"revalDeliver":  count(w.actRevalDeliver),
			"revalInject1":  count(w.actRevalInject),
			"revalInject2":  count(w.actRevalInject),
			"scriptNetwork": count(w.actScript),
		})
		s := w.check(rt)
		full, withRepl, entries, replFull := 0, 0, 0, 0
		for i := range s.entries {
			entries += len(s.entries[i])
			if len(s.entries[i]) == c46BucketSize {
				full++
			}
			if len(s.replacements[i]) > 0 {
				withRepl++
			}
			if len(s.replacements[i]) == c46MaxReplacements {
				replFull++
			}
		}
		if w.ipRefused > 0 {
			c.Class("ip-limit-refused-an-insert")
		}
		if w.diverted > 0 {
			c.Class("full-bucket-diverted-to-replacements")
		}
		if w.promoted > 0 {
			c.Class("removal-promoted-a-replacement")
		}
		if full > 0 {
			c.Class("has-full-bucket")
		}
		if withRepl > 0 {
			c.Class("has-replacements")
		}
		if replFull > 0 {
			c.Class("has-full-replacement-list")
		}
		if !w.initOK {
			c.Class("table-not-initialised(inbound refused)")
		}
		c.Classf("entries~%d0", entries/10)
		nt := w.ipRefused > 0 || w.promoted > 0
		desc := fmt.Sprintf("self=%x actions=%d ipRefused=%d diverted=%d promoted=%d finds=%d entries=%d trace=%v", w.self[:6], w.actions, w.ipRefused, w.diverted, w.promoted, w.findChecks, entries, w.trace)
		c.NonTrivial(nt, desc)
		c.Sample(nt, func() any {
			tr := w.trace
			if len(tr) > 25 {
				tr = tr[:25]
			}
			return map[string]any{"self": fmt.Sprintf("%x", w.self[:6]), "actions": w.actions, "ip_refused": w.ipRefused, "diverted": w.diverted,
				"promoted": w.promoted, "find_checks": w.findChecks, "entries": entries, "first_actions": tr}
		})
	})
}
