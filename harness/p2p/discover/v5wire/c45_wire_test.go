//go:build verif

package v5wire

// Independent observer for C45: parses every honest packet on the wire following
// the discv5 wire specification with Go's AES/SHA-256 primitives, kit/refsecp and
// kit/refrlp only (no code of this package): header masking, auth data layouts,
// identity-proof signature, HKDF session keys, AES-GCM with the header as
// additional data, canonical RLP message bodies.

import (
	"bytes"
	"crypto/aes"
	"crypto/cipher"
	"crypto/ecdsa"
	"crypto/hmac"
	"crypto/sha256"
	"encoding/binary"
	"fmt"
	"math/big"
	"os"

	"github.com/ethereum/go-ethereum/crypto"
	"github.com/ethereum/go-ethereum/rlp"

	"verif.local/kit/refrlp"
	"verif.local/kit/refsecp"
)

type c45GenKeys struct {
	initKey, respKey []byte
	initiator        *c45Peer
}

type c45Wire struct {
	iv, static, auth, msg []byte
	flag                  byte
	nonce                 []byte
}

// c45Unmask undoes the header masking (AES-128-CTR keyed with the first half of
// the destination id) and splits the packet.
func c45Unmask(dest [32]byte, data []byte) (*c45Wire, string) {
	if len(data) < 63 {
		return nil, "shorter than 63 bytes"
	}
	if len(data) > 1280 {
		return nil, "longer than 1280 bytes"
	}
	block, _ := aes.NewCipher(dest[:16])
	ctr := cipher.NewCTR(block, data[:16])
	w := &c45Wire{iv: data[:16], static: make([]byte, 23)}
	ctr.XORKeyStream(w.static, data[16:39])
	if string(w.static[:6]) != "discv5" {
		return nil, "protocol id"
	}
	if binary.BigEndian.Uint16(w.static[6:8]) != 1 {
		return nil, "version"
	}
	w.flag = w.static[8]
	w.nonce = w.static[9:21]
	authsize := int(binary.BigEndian.Uint16(w.static[21:23]))
	if 39+authsize > len(data) {
		return nil, "authsize beyond packet"
	}
	w.auth = make([]byte, authsize)
	ctr.XORKeyStream(w.auth, data[39:39+authsize])
	w.msg = data[39+authsize:]
	return w, ""
}

func (w *c45Wire) ad() []byte {
	return append(append(append([]byte{}, w.iv...), w.static...), w.auth...)
}

func c45GCMOpen(key, nonce, ct, ad []byte) ([]byte, bool) {
	block, _ := aes.NewCipher(key)
	g, _ := cipher.NewGCM(block)
	pt, err := g.Open(nil, nonce, ct, ad)
	return pt, err == nil
}

// c45RefMessage is the canonical RLP body of a message.
func c45RefMessage(p Packet) []byte {
	var it refrlp.Item
	switch m := p.(type) {
	case *Ping:
		it = refrlp.L(refrlp.S(m.ReqID), refrlp.Uint(m.ENRSeq))
	case *Pong:
		it = refrlp.L(refrlp.S(m.ReqID), refrlp.Uint(m.ENRSeq), refrlp.S(m.ToIP), refrlp.Uint(uint64(m.ToPort)))
	case *Findnode:
		var d []refrlp.Item
		for _, v := range m.Distances {
			d = append(d, refrlp.Uint(uint64(v)))
		}
		it = refrlp.L(refrlp.S(m.ReqID), refrlp.L(d...))
	case *Nodes:
		var recs []refrlp.Item
		for _, r := range m.Nodes {
			// records are opaque here: their own encoding is the subject of the records unit
			enc, _ := rlp.EncodeToBytes(r)
			recs = append(recs, refrlp.R(enc))
		}
		it = refrlp.L(refrlp.S(m.ReqID), refrlp.Uint(uint64(m.RespCount)), refrlp.L(recs...))
	case *TalkRequest:
		it = refrlp.L(refrlp.S(m.ReqID), refrlp.S([]byte(m.Protocol)), refrlp.S(m.Message))
	case *TalkResponse:
		it = refrlp.L(refrlp.S(m.ReqID), refrlp.S(m.Message))
	}
	return append([]byte{p.Kind()}, refrlp.Encode(it)...)
}

func c45IDNonceHash(challenge, ephkey []byte, dest [32]byte) []byte {
	h := sha256.New()
	h.Write([]byte("discovery v5 identity proof"))
	h.Write(challenge)
	h.Write(ephkey)
	h.Write(dest[:])
	return h.Sum(nil)
}

// c45HKDF32 is HKDF-SHA256 (RFC 5869) with a single 32-byte output block.
func c45HKDF32(secret, salt, info []byte) []byte {
	ext := hmac.New(sha256.New, salt)
	ext.Write(secret)
	prk := ext.Sum(nil)
	exp := hmac.New(sha256.New, prk)
	exp.Write(info)
	exp.Write([]byte{1})
	return exp.Sum(nil)
}

func (n *c45Net) wireFail(p *c45Pkt, format string, a ...any) {
	n.fatalf("wire observer: %s packet %s->%s %x: %s", p.kind, p.from.name, p.to.name, p.data, fmt.Sprintf(format, a...))
}

// c45NoObserver switches the observer off (used only to see whether a mutation
// probe is also caught by the behavioural oracles alone).
var c45NoObserver = os.Getenv("VERIF_C45_NOOBSERVER") != ""

// observe checks an honest message / random / WHOAREYOU packet.
func (n *c45Net) observe(p *c45Pkt) {
	if c45NoObserver {
		return
	}
	w, why := c45Unmask(p.to.id, p.data)
	if w == nil {
		n.wireFail(p, "%s", why)
	}
	if !bytes.Equal(w.nonce, p.nonce[:]) {
		n.wireFail(p, "header nonce %x, Encode returned %x", w.nonce, p.nonce[:])
	}
	switch p.kind {
	case "msg", "random":
		if w.flag != 0 || !bytes.Equal(w.auth, p.from.id[:]) {
			n.wireFail(p, "flag %d authdata %x (want flag 0, source id)", w.flag, w.auth)
		}
		if p.kind == "random" {
			return
		}
		k := n.keys[p.gen]
		if k == nil {
			n.wireFail(p, "VERIF-HARNESS-BUG: no observer keys for generation %d", p.gen)
		}
		key := k.respKey
		if k.initiator == p.from {
			key = k.initKey
		}
		pt, ok := c45GCMOpen(key, w.nonce, w.msg, w.ad())
		if !ok {
			n.wireFail(p, "AES-GCM open with the session key of generation %d and the header as additional data failed", p.gen)
		}
		if want := c45RefMessage(p.msg); !bytes.Equal(pt, want) {
			n.wireFail(p, "plaintext %x, canonical message %x", pt, want)
		}
	case "whoareyou":
		if w.flag != 1 || len(w.auth) != 24 || len(w.msg) != 0 {
			n.wireFail(p, "flag %d authsize %d message bytes %d (want 1, 24, 0)", w.flag, len(w.auth), len(w.msg))
		}
		if !bytes.Equal(w.auth[:16], p.ch.IDNonce[:]) || binary.BigEndian.Uint64(w.auth[16:]) != p.ch.RecordSeq {
			n.wireFail(p, "authdata %x, challenge id-nonce %x seq %d", w.auth, p.ch.IDNonce[:], p.ch.RecordSeq)
		}
		if !bytes.Equal(p.ch.ChallengeData, w.ad()) {
			n.wireFail(p, "ChallengeData %x is not masking-iv || header || authdata %x", p.ch.ChallengeData, w.ad())
		}
	}
}

// observeHandshake checks an honest handshake packet answering the challenge the
// sender received (challenge data and record seq as decoded at receipt) and
// derives the session keys of its generation.
func (n *c45Net) observeHandshake(p *c45Pkt, challengeData []byte, challengeSeq uint64) {
	if c45NoObserver {
		return
	}
	x, y := p.from, p.to
	w, why := c45Unmask(y.id, p.data)
	if w == nil {
		n.wireFail(p, "%s", why)
	}
	if !bytes.Equal(w.nonce, p.nonce[:]) || w.flag != 2 {
		n.wireFail(p, "flag %d nonce %x (Encode returned %x)", w.flag, w.nonce, p.nonce[:])
	}
	if len(w.auth) < 34 || !bytes.Equal(w.auth[:32], x.id[:]) || w.auth[32] != 64 || w.auth[33] != 33 || len(w.auth) < 34+64+33 {
		n.wireFail(p, "handshake authdata head %x", w.auth)
	}
	sig, eph, rec := w.auth[34:98], w.auth[98:131], w.auth[131:]
	if !bytes.Equal(rec, p.rec) {
		n.wireFail(p, "record in handshake %x, expected %x (challenge seq %d, own seq %d)", rec, p.rec, challengeSeq, p.seq)
	}
	pub := refsecp.Compress(refsecp.Point{X: x.key.PublicKey.X, Y: x.key.PublicKey.Y})
	digest := c45IDNonceHash(challengeData, eph, y.id)
	if ok, why := refsecp.VerifySig(pub, digest, sig); !ok {
		n.wireFail(p, "id signature does not verify over (challenge-data, ephemeral key, destination id): %s", why)
	}
	q, ok := refsecp.Decompress(eph)
	if !ok {
		n.wireFail(p, "ephemeral key %x is not a curve point", eph)
	}
	shared := refsecp.ScalarMult(new(big.Int).Set(y.key.D), q)
	if shared.Inf {
		n.wireFail(p, "ECDH result is the point at infinity")
	}
	info := append(append([]byte("discovery v5 key agreement"), x.id[:]...), y.id[:]...)
	okm := c45HKDF32(refsecp.Compress(shared), challengeData, info)
	k := &c45GenKeys{initKey: okm[:16], respKey: okm[16:32], initiator: x}
	n.keys[p.gen] = k
	pt, ok := c45GCMOpen(k.initKey, w.nonce, w.msg, w.ad())
	if !ok {
		n.wireFail(p, "AES-GCM open with the derived initiator key and the header as additional data failed")
	}
	if want := c45RefMessage(p.msg); !bytes.Equal(pt, want) {
		n.wireFail(p, "plaintext %x, canonical message %x", pt, want)
	}
}

// c45ForgeHandshake builds a handshake packet from the wire specification:
// source id claimed, identity proof and ECDH by signer, record attached.
func c45ForgeHandshake(n *c45Net, challengeData []byte, claimed [32]byte, y *c45Peer, signer *ecdsa.PrivateKey, record []byte, msg Packet) (packet, keys []byte) {
	eph := n.prngKey()
	ephPub := refsecp.Compress(refsecp.Point{X: eph.PublicKey.X, Y: eph.PublicKey.Y})
	sig, err := crypto.Sign(c45IDNonceHash(challengeData, ephPub, y.id), signer)
	if err != nil {
		n.fatalf("VERIF-HARNESS-BUG: sign: %v", err)
	}
	shared := refsecp.ScalarMult(new(big.Int).Set(eph.D), refsecp.Point{X: y.key.PublicKey.X, Y: y.key.PublicKey.Y})
	info := append(append([]byte("discovery v5 key agreement"), claimed[:]...), y.id[:]...)
	okm := c45HKDF32(refsecp.Compress(shared), challengeData, info)

	auth := append([]byte{}, claimed[:]...)
	auth = append(auth, 64, 33)
	auth = append(auth, sig[:64]...)
	auth = append(auth, ephPub...)
	auth = append(auth, record...)
	iv := make([]byte, 16)
	nonce := make([]byte, 12)
	n.prng.Read(iv)
	n.prng.Read(nonce)
	static := append([]byte("discv5"), 0, 1, 2)
	static = append(static, nonce...)
	static = binary.BigEndian.AppendUint16(static, uint16(len(auth)))
	header := append(append([]byte{}, static...), auth...)
	ad := append(append([]byte{}, iv...), header...)
	block, _ := aes.NewCipher(okm[:16])
	g, _ := cipher.NewGCM(block)
	ct := g.Seal(nil, nonce, c45RefMessage(msg), ad)
	mblock, _ := aes.NewCipher(y.id[:16])
	masked := make([]byte, len(header))
	cipher.NewCTR(mblock, iv).XORKeyStream(masked, header)
	return append(append(iv, masked...), ct...), okm
}
