//go:build verif

package v5wire

// C45 (packet part): discovery v5 packets of every type round-trip between two
// nodes through challenge and session establishment; packets that are tampered
// with, replayed across sessions or addressed to another node are rejected.
//
// A drawn script drives two codecs A and B (and a bystander C) the way
// p2p/discover.UDPv5 does (Unknown -> WHOAREYOU -> handshake), over a lossy,
// reordering, replaying wire. A model predicts for every delivery whether the
// receiver holds the matching session / challenge. Every honest packet is also
// decoded by an independent observer (c45_wire_test.go).
//
// A node that received a WHOAREYOU may answer it later: in between its codec
// decodes other packets (a crossing request of the peer, a packet of a third
// node, a replay, garbage, a packet of a stranger). Every packet object a codec
// returned is frozen (deep copy) at decode time and must still equal that copy
// after every later Decode/Encode of the same codec (c45Held).

import (
	"bytes"
	"crypto/ecdsa"
	"encoding/binary"
	"fmt"
	"math/big"
	"math/rand"
	"net"
	"os"
	"strings"
	"sync"
	"testing"
	"time"

	"github.com/ethereum/go-ethereum/common/lru"
	"github.com/ethereum/go-ethereum/common/mclock"
	"github.com/ethereum/go-ethereum/crypto"
	"github.com/ethereum/go-ethereum/p2p/enode"
	"github.com/ethereum/go-ethereum/p2p/enr"
	"github.com/ethereum/go-ethereum/rlp"
	"pgregory.net/rapid"
	"verif.local/kit/refsecp"
	vs "verif.local/kit/stat"
)

type c45Peer struct {
	name string
	key  *ecdsa.PrivateKey
	ln   *enode.LocalNode
	c    *Codec
	addr string
	id   enode.ID

	callNode map[*c45Peer]*enode.Node // record used when calling a peer
	table    map[*c45Peer]*enode.Node // record reported in WHOAREYOU (may be nil / stale)
	calls    map[Nonce]*c45Call
	decodes  int // number of Decode calls on c so far
}

type c45Call struct {
	to             *c45Peer
	msg            Packet
	handshakeCount int
}

type c45Pend struct {
	ch   *Whoareyou
	sent mclock.AbsTime
}

type c45Pkt struct {
	from, to  *c45Peer
	kind      string // msg | random | whoareyou | handshake
	data      []byte
	nonce     Nonce
	msg       Packet
	gen       int
	ch        *Whoareyou // whoareyou: the challenge; handshake: the challenge answered
	rec       []byte     // handshake: record included (nil if none)
	seq       uint64     // handshake: sender's record seq at encode time
	delivered int
	forged    bool // produced in reaction to a tampered packet: must never succeed
	delayed   int  // handshake: Decode calls on the sender's codec between receiving the challenge and answering it
}

// c45Held is a packet object (and node) returned by by.c.Decode together with
// its deep copy taken right after that call.
type c45Held struct {
	by     *c45Peer
	what   string
	pkt    Packet
	node   *enode.Node
	frozen []byte
}

// c45Deferred is a received, matched but not yet answered WHOAREYOU: x will
// re-send call as handshake packet to y using the decoded challenge w.
type c45Deferred struct {
	x, y    *c45Peer
	w, orig *Whoareyou
	cdata   []byte // w.ChallengeData as decoded
	call    *c45Call
	at      int // x.decodes at receipt
}

type c45Net struct {
	rt    *rapid.T
	clock mclock.Simulated
	prng  *rand.Rand
	peers []*c45Peer                         // A, B, C
	sess  map[*c45Peer]map[*c45Peer]int      // holder -> peer -> generation (0 = none)
	pend  map[*c45Peer]map[*c45Peer]*c45Pend // challenger -> challenged
	keys  map[int]*c45GenKeys                // observer's session keys by generation
	gen   int
	pool  []*c45Pkt
	log   []string
	// flags for the non-trivial rule
	handshakes, resets, afterReset, hsAfterReset, msgsDecoded, faults int
	resetSeen                                                         bool
	kinds                                                             map[byte]bool
	classes                                                           map[string]int

	held       []*c45Held
	deferred   []*c45Deferred
	forceDefer bool // the next matched WHOAREYOU is not answered at once
	honestOnly bool
	delayedOK  int // handshakes accepted whose answer was encoded after >= 1 other Decode
}

func (n *c45Net) class(label string) { n.classes[label]++ }

func (n *c45Net) logf(format string, a ...any) {
	n.log = append(n.log, fmt.Sprintf(format, a...))
}

func (n *c45Net) fatalf(format string, a ...any) {
	n.rt.Fatalf("%s\n--- script ---\n%s", fmt.Sprintf(format, a...), strings.Join(n.log, "\n"))
}

func c45Scalar(rt *rapid.T, label string) *ecdsa.PrivateKey {
	raw := rapid.SliceOfN(rapid.Byte(), 32, 32).Draw(rt, label)
	v := new(big.Int).SetBytes(raw)
	v.Mod(v, new(big.Int).Sub(refsecp.N, big.NewInt(1)))
	v.Add(v, big.NewInt(1))
	k, err := crypto.ToECDSA(v.FillBytes(make([]byte, 32)))
	if err != nil {
		rt.Fatalf("VERIF-HARNESS-BUG: ToECDSA: %v", err)
	}
	return k
}

func (n *c45Net) prngKey() *ecdsa.PrivateKey {
	for {
		b := make([]byte, 32)
		n.prng.Read(b)
		if k, err := crypto.ToECDSA(b); err == nil {
			return k
		}
	}
}

func c45NewNet(rt *rapid.T) *c45Net {
	n := &c45Net{rt: rt, sess: map[*c45Peer]map[*c45Peer]int{}, pend: map[*c45Peer]map[*c45Peer]*c45Pend{},
		keys: map[int]*c45GenKeys{}, kinds: map[byte]bool{}, classes: map[string]int{}}
	n.prng = rand.New(rand.NewSource(int64(rapid.Uint64().Draw(rt, "prngSeed"))))
	used := map[enode.ID]bool{}
	for i, name := range []string{"A", "B", "C"} {
		key := c45Scalar(rt, "key"+name)
		for used[enode.PubkeyToIDV4(&key.PublicKey)] {
			key = n.prngKey()
		}
		used[enode.PubkeyToIDV4(&key.PublicKey)] = true
		ln := enode.NewLocalNode(c45DB(), key)
		ln.SetStaticIP(net.IP{10, 0, 0, byte(i + 1)})
		ln.SetFallbackUDP(30303)
		p := &c45Peer{name: name, key: key, ln: ln, addr: fmt.Sprintf("10.0.0.%d:30303", i+1), id: ln.ID(),
			callNode: map[*c45Peer]*enode.Node{}, table: map[*c45Peer]*enode.Node{}, calls: map[Nonce]*c45Call{}}
		p.c = NewCodec(ln, key, &n.clock, nil)
		// deterministic randomness hooks
		p.c.sc.nonceGen = func(counter uint32) (Nonce, error) {
			var nc Nonce
			binary.BigEndian.PutUint32(nc[:4], counter)
			n.prng.Read(nc[4:])
			return nc, nil
		}
		p.c.sc.maskingIVGen = func(buf []byte) error { n.prng.Read(buf); return nil }
		p.c.sc.ephemeralKeyGen = func() (*ecdsa.PrivateKey, error) { return n.prngKey(), nil }
		n.peers = append(n.peers, p)
		n.sess[p] = map[*c45Peer]int{}
		n.pend[p] = map[*c45Peer]*c45Pend{}
	}
	for _, p := range n.peers {
		for _, q := range n.peers {
			if p != q {
				p.callNode[q] = q.ln.Node()
				if rapid.Bool().Draw(rt, "knows"+p.name+q.name) {
					p.table[q] = q.ln.Node()
				}
			}
		}
	}
	return n
}

func (n *c45Net) close() {}

// c45DB is one in-memory node database shared by all cases of the process
// (opening one costs ~15 ms; LocalNode only keeps its sequence number there).
var c45DB = sync.OnceValue(func() *enode.DB {
	db, err := enode.OpenDB("")
	if err != nil {
		panic(err)
	}
	return db
})

// ---------------------------------------------------------------------------
// Messages.

func c45GenMsg(rt *rapid.T, n *c45Net) Packet {
	reqid := rapid.SliceOfN(rapid.Byte(), 0, 8).Draw(rt, "reqid")
	switch rapid.IntRange(1, 6).Draw(rt, "msgType") {
	case 1:
		return &Ping{ReqID: reqid, ENRSeq: rapid.Uint64().Draw(rt, "enrseq")}
	case 2:
		ip := rapid.SliceOfN(rapid.Byte(), 4, 4).Draw(rt, "toip")
		if rapid.Bool().Draw(rt, "ip6") {
			ip = append(ip, make([]byte, 12)...)
			n.prng.Read(ip[4:])
		}
		return &Pong{ReqID: reqid, ENRSeq: rapid.Uint64().Draw(rt, "enrseq"), ToIP: net.IP(ip), ToPort: rapid.Uint16().Draw(rt, "toport")}
	case 3:
		d := rapid.SliceOfN(rapid.UintRange(0, 300), 0, 6).Draw(rt, "distances")
		return &Findnode{ReqID: reqid, Distances: d}
	case 4:
		cnt := rapid.IntRange(0, 3).Draw(rt, "nrecords")
		var recs []*enr.Record
		for i := 0; i < cnt; i++ {
			var r enr.Record
			r.SetSeq(rapid.Uint64Range(0, 1<<40).Draw(rt, "recSeq"))
			r.Set(enr.IPv4{10, 1, byte(i), rapid.Byte().Draw(rt, "recIP")})
			r.Set(enr.UDP(rapid.Uint16().Draw(rt, "recUDP")))
			if err := enode.SignV4(&r, n.prngKey()); err != nil {
				rt.Fatalf("VERIF-HARNESS-BUG: SignV4: %v", err)
			}
			recs = append(recs, &r)
		}
		return &Nodes{ReqID: reqid, RespCount: rapid.Uint8().Draw(rt, "respCount"), Nodes: recs}
	case 5:
		return &TalkRequest{ReqID: reqid, Protocol: rapid.StringN(0, 12, 24).Draw(rt, "proto"),
			Message: rapid.SliceOfN(rapid.Byte(), 0, 300).Draw(rt, "talkMsg")}
	default:
		return &TalkResponse{ReqID: reqid, Message: rapid.SliceOfN(rapid.Byte(), 0, 300).Draw(rt, "talkResp")}
	}
}

func c45IsMessage(p Packet) bool {
	if p == nil {
		return false
	}
	k := p.Kind()
	return k >= PingMsg && k <= TicketMsg
}

// c45MsgEqual compares a decoded message with the one that was sent.
func c45MsgEqual(got, want Packet) bool {
	if got == nil || got.Kind() != want.Kind() || !bytes.Equal(got.RequestID(), want.RequestID()) {
		return false
	}
	switch w := want.(type) {
	case *Ping:
		g, ok := got.(*Ping)
		return ok && g.ENRSeq == w.ENRSeq
	case *Pong:
		g, ok := got.(*Pong)
		return ok && g.ENRSeq == w.ENRSeq && bytes.Equal(g.ToIP, w.ToIP) && g.ToPort == w.ToPort
	case *Findnode:
		g, ok := got.(*Findnode)
		if !ok || len(g.Distances) != len(w.Distances) {
			return false
		}
		for i := range w.Distances {
			if g.Distances[i] != w.Distances[i] {
				return false
			}
		}
		return true
	case *Nodes:
		g, ok := got.(*Nodes)
		if !ok || g.RespCount != w.RespCount || len(g.Nodes) != len(w.Nodes) {
			return false
		}
		for i := range w.Nodes {
			a, _ := rlp.EncodeToBytes(g.Nodes[i])
			b, _ := rlp.EncodeToBytes(w.Nodes[i])
			if !bytes.Equal(a, b) {
				return false
			}
		}
		return true
	case *TalkRequest:
		g, ok := got.(*TalkRequest)
		return ok && g.Protocol == w.Protocol && bytes.Equal(g.Message, w.Message)
	case *TalkResponse:
		g, ok := got.(*TalkResponse)
		return ok && bytes.Equal(g.Message, w.Message)
	}
	return false
}

// ---------------------------------------------------------------------------
// Model helpers.

func (n *c45Net) pendValid(y, x *c45Peer) *c45Pend {
	p := n.pend[y][x]
	if p == nil {
		return nil
	}
	if p.sent < n.clock.Now().Add(-handshakeTimeout) {
		return nil
	}
	return p
}

// gcModel mirrors handshakeGC, which runs in every Decode that passes the
// static header checks.
func (n *c45Net) gcModel(y *c45Peer) {
	for _, x := range n.peers {
		if n.pend[y][x] != nil && n.pendValid(y, x) == nil {
			n.pend[y][x] = nil
		}
	}
}

// checkState compares the model with the codecs' session caches (white-box).
func (n *c45Net) checkState(where string) {
	for _, y := range n.peers {
		for _, x := range n.peers {
			if x == y {
				continue
			}
			has := y.c.sc.session(x.id, x.addr) != nil
			if has != (n.sess[y][x] != 0) {
				n.fatalf("VERIF-HARNESS-BUG: %s: %s session for %s: codec %v, model gen %d", where, y.name, x.name, has, n.sess[y][x])
			}
			if s := y.c.sc.session(x.id, "6.6.6.6:666"); s != nil {
				n.fatalf("%s: %s holds a session for %s at the attacker's address", where, y.name, x.name)
			}
		}
	}
}

type c45Snapshot map[[2]*c45Peer]*session

func (n *c45Net) snapshot() c45Snapshot {
	s := c45Snapshot{}
	for _, y := range n.peers {
		for _, x := range n.peers {
			if x != y {
				s[[2]*c45Peer{y, x}] = y.c.sc.session(x.id, x.addr)
			}
		}
	}
	return s
}

// ---------------------------------------------------------------------------
// Aliasing oracle: what a codec returned from Decode belongs to the caller.

// c45NoAlias switches the aliasing oracle off (used only to see whether a
// mutation probe is also caught by the behavioural oracles alone).
var c45NoAlias = os.Getenv("VERIF_C45_NOALIAS") != ""

// c45Freeze renders every field of a decoded packet (and the node returned with
// it) into fresh memory. Whoareyou.Node is set by the caller, not by Decode.
func c45Freeze(p Packet, node *enode.Node) []byte {
	var b bytes.Buffer
	switch v := p.(type) {
	case nil:
		b.WriteString("nil")
	case *Whoareyou:
		fmt.Fprintf(&b, "WHOAREYOU nonce=%x idnonce=%x seq=%d challenge-data=%x", v.Nonce[:], v.IDNonce[:], v.RecordSeq, v.ChallengeData)
	case *Unknown:
		fmt.Fprintf(&b, "UNKNOWN nonce=%x", v.Nonce[:])
	case *Ping, *Pong, *Findnode, *TalkRequest, *TalkResponse:
		fmt.Fprintf(&b, "%s %x", p.Name(), c45RefMessage(p))
	case *Nodes:
		fmt.Fprintf(&b, "NODES %x", c45RefMessage(p))
		for _, r := range v.Nodes {
			pairs, _ := rlp.EncodeToBytes(r.AppendElements(nil))
			fmt.Fprintf(&b, " [seq=%d sig=%x pairs=%x]", r.Seq(), r.Signature(), pairs)
		}
	default:
		enc, _ := rlp.EncodeToBytes(p)
		fmt.Fprintf(&b, "%s %x", p.Name(), enc)
	}
	if node != nil {
		rec, _ := rlp.EncodeToBytes(node.Record())
		fmt.Fprintf(&b, " node id=%x seq=%d record=%x", node.ID().Bytes(), node.Seq(), rec)
	}
	return b.Bytes()
}

// checkHeld: the objects by's codec returned earlier still equal their copies.
func (n *c45Net) checkHeld(by *c45Peer, where string) {
	if c45NoAlias {
		return
	}
	for _, h := range n.held {
		if h.by != by {
			continue
		}
		if now := c45Freeze(h.pkt, h.node); !bytes.Equal(now, h.frozen) {
			n.fatalf("a packet returned by %s.Decode (%s) changed after a later call on the same codec (%s):\nat decode time: %s\nnow:            %s",
				by.name, h.what, where, h.frozen, now)
		}
	}
}

// decode is y.c.Decode plus the aliasing oracle.
func (n *c45Net) decode(y *c45Peer, data []byte, addr, what string) (enode.ID, *enode.Node, Packet, error) {
	// the codec gets its own copy: captured packets are delivered again later
	src, node, dec, err := y.c.Decode(bytes.Clone(data), addr)
	y.decodes++
	n.checkHeld(y, "Decode "+what)
	if err == nil && dec != nil && !c45NoAlias {
		n.held = append(n.held, &c45Held{by: y, what: what, pkt: dec, node: node, frozen: c45Freeze(dec, node)})
	}
	return src, node, dec, err
}

// encode is x.c.Encode plus the aliasing oracle; the packet bytes are copied
// (the returned slice is the codec's output buffer).
func (n *c45Net) encode(x *c45Peer, id enode.ID, addr string, msg Packet, ch *Whoareyou) ([]byte, Nonce, error) {
	enc, nonce, err := x.c.Encode(id, addr, msg, ch)
	enc = bytes.Clone(enc)
	n.checkHeld(x, "Encode "+msg.Name())
	return enc, nonce, err
}

// ---------------------------------------------------------------------------
// Honest protocol steps.

func (n *c45Net) send(x, y *c45Peer, msg Packet) {
	enc, nonce, err := n.encode(x, y.id, y.addr, msg, nil)
	if err != nil {
		n.fatalf("%s.Encode(%s) to %s: %v", x.name, msg.Name(), y.name, err)
	}
	p := &c45Pkt{from: x, to: y, data: enc, nonce: nonce, msg: msg}
	if g := n.sess[x][y]; g != 0 {
		p.kind, p.gen = "msg", g
	} else {
		p.kind = "random"
	}
	x.calls[nonce] = &c45Call{to: y, msg: msg}
	n.logf("%s->%s send %s as %s gen=%d nonce=%x (#%d)", x.name, y.name, msg.Name(), p.kind, p.gen, nonce[:], len(n.pool))
	n.observe(p)
	n.pool = append(n.pool, p)
}

// deliver hands packet p to its addressee from its true source address and
// checks the outcome against the model; reactions are appended to the pool.
func (n *c45Net) deliver(p *c45Pkt) {
	x, y := p.from, p.to
	p.delivered++
	src, node, dec, err := n.decode(y, p.data, x.addr, fmt.Sprintf("#%s %s %s->%s", c45PktID(n, p), p.kind, x.name, y.name))
	n.gcModel(y)
	n.logf("deliver #%s %s->%s %s gen=%d: err=%v dec=%T", c45PktID(n, p), x.name, y.name, p.kind, p.gen, err, dec)
	switch p.kind {
	case "msg", "random":
		if err != nil {
			n.fatalf("%s.Decode of an honest %s packet from %s failed: %v", y.name, p.kind, x.name, err)
		}
		if src != x.id || node != nil {
			n.fatalf("%s.Decode(%s packet from %s): src=%v node=%v", y.name, p.kind, x.name, src, node)
		}
		if p.kind == "msg" && n.sess[y][x] == p.gen && !p.forged {
			if !c45MsgEqual(dec, p.msg) {
				n.fatalf("%s decoded %s from %s in session gen %d as %#v, sent %#v", y.name, p.msg.Name(), x.name, p.gen, dec, p.msg)
			}
			n.msgsDecoded++
			n.kinds[p.msg.Kind()] = true
			if n.resetSeen {
				n.afterReset++
			}
			return
		}
		unk, ok := dec.(*Unknown)
		if !ok {
			n.fatalf("%s holds session gen %d for %s but decoded a gen-%d %s packet as %T %#v (expected Unknown)", y.name, n.sess[y][x], x.name, p.gen, p.kind, dec, dec)
		}
		if unk.Nonce != p.nonce {
			n.fatalf("Unknown.Nonce %x, packet nonce %x", unk.Nonce[:], p.nonce[:])
		}
		if p.kind == "msg" {
			n.class("message of another session generation -> Unknown")
		}
		n.challenge(y, x, unk)
	case "whoareyou":
		if err != nil {
			n.fatalf("%s.Decode of an honest WHOAREYOU from %s failed: %v", y.name, x.name, err)
		}
		w, ok := dec.(*Whoareyou)
		if !ok || w.Nonce != p.ch.Nonce || w.IDNonce != p.ch.IDNonce || w.RecordSeq != p.ch.RecordSeq || !bytes.Equal(w.ChallengeData, p.ch.ChallengeData) {
			n.fatalf("%s decoded WHOAREYOU from %s as %#v, sent %#v", y.name, x.name, dec, p.ch)
		}
		// y is UDPv5.handleWhoareyou here: match the call, then re-send it as handshake
		// packet -- at once, or after its codec has handled other packets.
		call := n.accept(y, x, w)
		if call == nil {
			return
		}
		d := &c45Deferred{x: y, y: x, w: w, orig: p.ch, cdata: bytes.Clone(w.ChallengeData), call: call, at: y.decodes}
		if n.forceDefer || rapid.IntRange(0, 5).Draw(n.rt, "deferAnswer") == 0 {
			n.forceDefer = false
			n.deferred = append(n.deferred, d)
			n.logf("%s keeps the challenge of %s and answers later", y.name, x.name)
			return
		}
		n.encodeAnswer(d, false)
	case "handshake":
		cur := n.pendValid(y, x)
		want := cur != nil && cur.ch == p.ch && !p.forged
		if !want {
			if err == nil {
				n.fatalf("%s accepted a handshake packet from %s although its pending challenge is %v (packet answers %p, forged=%v): decoded %#v",
					y.name, x.name, cur, p.ch, p.forged, dec)
			}
			n.pend[y][x] = nil // failed handshakes drop the pending challenge
			switch {
			case p.forged:
				n.class("handshake answering a tampered WHOAREYOU refused")
			case cur == nil && p.delivered > 1:
				n.class("replayed handshake refused (no pending challenge)")
			case cur == nil:
				n.class("handshake refused (challenge expired or dropped)")
			default:
				n.class("handshake refused (answers another challenge)")
			}
			return
		}
		if err != nil {
			n.fatalf("%s rejected the honest handshake packet from %s: %v", y.name, x.name, err)
		}
		if src != x.id || node == nil || node.ID() != x.id {
			n.fatalf("%s.Decode(handshake from %s): src=%v node=%v", y.name, x.name, src, node)
		}
		wantSeq := p.seq
		if p.rec == nil {
			wantSeq = p.ch.Node.Seq()
		}
		if node.Seq() != wantSeq {
			n.fatalf("%s.Decode(handshake from %s): node seq %d, want %d (record sent: %v)", y.name, x.name, node.Seq(), wantSeq, p.rec != nil)
		}
		if p.rec != nil {
			if enc, _ := rlp.EncodeToBytes(node.Record()); !bytes.Equal(enc, p.rec) {
				n.fatalf("%s.Decode(handshake from %s): node record %x, sent %x", y.name, x.name, enc, p.rec)
			}
		}
		if !c45MsgEqual(dec, p.msg) {
			n.fatalf("%s decoded handshake message %s from %s as %#v, sent %#v", y.name, p.msg.Name(), x.name, dec, p.msg)
		}
		if sn := y.c.SessionNode(x.id, x.addr); sn == nil || sn.ID() != x.id {
			n.fatalf("%s.SessionNode(%s) = %v after handshake", y.name, x.name, sn)
		}
		n.sess[y][x] = p.gen
		n.pend[y][x] = nil
		y.table[x] = node
		n.handshakes++
		n.msgsDecoded++
		n.kinds[p.msg.Kind()] = true
		if n.resetSeen {
			n.hsAfterReset++
		}
		if p.delayed > 0 {
			n.delayedOK++
			n.class(fmt.Sprintf("handshake accepted whose answer was encoded %d Decode calls after the WHOAREYOU", min(p.delayed, 4)))
		}
	}
}

func c45PktID(n *c45Net, p *c45Pkt) string {
	for i, q := range n.pool {
		if q == p {
			return fmt.Sprint(i)
		}
	}
	return "?"
}

// challenge is UDPv5.handleUnknown: y answers an undecryptable packet of x.
func (n *c45Net) challenge(y, x *c45Peer, unk *Unknown) {
	cur := y.c.CurrentChallenge(x.id, x.addr)
	mp := n.pend[y][x]
	if (cur != nil) != (mp != nil) || (cur != nil && cur != mp.ch) {
		n.fatalf("%s.CurrentChallenge(%s) = %p, model %v", y.name, x.name, cur, mp)
	}
	ch := cur
	if ch == nil {
		ch = &Whoareyou{Nonce: unk.Nonce}
		n.prng.Read(ch.IDNonce[:])
		if kn := y.table[x]; kn != nil {
			ch.Node, ch.RecordSeq = kn, kn.Seq()
		}
	}
	enc, nonce, err := n.encode(y, x.id, x.addr, ch, nil)
	if err != nil {
		n.fatalf("%s.Encode(WHOAREYOU) to %s: %v", y.name, x.name, err)
	}
	if nonce != ch.Nonce {
		n.fatalf("Encode(WHOAREYOU) returned nonce %x, challenge nonce %x", nonce[:], ch.Nonce[:])
	}
	if cur == nil {
		n.pend[y][x] = &c45Pend{ch: ch, sent: n.clock.Now()}
	} else {
		n.class("WHOAREYOU resent for a pending challenge")
	}
	p := &c45Pkt{from: y, to: x, kind: "whoareyou", data: enc, nonce: nonce, ch: ch}
	n.logf("%s->%s WHOAREYOU resend=%v seq=%d nonce=%x (#%d)", y.name, x.name, cur != nil, ch.RecordSeq, nonce[:], len(n.pool))
	n.observe(p)
	n.pool = append(n.pool, p)
}

// answer is UDPv5.handleWhoareyou: x re-sends the matching call as a handshake.
// orig is the challenger's own object (identity of the challenge); forged marks
// a reaction to a tampered WHOAREYOU.
func (n *c45Net) answer(x, y *c45Peer, w *Whoareyou, orig *Whoareyou, forged bool) {
	call := n.accept(x, y, w)
	if call == nil {
		return
	}
	n.encodeAnswer(&c45Deferred{x: x, y: y, w: w, orig: orig, cdata: bytes.Clone(w.ChallengeData), call: call, at: x.decodes}, forged)
}

// accept matches a received WHOAREYOU with the call it challenges.
func (n *c45Net) accept(x, y *c45Peer, w *Whoareyou) *c45Call {
	call := x.calls[w.Nonce]
	if call == nil || call.handshakeCount > 0 || call.to != y {
		n.logf("%s ignores WHOAREYOU (no matching call)", x.name)
		return nil
	}
	call.handshakeCount++
	return call
}

// encodeAnswer re-sends the challenged call as handshake packet, using the
// WHOAREYOU object x's codec returned (possibly several Decode calls ago).
func (n *c45Net) encodeAnswer(d *c45Deferred, forged bool) {
	x, y, w, call := d.x, d.y, d.w, d.call
	w.Node = x.callNode[y]
	self := x.ln.Node()
	enc, nonce, err := n.encode(x, y.id, y.addr, call.msg, w)
	if err != nil {
		n.fatalf("%s.Encode(handshake %s) to %s: %v", x.name, call.msg.Name(), y.name, err)
	}
	n.gen++
	n.sess[x][y] = n.gen // the initiator stores its session when encoding
	p := &c45Pkt{from: x, to: y, kind: "handshake", data: enc, nonce: nonce, msg: call.msg, gen: n.gen, ch: d.orig, seq: self.Seq(), forged: forged,
		delayed: x.decodes - d.at}
	if w.RecordSeq < self.Seq() {
		p.rec, _ = rlp.EncodeToBytes(self.Record())
	}
	x.calls[nonce] = call
	n.logf("%s->%s handshake %s gen=%d record=%v forged=%v after %d other Decode calls (#%d)", x.name, y.name, call.msg.Name(), n.gen, p.rec != nil, forged, p.delayed, len(n.pool))
	// x answers what it received (for a tampered WHOAREYOU: the tampered challenge data)
	n.observeHandshake(p, d.cdata, w.RecordSeq)
	n.pool = append(n.pool, p)
}

// interleave: x's codec decodes one more packet while a challenge of y waits
// for its answer.
func (n *c45Net) interleave(rt *rapid.T, x, y *c45Peer) {
	opts := []string{"crossing", "crossing", "third-node", "replay"}
	if !n.honestOnly {
		opts = append(opts, "garbage", "stranger")
	}
	kind := rapid.SampledFrom(opts).Draw(rt, "interleave")
	var toX []*c45Pkt
	for _, p := range n.pool {
		if p.to == x {
			toX = append(toX, p)
		}
	}
	if kind == "replay" && len(toX) == 0 {
		kind = "crossing"
	}
	n.class("interleaved: " + kind)
	n.logf("interleave on %s: %s", x.name, kind)
	switch kind {
	case "crossing": // a request of the peer that crossed x's own on the wire
		n.send(y, x, c45GenMsg(rt, n))
		n.deliver(n.pool[len(n.pool)-1])
	case "third-node":
		for _, z := range n.peers {
			if z != x && z != y {
				n.send(z, x, c45GenMsg(rt, n))
				n.deliver(n.pool[len(n.pool)-1])
				break
			}
		}
	case "replay":
		n.deliver(rapid.SampledFrom(toX).Draw(rt, "interleaveReplay"))
	case "garbage":
		data := rapid.SliceOfN(rapid.Byte(), minPacketSize, 400).Draw(rt, "garbage")
		n.adversarial("garbage", x, data, y.addr, &c45Pkt{from: y, to: x, kind: "garbage", data: data})
	case "stranger": // a well-formed packet of a node x never heard of
		key := n.prngKey()
		sc := NewCodec(enode.NewLocalNode(c45DB(), key), key, &n.clock, nil)
		enc, _, err := sc.Encode(x.id, x.addr, c45GenMsg(rt, n), nil)
		if err != nil {
			n.fatalf("VERIF-HARNESS-BUG: stranger cannot encode: %v", err)
		}
		data := bytes.Clone(enc)
		n.adversarial("stranger", x, data, "10.0.0.9:30303", &c45Pkt{from: y, to: x, kind: "random", data: data})
	}
}

// resetSessions drops all sessions of x (restart of x).
func (n *c45Net) resetSessions(x *c45Peer) {
	x.c.sc.sessions = lru.NewBasicLRU[sessionID, *session](1024)
	for _, z := range n.peers {
		n.sess[x][z] = 0
	}
	n.resets++
	n.resetSeen = n.handshakes > 0
	n.logf("reset sessions of %s", x.name)
}

// crossing: a challenge is answered only after the challenged node's codec has
// decoded 1-3 other packets. Uses a challenge that already waits for its answer,
// else starts a request without session and holds back the answer to its WHOAREYOU.
func (n *c45Net) crossing(rt *rapid.T) {
	if len(n.deferred) == 0 {
		x, y := n.peers[0], n.peers[1]
		if rapid.Bool().Draw(rt, "dirBA") {
			x, y = y, x
		}
		if n.sess[x][y] != 0 {
			n.resetSessions(x)
		}
		n.send(x, y, c45GenMsg(rt, n))
		n.deliver(n.pool[len(n.pool)-1]) // y challenges x
		if last := n.pool[len(n.pool)-1]; last.kind == "whoareyou" && last.to == x && last.delivered == 0 {
			n.forceDefer = true
			n.deliver(last)
			n.forceDefer = false
		}
	}
	if len(n.deferred) == 0 {
		n.class("crossing: WHOAREYOU matched no open call")
		return
	}
	i := rapid.IntRange(0, len(n.deferred)-1).Draw(rt, "deferredWhich")
	d := n.deferred[i]
	n.deferred = append(n.deferred[:i:i], n.deferred[i+1:]...)
	for k := rapid.IntRange(1, 3).Draw(rt, "interleaved"); k > 0; k-- {
		n.interleave(rt, d.x, d.y)
	}
	n.encodeAnswer(d, false)
	if rapid.IntRange(0, 3).Draw(rt, "answerPrompt") != 0 {
		n.deliver(n.pool[len(n.pool)-1])
	}
}

// ---------------------------------------------------------------------------
// Adversarial steps. None of them may yield a decoded message, create or
// replace a session.

func (n *c45Net) adversarial(what string, y *c45Peer, data []byte, fromAddr string, p *c45Pkt) (Packet, error) {
	before := n.snapshot()
	_, _, dec, err := n.decode(y, data, fromAddr, "adversarial "+what)
	n.gcModel(y)
	n.faults++
	cls := what
	if i := strings.LastIndex(what, "/"); i > 0 {
		cls = what[:i]
	}
	switch {
	case err != nil:
		n.class("adv " + cls + " (" + p.kind + ") -> error")
	case dec != nil && dec.Kind() == UnknownPacket:
		n.class("adv " + cls + " (" + p.kind + ") -> Unknown")
	default:
		n.class("adv " + cls + " (" + p.kind + ") -> WHOAREYOU")
	}
	n.logf("ADV %s to %s from %s (orig #%s %s): err=%v dec=%T", what, y.name, fromAddr, c45PktID(n, p), p.kind, err, dec)
	if err == nil && c45IsMessage(dec) {
		n.fatalf("%s: %s decoded a %s packet as message %#v\npacket %x\noriginal %x", what, y.name, p.kind, dec, data, p.data)
	}
	after := n.snapshot()
	for k, s := range before {
		if after[k] != s {
			n.fatalf("%s: session of %s for %s changed (%p -> %p)", what, k[0].name, k[1].name, s, after[k])
		}
	}
	// failed handshake packets drop the receiver's pending challenge for the claimed source
	for _, x := range n.peers {
		if n.pend[y][x] != nil && y.c.sc.getHandshake(x.id, x.addr) == nil {
			n.pend[y][x] = nil
		}
	}
	n.checkState(what)
	return dec, err
}

var c45Regions = []string{"iv", "protocol", "version", "flag", "nonce", "authsize", "authdata", "message", "any"}

func (n *c45Net) tamper(rt *rapid.T, p *c45Pkt, forceRegion string) {
	region := rapid.SampledFrom(c45Regions).Draw(rt, "region")
	if forceRegion != "" {
		region = forceRegion
	}
	lo, hi := 0, len(p.data)
	authEnd := c45AuthEnd(p)
	switch region {
	case "iv":
		lo, hi = 0, 16
	case "protocol":
		lo, hi = 16, 22
	case "version":
		lo, hi = 22, 24
	case "flag":
		lo, hi = 24, 25
	case "nonce":
		lo, hi = 25, 37
	case "authsize":
		lo, hi = 37, 39
	case "authdata":
		lo, hi = 39, authEnd
	case "message":
		lo, hi = authEnd, len(p.data)
	}
	if lo >= hi {
		lo, hi = 0, len(p.data)
		region = "any"
	}
	data := bytes.Clone(p.data)
	mode := rapid.IntRange(0, 3).Draw(rt, "tamperMode")
	what := ""
	switch {
	case mode == 0 && region == "message" && len(data)-authEnd > 1:
		cut := rapid.IntRange(1, len(data)-authEnd).Draw(rt, "truncate")
		data = data[:len(data)-cut]
		what = fmt.Sprintf("truncate-%d", cut)
	case mode == 1 && region == "message":
		extra := rapid.SliceOfN(rapid.Byte(), 1, 8).Draw(rt, "append")
		data = append(data, extra...)
		what = "append"
	default:
		bit := rapid.IntRange(lo*8, hi*8-1).Draw(rt, "bit")
		data[bit/8] ^= 1 << (bit % 8)
		what = fmt.Sprintf("bitflip@%d", bit/8)
	}
	dec, err := n.adversarial("tamper/"+region+"/"+what, p.to, data, p.from.addr, p)
	// A tampered WHOAREYOU is not authenticated by itself: the handshake answering
	// it must be refused by the challenger.
	if w, ok := dec.(*Whoareyou); ok && err == nil && p.kind == "whoareyou" {
		if bytes.Equal(w.ChallengeData, p.ch.ChallengeData) {
			n.fatalf("tampered WHOAREYOU decoded with the original challenge data")
		}
		before := len(n.pool)
		n.answer(p.to, p.from, w, p.ch, true)
		if len(n.pool) > before {
			n.deliver(n.pool[len(n.pool)-1]) // the challenger must refuse it
		}
	}
}

// impersonate: an attacker who does not hold x's key intercepts y's WHOAREYOU for
// x and answers it with a handshake packet claiming to come from x (x's id and
// x's genuine, public record; identity proof and ECDH made with the attacker's key).
func (n *c45Net) impersonate(rt *rapid.T) bool {
	var cand []*c45Pkt
	for _, p := range n.pool {
		if p.kind != "whoareyou" {
			continue
		}
		if pd := n.pendValid(p.from, p.to); pd != nil && pd.ch == p.ch {
			cand = append(cand, p)
		}
	}
	if len(cand) == 0 {
		return false
	}
	p := rapid.SampledFrom(cand).Draw(rt, "impersonateWhich")
	y, x := p.from, p.to
	attacker := n.prngKey()
	fake := NewCodec(x.ln, attacker, &n.clock, nil)
	_, _, dec, err := fake.Decode(p.data, y.addr)
	w, ok := dec.(*Whoareyou)
	if err != nil || !ok {
		n.fatalf("VERIF-HARNESS-BUG: attacker cannot read the WHOAREYOU: %v %T", err, dec)
	}
	w.Node = x.callNode[y]
	msg := c45GenMsg(rt, n)
	enc, _, err := fake.Encode(y.id, y.addr, msg, w)
	if err != nil {
		n.fatalf("VERIF-HARNESS-BUG: attacker cannot encode a handshake: %v", err)
	}
	n.adversarial("impersonate", y, bytes.Clone(enc), x.addr, &c45Pkt{from: x, to: y, kind: "handshake", data: enc})
	return true
}

// forgeIdentity: the attacker answers y's WHOAREYOU for x with a handshake packet
// built from the wire specification (c45_wire_test.go) that claims x's id as
// source but proves the attacker's own identity: its own signed record (newer
// than anything y knows) and an identity proof made with its own key.
func (n *c45Net) forgeIdentity(rt *rapid.T) bool {
	var cand []*c45Pkt
	for _, p := range n.pool {
		if p.kind != "whoareyou" {
			continue
		}
		if pd := n.pendValid(p.from, p.to); pd != nil && pd.ch == p.ch {
			cand = append(cand, p)
		}
	}
	if len(cand) == 0 {
		return false
	}
	p := rapid.SampledFrom(cand).Draw(rt, "forgeWhich")
	y, x := p.from, p.to
	attacker := n.prngKey()
	var rec enr.Record
	rec.SetSeq(1 << 62)
	rec.Set(enr.IPv4{6, 6, 6, 6})
	rec.Set(enr.UDP(666))
	if err := enode.SignV4(&rec, attacker); err != nil {
		n.fatalf("VERIF-HARNESS-BUG: SignV4: %v", err)
	}
	recEnc, _ := rlp.EncodeToBytes(&rec)
	w, why := c45Unmask(x.id, p.data)
	if w == nil {
		n.fatalf("VERIF-HARNESS-BUG: attacker cannot unmask the WHOAREYOU: %s", why)
	}
	enc, _ := c45ForgeHandshake(n, w.ad(), x.id, y, attacker, recEnc, &Ping{ReqID: []byte{6}, ENRSeq: 1 << 62})
	n.adversarial("forge-identity", y, enc, x.addr, &c45Pkt{from: x, to: y, kind: "handshake", data: enc})
	if sn := y.c.SessionNode(x.id, x.addr); sn != nil && sn.ID() != x.id {
		n.fatalf("forge-identity: %s now holds node %v in its session for %s", y.name, sn.ID(), x.name)
	}
	return true
}

// pickAuthenticated prefers packets whose content is protected by a session
// (message and handshake packets) as targets of adversarial steps.
func (n *c45Net) pickAuthenticated(rt *rapid.T, label string) *c45Pkt {
	var auth []*c45Pkt
	for _, p := range n.pool {
		if p.kind == "msg" || p.kind == "handshake" {
			auth = append(auth, p)
		}
	}
	if len(auth) > 0 && rapid.IntRange(0, 3).Draw(rt, label+"Auth") != 0 {
		return rapid.SampledFrom(auth).Draw(rt, label+"AuthWhich")
	}
	return rapid.SampledFrom(n.pool).Draw(rt, label)
}

// c45AuthEnd is the offset of the message data in an honest packet.
func c45AuthEnd(p *c45Pkt) int {
	switch p.kind {
	case "whoareyou":
		return 39 + 24
	case "handshake":
		return 39 + 34 + 64 + 33 + len(p.rec)
	default:
		return 39 + 32
	}
}

func (n *c45Net) misdeliver(rt *rapid.T, p *c45Pkt) {
	c := n.peers[2]
	switch rapid.IntRange(0, 3).Draw(rt, "misdeliver") {
	case 0: // to the bystander, true source address
		n.adversarial("third-node", c, p.data, p.from.addr, p)
	case 1: // to the addressee from another address (session keyed by id+addr)
		if p.kind == "whoareyou" {
			return // WHOAREYOU carries no source authentication at the codec level
		}
		n.adversarial("other-address", p.to, p.data, "6.6.6.6:666", p)
	case 2: // reflected to its sender
		n.adversarial("reflect", p.from, p.data, p.to.addr, p)
	default: // encoded for the bystander's id, delivered to B
		x, y := p.from, p.to
		if x == c || y == c {
			return
		}
		msg := &Ping{ReqID: []byte{1}, ENRSeq: 1}
		enc, _, err := n.encode(x, c.id, y.addr, msg, nil)
		if err != nil {
			n.fatalf("Encode for the bystander id: %v", err)
		}
		n.adversarial("wrong-destination-id", y, enc, x.addr, &c45Pkt{from: x, to: y, kind: "random", data: enc})
	}
}

// ---------------------------------------------------------------------------

var c45Actions = []string{"roundtrip", "roundtrip", "roundtrip", "roundtrip", "roundtrip", "send", "send", "send",
	"deliver", "deliver", "deliver", "deliver", "deliver", "deliver", "replay", "reset", "reset", "clock", "bump",
	"tamper", "tamper", "tamper", "misdeliver", "misdeliver", "impersonate", "replay-handshake",
	"crossing", "crossing", "crossing"}

func (n *c45Net) attackChallenge(rt *rapid.T) bool {
	if rapid.Bool().Draw(rt, "forgeIdentity") {
		return n.forgeIdentity(rt)
	}
	return n.impersonate(rt)
}

func c45ExchangeProp(st *vs.S, honestOnly bool) func(rt *rapid.T) {
	return func(rt *rapid.T) {
		n := c45NewNet(rt)
		defer n.close()
		n.honestOnly = honestOnly
		var c *vs.Case
		if st != nil {
			c = st.Case()
		}
		a, b := n.peers[0], n.peers[1]
		steps := rapid.IntRange(6, 40).Draw(rt, "steps")
		var trace []string
		_ = trace
		for i := 0; i < steps; i++ {
			act := rapid.SampledFrom(c45Actions).Draw(rt, "action")
			if act == "replay-handshake" {
				hasHS := false
				for _, p := range n.pool {
					hasHS = hasHS || (p.kind == "handshake" && p.delivered > 0 && !p.forged)
				}
				if !hasHS {
					act = "roundtrip"
				}
			}
			if honestOnly && (act == "tamper" || act == "misdeliver" || act == "impersonate") {
				act = "deliver"
			}
			var undelivered []*c45Pkt
			for _, p := range n.pool {
				if p.delivered == 0 {
					undelivered = append(undelivered, p)
				}
			}
			if (act == "deliver" && len(undelivered) == 0) || (len(n.pool) == 0 && act != "clock" && act != "bump" && act != "reset" && act != "crossing") {
				act = "send"
			}
			trace = append(trace, act)
			switch act {
			case "roundtrip":
				// a request and everything it triggers, delivered promptly
				x, y := a, b
				if rapid.Bool().Draw(rt, "dirBA") {
					x, y = b, a
				}
				n.send(x, y, c45GenMsg(rt, n))
				for k := 0; k < 4; k++ {
					last := n.pool[len(n.pool)-1]
					if last.delivered > 0 {
						break
					}
					if last.kind == "whoareyou" && !honestOnly && rapid.IntRange(0, 7).Draw(rt, "tamperChallenge") == 0 {
						// the challenge is modified in flight; the requester answers what it received
						n.tamper(rt, last, rapid.SampledFrom([]string{"authdata", "version", "authdata"}).Draw(rt, "challengeRegion"))
						break
					}
					if last.kind == "handshake" && !honestOnly && rapid.IntRange(0, 7).Draw(rt, "tamperHandshake") == 0 {
						// a modified copy of the handshake packet arrives first
						n.tamper(rt, last, rapid.SampledFrom([]string{"message", "authdata", "version"}).Draw(rt, "handshakeRegion"))
					}
					n.deliver(last)
				}
			case "send":
				x, y := a, b
				if rapid.Bool().Draw(rt, "dirBA") {
					x, y = b, a
				}
				n.send(x, y, c45GenMsg(rt, n))
			case "deliver":
				// mostly in order, sometimes any outstanding packet
				p := undelivered[len(undelivered)-1]
				if rapid.IntRange(0, 3).Draw(rt, "reorder") == 0 {
					p = rapid.SampledFrom(undelivered).Draw(rt, "which")
				}
				n.deliver(p)
			case "replay":
				p := rapid.SampledFrom(n.pool).Draw(rt, "replayWhich")
				n.logf("replay #%s", c45PktID(n, p))
				n.deliver(p)
			case "reset":
				x := a
				if rapid.Bool().Draw(rt, "resetB") {
					x = b
				}
				n.resetSessions(x)
			case "clock":
				d := rapid.SampledFrom([]time.Duration{300 * time.Millisecond, 600 * time.Millisecond, 1100 * time.Millisecond}).Draw(rt, "advance")
				n.clock.Run(d)
				n.logf("clock +%v", d)
			case "bump":
				x := a
				if rapid.Bool().Draw(rt, "bumpB") {
					x = b
				}
				x.ln.Set(enr.WithEntry("v", rapid.Uint32().Draw(rt, "entry")))
				n.logf("%s record seq now %d", x.name, x.ln.Node().Seq())
			case "tamper":
				n.tamper(rt, n.pickAuthenticated(rt, "tamperWhich"), "")
			case "replay-handshake":
				// an old, once accepted handshake packet is replayed while its receiver waits for
				// the answer to a new challenge of the same peer
				var old []*c45Pkt
				for _, p := range n.pool {
					if p.kind == "handshake" && p.delivered > 0 && !p.forged {
						old = append(old, p)
					}
				}
				h := rapid.SampledFrom(old).Draw(rt, "oldHandshake")
				x, y := h.from, h.to
				if n.pendValid(y, x) == nil {
					if n.sess[x][y] != 0 {
						n.resetSessions(x)
					}
					n.send(x, y, c45GenMsg(rt, n))
					n.deliver(n.pool[len(n.pool)-1]) // y challenges x
				}
				n.logf("replay old handshake #%s into the new challenge", c45PktID(n, h))
				n.deliver(h)
			case "impersonate":
				if !n.attackChallenge(rt) {
					// no challenge is pending: create one (request without session, challenge not yet answered)
					x, y := a, b
					if rapid.Bool().Draw(rt, "dirBA") {
						x, y = b, a
					}
					if n.sess[x][y] != 0 {
						n.resetSessions(x)
					}
					n.send(x, y, c45GenMsg(rt, n))
					n.deliver(n.pool[len(n.pool)-1])
					n.attackChallenge(rt)
				}
			case "misdeliver":
				n.misdeliver(rt, n.pickAuthenticated(rt, "misWhich"))
			case "crossing":
				n.crossing(rt)
			}
			n.checkState(act)
		}
		if c == nil {
			return
		}
		for i := 0; i < n.faults; i++ {
			c.Fault()
		}
		c.Classf("handshakes=%s", c45Bucket(n.handshakes))
		c.Classf("resets=%s", c45Bucket(n.resets))
		c.Classf("msgs-decoded=%s", c45Bucket(n.msgsDecoded))
		c.Classf("adversarial=%s", c45Bucket(n.faults))
		c.Classf("delayed-handshakes-accepted=%s", c45Bucket(n.delayedOK))
		for k := range n.kinds {
			c.Classf("decoded-kind-%d", k)
		}
		for k := range n.classes {
			c.Class(k)
		}
		nt := n.hsAfterReset >= 1
		if nt {
			c.Class("session-reestablished-after-reset")
		}
		desc := strings.Join(n.log, "|")
		c.NonTrivial(nt, desc)
		c.Sample(nt, func() any {
			l := n.log
			if len(l) > 40 {
				l = l[:40]
			}
			return map[string]any{"script": l, "handshakes": n.handshakes, "resets": n.resets, "adversarial": n.faults}
		})
	}
}

func c45Bucket(v int) string {
	switch {
	case v == 0:
		return "0"
	case v <= 2:
		return "1-2"
	case v <= 5:
		return "3-5"
	default:
		return "6+"
	}
}

// TestVerifC45Exchange: honest and adversarial steps mixed.
func TestVerifC45Exchange(t *testing.T) {
	st := vs.New("C45", t)
	vs.Check(t, 1, c45ExchangeProp(st, false))
}

// TestVerifC45Honest: honest traffic only (loss, reordering, replay, resets,
// challenge expiry, record updates).
func TestVerifC45Honest(t *testing.T) {
	st := vs.New("C45", t)
	vs.Check(t, 0.5, c45ExchangeProp(st, true))
}

// TestVerifC45SpecHandshake: a handshake packet built from the wire specification
// alone (c45ForgeHandshake with the requester's real key and record) is accepted,
// and the reply under the new session opens with the spec-derived recipient key.
// This also shows that the forged-identity packets of TestVerifC45Exchange are
// refused for their identity, not for their form.
func TestVerifC45SpecHandshake(t *testing.T) {
	st := vs.New("C45", t)
	vs.Check(t, 0.15, func(rt *rapid.T) {
		n := c45NewNet(rt)
		c := st.Case()
		a, b := n.peers[0], n.peers[1]
		msg := c45GenMsg(rt, n)
		n.send(a, b, msg)
		n.deliver(n.pool[0])
		if len(n.pool) != 2 || n.pool[1].kind != "whoareyou" {
			n.fatalf("VERIF-HARNESS-BUG: no challenge after an undecryptable packet")
		}
		wp := n.pool[1]
		w, why := c45Unmask(a.id, wp.data)
		if w == nil {
			n.fatalf("wire observer: WHOAREYOU: %s", why)
		}
		self := a.ln.Node()
		var rec []byte
		if wp.ch.RecordSeq < self.Seq() {
			rec, _ = rlp.EncodeToBytes(self.Record())
		}
		enc, keys := c45ForgeHandshake(n, w.ad(), a.id, b, a.key, rec, msg)
		src, node, dec, err := b.c.Decode(enc, a.addr)
		if err != nil || src != a.id || node == nil || node.ID() != a.id || !c45MsgEqual(dec, msg) {
			n.fatalf("spec-built handshake packet %x from A: err=%v src=%v node=%v dec=%#v (sent %#v)", enc, err, src, node, dec, msg)
		}
		reply := c45GenMsg(rt, n)
		renc, rnonce, err := b.c.Encode(a.id, a.addr, reply, nil)
		if err != nil {
			n.fatalf("B.Encode(reply): %v", err)
		}
		rw, why := c45Unmask(a.id, renc)
		if rw == nil || rw.flag != 0 || !bytes.Equal(rw.nonce, rnonce[:]) || !bytes.Equal(rw.auth, b.id[:]) {
			n.fatalf("wire observer: reply packet %x: %s", renc, why)
		}
		pt, ok := c45GCMOpen(keys[16:32], rw.nonce, rw.msg, rw.ad())
		if !ok || !bytes.Equal(pt, c45RefMessage(reply)) {
			n.fatalf("reply %x does not open with the spec-derived recipient key (ok=%v): %x want %x", renc, ok, pt, c45RefMessage(reply))
		}
		c.Classf("spec-handshake record=%v", rec != nil)
		c.Classf("msg-kind-%d", msg.Kind())
		c.NonTrivial(true, fmt.Sprintf("%x", enc))
	})
}

// FuzzVerifC45Exchange: the exchange property driven by the native fuzzer.
func FuzzVerifC45Exchange(f *testing.F) {
	f.Fuzz(rapid.MakeFuzz(c45ExchangeProp(nil, false)))
}

// c45FuzzEnv holds what is built once per (worker) process: two local nodes with
// fixed keys and one valid message packet A->B. Everything in the packet is
// deterministic (fixed keys, nonces and masking IVs) because fuzz workers are
// separate processes that must agree on the one valid packet.
type c45FuzzEnvT struct {
	keyB        *ecdsa.PrivateKey
	lnA, lnB    *enode.LocalNode
	nodeA       *enode.Node
	valid       []byte
	read, write []byte
}

const c45FuzzAddrA, c45FuzzAddrB = "10.0.0.1:30303", "10.0.0.2:30303"

func c45FuzzHooks(c *Codec, fill byte) {
	c.sc.nonceGen = func(counter uint32) (Nonce, error) {
		var n Nonce
		binary.BigEndian.PutUint32(n[:4], counter)
		copy(n[4:], bytes.Repeat([]byte{fill}, 8))
		return n, nil
	}
	c.sc.maskingIVGen = func(b []byte) error { copy(b, bytes.Repeat([]byte{fill + 8}, len(b))); return nil }
}

var c45FuzzEnv = sync.OnceValue(func() *c45FuzzEnvT {
	keyA, _ := crypto.ToECDSA(bytes.Repeat([]byte{0x31}, 32))
	keyB, _ := crypto.ToECDSA(bytes.Repeat([]byte{0x32}, 32))
	e := &c45FuzzEnvT{keyB: keyB, lnA: enode.NewLocalNode(c45DB(), keyA), lnB: enode.NewLocalNode(c45DB(), keyB),
		read: bytes.Repeat([]byte{1}, 16), write: bytes.Repeat([]byte{2}, 16)}
	e.nodeA = e.lnA.Node()
	ca := NewCodec(e.lnA, keyA, new(mclock.Simulated), nil)
	c45FuzzHooks(ca, 0x40)
	ca.sc.storeNewSession(e.lnB.ID(), c45FuzzAddrB, &session{readKey: e.write, writeKey: e.read}, e.lnB.Node())
	enc, _, err := ca.Encode(e.lnB.ID(), c45FuzzAddrB, &Ping{ReqID: []byte{1, 2}, ENRSeq: 9}, nil)
	if err != nil {
		panic(err)
	}
	e.valid = bytes.Clone(enc)
	return e
})

// c45FuzzNode builds a fresh codec for B holding a session and a pending
// challenge for A.
func c45FuzzNode() (cb *Codec, idA, idB enode.ID, s *session, valid []byte) {
	e := c45FuzzEnv()
	cb = NewCodec(e.lnB, e.keyB, new(mclock.Simulated), nil)
	c45FuzzHooks(cb, 0x41)
	s = &session{readKey: e.read, writeKey: e.write}
	cb.sc.storeNewSession(e.lnA.ID(), c45FuzzAddrA, s, e.nodeA)
	ch := &Whoareyou{Node: e.nodeA, RecordSeq: e.nodeA.Seq(), IDNonce: [16]byte{7}}
	if _, _, err := cb.Encode(e.lnA.ID(), c45FuzzAddrA, ch, nil); err != nil {
		panic(err)
	}
	return cb, e.lnA.ID(), e.lnB.ID(), s, e.valid
}

// FuzzVerifC45Decode: raw bytes into Codec.Decode of a node that holds a session
// and a pending challenge: never a panic, never a message from bytes other than
// the one valid packet, never a replaced session.
func FuzzVerifC45Decode(f *testing.F) {
	_, _, idB, _, valid := c45FuzzNode()
	f.Add(valid)
	unmasked := bytes.Clone(valid)
	var iv [16]byte
	copy(iv[:], unmasked)
	applyMasking(idB, iv, unmasked) // masking is an involution: this is the clear-text header form
	f.Add(unmasked)
	f.Add(make([]byte, 63))
	f.Fuzz(func(t *testing.T, data []byte) {
		if len(data) > maxPacketSize {
			data = data[:maxPacketSize]
		}
		cb, idA, idB, s, valid := c45FuzzNode()
		// tried as is, and masked for B so that mutations of clear-text headers get past unmasking
		for _, mask := range []bool{false, true} {
			in := bytes.Clone(data)
			if mask {
				if len(in) <= sizeofMaskingIV {
					continue
				}
				var iv [16]byte
				copy(iv[:], in)
				applyMasking(idB, iv, in)
			}
			_, _, p, err := cb.Decode(in, "10.0.0.1:30303")
			if err == nil && c45IsMessage(p) && !bytes.Equal(in, valid) {
				t.Fatalf("bytes %x decoded as message %#v", in, p)
			}
			if bytes.Equal(in, valid) && (err != nil || !c45IsMessage(p)) {
				t.Fatalf("VERIF-HARNESS-BUG: the valid packet does not decode: %v %T", err, p)
			}
			if cb.sc.session(idA, "10.0.0.1:30303") != s {
				t.Fatalf("bytes %x replaced the session", in)
			}
		}
	})
}
