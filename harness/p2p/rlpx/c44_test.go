//go:build verif

package rlpx

// C44 — RLPx delivers authenticated messages intact and in order.
//
// Two rlpx.Conn are connected by an in-memory duplex stream (c44Wire, one per
// direction) whose reader fragments the byte stream into drawn chunk sizes and whose
// writer side is a tampering proxy operating on the packets written by the honest
// peer (handshake packet = packet 0 of a direction, message k = packet k+1).
//
// Handshake ephemeral keys, nonces and padding come from crypto/rand inside geth and
// cannot be fixed without source hooks, so wire bytes differ between runs; every
// oracle below is independent of them (tamper positions are drawn as region+position
// and resolved against the actual packet).

import (
	"bytes"
	"crypto/ecdsa"
	"encoding/binary"
	"errors"
	"fmt"
	"io"
	"math/big"
	"net"
	"runtime"
	"strings"
	"sync"
	"testing"
	"time"

	"github.com/ethereum/go-ethereum/crypto"
	"github.com/ethereum/go-ethereum/crypto/ecies"
	"pgregory.net/rapid"
	vs "verif.local/kit/stat"
)

// ---- in-memory wire ----------------------------------------------------------------

var errC44NoData = errors.New("c44: no more data on the wire (peer idle)")

const (
	c44Flip = iota
	c44Replace
	c44DropBytes
	c44DropPacket
	c44Dup
	c44Insert
	c44Swap
	c44BadPoint // overwrite the ECIES ephemeral public key of a handshake packet
	c44NumKinds
)

var c44KindNames = []string{"flip", "replace", "dropbytes", "droppacket", "dup", "insert", "swap", "badpoint"}

type c44Tamper struct {
	Dir    int // 0: A->B, 1: B->A
	Packet int // 0 = handshake packet, k+1 = message k
	Kind   int
	Region int // region of the packet (see c44Regions); -1 = at the very end (insert only)
	Pos    int // position inside the region (mod region length)
	Bit    uint
	Delta  byte
	N      int
	Junk   []byte
	Point  []byte // 64 bytes, for c44BadPoint

	// resolved when applied
	Applied  bool
	FirstBad int // index of the first receiver event that cannot be honest (0 = handshake, k+1 = Read of message k)
	Where    string
}

func (t *c44Tamper) String() string {
	if t == nil {
		return "none"
	}
	return fmt.Sprintf("dir=%d packet=%d kind=%s region=%d pos=%d bit=%d delta=%d n=%d junk=%x point=%x", t.Dir, t.Packet, c44KindNames[t.Kind], t.Region, t.Pos, t.Bit, t.Delta, t.N, t.Junk, t.Point)
}

// c44Regions returns the byte ranges of the parts of a packet.
func c44Regions(handshake bool, n int) (names []string, bounds [][2]int) {
	if handshake {
		// size prefix | ECIES ephemeral pubkey | IV | ciphertext | MAC
		if n < 2+65+16+32 {
			return []string{"hs-all"}, [][2]int{{0, n}}
		}
		return []string{"hs-prefix", "hs-ecies-pubkey", "hs-iv", "hs-ciphertext", "hs-mac"},
			[][2]int{{0, 2}, {2, 67}, {67, 83}, {83, n - 32}, {n - 32, n}}
	}
	if n < 64 {
		return []string{"frame-all"}, [][2]int{{0, n}}
	}
	return []string{"frame-header", "frame-header-mac", "frame-body", "frame-mac"},
		[][2]int{{0, 16}, {16, 32}, {32, n - 16}, {n - 16, n}}
}

type c44Wire struct {
	mu           sync.Mutex
	cond         *sync.Cond
	q            []byte
	closed       bool
	eofWhenEmpty bool
	nonblock     bool
	packets      [][]byte // honest packets in write order
	tamper       *c44Tamper
	held         []byte
	chunks       []int
	ci           int
	frags        int // number of Read calls that returned data
	yield        bool
	yieldState   uint64
}

func newC44Wire(chunks []int) *c44Wire {
	w := &c44Wire{chunks: chunks}
	w.cond = sync.NewCond(&w.mu)
	return w
}

func (w *c44Wire) maybeYield() {
	if !w.yield {
		return
	}
	w.mu.Lock()
	w.yieldState = w.yieldState*6364136223846793005 + 1442695040888963407
	n := (w.yieldState >> 60) & 3
	w.mu.Unlock()
	for i := uint64(0); i < n; i++ {
		runtime.Gosched()
	}
}

func (w *c44Wire) write(p []byte) (int, error) {
	w.maybeYield()
	w.mu.Lock()
	defer w.mu.Unlock()
	if w.closed {
		return 0, io.ErrClosedPipe
	}
	cp := append([]byte{}, p...)
	idx := len(w.packets)
	w.packets = append(w.packets, cp)
	for _, out := range w.applyTamper(idx, cp) {
		w.q = append(w.q, out...)
	}
	w.cond.Broadcast()
	return len(p), nil
}

// applyTamper is the man in the middle. It returns the byte strings forwarded in place of p.
func (w *c44Wire) applyTamper(idx int, p []byte) [][]byte {
	t := w.tamper
	if t == nil {
		return [][]byte{p}
	}
	if w.held != nil {
		h := w.held
		w.held = nil
		return [][]byte{p, h}
	}
	if idx != t.Packet || t.Applied {
		return [][]byte{p}
	}
	t.Applied = true
	t.FirstBad = idx
	w.eofWhenEmpty = true // the receiver must never wait for bytes the proxy swallowed
	names, bounds := c44Regions(idx == 0, len(p))
	ri := 0
	if t.Region >= 0 {
		ri = t.Region % len(bounds)
	}
	lo, hi := bounds[ri][0], bounds[ri][1]
	off := lo
	if hi > lo {
		off = lo + t.Pos%(hi-lo)
	}
	t.Where = names[ri]
	switch t.Kind {
	case c44Flip:
		q := append([]byte{}, p...)
		q[off] ^= 1 << (t.Bit % 8)
		return [][]byte{q}
	case c44Replace:
		q := append([]byte{}, p...)
		d := t.Delta
		if d == 0 {
			d = 1
		}
		q[off] += d
		return [][]byte{q}
	case c44DropBytes:
		n := 1 + t.N%(len(p)-off)
		return [][]byte{p[:off], p[off+n:]}
	case c44DropPacket:
		t.Where = "whole"
		return nil
	case c44Dup:
		t.Where = "whole"
		t.FirstBad = idx + 1
		return [][]byte{p, p}
	case c44Insert:
		junk := t.Junk
		if len(junk) == 0 {
			junk = []byte{0}
		}
		if t.Region < 0 {
			t.Where = "after-packet"
			t.FirstBad = idx + 1
			return [][]byte{p, junk}
		}
		return [][]byte{p[:off], junk, p[off:]}
	case c44Swap:
		t.Where = "whole"
		w.held = p
		return nil
	case c44BadPoint:
		q := append([]byte{}, p...)
		if idx == 0 && len(q) >= 67 {
			q[2] = 4
			copy(q[3:67], t.Point)
			t.Where = "hs-ecies-pubkey"
		} else {
			q[off] ^= 0x80
		}
		return [][]byte{q}
	}
	panic("bad tamper kind")
}

func (w *c44Wire) read(p []byte) (int, error) {
	w.maybeYield()
	w.mu.Lock()
	defer w.mu.Unlock()
	if len(p) == 0 {
		return 0, nil
	}
	for len(w.q) == 0 {
		switch {
		case w.closed:
			return 0, io.EOF
		case w.eofWhenEmpty, w.nonblock:
			return 0, errC44NoData
		}
		w.cond.Wait()
	}
	c := 0
	if len(w.chunks) > 0 {
		c = w.chunks[w.ci%len(w.chunks)]
		w.ci++
	}
	if c <= 0 || c > len(w.q) {
		c = len(w.q)
	}
	if len(w.q) > 1<<18 && c < 1<<16 {
		c = 1 << 16 // keep huge messages affordable
	}
	if c > len(p) {
		c = len(p)
	}
	copy(p, w.q[:c])
	w.q = w.q[c:]
	w.frags++
	return c, nil
}

func (w *c44Wire) close() {
	w.mu.Lock()
	w.closed = true
	w.cond.Broadcast()
	w.mu.Unlock()
}

func (w *c44Wire) set(f func()) {
	w.mu.Lock()
	f()
	w.cond.Broadcast()
	w.mu.Unlock()
}

type c44Conn struct{ in, out *c44Wire }

func (c *c44Conn) Read(p []byte) (int, error)       { return c.in.read(p) }
func (c *c44Conn) Write(p []byte) (int, error)      { return c.out.write(p) }
func (c *c44Conn) Close() error                     { c.in.close(); c.out.close(); return nil }
func (c *c44Conn) LocalAddr() net.Addr              { return &net.TCPAddr{IP: net.IP{127, 0, 0, 1}, Port: 1} }
func (c *c44Conn) RemoteAddr() net.Addr             { return &net.TCPAddr{IP: net.IP{127, 0, 0, 1}, Port: 2} }
func (c *c44Conn) SetDeadline(time.Time) error      { return nil }
func (c *c44Conn) SetReadDeadline(time.Time) error  { return nil }
func (c *c44Conn) SetWriteDeadline(time.Time) error { return nil }

// ---- generators --------------------------------------------------------------------

var (
	c44P, _ = new(big.Int).SetString("FFFFFFFFFFFFFFFFFFFFFFFFFFFFFFFFFFFFFFFFFFFFFFFFFFFFFFFEFFFFFC2F", 16)
	c44N, _ = new(big.Int).SetString("FFFFFFFFFFFFFFFFFFFFFFFFFFFFFFFEBAAEDCE6AF48A03BBFD25E8CD0364141", 16)
)

// c44OnCurve is an independent y^2 = x^3 + 7 (mod p) check with range checks.
func c44OnCurve(x, y *big.Int) bool {
	if x.Sign() < 0 || y.Sign() < 0 || x.Cmp(c44P) >= 0 || y.Cmp(c44P) >= 0 {
		return false
	}
	l := new(big.Int).Mul(y, y)
	l.Mod(l, c44P)
	r := new(big.Int).Mul(x, x)
	r.Mul(r, x)
	r.Add(r, big.NewInt(7))
	r.Mod(r, c44P)
	return l.Cmp(r) == 0
}

func c44DrawKey(rt *rapid.T, label string) *ecdsa.PrivateKey {
	var d *big.Int
	switch rapid.IntRange(0, 9).Draw(rt, label+"kind") {
	case 0:
		d = big.NewInt(int64(rapid.IntRange(1, 3).Draw(rt, label+"small")))
	case 1:
		d = new(big.Int).Sub(c44N, big.NewInt(int64(rapid.IntRange(1, 3).Draw(rt, label+"nminus"))))
	default:
		b := rapid.SliceOfN(rapid.Byte(), 32, 32).Draw(rt, label+"scalar")
		d = new(big.Int).SetBytes(b)
		d.Mod(d, new(big.Int).Sub(c44N, big.NewInt(1)))
		d.Add(d, big.NewInt(1))
	}
	buf := make([]byte, 32)
	d.FillBytes(buf)
	k, err := crypto.ToECDSA(buf)
	if err != nil {
		rt.Fatalf("VERIF-HARNESS-BUG: ToECDSA(%x): %v", buf, err)
	}
	return k
}

// c44DrawInvalidPoint draws a 64-byte X||Y that is not a valid secp256k1 point.
func c44DrawInvalidPoint(rt *rapid.T) (pt []byte, class string) {
	pt = make([]byte, 64)
	G := crypto.S256().Params()
	switch rapid.IntRange(0, 6).Draw(rt, "ptkind") {
	case 0:
		class = "zero(infinity)"
	case 1:
		class = "all-ff"
		for i := range pt {
			pt[i] = 0xff
		}
	case 2:
		class = "valid-x-wrong-y"
		k := c44DrawKey(rt, "ptkey")
		k.X.FillBytes(pt[:32])
		y := new(big.Int).Add(k.Y, big.NewInt(int64(rapid.IntRange(1, 5).Draw(rt, "dy"))))
		y.Mod(y, c44P)
		y.FillBytes(pt[32:])
	case 3:
		class = "x-plus-p"
		// (x+p, y) for small on-curve-independent x: coordinates >= p must be rejected
		x := new(big.Int).Add(c44P, big.NewInt(int64(rapid.IntRange(0, 900).Draw(rt, "xoff"))))
		x.FillBytes(pt[:32])
		G.Gy.FillBytes(pt[32:])
	case 4:
		class = "y-plus-p"
		G.Gx.FillBytes(pt[:32])
		y := new(big.Int).Add(c44P, big.NewInt(int64(rapid.IntRange(0, 900).Draw(rt, "yoff"))))
		y.FillBytes(pt[32:])
	case 5:
		class = "x-zero"
		new(big.Int).SetBytes(rapid.SliceOfN(rapid.Byte(), 32, 32).Draw(rt, "y")).FillBytes(pt[32:])
	default:
		class = "random"
		copy(pt, rapid.SliceOfN(rapid.Byte(), 64, 64).Draw(rt, "xy"))
	}
	if c44OnCurve(new(big.Int).SetBytes(pt[:32]), new(big.Int).SetBytes(pt[32:])) {
		// astronomically unlikely; fall back to the zero point
		pt, class = make([]byte, 64), "zero(infinity)"
	}
	return pt, class
}

type c44Msg struct {
	Code  uint64
	Data  []byte
	Class string
	Wire  int // wire size reported by Write
}

func c44Fill(seed uint64, n int, mode int) []byte {
	b := make([]byte, n)
	switch mode {
	case 0: // zeros (highly compressible)
	case 1: // short repeating pattern
		pat := []byte{byte(seed), byte(seed >> 8), byte(seed >> 16), 0xc2, 0x80}
		for i := range b {
			b[i] = pat[i%len(pat)]
		}
	default: // incompressible
		x := seed | 1
		for i := 0; i+8 <= n; i += 8 {
			x ^= x << 13
			x ^= x >> 7
			x ^= x << 17
			binary.LittleEndian.PutUint64(b[i:], x)
		}
		for i := n &^ 7; i < n; i++ {
			x ^= x << 13
			x ^= x >> 7
			x ^= x << 17
			b[i] = byte(x)
		}
	}
	return b
}

var c44Codes = []uint64{0, 1, 16, 127, 128, 255, 256, 65535, 65536, 1<<32 - 1, 1 << 32, 1<<63 + 5, 1<<64 - 1}

func c44DrawMsg(rt *rapid.T, allowHuge, snappyOn bool) c44Msg {
	var m c44Msg
	if rapid.Bool().Draw(rt, "codePool") {
		m.Code = rapid.SampledFrom(c44Codes).Draw(rt, "code")
	} else {
		m.Code = rapid.Uint64().Draw(rt, "codeRnd")
	}
	sizes := []int{0, 1, 14, 15, 16, 17, 30, 31, 32, 33, 47, 48, 1024, 4096, 65535, 65536}
	var n int
	k := rapid.IntRange(0, 11).Draw(rt, "sizeKind")
	switch {
	case k <= 5:
		n = rapid.SampledFrom(sizes).Draw(rt, "size")
		m.Class = fmt.Sprintf("size=%d", n)
	case k <= 9:
		n = rapid.IntRange(0, 3000).Draw(rt, "sizeRnd")
		m.Class = "size=random<=3000"
	case k == 10 && allowHuge:
		// the largest frame: code + payload == maxUint24 exactly
		n = maxUint24 - c44IntSize(m.Code)
		m.Class = "size=max"
	default:
		n = rapid.IntRange(3000, 200000).Draw(rt, "sizeBig")
		m.Class = "size=random<=200000"
	}
	fillMode := rapid.IntRange(0, 2).Draw(rt, "fillMode")
	if m.Class == "size=max" && snappyOn {
		// an incompressible payload of maximal size grows under snappy and is (legitimately)
		// refused by Write; keep the maximal message deliverable
		fillMode %= 2
	}
	m.Data = c44Fill(rapid.Uint64().Draw(rt, "fill"), n, fillMode)
	return m
}

// c44IntSize is the RLP size of an unsigned integer (independent of package rlp).
func c44IntSize(x uint64) int {
	if x < 128 {
		return 1
	}
	n := 0
	for ; x > 0; x >>= 8 {
		n++
	}
	return 1 + n
}

var c44ChunkPool = []int{1, 2, 15, 16, 17, 31, 32, 33, 1024, 0}

func c44DrawChunks(rt *rapid.T, label string) []int {
	if rapid.IntRange(0, 4).Draw(rt, label+"whole") == 0 {
		return []int{0}
	}
	return rapid.SliceOfN(rapid.SampledFrom(c44ChunkPool), 1, 6).Draw(rt, label)
}

// ---- session -----------------------------------------------------------------------

type c44Side struct {
	name    string
	key     *ecdsa.PrivateKey
	conn    *Conn
	raw     *c44Conn
	out     []c44Msg // messages this side writes
	written int
	in      []c44Msg // messages this side should read (peer's out)
	read    int
	dead    bool // a Read returned an error: the connection is unusable in this direction
	extra   bool // extra read beyond the last message done
	// last successfully read payload, re-validated after the side's next Write
	lastData []byte
	lastWant []byte
	hsPub    *ecdsa.PublicKey
	hsErr    error
}

type c44Outcome struct {
	hsOK            bool
	fragMsgs        int // delivered messages spanning >=2 AES blocks through >=3 fragments
	delivered       int
	tamperExercised bool
	tamperErr       string
}

const c44Bound = 120 * time.Second

func c44Inconclusive(t *testing.T, format string, a ...any) {
	t.Fatalf("VERIF-INCONCLUSIVE C44: "+format, a...)
}

// c44Handshake runs both handshakes concurrently over the wires.
func c44Handshake(t *testing.T, a, b *c44Side, dialKey *ecdsa.PublicKey, ab, ba *c44Wire) {
	a.raw = &c44Conn{in: ba, out: ab}
	b.raw = &c44Conn{in: ab, out: ba}
	a.conn = NewConn(a.raw, dialKey)
	b.conn = NewConn(b.raw, nil)
	var wg sync.WaitGroup
	for _, s := range []*c44Side{a, b} {
		wg.Add(1)
		go func(s *c44Side) {
			defer wg.Done()
			s.hsPub, s.hsErr = s.conn.Handshake(s.key)
			if s.hsErr != nil {
				s.raw.Close() // a failed handshake tears the connection down
			}
		}(s)
	}
	done := make(chan struct{})
	go func() { wg.Wait(); close(done) }()
	select {
	case <-done:
	case <-time.After(c44Bound):
		a.raw.Close()
		b.raw.Close()
		c44Inconclusive(t, "handshake did not finish within %v", c44Bound)
	}
}

func c44SamePub(a, b *ecdsa.PublicKey) bool {
	return a != nil && b != nil && a.X.Cmp(b.X) == 0 && a.Y.Cmp(b.Y) == 0
}

// c44WriteOne lets side s write its next message and checks the Write contract.
func c44WriteOne(rt *rapid.T, s *c44Side, snappyOn bool) {
	m := s.out[s.written]
	s.written++
	orig := append([]byte{}, m.Data...)
	before := len(s.raw.out.packets)
	n, err := s.conn.Write(m.Code, m.Data)
	if !bytes.Equal(orig, m.Data) {
		rt.Fatalf("%s: Write(code=%d, %d bytes) modified the caller's payload", s.name, m.Code, len(orig))
	}
	if err != nil {
		rt.Fatalf("%s: Write(code=%d, %d bytes, snappy=%v) failed: %v", s.name, m.Code, len(m.Data), snappyOn, err)
	}
	pk := s.raw.out.packets
	if len(pk) != before+1 {
		rt.Fatalf("VERIF-HARNESS-BUG: Write produced %d transport writes (layout assumption: one per frame)", len(pk)-before)
	}
	if !snappyOn {
		if int(n) != len(m.Data) {
			rt.Fatalf("%s: Write returned wire size %d for %d bytes without compression", s.name, n, len(m.Data))
		}
	} else if int(n) > len(m.Data)+len(m.Data)/6+32 {
		rt.Fatalf("%s: Write returned wire size %d for %d bytes with compression", s.name, n, len(m.Data))
	}
	// frame layout of the RLPx spec: header(16) mac(16) body padded to 16 mac(16)
	fsize := c44IntSize(m.Code) + int(n)
	want := 32 + (fsize+15)/16*16 + 16
	if got := len(pk[len(pk)-1]); got != want {
		rt.Fatalf("%s: frame for code=%d wire-size=%d is %d bytes on the wire, RLPx framing gives %d", s.name, m.Code, n, got, want)
	}
	s.out[s.written-1].Wire = int(n) // remember the wire size for the reader
	// data returned by the previous Read must stay valid while writing
	if s.lastData != nil && !bytes.Equal(s.lastData, s.lastWant) {
		rt.Fatalf("%s: payload returned by the last Read changed during a Write on the same Conn", s.name)
	}
}

// c44ReadOne lets side s read its next message. firstBad is the first receiver event
// (1+message index) that cannot be honest on this direction, or -1 for an honest direction.
func c44ReadOne(rt *rapid.T, s *c44Side, peer *c44Side, firstBad int, out *c44Outcome) {
	idx := s.read
	event := idx + 1
	fragsBefore := s.raw.in.frags
	s.lastData, s.lastWant = nil, nil
	code, data, wire, err := s.conn.Read()
	frags := s.raw.in.frags - fragsBefore
	beyond := idx >= len(s.in)
	if beyond {
		s.extra = true
	} else {
		s.read++
	}
	if err != nil {
		s.dead = true
		if firstBad < 0 || event < firstBad {
			if beyond && errors.Is(err, errC44NoData) {
				return // honest stream exhausted: nothing more was sent
			}
			if firstBad < 0 {
				rt.Fatalf("%s: Read of message %d on an untampered direction failed: %v", s.name, idx, err)
			}
			// Error before the first tampered byte was needed. The statement allows an error
			// "at or before"; for geth this only happens when the tampered bytes were
			// already buffered, which still is a report, not a delivery.
			out.tamperErr = "early:" + err.Error()
			return
		}
		out.tamperExercised = true
		out.tamperErr = err.Error()
		return
	}
	// a message was delivered
	if beyond {
		rt.Fatalf("%s: Read returned a message (code=%d, %d bytes) although only %d were sent", s.name, code, len(data), len(s.in))
	}
	if firstBad >= 0 && event >= firstBad {
		rt.Fatalf("%s: Read of message %d succeeded (code=%d, %d bytes) although the wire was modified at or before it", s.name, idx, code, len(data))
	}
	want := s.in[idx]
	if code != want.Code || !bytes.Equal(data, want.Data) {
		rt.Fatalf("%s: message %d delivered as code=%d len=%d, sent as code=%d len=%d (first difference at byte %d)",
			s.name, idx, code, len(data), want.Code, len(want.Data), c44FirstDiff(data, want.Data))
	}
	if wire != peer.out[idx].Wire {
		rt.Fatalf("%s: message %d: Read reports wire size %d, the writer reported %d", s.name, idx, wire, peer.out[idx].Wire)
	}
	s.lastData, s.lastWant = data, want.Data
	out.delivered++
	if c44IntSize(code)+wire > 16 && frags >= 3 {
		out.fragMsgs++
	}
}

func c44FirstDiff(a, b []byte) int {
	for i := 0; i < len(a) && i < len(b); i++ {
		if a[i] != b[i] {
			return i
		}
	}
	if len(a) != len(b) {
		return min(len(a), len(b))
	}
	return -1
}

// ---- the main property ---------------------------------------------------------------

func c44Session(t *testing.T, st *vs.S) func(rt *rapid.T) {
	return func(rt *rapid.T) {
		c := st.Case()
		a := &c44Side{name: "A(initiator)", key: c44DrawKey(rt, "a")}
		b := &c44Side{name: "B(recipient)", key: c44DrawKey(rt, "b")}
		snappyOn := rapid.Bool().Draw(rt, "snappy")
		mode := rapid.SampledFrom([]string{"honest-seq", "honest-seq", "honest-seq", "honest-seq", "honest-seq", "honest-conc", "honest-conc", "honest-conc", "honest-conc",
			"tamper", "tamper", "tamper", "tamper", "tamper", "tamper", "tamper", "tamper", "tamper", "tamper", "wrong-dest"}).Draw(rt, "mode")
		ab := newC44Wire(c44DrawChunks(rt, "chunksAB"))
		ba := newC44Wire(c44DrawChunks(rt, "chunksBA"))
		huge := vs.Thorough() && mode != "honest-conc" && rapid.IntRange(0, 40).Draw(rt, "huge") == 0
		na := rapid.IntRange(0, 12).Draw(rt, "nAB")
		nb := rapid.IntRange(0, 12).Draw(rt, "nBA")
		if rapid.IntRange(0, 9).Draw(rt, "long") == 0 {
			na = rapid.IntRange(12, 30).Draw(rt, "nABlong")
		}
		for i := 0; i < na; i++ {
			a.out = append(a.out, c44DrawMsg(rt, huge && i == 0, snappyOn))
		}
		for i := 0; i < nb; i++ {
			b.out = append(b.out, c44DrawMsg(rt, false, snappyOn))
		}
		a.in, b.in = b.out, a.out

		var tam *c44Tamper
		if mode == "tamper" {
			tam = &c44Tamper{
				Dir: rapid.IntRange(0, 1).Draw(rt, "tdir"),
				Kind: rapid.SampledFrom([]int{c44Flip, c44Flip, c44Flip, c44Replace, c44Replace, c44Replace, c44DropBytes, c44DropBytes,
					c44DropPacket, c44Dup, c44Insert, c44Insert, c44Swap, c44Swap, c44BadPoint}).Draw(rt, "tkind"),
				Region: rapid.IntRange(0, 4).Draw(rt, "tregion"),
				Pos:    rapid.IntRange(0, 1<<20).Draw(rt, "tpos"),
				Bit:    uint(rapid.IntRange(0, 7).Draw(rt, "tbit")),
				Delta:  byte(rapid.IntRange(1, 255).Draw(rt, "tdelta")),
				N:      rapid.IntRange(0, 1<<20).Draw(rt, "tn"),
			}
			nmsgs := na
			if tam.Dir == 1 {
				nmsgs = nb
			}
			// packet 0 is the handshake packet; bias towards it and towards existing messages
			if nmsgs == 0 || rapid.IntRange(0, 2).Draw(rt, "tHandshake") == 0 {
				tam.Packet = 0
			} else {
				tam.Packet = rapid.IntRange(1, nmsgs).Draw(rt, "tpacket")
			}
			switch tam.Kind {
			case c44Insert:
				tam.Junk = rapid.SliceOfN(rapid.Byte(), 1, 40).Draw(rt, "tjunk")
				if rapid.IntRange(0, 2).Draw(rt, "tAtEnd") == 0 {
					tam.Region = -1
				}
			case c44Swap:
				// needs a following packet; the handshake packet cannot be delayed behind a
				// message that is only written after the handshake
				if tam.Packet == 0 || tam.Packet >= nmsgs {
					tam.Kind = c44DropPacket
				}
			case c44BadPoint:
				tam.Packet = 0
				tam.Point, _ = c44DrawInvalidPoint(rt)
			}
			if tam.Dir == 0 {
				ab.tamper = tam
			} else {
				ba.tamper = tam
			}
		}
		dial := &b.key.PublicKey
		if mode == "wrong-dest" {
			other := c44DrawKey(rt, "c")
			if other.PublicKey.X.Cmp(dial.X) == 0 {
				// Same key, or its negation n-d: ECDH only uses the x coordinate, so the holder of d
				// also "owns" n-d (public key -Q) and legitimately completes such a handshake.
				mode = "honest-seq"
			} else {
				dial = &other.PublicKey
			}
		}
		desc := fmt.Sprintf("mode=%s snappy=%v a=%x b=%x nAB=%d nBA=%d chunksAB=%v chunksBA=%v tamper={%s}", mode, snappyOn,
			a.key.D.Bytes(), b.key.D.Bytes(), na, nb, ab.chunks, ba.chunks, tam)
		for _, m := range a.out {
			desc += fmt.Sprintf(" >%d/%d", m.Code, len(m.Data))
		}
		for _, m := range b.out {
			desc += fmt.Sprintf(" <%d/%d", m.Code, len(m.Data))
		}
		c.Class("mode=" + mode)
		c.Classf("snappy=%v", snappyOn)
		for _, m := range append(append([]c44Msg{}, a.out...), b.out...) {
			c.Class("msg:" + m.Class)
		}

		out := &c44Outcome{}
		c44Handshake(t, a, b, dial, ab, ba)

		// --- handshake oracle
		if a.hsErr == nil && !c44SamePub(a.hsPub, &b.key.PublicKey) {
			rt.Fatalf("initiator handshake succeeded but returned a key that is not the recipient's (dialled %x)", crypto.FromECDSAPub(dial))
		}
		if b.hsErr == nil && !c44SamePub(b.hsPub, &a.key.PublicKey) {
			rt.Fatalf("recipient handshake succeeded but returned %x, not the initiator's key", crypto.FromECDSAPub(b.hsPub))
		}
		hsTampered := tam != nil && tam.Packet == 0
		switch {
		case mode == "wrong-dest":
			if a.hsErr == nil || b.hsErr == nil {
				rt.Fatalf("handshake completed (A err=%v, B err=%v) although the initiator dialled a key the recipient does not own", a.hsErr, b.hsErr)
			}
			c.Class("handshake:rejected-wrong-dest")
		case !hsTampered:
			if a.hsErr != nil || b.hsErr != nil {
				rt.Fatalf("honest handshake failed: A err=%v, B err=%v", a.hsErr, b.hsErr)
			}
			out.hsOK = true
		default:
			if !tam.Applied {
				rt.Fatalf("VERIF-HARNESS-BUG: handshake tamper not applied")
			}
			recv := b // receiver of the tampered packet
			if tam.Dir == 1 {
				recv = a
			}
			c.Classf("tamper:%s@%s", c44KindNames[tam.Kind], tam.Where)
			if tam.FirstBad == 0 {
				// bytes of the handshake packet itself were modified
				c.Fault()
				if recv.hsErr == nil {
					rt.Fatalf("%s accepted a handshake packet modified on the wire (%s at %s)", recv.name, c44KindNames[tam.Kind], tam.Where)
				}
				out.tamperExercised = true
				out.tamperErr = recv.hsErr.Error()
				if tam.Kind == c44BadPoint && !errors.Is(recv.hsErr, ecies.ErrInvalidPublicKey) {
					rt.Fatalf("%s: handshake packet carrying the invalid ephemeral point %x was rejected with %q, not as an invalid public key (the point must be refused before use)",
						recv.name, tam.Point, recv.hsErr)
				}
				c.Class("handshake:rejected-tampered")
			} else {
				// packet intact, extra bytes follow: the handshake itself is honest
				if a.hsErr != nil || b.hsErr != nil {
					rt.Fatalf("handshake failed although both handshake packets were intact: A err=%v, B err=%v", a.hsErr, b.hsErr)
				}
				out.hsOK = true
			}
		}

		if out.hsOK {
			a.conn.SetSnappy(snappyOn)
			b.conn.SetSnappy(snappyOn)
			fb := [2]int{-1, -1} // per direction: first receiver event that cannot be honest
			if mode == "honest-conc" {
				c44Concurrent(t, rt, a, b, ab, ba, snappyOn, out)
			} else {
				ab.set(func() { ab.nonblock = true })
				ba.set(func() { ba.nonblock = true })
				sides := [2]*c44Side{a, b}
				for step := 0; step < 4*(na+nb)+16; step++ {
					if tam != nil && tam.Applied {
						fb[tam.Dir] = tam.FirstBad
					}
					// enabled operations
					type op struct {
						who   int
						write bool
					}
					var ops []op
					for w, s := range sides {
						peer := sides[1-w]
						if s.written < len(s.out) {
							ops = append(ops, op{w, true})
						}
						if !s.dead && !s.extra {
							if s.read < peer.written {
								ops = append(ops, op{w, false})
							} else if peer.written == len(peer.out) && s.read == len(s.in) {
								ops = append(ops, op{w, false}) // the read beyond the last message
							}
						}
					}
					if len(ops) == 0 {
						break
					}
					o := ops[rapid.IntRange(0, len(ops)-1).Draw(rt, "op")]
					s, peer := sides[o.who], sides[1-o.who]
					if o.write {
						c44WriteOne(rt, s, snappyOn)
					} else {
						dir := 1 - o.who // direction index of the stream s reads: A reads B->A (1), B reads A->B (0)
						if tam != nil && tam.Applied {
							fb[tam.Dir] = tam.FirstBad
						}
						c44ReadOne(rt, s, peer, fb[dir], out)
					}
				}
				for _, s := range sides {
					if !s.dead && !s.extra {
						rt.Fatalf("VERIF-HARNESS-BUG: %s did not finish reading (read %d of %d)", s.name, s.read, len(s.in))
					}
				}
				if tam != nil && tam.Packet > 0 {
					if !tam.Applied {
						rt.Fatalf("VERIF-HARNESS-BUG: frame tamper on packet %d never applied", tam.Packet)
					}
					c.Fault()
					c.Classf("tamper:%s@%s", c44KindNames[tam.Kind], tam.Where)
					recv := b
					if tam.Dir == 1 {
						recv = a
					}
					if !recv.dead {
						rt.Fatalf("%s read all messages without error although the wire was modified (%s at %s of packet %d)", recv.name, c44KindNames[tam.Kind], tam.Where, tam.Packet)
					}
				}
				if tam != nil && tam.Packet == 0 && tam.FirstBad == 1 {
					c.Fault()
					recv := b
					if tam.Dir == 1 {
						recv = a
					}
					if !recv.dead {
						rt.Fatalf("%s read all messages without error although bytes were injected after the handshake packet", recv.name)
					}
				}
			}
		}
		a.raw.Close()
		b.raw.Close()

		if out.tamperExercised {
			c.Class("outcome:tamper-reported")
		} else if strings.HasPrefix(out.tamperErr, "early:") {
			c.Class("outcome:tamper-reported-early")
		}
		if out.fragMsgs > 0 {
			c.Class("outcome:fragmented-multiblock-delivery")
		}
		nt := out.fragMsgs > 0 || out.tamperExercised
		c.NonTrivial(nt, desc)
		c.Sample(nt, func() any {
			return map[string]any{"session": desc, "delivered": out.delivered, "fragmented_multiblock": out.fragMsgs,
				"tamper_reported_as": out.tamperErr}
		})
	}
}

// c44Concurrent exchanges the messages with concurrent readers and writers on both Conns.
func c44Concurrent(t *testing.T, rt *rapid.T, a, b *c44Side, ab, ba *c44Wire, snappyOn bool, out *c44Outcome) {
	seed := uint64(len(a.out)*31+len(b.out)) + 1
	ab.set(func() { ab.yield, ab.yieldState = true, seed })
	ba.set(func() { ba.yield, ba.yieldState = true, seed*7+3 })
	var wg sync.WaitGroup
	var mu sync.Mutex
	var fails []string
	fail := func(format string, args ...any) {
		mu.Lock()
		fails = append(fails, fmt.Sprintf(format, args...))
		mu.Unlock()
	}
	wsize := [2][]int{make([]int, len(a.out)), make([]int, len(b.out))}
	rsize := [2][]int{make([]int, len(a.out)), make([]int, len(b.out))}
	frag := [2]int{}
	for w, s := range []*c44Side{a, b} {
		wg.Add(2)
		go func(w int, s *c44Side) { // writer
			defer wg.Done()
			for i, m := range s.out {
				n, err := s.conn.Write(m.Code, m.Data)
				if err != nil {
					fail("%s: concurrent Write %d failed: %v", s.name, i, err)
					s.raw.Close()
					return
				}
				wsize[w][i] = int(n)
			}
		}(w, s)
		go func(w int, s *c44Side) { // reader of the peer's messages
			defer wg.Done()
			for i, want := range s.in {
				before := s.raw.in.fragsLocked()
				code, data, wire, err := s.conn.Read()
				if err != nil {
					fail("%s: concurrent Read %d failed: %v", s.name, i, err)
					s.raw.Close()
					return
				}
				if code != want.Code || !bytes.Equal(data, want.Data) {
					fail("%s: message %d delivered as code=%d len=%d, sent as code=%d len=%d", s.name, i, code, len(data), want.Code, len(want.Data))
					s.raw.Close()
					return
				}
				rsize[1-w][i] = wire
				if c44IntSize(code)+wire > 16 && s.raw.in.fragsLocked()-before >= 3 {
					mu.Lock()
					frag[w]++
					mu.Unlock()
				}
			}
		}(w, s)
	}
	done := make(chan struct{})
	go func() { wg.Wait(); close(done) }()
	select {
	case <-done:
	case <-time.After(c44Bound):
		a.raw.Close()
		b.raw.Close()
		c44Inconclusive(t, "concurrent exchange did not finish within %v", c44Bound)
	}
	if len(fails) > 0 {
		rt.Fatalf("concurrent exchange: %s", strings.Join(fails, "; "))
	}
	for d := 0; d < 2; d++ {
		for i := range wsize[d] {
			if wsize[d][i] != rsize[d][i] {
				rt.Fatalf("direction %d message %d: writer wire size %d, reader wire size %d", d, i, wsize[d][i], rsize[d][i])
			}
		}
	}
	out.delivered += len(a.out) + len(b.out)
	out.fragMsgs += frag[0] + frag[1]
}

func (w *c44Wire) fragsLocked() int {
	w.mu.Lock()
	defer w.mu.Unlock()
	return w.frags
}

// TestVerifC44Session: handshake + message exchange, honest and with a man in the middle.
func TestVerifC44Session(t *testing.T) {
	st := vs.New("C44", t)
	vs.Check(t, 1, c44Session(t, st))
}

// TestVerifC44Limits: frame size limit on Write, and compressed payloads that claim more
// than the limit or are not valid snappy data.
func TestVerifC44Limits(t *testing.T) {
	st := vs.New("C44", t)
	vs.Check(t, 0.1, func(rt *rapid.T) {
		c := st.Case()
		a := &c44Side{name: "A(initiator)", key: c44DrawKey(rt, "a")}
		b := &c44Side{name: "B(recipient)", key: c44DrawKey(rt, "b")}
		ab, ba := newC44Wire([]int{0}), newC44Wire([]int{0})
		c44Handshake(t, a, b, &b.key.PublicKey, ab, ba)
		if a.hsErr != nil || b.hsErr != nil {
			rt.Fatalf("honest handshake failed: %v / %v", a.hsErr, b.hsErr)
		}
		ab.set(func() { ab.nonblock = true })
		code := rapid.SampledFrom(c44Codes).Draw(rt, "code")
		switch kind := rapid.SampledFrom([]string{"oversize-write", "oversize-frame", "snappy-claims-too-much", "snappy-garbage"}).Draw(rt, "kind"); kind {
		case "oversize-write", "oversize-frame":
			// payload alone (or code+payload) exceeds the 24-bit frame size: refused, nothing sent
			n := maxUint24 + 1 + rapid.IntRange(0, 64).Draw(rt, "over")
			if kind == "oversize-frame" {
				n = maxUint24 - c44IntSize(code) + 1 + rapid.IntRange(0, c44IntSize(code)-1).Draw(rt, "over")
			}
			a.conn.SetSnappy(kind == "oversize-write" && rapid.Bool().Draw(rt, "snappy"))
			_, err := a.conn.Write(code, make([]byte, n))
			if err == nil {
				rt.Fatalf("Write(code=%d, %d bytes) succeeded although code+payload exceed the 24-bit frame size", code, n)
			}
			if len(ab.packets) != 1 {
				rt.Fatalf("refused Write still put %d packets on the wire", len(ab.packets)-1)
			}
			// the connection is still usable
			a.conn.SetSnappy(false)
			if _, err := a.conn.Write(1, []byte("after")); err != nil {
				rt.Fatalf("Write after a refused oversize Write failed: %v", err)
			}
			if code, data, _, err := b.conn.Read(); err != nil || code != 1 || string(data) != "after" {
				rt.Fatalf("message after a refused oversize Write: code=%d data=%q err=%v", code, data, err)
			}
			c.Class(kind)
			c.NonTrivial(true, fmt.Sprintf("%s/%d/%d", kind, code, n))
		default:
			// writer sends plain bytes, reader has compression enabled
			var payload []byte
			if kind == "snappy-claims-too-much" {
				claimed := uint64(maxUint24) + 1 + uint64(rapid.IntRange(0, 1<<30).Draw(rt, "claim"))
				payload = binary.AppendUvarint(nil, claimed)
				payload = append(payload, rapid.SliceOfN(rapid.Byte(), 0, 64).Draw(rt, "tail")...)
			} else {
				payload = rapid.SliceOfN(rapid.Byte(), 1, 64).Draw(rt, "garbage")
			}
			if _, err := a.conn.Write(code, payload); err != nil {
				rt.Fatalf("plain Write failed: %v", err)
			}
			b.conn.SetSnappy(true)
			_, data, _, err := b.conn.Read()
			if kind == "snappy-claims-too-much" {
				if err == nil {
					rt.Fatalf("Read delivered %d bytes for a compressed payload claiming more than 16MB", len(data))
				}
				c.Fault()
			} else if err == nil {
				// the garbage happened to be a valid snappy stream: fine, it decodes to something
				c.Class("snappy-garbage-valid")
			}
			c.Class(kind)
			c.NonTrivial(true, fmt.Sprintf("%s/%d/%x", kind, code, payload))
		}
		a.raw.Close()
		b.raw.Close()
	})
}

// TestVerifC44BadPoints: handshake messages whose *content* carries an invalid curve point
// (static initiator key in auth, ephemeral key in ack) are refused by the real peer.
func TestVerifC44BadPoints(t *testing.T) {
	st := vs.New("C44", t)
	vs.Check(t, 0.5, func(rt *rapid.T) {
		c := st.Case()
		keyA, keyB := c44DrawKey(rt, "a"), c44DrawKey(rt, "b")
		control := rapid.IntRange(0, 4).Draw(rt, "control") == 0
		var point []byte
		class := "control(valid point)"
		if control {
			other := c44DrawKey(rt, "valid")
			point = crypto.FromECDSAPub(&other.PublicKey)[1:]
		} else {
			point, class = c44DrawInvalidPoint(rt)
			if _, err := importPublicKey(point); err == nil {
				rt.Fatalf("importPublicKey accepted %x (%s), which is not a point of secp256k1", point, class)
			}
		}
		ab, ba := newC44Wire(c44DrawChunks(rt, "chunksAB")), newC44Wire(c44DrawChunks(rt, "chunksBA"))
		rawA, rawB := &c44Conn{in: ba, out: ab}, &c44Conn{in: ab, out: ba}
		fakeInitiator := rapid.Bool().Draw(rt, "fakeInitiator")
		var realErr, fakeErr error
		var realPub *ecdsa.PublicKey
		var wg sync.WaitGroup
		wg.Add(2)
		if fakeInitiator {
			// crafted auth message -> real recipient
			go func() {
				defer wg.Done()
				defer rawA.out.set(func() { rawA.out.eofWhenEmpty = true })
				h := handshakeState{initiator: true, remote: ecies.ImportECDSAPublic(&keyB.PublicKey)}
				msg, err := h.makeAuthMsg(keyA)
				if err != nil {
					fakeErr = err
					return
				}
				if control {
					// the control keeps the true static key so that the signature check passes
					copy(msg.InitiatorPubkey[:], crypto.FromECDSAPub(&keyA.PublicKey)[1:])
				} else {
					copy(msg.InitiatorPubkey[:], point)
				}
				pkt, err := h.sealEIP8(msg)
				if err != nil {
					fakeErr = err
					return
				}
				_, fakeErr = rawA.Write(pkt)
			}()
			go func() {
				defer wg.Done()
				conn := NewConn(rawB, nil)
				realPub, realErr = conn.Handshake(keyB)
				if realErr == nil && conn.session == nil {
					realErr = errors.New("VERIF-HARNESS-BUG: nil session after successful handshake")
				}
			}()
		} else {
			// real initiator <- crafted ack message
			go func() {
				defer wg.Done()
				defer rawB.out.set(func() { rawB.out.eofWhenEmpty = true })
				var h handshakeState
				auth := new(authMsgV4)
				if _, err := h.readMsg(auth, keyB, rawB); err != nil {
					fakeErr = err
					return
				}
				if err := h.handleAuthMsg(auth, keyB); err != nil {
					fakeErr = err
					return
				}
				resp, err := h.makeAuthResp()
				if err != nil {
					fakeErr = err
					return
				}
				copy(resp.RandomPubkey[:], point)
				pkt, err := h.sealEIP8(resp)
				if err != nil {
					fakeErr = err
					return
				}
				_, fakeErr = rawB.Write(pkt)
			}()
			go func() {
				defer wg.Done()
				conn := NewConn(rawA, &keyB.PublicKey)
				realPub, realErr = conn.Handshake(keyA)
			}()
		}
		done := make(chan struct{})
		go func() { wg.Wait(); close(done) }()
		select {
		case <-done:
		case <-time.After(c44Bound):
			rawA.Close()
			rawB.Close()
			c44Inconclusive(t, "crafted handshake did not finish within %v", c44Bound)
		}
		if fakeErr != nil {
			rt.Fatalf("VERIF-HARNESS-BUG: crafting side failed: %v", fakeErr)
		}
		side := "ack.RandomPubkey->initiator"
		if fakeInitiator {
			side = "auth.InitiatorPubkey->recipient"
		}
		if control {
			if realErr != nil {
				rt.Fatalf("control: well-formed crafted handshake (%s) was refused: %v", side, realErr)
			}
			want := &keyB.PublicKey
			if fakeInitiator {
				want = &keyA.PublicKey
			}
			if !c44SamePub(realPub, want) {
				rt.Fatalf("control: handshake returned the wrong remote key")
			}
		} else {
			c.Fault()
			if realErr == nil {
				rt.Fatalf("handshake accepted a message carrying the invalid curve point %x (%s) in %s", point, class, side)
			}
		}
		c.Class(side)
		c.Class("point:" + class)
		c.NonTrivial(!control, fmt.Sprintf("%s|%x|%x|%x", side, point, keyA.D.Bytes(), keyB.D.Bytes()))
		c.Sample(!control, func() any {
			return map[string]any{"where": side, "point": fmt.Sprintf("%x", point), "class": class, "error": fmt.Sprint(realErr)}
		})
		rawA.Close()
		rawB.Close()
	})
}
