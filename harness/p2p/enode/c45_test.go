//go:build verif

package enode

// C45 (records part): node records are accepted only when their keys are sorted
// and unique, their size is within the limit and the signature verifies, and
// accepted records re-encode to the same bytes.

import (
	"bytes"
	"crypto/ecdsa"
	"encoding/base64"
	"encoding/hex"
	"fmt"
	"math/big"
	"sort"
	"testing"

	"github.com/ethereum/go-ethereum/crypto"
	"github.com/ethereum/go-ethereum/p2p/enr"
	"github.com/ethereum/go-ethereum/rlp"
	"pgregory.net/rapid"
	"verif.local/kit/refkeccak"
	"verif.local/kit/refrlp"
	"verif.local/kit/refsecp"
	vs "verif.local/kit/stat"
)

type c45T interface {
	Fatalf(string, ...any)
}

// c45Result is what the reference concluded about one input.
type c45Result struct {
	parsed    *c45Parsed
	structWhy string
	decoded   bool // geth accepted the encoding
	verified  bool // geth accepted the signature (v4)
	verifyWhy string
	node      bool // enode.New(ValidSchemes) accepted
	either    bool
}

// c45CheckBytes is the oracle for one candidate record encoding.
func c45CheckBytes(t c45T, in []byte) c45Result {
	var res c45Result
	p, why := c45RefParse(in)
	res.parsed, res.structWhy = p, why
	res.either = p != nil && p.opaqueNonCanon

	var r enr.Record
	err := rlp.DecodeBytes(in, &r)
	res.decoded = err == nil
	if !res.either && (err == nil) != (p != nil) {
		t.Fatalf("record %x: DecodeBytes err=%v, reference accept=%v (%s)", in, err, p != nil, why)
	}
	// Parse is decode + New(ValidSchemes).
	text := "enr:" + base64.RawURLEncoding.EncodeToString(in)
	pn, perr := Parse(ValidSchemes, text)
	if err != nil {
		if perr == nil {
			t.Fatalf("record %x: DecodeBytes failed (%v) but Parse accepted", in, err)
		}
		return res
	}
	if p == nil {
		t.Fatalf("record %x: accepted by DecodeBytes, rejected by the reference (%s)", in, why)
	}

	// Accepted encodings re-encode to the same bytes.
	out, eerr := rlp.EncodeToBytes(&r)
	if eerr != nil || !bytes.Equal(out, in) {
		t.Fatalf("record %x: accepted but re-encodes to %x (err %v)", in, out, eerr)
	}
	if r.Size() != uint64(len(in)) {
		t.Fatalf("record %x: Size()=%d, input has %d bytes", in, r.Size(), len(in))
	}
	if len(in) > enr.SizeLimit {
		t.Fatalf("record %x: accepted with %d bytes > SizeLimit", in, len(in))
	}
	// Decoded fields are the ones the reference sees.
	if r.Seq() != p.seq || !bytes.Equal(r.Signature(), p.sig) {
		t.Fatalf("record %x: seq/sig %d/%x, reference %d/%x", in, r.Seq(), r.Signature(), p.seq, p.sig)
	}
	el := r.AppendElements(nil)
	if len(el) != 1+2*len(p.keys) {
		t.Fatalf("record %x: %d content elements, reference has %d pairs", in, len(el), len(p.keys))
	}
	for i := range p.keys {
		k, _ := el[1+2*i].(string)
		v, _ := el[2+2*i].(rlp.RawValue)
		if k != string(p.keys[i]) || !bytes.Equal(v, p.vals[i]) {
			t.Fatalf("record %x: pair %d = %q/%x, reference %q/%x", in, i, k, v, p.keys[i], p.vals[i])
		}
		if i > 0 && !(string(p.keys[i-1]) < k) {
			t.Fatalf("record %x: accepted with keys %q, %q not strictly ascending", in, p.keys[i-1], k)
		}
	}
	// The container is canonical: re-encoding the parsed items with the reference
	// encoder reproduces the input.
	items := []refrlp.Item{refrlp.S(p.sig), refrlp.S(p.seqStr)}
	for i := range p.keys {
		items = append(items, refrlp.S(p.keys[i]), refrlp.R(p.vals[i]))
	}
	if canon := refrlp.Encode(refrlp.L(items...)); !bytes.Equal(canon, in) {
		t.Fatalf("record %x: accepted but the canonical form is %x", in, canon)
	}

	// Signature.
	verr := r.VerifySignature(V4ID{})
	refOK, refWhy := c45RefVerifyV4(p)
	res.verified, res.verifyWhy = verr == nil, refWhy
	if (verr == nil) != refOK {
		t.Fatalf("record %x: VerifySignature(V4ID) err=%v, reference valid=%v (%s)", in, verr, refOK, refWhy)
	}
	wantNode := refOK && c45RefSchemeV4(p)
	n, nerr := New(ValidSchemes, &r)
	res.node = nerr == nil
	if (nerr == nil) != wantNode {
		t.Fatalf("record %x: New(ValidSchemes) err=%v, reference accept=%v (sig %v %s)", in, nerr, wantNode, refOK, refWhy)
	}
	if (perr == nil) != wantNode {
		t.Fatalf("record %x: Parse err=%v, reference accept=%v", in, perr, wantNode)
	}
	if n != nil {
		id := n.ID()
		if want := c45RefNodeID(p); !bytes.Equal(id[:], want) {
			t.Fatalf("record %x: node id %x, reference %x", in, id, want)
		}
		if n.Seq() != p.seq || pn.ID() != id || pn.Seq() != p.seq {
			t.Fatalf("record %x: node seq %d / parsed %v %d, reference seq %d", in, n.Seq(), pn.ID(), pn.Seq(), p.seq)
		}
		if out, err := rlp.EncodeToBytes(n.Record()); err != nil || !bytes.Equal(out, in) {
			t.Fatalf("record %x: node record re-encodes to %x (err %v)", in, out, err)
		}
		if s := n.String(); s != text {
			t.Fatalf("record %x: String()=%s want %s", in, s, text)
		}
	}
	return res
}

// ---------------------------------------------------------------------------
// Generator.

type c45KV struct {
	k []byte
	v refrlp.Item
}

type c45Model struct {
	sig   refrlp.Item
	seq   refrlp.Item
	pairs []c45KV
	tail  []refrlp.Item // extra list elements after the pairs
}

func (m *c45Model) clone() *c45Model {
	c := &c45Model{sig: m.sig, seq: m.seq}
	c.pairs = append([]c45KV{}, m.pairs...)
	c.tail = append([]refrlp.Item{}, m.tail...)
	return c
}

func (m *c45Model) contentItems() []refrlp.Item {
	items := []refrlp.Item{m.seq}
	for _, p := range m.pairs {
		items = append(items, refrlp.S(p.k), p.v)
	}
	return append(items, m.tail...)
}

func (m *c45Model) item() refrlp.Item {
	return refrlp.L(append([]refrlp.Item{m.sig}, m.contentItems()...)...)
}

func (m *c45Model) sortPairs() {
	sort.SliceStable(m.pairs, func(i, j int) bool { return bytes.Compare(m.pairs[i].k, m.pairs[j].k) < 0 })
}

func (m *c45Model) find(key string) int {
	for i, p := range m.pairs {
		if string(p.k) == key {
			return i
		}
	}
	return -1
}

// c45Sign signs the model's current content (as it appears on the wire).
func c45Sign(t c45T, m *c45Model, key *ecdsa.PrivateKey) []byte {
	h := refkeccak.Keccak256(refrlp.Encode(refrlp.L(m.contentItems()...)))
	sig, err := crypto.Sign(h, key)
	if err != nil {
		t.Fatalf("VERIF-HARNESS-BUG: sign: %v", err)
	}
	return sig[:64]
}

func c45Compress(pub *ecdsa.PublicKey) []byte {
	out := make([]byte, 33)
	out[0] = 2 + byte(pub.Y.Bit(0))
	pub.X.FillBytes(out[1:])
	return out
}

var c45EdgeScalars = []string{
	"0000000000000000000000000000000000000000000000000000000000000001",
	"0000000000000000000000000000000000000000000000000000000000000002",
	"fffffffffffffffffffffffffffffffebaaedce6af48a03bbfd25e8cd0364140",
	"7fffffffffffffffffffffffffffffff5d576e7357a4501ddfe92f46681b20a0",
	"b71c71a67e1177ad4e901695e1b4b9ee17ae16c6668d313eac2f96dbcda3f291", // EIP-778 example key
}

func c45GenKey(rt *rapid.T, label string) *ecdsa.PrivateKey {
	var d []byte
	if rapid.IntRange(0, 9).Draw(rt, label+"Edge") == 0 {
		d, _ = hex.DecodeString(rapid.SampledFrom(c45EdgeScalars).Draw(rt, label+"Scalar"))
	} else {
		raw := rapid.SliceOfN(rapid.Byte(), 32, 32).Draw(rt, label+"Bytes")
		v := new(big.Int).SetBytes(raw)
		v.Mod(v, new(big.Int).Sub(refsecp.N, big.NewInt(1)))
		v.Add(v, big.NewInt(1))
		d = v.FillBytes(make([]byte, 32))
	}
	k, err := crypto.ToECDSA(d)
	if err != nil {
		rt.Fatalf("VERIF-HARNESS-BUG: ToECDSA(%x): %v", d, err)
	}
	return k
}

var c45KeyPool = []string{"ip", "ip6", "tcp", "tcp6", "udp", "udp6", "eth", "snap", "quic", "les", "a", "z", "i", "ic", "ie",
	"secp256k", "secp256k1x", "secp256k0", "", "\x00", "\x7f", "\x80", "\xff", "ID", "Ip"}

func c45GenKeyName(rt *rapid.T) []byte {
	switch rapid.IntRange(0, 9).Draw(rt, "keyKind") {
	case 0, 1:
		return []byte(rapid.StringMatching(`[a-z0-9]{1,8}`).Draw(rt, "asciiKey"))
	case 2:
		return rapid.SliceOfN(rapid.Byte(), 0, 6).Draw(rt, "rawKey")
	default:
		return []byte(rapid.SampledFrom(c45KeyPool).Draw(rt, "poolKey"))
	}
}

func c45GenValue(rt *rapid.T, key string) refrlp.Item {
	typed := rapid.IntRange(0, 3).Draw(rt, "typed") != 0
	if typed {
		switch key {
		case "ip":
			return refrlp.S(rapid.SliceOfN(rapid.Byte(), 4, 4).Draw(rt, "ip4"))
		case "ip6":
			return refrlp.S(rapid.SliceOfN(rapid.Byte(), 16, 16).Draw(rt, "ip6"))
		case "tcp", "tcp6", "udp", "udp6", "quic":
			return refrlp.Uint(uint64(rapid.Uint16().Draw(rt, "port")))
		case "eth":
			return refrlp.L(refrlp.L(refrlp.S(rapid.SliceOfN(rapid.Byte(), 4, 4).Draw(rt, "forkhash")),
				refrlp.Uint(rapid.Uint64().Draw(rt, "forknext"))))
		}
	}
	switch rapid.IntRange(0, 11).Draw(rt, "valKind") {
	case 0:
		return refrlp.S(nil)
	case 1:
		return refrlp.S([]byte{rapid.ByteRange(0, 0x7f).Draw(rt, "small")})
	case 2:
		return refrlp.Uint(rapid.Uint64().Draw(rt, "uintVal"))
	case 3:
		return refrlp.L()
	case 4:
		return refrlp.L(refrlp.S(rapid.SliceOfN(rapid.Byte(), 0, 6).Draw(rt, "l0")), refrlp.L(refrlp.Uint(uint64(rapid.Uint16().Draw(rt, "l1")))))
	case 5:
		return refrlp.S(rapid.SliceOfN(rapid.Byte(), 56, 70).Draw(rt, "longVal"))
	default:
		return refrlp.S(rapid.SliceOfN(rapid.Byte(), 0, 24).Draw(rt, "strVal"))
	}
}

var c45SeqPool = []uint64{0, 1, 2, 0x7f, 0x80, 0xff, 0x100, 0xffff, 1 << 32, 1 << 56, 1<<63 - 1, 1 << 63, 1<<64 - 1}

// c45GenBase draws a well-formed record model (sorted unique keys incl. id and
// secp256k1, unsigned).
func c45GenBase(rt *rapid.T, key *ecdsa.PrivateKey) *c45Model {
	m := new(c45Model)
	var seq uint64
	if rapid.Bool().Draw(rt, "seqPool") {
		seq = rapid.SampledFrom(c45SeqPool).Draw(rt, "seqEdge")
	} else {
		seq = rapid.Uint64().Draw(rt, "seq")
	}
	m.seq = refrlp.Uint(seq)
	m.pairs = []c45KV{
		{[]byte("id"), refrlp.S([]byte("v4"))},
		{[]byte("secp256k1"), refrlp.S(c45Compress(&key.PublicKey))},
	}
	n := rapid.IntRange(0, 8).Draw(rt, "npairs")
	for i := 0; i < n; i++ {
		k := c45GenKeyName(rt)
		if m.find(string(k)) >= 0 {
			continue
		}
		m.pairs = append(m.pairs, c45KV{k, c45GenValue(rt, string(k))})
	}
	m.sortPairs()
	return m
}

const (
	c45ExpectUnknown = iota
	c45ExpectAccept
	c45ExpectRejectStruct
	c45ExpectRejectSig
	c45ExpectEither
)

type c45Case struct {
	in     []byte
	mut    string
	expect int
	// apiKey/apiModel: the record can also be produced through the package API
	apiKey   *ecdsa.PrivateKey
	apiModel *c45Model
}

// c45Fill adds a filler pair so that the encoded size becomes >= target (as
// close as the header size steps allow).
func c45Fill(rt *rapid.T, m *c45Model, target int) {
	fk := []byte("zfill")
	if m.find(string(fk)) >= 0 {
		return
	}
	m.sig = refrlp.S(make([]byte, 64))
	seed := rapid.Byte().Draw(rt, "fillByte")
	idx := len(m.pairs)
	m.pairs = append(m.pairs, c45KV{fk, refrlp.S(nil)})
	for l := 0; l < 400; l++ {
		b := bytes.Repeat([]byte{seed | 0x80}, l)
		m.pairs[idx].v = refrlp.S(b)
		if len(refrlp.Encode(m.item())) >= target {
			break
		}
	}
	m.sortPairs()
}

var c45Mutations = []string{
	"none", "none", "none", "size-boundary", "size-boundary", "swap-resigned", "swap-stale", "dup-resigned", "dup-stale",
	"seq-bump", "sig-bitflip", "content-bitflip", "byte-replace", "noncanon-form", "seq-leading-zero", "opaque-noncanon-value",
	"trailing", "odd-items", "sig-len", "sig-high-s", "wrong-signer", "pubkey-form", "id-scheme", "type-confusion",
	"truncate", "short-list", "sig-zero", "remove-pair-stale", "value-change-stale", "unsorted-first",
}

func c45GenCase(rt *rapid.T) c45Case {
	key := c45GenKey(rt, "key")
	m := c45GenBase(rt, key)
	mut := rapid.SampledFrom(c45Mutations).Draw(rt, "mutation")
	cs := c45Case{mut: mut, expect: c45ExpectUnknown}
	signNow := func(x *c45Model) { x.sig = refrlp.S(c45Sign(rt, x, key)) }
	sizeExpect := func(b []byte) int {
		if len(b) > c45SizeLimit {
			return c45ExpectRejectStruct
		}
		return c45ExpectAccept
	}
	switch mut {
	case "none":
		signNow(m)
		cs.in = refrlp.Encode(m.item())
		cs.expect = sizeExpect(cs.in)
		cs.apiKey, cs.apiModel = key, m
	case "size-boundary":
		c45Fill(rt, m, rapid.IntRange(296, 305).Draw(rt, "targetSize"))
		signNow(m)
		cs.in = refrlp.Encode(m.item())
		cs.expect = sizeExpect(cs.in)
		cs.apiKey, cs.apiModel = key, m
	case "swap-resigned", "swap-stale":
		i := rapid.IntRange(0, len(m.pairs)-2).Draw(rt, "swapAt")
		if mut == "swap-stale" {
			signNow(m)
		}
		m.pairs[i], m.pairs[i+1] = m.pairs[i+1], m.pairs[i]
		if mut == "swap-resigned" {
			signNow(m)
		}
		cs.in = refrlp.Encode(m.item())
		cs.expect = c45ExpectRejectStruct
	case "unsorted-first":
		// a key smaller than the first one appended at the end, or the first pair moved last
		signStale := rapid.Bool().Draw(rt, "stale")
		if signStale {
			signNow(m)
		}
		p0 := m.pairs[0]
		m.pairs = append(m.pairs[1:], p0)
		if !signStale {
			signNow(m)
		}
		cs.in = refrlp.Encode(m.item())
		cs.expect = c45ExpectRejectStruct
	case "dup-resigned", "dup-stale":
		i := rapid.IntRange(0, len(m.pairs)-1).Draw(rt, "dupAt")
		if mut == "dup-stale" {
			signNow(m)
		}
		d := m.pairs[i]
		if rapid.Bool().Draw(rt, "dupOtherValue") {
			d.v = c45GenValue(rt, "")
		}
		at := i + 1
		if rapid.Bool().Draw(rt, "dupBefore") {
			at = i
		}
		m.pairs = append(m.pairs[:at], append([]c45KV{d}, m.pairs[at:]...)...)
		if mut == "dup-resigned" {
			signNow(m)
		}
		cs.in = refrlp.Encode(m.item())
		cs.expect = c45ExpectRejectStruct
	case "seq-bump":
		signNow(m)
		old := new(big.Int).SetBytes(m.seq.Str).Uint64()
		nw := old + 1
		if rapid.Bool().Draw(rt, "seqRandom") {
			nw = rapid.Uint64().Draw(rt, "newSeq")
		}
		if nw == old {
			nw = old ^ 1
		}
		m.seq = refrlp.Uint(nw)
		cs.in = refrlp.Encode(m.item())
		cs.expect = c45ExpectRejectSig
	case "remove-pair-stale":
		signNow(m)
		var cand []int
		for i, p := range m.pairs {
			if string(p.k) != "id" && string(p.k) != "secp256k1" {
				cand = append(cand, i)
			}
		}
		if len(cand) == 0 {
			m.pairs = append(m.pairs, c45KV{[]byte("zz"), refrlp.S([]byte{1})})
			m.sortPairs()
		} else {
			i := rapid.SampledFrom(cand).Draw(rt, "removeAt")
			m.pairs = append(m.pairs[:i], m.pairs[i+1:]...)
		}
		cs.in = refrlp.Encode(m.item())
		cs.expect = c45ExpectRejectSig
	case "value-change-stale":
		signNow(m)
		i := rapid.IntRange(0, len(m.pairs)-1).Draw(rt, "changeAt")
		old := refrlp.Encode(m.pairs[i].v)
		nv := c45GenValue(rt, "")
		if bytes.Equal(refrlp.Encode(nv), old) {
			nv = refrlp.S(append([]byte{0xaa}, old...))
		}
		m.pairs[i].v = nv
		cs.in = refrlp.Encode(m.item())
		cs.expect = c45ExpectUnknown // changing id/secp256k1 may alter the failure stage; never valid
		if k := string(m.pairs[i].k); k != "id" && k != "secp256k1" {
			cs.expect = c45ExpectRejectSig
		}
	case "sig-bitflip":
		signNow(m)
		s := append([]byte{}, m.sig.Str...)
		bit := rapid.IntRange(0, 511).Draw(rt, "sigBit")
		s[bit/8] ^= 1 << (bit % 8)
		m.sig = refrlp.S(s)
		cs.in = refrlp.Encode(m.item())
		cs.expect = c45ExpectRejectSig
	case "sig-zero":
		signNow(m)
		s := append([]byte{}, m.sig.Str...)
		switch rapid.IntRange(0, 3).Draw(rt, "zeroPart") {
		case 0:
			copy(s[:32], make([]byte, 32))
		case 1:
			copy(s[32:], make([]byte, 32))
		case 2:
			copy(s[:32], refsecp.N.Bytes()) // r = n (out of range)
		default:
			// s := s + n would be the same residue; only representable when it fits 32 bytes
			v := new(big.Int).Add(new(big.Int).SetBytes(s[32:]), refsecp.N)
			if v.BitLen() <= 256 {
				v.FillBytes(s[32:])
			} else {
				copy(s[32:], refsecp.N.Bytes())
			}
		}
		m.sig = refrlp.S(s)
		cs.in = refrlp.Encode(m.item())
		cs.expect = c45ExpectRejectSig
	case "content-bitflip":
		signNow(m)
		b := refrlp.Encode(m.item())
		bit := rapid.IntRange(0, len(b)*8-1).Draw(rt, "bit")
		b[bit/8] ^= 1 << (bit % 8)
		cs.in = b
	case "byte-replace":
		signNow(m)
		b := refrlp.Encode(m.item())
		pos := rapid.IntRange(0, len(b)-1).Draw(rt, "pos")
		nb := rapid.Byte().Draw(rt, "newByte")
		if nb == b[pos] {
			nb ^= 0x80
		}
		b[pos] = nb
		cs.in = b
	case "noncanon-form":
		// one header of the container written in a non-canonical form; the content is
		// signed as a canonical decoder would re-encode it
		signNow(m)
		it := m.item()
		total := 0
		refrlp.EncodeForm(it, func(refrlp.Item, int) refrlp.Form { total++; return refrlp.Form{} })
		target := rapid.IntRange(0, total-1).Draw(rt, "formNode")
		wrap := rapid.Bool().Draw(rt, "wrapSingle")
		lenBytes := rapid.IntRange(0, 3).Draw(rt, "lenBytes")
		idx := 0
		cs.in = refrlp.EncodeForm(it, func(x refrlp.Item, n int) refrlp.Form {
			idx++
			if idx-1 != target {
				return refrlp.Form{}
			}
			if wrap && !x.IsList && n == 1 && x.Str[0] < 0x80 {
				return refrlp.Form{WrapSingle: true}
			}
			return refrlp.Form{Long: true, LenBytes: lenBytes}
		})
		if bytes.Equal(cs.in, refrlp.Encode(it)) {
			cs.mut = "noncanon-form(noop)" // long form requested on a node that is long anyway
			cs.expect = sizeExpect(cs.in)
		}
	case "seq-leading-zero":
		signNow(m)
		if len(m.seq.Str) == 0 {
			m.seq = refrlp.S([]byte{0})
		} else {
			m.seq = refrlp.S(append([]byte{0}, m.seq.Str...))
		}
		cs.in = refrlp.Encode(m.item())
		cs.expect = c45ExpectRejectStruct
	case "opaque-noncanon-value":
		raws := [][]byte{{0x81, 0x05}, {0xc2, 0x81, 0x05}, {0xc3, 0xb8, 0x01, 0x80}, {0xc3, 0xf8, 0x01, 0x80}, {0xc2, 0x83, 0x01}, {0xc3, 0xb9, 0x00, 0x00}}
		raw := rapid.SampledFrom(raws).Draw(rt, "rawValue")
		k := []byte(rapid.SampledFrom([]string{"tcp", "zraw", "a"}).Draw(rt, "rawKey"))
		if i := m.find(string(k)); i >= 0 {
			m.pairs[i].v = refrlp.R(raw)
		} else {
			m.pairs = append(m.pairs, c45KV{k, refrlp.R(raw)})
			m.sortPairs()
		}
		signNow(m)
		cs.in = refrlp.Encode(m.item())
		cs.expect = c45ExpectEither
	case "trailing":
		signNow(m)
		extra := rapid.SliceOfN(rapid.Byte(), 1, 4).Draw(rt, "trailingBytes")
		cs.in = append(refrlp.Encode(m.item()), extra...)
		cs.expect = c45ExpectRejectStruct
	case "odd-items":
		stale := rapid.Bool().Draw(rt, "stale")
		if stale {
			signNow(m)
		}
		if rapid.Bool().Draw(rt, "loneKey") {
			m.tail = []refrlp.Item{refrlp.S([]byte("zzzz"))}
		} else {
			last := m.pairs[len(m.pairs)-1]
			m.pairs = m.pairs[:len(m.pairs)-1]
			m.tail = []refrlp.Item{refrlp.S(last.k)}
		}
		if !stale {
			signNow(m)
		}
		cs.in = refrlp.Encode(m.item())
		cs.expect = c45ExpectRejectStruct
	case "sig-len":
		signNow(m)
		s := m.sig.Str
		switch rapid.IntRange(0, 3).Draw(rt, "sigLenKind") {
		case 0:
			s = s[:63]
		case 1:
			s = append(append([]byte{}, s...), rapid.ByteRange(0, 1).Draw(rt, "recid"))
		case 2:
			s = nil
		default:
			s = append([]byte{0}, s...)
		}
		m.sig = refrlp.S(s)
		cs.in = refrlp.Encode(m.item())
		cs.expect = c45ExpectRejectSig
	case "sig-high-s":
		signNow(m)
		s := append([]byte{}, m.sig.Str...)
		sv := new(big.Int).SetBytes(s[32:])
		sv.Sub(refsecp.N, sv)
		sv.FillBytes(s[32:])
		m.sig = refrlp.S(s)
		cs.in = refrlp.Encode(m.item())
		cs.expect = c45ExpectRejectSig
	case "wrong-signer":
		other := c45GenKey(rt, "otherKey")
		if other.D.Cmp(key.D) == 0 {
			d := big.NewInt(3)
			if key.D.Cmp(d) == 0 {
				d = big.NewInt(4)
			}
			other, _ = crypto.ToECDSA(d.FillBytes(make([]byte, 32)))
		}
		if rapid.Bool().Draw(rt, "swapEntry") {
			// signed by key, entry names the other key
			signNow(m)
			m.pairs[m.find("secp256k1")].v = refrlp.S(c45Compress(&other.PublicKey))
		} else {
			m.sig = refrlp.S(c45Sign(rt, m, other))
		}
		cs.in = refrlp.Encode(m.item())
		cs.expect = c45ExpectRejectSig
	case "pubkey-form":
		i := m.find("secp256k1")
		pub := m.pairs[i].v.Str
		switch rapid.IntRange(0, 5).Draw(rt, "pubForm") {
		case 0: // uncompressed
			u := make([]byte, 65)
			u[0] = 4
			key.PublicKey.X.FillBytes(u[1:33])
			key.PublicKey.Y.FillBytes(u[33:])
			m.pairs[i].v = refrlp.S(u)
		case 1: // other parity
			o := append([]byte{}, pub...)
			o[0] ^= 1
			m.pairs[i].v = refrlp.S(o)
		case 2: // x not on the curve / out of range
			o := append([]byte{}, pub...)
			copy(o[1:], refsecp.P.Bytes())
			m.pairs[i].v = refrlp.S(o)
		case 3: // as a list
			m.pairs[i].v = refrlp.L(refrlp.S(pub))
		case 4: // bad prefix
			o := append([]byte{}, pub...)
			o[0] = rapid.SampledFrom([]byte{0, 1, 4, 5, 6, 7}).Draw(rt, "prefix")
			m.pairs[i].v = refrlp.S(o)
		default: // entry missing
			m.pairs = append(m.pairs[:i], m.pairs[i+1:]...)
		}
		signNow(m)
		cs.in = refrlp.Encode(m.item())
		cs.expect = c45ExpectRejectSig
	case "id-scheme":
		i := m.find("id")
		switch rapid.IntRange(0, 3).Draw(rt, "idForm") {
		case 0:
			m.pairs = append(m.pairs[:i], m.pairs[i+1:]...)
		case 1:
			m.pairs[i].v = refrlp.S([]byte(rapid.SampledFrom([]string{"v5", "", "null", "V4", "v4 "}).Draw(rt, "scheme")))
		case 2:
			m.pairs[i].v = refrlp.L(refrlp.S([]byte("v4")))
		default:
			m.pairs[i].v = refrlp.R([]byte{0xb8, 0x02, 'v', '4'}) // rejected already by the container rules
		}
		signNow(m)
		cs.in = refrlp.Encode(m.item())
	case "type-confusion":
		signNow(m)
		switch rapid.IntRange(0, 5).Draw(rt, "confuse") {
		case 0:
			m.sig = refrlp.L(refrlp.S(m.sig.Str))
		case 1:
			m.seq = refrlp.L(m.seq)
		case 2:
			m.seq = refrlp.S(append([]byte{1}, make([]byte, 8)...))
		case 3:
			i := rapid.IntRange(0, len(m.pairs)-1).Draw(rt, "listKey")
			m.tail = nil
			it := m.item()
			it.List[2+2*i] = refrlp.L(it.List[2+2*i])
			cs.in = refrlp.Encode(it)
		case 4:
			cs.in = refrlp.Encode(refrlp.S(refrlp.Encode(m.item())[1:]))
		default:
			cs.in = refrlp.Encode(refrlp.S(nil))
		}
		if cs.in == nil {
			cs.in = refrlp.Encode(m.item())
		}
		cs.expect = c45ExpectRejectStruct
	case "truncate":
		signNow(m)
		b := refrlp.Encode(m.item())
		cut := rapid.IntRange(1, len(b)).Draw(rt, "cut")
		cs.in = b[:len(b)-cut]
		cs.expect = c45ExpectRejectStruct
	case "short-list":
		signNow(m)
		switch rapid.IntRange(0, 2).Draw(rt, "short") {
		case 0:
			cs.in = refrlp.Encode(refrlp.L())
			cs.expect = c45ExpectRejectStruct
		case 1:
			cs.in = refrlp.Encode(refrlp.L(m.sig))
			cs.expect = c45ExpectRejectStruct
		default:
			cs.in = refrlp.Encode(refrlp.L(m.sig, m.seq))
			cs.expect = c45ExpectRejectSig
		}
	default:
		rt.Fatalf("VERIF-HARNESS-BUG: unknown mutation %q", mut)
	}
	if len(cs.in) > c45SizeLimit && cs.expect != c45ExpectUnknown {
		// the size rule comes first whatever else is wrong
		cs.expect = c45ExpectRejectStruct
	}
	return cs
}

// c45ViaAPI builds the same record through enr.Record.Set + SignV4.
func c45ViaAPI(t c45T, cs c45Case) {
	var r enr.Record
	r.SetSeq(new(big.Int).SetBytes(cs.apiModel.seq.Str).Uint64())
	for _, p := range cs.apiModel.pairs {
		r.Set(enr.WithEntry(string(p.k), rlp.RawValue(refrlp.Encode(p.v))))
	}
	err := SignV4(&r, cs.apiKey)
	if len(cs.in) > enr.SizeLimit {
		if err == nil {
			t.Fatalf("SignV4 produced a record although its encoding %x has %d bytes > SizeLimit", cs.in, len(cs.in))
		}
		if _, eerr := rlp.EncodeToBytes(&r); eerr == nil {
			t.Fatalf("oversized record (%d bytes) could be encoded after a failed SignV4", len(cs.in))
		}
		return
	}
	if err != nil {
		t.Fatalf("SignV4 failed (%v) for a record of %d bytes: %x", err, len(cs.in), cs.in)
	}
	out, err := rlp.EncodeToBytes(&r)
	if err != nil || !bytes.Equal(out, cs.in) {
		t.Fatalf("record built with Set/SignV4 encodes to %x (err %v), hand-built reference encoding %x", out, err, cs.in)
	}
}

func c45RecordProp(st *vs.S) func(rt *rapid.T) {
	return func(rt *rapid.T) {
		cs := c45GenCase(rt)
		var c *vs.Case
		if st != nil {
			c = st.Case()
		}
		res := c45CheckBytes(rt, cs.in)

		// The generator's expectation by construction guards the reference itself.
		accepted := res.parsed != nil && res.verified && res.node
		switch cs.expect {
		case c45ExpectAccept:
			if res.parsed == nil || !res.verified || !res.node {
				rt.Fatalf("VERIF-HARNESS-BUG: honest record %x not accepted: struct=%q verify=%q node=%v", cs.in, res.structWhy, res.verifyWhy, res.node)
			}
		case c45ExpectRejectStruct:
			if res.parsed != nil {
				rt.Fatalf("VERIF-HARNESS-BUG: %s record %x passed the structural reference", cs.mut, cs.in)
			}
		case c45ExpectRejectSig:
			if res.parsed == nil || res.verified {
				rt.Fatalf("VERIF-HARNESS-BUG: %s record %x: struct=%q verified=%v (expected a signature failure)", cs.mut, cs.in, res.structWhy, res.verified)
			}
		case c45ExpectEither:
			if res.parsed == nil || !res.either {
				rt.Fatalf("VERIF-HARNESS-BUG: %s record %x: struct=%q either=%v", cs.mut, cs.in, res.structWhy, res.either)
			}
		}
		if cs.apiModel != nil {
			c45ViaAPI(rt, cs)
		}
		if c == nil {
			return
		}
		verdict := "reject-struct:" + res.structWhy
		switch {
		case accepted:
			verdict = "accept"
		case res.parsed != nil && res.verified:
			verdict = "reject-scheme"
		case res.parsed != nil:
			verdict = "reject-sig:" + res.verifyWhy
		}
		c.Class("mut=" + cs.mut)
		if len(cs.in) > c45SizeLimit {
			c.Class("oversize")
		}
		c.Class("verdict=" + verdict)
		if res.either {
			c.Classf("opaque-noncanonical-value decoded=%v", res.decoded)
		}
		wellFormed := refrlp.Classify(cs.in) != refrlp.Malformed
		nt := wellFormed && cs.mut != "none"
		c.NonTrivial(nt, hex.EncodeToString(cs.in))
		c.Sample(nt, func() any {
			return map[string]any{"mutation": cs.mut, "record": hex.EncodeToString(cs.in), "verdict": verdict, "bytes": len(cs.in)}
		})
	}
}

// TestVerifC45Records: random records and mutations against the reference.
func TestVerifC45Records(t *testing.T) {
	st := vs.New("C45", t)
	vs.Check(t, 1, c45RecordProp(st))
}

// TestVerifC45Vectors: the EIP-778 example record and the reference's own
// arithmetic (harness self-check), plus a deterministic sweep of the size limit.
func TestVerifC45Vectors(t *testing.T) {
	vs.OnlyShard0(t)
	st := vs.New("C45", t)
	eip, _ := hex.DecodeString("f884b8407098ad865b00a582051940cb9cf36836572411a47278783077011599ed5cd16b76f2635f4e234738f30813a89eb9137e3e3df5266e3a1f11df72ecf1145ccb9c01826964827634826970847f00000189736563703235366b31a103ca634cae0d49acb401d8a4c6b6fe8c55b70d115bf400769cc1400f3258cd31388375647082765f")
	c := st.Case()
	res := c45CheckBytes(t, eip)
	if res.parsed == nil || !res.verified || !res.node {
		t.Fatalf("VERIF-HARNESS-BUG: EIP-778 example record rejected by the reference: %q %q", res.structWhy, res.verifyWhy)
	}
	wantID, _ := hex.DecodeString("a448f24c6d18e575453db13171562b71999873db5b286df957af199ec94617f7")
	if !bytes.Equal(c45RefNodeID(res.parsed), wantID) {
		t.Fatalf("VERIF-HARNESS-BUG: reference node id %x of the EIP-778 example", c45RefNodeID(res.parsed))
	}
	c.Class("eip778-example")
	c.NonTrivial(true, "eip778")

	// Every total size 290..310, with the filler in the last pair.
	key, _ := crypto.ToECDSA(bytes.Repeat([]byte{0x11}, 32))
	seen := map[int]bool{}
	for fill := 150; fill < 190; fill++ {
		m := &c45Model{seq: refrlp.Uint(uint64(fill)), pairs: []c45KV{
			{[]byte("id"), refrlp.S([]byte("v4"))},
			{[]byte("secp256k1"), refrlp.S(c45Compress(&key.PublicKey))},
			{[]byte("zfill"), refrlp.S(bytes.Repeat([]byte{0xee}, fill))},
		}}
		m.sig = refrlp.S(c45Sign(t, m, key))
		in := refrlp.Encode(m.item())
		c := st.Case()
		res := c45CheckBytes(t, in)
		ok := res.parsed != nil && res.verified && res.node
		if ok != (len(in) <= c45SizeLimit) {
			t.Fatalf("VERIF-HARNESS-BUG: size sweep: %d bytes, reference accept=%v", len(in), ok)
		}
		c45ViaAPI(t, c45Case{in: in, apiKey: key, apiModel: m})
		seen[len(in)] = true
		c.Classf("size-sweep accept=%v", ok)
		c.NonTrivial(true, fmt.Sprintf("size%d", len(in)))
	}
	for s := 295; s <= 305; s++ {
		if !seen[s] {
			t.Fatalf("VERIF-HARNESS-BUG: size sweep did not produce a %d byte record", s)
		}
	}
	st.Exhaustive("every encoded size 295..305 around SizeLimit with one filler value")
}

func c45Seeds() [][]byte {
	eip, _ := hex.DecodeString("f884b8407098ad865b00a582051940cb9cf36836572411a47278783077011599ed5cd16b76f2635f4e234738f30813a89eb9137e3e3df5266e3a1f11df72ecf1145ccb9c01826964827634826970847f00000189736563703235366b31a103ca634cae0d49acb401d8a4c6b6fe8c55b70d115bf400769cc1400f3258cd31388375647082765f")
	seeds := [][]byte{eip, {}, {0xc0}, {0xc2, 0x80, 0x80}}
	key, _ := crypto.ToECDSA(bytes.Repeat([]byte{0x22}, 32))
	m := &c45Model{seq: refrlp.Uint(7), pairs: []c45KV{
		{[]byte("id"), refrlp.S([]byte("v4"))},
		{[]byte("secp256k1"), refrlp.S(c45Compress(&key.PublicKey))},
	}}
	h := refkeccak.Keccak256(refrlp.Encode(refrlp.L(m.contentItems()...)))
	sig, _ := crypto.Sign(h, key)
	m.sig = refrlp.S(sig[:64])
	seeds = append(seeds, refrlp.Encode(m.item()))
	// unsorted but signed
	m.pairs[0], m.pairs[1] = m.pairs[1], m.pairs[0]
	h = refkeccak.Keccak256(refrlp.Encode(refrlp.L(m.contentItems()...)))
	sig, _ = crypto.Sign(h, key)
	m.sig = refrlp.S(sig[:64])
	seeds = append(seeds, refrlp.Encode(m.item()))
	return seeds
}

// FuzzVerifC45RecordBytes: coverage-guided bytes straight into the oracle.
func FuzzVerifC45RecordBytes(f *testing.F) {
	for _, s := range c45Seeds() {
		f.Add(s)
	}
	f.Fuzz(func(t *testing.T, data []byte) {
		if len(data) > 2048 {
			data = data[:2048]
		}
		c45CheckBytes(t, data)
	})
}

// FuzzVerifC45Record: the rapid property driven by the fuzzer's byte stream.
func FuzzVerifC45Record(f *testing.F) {
	f.Fuzz(rapid.MakeFuzz(c45RecordProp(nil)))
}
