//go:build verif

package enode

// Independent reference for C45 (records): EIP-778 record parsing over
// kit/refrlp and the "v4" identity scheme with kit/refsecp (math/big secp256k1
// ECDSA) and kit/refkeccak. Shares no code with p2p/enr, p2p/enode, rlp or crypto.

import (
	"bytes"

	"verif.local/kit/refkeccak"
	"verif.local/kit/refrlp"
	"verif.local/kit/refsecp"
)

// ---------------------------------------------------------------------------
// Record reference.

type c45Parsed struct {
	sig    []byte
	seq    uint64
	seqStr []byte
	keys   [][]byte
	vals   [][]byte // encoded values, verbatim
	// opaqueNonCanon: some value is well delimited but not canonical RLP inside
	// (or is a single byte < 0x80 wrapped as 0x81 b). Values are opaque to the
	// record codec; the property statement does not say how such records are treated.
	opaqueNonCanon bool
}

const c45SizeLimit = 300

// c45RefParse is the structural acceptance rule of EIP-778 for one record
// encoding: exactly one canonical RLP list of at most 300 bytes,
// [signature, seq, k, v, ...] with string signature, canonical integer seq
// (<= 8 bytes), string keys strictly ascending (hence unique), one value per key.
func c45RefParse(b []byte) (*c45Parsed, string) {
	h, err := refrlp.SplitHeader(b)
	if err != nil {
		return nil, "outer-rlp"
	}
	if h.HeaderLen+h.ContentLen != len(b) {
		return nil, "trailing"
	}
	if len(b) > c45SizeLimit {
		return nil, "too-big"
	}
	if !h.IsList {
		return nil, "not-list"
	}
	content := b[h.HeaderLen:]
	type item struct {
		isList bool
		str    []byte
		enc    []byte
		wrap   bool // 0x81 b with b < 0x80
	}
	var items []item
	for len(content) > 0 {
		ih, err := refrlp.SplitHeader(content)
		wrap := false
		if err == refrlp.ErrNonCanonByte {
			wrap, err = true, nil
		}
		if err != nil {
			return nil, "elem-rlp"
		}
		n := ih.HeaderLen + ih.ContentLen
		items = append(items, item{isList: ih.IsList, str: content[ih.HeaderLen:n], enc: content[:n], wrap: wrap})
		content = content[n:]
	}
	if len(items) < 2 {
		return nil, "incomplete-list"
	}
	p := new(c45Parsed)
	if items[0].isList || items[0].wrap {
		return nil, "sig-form"
	}
	p.sig = items[0].str
	sq := items[1]
	if sq.isList || sq.wrap || len(sq.str) > 8 || (len(sq.str) > 0 && sq.str[0] == 0) {
		return nil, "seq-form"
	}
	p.seqStr = sq.str
	for _, c := range sq.str {
		p.seq = p.seq<<8 | uint64(c)
	}
	rest := items[2:]
	for i := 0; i < len(rest); i += 2 {
		k := rest[i]
		if k.isList || k.wrap {
			return nil, "key-form"
		}
		if i+1 >= len(rest) {
			return nil, "incomplete-pair"
		}
		if len(p.keys) > 0 {
			switch c := bytes.Compare(k.str, p.keys[len(p.keys)-1]); {
			case c == 0:
				return nil, "duplicate-key"
			case c < 0:
				return nil, "not-sorted"
			}
		}
		v := rest[i+1]
		if v.wrap || refrlp.Classify(v.enc) != refrlp.Canonical {
			p.opaqueNonCanon = true
		}
		p.keys = append(p.keys, k.str)
		p.vals = append(p.vals, v.enc)
	}
	return p, ""
}

func (p *c45Parsed) value(key string) []byte {
	for i, k := range p.keys {
		if string(k) == key {
			return p.vals[i]
		}
	}
	return nil
}

// content is the signed content [seq, k, v, ...] in canonical RLP.
func (p *c45Parsed) content() []byte {
	items := []refrlp.Item{refrlp.S(p.seqStr)}
	for i := range p.keys {
		items = append(items, refrlp.S(p.keys[i]), refrlp.R(p.vals[i]))
	}
	return refrlp.Encode(refrlp.L(items...))
}

// c45RefVerifyV4 applies the "v4" identity scheme: the "secp256k1" entry is a
// canonical RLP string of 33 bytes holding a compressed curve point, and the
// signature is valid for keccak256(content).
func c45RefVerifyV4(p *c45Parsed) (bool, string) {
	v := p.value("secp256k1")
	if v == nil {
		return false, "no-pubkey"
	}
	it, err := refrlp.Decode(v)
	if err != nil || it.IsList {
		return false, "pubkey-form"
	}
	if len(it.Str) != 33 {
		return false, "pubkey-len"
	}
	return refsecp.VerifySig(it.Str, refkeccak.Keccak256(p.content()), p.sig)
}

// c45RefSchemeV4 says whether the "id" entry is the canonical string "v4".
func c45RefSchemeV4(p *c45Parsed) bool {
	v := p.value("id")
	if v == nil {
		return false
	}
	it, err := refrlp.Decode(v)
	return err == nil && !it.IsList && string(it.Str) == "v4"
}

// c45RefNodeID is keccak256(X || Y) of the record's public key.
func c45RefNodeID(p *c45Parsed) []byte {
	it, _ := refrlp.Decode(p.value("secp256k1"))
	q, ok := refsecp.Decompress(it.Str)
	if !ok {
		return nil
	}
	buf := make([]byte, 64)
	q.X.FillBytes(buf[:32])
	q.Y.FillBytes(buf[32:])
	return refkeccak.Keccak256(buf)
}
