//go:build verif

package enode

// Independent reference for C45 (records): secp256k1 ECDSA verification with
// math/big, EIP-778 record parsing over kit/refrlp, and the "v4" identity
// scheme. Shares no code with p2p/enr, p2p/enode, rlp or crypto.

import (
	"bytes"
	"math/big"

	"verif.local/kit/refkeccak"
	"verif.local/kit/refrlp"
)

// ---------------------------------------------------------------------------
// secp256k1 (y^2 = x^3 + 7 over F_p), affine arithmetic with math/big.

var (
	c45P, _  = new(big.Int).SetString("fffffffffffffffffffffffffffffffffffffffffffffffffffffffefffffc2f", 16)
	c45N, _  = new(big.Int).SetString("fffffffffffffffffffffffffffffffebaaedce6af48a03bbfd25e8cd0364141", 16)
	c45Gx, _ = new(big.Int).SetString("79be667ef9dcbbac55a06295ce870b07029bfcdb2dce28d959f2815b16f81798", 16)
	c45Gy, _ = new(big.Int).SetString("483ada7726a3c4655da4fbfc0e1108a8fd17b448a68554199c47d08ffb10d4b8", 16)
	c45HalfN = new(big.Int).Rsh(c45N, 1)
)

// c45Pt is an affine point; inf marks the point at infinity.
type c45Pt struct {
	x, y *big.Int
	inf  bool
}

func c45OnCurve(x, y *big.Int) bool {
	l := new(big.Int).Mul(y, y)
	l.Mod(l, c45P)
	r := new(big.Int).Mul(x, x)
	r.Mul(r, x)
	r.Add(r, big.NewInt(7))
	r.Mod(r, c45P)
	return l.Cmp(r) == 0
}

func c45Add(a, b c45Pt) c45Pt {
	if a.inf {
		return b
	}
	if b.inf {
		return a
	}
	var lam *big.Int
	if a.x.Cmp(b.x) == 0 {
		s := new(big.Int).Add(a.y, b.y)
		s.Mod(s, c45P)
		if s.Sign() == 0 {
			return c45Pt{inf: true}
		}
		// doubling: lam = 3x^2 / 2y
		num := new(big.Int).Mul(a.x, a.x)
		num.Mul(num, big.NewInt(3))
		den := new(big.Int).Lsh(a.y, 1)
		den.ModInverse(den.Mod(den, c45P), c45P)
		lam = num.Mul(num, den)
	} else {
		num := new(big.Int).Sub(b.y, a.y)
		den := new(big.Int).Sub(b.x, a.x)
		den.Mod(den, c45P)
		den.ModInverse(den, c45P)
		lam = num.Mul(num, den)
	}
	lam.Mod(lam, c45P)
	x3 := new(big.Int).Mul(lam, lam)
	x3.Sub(x3, a.x)
	x3.Sub(x3, b.x)
	x3.Mod(x3, c45P)
	y3 := new(big.Int).Sub(a.x, x3)
	y3.Mul(y3, lam)
	y3.Sub(y3, a.y)
	y3.Mod(y3, c45P)
	return c45Pt{x: x3, y: y3}
}

// c45MulAdd returns u1*G + u2*Q (Shamir's trick).
func c45MulAdd(u1, u2 *big.Int, q c45Pt) c45Pt {
	g := c45Pt{x: c45Gx, y: c45Gy}
	gq := c45Add(g, q)
	acc := c45Pt{inf: true}
	n := u1.BitLen()
	if u2.BitLen() > n {
		n = u2.BitLen()
	}
	for i := n - 1; i >= 0; i-- {
		acc = c45Add(acc, acc)
		b1, b2 := u1.Bit(i), u2.Bit(i)
		switch {
		case b1 == 1 && b2 == 1:
			acc = c45Add(acc, gq)
		case b1 == 1:
			acc = c45Add(acc, g)
		case b2 == 1:
			acc = c45Add(acc, q)
		}
	}
	return acc
}

// c45Decompress parses a 33-byte SEC1 compressed point.
func c45Decompress(b []byte) (c45Pt, bool) {
	if len(b) != 33 || (b[0] != 2 && b[0] != 3) {
		return c45Pt{}, false
	}
	x := new(big.Int).SetBytes(b[1:])
	if x.Cmp(c45P) >= 0 {
		return c45Pt{}, false
	}
	rhs := new(big.Int).Mul(x, x)
	rhs.Mul(rhs, x)
	rhs.Add(rhs, big.NewInt(7))
	rhs.Mod(rhs, c45P)
	e := new(big.Int).Add(c45P, big.NewInt(1))
	e.Rsh(e, 2)
	y := new(big.Int).Exp(rhs, e, c45P)
	if !c45OnCurve(x, y) {
		return c45Pt{}, false
	}
	if y.Bit(0) != uint(b[0]&1) {
		y.Sub(c45P, y)
	}
	return c45Pt{x: x, y: y}, true
}

// c45VerifySig is ECDSA verification of a 64-byte r||s signature over a 32-byte
// digest with a compressed public key. Signatures with s > n/2 are refused
// (documented behaviour of crypto.VerifySignature: no malleable signatures).
func c45VerifySig(pub33, digest, sig []byte) (ok bool, why string) {
	if len(sig) != 64 {
		return false, "sig-len"
	}
	q, okq := c45Decompress(pub33)
	if !okq {
		return false, "bad-pubkey"
	}
	r := new(big.Int).SetBytes(sig[:32])
	s := new(big.Int).SetBytes(sig[32:])
	if r.Sign() == 0 || s.Sign() == 0 || r.Cmp(c45N) >= 0 || s.Cmp(c45N) >= 0 {
		return false, "sig-range"
	}
	if s.Cmp(c45HalfN) > 0 {
		return false, "sig-high-s"
	}
	z := new(big.Int).SetBytes(digest)
	w := new(big.Int).ModInverse(s, c45N)
	u1 := new(big.Int).Mul(z, w)
	u1.Mod(u1, c45N)
	u2 := new(big.Int).Mul(r, w)
	u2.Mod(u2, c45N)
	pt := c45MulAdd(u1, u2, q)
	if pt.inf {
		return false, "sig-invalid"
	}
	v := new(big.Int).Mod(pt.x, c45N)
	if v.Cmp(r) != 0 {
		return false, "sig-invalid"
	}
	return true, ""
}

// ---------------------------------------------------------------------------
// Record reference.

type c45Parsed struct {
	sig    []byte
	seq    uint64
	seqStr []byte
	keys   [][]byte
	vals   [][]byte // encoded values, verbatim
	// opaqueNonCanon: some value is well delimited but not canonical RLP inside
	// (or is a single byte < 0x80 wrapped as 0x81 b). Values are opaque to the
	// record codec; the property statement does not say how such records are treated.
	opaqueNonCanon bool
}

const c45SizeLimit = 300

// c45RefParse is the structural acceptance rule of EIP-778 for one record
// encoding: exactly one canonical RLP list of at most 300 bytes,
// [signature, seq, k, v, ...] with string signature, canonical integer seq
// (<= 8 bytes), string keys strictly ascending (hence unique), one value per key.
func c45RefParse(b []byte) (*c45Parsed, string) {
	h, err := refrlp.SplitHeader(b)
	if err != nil {
		return nil, "outer-rlp"
	}
	if h.HeaderLen+h.ContentLen != len(b) {
		return nil, "trailing"
	}
	if len(b) > c45SizeLimit {
		return nil, "too-big"
	}
	if !h.IsList {
		return nil, "not-list"
	}
	content := b[h.HeaderLen:]
	type item struct {
		isList bool
		str    []byte
		enc    []byte
		wrap   bool // 0x81 b with b < 0x80
	}
	var items []item
	for len(content) > 0 {
		ih, err := refrlp.SplitHeader(content)
		wrap := false
		if err == refrlp.ErrNonCanonByte {
			wrap, err = true, nil
		}
		if err != nil {
			return nil, "elem-rlp"
		}
		n := ih.HeaderLen + ih.ContentLen
		items = append(items, item{isList: ih.IsList, str: content[ih.HeaderLen:n], enc: content[:n], wrap: wrap})
		content = content[n:]
	}
	if len(items) < 2 {
		return nil, "incomplete-list"
	}
	p := new(c45Parsed)
	if items[0].isList || items[0].wrap {
		return nil, "sig-form"
	}
	p.sig = items[0].str
	sq := items[1]
	if sq.isList || sq.wrap || len(sq.str) > 8 || (len(sq.str) > 0 && sq.str[0] == 0) {
		return nil, "seq-form"
	}
	p.seqStr = sq.str
	for _, c := range sq.str {
		p.seq = p.seq<<8 | uint64(c)
	}
	rest := items[2:]
	for i := 0; i < len(rest); i += 2 {
		k := rest[i]
		if k.isList || k.wrap {
			return nil, "key-form"
		}
		if i+1 >= len(rest) {
			return nil, "incomplete-pair"
		}
		if len(p.keys) > 0 {
			switch c := bytes.Compare(k.str, p.keys[len(p.keys)-1]); {
			case c == 0:
				return nil, "duplicate-key"
			case c < 0:
				return nil, "not-sorted"
			}
		}
		v := rest[i+1]
		if v.wrap || refrlp.Classify(v.enc) != refrlp.Canonical {
			p.opaqueNonCanon = true
		}
		p.keys = append(p.keys, k.str)
		p.vals = append(p.vals, v.enc)
	}
	return p, ""
}

func (p *c45Parsed) value(key string) []byte {
	for i, k := range p.keys {
		if string(k) == key {
			return p.vals[i]
		}
	}
	return nil
}

// content is the signed content [seq, k, v, ...] in canonical RLP.
func (p *c45Parsed) content() []byte {
	items := []refrlp.Item{refrlp.S(p.seqStr)}
	for i := range p.keys {
		items = append(items, refrlp.S(p.keys[i]), refrlp.R(p.vals[i]))
	}
	return refrlp.Encode(refrlp.L(items...))
}

// c45RefVerifyV4 applies the "v4" identity scheme: the "secp256k1" entry is a
// canonical RLP string of 33 bytes holding a compressed curve point, and the
// signature is valid for keccak256(content).
func c45RefVerifyV4(p *c45Parsed) (bool, string) {
	v := p.value("secp256k1")
	if v == nil {
		return false, "no-pubkey"
	}
	it, err := refrlp.Decode(v)
	if err != nil || it.IsList {
		return false, "pubkey-form"
	}
	if len(it.Str) != 33 {
		return false, "pubkey-len"
	}
	return c45VerifySig(it.Str, refkeccak.Keccak256(p.content()), p.sig)
}

// c45RefSchemeV4 says whether the "id" entry is the canonical string "v4".
func c45RefSchemeV4(p *c45Parsed) bool {
	v := p.value("id")
	if v == nil {
		return false
	}
	it, err := refrlp.Decode(v)
	return err == nil && !it.IsList && string(it.Str) == "v4"
}

// c45RefNodeID is keccak256(X || Y) of the record's public key.
func c45RefNodeID(p *c45Parsed) []byte {
	it, _ := refrlp.Decode(p.value("secp256k1"))
	q, ok := c45Decompress(it.Str)
	if !ok {
		return nil
	}
	buf := make([]byte, 64)
	q.x.FillBytes(buf[:32])
	q.y.FillBytes(buf[32:])
	return refkeccak.Keccak256(buf)
}
