//go:build verif

package light

// C53: the beacon light client follows only properly signed committees.
//
// A world of genuine sync committees (a main branch A plus alternative branches that
// fork from it, every edge signed by its genuine parent committee) is generated from
// rapid draws together with forged material. Updates, bootstraps and signed headers are
// delivered to a CommitteeChain (dummy deterministic signature scheme) in drawn order;
// after every call white-box invariants are evaluated against an independent model:
// own SSZ roots, own Merkle proof verification, own signing root and dummy signature.

import (
	"bytes"
	"crypto/sha256"
	"encoding/binary"
	"fmt"
	"math/big"
	"sort"
	"strings"
	"testing"
	"time"

	"github.com/ethereum/go-ethereum/beacon/merkle"
	"github.com/ethereum/go-ethereum/beacon/params"
	"github.com/ethereum/go-ethereum/beacon/types"
	"github.com/ethereum/go-ethereum/common"
	"github.com/ethereum/go-ethereum/common/mclock"
	"github.com/ethereum/go-ethereum/ethdb/memorydb"
	"github.com/ethereum/go-ethereum/log"
	"github.com/ethereum/go-ethereum/rlp"
	"github.com/protolambda/zrnt/eth2/beacon/deneb"
	"pgregory.net/rapid"
	vs "verif.local/kit/stat"
)

// ---------------------------------------------------------------------------
// independent reference functions (written from the consensus specs)

const (
	c53SlotsPerPeriod = 8192
	c53SlotsPerEpoch  = 32
	c53CommitteeSize  = 512
	c53PubkeySize     = 48
	c53Supermajority  = 342 // ceil(512*2/3)
)

func c53Sha(parts ...[]byte) (out [32]byte) {
	h := sha256.New()
	for _, p := range parts {
		h.Write(p)
	}
	h.Sum(out[:0])
	return out
}

// c53Index returns the generalized indices (current committee, next committee,
// finalized root) of the beacon state for a fork name: Altair..Deneb vs Electra+.
func c53Index(version string) (cur, next, fin uint64) {
	switch version {
	case "bellatrix", "capella", "deneb":
		return 54, 55, 105
	}
	return 86, 87, 169
}

// c53HeaderRoot is hash_tree_root(BeaconBlockHeader).
func c53HeaderRoot(h types.Header) [32]byte {
	var l [8][32]byte
	binary.LittleEndian.PutUint64(l[0][:8], h.Slot)
	binary.LittleEndian.PutUint64(l[1][:8], h.ProposerIndex)
	l[2], l[3], l[4] = h.ParentRoot, h.StateRoot, h.BodyRoot
	a := [4][32]byte{c53Sha(l[0][:], l[1][:]), c53Sha(l[2][:], l[3][:]), c53Sha(l[4][:], l[5][:]), c53Sha(l[6][:], l[7][:])}
	b0, b1 := c53Sha(a[0][:], a[1][:]), c53Sha(a[2][:], a[3][:])
	return c53Sha(b0[:], b1[:])
}

// c53CommitteeRoot is hash_tree_root(SyncCommittee) over the serialized form
// (512 pubkeys then the aggregate pubkey, 48 bytes each).
func c53CommitteeRoot(body []byte) [32]byte {
	var pad [16]byte
	layer := make([][32]byte, c53CommitteeSize)
	for i := range layer {
		layer[i] = c53Sha(body[i*c53PubkeySize:(i+1)*c53PubkeySize], pad[:])
	}
	for len(layer) > 1 {
		next := make([][32]byte, len(layer)/2)
		for i := range next {
			next[i] = c53Sha(layer[2*i][:], layer[2*i+1][:])
		}
		layer = next
	}
	agg := c53Sha(body[c53CommitteeSize*c53PubkeySize:(c53CommitteeSize+1)*c53PubkeySize], pad[:])
	return c53Sha(layer[0][:], agg[:])
}

// c53VerifyBranch is is_valid_merkle_branch for a generalized index.
func c53VerifyBranch(root [32]byte, gindex uint64, branch merkle.Values, leaf [32]byte) bool {
	depth := 0
	for g := gindex; g > 1; g >>= 1 {
		depth++
	}
	if gindex == 0 || len(branch) != depth {
		return false
	}
	v := leaf
	g := gindex
	for _, sib := range branch {
		if g&1 == 0 {
			v = c53Sha(v[:], sib[:])
		} else {
			v = c53Sha(sib[:], v[:])
		}
		g >>= 1
	}
	return v == root
}

// c53ValidUpdate is the structural validity of a LightClientUpdate: same period for
// attested header, signature slot and finalized header, and both proofs rooted in the
// attested header's state root.
func c53ValidUpdate(u *types.LightClientUpdate) bool {
	_, next, fin := c53Index(u.Version)
	per := u.AttestedHeader.Header.Slot / c53SlotsPerPeriod
	if u.AttestedHeader.SignatureSlot/c53SlotsPerPeriod != per {
		return false
	}
	if u.FinalizedHeader != nil {
		if u.FinalizedHeader.Slot/c53SlotsPerPeriod != per {
			return false
		}
		if !c53VerifyBranch(u.AttestedHeader.Header.StateRoot, fin, u.FinalityBranch, c53HeaderRoot(*u.FinalizedHeader)) {
			return false
		}
	}
	return c53VerifyBranch(u.AttestedHeader.Header.StateRoot, next, u.NextSyncCommitteeBranch, u.NextSyncCommitteeRoot)
}

func c53SignerCount(m [64]byte) int {
	n := 0
	for _, b := range m {
		for ; b != 0; b &= b - 1 {
			n++
		}
	}
	return n
}

// c53Sufficient: an update counts as sufficiently signed at the threshold, or (the
// documented UpdateScore rule) when it carries a finalized header and a supermajority.
func c53Sufficient(signers int, hasFin bool, thr int) bool {
	return signers >= thr || (hasFin && signers >= c53Supermajority)
}

// ---------------------------------------------------------------------------
// deterministic bulk randomness seeded from rapid draws

type c53Rand struct{ s uint64 }

func (r *c53Rand) next() uint64 {
	r.s += 0x9e3779b97f4a7c15
	z := r.s
	z = (z ^ (z >> 30)) * 0xbf58476d1ce4e5b9
	z = (z ^ (z >> 27)) * 0x94d049bb133111eb
	return z ^ (z >> 31)
}

func (r *c53Rand) b32() (out [32]byte) {
	for i := 0; i < 4; i++ {
		binary.LittleEndian.PutUint64(out[8*i:], r.next())
	}
	return out
}

func (r *c53Rand) intn(n int) int { return int(r.next() % uint64(n)) }

func (r *c53Rand) bitmask(n int) (m [64]byte) {
	var pos [c53CommitteeSize]int
	for i := range pos {
		pos[i] = i
	}
	for i := 0; i < n && i < c53CommitteeSize; i++ {
		j := i + r.intn(c53CommitteeSize-i)
		pos[i], pos[j] = pos[j], pos[i]
		m[pos[i]/8] |= 1 << (pos[i] % 8)
	}
	return m
}

// c53Tree is a sparse binary Merkle tree over generalized indices: the given leaves
// are fixed, every subtree without a given leaf is a random value.
type c53Tree struct {
	leaves map[uint64][32]byte
	memo   map[uint64][32]byte
	r      *c53Rand
}

func c53NewTree(r *c53Rand) *c53Tree {
	return &c53Tree{leaves: map[uint64][32]byte{}, memo: map[uint64][32]byte{}, r: r}
}

func (t *c53Tree) has(g uint64) bool {
	for l := range t.leaves { // boolean result, independent of iteration order
		for x := l; x >= g; x >>= 1 {
			if x == g {
				return true
			}
		}
	}
	return false
}

func (t *c53Tree) node(g uint64) [32]byte {
	if v, ok := t.leaves[g]; ok {
		return v
	}
	if v, ok := t.memo[g]; ok {
		return v
	}
	var v [32]byte
	if !t.has(g) {
		v = t.r.b32()
	} else {
		l := t.node(2 * g)
		r := t.node(2*g + 1)
		v = c53Sha(l[:], r[:])
	}
	t.memo[g] = v
	return v
}

func (t *c53Tree) branch(g uint64) merkle.Values {
	var out merkle.Values
	for ; g > 1; g >>= 1 {
		out = append(out, merkle.Value(t.node(g^1)))
	}
	return out
}

// ---------------------------------------------------------------------------
// world

type c53Com struct {
	name     string
	period   uint64
	body     *types.SerializedSyncCommittee
	root     common.Hash
	key      [32]byte
	parent   *c53Com // tree parent (nil for the first period)
	children []*c53Com
}

type c53Upd struct {
	u             *types.LightClientUpdate
	period        uint64
	parent, child *c53Com
	signers       int
	fin           bool
}

type c53Fork struct {
	epoch  uint64
	domain [32]byte
}

type c53World struct {
	r        *c53Rand
	cfg      params.ChainConfig
	gvr      common.Hash
	forks    []c53Fork // ascending epochs
	genesis  uint64
	p0       uint64
	nper     int                // committees exist for p0 .. p0+nper
	A        map[uint64]*c53Com // main (trusted) branch
	genuine  map[uint64][]*c53Com
	pool     []*c53Upd // genuine updates
	thr      int
	enforce  bool
	bodyRoot common.Hash // beacon body root proving the payload header below
	payload  *types.ExecutionHeader
	payBr    merkle.Values
	forgedN  int
}

func (w *c53World) newCommittee(name string, period uint64) *c53Com {
	c := &c53Com{name: name, period: period, body: new(types.SerializedSyncCommittee)}
	c.key = c53Sha([]byte("c53-key"), []byte(name), w.gvr[:])
	copy(c.body[:32], c.key[:])
	fill := &c53Rand{s: binary.LittleEndian.Uint64(c.key[:8])}
	for i := 32; i+8 <= len(c.body); i += 8 {
		binary.LittleEndian.PutUint64(c.body[i:], fill.next())
	}
	c.root = c53CommitteeRoot(c.body[:])
	return c
}

func (w *c53World) forged(period uint64) *c53Com {
	w.forgedN++
	return w.newCommittee(fmt.Sprintf("Z%d.%d", period, w.forgedN), period)
}

func (w *c53World) domainAt(epoch uint64) ([32]byte, bool) {
	for i := len(w.forks) - 1; i >= 0; i-- {
		if w.forks[i].epoch <= epoch {
			return w.forks[i].domain, true
		}
	}
	return [32]byte{}, false
}

func c53Domain(version []byte, gvr common.Hash) (d [32]byte) {
	var v32 [32]byte
	copy(v32[:], version)
	fdr := c53Sha(v32[:], gvr[:])
	d[0] = 7 // DOMAIN_SYNC_COMMITTEE
	copy(d[4:], fdr[:28])
	return d
}

func c53DummySig(key [32]byte, signingRoot [32]byte, mask [64]byte) (sig [96]byte) {
	for i := range key {
		sig[i] = key[i] ^ signingRoot[i]
	}
	copy(sig[32:], mask[:])
	return sig
}

// sign produces a SignedHeader under the dummy scheme with the given domain.
func (w *c53World) sign(h types.Header, key [32]byte, mask [64]byte, domain [32]byte, sigSlot uint64) types.SignedHeader {
	hr := c53HeaderRoot(h)
	sr := c53Sha(hr[:], domain[:])
	return types.SignedHeader{
		Header:        h,
		Signature:     types.SyncAggregate{Signers: mask, Signature: c53DummySig(key, sr, mask)},
		SignatureSlot: sigSlot,
	}
}

// sigOK: the aggregate is the dummy signature of key over the header's signing root.
func (w *c53World) sigOK(sh types.SignedHeader, key [32]byte) bool {
	dom, ok := w.domainAt(sh.Header.Slot / c53SlotsPerEpoch)
	if !ok {
		return false
	}
	hr := c53HeaderRoot(sh.Header)
	sr := c53Sha(hr[:], dom[:])
	return sh.Signature.Signature == c53DummySig(key, sr, sh.Signature.Signers)
}

func (w *c53World) randHeader(slot uint64) types.Header {
	return types.Header{Slot: slot, ProposerIndex: w.r.next() % 100000, ParentRoot: w.r.b32(), StateRoot: w.r.b32(), BodyRoot: w.r.b32()}
}

// mkUpdate builds a structurally valid update for `period` proving nextRoot, signed with key.
func (w *c53World) mkUpdate(period uint64, nextRoot common.Hash, key [32]byte, signers int, fin bool, version string, attOff uint64, wrongDomain bool) *types.LightClientUpdate {
	_, nextIdx, finIdx := c53Index(version)
	start := period * c53SlotsPerPeriod
	u := &types.LightClientUpdate{Version: version, NextSyncCommitteeRoot: nextRoot}
	tr := c53NewTree(w.r)
	tr.leaves[nextIdx] = nextRoot
	if fin {
		fh := w.randHeader(start + attOff/2)
		u.FinalizedHeader = &fh
		tr.leaves[finIdx] = c53HeaderRoot(fh)
	}
	att := w.randHeader(start + attOff)
	att.StateRoot = tr.node(1)
	u.NextSyncCommitteeBranch = tr.branch(nextIdx)
	if fin {
		u.FinalityBranch = tr.branch(finIdx)
	}
	dom, _ := w.domainAt(att.Slot / c53SlotsPerEpoch)
	if wrongDomain {
		dom = c53Domain([]byte{0x77}, w.gvr)
	}
	u.AttestedHeader = w.sign(att, key, w.r.bitmask(signers), dom, att.Slot+1)
	return u
}

func (w *c53World) mkBootstrap(c, next *c53Com, version string) types.BootstrapData {
	cur, nxt, _ := c53Index(version)
	tr := c53NewTree(w.r)
	tr.leaves[cur] = c.root
	tr.leaves[nxt] = next.root
	h := w.randHeader(c.period*c53SlotsPerPeriod + uint64(w.r.intn(c53SlotsPerPeriod)))
	h.StateRoot = tr.node(1)
	body := *c.body
	return types.BootstrapData{Version: version, Header: h, CommitteeRoot: c.root, Committee: &body, CommitteeBranch: tr.branch(cur)}
}

func c53ValidBootstrap(b *types.BootstrapData) bool {
	cur, _, _ := c53Index(b.Version)
	if common.Hash(c53CommitteeRoot(b.Committee[:])) != b.CommitteeRoot {
		return false
	}
	return c53VerifyBranch(b.Header.StateRoot, cur, b.CommitteeBranch, b.CommitteeRoot)
}

func c53CopyUpdate(u *types.LightClientUpdate) *types.LightClientUpdate {
	cp := &types.LightClientUpdate{ // field-wise: the cached score of the original must not travel along
		Version:                 u.Version,
		AttestedHeader:          u.AttestedHeader,
		NextSyncCommitteeRoot:   u.NextSyncCommitteeRoot,
		NextSyncCommitteeBranch: append(merkle.Values{}, u.NextSyncCommitteeBranch...),
		FinalityBranch:          append(merkle.Values{}, u.FinalityBranch...),
	}
	if u.FinalizedHeader != nil {
		fh := *u.FinalizedHeader
		cp.FinalizedHeader = &fh
	}
	return cp
}

func c53SignerChoices(thr int) []int {
	raw := []int{thr - 1, thr, thr, thr + 1, 341, 342, 343, 400, 512, 512, thr / 2, 1, 0}
	out := raw[:0]
	for _, v := range raw {
		if v < 0 {
			v = 0
		}
		if v > c53CommitteeSize {
			v = c53CommitteeSize
		}
		out = append(out, v)
	}
	return out
}

func c53NewWorld(rt *rapid.T) *c53World {
	w := &c53World{r: &c53Rand{s: rapid.Uint64().Draw(rt, "seed")}, A: map[uint64]*c53Com{}, genuine: map[uint64][]*c53Com{}}
	w.gvr = w.r.b32()
	w.genesis = rapid.SampledFrom([]uint64{0, 1000, 1606824023}).Draw(rt, "genesisTime")
	w.p0 = rapid.SampledFrom([]uint64{0, 1, 2, 7, 1000}).Draw(rt, "p0")
	w.nper = 9
	w.thr = rapid.SampledFrom([]int{1, 2, 100, 256, 341, 342, 342, 342, 343, 400, 512}).Draw(rt, "threshold")
	w.enforce = rapid.IntRange(0, 9).Draw(rt, "enforceTime") < 7
	w.cfg = params.ChainConfig{GenesisTime: w.genesis, GenesisValidatorsRoot: w.gvr}
	w.cfg.AddFork("GENESIS", 0, []byte{0})
	w.forks = []c53Fork{{0, c53Domain([]byte{0}, w.gvr)}}
	if rapid.Bool().Draw(rt, "secondFork") {
		e := (w.p0+uint64(rapid.IntRange(0, w.nper).Draw(rt, "forkPeriod")))*(c53SlotsPerPeriod/c53SlotsPerEpoch) + uint64(rapid.IntRange(0, 255).Draw(rt, "forkEpochOff"))
		if e > 0 {
			w.cfg.AddFork("ALTAIR", e, []byte{1})
			w.forks = append(w.forks, c53Fork{e, c53Domain([]byte{1}, w.gvr)})
		}
	}
	// committees: main branch A, two alternative branches forking from A
	last := w.p0 + uint64(w.nper)
	var prev *c53Com
	for p := w.p0; p <= last; p++ {
		c := w.newCommittee(fmt.Sprintf("A%d", p), p)
		c.parent = prev
		if prev != nil {
			prev.children = append(prev.children, c)
		}
		w.A[p], prev = c, c
		w.genuine[p] = append(w.genuine[p], c)
	}
	for _, br := range []string{"B", "C", "D"} {
		f := w.p0 + uint64(rapid.IntRange(2, 6).Draw(rt, "fork"+br))
		prev = w.A[f]
		depth := rapid.IntRange(1, 4).Draw(rt, "depth"+br)
		for p := f + 1; p <= last && p <= f+uint64(depth); p++ {
			c := w.newCommittee(fmt.Sprintf("%s%d", br, p), p)
			c.parent = prev
			prev.children = append(prev.children, c)
			prev = c
			w.genuine[p] = append(w.genuine[p], c)
		}
	}
	// genuine updates: every tree edge gets 2-3 variants signed by the parent committee
	choices := c53SignerChoices(w.thr)
	versions := []string{"", "", "electra", "deneb", "capella", "fulu"}
	for p := w.p0; p < last; p++ {
		for _, par := range w.genuine[p] {
			for _, ch := range par.children {
				nv := rapid.IntRange(2, 3).Draw(rt, "variants")
				for v := 0; v < nv; v++ {
					signers := rapid.SampledFrom(choices).Draw(rt, "signers")
					fin := rapid.Bool().Draw(rt, "fin")
					if ch.name[0] != 'A' && v == 0 { // alternative edges get one strong variant so that reorgs happen
						signers, fin = 512, true
					}
					if ch.name[0] == 'A' && len(par.children) > 1 && signers >= c53Supermajority {
						fin = false // ... and the main edge at a fork point is never finalized, so the strong variant wins
					}
					ver := rapid.SampledFrom(versions).Draw(rt, "version")
					off := uint64(rapid.SampledFrom([]int{1, 2, 100, 2000, 4096, 8190}).Draw(rt, "attOff"))
					u := w.mkUpdate(p, ch.root, par.key, signers, fin, ver, off, false)
					w.pool = append(w.pool, &c53Upd{u: u, period: p, parent: par, child: ch, signers: signers, fin: fin})
				}
			}
		}
	}
	// constant execution payload header + proof for the optimistic-update path
	w.payload = types.NewExecutionHeader(new(deneb.ExecutionPayloadHeader))
	tr := c53NewTree(w.r)
	tr.leaves[25] = w.payload.PayloadRoot()
	w.bodyRoot = tr.node(1)
	w.payBr = tr.branch(25)
	return w
}

func (w *c53World) identify(period uint64, body *types.SerializedSyncCommittee) *c53Com {
	for _, c := range w.genuine[period] {
		if *c.body == *body {
			return c
		}
	}
	return nil
}

// ---------------------------------------------------------------------------
// the system under test plus bookkeeping

type c53Run struct {
	w     *c53World
	db    *memorydb.Database
	clock *mclock.Simulated
	chain *CommitteeChain
	oplog []string
	st    *vs.S
	// coverage
	reorgs, branchOnly, accepted, rejectedForged, hdrTrue, hdrFalse, reopens int
	outcomes                                                                 map[string]int
}

type c53Snap struct {
	kv         map[string]string
	cr, ur, fr periodRange
}

func (x *c53Run) snap() c53Snap {
	s := c53Snap{kv: map[string]string{}, cr: x.chain.committees.periods, ur: x.chain.updates.periods, fr: x.chain.fixedCommitteeRoots.periods}
	it := x.db.NewIterator(nil, nil)
	for it.Next() {
		s.kv[string(it.Key())] = string(it.Value())
	}
	it.Release()
	return s
}

func (a c53Snap) diff(b c53Snap) string {
	if a.cr != b.cr || a.ur != b.ur || a.fr != b.fr {
		return fmt.Sprintf("ranges committees %v->%v updates %v->%v fixed %v->%v", a.cr, b.cr, a.ur, b.ur, a.fr, b.fr)
	}
	if len(a.kv) != len(b.kv) {
		return fmt.Sprintf("db size %d->%d", len(a.kv), len(b.kv))
	}
	keys := make([]string, 0, len(a.kv))
	for k := range a.kv {
		keys = append(keys, k)
	}
	sort.Strings(keys)
	for _, k := range keys {
		if v, ok := b.kv[k]; !ok || v != a.kv[k] {
			return fmt.Sprintf("db key %q changed", k)
		}
	}
	return ""
}

func (x *c53Run) nowNs() int64 { return int64(x.clock.Now()) }

// future: the slot starts after the simulated system clock.
func (x *c53Run) future(slot uint64) bool {
	t := new(big.Int).Mul(new(big.Int).SetUint64(slot), big.NewInt(12))
	t.Add(t, new(big.Int).SetUint64(x.w.genesis))
	t.Mul(t, big.NewInt(1e9))
	return big.NewInt(x.nowNs()).Cmp(t) < 0
}

// stored returns the world committee the chain holds at the period (nil if none or
// unknown; unknown ones are reported by the invariant check).
func (x *c53Run) stored(period uint64) *c53Com {
	if !x.chain.committees.periods.contains(period) {
		return nil
	}
	body, ok := x.chain.committees.get(x.db, period)
	if !ok || body == nil {
		return nil
	}
	return x.w.identify(period, body)
}

// proper: at this instant the update is a properly proven and signed statement of the
// committee the chain holds at its period.
func (x *c53Run) proper(u *types.LightClientUpdate) (ok bool, why string) {
	if !c53ValidUpdate(u) {
		return false, "invalid-proof"
	}
	per := u.AttestedHeader.Header.Slot / c53SlotsPerPeriod
	signer := x.stored(per)
	if signer == nil {
		return false, "no-committee"
	}
	if !x.w.sigOK(u.AttestedHeader, signer.key) {
		return false, "bad-signature"
	}
	if !c53Sufficient(c53SignerCount(u.AttestedHeader.Signature.Signers), u.FinalizedHeader != nil, x.w.thr) {
		return false, "insufficient"
	}
	if x.w.enforce && x.future(u.AttestedHeader.Header.Slot) {
		return false, "future"
	}
	// harness self-check: genuine signatures only exist for tree edges
	for _, ch := range signer.children {
		if ch.root == u.NextSyncCommitteeRoot {
			return true, ""
		}
	}
	panic(fmt.Sprintf("VERIF-HARNESS-BUG: properly signed update of %s proves a root outside the tree", signer.name))
}

func (x *c53Run) outcome(s string) {
	if x.outcomes == nil {
		x.outcomes = map[string]int{}
	}
	x.outcomes[s]++
}

func (x *c53Run) logf(format string, a ...any) {
	x.oplog = append(x.oplog, fmt.Sprintf(format, a...))
}

func (x *c53Run) fatal(rt *rapid.T, format string, a ...any) {
	x.st.MarkFailed() // rapid re-runs the property while shrinking; stop counting
	rt.Fatalf("%s\nhistory (threshold=%d enforceTime=%v p0=%d):\n  %s", fmt.Sprintf(format, a...), x.w.thr, x.w.enforce, x.w.p0, strings.Join(x.oplog, "\n  "))
}

// invariants evaluated after every call
func (x *c53Run) check(rt *rapid.T) {
	ch, w := x.chain, x.w
	cr, ur, fr := ch.committees.periods, ch.updates.periods, ch.fixedCommitteeRoots.periods
	// database content matches the ranges exactly
	counts := map[string]uint64{}
	it := x.db.NewIterator(nil, nil)
	for it.Next() {
		k := it.Key()
		for _, st := range []struct {
			prefix []byte
			r      periodRange
		}{{ch.committees.keyPrefix, cr}, {ch.updates.keyPrefix, ur}, {ch.fixedCommitteeRoots.keyPrefix, fr}} {
			if bytes.HasPrefix(k, st.prefix) && len(k) == len(st.prefix)+8 {
				p := binary.BigEndian.Uint64(k[len(st.prefix):])
				if !st.r.contains(p) {
					it.Release()
					x.fatal(rt, "database entry %q period %d outside the in-memory range %v", st.prefix, p, st.r)
				}
				counts[string(st.prefix)]++
			}
		}
	}
	it.Release()
	if counts[string(ch.committees.keyPrefix)] != cr.End-cr.Start || counts[string(ch.updates.keyPrefix)] != ur.End-ur.Start || counts[string(ch.fixedCommitteeRoots.keyPrefix)] != fr.End-fr.Start {
		x.fatal(rt, "database entry counts %v do not match ranges committees %v updates %v fixed %v", counts, cr, ur, fr)
	}
	// fixed roots only come from trusted input (main branch)
	for p := fr.Start; p < fr.End; p++ {
		root, ok := ch.fixedCommitteeRoots.get(x.db, p)
		if !ok {
			x.fatal(rt, "fixed root missing at period %d in range %v", p, fr)
		}
		if a := w.A[p]; a == nil || a.root != root {
			x.fatal(rt, "fixed root at period %d is not the trusted one", p)
		}
	}
	// every stored committee is a genuine committee of its period, and is justified
	coms := map[uint64]*c53Com{}
	for p := cr.Start; p < cr.End; p++ {
		body, ok := ch.committees.get(x.db, p)
		if !ok || body == nil {
			x.fatal(rt, "committee missing at period %d in range %v", p, cr)
		}
		c := w.identify(p, body)
		if c == nil {
			x.fatal(rt, "NON-GENUINE committee stored at period %d (key %x)", p, body[:8])
		}
		coms[p] = c
		if got := ch.getCommitteeRoot(p); got != c.root {
			x.fatal(rt, "getCommitteeRoot(%d)=%x but stored committee %s has root %x", p, got[:6], c.name, c.root[:6])
		}
		justified := false
		if root, ok := ch.fixedCommitteeRoots.get(x.db, p); ok && root == c.root {
			justified = true
		}
		if p > 0 {
			if u, ok := ch.updates.get(x.db, p-1); ok && u.NextSyncCommitteeRoot == c.root {
				justified = true
			}
		}
		if !justified {
			x.fatal(rt, "committee %s at period %d is neither fixed nor proven by the update of the previous period", c.name, p)
		}
		sc, err := ch.getSyncCommittee(p)
		if err != nil {
			x.fatal(rt, "getSyncCommittee(%d): %v", p, err)
		}
		if d, ok := sc.(dummySyncCommittee); !ok || [32]byte(d) != c.key {
			x.fatal(rt, "deserialized committee cache at period %d does not match stored committee %s", p, c.name)
		}
	}
	// every stored update is a proper statement of the stored committee about the stored next committee
	for p := ur.Start; p < ur.End; p++ {
		u, ok := ch.updates.get(x.db, p)
		if !ok || u == nil {
			x.fatal(rt, "update missing at period %d in range %v", p, ur)
		}
		if u.AttestedHeader.Header.Slot/c53SlotsPerPeriod != p {
			x.fatal(rt, "update stored at period %d has attested slot %d", p, u.AttestedHeader.Header.Slot)
		}
		par, chd := coms[p], coms[p+1]
		if par == nil || chd == nil {
			x.fatal(rt, "update at period %d without committees at %d and %d (range %v)", p, p, p+1, cr)
		}
		if !c53ValidUpdate(u) {
			x.fatal(rt, "stored update at period %d has invalid proofs", p)
		}
		if !w.sigOK(u.AttestedHeader, par.key) {
			x.fatal(rt, "stored update at period %d is NOT SIGNED by the stored committee %s", p, par.name)
		}
		if n := c53SignerCount(u.AttestedHeader.Signature.Signers); !c53Sufficient(n, u.FinalizedHeader != nil, w.thr) {
			x.fatal(rt, "stored update at period %d has %d signers, threshold %d", p, n, w.thr)
		}
		if u.NextSyncCommitteeRoot != chd.root || chd.parent != par {
			x.fatal(rt, "stored update at period %d (by %s) does not lead to the stored committee %s", p, par.name, chd.name)
		}
		if root, ok := ch.fixedCommitteeRoots.get(x.db, p+1); ok && root != u.NextSyncCommitteeRoot {
			x.fatal(rt, "stored update at period %d contradicts the fixed root of period %d", p, p+1)
		}
	}
	// the stores are one chain: committees cover the updates and at most one period more than justified
	if !ur.isEmpty() && (cr.Start > ur.Start || cr.End < ur.End+1) {
		x.fatal(rt, "committee range %v does not cover update range %v", cr, ur)
	}
}

// ---------------------------------------------------------------------------
// operations

func (x *c53Run) deliverUpdate(rt *rapid.T, label string, u *types.LightClientUpdate, nc *types.SerializedSyncCommittee) {
	w := x.w
	cp := c53CopyUpdate(u)
	var ncp *types.SerializedSyncCommittee
	if nc != nil {
		b := *nc
		ncp = &b
	}
	per := u.AttestedHeader.Header.Slot / c53SlotsPerPeriod
	signers := c53SignerCount(u.AttestedHeader.Signature.Signers)
	ok, why := x.proper(u)
	before := x.snap()
	// preconditions of the plain forward-sync step (read before the call)
	ur := x.chain.updates.periods
	nextRoot := x.chain.getCommitteeRoot(per + 1)
	forward := ok && signers >= w.thr && (ur.isEmpty() || ur.End == per) && !ur.contains(per) &&
		(nextRoot == (common.Hash{}) || nextRoot == u.NextSyncCommitteeRoot) &&
		ncp != nil && common.Hash(c53CommitteeRoot(ncp[:])) == u.NextSyncCommitteeRoot
	hadNext := x.stored(per + 1)

	verr := cp.Validate()
	var err error
	called := false
	if verr == nil { // the fetcher (light_api) only hands validated updates to the chain
		called = true
		err = x.chain.InsertUpdate(cp, ncp)
	}
	x.logf("update[%s] period=%d signers=%d fin=%v proper=%v(%s) next=%x nc=%v -> validate=%v insert=%v", label, per, signers, u.FinalizedHeader != nil, ok, why, u.NextSyncCommitteeRoot[:4], ncp != nil, verr, err)
	after := x.snap()
	if hadNext != nil && hadNext.root != u.NextSyncCommitteeRoot {
		x.outcome(fmt.Sprintf("competing-update proper=%v(%s) -> %v", ok, why, err))
	}
	if !ok {
		if d := before.diff(after); d != "" {
			x.fatal(rt, "an update that is not properly signed/proven (%s) CHANGED the chain: %s", why, d)
		}
		if called && err == nil && !ur.contains(per) {
			x.fatal(rt, "an update that is not properly signed/proven (%s) was accepted without error", why)
		}
		x.rejectedForged++
		if why == "invalid-proof" && strings.HasPrefix(label, "root-swap") && x.stored(per) != nil && w.sigOK(u.AttestedHeader, x.stored(per).key) &&
			c53Sufficient(signers, u.FinalizedHeader != nil, w.thr) && !(w.enforce && x.future(u.AttestedHeader.Header.Slot)) {
			x.branchOnly++ // the Merkle branch is the only defect
		}
		return
	}
	if verr != nil {
		x.fatal(rt, "Validate rejected a structurally valid update: %v", verr)
	}
	if signers >= w.thr && err == ErrInvalidUpdate {
		x.fatal(rt, "properly signed update with %d signers (threshold %d) was declared invalid", signers, w.thr)
	}
	if forward {
		if err != nil {
			x.fatal(rt, "applicable forward update rejected: %v", err)
		}
		su, ok1 := x.chain.updates.get(x.db, per)
		sc := x.stored(per + 1)
		if !ok1 || sc == nil || sc.root != u.NextSyncCommitteeRoot {
			x.fatal(rt, "applicable forward update returned nil but was not stored")
		}
		e1, _ := rlp.EncodeToBytes(su)
		e2, _ := rlp.EncodeToBytes(u)
		if !bytes.Equal(e1, e2) {
			x.fatal(rt, "stored update differs from the inserted one")
		}
	}
	if err == nil && before.diff(after) != "" {
		x.accepted++
		if hadNext != nil && hadNext.root != u.NextSyncCommitteeRoot {
			x.reorgs++
			if before.cr.End > per+2 {
				x.outcome("reorg-rolled-back-later-periods")
			}
			// a replacement rolls back everything after the replaced period
			if cr := x.chain.committees.periods; cr.End != per+2 {
				x.fatal(rt, "after replacing committee %d the committee range is %v", per+1, cr)
			}
		}
	}
}

func (x *c53Run) pickNC(rt *rapid.T, child *c53Com) (*types.SerializedSyncCommittee, string) {
	switch rapid.SampledFrom([]string{"ok", "ok", "ok", "ok", "ok", "ok", "nil", "tail", "key", "other"}).Draw(rt, "nc") {
	case "nil":
		return nil, "nc-nil"
	case "tail": // same key bytes, different root
		b := *child.body
		b[len(b)-1-x.w.r.intn(1000)] ^= 1 << x.w.r.intn(8)
		return &b, "nc-tail"
	case "key":
		b := *child.body
		b[x.w.r.intn(32)] ^= 1 << x.w.r.intn(8)
		return &b, "nc-key"
	case "other":
		return x.w.forged(child.period).body, "nc-other"
	}
	return child.body, "nc-ok"
}

func (x *c53Run) opSync(rt *rapid.T) {
	w := x.w
	p, init := x.chain.NextSyncPeriod()
	if !init {
		x.opCheckpoint(rt, true)
		return
	}
	burst := rapid.IntRange(1, 3).Draw(rt, "burst")
	for i := 0; i < burst; i++ {
		if i > 0 {
			x.check(rt)
			p, _ = x.chain.NextSyncPeriod()
		}
		par := x.stored(p)
		if par == nil || len(par.children) == 0 {
			if i == 0 {
				x.opUpdate(rt)
			}
			return
		}
		var cands, good []*c53Upd
		for _, g := range w.pool {
			if g.parent == par {
				cands = append(cands, g)
				if g.signers >= w.thr {
					good = append(good, g)
				}
			}
		}
		if len(good) > 0 && rapid.IntRange(0, 3).Draw(rt, "preferSufficient") > 0 {
			cands = good
		}
		g := cands[rapid.IntRange(0, len(cands)-1).Draw(rt, "edgeVariant")]
		x.deliverUpdate(rt, "sync:"+g.parent.name+">"+g.child.name, g.u, g.child.body)
	}
}

func (x *c53Run) opUpdate(rt *rapid.T) {
	g := x.w.pool[rapid.IntRange(0, len(x.w.pool)-1).Draw(rt, "poolIdx")]
	nc, l := x.pickNC(rt, g.child)
	x.deliverUpdate(rt, "any:"+g.parent.name+">"+g.child.name+":"+l, g.u, nc)
}

// opReorg offers an alternative (or stronger) update for a period the chain already has.
func (x *c53Run) opReorg(rt *rapid.T) {
	ur := x.chain.updates.periods
	if ur.isEmpty() {
		x.opSync(rt)
		return
	}
	p := ur.Start + uint64(rapid.IntRange(0, int(ur.End-ur.Start)-1).Draw(rt, "reorgPeriod"))
	if rapid.Bool().Draw(rt, "atFork") { // prefer a period whose committee signed more than one successor
		for q := ur.Start; q < ur.End; q++ {
			if c := x.stored(q); c != nil && len(c.children) > 1 {
				p = q
				if rapid.Bool().Draw(rt, "firstFork") {
					break
				}
			}
		}
	}
	par := x.stored(p)
	if par == nil {
		return
	}
	cur := x.stored(p + 1)
	preferOther := rapid.Bool().Draw(rt, "preferOther")
	var cands []*c53Upd
	for _, g := range x.w.pool {
		if g.parent == par && !(preferOther && len(par.children) > 1 && g.child == cur) {
			cands = append(cands, g)
		}
	}
	if len(cands) == 0 {
		return
	}
	g := cands[rapid.IntRange(0, len(cands)-1).Draw(rt, "altVariant")]
	nc, l := x.pickNC(rt, g.child)
	x.deliverUpdate(rt, "alt:"+g.parent.name+">"+g.child.name+":"+l, g.u, nc)
}

func (x *c53Run) opForged(rt *rapid.T) {
	w := x.w
	// base: a genuine update, preferably one that would apply right now
	var g *c53Upd
	if p, init := x.chain.NextSyncPeriod(); init && rapid.IntRange(0, 9).Draw(rt, "applicable") < 7 {
		if rapid.Bool().Draw(rt, "atExisting") && !x.chain.updates.periods.isEmpty() {
			ur := x.chain.updates.periods
			p = ur.Start + uint64(rapid.IntRange(0, int(ur.End-ur.Start)-1).Draw(rt, "forgePeriod"))
		}
		if par := x.stored(p); par != nil {
			var cands []*c53Upd
			for _, c := range w.pool {
				if c.parent == par && c53Sufficient(c.signers, c.fin, w.thr) {
					cands = append(cands, c)
				}
			}
			if len(cands) > 0 {
				g = cands[rapid.IntRange(0, len(cands)-1).Draw(rt, "forgeBase")]
			}
		}
	}
	if g == nil {
		g = w.pool[rapid.IntRange(0, len(w.pool)-1).Draw(rt, "forgeBaseAny")]
	}
	kind := rapid.SampledFrom([]string{"forged-key", "forged-key-genuine-root", "forged-key-skip", "root-swap", "root-swap-rebranch",
		"branch-flip", "branch-short", "branch-long", "insufficient", "mask-inflate", "sigslot-next", "next-committee-signs",
		"wrong-domain", "header-tamper", "finality-broken", "finality-period", "version-swap", "sig-flip"}).Draw(rt, "forgery")
	z := w.forged(g.period + 1)
	u := c53CopyUpdate(g.u)
	nc := g.child.body
	strong := 400 + w.r.intn(113)
	if strong < w.thr {
		strong = c53CommitteeSize
	}
	ver := g.u.Version
	off := 1 + uint64(w.r.intn(8189))
	switch kind {
	case "forged-key":
		u, nc = w.mkUpdate(g.period, z.root, w.forged(g.period).key, strong, true, ver, off, false), z.body
	case "forged-key-genuine-root":
		u = w.mkUpdate(g.period, g.child.root, w.forged(g.period).key, strong, true, ver, off, false)
	case "forged-key-skip": // proves a genuine committee, but of a later period, under a foreign key
		if far := w.A[g.period+2]; far != nil {
			u, nc = w.mkUpdate(g.period, far.root, w.forged(g.period).key, strong, true, ver, off, false), far.body
		} else {
			u, nc = w.mkUpdate(g.period, z.root, w.forged(g.period).key, strong, true, ver, off, false), z.body
		}
	case "root-swap": // genuine header and signature, claimed root replaced
		u.NextSyncCommitteeRoot, nc = z.root, z.body
	case "root-swap-rebranch": // ... and a well-formed branch for the claimed root (cannot match the signed state root)
		_, nextIdx, _ := c53Index(ver)
		tr := c53NewTree(w.r)
		tr.leaves[nextIdx] = z.root
		tr.node(1)
		u.NextSyncCommitteeRoot, u.NextSyncCommitteeBranch, nc = z.root, tr.branch(nextIdx), z.body
	case "branch-flip":
		i := w.r.intn(len(u.NextSyncCommitteeBranch))
		u.NextSyncCommitteeBranch[i][w.r.intn(32)] ^= 1 << w.r.intn(8)
	case "branch-short":
		u.NextSyncCommitteeBranch = u.NextSyncCommitteeBranch[:len(u.NextSyncCommitteeBranch)-1]
	case "branch-long":
		u.NextSyncCommitteeBranch = append(u.NextSyncCommitteeBranch, merkle.Value(w.r.b32()))
	case "insufficient":
		lim := w.thr
		if lim > c53Supermajority {
			lim = c53Supermajority
		}
		n := []int{0, lim - 1, lim - 1, lim - 1, lim / 2}[w.r.intn(5)]
		if n > lim-1 {
			n = lim - 1
		}
		u = w.mkUpdate(g.period, g.child.root, g.parent.key, n, w.r.intn(2) == 0, ver, off, false)
	case "mask-inflate": // too few real signers, bitmask padded without re-signing
		lim := w.thr
		if lim > c53Supermajority {
			lim = c53Supermajority
		}
		n := lim - 1
		u = w.mkUpdate(g.period, g.child.root, g.parent.key, n, false, ver, off, false)
		for i := 0; i < c53CommitteeSize && c53SignerCount(u.AttestedHeader.Signature.Signers) < strong; i++ {
			u.AttestedHeader.Signature.Signers[i/8] |= 1 << (i % 8)
		}
	case "sigslot-next": // signature slot moved into the next period (not covered by the signature)
		u.AttestedHeader.SignatureSlot = (g.period + 1) * c53SlotsPerPeriod
	case "next-committee-signs": // signed by the genuine committee of the NEXT period, signature slot there
		u = w.mkUpdate(g.period, g.child.root, g.child.key, strong, false, ver, c53SlotsPerPeriod-1, false)
	case "wrong-domain":
		u = w.mkUpdate(g.period, g.child.root, g.parent.key, strong, true, ver, off, true)
	case "header-tamper": // proofs still valid, signature no longer covers the header
		u.AttestedHeader.Header.ProposerIndex++
	case "finality-broken":
		if u.FinalizedHeader == nil {
			u.NextSyncCommitteeBranch[0][0] ^= 1
		} else {
			u.FinalityBranch[w.r.intn(len(u.FinalityBranch))][3] ^= 0x10
		}
	case "finality-period":
		fh := w.randHeader((g.period + 1) * c53SlotsPerPeriod)
		u.FinalizedHeader = &fh
	case "version-swap": // proof depth of the other fork family
		if _, n, _ := c53Index(ver); n == 55 {
			u.Version = "electra"
		} else {
			u.Version = "deneb"
		}
	case "sig-flip":
		u.AttestedHeader.Signature.Signature[w.r.intn(32)] ^= 1 << w.r.intn(8)
	}
	x.deliverUpdate(rt, kind, u, nc)
}

func (x *c53Run) opCheckpoint(rt *rapid.T, genuine bool) {
	w := x.w
	hi := w.nper - 1
	if _, init := x.chain.NextSyncPeriod(); !init && genuine {
		hi = 2 // first checkpoint early, so that there is a chain to follow
	}
	q := w.p0 + uint64(rapid.IntRange(0, hi).Draw(rt, "cpPeriod"))
	ver := rapid.SampledFrom([]string{"", "electra", "deneb"}).Draw(rt, "cpVersion")
	b := w.mkBootstrap(w.A[q], w.A[q+1], ver)
	label := "genuine"
	if !genuine {
		label = rapid.SampledFrom([]string{"body-tail", "body-key", "root", "branch", "branch-short", "state-root", "version"}).Draw(rt, "cpForgery")
		switch label {
		case "body-tail":
			b.Committee[len(b.Committee)-1-w.r.intn(500)] ^= 4
		case "body-key":
			b.Committee[w.r.intn(32)] ^= 4
		case "root":
			z := w.forged(q)
			b.CommitteeRoot = z.root
		case "branch":
			b.CommitteeBranch[w.r.intn(len(b.CommitteeBranch))][w.r.intn(32)] ^= 1
		case "branch-short":
			b.CommitteeBranch = b.CommitteeBranch[:len(b.CommitteeBranch)-1]
		case "state-root":
			b.Header.StateRoot[w.r.intn(32)] ^= 1
		case "version":
			if cur, _, _ := c53Index(ver); cur == 54 {
				b.Version = "electra"
			} else {
				b.Version = "deneb"
			}
		}
	}
	valid := c53ValidBootstrap(&b)
	before := x.snap()
	_, wasInit := x.chain.NextSyncPeriod()
	err := x.chain.CheckpointInit(b)
	x.logf("checkpoint[%s] period=%d valid=%v -> %v", label, q, valid, err)
	if !valid {
		if err == nil {
			x.fatal(rt, "CheckpointInit accepted a bootstrap with an invalid proof (%s)", label)
		}
		if d := before.diff(x.snap()); d != "" {
			x.fatal(rt, "invalid bootstrap changed the chain: %s", d)
		}
		x.rejectedForged++
		return
	}
	if !genuine {
		panic("VERIF-HARNESS-BUG: forged bootstrap is valid: " + label)
	}
	if !wasInit && err != nil {
		x.fatal(rt, "CheckpointInit on an empty chain failed: %v", err)
	}
	if err == nil {
		if c := x.stored(q); c != w.A[q] {
			x.fatal(rt, "after CheckpointInit(%d) the checkpoint committee is not stored", q)
		}
	}
}

// opFixed: trusted-source sync of fixed roots/committees next to the fixed range (white-box,
// as the package's own tests do), main branch only.
func (x *c53Run) opFixed(rt *rapid.T) {
	w := x.w
	fr := x.chain.fixedCommitteeRoots.periods
	if fr.isEmpty() {
		return
	}
	q := fr.End
	if rapid.IntRange(0, 3).Draw(rt, "backward") > 0 && fr.Start > w.p0 {
		q = fr.Start - 1
	}
	if w.A[q] == nil {
		return
	}
	e1 := x.chain.addFixedCommitteeRoot(q, w.A[q].root)
	var e2 error
	if rapid.Bool().Draw(rt, "withCommittee") {
		b := *w.A[q].body
		e2 = x.chain.addCommittee(q, &b)
	}
	x.logf("fixed period=%d -> %v / %v", q, e1, e2)
}

func (x *c53Run) opUnfix(rt *rapid.T) {
	fr := x.chain.fixedCommitteeRoots.periods
	if fr.isEmpty() {
		return
	}
	q := fr.Start + uint64(rapid.IntRange(0, int(fr.End-fr.Start)).Draw(rt, "unfixFrom"))
	err := x.chain.deleteFixedCommitteeRootsFrom(q)
	x.logf("unfix from=%d -> %v", q, err)
}

func (x *c53Run) opReopen(rt *rapid.T) {
	before := x.snap()
	x.chain = NewTestCommitteeChain(x.db, &x.w.cfg, x.w.thr, x.w.enforce, x.clock)
	x.logf("reopen")
	if d := before.diff(x.snap()); d != "" {
		x.fatal(rt, "reopening the chain from its database did not restore the same state: %s", d)
	}
	x.reopens++
}

func (x *c53Run) opClock(rt *rapid.T) {
	slots := rapid.SampledFrom([]int{1, 100, 4096, 8192, 16384}).Draw(rt, "advanceSlots")
	x.clock.Run(time.Duration(slots) * 12 * time.Second)
	x.logf("clock +%d slots", slots)
}

// opHeader checks a signed header against the model, through VerifySignedHeader and
// through the head tracker (which applies the signer threshold).
func (x *c53Run) opHeader(rt *rapid.T) {
	w := x.w
	cr := x.chain.committees.periods
	// period of the signature slot
	var per uint64
	switch rapid.SampledFrom([]string{"known", "known", "known", "known", "edge", "world", "far"}).Draw(rt, "hdrPeriod") {
	case "known":
		if cr.isEmpty() {
			per = w.p0 + uint64(rapid.IntRange(0, w.nper).Draw(rt, "hp"))
		} else {
			per = cr.Start + uint64(rapid.IntRange(0, int(cr.End-cr.Start)-1).Draw(rt, "hp"))
		}
	case "edge":
		per = cr.End
		if rapid.Bool().Draw(rt, "below") && cr.Start > 0 {
			per = cr.Start - 1
		}
	case "world":
		per = w.p0 + uint64(rapid.IntRange(0, w.nper).Draw(rt, "hp"))
	case "far":
		per = rapid.SampledFrom([]uint64{0, 5000, 1 << 40, (1 << 51) - 1}).Draw(rt, "hp")
	}
	start := per * c53SlotsPerPeriod
	sigOff := uint64(rapid.SampledFrom([]int{0, 0, 1, 2, 100, 5000, 8191}).Draw(rt, "sigOff"))
	sigSlot := start + sigOff
	// header slot: usually sigSlot-1 (possibly in the previous period), sometimes elsewhere
	var slot uint64
	switch rapid.SampledFrom([]string{"prev", "prev", "prev", "same", "back", "ahead", "huge"}).Draw(rt, "hdrSlot") {
	case "prev":
		if sigSlot > 0 {
			slot = sigSlot - 1
		}
	case "same":
		slot = sigSlot
	case "back":
		d := uint64(rapid.IntRange(1, 20000).Draw(rt, "backBy"))
		if d > sigSlot {
			d = sigSlot
		}
		slot = sigSlot - d
	case "ahead":
		slot = sigSlot + uint64(rapid.IntRange(1, 9000).Draw(rt, "aheadBy"))
	case "huge":
		slot = rapid.SampledFrom([]uint64{768614335, 768614336, 768614337, 1 << 40, 1 << 63, ^uint64(0)}).Draw(rt, "hugeSlot")
	}
	// signer
	who := rapid.SampledFrom([]string{"stored", "stored", "stored", "stored", "genuine-any", "header-period", "forged"}).Draw(rt, "hdrSigner")
	var key [32]byte
	switch who {
	case "stored":
		if c := x.stored(per); c != nil {
			key = c.key
		} else if g := w.genuine[per]; len(g) > 0 {
			key = g[0].key
			who = "genuine-unknown-to-chain"
		} else {
			key = w.forged(per).key
			who = "forged"
		}
	case "genuine-any":
		if g := w.genuine[per]; len(g) > 0 {
			key = g[rapid.IntRange(0, len(g)-1).Draw(rt, "branch")].key
		} else {
			key = w.forged(per).key
		}
	case "header-period": // the committee of the header's own period (differs at period boundaries)
		hp := slot / c53SlotsPerPeriod
		if c := x.stored(hp); c != nil {
			key = c.key
		} else if g := w.genuine[hp]; len(g) > 0 {
			key = g[0].key
		} else {
			key = w.forged(hp).key
		}
	case "forged":
		key = w.forged(per).key
	}
	signers := rapid.SampledFrom(c53SignerChoices(w.thr)).Draw(rt, "hdrSigners")
	h := w.randHeader(slot)
	h.BodyRoot = w.bodyRoot
	dom, haveDom := w.domainAt(slot / c53SlotsPerEpoch)
	tamper := rapid.SampledFrom([]string{"none", "none", "none", "none", "none", "none", "domain", "header", "mask", "sig", "payload"}).Draw(rt, "hdrTamper")
	if tamper == "domain" || !haveDom {
		dom = c53Domain([]byte{9}, w.gvr)
		if len(w.forks) > 1 { // the other fork's domain
			if cur, _ := w.domainAt(slot / c53SlotsPerEpoch); cur == w.forks[0].domain {
				dom = w.forks[1].domain
			} else {
				dom = w.forks[0].domain
			}
		}
	}
	sh := w.sign(h, key, w.r.bitmask(signers), dom, sigSlot)
	payBr := append(merkle.Values{}, w.payBr...)
	switch tamper {
	case "header":
		sh.Header.ParentRoot[w.r.intn(32)] ^= 1
	case "mask": // claim more signers than signed
		for i := 0; i < c53CommitteeSize; i++ {
			if sh.Signature.Signers[i/8]&(1<<(i%8)) == 0 {
				sh.Signature.Signers[i/8] |= 1 << (i % 8)
				break
			}
		}
		if signers == c53CommitteeSize {
			sh.Signature.Signers[0] &^= 1
		}
	case "sig":
		sh.Signature.Signature[w.r.intn(96)] ^= 1 << w.r.intn(8)
	case "payload":
		payBr[w.r.intn(len(payBr))][0] ^= 1
	}
	claimed := c53SignerCount(sh.Signature.Signers)

	// model
	com := x.stored(sh.SignatureSlot / c53SlotsPerPeriod)
	sigGood := com != nil && w.sigOK(sh, com.key)
	timeGood := !w.enforce || !x.future(sh.Header.Slot)
	want := sigGood && timeGood

	before := x.snap()
	got, _, verr := x.chain.VerifySignedHeader(sh)
	ht := NewHeadTracker(x.chain, w.thr, nil)
	opt := types.OptimisticUpdate{
		Attested:      types.HeaderWithExecProof{Header: sh.Header, PayloadHeader: w.payload, PayloadBranch: payBr},
		Signature:     sh.Signature,
		SignatureSlot: sh.SignatureSlot,
	}
	accepted, herr := ht.ValidateOptimistic(opt)
	x.logf("header slot=%d sigslot=%d signer=%s signers=%d tamper=%s committee=%v sigGood=%v timeGood=%v -> verify=%v(%v) accept=%v(%v)",
		slot, sigSlot, who, claimed, tamper, com != nil, sigGood, timeGood, got, verr, accepted, herr)
	if got && !want {
		x.fatal(rt, "VerifySignedHeader ACCEPTED a header that is not a timely signature of the stored genuine committee (committee known=%v sigGood=%v timeGood=%v)", com != nil, sigGood, timeGood)
	}
	if !got && want {
		x.fatal(rt, "VerifySignedHeader rejected a correctly signed, timely header of a known period (err=%v)", verr)
	}
	wantAccept := want && claimed >= w.thr && tamper != "payload"
	if accepted && !wantAccept {
		x.fatal(rt, "head tracker ACCEPTED a header: signers=%d threshold=%d signature ok=%v time ok=%v payload proof tampered=%v", claimed, w.thr, sigGood, timeGood, tamper == "payload")
	}
	if !accepted && wantAccept && (slot > 0 || claimed > 0) {
		x.fatal(rt, "head tracker rejected a properly signed header with %d signers (threshold %d): %v", claimed, w.thr, herr)
	}
	if accepted {
		if v, ok := ht.ValidatedOptimistic(); !ok || v.Attested.Header != sh.Header {
			x.fatal(rt, "accepted header is not the validated optimistic head")
		}
	}
	if d := before.diff(x.snap()); d != "" {
		x.fatal(rt, "header verification changed the chain: %s", d)
	}
	if want {
		x.hdrTrue++
	} else {
		x.hdrFalse++
	}
}

var c53Ops = []string{
	"sync", "sync", "sync", "sync", "sync", "sync", "sync", "sync", "sync", "sync",
	"update", "update", "update",
	"reorg", "reorg", "reorg",
	"forged", "forged", "forged", "forged", "forged",
	"header", "header", "header", "header", "header",
	"reopen", "clock", "checkpoint", "badcheckpoint", "fixed", "unfix",
}

func c53Case(rt *rapid.T, st *vs.S) {
	c := st.Case()
	w := c53NewWorld(rt)
	x := &c53Run{w: w, db: memorydb.New(), clock: new(mclock.Simulated), st: st}
	// simulated system clock: a drawn position in (or beyond) the generated periods
	k := rapid.SampledFrom([]int{0, 2, 4, 6, 8, 11, 11, 11, 11, 11, 11, 11, 11, 11}).Draw(rt, "clockPeriod")
	startSlot := (w.p0+uint64(k))*c53SlotsPerPeriod + uint64(rapid.IntRange(0, c53SlotsPerPeriod-1).Draw(rt, "clockOff"))
	x.clock.Run(time.Duration(w.genesis+startSlot*12) * time.Second)
	x.chain = NewTestCommitteeChain(x.db, &w.cfg, w.thr, w.enforce, x.clock)
	x.logf("world p0=%d genesis=%d forks=%d pool=%d clockSlot=%d", w.p0, w.genesis, len(w.forks), len(w.pool), startSlot)

	maxOps := 40
	if vs.Thorough() {
		maxOps = 80
	}
	nops := rapid.IntRange(8, maxOps).Draw(rt, "nops")
	for i := 0; i < nops; i++ {
		switch rapid.SampledFrom(c53Ops).Draw(rt, "op") {
		case "sync":
			x.opSync(rt)
		case "update":
			x.opUpdate(rt)
		case "reorg":
			x.opReorg(rt)
		case "forged":
			x.opForged(rt)
		case "header":
			x.opHeader(rt)
		case "reopen":
			x.opReopen(rt)
		case "clock":
			x.opClock(rt)
		case "checkpoint":
			x.opCheckpoint(rt, true)
		case "badcheckpoint":
			x.opCheckpoint(rt, false)
		case "fixed":
			x.opFixed(rt)
		case "unfix":
			x.opUnfix(rt)
		}
		x.check(rt)
	}
	// final: reopen once more and compare
	x.opReopen(rt)
	x.check(rt)

	nt := x.reorgs > 0 || x.branchOnly > 0
	c.NonTrivial(nt, strings.Join(x.oplog, "|"))
	if x.reorgs > 0 {
		c.Class("reorg-replacement")
	}
	if x.branchOnly > 0 {
		c.Class("branch-only-forgery")
	}
	if x.accepted > 0 {
		c.Class("accepted-updates")
	}
	if x.rejectedForged > 0 {
		c.Class("rejected-improper")
	}
	if x.hdrTrue > 0 {
		c.Class("header-accepted")
	}
	if x.hdrFalse > 0 {
		c.Class("header-rejected")
	}
	if cr := x.chain.committees.periods; cr.End-cr.Start >= 5 {
		c.Class("chain>=5")
	}
	c.Classf("enforceTime=%v", w.enforce)
	for k := range x.outcomes { // histogram only; order irrelevant
		c.Class(k)
	}
	c.Sample(nt, func() any {
		n := len(x.oplog)
		if n > 12 {
			n = 12
		}
		return map[string]any{"threshold": w.thr, "enforceTime": w.enforce, "reorgs": x.reorgs, "branch_only_forgeries": x.branchOnly,
			"accepted": x.accepted, "rejected_improper": x.rejectedForged, "first_ops": x.oplog[:n]}
	})
}

func c53Quiet() { log.SetDefault(log.NewLogger(log.DiscardHandler())) }

// TestVerifC53Chain: state machine over the committee chain and head validation.
func TestVerifC53Chain(t *testing.T) {
	c53Quiet()
	st := vs.New("C53", t)
	vs.Check(t, 1, func(rt *rapid.T) { c53Case(rt, st) })
}

// TestVerifC53Merkle: merkle.VerifyProof accepts exactly the valid single-leaf branches.
func TestVerifC53Merkle(t *testing.T) {
	st := vs.New("C53", t)
	vs.Check(t, 2, func(rt *rapid.T) {
		c := st.Case()
		r := &c53Rand{s: rapid.Uint64().Draw(rt, "seed")}
		depth := rapid.IntRange(0, 12).Draw(rt, "depth")
		g := uint64(1)<<depth | (r.next() & (uint64(1)<<depth - 1))
		tr := c53NewTree(r)
		leaf := r.b32()
		tr.leaves[g] = leaf
		root := tr.node(1)
		br := tr.branch(g)
		idx, val := g, leaf
		mut := rapid.SampledFrom([]string{"none", "none", "flip-branch", "flip-leaf", "flip-root", "short", "long", "sibling-index", "shallower-index", "deeper-index", "zero-index"}).Draw(rt, "mutation")
		switch mut {
		case "flip-branch":
			if len(br) > 0 {
				br[r.intn(len(br))][r.intn(32)] ^= 1 << r.intn(8)
			}
		case "flip-leaf":
			val[r.intn(32)] ^= 1 << r.intn(8)
		case "flip-root":
			root[r.intn(32)] ^= 1 << r.intn(8)
		case "short":
			if len(br) > 0 {
				br = br[:len(br)-1]
			}
		case "long":
			br = append(br, merkle.Value(r.b32()))
		case "sibling-index":
			idx ^= 1
		case "shallower-index":
			idx >>= 1
		case "deeper-index":
			idx = idx*2 + uint64(r.intn(2))
		case "zero-index":
			idx = 0
		}
		want := c53VerifyBranch(root, idx, br, val)
		err := merkle.VerifyProof(root, idx, br, merkle.Value(val))
		if (err == nil) != want {
			rt.Fatalf("VerifyProof(index=%d depth=%d mutation=%s branchLen=%d) = %v, reference says valid=%v", idx, depth, mut, len(br), err, want)
		}
		c.Classf("%s valid=%v", mut, want)
		c.NonTrivial(mut != "none" && depth > 0, fmt.Sprintf("%d/%s/%x", g, mut, leaf[:8]))
	})
}
