//go:build verif && amd64

package blake2b

import (
	"encoding/binary"
	"encoding/hex"
	"fmt"
	"math/bits"
	"testing"

	"pgregory.net/rapid"
	vs "verif.local/kit/stat"
)

// C05 (BLAKE2b part): the CPU-feature dispatched compression function F
// (fAVX2 / fAVX / fSSE4 assembly and fGeneric) returns identical state vectors for
// every (h, m, t, final, rounds), directly and through the public F with every
// dispatch flag combination the CPU supports; all are also compared with an
// RFC 7693 transcription written for this harness.

var c05IV = [8]uint64{
	0x6a09e667f3bcc908, 0xbb67ae8584caa73b, 0x3c6ef372fe94f82b, 0xa54ff53a5f1d36f1,
	0x510e527fade682d1, 0x9b05688c2b3e6c1f, 0x1f83d9abfb41bd6b, 0x5be0cd19137e2179,
}

var c05Sigma = [10][16]byte{
	{0, 1, 2, 3, 4, 5, 6, 7, 8, 9, 10, 11, 12, 13, 14, 15},
	{14, 10, 4, 8, 9, 15, 13, 6, 1, 12, 0, 2, 11, 7, 5, 3},
	{11, 8, 12, 0, 5, 2, 15, 13, 10, 14, 3, 6, 7, 1, 9, 4},
	{7, 9, 3, 1, 13, 12, 11, 14, 2, 6, 5, 10, 4, 0, 15, 8},
	{9, 0, 5, 7, 2, 4, 10, 15, 14, 1, 11, 12, 6, 8, 3, 13},
	{2, 12, 6, 10, 0, 11, 8, 3, 4, 13, 7, 5, 15, 14, 1, 9},
	{12, 5, 1, 15, 14, 13, 4, 10, 0, 7, 6, 3, 9, 2, 8, 11},
	{13, 11, 7, 14, 12, 1, 3, 9, 5, 0, 15, 4, 8, 6, 2, 10},
	{6, 15, 14, 9, 11, 3, 0, 8, 12, 2, 13, 7, 1, 4, 10, 5},
	{10, 2, 8, 4, 7, 6, 1, 5, 15, 11, 9, 14, 3, 12, 13, 0},
}

// c05RefF is RFC 7693 section 3.2 with a variable round count (EIP-152).
func c05RefF(h *[8]uint64, m *[16]uint64, t0, t1 uint64, final bool, rounds uint64) {
	var v [16]uint64
	copy(v[:8], h[:])
	copy(v[8:], c05IV[:])
	v[12] ^= t0
	v[13] ^= t1
	if final {
		v[14] = ^v[14]
	}
	g := func(a, b, c, d int, x, y uint64) {
		v[a] = v[a] + v[b] + x
		v[d] = bits.RotateLeft64(v[d]^v[a], -32)
		v[c] = v[c] + v[d]
		v[b] = bits.RotateLeft64(v[b]^v[c], -24)
		v[a] = v[a] + v[b] + y
		v[d] = bits.RotateLeft64(v[d]^v[a], -16)
		v[c] = v[c] + v[d]
		v[b] = bits.RotateLeft64(v[b]^v[c], -63)
	}
	for i := uint64(0); i < rounds; i++ {
		s := &c05Sigma[i%10]
		g(0, 4, 8, 12, m[s[0]], m[s[1]])
		g(1, 5, 9, 13, m[s[2]], m[s[3]])
		g(2, 6, 10, 14, m[s[4]], m[s[5]])
		g(3, 7, 11, 15, m[s[6]], m[s[7]])
		g(0, 5, 10, 15, m[s[8]], m[s[9]])
		g(1, 6, 11, 12, m[s[10]], m[s[11]])
		g(2, 7, 8, 13, m[s[12]], m[s[13]])
		g(3, 4, 9, 14, m[s[14]], m[s[15]])
	}
	for i := 0; i < 8; i++ {
		h[i] ^= v[i] ^ v[i+8]
	}
}

type c05Impl struct {
	name string
	fn   func(h *[8]uint64, m *[16]uint64, c0, c1 uint64, flag uint64, rounds uint64)
}

func c05Word(rt *rapid.T, label string) uint64 {
	switch rapid.IntRange(0, 7).Draw(rt, label+"K") {
	case 0:
		return 0
	case 1:
		return ^uint64(0)
	case 2:
		return rapid.SampledFrom([]uint64{1, 1 << 63, 1 << 32, 0xffffffff, 0xffffffff00000000, 128, 0x8000000080000000}).Draw(rt, label+"C")
	default:
		return rapid.Uint64().Draw(rt, label)
	}
}

func TestVerifC05Blake2bF(t *testing.T) {
	st := vs.New("C05", t)
	// harness self-check: the RFC transcription reproduces BLAKE2b-512("abc") (EIP-152 vector 5)
	{
		h := [8]uint64{0x6a09e667f2bdc948, 0xbb67ae8584caa73b, 0x3c6ef372fe94f82b, 0xa54ff53a5f1d36f1, 0x510e527fade682d1, 0x9b05688c2b3e6c1f, 0x1f83d9abfb41bd6b, 0x5be0cd19137e2179}
		var m [16]uint64
		m[0] = 0x636261
		c05RefF(&h, &m, 3, 0, true, 12)
		var out [64]byte
		for i, w := range h {
			binary.LittleEndian.PutUint64(out[8*i:], w)
		}
		if hex.EncodeToString(out[:]) != "ba80a53f981c4d0d6a2797b69f12f6e94c212f14685ac4b74b12bb6fdbffa2d17d87c5392aab792dc252d5de4533cc9518d38aa8dbf1925ab92386edd4009923" {
			t.Fatalf("VERIF-HARNESS-BUG: reference F does not reproduce BLAKE2b-512(abc): %x", out)
		}
	}
	origAVX2, origAVX, origSSE4 := useAVX2, useAVX, useSSE4
	defer func() { useAVX2, useAVX, useSSE4 = origAVX2, origAVX, origSSE4 }()
	impls := []c05Impl{{"fGeneric", fGeneric}}
	if origSSE4 {
		impls = append(impls, c05Impl{"fSSE4", fSSE4})
	}
	if origAVX {
		impls = append(impls, c05Impl{"fAVX", fAVX})
	}
	if origAVX2 {
		impls = append(impls, c05Impl{"fAVX2", fAVX2})
	}
	st.Note("blake2b implementations available on this CPU: generic sse4=%v avx=%v avx2=%v", origSSE4, origAVX, origAVX2)
	// dispatch flag combinations reachable on this CPU (a flag can only be cleared, never set)
	type flags struct{ avx2, avx, sse4 bool }
	combos := []flags{{origAVX2, origAVX, origSSE4}, {false, origAVX, origSSE4}, {false, false, origSSE4}, {false, false, false}}
	roundPool := []uint64{0, 1, 2, 9, 10, 11, 12, 13, 19, 20, 21, 100, 255, 256, 1000, 65535, 65536}
	vs.Check(t, 1, func(rt *rapid.T) {
		c := st.Case()
		var h [8]uint64
		var m [16]uint64
		for i := range h {
			h[i] = c05Word(rt, "h")
		}
		for i := range m {
			m[i] = c05Word(rt, "m")
		}
		t0, t1 := c05Word(rt, "t0"), c05Word(rt, "t1")
		final := rapid.Bool().Draw(rt, "final")
		var rounds uint64
		switch k := rapid.IntRange(0, 99).Draw(rt, "roundsKind"); {
		case k < 50:
			rounds = uint64(rapid.IntRange(0, 40).Draw(rt, "roundsSmall"))
			c.Class("rounds 0..40")
		case k < 97:
			rounds = roundPool[rapid.IntRange(0, len(roundPool)-1).Draw(rt, "roundsPool")]
			if rounds > 1000 {
				c.Class("rounds 2^16±1")
			} else {
				c.Class("rounds hostile constant")
			}
		case k < 99 || !vs.Thorough():
			rounds = uint64(rapid.IntRange(41, 5000).Draw(rt, "roundsMid"))
			c.Class("rounds 41..5000")
		default:
			rounds = 1 << 20
			c.Class("rounds 2^20")
		}
		flag := uint64(0)
		if final {
			flag = ^uint64(0)
		}
		want := h
		c05RefF(&want, &m, t0, t1, final, rounds)
		for _, im := range impls {
			got, mm := h, m
			im.fn(&got, &mm, t0, t1, flag, rounds)
			if got != want {
				rt.Fatalf("%s differs from the reference: h=%x m=%x t=(%x,%x) final=%v rounds=%d\n got  %x\n want %x", im.name, h, m, t0, t1, final, rounds, got, want)
			}
		}
		if rounds <= 0xffffffff {
			for _, fl := range combos {
				useAVX2, useAVX, useSSE4 = fl.avx2, fl.avx, fl.sse4
				got := h
				F(&got, m, [2]uint64{t0, t1}, final, uint32(rounds))
				if got != want {
					useAVX2, useAVX, useSSE4 = origAVX2, origAVX, origSSE4
					rt.Fatalf("F with dispatch flags %+v differs: h=%x m=%x t=(%x,%x) final=%v rounds=%d\n got  %x\n want %x", fl, h, m, t0, t1, final, rounds, got, want)
				}
			}
			useAVX2, useAVX, useSSE4 = origAVX2, origAVX, origSSE4
		}
		c.Classf("final=%v", final)
		c.Classf("implementations compared: %d", len(impls))
		c.NonTrivial(rounds > 0 && len(impls) > 1, fmt.Sprintf("%x|%x|%x|%x|%v|%d", h, m, t0, t1, final, rounds))
		c.Sample(rounds > 0, func() any {
			return map[string]any{"h0": fmt.Sprintf("%016x", h[0]), "m0": fmt.Sprintf("%016x", m[0]), "t": []string{fmt.Sprintf("%x", t0), fmt.Sprintf("%x", t1)}, "final": final, "rounds": rounds, "out0": fmt.Sprintf("%016x", want[0])}
		})
	})
}
