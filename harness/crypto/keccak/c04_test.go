//go:build verif

package keccak

import (
	"bytes"
	"fmt"
	"hash"
	"testing"

	xsha3 "golang.org/x/crypto/sha3"
	"pgregory.net/rapid"
	"verif.local/kit/refkeccak"
	vs "verif.local/kit/stat"
)

// C04: geth's Keccak-256/512 sponge (one-shot, streaming, Sum/Reset/Read
// interleavings) agrees with golang.org/x/crypto/sha3's legacy Keccak for every
// input and every splitting of the input across writes.

type c04Variant struct {
	name   string
	rate   int
	outLen int
	mk     func() hash.Hash // implementation under test
	ref    func() hash.Hash // x/crypto reference
}

var c04Variants = []c04Variant{
	{"k256", 136, 32, NewLegacyKeccak256, xsha3.NewLegacyKeccak256},
	{"k512", 72, 64, NewLegacyKeccak512, xsha3.NewLegacyKeccak512},
}

type c04Reader interface {
	Read([]byte) (int, error)
}

type c04F interface{ Fatalf(string, ...any) }

// c04RefDigest: x/crypto one-shot digest of msg.
func c04RefDigest(v c04Variant, msg []byte) []byte {
	h := v.ref()
	h.Write(msg)
	return h.Sum(nil)
}

// c04RefSqueeze: first n output bytes of the sponge over msg, from x/crypto's
// own Read; cross-checked against the spec-shaped sponge of kit/refkeccak (a
// disagreement between the two references is a harness problem, not a finding).
func c04RefSqueeze(t c04F, v c04Variant, msg []byte, n int) []byte {
	h := v.ref()
	h.Write(msg)
	out := make([]byte, n)
	h.(c04Reader).Read(out)
	if own := refkeccak.Sponge(v.rate, 0x01, msg, n); !bytes.Equal(own, out) {
		t.Fatalf("VERIF-HARNESS-BUG: references disagree on squeeze of %d bytes over %d-byte message (%s)", n, len(msg), v.name)
	}
	return out
}

func c04Pattern(l, salt int) []byte {
	b := make([]byte, l)
	for i := range b {
		b[i] = byte(i*131 + salt*29 + (i>>8)*17 + 1)
	}
	return b
}

// TestVerifC04Exhaustive: every length 0..5*rate+3+rate (>= 5 blocks) with a fixed
// pattern, and for each length every two-way split point, plus byte-at-a-time and
// block-aligned three-way splits; digests via Sum and via Read.
func TestVerifC04Exhaustive(t *testing.T) {
	vs.OnlyShard0(t)
	st := vs.New("C04", t)
	for _, v := range c04Variants {
		maxLen := 5*v.rate + 3
		total := 0
		for l := 0; l <= maxLen; l++ {
			msg := c04Pattern(l, l)
			want := c04RefDigest(v, msg)
			d := v.mk()
			for cut := 0; cut <= l; cut++ {
				c := st.Case()
				d.Reset()
				d.Write(msg[:cut])
				d.Write(msg[cut:])
				var got []byte
				if (cut+l)%2 == 0 {
					got = d.Sum(nil)
				} else {
					got = make([]byte, v.outLen)
					d.(c04Reader).Read(got)
				}
				if !bytes.Equal(got, want) {
					t.Fatalf("%s len=%d split at %d: got %x want %x", v.name, l, cut, got, want)
				}
				boundary := cut%v.rate == 0 && cut > 0 && cut < l
				c.NonTrivial(l >= v.rate || boundary, fmt.Sprintf("%s/%d/%d", v.name, l, cut))
				switch {
				case boundary:
					c.Class(v.name + " two-way cut at block boundary")
				case cut%v.rate == v.rate-1 || cut%v.rate == 1:
					c.Class(v.name + " two-way cut at boundary±1")
				default:
					c.Class(v.name + " two-way other cut")
				}
				if total%20011 == 0 {
					c.Sample(l >= v.rate, func() any {
						return map[string]any{"variant": v.name, "len": l, "cut": cut, "digest": fmt.Sprintf("%x", got)}
					})
				}
				total++
			}
			// byte at a time
			{
				c := st.Case()
				d.Reset()
				for i := 0; i < l; i++ {
					d.Write(msg[i : i+1])
				}
				if got := d.Sum(nil); !bytes.Equal(got, want) {
					t.Fatalf("%s len=%d bytewise: got %x want %x", v.name, l, got, want)
				}
				c.Class(v.name + " bytewise")
				c.NonTrivial(l >= v.rate, fmt.Sprintf("%s/%d/bytewise", v.name, l))
				total++
			}
			// writes of exactly rate-1 / rate / rate+1 bytes until exhausted
			for _, step := range []int{v.rate - 1, v.rate, v.rate + 1} {
				c := st.Case()
				d.Reset()
				for off := 0; off < l; off += step {
					end := off + step
					if end > l {
						end = l
					}
					d.Write(msg[off:end])
					d.Write(nil) // zero-length write in between
				}
				if got := d.Sum(nil); !bytes.Equal(got, want) {
					t.Fatalf("%s len=%d step=%d: got %x want %x", v.name, l, step, got, want)
				}
				c.Classf("%s fixed-step rate%+d", v.name, step-v.rate)
				c.NonTrivial(l >= v.rate, fmt.Sprintf("%s/%d/step%d", v.name, l, step))
				total++
			}
			// fresh object, single write (no Reset involved)
			{
				c := st.Case()
				f := v.mk()
				f.Write(msg)
				if got := f.Sum(nil); !bytes.Equal(got, want) {
					t.Fatalf("%s len=%d fresh one-shot: got %x want %x", v.name, l, got, want)
				}
				if f.Size() != v.outLen || f.BlockSize() != v.rate {
					t.Fatalf("%s Size/BlockSize = %d/%d", v.name, f.Size(), f.BlockSize())
				}
				c.Class(v.name + " fresh one-shot")
				c.NonTrivial(l >= v.rate, fmt.Sprintf("%s/%d/fresh", v.name, l))
				total++
			}
		}
		st.Exhaustive(fmt.Sprintf("%s: every length 0..%d (fixed pattern) x every two-way split point, bytewise, fixed-step rate-1/rate/rate+1, fresh one-shot (%d cases)", v.name, maxLen, total))
	}
}

// c04HostileLen draws a total length biased to block boundaries.
func c04HostileLen(rt *rapid.T, rate, maxLen int, label string) int {
	switch rapid.IntRange(0, 3).Draw(rt, label+"Kind") {
	case 0:
		k := rapid.IntRange(0, maxLen/rate).Draw(rt, label+"Blocks")
		dlt := rapid.IntRange(-2, 2).Draw(rt, label+"Delta")
		l := k*rate + dlt
		if l < 0 {
			l = 0
		}
		if l > maxLen {
			l = maxLen
		}
		return l
	case 1:
		return rapid.SampledFrom([]int{0, 1, 31, 32, 33, 55, 56, 57, 255, 256}).Draw(rt, label+"Const")
	default:
		return rapid.IntRange(0, maxLen).Draw(rt, label)
	}
}

// c04Cuts draws 0..7 cut points in [0,l], biased to block boundaries and
// duplicates (zero-length writes), returned sorted.
func c04Cuts(rt *rapid.T, rate, l int) []int {
	n := rapid.IntRange(0, 7).Draw(rt, "ncuts")
	cuts := make([]int, 0, n)
	for i := 0; i < n; i++ {
		var c int
		switch rapid.IntRange(0, 3).Draw(rt, "cutKind") {
		case 0:
			c = rapid.IntRange(0, l/rate+1).Draw(rt, "cutBlock")*rate + rapid.IntRange(-1, 1).Draw(rt, "cutDelta")
		case 1:
			if len(cuts) > 0 {
				c = cuts[rapid.IntRange(0, len(cuts)-1).Draw(rt, "dup")] // duplicate → zero-length write
			}
		default:
			c = rapid.IntRange(0, l).Draw(rt, "cut")
		}
		if c < 0 {
			c = 0
		}
		if c > l {
			c = l
		}
		cuts = append(cuts, c)
	}
	// insertion sort (tiny)
	for i := 1; i < len(cuts); i++ {
		for j := i; j > 0 && cuts[j] < cuts[j-1]; j-- {
			cuts[j], cuts[j-1] = cuts[j-1], cuts[j]
		}
	}
	return cuts
}

func c04Bytes(rt *rapid.T, l int, label string) []byte {
	switch rapid.IntRange(0, 5).Draw(rt, label+"Fill") {
	case 0:
		return make([]byte, l)
	case 1:
		return bytes.Repeat([]byte{0xff}, l)
	default:
		seed := rapid.Uint64().Draw(rt, label+"Seed")
		b := make([]byte, l)
		x := seed | 1
		for i := range b {
			x ^= x << 13
			x ^= x >> 7
			x ^= x << 17
			b[i] = byte(x >> 24)
		}
		return b
	}
}

// TestVerifC04Stream: random content, random splittings, interleaved
// Sum (non-destructive), Reset, zero-length writes, then one of the finishers
// Sum / Read(outLen) / long chunked Read, then Reset and reuse of the same object.
func TestVerifC04Stream(t *testing.T) {
	st := vs.New("C04", t)
	maxBlocks := 5
	if vs.Thorough() {
		maxBlocks = 12
	}
	vs.Check(t, 1, func(rt *rapid.T) {
		c := st.Case()
		v := c04Variants[rapid.IntRange(0, 1).Draw(rt, "variant")]
		d := v.mk()
		if rapid.Bool().Draw(rt, "dirtyStart") {
			// object used before: must not matter after Reset
			d.Write(c04Bytes(rt, rapid.IntRange(1, 2*v.rate).Draw(rt, "dirtyLen"), "dirty"))
			if rapid.Bool().Draw(rt, "dirtyRead") {
				d.(c04Reader).Read(make([]byte, rapid.IntRange(1, 2*v.rate).Draw(rt, "dirtyReadLen")))
			}
			d.Reset()
		}
		rounds := rapid.IntRange(1, 2).Draw(rt, "rounds")
		nontriv := false
		desc := v.name
		var classes []string
		for round := 0; round < rounds; round++ {
			l := c04HostileLen(rt, v.rate, maxBlocks*v.rate+3, "len")
			msg := c04Bytes(rt, l, "msg")
			cuts := c04Cuts(rt, v.rate, l)
			bounds := append(append([]int{0}, cuts...), l)
			written := 0 // bytes absorbed since the last Reset = msg[resetAt:written]
			resetAt := 0
			for i := 0; i+1 < len(bounds); i++ {
				n, err := d.Write(msg[bounds[i]:bounds[i+1]])
				if err != nil || n != bounds[i+1]-bounds[i] {
					rt.Fatalf("%s Write returned (%d,%v) for %d bytes", v.name, n, err, bounds[i+1]-bounds[i])
				}
				written = bounds[i+1]
				if written%v.rate == 0 && written > resetAt && written < l {
					nontriv = true
					classes = append(classes, "cut at block boundary")
				}
				switch rapid.IntRange(0, 5).Draw(rt, "interOp") {
				case 0: // non-destructive Sum, with a prefix to append to
					prefix := []byte("pfx")
					got := d.Sum(prefix)
					want := append([]byte("pfx"), c04RefDigest(v, msg[resetAt:written])...)
					if !bytes.Equal(got, want) {
						rt.Fatalf("%s mid-stream Sum after %d bytes (msg[%d:%d] of %x): got %x want %x", v.name, written-resetAt, resetAt, written, msg, got, want)
					}
					nontriv = true
					classes = append(classes, "interleaved Sum")
				case 1: // Reset mid-stream: everything before is forgotten
					d.Reset()
					resetAt = written
					nontriv = true
					classes = append(classes, "interleaved Reset")
					if rapid.IntRange(0, 2).Draw(rt, "sumAfterMidReset") == 0 {
						if got, want := d.Sum(nil), c04RefDigest(v, nil); !bytes.Equal(got, want) {
							rt.Fatalf("%s Sum right after a mid-stream Reset: got %x want %x", v.name, got, want)
						}
						classes = append(classes, "Sum right after Reset")
					}
				}
			}
			eff := msg[resetAt:]
			if len(eff) >= v.rate {
				nontriv = true
				classes = append(classes, "len>=rate")
			} else {
				classes = append(classes, "len<rate")
			}
			fin := rapid.IntRange(0, 3).Draw(rt, "finisher")
			switch fin {
			case 0:
				got := d.Sum(nil)
				if want := c04RefDigest(v, eff); !bytes.Equal(got, want) {
					rt.Fatalf("%s Sum over %d bytes %x cuts %v resetAt %d: got %x want %x", v.name, len(eff), eff, cuts, resetAt, got, want)
				}
				// Sum twice: still the same
				if got2 := d.Sum(nil); !bytes.Equal(got2, got) {
					rt.Fatalf("%s second Sum differs: %x vs %x", v.name, got2, got)
				}
				classes = append(classes, "finish Sum")
			case 1:
				got := make([]byte, v.outLen)
				n, err := d.(c04Reader).Read(got)
				if n != v.outLen || err != nil {
					rt.Fatalf("%s Read returned (%d,%v)", v.name, n, err)
				}
				if want := c04RefDigest(v, eff); !bytes.Equal(got, want) {
					rt.Fatalf("%s Read digest over %d bytes %x cuts %v resetAt %d: got %x want %x", v.name, len(eff), eff, cuts, resetAt, got, want)
				}
				classes = append(classes, "finish Read(outLen)")
			default:
				// chunked long read: the concatenation equals the reference squeeze,
				// its first outLen bytes equal the digest
				total := rapid.IntRange(1, 3*v.rate+5).Draw(rt, "readTotal")
				var got []byte
				for len(got) < total {
					k := rapid.IntRange(0, total-len(got)).Draw(rt, "readChunk")
					if rapid.Bool().Draw(rt, "readToBoundary") {
						k = v.rate - len(got)%v.rate
						if k > total-len(got) {
							k = total - len(got)
						}
					}
					buf := make([]byte, k)
					n, err := d.(c04Reader).Read(buf)
					if n != k || err != nil {
						rt.Fatalf("%s Read(%d) returned (%d,%v)", v.name, k, n, err)
					}
					got = append(got, buf...)
					if k == 0 && rapid.IntRange(0, 3).Draw(rt, "zeroReadEscape") == 0 {
						buf = make([]byte, total-len(got))
						d.(c04Reader).Read(buf)
						got = append(got, buf...)
					}
				}
				want := c04RefSqueeze(rt, v, eff, total)
				if !bytes.Equal(got, want) {
					rt.Fatalf("%s chunked Read of %d bytes over %d-byte message %x: got %x want %x", v.name, total, len(eff), eff, got, want)
				}
				if total >= v.outLen && !bytes.Equal(got[:v.outLen], c04RefDigest(v, eff)) {
					rt.Fatalf("%s squeeze prefix is not the digest", v.name)
				}
				if total > v.rate {
					nontriv = true
					classes = append(classes, "finish long Read past one block")
				} else {
					classes = append(classes, "finish chunked Read")
				}
			}
			desc += fmt.Sprintf("|%x|%v|%d|%d", eff, cuts, resetAt, fin)
			if round+1 < rounds {
				d.Reset() // reuse of the same object for another message
				nontriv = true
				classes = append(classes, "reuse after Reset")
				if rapid.Bool().Draw(rt, "sumRightAfterReset") {
					// no Write at all since the Reset: the digest of the empty message
					if got, want := d.Sum(nil), c04RefDigest(v, nil); !bytes.Equal(got, want) {
						rt.Fatalf("%s Sum right after Reset (nothing written since): got %x want %x", v.name, got, want)
					}
					classes = append(classes, "Sum right after Reset")
				}
			}
		}
		seenCl := map[string]bool{}
		for _, cl := range classes {
			if !seenCl[cl] {
				seenCl[cl] = true
				c.Class(cl)
			}
		}
		c.Class(v.name)
		c.NonTrivial(nontriv, desc)
		c.Sample(nontriv, func() any {
			d := desc
			if len(d) > 200 {
				d = d[:200] + "..."
			}
			return map[string]any{"variant": v.name, "classes": classes, "case": d}
		})
	})
}

func c04Lanes(rt *rapid.T) (a [25]uint64, class string) {
	switch rapid.IntRange(0, 5).Draw(rt, "stateKind") {
	case 0:
		class = "sparse lanes"
		n := rapid.IntRange(0, 3).Draw(rt, "nbits")
		for i := 0; i < n; i++ {
			a[rapid.IntRange(0, 24).Draw(rt, "lane")] ^= 1 << uint(rapid.IntRange(0, 63).Draw(rt, "bit"))
		}
	case 1:
		class = "dense constant lanes"
		pool := []uint64{0, ^uint64(0), 1, 1 << 63, 0x5555555555555555, 0xaaaaaaaaaaaaaaaa, 0x00000000ffffffff}
		for i := range a {
			a[i] = rapid.SampledFrom(pool).Draw(rt, "const")
		}
	default:
		class = "random lanes"
		for i := range a {
			a[i] = rapid.Uint64().Draw(rt, "lane")
		}
	}
	return a, class
}

// TestVerifC04Permutation: the package's keccakF1600 (assembly on amd64, the
// generic Go permutation under -tags purego) against the spec-shaped
// refkeccak.F1600 on arbitrary 25-lane states, iterated a few times.
func TestVerifC04Permutation(t *testing.T) {
	st := vs.New("C04", t)
	// harness self-check: the reference permutation reproduces x/crypto digests.
	for _, l := range []int{0, 1, 135, 136, 137, 272, 500} {
		msg := c04Pattern(l, 3)
		if !bytes.Equal(refkeccak.Keccak256(msg), c04RefDigest(c04Variants[0], msg)) ||
			!bytes.Equal(refkeccak.Keccak512(msg), c04RefDigest(c04Variants[1], msg)) {
			t.Fatalf("VERIF-HARNESS-BUG: refkeccak disagrees with x/crypto at length %d", l)
		}
	}
	vs.Check(t, 1, func(rt *rapid.T) {
		c := st.Case()
		a, class := c04Lanes(rt)
		start := a
		b := a
		iters := rapid.IntRange(1, 3).Draw(rt, "iters")
		for i := 0; i < iters; i++ {
			keccakF1600(&a)
			refkeccak.F1600(&b)
			if a != b {
				rt.Fatalf("keccakF1600 differs from the reference after %d application(s) on state %x:\n got  %x\n want %x", i+1, start, a, b)
			}
		}
		c.Class(class)
		nz := false
		for _, l := range start {
			if l != 0 {
				nz = true
			}
		}
		c.NonTrivial(nz, fmt.Sprintf("%x/%d", start, iters))
		c.Sample(nz, func() any {
			return map[string]any{"state": fmt.Sprintf("%x", start[:4]) + "...", "iters": iters, "out0": fmt.Sprintf("%016x", a[0])}
		})
	})
}
