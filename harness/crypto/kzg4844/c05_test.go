//go:build verif

package kzg4844

import (
	"bytes"
	"fmt"
	"math/big"
	"testing"

	"pgregory.net/rapid"
	vs "verif.local/kit/stat"
)

// C05 (KZG part, built with -tags ckzg): the C (c-kzg-4844) and Go (go-kzg-4844)
// backends behind crypto/kzg4844 produce byte-identical commitments/proofs and take
// the same accept/reject decision on valid and corrupted inputs; neither panics.
// The backend functions are called directly (white-box), so no global switch is toggled.

var (
	c05FrMod, _ = new(big.Int).SetString("73eda753299d7d483339d80809a1d80553bda402fffe5bfeffffffff00000001", 16)
	// primitive 4096-th root of unity of the BLS12-381 scalar field: 7^((r-1)/4096)
	c05Omega = new(big.Int).Exp(big.NewInt(7), new(big.Int).Div(new(big.Int).Sub(c05FrMod, big.NewInt(1)), big.NewInt(4096)), c05FrMod)
)

func c05Fe(x *big.Int) (out [32]byte) {
	x.FillBytes(out[:])
	return out
}

type c05Rng uint64

func (r *c05Rng) next() uint64 {
	x := uint64(*r)
	x ^= x << 13
	x ^= x >> 7
	x ^= x << 17
	*r = c05Rng(x)
	return x
}

// c05Blob draws a blob; canonical=false means at least one field element is >= the modulus.
func c05Blob(rt *rapid.T) (blob *Blob, class string, canonical bool) {
	blob = new(Blob)
	rng := c05Rng(rapid.Uint64().Draw(rt, "blobSeed") | 1)
	kind := rapid.IntRange(0, 5).Draw(rt, "blobKind")
	switch kind {
	case 0:
		class = "blob zero"
	case 1:
		class = "blob sparse"
		for n := rapid.IntRange(1, 6).Draw(rt, "sparseN"); n > 0; n-- {
			i := rapid.IntRange(0, 4095).Draw(rt, "sparseIdx")
			v := c05Fe(new(big.Int).SetUint64(rng.next()))
			copy(blob[i*32:], v[:])
		}
	case 2:
		class = "blob constant element"
		v := new(big.Int).Sub(c05FrMod, big.NewInt(int64(rapid.IntRange(1, 3).Draw(rt, "constFromTop"))))
		e := c05Fe(v)
		for i := 0; i < 4096; i++ {
			copy(blob[i*32:], e[:])
		}
	default:
		class = "blob random canonical"
		for i := 0; i < 4096; i++ {
			for w := 0; w < 4; w++ {
				x := rng.next()
				for b := 0; b < 8; b++ {
					blob[i*32+w*8+b] = byte(x >> (8 * b))
				}
			}
			blob[i*32] &= 0x3f // < modulus (top byte of the modulus is 0x73)
		}
	}
	canonical = true
	if rapid.IntRange(0, 3).Draw(rt, "nonCanonical") == 0 {
		canonical = false
		class += " + non-canonical element"
		for n := rapid.IntRange(1, 2).Draw(rt, "ncN"); n > 0; n-- {
			i := rapid.SampledFrom([]int{0, 1, 63, 64, 2047, 4094, 4095}).Draw(rt, "ncIdx")
			var e [32]byte
			switch rapid.IntRange(0, 2).Draw(rt, "ncKind") {
			case 0:
				e = c05Fe(c05FrMod)
			case 1:
				e = c05Fe(new(big.Int).Add(c05FrMod, big.NewInt(1)))
			default:
				for j := range e {
					e[j] = 0xff
				}
			}
			copy(blob[i*32:], e[:])
		}
	}
	return blob, class, canonical
}

func c05PointDraw(rt *rapid.T) (p Point, class string, canonical bool) {
	switch rapid.IntRange(0, 6).Draw(rt, "pointKind") {
	case 0:
		return c05Fe(big.NewInt(int64(rapid.IntRange(0, 2).Draw(rt, "pointSmall")))), "point 0..2 (1 is in the domain)", true
	case 1:
		k := rapid.IntRange(0, 4095).Draw(rt, "rootIdx")
		return c05Fe(new(big.Int).Exp(c05Omega, big.NewInt(int64(k)), c05FrMod)), "point = root of unity (in the evaluation domain)", true
	case 2:
		v := []*big.Int{c05FrMod, new(big.Int).Add(c05FrMod, big.NewInt(1)), new(big.Int).Sub(new(big.Int).Lsh(big.NewInt(1), 256), big.NewInt(1))}[rapid.IntRange(0, 2).Draw(rt, "pointBad")]
		return c05Fe(v), "point non-canonical", false
	case 3:
		return c05Fe(new(big.Int).Sub(c05FrMod, big.NewInt(1))), "point r-1", true
	default:
		raw := rapid.SliceOfN(rapid.Byte(), 32, 32).Draw(rt, "pointRaw")
		raw[0] &= 0x3f
		copy(p[:], raw)
		return p, "point random canonical", true
	}
}

func c05Guard(rt *rapid.T, what string) {
	if r := recover(); r != nil {
		rt.Fatalf("PANIC in %s: %v", what, r)
	}
}

// c05Corrupt48 derives a corrupted 48-byte group element.
func c05Corrupt48(rt *rapid.T, label string, good [48]byte, other [48]byte) (out [48]byte, class string) {
	out = good
	switch rapid.IntRange(0, 6).Draw(rt, label+"Corrupt") {
	case 0:
		out[rapid.IntRange(0, 47).Draw(rt, label+"FlipByte")] ^= 1 << uint(rapid.IntRange(0, 7).Draw(rt, label+"FlipBit"))
		return out, "bit flip"
	case 1:
		return other, "swapped with the other element"
	case 2:
		out = [48]byte{}
		out[0] = 0xc0
		return out, "point at infinity"
	case 3:
		copy(out[:], rapid.SliceOfN(rapid.Byte(), 48, 48).Draw(rt, label+"Raw"))
		return out, "random 48 bytes"
	case 4:
		out[0] &^= 0x80 // clear the compression flag
		return out, "compression flag cleared"
	case 5:
		out[0] ^= 0x20 // flip the sign bit: the negated point
		return out, "negated point"
	default:
		return [48]byte{}, "all zero"
	}
}

func c05Same(rt *rapid.T, what string, errC, errG error, outC, outG []byte) bool {
	if (errC == nil) != (errG == nil) {
		rt.Fatalf("%s: accept/reject mismatch: ckzg err=%v gokzg err=%v", what, errC, errG)
	}
	if errC == nil && !bytes.Equal(outC, outG) {
		rt.Fatalf("%s: outputs differ:\n ckzg  %x\n gokzg %x", what, outC, outG)
	}
	return errC == nil
}

func TestVerifC05KZG(t *testing.T) {
	st := vs.New("C05", t)
	if !ckzgAvailable {
		st.Note("ckzg backend not available in this build: KZG comparison not run")
		t.Skip("VERIF-INCONCLUSIVE ckzg backend not compiled in (needs -tags ckzg and cgo)")
	}
	vs.Check(t, 1, func(rt *rapid.T) {
		c := st.Case()
		blob, blobClass, canonical := c05Blob(rt)
		c.Class(blobClass)
		seed := rapid.Uint64().Draw(rt, "descSeed")
		desc := fmt.Sprintf("%s|%x|%x|%d", blobClass, blob[:64], blob[len(blob)-64:], seed)
		nontriv := false

		// 1. commitment
		var cmC, cmG Commitment
		var errC, errG error
		func() {
			defer c05Guard(rt, "ckzgBlobToCommitment")
			cmC, errC = ckzgBlobToCommitment(blob)
		}()
		func() {
			defer c05Guard(rt, "gokzgBlobToCommitment")
			cmG, errG = gokzgBlobToCommitment(blob)
		}()
		okCommit := c05Same(rt, "BlobToCommitment("+blobClass+")", errC, errG, cmC[:], cmG[:])
		if canonical && !okCommit {
			rt.Fatalf("BlobToCommitment rejected a canonical blob (%s): %v", blobClass, errC)
		}
		if !canonical && okCommit {
			rt.Fatalf("BlobToCommitment accepted a blob with a non-canonical field element (%s)", blobClass)
		}
		commitment := cmC
		if !okCommit {
			// still run the other entry points on the invalid blob, with some well-formed commitment
			zero := new(Blob)
			commitment, _ = gokzgBlobToCommitment(zero)
			nontriv = true
		}

		// 2. point proof
		point, pointClass, pointOK := c05PointDraw(rt)
		c.Class(pointClass)
		var prC, prG Proof
		var clC, clG Claim
		func() {
			defer c05Guard(rt, "ckzgComputeProof")
			prC, clC, errC = ckzgComputeProof(blob, point)
		}()
		func() {
			defer c05Guard(rt, "gokzgComputeProof")
			prG, clG, errG = gokzgComputeProof(blob, point)
		}()
		okProof := c05Same(rt, "ComputeProof("+blobClass+", "+pointClass+")", errC, errG, append(prC[:], clC[:]...), append(prG[:], clG[:]...))
		if canonical && pointOK && !okProof {
			rt.Fatalf("ComputeProof rejected canonical inputs (%s, %s): %v", blobClass, pointClass, errC)
		}
		if okProof && okCommit {
			nontriv = true
			// valid proof verifies on both; corrupted variants get the same verdict on both
			verify := func(what string, cm Commitment, pt Point, cl Claim, pr Proof) bool {
				var eC, eG error
				func() {
					defer c05Guard(rt, "ckzgVerifyProof "+what)
					eC = ckzgVerifyProof(cm, pt, cl, pr)
				}()
				func() {
					defer c05Guard(rt, "gokzgVerifyProof "+what)
					eG = gokzgVerifyProof(cm, pt, cl, pr)
				}()
				if (eC == nil) != (eG == nil) {
					rt.Fatalf("VerifyProof (%s) verdict mismatch: ckzg=%v gokzg=%v\n commitment %x point %x claim %x proof %x", what, eC, eG, cm, pt, cl, pr)
				}
				return eC == nil
			}
			if !verify("valid", commitment, point, clC, prC) {
				rt.Fatalf("VerifyProof rejected a proof computed by ComputeProof (%s, %s)", blobClass, pointClass)
			}
			switch rapid.IntRange(0, 3).Draw(rt, "verifyCorrupt") {
			case 0:
				bad, cls := c05Corrupt48(rt, "cm", commitment, [48]byte(prC))
				verify("commitment "+cls, Commitment(bad), point, clC, prC)
				c.Class("VerifyProof: commitment " + cls)
			case 1:
				bad, cls := c05Corrupt48(rt, "pr", prC, [48]byte(commitment))
				verify("proof "+cls, commitment, point, clC, Proof(bad))
				c.Class("VerifyProof: proof " + cls)
			case 2:
				bad := clC
				cls := "claim bit flip"
				if rapid.Bool().Draw(rt, "claimNonCanonical") {
					bad, cls = Claim(c05Fe(new(big.Int).Add(c05FrMod, new(big.Int).SetBytes(clC[:16])))), "claim non-canonical"
				} else {
					bad[rapid.IntRange(1, 31).Draw(rt, "claimFlipByte")] ^= 1 << uint(rapid.IntRange(0, 7).Draw(rt, "claimFlipBit"))
				}
				if verify(cls, commitment, point, bad, prC) {
					rt.Fatalf("VerifyProof accepted a wrong claim (%s): %x instead of %x", cls, bad, clC)
				}
				c.Class("VerifyProof: " + cls)
			default:
				bad, cls, _ := c05PointDraw(rt)
				// agreement only: for a constant polynomial the same (claim, proof) is valid at every point
				verify("other point "+cls, commitment, bad, clC, prC)
				c.Class("VerifyProof: other point")
			}
		}

		// 3. blob proof
		var bpC, bpG Proof
		func() {
			defer c05Guard(rt, "ckzgComputeBlobProof")
			bpC, errC = ckzgComputeBlobProof(blob, commitment)
		}()
		func() {
			defer c05Guard(rt, "gokzgComputeBlobProof")
			bpG, errG = gokzgComputeBlobProof(blob, commitment)
		}()
		okBP := c05Same(rt, "ComputeBlobProof("+blobClass+")", errC, errG, bpC[:], bpG[:])
		if canonical && !okBP {
			rt.Fatalf("ComputeBlobProof rejected a canonical blob: %v", errC)
		}
		verifyBlob := func(what string, b *Blob, cm Commitment, pr Proof) bool {
			var eC, eG error
			func() {
				defer c05Guard(rt, "ckzgVerifyBlobProof "+what)
				eC = ckzgVerifyBlobProof(b, cm, pr)
			}()
			func() {
				defer c05Guard(rt, "gokzgVerifyBlobProof "+what)
				eG = gokzgVerifyBlobProof(b, cm, pr)
			}()
			if (eC == nil) != (eG == nil) {
				rt.Fatalf("VerifyBlobProof (%s) verdict mismatch: ckzg=%v gokzg=%v\n commitment %x proof %x blob[:64] %x", what, eC, eG, cm, pr, b[:64])
			}
			return eC == nil
		}
		if okBP && okCommit {
			if !verifyBlob("valid", blob, commitment, bpC) {
				rt.Fatalf("VerifyBlobProof rejected a proof computed by ComputeBlobProof (%s)", blobClass)
			}
			switch rapid.IntRange(0, 2).Draw(rt, "blobVerifyCorrupt") {
			case 0:
				bad, cls := c05Corrupt48(rt, "bcm", commitment, [48]byte(bpC))
				verifyBlob("commitment "+cls, blob, Commitment(bad), bpC)
				c.Class("VerifyBlobProof: commitment " + cls)
			case 1:
				bad, cls := c05Corrupt48(rt, "bpr", bpC, [48]byte(commitment))
				verifyBlob("proof "+cls, blob, commitment, Proof(bad))
				c.Class("VerifyBlobProof: proof " + cls)
			default:
				other := *blob
				i := rapid.IntRange(0, 4095).Draw(rt, "blobEditIdx")
				cls := "blob element changed"
				if rapid.IntRange(0, 2).Draw(rt, "blobEditNonCanonical") == 0 {
					e := c05Fe(c05FrMod)
					copy(other[i*32:], e[:])
					cls = "blob element made non-canonical"
				} else {
					other[i*32+31] ^= 1
				}
				if verifyBlob(cls, &other, commitment, bpC) {
					rt.Fatalf("VerifyBlobProof accepted a modified blob (%s at element %d)", cls, i)
				}
				c.Class("VerifyBlobProof: " + cls)
			}
		} else if !okCommit {
			// invalid blob with a well-formed commitment/proof: same refusal on both
			verifyBlob("non-canonical blob", blob, commitment, Proof(commitment))
			c.Class("VerifyBlobProof: non-canonical blob")
		}

		// 4. cell proofs (expensive: a quarter of the cases)
		if rapid.IntRange(0, 3).Draw(rt, "cells") == 0 {
			var cpC, cpG []Proof
			func() {
				defer c05Guard(rt, "ckzgComputeCellProofs")
				cpC, errC = ckzgComputeCellProofs(blob)
			}()
			func() {
				defer c05Guard(rt, "gokzgComputeCellProofs")
				cpG, errG = gokzgComputeCellProofs(blob)
			}()
			flat := func(ps []Proof) []byte {
				var b []byte
				for _, p := range ps {
					b = append(b, p[:]...)
				}
				return b
			}
			okCP := c05Same(rt, "ComputeCellProofs("+blobClass+")", errC, errG, flat(cpC), flat(cpG))
			if canonical && (!okCP || len(cpC) != CellProofsPerBlob) {
				rt.Fatalf("ComputeCellProofs on a canonical blob: err=%v, %d proofs", errC, len(cpC))
			}
			verifyCells := func(what string, ps []Proof, cm Commitment) bool {
				var eC, eG error
				func() {
					defer c05Guard(rt, "ckzgVerifyCellProofBatch "+what)
					eC = ckzgVerifyCellProofBatch([]Blob{*blob}, []Commitment{cm}, ps)
				}()
				func() {
					defer c05Guard(rt, "gokzgVerifyCellProofBatch "+what)
					eG = gokzgVerifyCellProofBatch([]Blob{*blob}, []Commitment{cm}, ps)
				}()
				if (eC == nil) != (eG == nil) {
					rt.Fatalf("VerifyCellProofs (%s) verdict mismatch: ckzg=%v gokzg=%v", what, eC, eG)
				}
				return eC == nil
			}
			if okCP && okCommit {
				if !verifyCells("valid", cpC, commitment) {
					rt.Fatalf("VerifyCellProofs rejected proofs computed by ComputeCellProofs (%s)", blobClass)
				}
				bad := append([]Proof{}, cpC...)
				i := rapid.IntRange(0, len(bad)-1).Draw(rt, "cellIdx")
				j := (i + 1 + rapid.IntRange(0, len(bad)-2).Draw(rt, "cellOther")) % len(bad)
				p, cls := c05Corrupt48(rt, "cell", bad[i], bad[j])
				bad[i] = Proof(p)
				res := verifyCells("cell proof "+cls, bad, commitment)
				if res && bad[i] != cpC[i] {
					rt.Fatalf("VerifyCellProofs accepted a corrupted cell proof %d (%s)", i, cls)
				}
				c.Class("cell proofs: one proof " + cls)
			} else {
				c.Class("cell proofs: refused blob")
			}
		}
		if !canonical {
			c.Class("non-canonical blob refused by both")
		}
		c.NonTrivial(nontriv, desc)
		c.Sample(nontriv, func() any {
			return map[string]any{"blob": blobClass, "point": pointClass, "commitment": fmt.Sprintf("%x", commitment), "canonical": canonical}
		})
	})
}
