//go:build verif

package crypto

import (
	"bytes"
	"crypto/ecdsa"
	"fmt"
	"math/big"
	"testing"

	"pgregory.net/rapid"
	"verif.local/kit/refsecp"
	vs "verif.local/kit/stat"
	"verif.local/kit/transcript"
)

// C03 (crypto package part): the secp256k1 backend behind crypto.Sign /
// Ecrecover / SigToPub / VerifySignature / DecompressPubkey / CompressPubkey.
// This file is built twice (cgo: libsecp256k1, CGO_ENABLED=0: decred). Every case
// appends "inputs -> outputs/err class" lines to $VERIF_WORK/transcript.txt; the
// driver compares the two transcripts (same seed, same number of checks) line by
// line. Draws never depend on backend outputs, so both binaries see the same
// inputs. Error *messages* are not part of the transcript, only "err".
//
// In addition each binary checks on its own that valid signatures recover and
// verify (inverse property at the crypto level).

var (
	c03P      = S256().Params().P
	c03Two256 = new(big.Int).Lsh(big.NewInt(1), 256)
)

func c03Pad32(x *big.Int) []byte {
	b := x.Bytes()
	if len(b) >= 32 {
		return b[len(b)-32:]
	}
	out := make([]byte, 32)
	copy(out[32-len(b):], b)
	return out
}

// c03Scalar draws a valid private scalar in [1, n-1].
func c03Scalar(rt *rapid.T, label string) (*big.Int, string) {
	switch rapid.IntRange(0, 5).Draw(rt, label+"Kind") {
	case 0:
		v := rapid.SampledFrom([]int64{1, 2, 3}).Draw(rt, label+"Small")
		return big.NewInt(v), "key small"
	case 1:
		v := rapid.SampledFrom([]int64{1, 2, 3}).Draw(rt, label+"FromTop")
		return new(big.Int).Sub(secp256k1N, big.NewInt(v)), "key n-k"
	default:
		raw := rapid.SliceOfN(rapid.Byte(), 32, 32).Draw(rt, label+"Raw")
		d := new(big.Int).SetBytes(raw)
		d.Mod(d, new(big.Int).Sub(secp256k1N, big.NewInt(1)))
		d.Add(d, big.NewInt(1))
		return d, "key random"
	}
}

// c03Hash draws a 32-byte digest; with allowGeN the hostile pool contains values >= n
// (as 256-bit integers), otherwise only values below n.
func c03Hash(rt *rapid.T, label string, allowGeN bool) []byte {
	switch rapid.IntRange(0, 7).Draw(rt, label+"Kind") {
	case 0:
		hostile := []*big.Int{
			big.NewInt(0), big.NewInt(1), secp256k1N, new(big.Int).Sub(secp256k1N, big.NewInt(1)),
			new(big.Int).Add(secp256k1N, big.NewInt(1)), c03P, new(big.Int).Sub(c03Two256, big.NewInt(1)), secp256k1halfN,
		}
		if !allowGeN {
			hostile = []*big.Int{
				big.NewInt(0), big.NewInt(1), big.NewInt(2), new(big.Int).Sub(secp256k1N, big.NewInt(1)),
				new(big.Int).Sub(secp256k1N, big.NewInt(2)), new(big.Int).Add(secp256k1halfN, big.NewInt(1)), new(big.Int).Lsh(big.NewInt(1), 255), secp256k1halfN,
			}
		}
		return c03Pad32(hostile[rapid.IntRange(0, len(hostile)-1).Draw(rt, label+"Hostile")])
	default:
		return rapid.SliceOfN(rapid.Byte(), 32, 32).Draw(rt, label+"Raw")
	}
}

// c03HostileScalar draws an r/s candidate that is out of range or on the edge.
func c03HostileScalar(rt *rapid.T, label string) *big.Int {
	hostile := []*big.Int{
		big.NewInt(0), big.NewInt(1), secp256k1N, new(big.Int).Add(secp256k1N, big.NewInt(1)),
		new(big.Int).Sub(secp256k1N, big.NewInt(1)), new(big.Int).Sub(c03Two256, big.NewInt(1)),
		secp256k1halfN, new(big.Int).Add(secp256k1halfN, big.NewInt(1)), c03P,
	}
	return hostile[rapid.IntRange(0, len(hostile)-1).Draw(rt, label)]
}

// values of s around the low-s limit floor(n/2) (and the ends of the range).
var c03BoundaryS = []struct {
	name string
	s    *big.Int
	low  bool
}{
	{"s=n/2", secp256k1halfN, true},
	{"s=n/2-1", new(big.Int).Sub(secp256k1halfN, big.NewInt(1)), true},
	{"s=1", big.NewInt(1), true},
	{"s=2", big.NewInt(2), true},
	{"s=n/2+1", new(big.Int).Add(secp256k1halfN, big.NewInt(1)), false},
	{"s=n/2+2", new(big.Int).Add(secp256k1halfN, big.NewInt(2)), false},
	{"s=n-1", new(big.Int).Sub(secp256k1N, big.NewInt(1)), false},
}

func c03Key(d *big.Int) *ecdsa.PrivateKey {
	k, err := ToECDSA(c03Pad32(d))
	if err != nil {
		panic(fmt.Sprintf("VERIF-HARNESS-BUG: ToECDSA(%x): %v", d, err))
	}
	return k
}

func c03PubStr(p *ecdsa.PublicKey, err error) string {
	if err != nil || p == nil || p.X == nil || p.Y == nil {
		return "err"
	}
	return fmt.Sprintf("%064x%064x", p.X, p.Y)
}

func c03BytesStr(b []byte, err error) string {
	if err != nil {
		return "err"
	}
	return fmt.Sprintf("%x", b)
}

// pubkey encodings of a valid key, and broken ones.
func c03PubEncoding(rt *rapid.T, pub *ecdsa.PublicKey) ([]byte, string, bool) {
	x, y := c03Pad32(pub.X), c03Pad32(pub.Y)
	odd := pub.Y.Bit(0) == 1
	unc := append(append([]byte{4}, x...), y...)
	switch rapid.IntRange(0, 13).Draw(rt, "pubEnc") {
	case 0, 1, 2:
		return unc, "pub uncompressed", true
	case 3, 4:
		pfx := byte(2)
		if odd {
			pfx = 3
		}
		return append([]byte{pfx}, x...), "pub compressed", true
	case 5:
		pfx := byte(6)
		if odd {
			pfx = 7
		}
		return append(append([]byte{pfx}, x...), y...), "pub hybrid", true
	case 6:
		pfx := byte(7)
		if odd {
			pfx = 6
		}
		return append(append([]byte{pfx}, x...), y...), "pub hybrid wrong parity", false
	case 7:
		pfx := byte(3)
		if odd {
			pfx = 2
		}
		return append([]byte{pfx}, x...), "pub compressed other parity", false
	case 8:
		pfx := rapid.SampledFrom([]byte{0, 1, 5, 8, 0xff}).Draw(rt, "badPrefix")
		if rapid.Bool().Draw(rt, "badPrefixShort") {
			return append([]byte{pfx}, x...), "pub bad prefix", false
		}
		return append(append([]byte{pfx}, x...), y...), "pub bad prefix", false
	case 9:
		bad := append([]byte{}, unc...)
		bad[1+rapid.IntRange(0, 63).Draw(rt, "offByte")] ^= 1 << uint(rapid.IntRange(0, 7).Draw(rt, "offBit"))
		return bad, "pub off curve", false
	case 10:
		// x >= p (non-canonical field element)
		xx := new(big.Int).Add(c03P, big.NewInt(int64(rapid.IntRange(0, 3).Draw(rt, "xOver"))))
		if rapid.Bool().Draw(rt, "xOverCompressed") {
			return append([]byte{2}, c03Pad32(xx)...), "pub x>=p", false
		}
		return append(append([]byte{4}, c03Pad32(xx)...), y...), "pub x>=p", false
	case 11:
		l := rapid.SampledFrom([]int{0, 1, 32, 34, 64, 66}).Draw(rt, "pubLen")
		b := append(append([]byte{}, unc...), 0)
		return b[:l], "pub wrong length", false
	case 12:
		// compressed with an x that may or may not be on the curve
		raw := rapid.SliceOfN(rapid.Byte(), 32, 32).Draw(rt, "randX")
		return append([]byte{byte(2 + rapid.IntRange(0, 1).Draw(rt, "randXParity"))}, raw...), "pub compressed random x", false
	default:
		return append(append([]byte{4}, y...), x...), "pub coordinates swapped", false
	}
}

// c03SelfCheckSig: a signature produced by Sign has the right shape, low s, recovers
// to the signing key and verifies (each binary on its own).
func c03SelfCheckSig(rt *rapid.T, hash []byte, d *big.Int, sig, pubUnc []byte) {
	if len(sig) != 65 || sig[64] > 3 {
		rt.Fatalf("Sign(%x, d=%x) = %x: bad length or recovery id", hash, d, sig)
	}
	if new(big.Int).SetBytes(sig[32:64]).Cmp(secp256k1halfN) > 0 {
		rt.Fatalf("Sign(%x, d=%x) = %x: s above half order", hash, d, sig)
	}
	if rec, err := Ecrecover(hash, sig); err != nil || !bytes.Equal(rec, pubUnc) {
		rt.Fatalf("Ecrecover(%x, %x) = %x, %v; want %x", hash, sig, rec, err, pubUnc)
	}
	if !VerifySignature(pubUnc, hash, sig[:64]) {
		rt.Fatalf("VerifySignature(%x, %x, %x) = false for a fresh signature", pubUnc, hash, sig[:64])
	}
}

func TestVerifC03Backend(t *testing.T) {
	st := vs.New("C03", t)
	tr := transcript.Open(t, "transcript.txt")
	if !transcript.Active() {
		// the differential needs the shard-0 transcripts of both builds; other shards
		// would only repeat the per-binary self-consistency part.
		st.Note("shard %d: transcript not written (only shard 0 is compared)", vs.Shard())
	}
	mult := 5.0
	n := 0
	// Known-finding gating (only effective when the lead's known_findings.json lists the class):
	//  sign-digest-ge-n: crypto.Sign returns different (individually valid) signatures on the two
	//  backends for digests >= n. Narrow exclusion: only the Sign *output* for such a digest is
	//  left out of the transcript; the case then continues with the signature of (digest mod n),
	//  which both backends agree on and which is a valid signature for the original digest too,
	//  so recovery/verification over digests >= n stay compared.
	knownSignGeN := vs.Known("TestVerifC03Backend", "sign-digest-ge-n")
	recids := []byte{0, 1, 2, 3, 4, 5, 6, 7, 8, 26, 27, 28, 29, 31, 128, 228, 229, 230, 255}
	vs.Check(t, mult, func(rt *rapid.T) {
		c := st.Case()
		n++
		id := n
		op := rapid.IntRange(0, 9).Draw(rt, "op")
		d, keyClass := c03Scalar(rt, "key")
		key := c03Key(d)
		hash := c03Hash(rt, "hash", true)
		pubUnc := FromECDSAPub(&key.PublicKey)
		tr.Linef("%d key d=%064x pub=%x addr=%x", id, d, pubUnc, PubkeyToAddress(key.PublicKey))

		sig, err := Sign(hash, key)
		if err != nil {
			rt.Fatalf("Sign(%x, d=%x) failed: %v", hash, d, err)
		}
		geN := new(big.Int).SetBytes(hash).Cmp(secp256k1N) >= 0
		if geN && knownSignGeN {
			// known finding: the output is checked per binary below (it must recover and verify)
			// but not compared; continue with the signature over the reduced digest.
			st.Excluded()
			c03SelfCheckSig(rt, hash, d, sig, pubUnc)
			tr.Linef("%d sign hash=%x -> (excluded: known finding sign-digest-ge-n)", id, hash)
			reduced := c03Pad32(new(big.Int).Mod(new(big.Int).SetBytes(hash), secp256k1N))
			sig, err = Sign(reduced, key)
			if err != nil {
				rt.Fatalf("Sign(%x, d=%x) failed: %v", reduced, d, err)
			}
			tr.Linef("%d sign reduced hash=%x -> %x", id, reduced, sig)
		} else {
			tr.Linef("%d sign hash=%x -> %s", id, hash, c03BytesStr(sig, err))
		}
		// per-binary inverse checks on the valid signature
		c03SelfCheckSig(rt, hash, d, sig, pubUnc)

		nontriv := false
		class := ""
		switch op {
		case 0: // plain sign + all read-backs
			class = "sign/recover/verify valid"
			sigA, _ := Sign(hash, key)
			sigB, _ := Sign(hash, key)
			if !bytes.Equal(sigA, sigB) {
				rt.Fatalf("Sign is not deterministic: %x vs %x", sigA, sigB)
			}
			p, err := SigToPub(hash, sig)
			tr.Linef("%d sigtopub -> %s", id, c03PubStr(p, err))
			if err != nil || p.X.Cmp(key.X) != 0 || p.Y.Cmp(key.Y) != 0 {
				rt.Fatalf("SigToPub(%x, %x) = %s, want key d=%x", hash, sig, c03PubStr(p, err), d)
			}
			comp := CompressPubkey(&key.PublicKey)
			tr.Linef("%d compress -> %x", id, comp)
			dp, err := DecompressPubkey(comp)
			tr.Linef("%d decompress -> %s", id, c03PubStr(dp, err))
			if err != nil || dp.X.Cmp(key.X) != 0 || dp.Y.Cmp(key.Y) != 0 {
				rt.Fatalf("DecompressPubkey(CompressPubkey(pub d=%x)) = %s", d, c03PubStr(dp, err))
			}
			if !VerifySignature(comp, hash, sig[:64]) {
				rt.Fatalf("VerifySignature with compressed key failed: %x %x %x", comp, hash, sig[:64])
			}
			up, err := UnmarshalPubkey(pubUnc)
			if err != nil || up.X.Cmp(key.X) != 0 || up.Y.Cmp(key.Y) != 0 {
				rt.Fatalf("UnmarshalPubkey(FromECDSAPub(pub d=%x)) = %s", d, c03PubStr(up, err))
			}
			nontriv = true
		case 1: // invalid private keys / wrong digest length: both backends must refuse.
			// D is kept within 32 bytes: no geth constructor yields a key with D >= n, and for a
			// 33-byte D the decred path truncates (SetByteSlice) where libsecp256k1 refuses, which
			// is outside the domain of "keys" (see notes/C03.md).
			class = "sign invalid key or digest length"
			var bad *ecdsa.PrivateKey
			var h2 []byte
			if rapid.Bool().Draw(rt, "badKey") {
				bd := []*big.Int{big.NewInt(0), secp256k1N, new(big.Int).Add(secp256k1N, big.NewInt(1)), new(big.Int).Sub(c03Two256, big.NewInt(1))}[rapid.IntRange(0, 3).Draw(rt, "badD")]
				bad = &ecdsa.PrivateKey{PublicKey: ecdsa.PublicKey{Curve: S256(), X: key.X, Y: key.Y}, D: bd}
				h2 = hash
			} else {
				bad = key
				h2 = append([]byte{}, hash...)
				l := rapid.SampledFrom([]int{0, 1, 31, 33, 64}).Draw(rt, "hashLen")
				for len(h2) < l {
					h2 = append(h2, 0xab)
				}
				h2 = h2[:l]
			}
			s2, err := Sign(h2, bad)
			tr.Linef("%d sign-invalid d=%x hash=%x -> %s", id, bad.D, h2, c03BytesStr(s2, err))
			if err == nil {
				rt.Fatalf("Sign accepted invalid input d=%x hash=%x -> %x", bad.D, h2, s2)
			}
			nontriv = true
		case 2, 3, 4: // recovery on mutated signatures
			msig := append([]byte{}, sig...)
			mhash := hash
			r := new(big.Int).SetBytes(sig[:32])
			s := new(big.Int).SetBytes(sig[32:64])
			switch rapid.IntRange(0, 11).Draw(rt, "sigMut") {
			case 10, 11:
				// (genuine r, chosen s at the low-s limit, either recovery id) is a signature by the
				// key Q = r^-1 (s*R - z*G). For s <= n/2 both backends must recover exactly the Q that
				// the independent reference (kit/refsecp) derives, and verify it; above the limit only
				// agreement (transcript) and "if it recovers, it is Q" are required.
				bs := c03BoundaryS[rapid.IntRange(0, len(c03BoundaryS)-1).Draw(rt, "boundaryS")]
				if rapid.Bool().Draw(rt, "boundaryExact") {
					bs = c03BoundaryS[0]
				}
				recid := byte(rapid.IntRange(0, 1).Draw(rt, "boundaryRecid"))
				class = "recover: boundary " + bs.name
				copy(msig[32:64], c03Pad32(bs.s))
				msig[64] = recid
				q, ok := refsecp.Recover(mhash, r, bs.s, recid)
				if !ok {
					rt.Fatalf("VERIF-HARNESS-BUG: reference recovery failed for hash=%x sig=%x", mhash, msig)
				}
				refPub := append([]byte{4}, refsecp.Uncompressed(q)...)
				rec, err := Ecrecover(mhash, msig)
				okv := VerifySignature(refPub, mhash, msig[:64])
				okc := VerifySignature(refsecp.Compress(q), mhash, msig[:64])
				tr.Linef("%d boundary %s hash=%x sig=%x -> %s verify=%v/%v", id, bs.name, mhash, msig, c03BytesStr(rec, err), okv, okc)
				if err == nil && !bytes.Equal(rec, refPub) {
					rt.Fatalf("Ecrecover(%x, %x) = %x, reference recovery gives %x", mhash, msig, rec, refPub)
				}
				if bs.low {
					if err != nil {
						rt.Fatalf("Ecrecover(%x, %x) failed for a low-s signature (%s): %v; reference key %x", mhash, msig, bs.name, err, refPub)
					}
					if !okv || !okc {
						rt.Fatalf("VerifySignature(%x, %x, %x) = %v/%v for a valid low-s signature (%s)", refPub, mhash, msig[:64], okv, okc, bs.name)
					}
				}
			case 0:
				class = "recover: bit flip in r|s"
				msig[rapid.IntRange(0, 63).Draw(rt, "flipByte")] ^= 1 << uint(rapid.IntRange(0, 7).Draw(rt, "flipBit"))
			case 1:
				class = "recover: recovery id replaced"
				msig[64] = rapid.SampledFrom(recids).Draw(rt, "v")
			case 2:
				class = "recover: high-s twin"
				copy(msig[32:64], c03Pad32(new(big.Int).Sub(secp256k1N, s)))
				msig[64] ^= 1
			case 3:
				class = "recover: r hostile"
				copy(msig[:32], c03Pad32(c03HostileScalar(rt, "rHostile")))
			case 4:
				class = "recover: s hostile"
				copy(msig[32:64], c03Pad32(c03HostileScalar(rt, "sHostile")))
			case 5:
				class = "recover: r,s swapped"
				copy(msig[:32], c03Pad32(s))
				copy(msig[32:64], c03Pad32(r))
			case 6:
				class = "recover: other hash"
				mhash = c03Hash(rt, "otherHash", true)
			case 7:
				class = "recover: wrong sig length"
				l := rapid.SampledFrom([]int{0, 64, 66, 1, 130}).Draw(rt, "sigLen")
				for len(msig) < l {
					msig = append(msig, msig...)
				}
				msig = msig[:l]
			case 8:
				class = "recover: r small with overflow recid (x=r+n)"
				k := rapid.SliceOfN(rapid.Byte(), 15, 15).Draw(rt, "rSmall")
				copy(msig[:32], c03Pad32(new(big.Int).SetBytes(k)))
				msig[64] = byte(2 + rapid.IntRange(0, 1).Draw(rt, "ovParity"))
			default:
				class = "recover: random 65 bytes"
				msig = rapid.SliceOfN(rapid.Byte(), 65, 65).Draw(rt, "randSig")
				msig[64] = byte(rapid.IntRange(0, 3).Draw(rt, "randV"))
			}
			rec, err := Ecrecover(mhash, msig)
			p, err2 := SigToPub(mhash, msig)
			tr.Linef("%d recover hash=%x sig=%x -> %s | %s", id, mhash, msig, c03BytesStr(rec, err), c03PubStr(p, err2))
			if (err == nil) != (err2 == nil) {
				rt.Fatalf("Ecrecover and SigToPub disagree on hash=%x sig=%x: %v vs %v", mhash, msig, err, err2)
			}
			if err == nil {
				if len(rec) != 65 || rec[0] != 4 || !bytes.Equal(rec[1:33], c03Pad32(p.X)) || !bytes.Equal(rec[33:], c03Pad32(p.Y)) {
					rt.Fatalf("Ecrecover %x and SigToPub %s differ", rec, c03PubStr(p, nil))
				}
			}
			nontriv = true
		case 5, 6, 7: // verification
			enc, encClass, encValid := c03PubEncoding(rt, &key.PublicKey)
			vsig := append([]byte{}, sig[:64]...)
			vhash := hash
			sigValid := true
			sm := rapid.IntRange(0, 8).Draw(rt, "vsigMut")
			smClass := "sig valid"
			switch sm {
			case 0, 1, 2:
			case 3:
				smClass = "sig high-s"
				s := new(big.Int).SetBytes(vsig[32:])
				copy(vsig[32:], c03Pad32(new(big.Int).Sub(secp256k1N, s)))
				sigValid = false
			case 4:
				smClass = "sig bit flip"
				vsig[rapid.IntRange(0, 63).Draw(rt, "vflipByte")] ^= 1 << uint(rapid.IntRange(0, 7).Draw(rt, "vflipBit"))
				sigValid = false
			case 5:
				smClass = "sig r/s hostile"
				off := 32 * rapid.IntRange(0, 1).Draw(rt, "which")
				copy(vsig[off:off+32], c03Pad32(c03HostileScalar(rt, "vHostile")))
				sigValid = false
			case 6:
				smClass = "sig wrong length"
				l := rapid.SampledFrom([]int{0, 63, 65}).Draw(rt, "vsigLen")
				vsig = append(vsig, 0)[:l]
				sigValid = false
			case 7:
				smClass = "other hash"
				vhash = c03Hash(rt, "vOtherHash", true)
				sigValid = bytes.Equal(vhash, hash)
			default:
				smClass = "hash wrong length"
				vhash = append(append([]byte{}, hash...), 0)[:rapid.SampledFrom([]int{0, 31, 33}).Draw(rt, "vhashLen")]
				sigValid = false
			}
			class = "verify: " + encClass + " / " + smClass
			ok := VerifySignature(enc, vhash, vsig)
			tr.Linef("%d verify pub=%x hash=%x sig=%x -> %v", id, enc, vhash, vsig, ok)
			if encValid && sigValid && !ok {
				rt.Fatalf("VerifySignature(%x, %x, %x) = false, want true", enc, vhash, vsig)
			}
			// No "must be false" assertion here: e.g. for a digest = 0 mod n the signature also
			// verifies under the negated key, legitimately. Invalid combinations are covered by the
			// cross-backend comparison only (the statement asks for agreement).
			nontriv = ok || encClass != "pub wrong length"
		default: // public key codecs
			enc, encClass, encValid := c03PubEncoding(rt, &key.PublicKey)
			class = "pubkey codec: " + encClass
			dp, err := DecompressPubkey(enc)
			up, err2 := UnmarshalPubkey(enc)
			tr.Linef("%d pubcodec enc=%x -> decompress %s | unmarshal %s", id, enc, c03PubStr(dp, err), c03PubStr(up, err2))
			if encValid && len(enc) == 33 {
				if err != nil || dp.X.Cmp(key.X) != 0 || dp.Y.Cmp(key.Y) != 0 {
					rt.Fatalf("DecompressPubkey(%x) = %s, want key d=%x", enc, c03PubStr(dp, err), d)
				}
			}
			if err == nil {
				// whatever was accepted must be a curve point that re-compresses to the input
				if !S256().IsOnCurve(dp.X, dp.Y) {
					rt.Fatalf("DecompressPubkey(%x) returned an off-curve point %s", enc, c03PubStr(dp, nil))
				}
				back := CompressPubkey(dp)
				tr.Linef("%d recompress -> %x", id, back)
				if !bytes.Equal(back, enc) {
					rt.Fatalf("CompressPubkey(DecompressPubkey(%x)) = %x", enc, back)
				}
			}
			nontriv = err == nil || err2 == nil || encClass != "pub wrong length"
		}
		c.Class(class)
		c.Class(keyClass)
		c.NonTrivial(nontriv, fmt.Sprintf("%d|%x|%x|%s", op, d, hash, class))
		c.Sample(nontriv, func() any {
			return map[string]any{"class": class, "key": fmt.Sprintf("%x", d), "hash": fmt.Sprintf("%x", hash), "sig": fmt.Sprintf("%x", sig)}
		})
	})
	if tr != nil {
		st.Note("transcript lines written: %d", tr.Lines())
	}
}

// TestVerifC03ValidateValues enumerates crypto.ValidateSignatureValues (the range / low-s
// gate in front of every sender recovery) over boundary values against the rule it stands
// for: v in {0,1}, 1 <= r < n, 1 <= s < n, and under homestead rules s <= floor(n/2).
func TestVerifC03ValidateValues(t *testing.T) {
	vs.OnlyShard0(t)
	st := vs.New("C03", t)
	n, half := secp256k1N, secp256k1halfN
	add := func(x *big.Int, k int64) *big.Int { return new(big.Int).Add(x, big.NewInt(k)) }
	type bv struct {
		name string
		x    *big.Int
	}
	pool := []bv{
		{"0", big.NewInt(0)}, {"1", big.NewInt(1)}, {"2", big.NewInt(2)}, {"n/2-1", add(half, -1)}, {"n/2", half}, {"n/2+1", add(half, 1)}, {"n/2+2", add(half, 2)},
		{"n-2", add(n, -2)}, {"n-1", add(n, -1)}, {"n", n}, {"n+1", add(n, 1)}, {"p", c03P}, {"2^256-1", add(c03Two256, -1)}, {"2^256", c03Two256}, {"2^256+n/2", new(big.Int).Add(c03Two256, half)},
	}
	// a few seed-dependent interior values on either side of the limit
	seedv := new(big.Int).SetBytes(Keccak256([]byte(fmt.Sprintf("c03-validate-%d", vs.Seed()))))
	pool = append(pool, bv{"random low", add(new(big.Int).Mod(seedv, half), 1)}, bv{"random high", add(new(big.Int).Add(half, new(big.Int).Mod(seedv, add(half, -1))), 1)})
	cnt := 0
	for _, r := range pool {
		for _, s := range pool {
			for _, v := range []byte{0, 1, 2, 3, 4, 26, 27, 28, 35, 128, 255} {
				for _, homestead := range []bool{false, true} {
					c := st.Case()
					cnt++
					want := (v == 0 || v == 1) && r.x.Sign() > 0 && r.x.Cmp(n) < 0 && s.x.Sign() > 0 && s.x.Cmp(n) < 0 && (!homestead || s.x.Cmp(half) <= 0)
					r0, s0 := new(big.Int).Set(r.x), new(big.Int).Set(s.x)
					got := ValidateSignatureValues(v, r0, s0, homestead)
					if got != want {
						t.Fatalf("ValidateSignatureValues(v=%d, r=%s (%x), s=%s (%x), homestead=%v) = %v, want %v", v, r.name, r.x, s.name, s.x, homestead, got, want)
					}
					if r0.Cmp(r.x) != 0 || s0.Cmp(s.x) != 0 {
						t.Fatalf("ValidateSignatureValues modified its arguments")
					}
					if want {
						c.Class("validate: accepted s=" + s.name)
					} else {
						c.Class("validate: refused")
					}
					c.NonTrivial(true, fmt.Sprintf("validate|%d|%s|%s|%v", v, r.name, s.name, homestead))
				}
			}
		}
	}
	st.Exhaustive(fmt.Sprintf("ValidateSignatureValues over %d boundary values of r x the same for s x 11 v bytes x both rule sets (%d calls)", len(pool), cnt))
}
