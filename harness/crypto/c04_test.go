//go:build verif

package crypto

import (
	"bytes"
	"fmt"
	"testing"

	"github.com/ethereum/go-ethereum/common"
	xsha3 "golang.org/x/crypto/sha3"
	"pgregory.net/rapid"
	vs "verif.local/kit/stat"
)

// C04 (crypto package part): the one-shot helpers Keccak256 / Keccak256Hash
// (pooled states), HashData and the reusable NewKeccakState with Read agree with
// golang.org/x/crypto/sha3.NewLegacyKeccak256 on the concatenation of their inputs.

const c04Rate = 136

func c04Ref(msg []byte) []byte {
	h := xsha3.NewLegacyKeccak256()
	h.Write(msg)
	return h.Sum(nil)
}

func c04Fill(rt *rapid.T, l int) []byte {
	b := make([]byte, l)
	switch rapid.IntRange(0, 5).Draw(rt, "fill") {
	case 0:
	case 1:
		for i := range b {
			b[i] = 0xff
		}
	default:
		x := rapid.Uint64().Draw(rt, "seed") | 1
		for i := range b {
			x ^= x << 13
			x ^= x >> 7
			x ^= x << 17
			b[i] = byte(x >> 24)
		}
	}
	return b
}

func c04Len(rt *rapid.T, maxLen int) int {
	switch rapid.IntRange(0, 3).Draw(rt, "lenKind") {
	case 0:
		l := rapid.IntRange(0, maxLen/c04Rate).Draw(rt, "blocks")*c04Rate + rapid.IntRange(-2, 2).Draw(rt, "delta")
		if l < 0 {
			l = 0
		}
		if l > maxLen {
			l = maxLen
		}
		return l
	case 1:
		return rapid.SampledFrom([]int{0, 1, 20, 31, 32, 33, 55, 56, 57, 64, 65, 255, 256}).Draw(rt, "lenConst")
	default:
		return rapid.IntRange(0, maxLen).Draw(rt, "len")
	}
}

// c04Split cuts msg into 1..8 pieces (possibly empty, biased to block boundaries).
func c04Split(rt *rapid.T, msg []byte) (parts [][]byte, cuts []int) {
	n := rapid.IntRange(0, 7).Draw(rt, "ncuts")
	for i := 0; i < n; i++ {
		var c int
		if rapid.Bool().Draw(rt, "cutAtBlock") {
			c = rapid.IntRange(0, len(msg)/c04Rate+1).Draw(rt, "cutBlock")*c04Rate + rapid.IntRange(-1, 1).Draw(rt, "cutDelta")
		} else {
			c = rapid.IntRange(0, len(msg)).Draw(rt, "cut")
		}
		if c < 0 {
			c = 0
		}
		if c > len(msg) {
			c = len(msg)
		}
		cuts = append(cuts, c)
	}
	for i := 1; i < len(cuts); i++ {
		for j := i; j > 0 && cuts[j] < cuts[j-1]; j-- {
			cuts[j], cuts[j-1] = cuts[j-1], cuts[j]
		}
	}
	prev := 0
	for _, c := range cuts {
		parts = append(parts, msg[prev:c])
		prev = c
	}
	parts = append(parts, msg[prev:])
	return parts, cuts
}

// TestVerifC04CryptoExhaustive: every length 0..5*136+3, fixed pattern, all one-shot
// entry points; for each length the two-argument form at every block-adjacent cut.
func TestVerifC04CryptoExhaustive(t *testing.T) {
	vs.OnlyShard0(t)
	st := vs.New("C04", t)
	ks := NewKeccakState()
	n := 0
	for l := 0; l <= 5*c04Rate+3; l++ {
		msg := make([]byte, l)
		for i := range msg {
			msg[i] = byte(i*59 + l*7 + 3)
		}
		want := c04Ref(msg)
		c := st.Case()
		if got := Keccak256(msg); !bytes.Equal(got, want) {
			t.Fatalf("Keccak256 len=%d: got %x want %x", l, got, want)
		}
		if got := Keccak256Hash(msg); !bytes.Equal(got[:], want) {
			t.Fatalf("Keccak256Hash len=%d: got %x want %x", l, got, want)
		}
		if got := HashData(ks, msg); !bytes.Equal(got[:], want) {
			t.Fatalf("HashData len=%d: got %x want %x", l, got, want)
		}
		c.Class("one-shot all entry points")
		c.NonTrivial(l >= c04Rate, fmt.Sprintf("one/%d", l))
		n++
		for cut := 0; cut <= l; cut++ {
			r := cut % c04Rate
			if !(r <= 1 || r == c04Rate-1 || cut == l) {
				continue
			}
			c := st.Case()
			if got := Keccak256(msg[:cut], msg[cut:]); !bytes.Equal(got, want) {
				t.Fatalf("Keccak256(msg[:%d], msg[%d:]) len=%d: got %x want %x", cut, cut, l, got, want)
			}
			if got := Keccak256Hash(msg[:cut], nil, msg[cut:]); !bytes.Equal(got[:], want) {
				t.Fatalf("Keccak256Hash(msg[:%d], nil, msg[%d:]) len=%d: got %x want %x", cut, cut, l, got, want)
			}
			c.Class("two-arg cut near block boundary")
			c.NonTrivial(l >= c04Rate || (r == 0 && cut > 0), fmt.Sprintf("two/%d/%d", l, cut))
			n++
		}
	}
	st.Exhaustive(fmt.Sprintf("every length 0..%d (fixed pattern) through Keccak256/Keccak256Hash/HashData, two-argument form at every cut within ±1 of a block boundary (%d cases)", 5*c04Rate+3, n))
}

// TestVerifC04CryptoOneShot: random content and splittings through every entry point,
// sharing one long-lived KeccakState across cases (dirty reuse).
func TestVerifC04CryptoOneShot(t *testing.T) {
	st := vs.New("C04", t)
	maxLen := 5*c04Rate + 3
	if vs.Thorough() {
		maxLen = 12*c04Rate + 3
	}
	shared := NewKeccakState()
	vs.Check(t, 1, func(rt *rapid.T) {
		c := st.Case()
		msg := c04Fill(rt, c04Len(rt, maxLen))
		parts, cuts := c04Split(rt, msg)
		want := c04Ref(msg)
		boundary := false
		for _, cu := range cuts {
			if cu%c04Rate == 0 && cu > 0 && cu < len(msg) {
				boundary = true
			}
		}
		api := rapid.IntRange(0, 4).Draw(rt, "api")
		var got []byte
		var class string
		switch api {
		case 0:
			class = "Keccak256(parts...)"
			got = Keccak256(parts...)
		case 1:
			class = "Keccak256Hash(parts...)"
			h := Keccak256Hash(parts...)
			got = h[:]
		case 2:
			class = "HashData(shared state)"
			h := HashData(shared, msg)
			got = h[:]
		case 3:
			class = "NewKeccakState Write* Read"
			ks := shared
			if rapid.Bool().Draw(rt, "fresh") {
				ks = NewKeccakState()
			} else {
				ks.Reset()
			}
			for _, p := range parts {
				ks.Write(p)
			}
			var h common.Hash
			if n, err := ks.Read(h[:]); n != 32 || err != nil {
				rt.Fatalf("Read returned (%d,%v)", n, err)
			}
			got = h[:]
			// continued squeeze equals x/crypto's continued squeeze
			if k := rapid.IntRange(0, 2*c04Rate).Draw(rt, "more"); k > 0 {
				more := make([]byte, k)
				ks.Read(more)
				ref := xsha3.NewLegacyKeccak256()
				ref.Write(msg)
				exp := make([]byte, 32+k)
				ref.(KeccakState).Read(exp)
				if !bytes.Equal(more, exp[32:]) {
					rt.Fatalf("continued Read of %d bytes after digest over %x: got %x want %x", k, msg, more, exp[32:])
				}
			}
		default:
			class = "NewKeccakState Write* Sum"
			ks := shared
			ks.Reset()
			for i, p := range parts {
				ks.Write(p)
				if i == 0 && rapid.Bool().Draw(rt, "midSum") {
					if mid := ks.Sum(nil); !bytes.Equal(mid, c04Ref(p)) {
						rt.Fatalf("mid-stream Sum over %x: got %x want %x", p, mid, c04Ref(p))
					}
				}
			}
			got = ks.Sum(nil)
		}
		if !bytes.Equal(got, want) {
			rt.Fatalf("%s over %d bytes %x cuts %v: got %x want %x", class, len(msg), msg, cuts, got, want)
		}
		nt := len(msg) >= c04Rate || boundary
		c.Class(class)
		if boundary {
			c.Class("cut at block boundary")
		}
		if len(msg) >= c04Rate {
			c.Class("len>=rate")
		} else {
			c.Class("len<rate")
		}
		c.NonTrivial(nt, fmt.Sprintf("%d|%x|%v", api, msg, cuts))
		c.Sample(nt, func() any {
			return map[string]any{"api": class, "len": len(msg), "cuts": cuts, "digest": fmt.Sprintf("%x", got)}
		})
	})
}
