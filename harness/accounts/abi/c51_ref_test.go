//go:build verif

package abi

// Reference model for C51: an own representation of ABI types and values, an
// encoder transcribed from the Solidity "Contract ABI Specification" (section
// "Formal Specification of the Encoding"), generators, and the conversion between
// the own value trees and the Go values go-ethereum's abi package works with.
// Nothing in the reference encoder calls into the package under test.

import (
	"bytes"
	"fmt"
	"math/big"
	"reflect"
	"strings"

	"github.com/ethereum/go-ethereum/common"
	"pgregory.net/rapid"
)

type c51Kind int

const (
	c51Uint c51Kind = iota
	c51Int
	c51Bool
	c51Address
	c51FixedBytes
	c51Bytes
	c51String
	c51Function
	c51Array // T[k]
	c51Slice // T[]
	c51Tuple
)

type c51Type struct {
	kind  c51Kind
	size  int // bits (uint/int), bytes (bytesN), k (T[k])
	elem  *c51Type
	comps []*c51Type
}

// c51Val is a value tree: num for uint/int/bool, raw for address/bytesN/bytes/
// string/function, elems for arrays, slices and tuples.
type c51Val struct {
	num   *big.Int
	raw   []byte
	elems []*c51Val
}

// ---- type helpers ----------------------------------------------------------------

// typeString is the JSON-ABI "type" string ("tuple" for tuples, components apart).
func (t *c51Type) typeString() string {
	switch t.kind {
	case c51Uint:
		return fmt.Sprintf("uint%d", t.size)
	case c51Int:
		return fmt.Sprintf("int%d", t.size)
	case c51Bool:
		return "bool"
	case c51Address:
		return "address"
	case c51FixedBytes:
		return fmt.Sprintf("bytes%d", t.size)
	case c51Bytes:
		return "bytes"
	case c51String:
		return "string"
	case c51Function:
		return "function"
	case c51Array:
		return fmt.Sprintf("%s[%d]", t.elem.typeString(), t.size)
	case c51Slice:
		return t.elem.typeString() + "[]"
	case c51Tuple:
		return "tuple"
	}
	panic("c51: bad kind")
}

// sig is the canonical signature form, e.g. (uint256,bytes)[2].
func (t *c51Type) sig() string {
	switch t.kind {
	case c51Array:
		return fmt.Sprintf("%s[%d]", t.elem.sig(), t.size)
	case c51Slice:
		return t.elem.sig() + "[]"
	case c51Tuple:
		parts := make([]string, len(t.comps))
		for i, c := range t.comps {
			parts[i] = c.sig()
		}
		return "(" + strings.Join(parts, ",") + ")"
	}
	return t.typeString()
}

func (t *c51Type) marshaling(name string) ArgumentMarshaling {
	m := ArgumentMarshaling{Name: name, Type: t.typeString()}
	base := t
	for base.kind == c51Array || base.kind == c51Slice {
		base = base.elem
	}
	if base.kind == c51Tuple {
		for i, c := range base.comps {
			m.Components = append(m.Components, c.marshaling(fmt.Sprintf("f%d", i)))
		}
	}
	return m
}

// dynamic: spec definition — bytes, string, T[] for any T, T[k] for any dynamic T
// and any k >= 0, (T1..Tk) if some Ti is dynamic.
func (t *c51Type) dynamic() bool {
	switch t.kind {
	case c51Bytes, c51String, c51Slice:
		return true
	case c51Array:
		return t.elem.dynamic()
	case c51Tuple:
		for _, c := range t.comps {
			if c.dynamic() {
				return true
			}
		}
	}
	return false
}

// staticLen is len(enc(X)) for a static type.
func (t *c51Type) staticLen() int {
	switch t.kind {
	case c51Array:
		return t.size * t.elem.staticLen()
	case c51Tuple:
		n := 0
		for _, c := range t.comps {
			n += c.staticLen()
		}
		return n
	}
	return 32
}

// nestedDynamic is the non-trivial rule: a fixed array or a tuple that directly
// contains a dynamic element/component type.
func (t *c51Type) nestedDynamic() bool {
	switch t.kind {
	case c51Array:
		return t.elem.dynamic() || t.elem.nestedDynamic()
	case c51Slice:
		return t.elem.nestedDynamic()
	case c51Tuple:
		for _, c := range t.comps {
			if c.dynamic() || c.nestedDynamic() {
				return true
			}
		}
	}
	return false
}

func (t *c51Type) hasZeroArray() bool {
	switch t.kind {
	case c51Array:
		return t.size == 0 || t.elem.hasZeroArray()
	case c51Slice:
		return t.elem.hasZeroArray()
	case c51Tuple:
		for _, c := range t.comps {
			if c.hasZeroArray() {
				return true
			}
		}
	}
	return false
}

// hasZeroSizeStatic reports whether the type contains a static component whose
// encoding is empty (T[0] with static T, and arrays/tuples made only of such).
func (t *c51Type) hasZeroSizeStatic() bool {
	if !t.dynamic() && t.staticLen() == 0 {
		return true
	}
	switch t.kind {
	case c51Array, c51Slice:
		return t.elem.hasZeroSizeStatic()
	case c51Tuple:
		for _, c := range t.comps {
			if c.hasZeroSizeStatic() {
				return true
			}
		}
	}
	return false
}

func (t *c51Type) depth() int {
	switch t.kind {
	case c51Array, c51Slice:
		return 1 + t.elem.depth()
	case c51Tuple:
		d := 0
		for _, c := range t.comps {
			if x := c.depth(); x > d {
				d = x
			}
		}
		return 1 + d
	}
	return 0
}

// ---- reference encoder (from the specification) --------------------------------------

var c51Two256 = new(big.Int).Lsh(big.NewInt(1), 256)

func c51Word(n *big.Int) []byte {
	if n.Sign() < 0 || n.BitLen() > 256 {
		panic("c51Word: out of range")
	}
	out := make([]byte, 32)
	n.FillBytes(out)
	return out
}

func c51PadRight(b []byte) []byte {
	n := (len(b) + 31) / 32 * 32
	out := make([]byte, n)
	copy(out, b)
	return out
}

// c51Enc is enc(X) of the specification.
func c51Enc(t *c51Type, v *c51Val) []byte {
	switch t.kind {
	case c51Uint, c51Bool:
		// uint<M>: big-endian, padded on the higher-order (left) side with zero bytes
		return c51Word(v.num)
	case c51Int:
		// int<M>: big-endian two's complement, padded on the left with 0xff for negative X
		if v.num.Sign() < 0 {
			return c51Word(new(big.Int).Add(c51Two256, v.num))
		}
		return c51Word(v.num)
	case c51Address:
		// as in the uint160 case
		return c51Word(new(big.Int).SetBytes(v.raw))
	case c51FixedBytes, c51Function:
		// bytes<M>: padded with trailing zero bytes to 32; function as bytes24
		return c51PadRight(v.raw)
	case c51Bytes, c51String:
		// enc(len(X)) pad_right(X); string: utf-8 bytes interpreted as bytes
		return append(c51Word(big.NewInt(int64(len(v.raw)))), c51PadRight(v.raw)...)
	case c51Array:
		// T[k]: enc((X[0], ..., X[k-1])) as a tuple of k elements of type T
		return c51EncTuple(c51Repeat(t.elem, len(v.elems)), v.elems)
	case c51Slice:
		// T[]: enc(k) enc((X[0], ..., X[k-1]))
		return append(c51Word(big.NewInt(int64(len(v.elems)))), c51EncTuple(c51Repeat(t.elem, len(v.elems)), v.elems)...)
	case c51Tuple:
		return c51EncTuple(t.comps, v.elems)
	}
	panic("c51Enc: bad kind")
}

func c51Repeat(t *c51Type, n int) []*c51Type {
	out := make([]*c51Type, n)
	for i := range out {
		out[i] = t
	}
	return out
}

// c51EncTuple: enc(X) = head(X1) ... head(Xk) tail(X1) ... tail(Xk); static Ti:
// head = enc(Xi), tail empty; dynamic Ti: head = enc(len(head(X1)...head(Xk)
// tail(X1)...tail(X(i-1)))), tail = enc(Xi).
func c51EncTuple(ts []*c51Type, vs []*c51Val) []byte {
	if len(ts) != len(vs) {
		panic("c51EncTuple: arity")
	}
	headLen := 0
	for _, t := range ts {
		if t.dynamic() {
			headLen += 32
		} else {
			headLen += t.staticLen()
		}
	}
	var heads, tails []byte
	for i, t := range ts {
		if t.dynamic() {
			heads = append(heads, c51Word(big.NewInt(int64(headLen+len(tails))))...)
			tails = append(tails, c51Enc(t, vs[i])...)
		} else {
			heads = append(heads, c51Enc(t, vs[i])...)
		}
	}
	if len(heads) != headLen {
		panic("c51EncTuple: head length self-check")
	}
	return append(heads, tails...)
}

// ---- value equality / rendering ---------------------------------------------------

func c51Equal(t *c51Type, a, b *c51Val) bool {
	switch t.kind {
	case c51Uint, c51Int, c51Bool:
		return a.num.Cmp(b.num) == 0
	case c51Address, c51FixedBytes, c51Function, c51Bytes, c51String:
		return bytes.Equal(a.raw, b.raw)
	case c51Array, c51Slice:
		if len(a.elems) != len(b.elems) {
			return false
		}
		for i := range a.elems {
			if !c51Equal(t.elem, a.elems[i], b.elems[i]) {
				return false
			}
		}
		return true
	case c51Tuple:
		if len(a.elems) != len(b.elems) {
			return false
		}
		for i := range a.elems {
			if !c51Equal(t.comps[i], a.elems[i], b.elems[i]) {
				return false
			}
		}
		return true
	}
	return false
}

func c51Render(t *c51Type, v *c51Val) string {
	switch t.kind {
	case c51Uint, c51Int, c51Bool:
		return v.num.String()
	case c51Address, c51FixedBytes, c51Function, c51Bytes, c51String:
		return fmt.Sprintf("0x%x", v.raw)
	case c51Array, c51Slice:
		parts := make([]string, len(v.elems))
		for i, e := range v.elems {
			parts[i] = c51Render(t.elem, e)
		}
		return "[" + strings.Join(parts, ",") + "]"
	case c51Tuple:
		parts := make([]string, len(v.elems))
		for i, e := range v.elems {
			parts[i] = c51Render(t.comps[i], e)
		}
		return "(" + strings.Join(parts, ",") + ")"
	}
	return "?"
}

// ---- conversion own value tree <-> Go values of the abi package -----------------

func c51NativeInt(size int) bool { return size == 8 || size == 16 || size == 32 || size == 64 }

// c51CheckType verifies that the abi.Type parsed by NewType has the structure of
// the own type (kind, size, element, components).
func c51CheckType(t *c51Type, at Type) error {
	want := map[c51Kind]byte{c51Uint: UintTy, c51Int: IntTy, c51Bool: BoolTy, c51Address: AddressTy, c51FixedBytes: FixedBytesTy,
		c51Bytes: BytesTy, c51String: StringTy, c51Function: FunctionTy, c51Array: ArrayTy, c51Slice: SliceTy, c51Tuple: TupleTy}[t.kind]
	if at.T != want {
		return fmt.Errorf("type %s parsed as T=%d, want %d", t.sig(), at.T, want)
	}
	switch t.kind {
	case c51Uint, c51Int, c51FixedBytes, c51Array:
		if at.Size != t.size {
			return fmt.Errorf("type %s parsed with size %d", t.sig(), at.Size)
		}
	}
	switch t.kind {
	case c51Array, c51Slice:
		if at.Elem == nil {
			return fmt.Errorf("type %s parsed without element type", t.sig())
		}
		return c51CheckType(t.elem, *at.Elem)
	case c51Tuple:
		if len(at.TupleElems) != len(t.comps) {
			return fmt.Errorf("type %s parsed with %d components", t.sig(), len(at.TupleElems))
		}
		for i, c := range t.comps {
			if err := c51CheckType(c, *at.TupleElems[i]); err != nil {
				return err
			}
		}
	}
	return nil
}

// c51ToGo builds the Go value the abi package expects for (t, v).
func c51ToGo(t *c51Type, at Type, v *c51Val) reflect.Value {
	switch t.kind {
	case c51Uint:
		switch t.size {
		case 8:
			return reflect.ValueOf(uint8(v.num.Uint64()))
		case 16:
			return reflect.ValueOf(uint16(v.num.Uint64()))
		case 32:
			return reflect.ValueOf(uint32(v.num.Uint64()))
		case 64:
			return reflect.ValueOf(v.num.Uint64())
		}
		return reflect.ValueOf(new(big.Int).Set(v.num))
	case c51Int:
		switch t.size {
		case 8:
			return reflect.ValueOf(int8(v.num.Int64()))
		case 16:
			return reflect.ValueOf(int16(v.num.Int64()))
		case 32:
			return reflect.ValueOf(int32(v.num.Int64()))
		case 64:
			return reflect.ValueOf(v.num.Int64())
		}
		return reflect.ValueOf(new(big.Int).Set(v.num))
	case c51Bool:
		return reflect.ValueOf(v.num.Sign() != 0)
	case c51Address:
		return reflect.ValueOf(common.BytesToAddress(v.raw))
	case c51FixedBytes, c51Function:
		arr := reflect.New(at.GetType()).Elem()
		reflect.Copy(arr, reflect.ValueOf(v.raw))
		return arr
	case c51Bytes:
		return reflect.ValueOf(append([]byte{}, v.raw...))
	case c51String:
		return reflect.ValueOf(string(v.raw))
	case c51Array:
		arr := reflect.New(at.GetType()).Elem()
		for i, e := range v.elems {
			arr.Index(i).Set(c51ToGo(t.elem, *at.Elem, e))
		}
		return arr
	case c51Slice:
		sl := reflect.MakeSlice(at.GetType(), len(v.elems), len(v.elems))
		for i, e := range v.elems {
			sl.Index(i).Set(c51ToGo(t.elem, *at.Elem, e))
		}
		return sl
	case c51Tuple:
		st := reflect.New(at.GetType()).Elem()
		for i, e := range v.elems {
			st.Field(i).Set(c51ToGo(t.comps[i], *at.TupleElems[i], e))
		}
		return st
	}
	panic("c51ToGo: bad kind")
}

// c51FromGo converts a Go value returned by Unpack into a value tree, checking
// that it has exactly the Go type documented for the ABI type.
func c51FromGo(t *c51Type, rv reflect.Value) (*c51Val, error) {
	bad := func() (*c51Val, error) {
		return nil, fmt.Errorf("value of Go type %v for ABI type %s", rv.Type(), t.sig())
	}
	if !rv.IsValid() {
		return nil, fmt.Errorf("invalid (nil) value for ABI type %s", t.sig())
	}
	if rv.Kind() == reflect.Interface {
		rv = rv.Elem()
	}
	switch t.kind {
	case c51Uint, c51Int:
		if !c51NativeInt(t.size) {
			b, ok := rv.Interface().(*big.Int)
			if !ok || b == nil {
				return bad()
			}
			return &c51Val{num: new(big.Int).Set(b)}, nil
		}
		wantKind := map[int]reflect.Kind{8: reflect.Uint8, 16: reflect.Uint16, 32: reflect.Uint32, 64: reflect.Uint64}[t.size]
		if t.kind == c51Int {
			wantKind = map[int]reflect.Kind{8: reflect.Int8, 16: reflect.Int16, 32: reflect.Int32, 64: reflect.Int64}[t.size]
		}
		if rv.Kind() != wantKind {
			return bad()
		}
		if t.kind == c51Uint {
			return &c51Val{num: new(big.Int).SetUint64(rv.Uint())}, nil
		}
		return &c51Val{num: big.NewInt(rv.Int())}, nil
	case c51Bool:
		if rv.Kind() != reflect.Bool {
			return bad()
		}
		if rv.Bool() {
			return &c51Val{num: big.NewInt(1)}, nil
		}
		return &c51Val{num: big.NewInt(0)}, nil
	case c51Address:
		a, ok := rv.Interface().(common.Address)
		if !ok {
			return bad()
		}
		return &c51Val{raw: append([]byte{}, a[:]...)}, nil
	case c51FixedBytes, c51Function:
		n := t.size
		if t.kind == c51Function {
			n = 24
		}
		if rv.Kind() != reflect.Array || rv.Len() != n || rv.Type().Elem().Kind() != reflect.Uint8 {
			return bad()
		}
		out := make([]byte, n)
		reflect.Copy(reflect.ValueOf(out), rv)
		return &c51Val{raw: out}, nil
	case c51Bytes:
		b, ok := rv.Interface().([]byte)
		if !ok {
			return bad()
		}
		return &c51Val{raw: append([]byte{}, b...)}, nil
	case c51String:
		if rv.Kind() != reflect.String {
			return bad()
		}
		return &c51Val{raw: []byte(rv.String())}, nil
	case c51Array, c51Slice:
		if t.kind == c51Array && (rv.Kind() != reflect.Array || rv.Len() != t.size) {
			return bad()
		}
		if t.kind == c51Slice && rv.Kind() != reflect.Slice {
			return bad()
		}
		out := &c51Val{elems: make([]*c51Val, rv.Len())}
		for i := 0; i < rv.Len(); i++ {
			e, err := c51FromGo(t.elem, rv.Index(i))
			if err != nil {
				return nil, err
			}
			out.elems[i] = e
		}
		return out, nil
	case c51Tuple:
		if rv.Kind() != reflect.Struct || rv.NumField() != len(t.comps) {
			return bad()
		}
		out := &c51Val{elems: make([]*c51Val, len(t.comps))}
		for i := range t.comps {
			e, err := c51FromGo(t.comps[i], rv.Field(i))
			if err != nil {
				return nil, err
			}
			out.elems[i] = e
		}
		return out, nil
	}
	return bad()
}

// ---- generators --------------------------------------------------------------------

var (
	c51IntSizes   = []int{256, 8, 64, 24, 32, 16, 40, 72, 136, 128, 160, 248, 48, 200}
	c51FixedSizes = []int{32, 1, 4, 20, 31, 2, 8, 16, 3, 7, 12, 24, 29}
)

func c51GenLeaf(rt *rapid.T) *c51Type {
	switch rapid.SampledFrom([]string{"uint", "int", "bytes", "string", "bool", "address", "bytesN", "int", "uint", "function"}).Draw(rt, "leaf") {
	case "uint":
		return &c51Type{kind: c51Uint, size: rapid.SampledFrom(c51IntSizes).Draw(rt, "bits")}
	case "int":
		return &c51Type{kind: c51Int, size: rapid.SampledFrom(c51IntSizes).Draw(rt, "bits")}
	case "bool":
		return &c51Type{kind: c51Bool}
	case "address":
		return &c51Type{kind: c51Address}
	case "bytesN":
		return &c51Type{kind: c51FixedBytes, size: rapid.SampledFrom(c51FixedSizes).Draw(rt, "n")}
	case "bytes":
		return &c51Type{kind: c51Bytes}
	case "string":
		return &c51Type{kind: c51String}
	default:
		return &c51Type{kind: c51Function, size: 24}
	}
}

// c51GenType draws a type of nesting depth <= depth. zeroOK allows T[0].
func c51GenType(rt *rapid.T, depth int, zeroOK bool) *c51Type {
	if depth == 0 {
		return c51GenLeaf(rt)
	}
	shapes := []string{"tuple", "array", "slice", "leaf", "array", "slice", "leaf", "leaf"}
	if depth >= 3 {
		shapes = []string{"tuple", "array", "slice", "leaf", "tuple", "slice"}
	}
	switch rapid.SampledFrom(shapes).Draw(rt, "shape") {
	case "leaf":
		return c51GenLeaf(rt)
	case "array":
		ks := []int{2, 1, 3}
		if zeroOK {
			ks = []int{2, 1, 3, 0}
		}
		return &c51Type{kind: c51Array, size: rapid.SampledFrom(ks).Draw(rt, "k"), elem: c51GenType(rt, depth-1, zeroOK)}
	case "slice":
		return &c51Type{kind: c51Slice, elem: c51GenType(rt, depth-1, zeroOK)}
	default:
		n := rapid.SampledFrom([]int{2, 3, 1, 4}).Draw(rt, "ncomp")
		t := &c51Type{kind: c51Tuple}
		for i := 0; i < n; i++ {
			t.comps = append(t.comps, c51GenType(rt, depth-1, zeroOK))
		}
		return t
	}
}

func c51GenBytes(rt *rapid.T, n int) []byte {
	switch rapid.SampledFrom([]string{"random", "zero", "ff"}).Draw(rt, "fill") {
	case "zero":
		return make([]byte, n)
	case "ff":
		return bytes.Repeat([]byte{0xff}, n)
	}
	return rapid.SliceOfN(rapid.Byte(), n, n).Draw(rt, "bytes")
}

func c51GenValue(rt *rapid.T, t *c51Type) *c51Val {
	one := big.NewInt(1)
	switch t.kind {
	case c51Uint:
		max := new(big.Int).Sub(new(big.Int).Lsh(one, uint(t.size)), one)
		switch rapid.SampledFrom([]string{"random", "max", "zero", "one", "half", "small"}).Draw(rt, "uintClass") {
		case "max":
			return &c51Val{num: max}
		case "zero":
			return &c51Val{num: big.NewInt(0)}
		case "one":
			return &c51Val{num: big.NewInt(1)}
		case "half":
			return &c51Val{num: new(big.Int).Lsh(one, uint(t.size-1))}
		case "small":
			return &c51Val{num: new(big.Int).And(big.NewInt(int64(rapid.IntRange(0, 300).Draw(rt, "small"))), max)}
		}
		return &c51Val{num: new(big.Int).SetBytes(c51GenBytes(rt, t.size/8))}
	case c51Int:
		half := new(big.Int).Lsh(one, uint(t.size-1))
		switch rapid.SampledFrom([]string{"random", "min", "max", "minus1", "zero", "small-neg", "small"}).Draw(rt, "intClass") {
		case "min":
			return &c51Val{num: new(big.Int).Neg(half)}
		case "max":
			return &c51Val{num: new(big.Int).Sub(half, one)}
		case "minus1":
			return &c51Val{num: big.NewInt(-1)}
		case "zero":
			return &c51Val{num: big.NewInt(0)}
		case "small-neg":
			return &c51Val{num: big.NewInt(-int64(rapid.IntRange(1, 127).Draw(rt, "small")))}
		case "small":
			return &c51Val{num: big.NewInt(int64(rapid.IntRange(0, 127).Draw(rt, "small")))}
		}
		// random M-bit pattern interpreted as two's complement
		n := new(big.Int).SetBytes(c51GenBytes(rt, t.size/8))
		if n.Cmp(half) >= 0 {
			n.Sub(n, new(big.Int).Lsh(one, uint(t.size)))
		}
		return &c51Val{num: n}
	case c51Bool:
		if rapid.Bool().Draw(rt, "bool") {
			return &c51Val{num: big.NewInt(1)}
		}
		return &c51Val{num: big.NewInt(0)}
	case c51Address:
		return &c51Val{raw: c51GenBytes(rt, 20)}
	case c51FixedBytes:
		return &c51Val{raw: c51GenBytes(rt, t.size)}
	case c51Function:
		return &c51Val{raw: c51GenBytes(rt, 24)}
	case c51Bytes, c51String:
		n := rapid.SampledFrom([]int{0, 1, 5, 31, 32, 33, 63, 64, 65, 100}).Draw(rt, "len")
		if t.kind == c51String && rapid.Bool().Draw(rt, "utf8") {
			s := rapid.StringN(0, 40, 100).Draw(rt, "str")
			return &c51Val{raw: []byte(s)}
		}
		return &c51Val{raw: c51GenBytes(rt, n)} // strings: arbitrary bytes incl. invalid UTF-8
	case c51Array:
		v := &c51Val{elems: make([]*c51Val, t.size)}
		for i := range v.elems {
			v.elems[i] = c51GenValue(rt, t.elem)
		}
		return v
	case c51Slice:
		n := rapid.SampledFrom([]int{2, 1, 0, 3, 5}).Draw(rt, "slen")
		v := &c51Val{elems: make([]*c51Val, n)}
		for i := range v.elems {
			v.elems[i] = c51GenValue(rt, t.elem)
		}
		return v
	case c51Tuple:
		v := &c51Val{elems: make([]*c51Val, len(t.comps))}
		for i := range v.elems {
			v.elems[i] = c51GenValue(rt, t.comps[i])
		}
		return v
	}
	panic("c51GenValue: bad kind")
}

// c51ZeroValue is the all-zero value of a type (used by the fuzz catalogue).
func c51ZeroValue(t *c51Type) *c51Val {
	switch t.kind {
	case c51Uint, c51Int, c51Bool:
		return &c51Val{num: big.NewInt(0)}
	case c51Address:
		return &c51Val{raw: make([]byte, 20)}
	case c51FixedBytes:
		return &c51Val{raw: make([]byte, t.size)}
	case c51Function:
		return &c51Val{raw: make([]byte, 24)}
	case c51Bytes, c51String:
		return &c51Val{raw: []byte("abc")}
	case c51Array:
		v := &c51Val{}
		for i := 0; i < t.size; i++ {
			v.elems = append(v.elems, c51ZeroValue(t.elem))
		}
		return v
	case c51Slice:
		return &c51Val{elems: []*c51Val{c51ZeroValue(t.elem), c51ZeroValue(t.elem)}}
	case c51Tuple:
		v := &c51Val{}
		for _, c := range t.comps {
			v.elems = append(v.elems, c51ZeroValue(c))
		}
		return v
	}
	panic("c51ZeroValue")
}

// ---- argument lists -----------------------------------------------------------------

type c51Args struct {
	types []*c51Type
	args  Arguments
}

func c51BuildArgs(types []*c51Type) (*c51Args, error) {
	a := &c51Args{types: types}
	for i, t := range types {
		m := t.marshaling(fmt.Sprintf("a%d", i))
		at, err := NewType(m.Type, "", m.Components)
		if err != nil {
			return nil, fmt.Errorf("NewType(%s): %v", t.sig(), err)
		}
		if err := c51CheckType(t, at); err != nil {
			return nil, err
		}
		a.args = append(a.args, Argument{Name: m.Name, Type: at})
	}
	return a, nil
}

func (a *c51Args) sig() string {
	parts := make([]string, len(a.types))
	for i, t := range a.types {
		parts[i] = t.sig()
	}
	return "(" + strings.Join(parts, ",") + ")"
}

func (a *c51Args) toGo(vals []*c51Val) []any {
	out := make([]any, len(vals))
	for i, v := range vals {
		out[i] = c51ToGo(a.types[i], a.args[i].Type, v).Interface()
	}
	return out
}

func (a *c51Args) fromGo(out []any) ([]*c51Val, error) {
	if len(out) != len(a.types) {
		return nil, fmt.Errorf("%d values returned for %d arguments", len(out), len(a.types))
	}
	vals := make([]*c51Val, len(out))
	for i, o := range out {
		v, err := c51FromGo(a.types[i], reflect.ValueOf(o))
		if err != nil {
			return nil, fmt.Errorf("argument %d: %v", i, err)
		}
		vals[i] = v
	}
	return vals, nil
}

func (a *c51Args) equal(x, y []*c51Val) bool {
	for i, t := range a.types {
		if !c51Equal(t, x[i], y[i]) {
			return false
		}
	}
	return true
}

func (a *c51Args) render(vals []*c51Val) string {
	parts := make([]string, len(vals))
	for i, v := range vals {
		parts[i] = c51Render(a.types[i], v)
	}
	return "(" + strings.Join(parts, ",") + ")"
}

// enc is the reference encoding of the argument list (a tuple of the arguments).
func (a *c51Args) enc(vals []*c51Val) []byte { return c51EncTuple(a.types, vals) }
