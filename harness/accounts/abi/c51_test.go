//go:build verif

package abi

import (
	"bytes"
	"encoding/hex"
	"fmt"
	"math/big"
	"testing"

	"pgregory.net/rapid"
	vs "verif.local/kit/stat"
)

// c51ZeroClass is the known-finding class label for zero-length fixed arrays.
const c51ZeroClass = "zero-length-array"

type c51Fataler interface {
	Fatalf(string, ...any)
}

func c51SafeUnpack(t c51Fataler, a *c51Args, data []byte) (out []any, err error) {
	defer func() {
		if r := recover(); r != nil {
			t.Fatalf("Unpack panicked: %v\n types %s\n data %x", r, a.sig(), data)
		}
	}()
	return a.args.Unpack(data)
}

func c51SafePack(t c51Fataler, a *c51Args, vals []any) (out []byte, err error) {
	defer func() {
		if r := recover(); r != nil {
			t.Fatalf("Pack panicked: %v\n types %s\n values %v", r, a.sig(), vals)
		}
	}()
	return a.args.Pack(vals...)
}

func c51GenArgs(rt *rapid.T, zeroOK bool) (*c51Args, []*c51Val) {
	n := rapid.SampledFrom([]int{1, 2, 3, 1, 2, 4}).Draw(rt, "nargs")
	var types []*c51Type
	for i := 0; i < n; i++ {
		types = append(types, c51GenType(rt, 3, zeroOK))
	}
	a, err := c51BuildArgs(types)
	if err != nil {
		rt.Fatalf("building arguments: %v", err)
	}
	vals := make([]*c51Val, n)
	for i, t := range types {
		vals[i] = c51GenValue(rt, t)
	}
	return a, vals
}

func c51Classes(c *vs.Case, a *c51Args) (nontrivial bool) {
	dyn, zero, depth := false, false, 0
	for _, t := range a.types {
		if t.nestedDynamic() {
			nontrivial = true
		}
		if t.dynamic() {
			dyn = true
		}
		if t.hasZeroArray() {
			zero = true
		}
		if d := t.depth(); d > depth {
			depth = d
		}
	}
	c.Classf("depth=%d", depth)
	switch {
	case nontrivial:
		c.Class("dynamic-nested-in-array-or-tuple")
	case dyn:
		c.Class("dynamic-top-level-only")
	default:
		c.Class("all-static")
	}
	if zero {
		c.Class("has-T[0]")
	}
	return nontrivial
}

// c51RoundTrip is oracle (1) and (2): Pack(v) equals the reference encoding and
// Unpack(Pack(v)) == v.
func c51RoundTrip(t c51Fataler, a *c51Args, vals []*c51Val) []byte {
	want := a.enc(vals)
	packed, err := c51SafePack(t, a, a.toGo(vals))
	if err != nil {
		t.Fatalf("Pack failed: %v\n types %s\n values %s", err, a.sig(), a.render(vals))
	}
	if !bytes.Equal(packed, want) {
		t.Fatalf("Pack differs from the ABI specification encoding\n types  %s\n values %s\n geth %x\n spec %x", a.sig(), a.render(vals), packed, want)
	}
	out, err := c51SafeUnpack(t, a, packed)
	if err != nil {
		t.Fatalf("Unpack(Pack(v)) failed: %v\n types %s\n values %s\n data %x", err, a.sig(), a.render(vals), packed)
	}
	back, err := a.fromGo(out)
	if err != nil {
		t.Fatalf("Unpack(Pack(v)) returned %v\n types %s", err, a.sig())
	}
	if !a.equal(vals, back) {
		t.Fatalf("Unpack(Pack(v)) != v\n types %s\n v    %s\n got  %s\n data %x", a.sig(), a.render(vals), a.render(back), packed)
	}
	// trailing bytes after a complete encoding do not change the decoded values
	return packed
}

func TestVerifC51RoundTrip(t *testing.T) {
	st := vs.New("C51", t)
	vs.Check(t, 1, func(rt *rapid.T) { c51RoundTripProp(rt, st, false) })
}

// TestVerifC51ZeroArray is the round-trip oracle on the sub-domain of types that
// contain a zero-length fixed array T[0] (allowed by the ABI specification, k >= 0).
// It is kept apart from the main tests because go-ethereum cannot unpack a static
// T[0] that ends its frame (see notes/C51.md); when the lead lists that as a known
// finding the sub-domain is excluded and counted.
func TestVerifC51ZeroArray(t *testing.T) {
	st := vs.New("C51", t)
	known := vs.Known("TestVerifC51ZeroArray", c51ZeroClass)
	if known {
		st.Note("known finding %s: for types with a zero-size static component an *error* from Unpack(Pack(v)) is tolerated and counted as excluded; Pack is still compared with the reference, Unpack(Pack(v) ++ 256 zero bytes) must still return v, and a successful exact Unpack must return v", c51ZeroClass)
	}
	vs.Check(t, 0.2, func(rt *rapid.T) {
		c := st.Case()
		n := rapid.IntRange(1, 3).Draw(rt, "nargs")
		zeroAt := rapid.IntRange(0, n-1).Draw(rt, "zeroAt")
		var types []*c51Type
		for i := 0; i < n; i++ {
			ty := c51GenType(rt, 2, true)
			if i == zeroAt && !ty.hasZeroArray() {
				ty = c51Arr(0, ty)
			}
			types = append(types, ty)
		}
		a, err := c51BuildArgs(types)
		if err != nil {
			rt.Fatalf("building arguments: %v", err)
		}
		vals := make([]*c51Val, n)
		for i, ty := range types {
			vals[i] = c51GenValue(rt, ty)
		}
		tailSensitive := false
		for _, ty := range types {
			if ty.hasZeroSizeStatic() {
				tailSensitive = true
			}
		}
		var packed []byte
		if !known || !tailSensitive {
			// all T[0] have a dynamic element type (or the finding is not listed): full oracle
			packed = c51RoundTrip(rt, a, vals)
			c.Class("T[0]-full-round-trip")
		} else {
			packed = c51RoundTripZeroKnown(rt, a, vals, st, c)
		}
		nt := c51Classes(c, a)
		c.NonTrivial(nt, a.sig()+hex.EncodeToString(packed))
		c.Sample(nt, func() any {
			return map[string]any{"types": a.sig(), "values": a.render(vals), "encoding": hex.EncodeToString(packed)}
		})
	})
}

// c51RoundTripZeroKnown is the round-trip oracle under the known finding
// "zero-length-array": a static component of encoded size zero cannot be unpacked by
// go-ethereum when fewer than 32 (or 32*k) bytes follow it in the buffer. Tolerated:
// an error from Unpack on the exact encoding. Still required: Pack equals the
// specification encoding; the encoding followed by slack decodes to v; an exact
// Unpack that succeeds returns v.
func c51RoundTripZeroKnown(t c51Fataler, a *c51Args, vals []*c51Val, st *vs.S, c *vs.Case) []byte {
	want := a.enc(vals)
	packed, err := c51SafePack(t, a, a.toGo(vals))
	if err != nil {
		t.Fatalf("Pack failed: %v\n types %s\n values %s", err, a.sig(), a.render(vals))
	}
	if !bytes.Equal(packed, want) {
		t.Fatalf("Pack differs from the ABI specification encoding\n types  %s\n values %s\n geth %x\n spec %x", a.sig(), a.render(vals), packed, want)
	}
	check := func(what string, data []byte, mayFail bool) {
		out, err := c51SafeUnpack(t, a, data)
		if err != nil {
			if mayFail {
				st.Excluded()
				c.Class("T[0]-exact-unpack-error-excluded")
				return
			}
			t.Fatalf("%s failed: %v\n types %s\n values %s\n data %x", what, err, a.sig(), a.render(vals), data)
		}
		back, err := a.fromGo(out)
		if err != nil {
			t.Fatalf("%s returned %v\n types %s", what, err, a.sig())
		}
		if !a.equal(vals, back) {
			t.Fatalf("%s != v\n types %s\n v    %s\n got  %s\n data %x", what, a.sig(), a.render(vals), a.render(back), data)
		}
		if mayFail {
			c.Class("T[0]-exact-unpack-ok")
		}
	}
	check("Unpack(Pack(v))", packed, true)
	check("Unpack(Pack(v) ++ slack)", append(append([]byte{}, packed...), make([]byte, 256)...), false)
	return packed
}

func c51RoundTripProp(rt *rapid.T, st *vs.S, zeroOK bool) {
	var c *vs.Case
	if st != nil {
		c = st.Case()
	}
	a, vals := c51GenArgs(rt, zeroOK)
	packed := c51RoundTrip(rt, a, vals)
	if c != nil {
		nt := c51Classes(c, a)
		c.NonTrivial(nt, a.sig()+hex.EncodeToString(packed))
		c.Sample(nt, func() any {
			return map[string]any{"types": a.sig(), "values": a.render(vals), "encoding": hex.EncodeToString(packed)}
		})
	}
}

// ---- decoding arbitrary / mutated bytes (oracle 3) ---------------------------------

var c51Pow = func(n uint) *big.Int { return new(big.Int).Lsh(big.NewInt(1), n) }

func c51HostileWord(rt *rapid.T, cur []byte, total int) []byte {
	w := new(big.Int)
	curV := new(big.Int).SetBytes(cur)
	switch rapid.SampledFrom([]string{"cur+32", "cur-32", "cur+1", "cur-1", "len", "len-32", "len+1", "len-31", "zero", "one", "32", "64", "small",
		"2^31", "2^32", "2^63-32", "2^63-1", "2^63", "2^64-32", "2^64-1", "2^64", "2^64+32", "2^255", "2^256-1", "2^256-32", "random"}).Draw(rt, "word") {
	case "cur+32":
		w.Add(curV, big.NewInt(32))
	case "cur-32":
		w.Sub(curV, big.NewInt(32))
	case "cur+1":
		w.Add(curV, big.NewInt(1))
	case "cur-1":
		w.Sub(curV, big.NewInt(1))
	case "len":
		w.SetInt64(int64(total))
	case "len-32":
		w.SetInt64(int64(total - 32))
	case "len+1":
		w.SetInt64(int64(total + 1))
	case "len-31":
		w.SetInt64(int64(total - 31))
	case "zero":
	case "one":
		w.SetInt64(1)
	case "32":
		w.SetInt64(32)
	case "64":
		w.SetInt64(64)
	case "small":
		w.SetInt64(int64(rapid.IntRange(0, 20).Draw(rt, "smallWord")) * 32)
	case "2^31":
		w.Set(c51Pow(31))
	case "2^32":
		w.Set(c51Pow(32))
	case "2^63-32":
		w.Sub(c51Pow(63), big.NewInt(32))
	case "2^63-1":
		w.Sub(c51Pow(63), big.NewInt(1))
	case "2^63":
		w.Set(c51Pow(63))
	case "2^64-32":
		w.Sub(c51Pow(64), big.NewInt(32))
	case "2^64-1":
		w.Sub(c51Pow(64), big.NewInt(1))
	case "2^64":
		w.Set(c51Pow(64))
	case "2^64+32":
		w.Add(c51Pow(64), big.NewInt(32))
	case "2^255":
		w.Set(c51Pow(255))
	case "2^256-1":
		w.Sub(c51Pow(256), big.NewInt(1))
	case "2^256-32":
		w.Sub(c51Pow(256), big.NewInt(32))
	default:
		w.SetBytes(rapid.SliceOfN(rapid.Byte(), 32, 32).Draw(rt, "randWord"))
	}
	if w.Sign() < 0 {
		w.Add(w, c51Two256)
	}
	w.Mod(w, c51Two256)
	return c51Word(w)
}

// c51Mutate applies 1..3 byte-level mutations to a valid encoding.
func c51Mutate(rt *rapid.T, enc []byte) ([]byte, string) {
	data := append([]byte{}, enc...)
	n := rapid.SampledFrom([]int{1, 1, 2, 1, 3}).Draw(rt, "nmut")
	label := ""
	for i := 0; i < n; i++ {
		kind := rapid.SampledFrom([]string{"word", "word", "word", "flip", "truncate", "extend", "copy-word", "dirty-pad", "cut-words"}).Draw(rt, "mutation")
		if i == 0 {
			label = kind
		} else {
			label = "multi"
		}
		words := len(data) / 32
		switch kind {
		case "word":
			if words == 0 {
				continue
			}
			w := rapid.IntRange(0, words-1).Draw(rt, "wordIdx")
			copy(data[w*32:], c51HostileWord(rt, data[w*32:w*32+32], len(data)))
		case "flip":
			if len(data) == 0 {
				continue
			}
			p := rapid.IntRange(0, len(data)-1).Draw(rt, "pos")
			data[p] ^= byte(1 << rapid.IntRange(0, 7).Draw(rt, "bit"))
		case "truncate":
			data = data[:rapid.IntRange(0, len(data)).Draw(rt, "cut")]
		case "extend":
			data = append(data, rapid.SliceOfN(rapid.Byte(), 1, 70).Draw(rt, "extra")...)
		case "copy-word": // makes offsets collide: overlapping / shared tails
			if words < 2 {
				continue
			}
			from := rapid.IntRange(0, words-1).Draw(rt, "from")
			to := rapid.IntRange(0, words-1).Draw(rt, "to")
			copy(data[to*32:to*32+32], append([]byte{}, data[from*32:from*32+32]...))
		case "dirty-pad": // a non-zero byte in the first or last bytes of a word
			if words == 0 {
				continue
			}
			w := rapid.IntRange(0, words-1).Draw(rt, "wordIdx")
			off := rapid.SampledFrom([]int{0, 1, 11, 12, 20, 24, 30, 31}).Draw(rt, "padByte")
			data[w*32+off] = byte(rapid.IntRange(1, 255).Draw(rt, "padVal"))
		case "cut-words": // drop whole words at the end
			if words == 0 {
				continue
			}
			data = data[:32*rapid.IntRange(0, words-1).Draw(rt, "keepWords")]
		}
	}
	return data, label
}

// c51DecodeCheck is oracle (3) for one input. It returns a class label.
func c51DecodeCheck(t c51Fataler, a *c51Args, data []byte) string {
	out, err := c51SafeUnpack(t, a, data)
	if err != nil {
		return "rejected"
	}
	vals, err := a.fromGo(out)
	if err != nil {
		t.Fatalf("Unpack succeeded but returned %v\n types %s\n data %x", err, a.sig(), data)
	}
	// the decoded values must pack again, to the canonical (specification) encoding
	want := a.enc(vals)
	packed, err := c51SafePack(t, a, out)
	if err != nil {
		t.Fatalf("values returned by Unpack cannot be packed: %v\n types %s\n data %x\n values %s", err, a.sig(), data, a.render(vals))
	}
	if !bytes.Equal(packed, want) {
		t.Fatalf("re-encoding of unpacked values is not the canonical encoding\n types %s\n data %x\n values %s\n geth %x\n spec %x", a.sig(), data, a.render(vals), packed, want)
	}
	if len(packed) > 0 {
		out2, err := c51SafeUnpack(t, a, packed)
		if err != nil {
			t.Fatalf("Unpack(Pack(v')) failed: %v\n types %s\n data %x\n values %s", err, a.sig(), data, a.render(vals))
		}
		vals2, err := a.fromGo(out2)
		if err != nil {
			t.Fatalf("Unpack(Pack(v')) returned %v\n types %s", err, a.sig())
		}
		if !a.equal(vals, vals2) {
			t.Fatalf("Unpack(Pack(v')) != v'\n types %s\n data %x\n v'  %s\n got %s", a.sig(), data, a.render(vals), a.render(vals2))
		}
	}
	// Where the input itself starts with the canonical encoding of what was decoded,
	// the re-encoding is that prefix (follows from packed == want; classified here).
	if bytes.HasPrefix(data, packed) {
		return "accepted-canonical-prefix"
	}
	return "accepted-lenient"
}

func TestVerifC51DecodeMutated(t *testing.T) {
	st := vs.New("C51", t)
	vs.Check(t, 2, func(rt *rapid.T) {
		c := st.Case()
		a, vals := c51GenArgs(rt, false)
		enc := a.enc(vals)
		var (
			data  []byte
			label string
		)
		if rapid.SampledFrom([]int{1, 2, 3, 4, 5, 6, 7, 8, 9, 10, 11, 0}).Draw(rt, "wholesale") == 0 {
			data = rapid.SliceOfN(rapid.Byte(), 0, 320).Draw(rt, "randomBytes")
			label = "random-bytes"
		} else {
			data, label = c51Mutate(rt, enc)
		}
		res := c51DecodeCheck(rt, a, data)
		nt := c51Classes(c, a)
		c.Class("mut=" + label)
		c.Class(res)
		c.Fault()
		c.NonTrivial(nt, a.sig()+hex.EncodeToString(data))
		c.Sample(nt && res != "rejected", func() any {
			return map[string]any{"types": a.sig(), "mutation": label, "data": hex.EncodeToString(data), "result": res}
		})
	})
}

// ---- native fuzzing (thorough tier) ------------------------------------------------

func c51T(kind c51Kind, size int) *c51Type { return &c51Type{kind: kind, size: size} }
func c51Arr(k int, e *c51Type) *c51Type   { return &c51Type{kind: c51Array, size: k, elem: e} }
func c51Sl(e *c51Type) *c51Type           { return &c51Type{kind: c51Slice, elem: e} }
func c51Tup(cs ...*c51Type) *c51Type      { return &c51Type{kind: c51Tuple, comps: cs} }

// c51Catalogue is a fixed list of argument lists for the raw-bytes fuzz target.
func c51Catalogue() [][]*c51Type {
	u256, i24, u8, i64 := c51T(c51Uint, 256), c51T(c51Int, 24), c51T(c51Uint, 8), c51T(c51Int, 64)
	bs, str, b4 := c51T(c51Bytes, 0), c51T(c51String, 0), c51T(c51FixedBytes, 4)
	addr, bl, fn := c51T(c51Address, 0), c51T(c51Bool, 0), c51T(c51Function, 24)
	return [][]*c51Type{
		{u256}, {bs}, {str, u8}, {c51Sl(u256)}, {c51Sl(bs)}, {c51Arr(2, bs)}, {c51Arr(3, i24)},
		{c51Tup(u256, bs)}, {c51Tup(i64, c51Tup(str, bl))}, {c51Sl(c51Tup(addr, bs))},
		{c51Arr(2, c51Sl(str))}, {c51Sl(c51Arr(2, u8))}, {c51Sl(c51Sl(i24))}, {c51Tup(c51Arr(2, c51Tup(bs, u8)), fn)},
		{b4, c51Sl(b4), addr}, {c51Arr(2, c51Arr(2, bl)), str}, {c51Tup(c51Sl(c51Sl(bs)))}, {i24, c51Tup(b4, i64), c51Sl(str)},
		{c51Sl(c51Tup(c51Sl(u256), c51Arr(1, str)))}, {c51Arr(3, c51Tup(u8, i24))},
	}
}

// FuzzVerifC51Decode: byte 0 selects an argument list of the catalogue, the rest is
// handed to Unpack (oracle 3).
func FuzzVerifC51Decode(f *testing.F) {
	cat := c51Catalogue()
	built := make([]*c51Args, len(cat))
	for i, ts := range cat {
		a, err := c51BuildArgs(ts)
		if err != nil {
			f.Fatalf("VERIF-HARNESS-BUG: catalogue %d: %v", i, err)
		}
		built[i] = a
		vals := make([]*c51Val, len(ts))
		for j, t := range ts {
			vals[j] = c51ZeroValue(t)
		}
		f.Add(append([]byte{byte(i)}, a.enc(vals)...))
	}
	f.Fuzz(func(t *testing.T, data []byte) {
		if len(data) == 0 || len(data) > 2049 {
			return
		}
		a := built[int(data[0])%len(built)]
		c51DecodeCheck(t, a, data[1:])
	})
}

// FuzzVerifC51RoundTrip drives the structured round-trip property from fuzz bytes.
func FuzzVerifC51RoundTrip(f *testing.F) {
	f.Fuzz(rapid.MakeFuzz(func(rt *rapid.T) { c51RoundTripProp(rt, nil, false) }))
}

// TestVerifC51Catalogue runs the fixed catalogue (and the fuzz seeds) through both
// oracles in the normal test path, so the catalogue cannot rot.
func TestVerifC51Catalogue(t *testing.T) {
	vs.OnlyShard0(t)
	st := vs.New("C51", t)
	for i, ts := range c51Catalogue() {
		c := st.Case()
		a, err := c51BuildArgs(ts)
		if err != nil {
			t.Fatalf("VERIF-HARNESS-BUG: catalogue %d: %v", i, err)
		}
		vals := make([]*c51Val, len(ts))
		for j, tt := range ts {
			vals[j] = c51ZeroValue(tt)
		}
		packed := c51RoundTrip(t, a, vals)
		if res := c51DecodeCheck(t, a, packed); res != "accepted-canonical-prefix" {
			t.Fatalf("canonical encoding of catalogue entry %s classified %s", a.sig(), res)
		}
		nt := c51Classes(c, a)
		c.NonTrivial(nt, fmt.Sprintf("cat%d", i))
	}
}
