//go:build verif

package keystore

import (
	"bytes"
	"crypto/aes"
	"crypto/cipher"
	"crypto/hmac"
	"crypto/sha256"
	"encoding/binary"
	"encoding/hex"
	"encoding/json"
	"errors"
	"fmt"
	"math/big"
	"os"
	"path/filepath"
	"sort"
	"strings"
	"testing"

	"github.com/ethereum/go-ethereum/accounts"
	"github.com/ethereum/go-ethereum/common"
	"github.com/ethereum/go-ethereum/crypto"
	"github.com/google/uuid"
	"golang.org/x/crypto/scrypt"
	"golang.org/x/crypto/sha3"
	"pgregory.net/rapid"
	vs "verif.local/kit/stat"
)

// ---- independent recomputation of the Web3 Secret Storage (v3) scheme ----------------
//
// derived key = KDF(passphrase, salt, params); ciphertext = AES-128-CTR(dk[0:16], iv) over
// the 32-byte big-endian private key; mac = keccak256(dk[16:32] ++ ciphertext).
// Trusted: x/crypto scrypt and sha3 (legacy Keccak), stdlib aes/cipher/hmac/sha256.

func c52Keccak(parts ...[]byte) []byte {
	h := sha3.NewLegacyKeccak256()
	for _, p := range parts {
		h.Write(p)
	}
	return h.Sum(nil)
}

func c52CTR(key, iv, in []byte) []byte {
	blk, err := aes.NewCipher(key)
	if err != nil {
		panic(err)
	}
	out := make([]byte, len(in))
	cipher.NewCTR(blk, iv).XORKeyStream(out, in)
	return out
}

// c52PBKDF2 is PBKDF2-HMAC-SHA256 written from RFC 8018 section 5.2.
func c52PBKDF2(pass, salt []byte, c, dkLen int) []byte {
	var out []byte
	for block := uint32(1); len(out) < dkLen; block++ {
		mac := hmac.New(sha256.New, pass)
		mac.Write(salt)
		var ctr [4]byte
		binary.BigEndian.PutUint32(ctr[:], block)
		mac.Write(ctr[:])
		u := mac.Sum(nil)
		t := append([]byte{}, u...)
		for i := 1; i < c; i++ {
			mac = hmac.New(sha256.New, pass)
			mac.Write(u)
			u = mac.Sum(nil)
			for j := range t {
				t[j] ^= u[j]
			}
		}
		out = append(out, t...)
	}
	return out[:dkLen]
}

// c52HMACKey is the effective HMAC-SHA256 key of a passphrase (RFC 2104): keys longer
// than the 64-byte block are hashed, shorter ones are zero-padded. scrypt and pbkdf2
// use the passphrase only as an HMAC key, so two passphrases with the same effective
// key are the *same* passphrase for every implementation of the key-file format
// (e.g. p and p+"\x00" for len(p) < 64). They are not "another passphrase".
func c52HMACKey(p string) [64]byte {
	var k [64]byte
	if len(p) > 64 {
		h := sha256.Sum256([]byte(p))
		copy(k[:], h[:])
	} else {
		copy(k[:], p)
	}
	return k
}

var c52CurveN, _ = new(big.Int).SetString("fffffffffffffffffffffffffffffffebaaedce6af48a03bbfd25e8cd0364141", 16)

// ---- generators ----------------------------------------------------------------------

func c52GenScalar(rt *rapid.T) (*big.Int, string) {
	switch cls := rapid.SampledFrom([]string{"random", "small", "leading-zero-byte", "near-n", "random", "leading-zero-bytes"}).Draw(rt, "scalarClass"); cls {
	case "small":
		return big.NewInt(int64(rapid.IntRange(1, 1000).Draw(rt, "small"))), cls
	case "leading-zero-byte":
		b := rapid.SliceOfN(rapid.Byte(), 31, 31).Draw(rt, "d31")
		d := new(big.Int).SetBytes(b)
		if d.Sign() == 0 {
			d.SetInt64(1)
		}
		return d, cls
	case "leading-zero-bytes":
		n := rapid.IntRange(1, 30).Draw(rt, "dlen")
		d := new(big.Int).SetBytes(rapid.SliceOfN(rapid.Byte(), n, n).Draw(rt, "dshort"))
		if d.Sign() == 0 {
			d.SetInt64(2)
		}
		return d, cls
	case "near-n":
		return new(big.Int).Sub(c52CurveN, big.NewInt(int64(rapid.IntRange(1, 5).Draw(rt, "belowN")))), cls
	default:
		d := new(big.Int).SetBytes(rapid.SliceOfN(rapid.Byte(), 32, 32).Draw(rt, "d32"))
		d.Mod(d, new(big.Int).Sub(c52CurveN, big.NewInt(1)))
		d.Add(d, big.NewInt(1))
		return d, "random"
	}
}

func c52KeyFromScalar(t interface{ Fatalf(string, ...any) }, d *big.Int, id uuid.UUID) *Key {
	buf := make([]byte, 32)
	d.FillBytes(buf)
	priv, err := crypto.ToECDSA(buf)
	if err != nil {
		t.Fatalf("VERIF-HARNESS-BUG: scalar %x rejected: %v", buf, err)
	}
	return &Key{Id: id, Address: crypto.PubkeyToAddress(priv.PublicKey), PrivateKey: priv}
}

var c52MultiByte = []string{"p\u00e4ssw\u00f6rd", "\u043f\u0430\u0440\u043e\u043b\u044c", "\u5bc6\u7801\U0001f511", "\u00e9cole", "e\u0301cole", "\uff50\uff41\uff53\uff53", "\u00f1and\u00fa \u00fcn\u00ef", "\U0001d52d\U0001d51e\U0001d530\U0001d530"}

func c52GenPass(rt *rapid.T) (string, string) {
	switch cls := rapid.SampledFrom([]string{"ascii", "multibyte", "empty", "nul", "long", "invalid-utf8", "multibyte", "space"}).Draw(rt, "passClass"); cls {
	case "empty":
		return "", cls
	case "multibyte":
		s := rapid.SampledFrom(c52MultiByte).Draw(rt, "mb")
		if rapid.Bool().Draw(rt, "mbSuffix") {
			s += rapid.StringN(0, 6, 24).Draw(rt, "mbExtra")
		}
		return s, cls
	case "nul":
		return "a\x00b" + rapid.StringMatching(`[a-z\x00]{0,6}`).Draw(rt, "nulExtra"), cls
	case "long":
		return strings.Repeat(rapid.StringMatching(`[a-zA-Z0-9]{8}`).Draw(rt, "chunk"), 128), cls
	case "invalid-utf8":
		return string(append([]byte{0xff, 0xfe, 0xc3}, rapid.SliceOfN(rapid.Byte(), 0, 8).Draw(rt, "raw")...)), cls
	case "space":
		return " " + rapid.StringMatching(`[a-z ]{0,8}`).Draw(rt, "sp") + " ", cls
	default:
		return rapid.StringMatching(`[ -~]{1,20}`).Draw(rt, "ascii"), "ascii"
	}
}

// c52WrongPasses returns passphrases that differ from p (as byte strings).
func c52WrongPasses(rt *rapid.T, p string, max int) map[string]string {
	cands := map[string]string{
		"suffix-extended": p + "x",
		"nul-extended":    p + "\x00",
		"space-extended":  p + " ",
		"prefixed":        "x" + p,
		"case-upper":      strings.ToUpper(p),
		"case-lower":      strings.ToLower(p),
		"trimmed":         strings.TrimSpace(p),
		"empty":           "",
		"nfc-nfd":         strings.NewReplacer("\u00e9", "e\u0301", "e\u0301", "\u00e9", "\u00e4", "a\u0308", "\u00f6", "o\u0308", "\u00f1", "n\u0303", "\u00fc", "u\u0308").Replace(p),
		"fullwidth-ascii": strings.NewReplacer("\uff50", "p", "\uff41", "a", "\uff53", "s").Replace(p),
	}
	if len(p) > 0 {
		cands["prefix"] = p[:len(p)-1]
		cands["drop-first"] = p[1:]
		b := []byte(p)
		i := rapid.IntRange(0, len(b)-1).Draw(rt, "flipAt")
		b[i] ^= byte(1 << rapid.IntRange(0, 7).Draw(rt, "flipBit"))
		cands["bit-flipped"] = string(b)
		b2 := []byte(p)
		b2[len(b2)-1]++
		cands["last-char+1"] = string(b2)
	}
	names := make([]string, 0, len(cands))
	for k, v := range cands {
		if v != p {
			names = append(names, k)
		}
	}
	sort.Strings(names)
	out := map[string]string{}
	if len(names) > max {
		// keep a rapid-chosen subset
		start := rapid.IntRange(0, len(names)-1).Draw(rt, "wrongStart")
		for i := 0; i < max; i++ {
			n := names[(start+i)%len(names)]
			out[n] = cands[n]
		}
		return out
	}
	for _, n := range names {
		out[n] = cands[n]
	}
	return out
}

// ---- decrypt wrappers ------------------------------------------------------------------

type c52Outcome struct {
	key      *Key
	err      error
	panicked any
}

func c52Decrypt(keyjson []byte, pass string) (o c52Outcome) {
	defer func() {
		if r := recover(); r != nil {
			o = c52Outcome{panicked: r}
		}
	}()
	k, err := DecryptKey(keyjson, pass)
	return c52Outcome{key: k, err: err}
}

func c52GetKey(dir string, addr common.Address, file, pass string) (o c52Outcome) {
	defer func() {
		if r := recover(); r != nil {
			o = c52Outcome{panicked: r}
		}
	}()
	k, err := keyStorePassphrase{dir, veryLightScryptN, veryLightScryptP, true}.GetKey(addr, file, pass)
	return c52Outcome{key: k, err: err}
}

func c52SameKey(k *Key, d *big.Int, addr common.Address) bool {
	return k != nil && k.PrivateKey != nil && k.PrivateKey.D.Cmp(d) == 0 && k.Address == addr
}

// ---- corruptions ---------------------------------------------------------------------

func c52FlipHex(rt *rapid.T, s string) string {
	if len(s) == 0 {
		return "00"
	}
	i := rapid.IntRange(0, len(s)-1).Draw(rt, "nibbleAt")
	repl := "0123456789abcdef"
	c := repl[rapid.IntRange(0, 15).Draw(rt, "nibble")]
	if c == s[i] {
		c = repl[(strings.IndexByte(repl, s[i])+1)%16]
	}
	return s[:i] + string(c) + s[i+1:]
}

// c52Other draws a value from choices that differs from the current JSON number.
func c52Other(rt *rapid.T, cur any, choices []int, label string) int {
	c, _ := cur.(float64)
	var ok []int
	for _, v := range choices {
		if v != int(c) {
			ok = append(ok, v)
		}
	}
	return rapid.SampledFrom(ok).Draw(rt, label)
}

type c52Corruption struct {
	name      string
	mustError bool // decryption with the right passphrase must fail (field is covered by the MAC or feeds the KDF)
	ivOnly    bool // only the (unauthenticated) iv was changed
	data      []byte
}

// c52Corrupt applies one drawn corruption to a valid key file.
func c52Corrupt(rt *rapid.T, keyjson []byte) c52Corruption {
	var m map[string]any
	if err := json.Unmarshal(keyjson, &m); err != nil {
		rt.Fatalf("VERIF-HARNESS-BUG: key file does not parse: %v", err)
	}
	cr := m["crypto"].(map[string]any)
	kp := cr["kdfparams"].(map[string]any)
	cp := cr["cipherparams"].(map[string]any)
	c := c52Corruption{}
	c.name = rapid.SampledFrom([]string{"ciphertext-nibble", "mac-nibble", "iv-nibble", "salt-nibble", "address-nibble", "kdf-n", "kdf-p", "kdf-r",
		"kdf-dklen", "delete-field", "version", "cipher-name", "kdf-name", "raw-byte", "raw-byte", "mac-truncate", "ciphertext-extend"}).Draw(rt, "corruption")
	switch c.name {
	case "ciphertext-nibble":
		cr["ciphertext"] = c52FlipHex(rt, cr["ciphertext"].(string))
		c.mustError = true
	case "ciphertext-extend":
		cr["ciphertext"] = cr["ciphertext"].(string) + "00"
		c.mustError = true
	case "mac-nibble":
		cr["mac"] = c52FlipHex(rt, cr["mac"].(string))
		c.mustError = true
	case "mac-truncate":
		s := cr["mac"].(string)
		cr["mac"] = s[:2*rapid.IntRange(0, 31).Draw(rt, "macBytes")]
		c.mustError = true
	case "iv-nibble":
		cp["iv"] = c52FlipHex(rt, cp["iv"].(string))
		c.ivOnly = true
	case "salt-nibble":
		kp["salt"] = c52FlipHex(rt, kp["salt"].(string))
		c.mustError = true
	case "address-nibble":
		m["address"] = c52FlipHex(rt, m["address"].(string))
	case "kdf-n":
		kp["n"] = c52Other(rt, kp["n"], []int{4, 8, 64}, "n")
		c.mustError = true
	case "kdf-p":
		kp["p"] = c52Other(rt, kp["p"], []int{2, 3, 1}, "p")
		c.mustError = true
	case "kdf-r":
		kp["r"] = c52Other(rt, kp["r"], []int{1, 4, 16}, "r")
		c.mustError = true
	case "kdf-dklen":
		kp["dklen"] = rapid.SampledFrom([]int{64, 33, 31, 16, 0}).Draw(rt, "dklen")
		c.name = fmt.Sprintf("kdf-dklen-%v", kp["dklen"])
	case "delete-field":
		f := rapid.SampledFrom([]string{"address", "id", "version", "crypto", "cipher", "ciphertext", "cipherparams", "iv", "kdf", "kdfparams", "mac", "n", "r", "p", "dklen", "salt"}).Draw(rt, "field")
		c.name = "delete-" + f
		switch f {
		case "address", "id", "version", "crypto":
			delete(m, f)
		case "iv":
			delete(cp, f)
		case "n", "r", "p", "dklen", "salt":
			delete(kp, f)
		default:
			delete(cr, f)
		}
	case "version":
		m["version"] = rapid.SampledFrom([]any{2, 4, "3", "1", 0}).Draw(rt, "version")
		c.name = fmt.Sprintf("version-%v", m["version"])
	case "cipher-name":
		cr["cipher"] = rapid.SampledFrom([]string{"aes-128-cbc", "aes-256-ctr", "", "AES-128-CTR"}).Draw(rt, "cipher")
		c.mustError = true
	case "kdf-name":
		cr["kdf"] = rapid.SampledFrom([]string{"pbkdf2", "argon2", "", "Scrypt"}).Draw(rt, "kdf")
		c.name = "kdf-name-" + cr["kdf"].(string)
	case "raw-byte":
		data := append([]byte{}, keyjson...)
		i := rapid.IntRange(0, len(data)-1).Draw(rt, "rawAt")
		b := rapid.Byte().Draw(rt, "rawByte")
		if b == data[i] {
			b ^= 1
		}
		data[i] = b
		c.data = data
		// did it change nothing but the iv?
		var m2 map[string]any
		if json.Unmarshal(data, &m2) == nil {
			if cr2, ok := m2["crypto"].(map[string]any); ok {
				if cp2, ok := cr2["cipherparams"].(map[string]any); ok {
					iv2, _ := cp2["iv"].(string)
					if iv2 != cp["iv"].(string) {
						c.ivOnly = true
					}
				}
			}
		}
		return c
	}
	data, err := json.Marshal(m)
	if err != nil {
		rt.Fatalf("VERIF-HARNESS-BUG: marshal: %v", err)
	}
	c.data = data
	return c
}

// ---- main property ---------------------------------------------------------------------

func TestVerifC52EncryptDecrypt(t *testing.T) {
	st := vs.New("C52", t)
	dir := t.TempDir()
	vs.Check(t, 1, func(rt *rapid.T) {
		sc := st.Case()
		d, dClass := c52GenScalar(rt)
		var id uuid.UUID
		copy(id[:], rapid.SliceOfN(rapid.Byte(), 16, 16).Draw(rt, "uuid"))
		key := c52KeyFromScalar(rt, d, id)
		addr := key.Address
		pass, pClass := c52GenPass(rt)
		n, p := veryLightScryptN, veryLightScryptP
		paramClass := "scrypt-n2"
		switch rapid.SampledFrom([]string{"n2", "n2", "n2", "n2", "n2", "n2", "n16p2", "n4", "light"}).Draw(rt, "scryptClass") {
		case "n16p2":
			n, p, paramClass = 16, 2, "scrypt-n16p2"
		case "n4":
			n, p, paramClass = 4, 1, "scrypt-n4"
		case "light":
			if vs.Thorough() && rapid.IntRange(0, 5).Draw(rt, "reallyLight") == 0 {
				n, p, paramClass = LightScryptN, LightScryptP, "scrypt-light"
			}
		}
		light := paramClass == "scrypt-light"

		keyjson, err := EncryptKey(key, pass, n, p)
		if err != nil {
			rt.Fatalf("EncryptKey failed: %v", err)
		}
		if key.PrivateKey.D.Cmp(d) != 0 {
			rt.Fatalf("EncryptKey modified the key")
		}

		// (A) right passphrase: same key, address, UUID
		o := c52Decrypt(keyjson, pass)
		if o.panicked != nil {
			panic(o.panicked) // valid file, right passphrase: let it crash
		}
		if o.err != nil {
			rt.Fatalf("DecryptKey with the right passphrase failed: %v\n d=%x pass=%q\n file=%s", o.err, d, pass, keyjson)
		}
		if !c52SameKey(o.key, d, addr) {
			rt.Fatalf("DecryptKey returned another key: D=%x addr=%x, want D=%x addr=%x\n pass=%q file=%s", o.key.PrivateKey.D, o.key.Address, d, addr, pass, keyjson)
		}
		if o.key.Id != id {
			rt.Fatalf("DecryptKey returned UUID %v, want %v", o.key.Id, id)
		}
		if got := crypto.PubkeyToAddress(o.key.PrivateKey.PublicKey); got != addr {
			rt.Fatalf("decrypted key's public key maps to %x, want %x", got, addr)
		}

		// (B) independent recomputation of the file contents
		var f struct {
			Address string `json:"address"`
			ID      string `json:"id"`
			Version any    `json:"version"`
			Crypto  struct {
				Cipher       string `json:"cipher"`
				CipherText   string `json:"ciphertext"`
				CipherParams struct {
					IV string `json:"iv"`
				} `json:"cipherparams"`
				KDF       string `json:"kdf"`
				KDFParams struct {
					N, R, P, DKLen int
					Salt           string
				} `json:"kdfparams"`
				MAC string `json:"mac"`
			} `json:"crypto"`
		}
		if err := json.Unmarshal(keyjson, &f); err != nil {
			rt.Fatalf("key file is not valid JSON: %v", err)
		}
		if v, ok := f.Version.(float64); !ok || v != 3 {
			rt.Fatalf("key file version %v, want number 3", f.Version)
		}
		if f.Address != hex.EncodeToString(addr[:]) || f.ID != id.String() {
			rt.Fatalf("key file address/id %s/%s, want %x/%s", f.Address, f.ID, addr, id)
		}
		if f.Crypto.Cipher != "aes-128-ctr" || f.Crypto.KDF != "scrypt" {
			rt.Fatalf("key file cipher/kdf %s/%s", f.Crypto.Cipher, f.Crypto.KDF)
		}
		kp := f.Crypto.KDFParams
		if kp.N != n || kp.P != p || kp.R != 8 || kp.DKLen != 32 {
			rt.Fatalf("key file kdfparams n=%d r=%d p=%d dklen=%d, want n=%d r=8 p=%d dklen=32", kp.N, kp.R, kp.P, kp.DKLen, n, p)
		}
		salt, e1 := hex.DecodeString(kp.Salt)
		iv, e2 := hex.DecodeString(f.Crypto.CipherParams.IV)
		ct, e3 := hex.DecodeString(f.Crypto.CipherText)
		mac, e4 := hex.DecodeString(f.Crypto.MAC)
		if e1 != nil || e2 != nil || e3 != nil || e4 != nil || len(salt) != 32 || len(iv) != 16 || len(ct) != 32 || len(mac) != 32 {
			rt.Fatalf("key file hex fields malformed: salt %d iv %d ciphertext %d mac %d bytes", len(salt), len(iv), len(ct), len(mac))
		}
		dk, err := scrypt.Key([]byte(pass), salt, kp.N, kp.R, kp.P, kp.DKLen)
		if err != nil {
			rt.Fatalf("VERIF-HARNESS-BUG: scrypt: %v", err)
		}
		d32 := make([]byte, 32)
		d.FillBytes(d32)
		if want := c52CTR(dk[:16], iv, d32); !bytes.Equal(ct, want) {
			rt.Fatalf("ciphertext is not AES-128-CTR(dk[0:16], iv, key32)\n file %x\n want %x", ct, want)
		}
		if want := c52Keccak(dk[16:32], ct); !bytes.Equal(mac, want) {
			rt.Fatalf("mac is not keccak256(dk[16:32] ++ ciphertext)\n file %x\n want %x", mac, want)
		}

		// (C) wrong passphrases
		maxWrong := 8
		if light {
			maxWrong = 2
		}
		wrong := c52WrongPasses(rt, pass, maxWrong)
		wnames := make([]string, 0, len(wrong))
		for k := range wrong {
			wnames = append(wnames, k)
		}
		sort.Strings(wnames)
		for _, wn := range wnames {
			sc.Fault()
			o := c52Decrypt(keyjson, wrong[wn])
			if o.panicked != nil {
				panic(o.panicked)
			}
			if c52HMACKey(wrong[wn]) == c52HMACKey(pass) {
				// same effective KDF key: not another passphrase; it may decrypt, but only to the same key
				sc.Class("hmac-equivalent-passphrase")
				if o.err == nil && !c52SameKey(o.key, d, addr) {
					rt.Fatalf("HMAC-equivalent passphrase %q decrypts to a different key", wrong[wn])
				}
				continue
			}
			if o.err == nil {
				rt.Fatalf("DecryptKey accepted a wrong passphrase (%s): %q instead of %q", wn, wrong[wn], pass)
			}
			if !errors.Is(o.err, ErrDecrypt) {
				rt.Fatalf("DecryptKey with wrong passphrase (%s) returned %v, want ErrDecrypt", wn, o.err)
			}
			if o.key != nil {
				rt.Fatalf("DecryptKey returned a key together with an error")
			}
		}

		// (D) corruptions of the key file
		nCorr := 4
		if light {
			nCorr = 1
		}
		outside := false
		var corrNames []string
		file := filepath.Join(dir, "corrupted.json")
		for i := 0; i < nCorr; i++ {
			c := c52Corrupt(rt, keyjson)
			corrNames = append(corrNames, c.name)
			if !strings.HasPrefix(c.name, "ciphertext") {
				outside = true
			}
			sc.Fault()
			o := c52Decrypt(c.data, pass)
			res := "rejected"
			switch {
			case o.panicked != nil:
				// not covered by the statement: counted, not failed (see notes/C52.md)
				res = "panic"
			case o.err != nil:
				if o.key != nil {
					rt.Fatalf("DecryptKey returned a key together with an error (%s)", c.name)
				}
			case c52SameKey(o.key, d, addr):
				res = "same-key"
				if c.mustError {
					rt.Fatalf("corruption %s of an authenticated field was not detected\n file %s", c.name, c.data)
				}
			default:
				// a different key came out: only possible through the iv, which the v3 MAC does not cover
				if !c.ivOnly {
					rt.Fatalf("corruption %s silently yields a different key: D=%x addr=%x, want D=%x\n file %s", c.name, o.key.PrivateKey.D, o.key.Address, d, c.data)
				}
				res = "iv-different-key"
			}
			sc.Classf("corrupt:%s", res)
			// The path the KeyStore uses (address from the file's address field, as the account
			// cache reads it) never hands out a different key.
			if err := os.WriteFile(file, c.data, 0o600); err != nil {
				rt.Fatalf("VERIF-HARNESS-BUG: %v", err)
			}
			cacheAddr := addr
			var hdr struct {
				Address string `json:"address"`
			}
			if json.Unmarshal(c.data, &hdr) == nil && hdr.Address != "" {
				cacheAddr = common.HexToAddress(hdr.Address)
			}
			g := c52GetKey(dir, cacheAddr, file, pass)
			if g.panicked == nil && g.err == nil {
				if !c52SameKey(g.key, d, addr) || cacheAddr != addr {
					rt.Fatalf("GetKey(%x) on a corrupted file (%s) returned key D=%x addr=%x, original D=%x addr=%x\n file %s", cacheAddr, c.name, g.key.PrivateKey.D, g.key.Address, d, addr, c.data)
				}
				if c.mustError {
					rt.Fatalf("GetKey: corruption %s of an authenticated field was not detected", c.name)
				}
			}
			// corrupted file and wrong passphrase: never a key
			if i == 0 && len(wnames) > 0 && c52HMACKey(wrong[wnames[0]]) != c52HMACKey(pass) {
				w := c52Decrypt(c.data, wrong[wnames[0]])
				if w.panicked == nil && w.err == nil {
					rt.Fatalf("corrupted file (%s) decrypts with a wrong passphrase %q", c.name, wrong[wnames[0]])
				}
			}
		}

		nt := pClass == "multibyte" || outside
		sc.NonTrivial(nt, fmt.Sprintf("%x|%x|%s|%v", d, pass, paramClass, corrNames))
		sc.Class("pass=" + pClass)
		sc.Class("scalar=" + dClass)
		sc.Class(paramClass)
		for _, cn := range corrNames {
			sc.Class("mut=" + cn)
		}
		sc.Sample(nt, func() any {
			return map[string]any{"d": fmt.Sprintf("%x", d), "pass": fmt.Sprintf("%q", pass), "params": paramClass, "corruptions": corrNames, "wrong": wnames}
		})
	})
}

// TestVerifC52PBKDF2 decrypts key files written by the harness with the pbkdf2 KDF
// (the decrypt path supports them; geth itself only writes scrypt).
func TestVerifC52PBKDF2(t *testing.T) {
	st := vs.New("C52", t)
	vs.Check(t, 0.3, func(rt *rapid.T) {
		sc := st.Case()
		d, dClass := c52GenScalar(rt)
		var id uuid.UUID
		copy(id[:], rapid.SliceOfN(rapid.Byte(), 16, 16).Draw(rt, "uuid"))
		key := c52KeyFromScalar(rt, d, id)
		pass, pClass := c52GenPass(rt)
		salt := rapid.SliceOfN(rapid.Byte(), 0, 40).Draw(rt, "salt")
		iv := rapid.SliceOfN(rapid.Byte(), 16, 16).Draw(rt, "iv")
		c := rapid.SampledFrom([]int{1, 2, 7, 64}).Draw(rt, "c")
		dkLen := rapid.SampledFrom([]int{32, 32, 48, 64}).Draw(rt, "dklen")
		dk := c52PBKDF2([]byte(pass), salt, c, dkLen)
		d32 := make([]byte, 32)
		d.FillBytes(d32)
		ct := c52CTR(dk[:16], iv, d32)
		mac := c52Keccak(dk[16:32], ct)
		file := map[string]any{
			"address": hex.EncodeToString(key.Address[:]), "id": id.String(), "version": 3,
			"crypto": map[string]any{
				"cipher": "aes-128-ctr", "ciphertext": hex.EncodeToString(ct), "cipherparams": map[string]any{"iv": hex.EncodeToString(iv)},
				"kdf": "pbkdf2", "kdfparams": map[string]any{"c": c, "dklen": dkLen, "prf": "hmac-sha256", "salt": hex.EncodeToString(salt)},
				"mac": hex.EncodeToString(mac),
			},
		}
		keyjson, _ := json.Marshal(file)
		k, err := DecryptKey(keyjson, pass)
		if err != nil {
			rt.Fatalf("DecryptKey of a pbkdf2 key file failed: %v\n file %s pass %q", err, keyjson, pass)
		}
		if !c52SameKey(k, d, key.Address) || k.Id != id {
			rt.Fatalf("pbkdf2 key file decrypted to D=%x, want %x", k.PrivateKey.D, d)
		}
		wrong := c52WrongPasses(rt, pass, 3)
		wnames := make([]string, 0, len(wrong))
		for n := range wrong {
			wnames = append(wnames, n)
		}
		sort.Strings(wnames)
		for _, wn := range wnames {
			sc.Fault()
			if c52HMACKey(wrong[wn]) == c52HMACKey(pass) {
				sc.Class("hmac-equivalent-passphrase")
				continue
			}
			if k, err := DecryptKey(keyjson, wrong[wn]); !errors.Is(err, ErrDecrypt) || k != nil {
				rt.Fatalf("pbkdf2 key file with wrong passphrase (%s): key=%v err=%v, want ErrDecrypt", wn, k, err)
			}
		}
		nt := pClass == "multibyte"
		sc.NonTrivial(nt, fmt.Sprintf("pbkdf2|%x|%x|%x|%d|%d", d, pass, salt, c, dkLen))
		sc.Class("pbkdf2 pass=" + pClass)
		sc.Class("pbkdf2 scalar=" + dClass)
	})
}

// ---- KeyStore API -----------------------------------------------------------------------

// c52NewKS opens a keystore on dir with the file-system watcher disabled (as on
// platforms without fsnotify support): no goroutines, no inotify instances, the
// directory is scanned on first use and afterwards updated by the API calls.
func c52NewKS(dir string) *KeyStore {
	ks := NewKeyStore(dir, veryLightScryptN, veryLightScryptP)
	ks.cache.mu.Lock()
	ks.cache.watcher.starting = true
	ks.cache.mu.Unlock()
	return ks
}

type c52Acct struct {
	d    *big.Int
	pass string
	acct accounts.Account
}

func c52CheckSig(rt *rapid.T, what string, hash, sig []byte, addr common.Address) {
	if len(sig) != 65 {
		rt.Fatalf("%s: signature of %d bytes", what, len(sig))
	}
	pub, err := crypto.SigToPub(hash, sig)
	if err != nil {
		rt.Fatalf("%s: signature does not recover: %v", what, err)
	}
	if got := crypto.PubkeyToAddress(*pub); got != addr {
		rt.Fatalf("%s: signature recovers to %x, want %x", what, got, addr)
	}
}

func TestVerifC52KeyStore(t *testing.T) {
	st := vs.New("C52", t)
	vs.Check(t, 0.2, func(rt *rapid.T) {
		sc := st.Case()
		dir, err := os.MkdirTemp("", "c52ks")
		if err != nil {
			rt.Fatalf("VERIF-HARNESS-BUG: %v", err)
		}
		defer os.RemoveAll(dir)
		ks := c52NewKS(dir)
		model := map[common.Address]*c52Acct{}
		addrs := func() []common.Address {
			out := make([]common.Address, 0, len(model))
			for a := range model {
				out = append(out, a)
			}
			sort.Slice(out, func(i, j int) bool { return bytes.Compare(out[i][:], out[j][:]) < 0 })
			return out
		}
		pick := func() *c52Acct {
			as := addrs()
			if len(as) == 0 {
				return nil
			}
			return model[as[rapid.IntRange(0, len(as)-1).Draw(rt, "acct")]]
		}
		multibyte := false
		var opsLog []string
		nOps := rapid.IntRange(3, 14).Draw(rt, "nOps")
		for i := 0; i < nOps; i++ {
			op := rapid.SampledFrom([]string{"import", "import", "export", "update", "sign", "unlock-sign", "delete-wrong", "delete", "reopen", "new-account", "transfer", "find"}).Draw(rt, "op")
			if len(model) == 0 && op != "new-account" {
				op = "import"
			}
			opsLog = append(opsLog, op)
			sc.Class("op=" + op)
			switch op {
			case "import":
				d := big.NewInt(int64(rapid.IntRange(1, 12).Draw(rt, "poolScalar")))
				if rapid.Bool().Draw(rt, "freshScalar") {
					d, _ = c52GenScalar(rt)
				}
				pass, pc := c52GenPass(rt)
				multibyte = multibyte || pc == "multibyte"
				key := c52KeyFromScalar(rt, d, uuid.UUID{})
				priv := key.PrivateKey
				a, err := ks.ImportECDSA(priv, pass)
				if _, exists := model[key.Address]; exists {
					if !errors.Is(err, ErrAccountAlreadyExists) {
						rt.Fatalf("ImportECDSA of an existing account: err=%v, want ErrAccountAlreadyExists", err)
					}
					continue
				}
				if err != nil {
					rt.Fatalf("ImportECDSA: %v", err)
				}
				if a.Address != key.Address {
					rt.Fatalf("ImportECDSA returned address %x, want %x", a.Address, key.Address)
				}
				if priv.D.Cmp(d) != 0 {
					rt.Fatalf("ImportECDSA modified the caller's key")
				}
				model[a.Address] = &c52Acct{d: d, pass: pass, acct: a}
			case "new-account":
				pass, pc := c52GenPass(rt)
				multibyte = multibyte || pc == "multibyte"
				a, err := ks.NewAccount(pass)
				if err != nil {
					rt.Fatalf("NewAccount: %v", err)
				}
				kj, err := ks.Export(a, pass, pass)
				if err != nil {
					rt.Fatalf("Export of a new account: %v", err)
				}
				k, err := DecryptKey(kj, pass)
				if err != nil || k.Address != a.Address {
					rt.Fatalf("new account does not decrypt to its address: %v", err)
				}
				model[a.Address] = &c52Acct{d: new(big.Int).Set(k.PrivateKey.D), pass: pass, acct: a}
			case "export":
				m := pick()
				newPass, _ := c52GenPass(rt)
				kj, err := ks.Export(m.acct, m.pass, newPass)
				if err != nil {
					rt.Fatalf("Export with the right passphrase: %v", err)
				}
				k, err := DecryptKey(kj, newPass)
				if err != nil || !c52SameKey(k, m.d, m.acct.Address) {
					rt.Fatalf("exported key does not decrypt to the stored key: err=%v", err)
				}
				if c52HMACKey(newPass) != c52HMACKey(m.pass) {
					if _, err := DecryptKey(kj, m.pass); !errors.Is(err, ErrDecrypt) {
						rt.Fatalf("exported key decrypts with the old passphrase: %v", err)
					}
				}
				if _, err := ks.Export(m.acct, m.pass+"x", newPass); !errors.Is(err, ErrDecrypt) {
					rt.Fatalf("Export with a wrong passphrase: err=%v, want ErrDecrypt", err)
				}
			case "update":
				m := pick()
				newPass, pc := c52GenPass(rt)
				multibyte = multibyte || pc == "multibyte"
				if err := ks.Update(m.acct, m.pass+"#", newPass); !errors.Is(err, ErrDecrypt) {
					rt.Fatalf("Update with a wrong passphrase: err=%v, want ErrDecrypt", err)
				}
				if err := ks.Update(m.acct, m.pass, newPass); err != nil {
					rt.Fatalf("Update: %v", err)
				}
				if c52HMACKey(newPass) != c52HMACKey(m.pass) {
					if _, err := ks.Export(m.acct, m.pass, "x"); !errors.Is(err, ErrDecrypt) {
						rt.Fatalf("old passphrase still works after Update: err=%v", err)
					}
				}
				m.pass = newPass
			case "sign":
				m := pick()
				hash := rapid.SliceOfN(rapid.Byte(), 32, 32).Draw(rt, "hash")
				sig, err := ks.SignHashWithPassphrase(m.acct, m.pass, hash)
				if err != nil {
					rt.Fatalf("SignHashWithPassphrase: %v", err)
				}
				c52CheckSig(rt, "SignHashWithPassphrase", hash, sig, m.acct.Address)
				if _, err := ks.SignHashWithPassphrase(m.acct, "wrong"+m.pass, hash); !errors.Is(err, ErrDecrypt) {
					rt.Fatalf("SignHashWithPassphrase with a wrong passphrase: err=%v", err)
				}
			case "unlock-sign":
				m := pick()
				hash := rapid.SliceOfN(rapid.Byte(), 32, 32).Draw(rt, "hash")
				if err := ks.Unlock(m.acct, m.pass+"?"); !errors.Is(err, ErrDecrypt) {
					rt.Fatalf("Unlock with a wrong passphrase: err=%v", err)
				}
				if _, err := ks.SignHash(m.acct, hash); !errors.Is(err, ErrLocked) {
					rt.Fatalf("SignHash on a locked account: err=%v, want ErrLocked", err)
				}
				if err := ks.Unlock(m.acct, m.pass); err != nil {
					rt.Fatalf("Unlock: %v", err)
				}
				sig, err := ks.SignHash(m.acct, hash)
				if err != nil {
					rt.Fatalf("SignHash on an unlocked account: %v", err)
				}
				c52CheckSig(rt, "SignHash", hash, sig, m.acct.Address)
				if err := ks.Lock(m.acct.Address); err != nil {
					rt.Fatalf("Lock: %v", err)
				}
				if _, err := ks.SignHash(m.acct, hash); !errors.Is(err, ErrLocked) {
					rt.Fatalf("SignHash after Lock: err=%v, want ErrLocked", err)
				}
			case "delete-wrong":
				m := pick()
				if err := ks.Delete(m.acct, m.pass+"!"); !errors.Is(err, ErrDecrypt) {
					rt.Fatalf("Delete with a wrong passphrase: err=%v", err)
				}
				if _, err := os.Stat(m.acct.URL.Path); err != nil {
					rt.Fatalf("key file gone after a refused Delete: %v", err)
				}
				if !ks.HasAddress(m.acct.Address) {
					rt.Fatalf("account gone after a refused Delete")
				}
			case "delete":
				m := pick()
				if err := ks.Delete(m.acct, m.pass); err != nil {
					rt.Fatalf("Delete: %v", err)
				}
				if _, err := os.Stat(m.acct.URL.Path); !os.IsNotExist(err) {
					rt.Fatalf("key file still present after Delete: %v", err)
				}
				if ks.HasAddress(m.acct.Address) {
					rt.Fatalf("account still listed after Delete")
				}
				delete(model, m.acct.Address)
			case "find":
				m := pick()
				a, err := ks.Find(accounts.Account{Address: m.acct.Address})
				if err != nil || a.URL != m.acct.URL {
					rt.Fatalf("Find by address: %v %v, want %v", a.URL, err, m.acct.URL)
				}
				a, err = ks.Find(accounts.Account{URL: accounts.URL{Scheme: KeyStoreScheme, Path: filepath.Base(m.acct.URL.Path)}})
				if err != nil || a.Address != m.acct.Address {
					rt.Fatalf("Find by file name: %x %v, want %x", a.Address, err, m.acct.Address)
				}
			case "reopen":
				// a fresh KeyStore on the same directory sees exactly the stored accounts
				ks = c52NewKS(dir)
				got := ks.Accounts()
				if len(got) != len(model) {
					rt.Fatalf("reopened keystore lists %d accounts, want %d", len(got), len(model))
				}
				for _, a := range got {
					m, ok := model[a.Address]
					if !ok || a.URL.Path != m.acct.URL.Path {
						rt.Fatalf("reopened keystore lists unknown account %x at %s", a.Address, a.URL.Path)
					}
					kj, err := ks.Export(a, m.pass, "tmp")
					if err != nil {
						rt.Fatalf("Export after reopen: %v", err)
					}
					if k, err := DecryptKey(kj, "tmp"); err != nil || !c52SameKey(k, m.d, a.Address) {
						rt.Fatalf("key changed across reopen: %v", err)
					}
				}
			case "transfer":
				// Export from this keystore, Import into a second one
				m := pick()
				dir2, err := os.MkdirTemp("", "c52ks2")
				if err != nil {
					rt.Fatalf("VERIF-HARNESS-BUG: %v", err)
				}
				ks2 := c52NewKS(dir2)
				transit, _ := c52GenPass(rt)
				final, _ := c52GenPass(rt)
				kj, err := ks.Export(m.acct, m.pass, transit)
				if err != nil {
					rt.Fatalf("Export: %v", err)
				}
				if _, err := ks2.Import(kj, transit+"z", final); !errors.Is(err, ErrDecrypt) {
					rt.Fatalf("Import with a wrong passphrase: err=%v", err)
				}
				a2, err := ks2.Import(kj, transit, final)
				if err != nil || a2.Address != m.acct.Address {
					rt.Fatalf("Import: %x %v, want %x", a2.Address, err, m.acct.Address)
				}
				if _, err := ks2.Import(kj, transit, final); !errors.Is(err, ErrAccountAlreadyExists) {
					rt.Fatalf("second Import: err=%v, want ErrAccountAlreadyExists", err)
				}
				hash := rapid.SliceOfN(rapid.Byte(), 32, 32).Draw(rt, "hash")
				sig, err := ks2.SignHashWithPassphrase(a2, final, hash)
				if err != nil {
					rt.Fatalf("signing with the imported key: %v", err)
				}
				c52CheckSig(rt, "imported key", hash, sig, m.acct.Address)
				os.RemoveAll(dir2)
			}
		}

		// swap attack: the file of account A is replaced by B's key file carrying A's address.
		swapped := false
		if as := addrs(); len(as) >= 2 && rapid.Bool().Draw(rt, "swapAttack") {
			a, b := model[as[0]], model[as[1]]
			raw, err := os.ReadFile(b.acct.URL.Path)
			if err != nil {
				rt.Fatalf("VERIF-HARNESS-BUG: %v", err)
			}
			var m map[string]any
			if err := json.Unmarshal(raw, &m); err != nil {
				rt.Fatalf("stored key file does not parse: %v", err)
			}
			m["address"] = hex.EncodeToString(a.acct.Address[:])
			forged, _ := json.Marshal(m)
			if err := os.WriteFile(a.acct.URL.Path, forged, 0o600); err != nil {
				rt.Fatalf("VERIF-HARNESS-BUG: %v", err)
			}
			ks = c52NewKS(dir)
			sc.Fault()
			kj, err := ks.Export(accounts.Account{Address: a.acct.Address, URL: a.acct.URL}, b.pass, "x")
			if err == nil {
				k, _ := DecryptKey(kj, "x")
				rt.Fatalf("swap attack: account %x hands out the key of %x (%v)", a.acct.Address, b.acct.Address, k != nil)
			}
			if err := ks.Unlock(accounts.Account{Address: a.acct.Address, URL: a.acct.URL}, b.pass); err == nil {
				rt.Fatalf("swap attack: Unlock(%x) succeeded with the key of %x", a.acct.Address, b.acct.Address)
			}
			swapped = true
			sc.Class("swap-attack")
		}
		nt := multibyte || swapped
		sc.NonTrivial(nt, fmt.Sprintf("ks|%v|%d|%v", opsLog, len(model), addrs()))
		sc.Sample(nt, func() any { return map[string]any{"ops": opsLog, "accounts": len(model), "swap": swapped} })
	})
}
