//go:build verif

package trie

// C09: range proofs accept exactly the true ranges.
//
// Completeness: for every generated trie, every honest (start key, contiguous run,
// Prove(start)+Prove(last)) is accepted and the "more" flag says whether keys beyond
// the run exist. Soundness: whatever is done to the run, the start key, the root
// and the bag of proof nodes (genuine nodes under their hash, omissions, foreign
// nodes), an accepted input is exactly the trie's content over [start, last] with
// the right "more" flag. No input panics.

import (
	"bytes"
	"fmt"
	"hash/fnv"
	mrand "math/rand"
	"runtime"
	"runtime/debug"
	"strings"
	"testing"

	"github.com/ethereum/go-ethereum/ethdb"
	"github.com/ethereum/go-ethereum/ethdb/memorydb"
	"pgregory.net/rapid"
	vs "verif.local/kit/stat"
)

// c09Input is one argument tuple of VerifyRangeProof together with the world whose
// root is claimed.
type c09Input struct {
	W       *pgWorld
	First   []byte
	Keys    [][]byte
	Vals    [][]byte
	DB      *memorydb.Database // honest: the database Prove filled
	Nodes   [][]byte           // tampered: node blobs, each stored under its hash
	NoProof bool
	I, J    int // honest run indexes in W.Ents (J == I-1: empty run)
	Kind    string
	Tags    []string
}

func (in *c09Input) clone() *c09Input {
	out := *in
	out.First = append([]byte(nil), in.First...)
	if in.First == nil {
		out.First = nil
	}
	out.Keys, out.Vals = nil, nil
	for _, k := range in.Keys {
		out.Keys = append(out.Keys, append([]byte{}, k...))
	}
	for _, v := range in.Vals {
		out.Vals = append(out.Vals, append([]byte{}, v...))
	}
	out.Nodes = nil
	if in.DB != nil {
		out.Nodes = pgBlobs(in.DB)
	} else {
		out.Nodes = append(out.Nodes, in.Nodes...)
	}
	out.DB = nil
	out.Tags = append([]string(nil), in.Tags...)
	return &out
}

func (in *c09Input) String() string {
	var sb strings.Builder
	fmt.Fprintf(&sb, "world=%s n=%d keyLen=%d reopened=%v root=%x kind=%s run=[%d..%d] tags=%v noproof=%v first=%x",
		in.W.Class, len(in.W.Ents), in.W.KeyLen, in.W.Reopened, in.W.Root, in.Kind, in.I, in.J, in.Tags, in.NoProof, in.First)
	fmt.Fprintf(&sb, " keys(%d)=[", len(in.Keys))
	for i, k := range in.Keys {
		if i >= 12 {
			sb.WriteString(" ...")
			break
		}
		v := []byte(nil)
		if i < len(in.Vals) {
			v = in.Vals[i]
		}
		fmt.Fprintf(&sb, " %x=%x", k, v)
	}
	sb.WriteString(" ]")
	if len(in.W.Ents) <= 12 {
		sb.WriteString(" trie={")
		for _, e := range in.W.Ents {
			fmt.Fprintf(&sb, " %x=%x", e.K, e.V)
		}
		sb.WriteString(" }")
	}
	n := len(in.Nodes)
	if in.DB != nil {
		n = in.DB.Len()
	}
	fmt.Fprintf(&sb, " proofnodes=%d", n)
	return sb.String()
}

// c09Truth evaluates the model. inDomain: the soundness oracle is defined (start
// key of the trie's key length, or no proof at all). truthful: (first, keys, vals)
// is exactly the trie's content over the covered interval.
func c09Truth(in *c09Input) (inDomain, truthful, wantMore bool) {
	w := in.W
	if len(in.Keys) != len(in.Vals) {
		return true, false, false
	}
	same := func(ents []pgKV) bool {
		if len(ents) != len(in.Keys) {
			return false
		}
		for i, e := range ents {
			if !bytes.Equal(e.K, in.Keys[i]) || !bytes.Equal(e.V, in.Vals[i]) {
				return false
			}
		}
		return true
	}
	if in.NoProof {
		return true, same(w.Ents), false
	}
	if len(in.First) != w.KeyLen {
		return false, false, false
	}
	if len(in.Keys) == 0 {
		return true, w.pgSearchGE(in.First) == len(w.Ents), false
	}
	last := in.Keys[len(in.Keys)-1]
	lo, hi := w.pgSearchGE(in.First), w.pgSearchGT(last)
	if lo > hi {
		return true, false, false
	}
	return true, same(w.Ents[lo:hi]), hi < len(w.Ents)
}

// c09PassesPrechecks reports whether the input survives the cheap syntactic checks
// of the verifier, i.e. whether the proof machinery itself is exercised.
func c09PassesPrechecks(in *c09Input) bool {
	if len(in.Keys) != len(in.Vals) {
		return false
	}
	for i := range in.Keys {
		if len(in.Vals[i]) == 0 {
			return false
		}
		if i > 0 && (bytes.Compare(in.Keys[i-1], in.Keys[i]) >= 0 || bytes.HasPrefix(in.Keys[i], in.Keys[i-1])) {
			return false
		}
	}
	if in.NoProof || len(in.Keys) == 0 {
		return true
	}
	if bytes.Compare(in.First, in.Keys[0]) > 0 {
		return false
	}
	last := in.Keys[len(in.Keys)-1]
	if len(in.Keys) == 1 && bytes.Equal(in.First, last) {
		return true
	}
	return len(in.First) == len(last)
}

func c09Mode(in *c09Input) string {
	switch {
	case in.NoProof:
		return "noproof"
	case len(in.Keys) == 0:
		return "empty"
	case len(in.Keys) == 1 && bytes.Equal(in.First, in.Keys[0]):
		return "single"
	}
	return "twoedge"
}

// c09Call runs the verifier, turning a panic into a report.
func c09Call(in *c09Input) (more bool, err error, panicked string) {
	var proof ethdb.KeyValueReader // must stay an untyped nil for "no proof"
	if !in.NoProof {
		if in.DB != nil {
			proof = in.DB
		} else {
			proof = pgProofDB(in.Nodes)
		}
	}
	defer func() {
		if r := recover(); r != nil {
			panicked = fmt.Sprintf("%v\n%s", r, debug.Stack())
		}
	}()
	more, err = VerifyRangeProof(in.W.Root, in.First, in.Keys, in.Vals, proof)
	return more, err, ""
}

// c09Check evaluates one input against the oracle and records statistics.
func c09Check(t pgFataler, st *vs.S, in *c09Input, honest bool) {
	c := st.Case()
	inDomain, truthful, wantMore := c09Truth(in)
	more, err, panicked := c09Call(in)
	if panicked != "" {
		t.Fatalf("VerifyRangeProof panicked: %s\ninput: %s", panicked, in)
	}
	mode := c09Mode(in)
	desc := c09Descriptor(in)
	if honest {
		if !inDomain || !truthful {
			t.Fatalf("VERIF-HARNESS-BUG: honest case is not truthful by the model: %s", in)
		}
		if err != nil {
			t.Fatalf("honest range proof rejected: %v\ninput: %s", err, in)
		}
		if more != wantMore {
			t.Fatalf("honest range proof: more=%v, but trie holds keys beyond the run: %v\ninput: %s", more, wantMore, in)
		}
		inner := 0
		for _, k := range in.Keys {
			if bytes.Compare(k, in.First) > 0 && bytes.Compare(k, in.Keys[len(in.Keys)-1]) < 0 {
				inner++
			}
		}
		nt := mode == "twoedge" && inner >= 1
		c.Classf("H:%s:%s", mode, in.Kind)
		c.Classf("W:%s", strings.SplitN(in.W.Class, "/", 2)[0])
		c.NonTrivial(nt, desc)
		c.Sample(nt, func() any { return c09Render(in, more, err) })
		return
	}
	c.Fault()
	if err == nil && inDomain {
		if !truthful {
			t.Fatalf("forged range accepted: the run is not the trie's content over [first,last]\ninput: %s", in)
		}
		if more != wantMore {
			t.Fatalf("tampered-but-true range accepted with more=%v, model says %v\ninput: %s", more, wantMore, in)
		}
	}
	deep := c09PassesPrechecks(in)
	for _, tag := range in.Tags {
		c.Classf("T:%s", tag)
	}
	switch {
	case !inDomain:
		c.Class("T-result:offdomain(no-panic only)")
	case err == nil:
		c.Class("T-result:accepted(true range)")
	case truthful:
		c.Class("T-result:rejected(true range, proof insufficient)")
	default:
		c.Class("T-result:rejected(false range)")
	}
	if deep {
		c.Classf("T-deep:%s", mode)
	} else {
		c.Class("T-shallow")
	}
	c.NonTrivial(deep, desc)
	c.Sample(deep, func() any { return c09Render(in, more, err) })
}

func c09Descriptor(in *c09Input) string {
	h := fnv.New64a()
	for i, k := range in.Keys {
		h.Write(k)
		h.Write([]byte{0xfe})
		if i < len(in.Vals) {
			h.Write(in.Vals[i])
		}
		h.Write([]byte{0xff})
	}
	n := len(in.Nodes)
	if in.DB != nil {
		n = in.DB.Len()
	}
	return fmt.Sprintf("%x|%x|%d/%d|%x|%d|%v|%v", in.W.Root[:8], in.First, len(in.Keys), len(in.Vals), h.Sum64(), n, in.NoProof, in.Tags)
}

func c09Render(in *c09Input, more bool, err error) any {
	m := map[string]any{
		"world": in.W.Class, "entries": len(in.W.Ents), "keyLen": in.W.KeyLen, "kind": in.Kind, "run": []int{in.I, in.J},
		"first": fmt.Sprintf("%x", in.First), "keys": len(in.Keys), "tags": in.Tags, "mode": c09Mode(in), "more": more,
	}
	if err != nil {
		m["err"] = err.Error()
	}
	return m
}

var c09FirstKinds = []string{"exact", "between", "zero", "prev+1"}
var c09EmptyKinds = []string{"last+1", "max", "beyond"}

// c09Honest builds the honest input for the run Ents[i..j]. i == len(Ents), j == i-1
// is the empty run behind the last entry. ok=false: the kind does not apply here.
func c09Honest(t pgFataler, w *pgWorld, i, j int, kind string, sel int) (in *c09Input, ok bool) {
	n := len(w.Ents)
	in = &c09Input{W: w, I: i, J: j, Kind: kind}
	zero := make([]byte, w.KeyLen)
	maxKey := bytes.Repeat([]byte{0xff}, w.KeyLen)
	if j < i { // empty run
		if i != n {
			return nil, false
		}
		var lastK []byte
		if n > 0 {
			lastK = w.Ents[n-1].K
		}
		switch kind {
		case "last+1":
			if lastK == nil {
				return nil, false
			}
			in.First = pgInc(lastK)
		case "max":
			in.First = maxKey
		case "beyond":
			in.First = pgBetween(lastK, maxKey, sel)
		default:
			return nil, false
		}
		if in.First == nil || (lastK != nil && bytes.Compare(in.First, lastK) <= 0) {
			return nil, false
		}
		db, err := pgProve(w.Tr, in.First)
		if err != nil {
			t.Fatalf("Prove(%x) failed: %v", in.First, err)
		}
		in.DB = db
		return in, true
	}
	in.Keys, in.Vals = pgRun(w.Ents[i : j+1])
	switch kind {
	case "noproof":
		if i != 0 || j != n-1 {
			return nil, false
		}
		in.NoProof = true
		if sel%2 == 0 {
			in.First = zero
		}
		return in, true
	case "exact":
		in.First = append([]byte{}, w.Ents[i].K...)
	case "between":
		var lo []byte
		if i > 0 {
			lo = w.Ents[i-1].K
		}
		in.First = pgBetween(lo, w.Ents[i].K, sel)
	case "zero":
		if i != 0 {
			return nil, false
		}
		in.First = zero
	case "prev+1":
		if i == 0 {
			return nil, false
		}
		in.First = pgInc(w.Ents[i-1].K)
	default:
		return nil, false
	}
	if in.First == nil {
		return nil, false
	}
	db, err := pgProve(w.Tr, in.First, in.Keys[len(in.Keys)-1])
	if err != nil {
		t.Fatalf("Prove failed: %v (first=%x last=%x)", err, in.First, in.Keys[len(in.Keys)-1])
	}
	in.DB = db
	return in, true
}

var c09Ops = []string{
	"dropEntry", "insertEntry", "alterKey", "alterVal", "neighbourVal", "emptyVal", "swap", "swapVals", "dupKey",
	"shiftWindow", "extendRun", "keyLen", "lenMismatch", "firstGreater", "firstLower", "firstLen",
	"dropNodes", "addForeign", "bloat", "nilProof", "emptied", "wrongRoot", "otherProof",
}

// c09Tamper applies one named tampering to in (in place). Returns false if it does
// not apply to this input.
func c09Tamper(t pgFataler, in *c09Input, op string, a, b *pgWorld, ch pgChooser, rnd *mrand.Rand) (applied bool) {
	defer func() {
		if r := recover(); r != nil {
			// Only the harness's own slips (runtime errors, math/rand argument panics) are
			// converted; rapid signals "fuzz input exhausted" and Fatalf through panics of
			// its own (unexported) types, which must propagate untouched.
			_, isRuntime := r.(runtime.Error)
			_, isString := r.(string)
			if !isRuntime && !isString {
				panic(r)
			}
			t.Fatalf("VERIF-HARNESS-BUG: tampering %q panicked: %v\n%s", op, r, debug.Stack())
		}
	}()
	n := len(in.Keys)
	kl := in.W.KeyLen
	maxKey := bytes.Repeat([]byte{0xff}, kl)
	randVal := func() []byte {
		v := make([]byte, 1+rnd.Intn(40))
		rnd.Read(v)
		return v
	}
	pickIdx := func() int { // bias towards the edges of the run
		switch ch.Intn(4) {
		case 0:
			return 0
		case 1:
			return n - 1
		}
		return ch.Intn(n)
	}
	// neighbours of position p (insert position or index), for order-preserving keys
	lower := func(p int) []byte {
		if p > 0 && p-1 < len(in.Keys) && len(in.Keys[p-1]) == kl {
			return in.Keys[p-1]
		}
		if len(in.First) == kl {
			return pgDec(in.First) // may be nil: "below zero"
		}
		return nil
	}
	upper := func(p int) []byte {
		if p < len(in.Keys) && len(in.Keys[p]) == kl {
			return in.Keys[p]
		}
		return maxKey
	}
	entryOps := map[string]bool{"dropEntry": true, "insertEntry": true, "alterKey": true, "alterVal": true, "neighbourVal": true,
		"emptyVal": true, "swap": true, "swapVals": true, "dupKey": true, "extendRun": true, "keyLen": true}
	if entryOps[op] && len(in.Vals) != n {
		return false // after a length mismatch the lists are no longer paired
	}
	switch op {
	case "dropEntry":
		if n == 0 {
			return false
		}
		i := pickIdx()
		in.Keys = append(in.Keys[:i:i], in.Keys[i+1:]...)
		in.Vals = append(in.Vals[:i:i], in.Vals[i+1:]...)
	case "insertEntry":
		if n != len(in.Vals) {
			return false
		}
		p := ch.Intn(n + 1)
		k := pgBetween(lower(p), upper(p), ch.Intn(3))
		if k == nil {
			return false
		}
		in.Keys = append(in.Keys[:p:p], append([][]byte{k}, in.Keys[p:]...)...)
		in.Vals = append(in.Vals[:p:p], append([][]byte{randVal()}, in.Vals[p:]...)...)
	case "alterKey":
		if n == 0 {
			return false
		}
		i := pickIdx()
		if ch.Intn(2) == 0 && len(in.Keys[i]) > 0 {
			in.Keys[i][rnd.Intn(len(in.Keys[i]))] ^= byte(1 << uint(rnd.Intn(8)))
		} else {
			k := pgBetween(lower(i), upper(i+1), ch.Intn(3))
			if k == nil || bytes.Equal(k, in.Keys[i]) {
				return false
			}
			in.Keys[i] = k
		}
	case "alterVal":
		if len(in.Vals) == 0 {
			return false
		}
		i := ch.Intn(len(in.Vals))
		v := in.Vals[i]
		switch m := ch.Intn(3); {
		case m == 0 && len(v) > 0:
			v[rnd.Intn(len(v))] ^= byte(1 << uint(rnd.Intn(8)))
		case m == 1 && len(v) > 1:
			in.Vals[i] = v[:len(v)-1]
		default:
			in.Vals[i] = append(v, byte(rnd.Intn(256)))
		}
	case "neighbourVal":
		if len(in.Vals) == 0 || len(in.W.Ents) == 0 {
			return false
		}
		i := ch.Intn(len(in.Vals))
		in.Vals[i] = append([]byte{}, in.W.Ents[ch.Intn(len(in.W.Ents))].V...)
	case "emptyVal":
		if len(in.Vals) == 0 {
			return false
		}
		i := ch.Intn(len(in.Vals))
		if ch.Intn(2) == 0 {
			in.Vals[i] = nil
		} else {
			in.Vals[i] = []byte{}
		}
	case "swap", "swapVals":
		if n < 2 || len(in.Vals) != n {
			return false
		}
		i := ch.Intn(n)
		j := ch.Intn(n - 1)
		if j >= i {
			j++
		}
		if op == "swap" {
			in.Keys[i], in.Keys[j] = in.Keys[j], in.Keys[i]
		}
		in.Vals[i], in.Vals[j] = in.Vals[j], in.Vals[i]
	case "dupKey":
		if n == 0 || len(in.Vals) != n {
			return false
		}
		i := pickIdx()
		in.Keys = append(in.Keys[:i+1:i+1], in.Keys[i:]...)
		in.Vals = append(in.Vals[:i+1:i+1], in.Vals[i:]...)
	case "shiftWindow":
		w := in.W
		d := 1 - 2*ch.Intn(2)
		ni, nj := in.I+d, in.J+d
		if ni < 0 || nj >= len(w.Ents) || nj < ni {
			return false
		}
		in.Keys, in.Vals = pgRun(w.Ents[ni : nj+1])
		in.I, in.J = ni, nj
		if ch.Intn(2) == 0 {
			in.First = append([]byte{}, in.Keys[0]...)
		}
	case "extendRun":
		w := in.W
		if in.J+1 >= len(w.Ents) || n != len(in.Vals) {
			return false
		}
		e := w.Ents[in.J+1]
		in.Keys = append(in.Keys, append([]byte{}, e.K...))
		in.Vals = append(in.Vals, append([]byte{}, e.V...))
	case "keyLen":
		if n == 0 {
			return false
		}
		i := pickIdx()
		if ch.Intn(2) == 0 && len(in.Keys[i]) > 0 {
			in.Keys[i] = in.Keys[i][:len(in.Keys[i])-1]
		} else {
			in.Keys[i] = append(in.Keys[i], byte(rnd.Intn(2)*rnd.Intn(256)))
		}
	case "lenMismatch":
		if n == 0 {
			return false
		}
		if ch.Intn(2) == 0 && len(in.Vals) > 0 {
			in.Vals = in.Vals[:len(in.Vals)-1]
		} else {
			in.Keys = in.Keys[:n-1]
		}
	case "firstGreater":
		if n == 0 {
			return false
		}
		switch ch.Intn(3) {
		case 0:
			in.First = pgInc(in.Keys[0])
		case 1:
			in.First = append([]byte{}, in.Keys[n-1]...)
		default:
			in.First = pgInc(in.Keys[n-1])
		}
		if in.First == nil {
			return false
		}
	case "firstLower":
		w := in.W
		switch m := ch.Intn(3); {
		case m == 0:
			in.First = make([]byte, kl)
		case m == 1 && in.I > 0 && in.I-1 < len(w.Ents):
			in.First = append([]byte{}, w.Ents[ch.Intn(in.I)].K...)
		default:
			if len(in.First) == 0 {
				return false
			}
			f := pgDec(in.First)
			if f == nil {
				return false
			}
			in.First = f
		}
	case "firstLen":
		switch m := ch.Intn(4); {
		case m == 0 && len(in.First) > 0:
			in.First = in.First[:len(in.First)-1]
		case m == 1:
			in.First = append(in.First, 0)
		case m == 2:
			in.First = nil
		default:
			in.First = []byte{}
		}
	case "dropNodes":
		if len(in.Nodes) == 0 || in.NoProof {
			return false
		}
		for m := 1 + ch.Intn(min(3, len(in.Nodes))); m > 0 && len(in.Nodes) > 0; m-- {
			i := ch.Intn(len(in.Nodes))
			in.Nodes = append(in.Nodes[:i:i], in.Nodes[i+1:]...)
		}
	case "addForeign":
		if in.NoProof {
			return false
		}
		in.Nodes = append(in.Nodes, b.pgGenuine()...)
		in.Nodes = append(in.Nodes, pgArbitraryBlobs(rnd, in.Nodes, 3)...)
	case "bloat":
		if in.NoProof {
			return false
		}
		in.Nodes = append(in.Nodes, in.W.pgGenuine()...)
	case "nilProof":
		if in.NoProof {
			return false
		}
		in.NoProof = true
	case "emptied":
		if n == 0 && len(in.Vals) == 0 {
			return false
		}
		in.Keys, in.Vals = nil, nil
	case "wrongRoot":
		if in.W != a {
			return false
		}
		in.W = b
		if ch.Intn(2) == 0 {
			in.Nodes = append(in.Nodes, b.pgGenuine()...)
		}
	case "otherProof":
		w := in.W
		if in.NoProof || len(w.Ents) == 0 {
			return false
		}
		k1 := w.Ents[ch.Intn(len(w.Ents))].K
		k2 := make([]byte, kl)
		rnd.Read(k2)
		db, err := pgProve(w.Tr, k1, k2)
		if err != nil {
			t.Fatalf("Prove failed: %v", err)
		}
		in.Nodes = pgBlobs(db)
	default:
		t.Fatalf("VERIF-HARNESS-BUG: unknown tampering %q", op)
	}
	in.Tags = append(in.Tags, op)
	return true
}

// c09RunWorld performs all checks for one world: honest cases (every run boundary
// and start-key kind when the trie is small, a drawn sample otherwise) and a set
// of tampered variants of honest cases.
func c09RunWorld(t pgFataler, st *vs.S, w *pgWorld, ch pgChooser, rnd *mrand.Rand, nHonest, nTamper int) {
	n := len(w.Ents)
	var pool []*c09Input // honest inputs usable as tampering bases
	addHonest := func(i, j int, kind string, sel int) {
		in, ok := c09Honest(t, w, i, j, kind, sel)
		if !ok {
			return
		}
		c09Check(t, st, in, true)
		pool = append(pool, in)
	}
	if n <= 6 {
		for i := 0; i < n; i++ {
			for j := i; j < n; j++ {
				for _, kind := range c09FirstKinds {
					addHonest(i, j, kind, ch.Intn(3))
				}
			}
		}
	} else {
		for h := 0; h < nHonest; h++ {
			i := ch.Intn(n)
			var j int
			switch ch.Intn(4) {
			case 0:
				j = i
			case 1:
				j = min(n-1, i+1+ch.Intn(3))
			case 2:
				j = n - 1
			default:
				j = i + ch.Intn(n-i)
			}
			addHonest(i, j, c09FirstKinds[ch.Intn(len(c09FirstKinds))], ch.Intn(3))
		}
		addHonest(0, ch.Intn(n), "zero", 0)
	}
	addHonest(0, n-1, "noproof", ch.Intn(2))
	addHonest(n, n-1, c09EmptyKinds[ch.Intn(len(c09EmptyKinds))], ch.Intn(3))
	if len(pool) == 0 {
		t.Fatalf("VERIF-HARNESS-BUG: no honest case for world %s with %d entries", w.Class, n)
	}
	b := pgSibling(t, w, ch, rnd)
	for k := 0; k < nTamper; k++ {
		in := pool[ch.Intn(len(pool))].clone()
		if !in.NoProof && ch.Intn(3) == 0 {
			c09Tamper(t, in, "bloat", w, b, ch, rnd)
		}
		want := 1 + ch.Intn(3)
		for tries := 0; want > 0 && tries < 8; tries++ {
			if c09Tamper(t, in, c09Ops[ch.Intn(len(c09Ops))], w, b, ch, rnd) {
				want--
			}
		}
		if len(in.Tags) == 0 {
			continue
		}
		c09Check(t, st, in, false)
	}
}

func c09Prop(st *vs.S) func(rt *rapid.T) {
	return func(rt *rapid.T) {
		maxN := 200
		if vs.Thorough() {
			maxN = 500
		}
		w := pgDrawWorld(rt, "", maxN)
		rnd := mrand.New(mrand.NewSource(int64(rapid.Uint64().Draw(rt, "tamperSeed"))))
		c09RunWorld(rt, st, w, pgRapidChooser{rt}, rnd, 5, 10)
	}
}

// TestVerifC09Range is the main property: honest runs are accepted with the right
// "more" flag, tampered inputs are accepted only if they are true ranges.
func TestVerifC09Range(t *testing.T) {
	st := vs.New("C09", t)
	vs.Check(t, 1, c09Prop(st))
}

// TestVerifC09SmallExhaustive enumerates, for a fixed family of tiny tries (all
// subsets of a 6-key universe with long shared prefixes, three value sizes), every
// run boundary, every start-key kind and every single-step tampering of the key
// list (drop/duplicate each entry, each entry emptied, each adjacent swap) with the
// complete node bag available, i.e. the strongest prover.
func TestVerifC09SmallExhaustive(t *testing.T) {
	vs.OnlyShard0(t)
	st := vs.New("C09", t)
	universe := [][]byte{{0x00, 0x00}, {0x00, 0x01}, {0x00, 0x10}, {0x01, 0x00}, {0x10, 0x00}, {0xff, 0xff}}
	valLens := []int{1, 33}
	if vs.Thorough() {
		valLens = []int{1, 20, 33}
	}
	worlds := 0
	for _, vl := range valLens {
		for mask := 1; mask < 1<<len(universe); mask++ {
			var ents []pgKV
			for i, k := range universe {
				if mask&(1<<i) != 0 {
					ents = append(ents, pgKV{K: k, V: bytes.Repeat([]byte{byte(0xa0 + i)}, vl)})
				}
			}
			w, err := pgBuildWorld(fmt.Sprintf("tiny%d", vl), 2, ents, nil, false)
			if err != nil {
				t.Fatalf("VERIF-HARNESS-BUG: %v", err)
			}
			worlds++
			n := len(w.Ents)
			all := w.pgGenuine()
			for i := 0; i <= n; i++ {
				for j := i - 1; j < n; j++ {
					kinds := c09FirstKinds
					if j < i {
						kinds = c09EmptyKinds
					}
					for _, kind := range kinds {
						for sel := 0; sel < 3; sel++ {
							if sel > 0 && kind != "between" && kind != "beyond" {
								continue
							}
							in, ok := c09Honest(t, w, i, j, kind, sel)
							if !ok {
								continue
							}
							c09Check(t, st, in, true)
							// strongest prover: all genuine nodes available
							base := in.clone()
							base.Nodes = all
							base.Tags = []string{"bloat"}
							c09Check(t, st, base, false)
							for x := 0; x < len(in.Keys); x++ {
								for _, op := range []string{"drop", "dup", "empty", "swapnext", "valnext"} {
									m := base.clone()
									switch op {
									case "drop":
										m.Keys = append(m.Keys[:x:x], m.Keys[x+1:]...)
										m.Vals = append(m.Vals[:x:x], m.Vals[x+1:]...)
									case "dup":
										m.Keys = append(m.Keys[:x+1:x+1], m.Keys[x:]...)
										m.Vals = append(m.Vals[:x+1:x+1], m.Vals[x:]...)
									case "empty":
										m.Vals[x] = nil
									case "swapnext":
										if x+1 >= len(m.Keys) {
											continue
										}
										m.Keys[x], m.Keys[x+1] = m.Keys[x+1], m.Keys[x]
									case "valnext":
										if x+1 >= len(m.Keys) {
											continue
										}
										m.Vals[x] = append([]byte{}, m.Vals[x+1]...)
									}
									m.Tags = append(m.Tags, "enum-"+op)
									c09Check(t, st, m, false)
								}
							}
							// every start key of the 2-byte universe's neighbourhood with the full bag
							for _, f := range universe {
								for _, ff := range [][]byte{f, pgInc(f), pgDec(f)} {
									if ff == nil {
										continue
									}
									m := base.clone()
									m.First = ff
									m.Tags = append(m.Tags, "enum-first")
									c09Check(t, st, m, false)
								}
							}
						}
					}
				}
			}
			in, _ := c09Honest(t, w, 0, n-1, "noproof", 0)
			c09Check(t, st, in, true)
		}
	}
	st.Exhaustive(fmt.Sprintf("%d tries = all non-empty subsets of a 6-key universe x %d value sizes: every run boundary, start-key kind and single-entry tampering with the full node bag", worlds, len(valLens)))
}

// TestVerifC09EmptyKey pins the input class of the fixed finding "emptykey-noproof"
// (known_findings.json, c97ddfe613): a zero-length key, alone or leading a run, with
// and without proof, against empty, populated and arbitrary roots. Every such input
// must be rejected with an error (a zero-length key is never an entry of a trie with
// fixed-length keys >= 1 byte, and never of the empty trie) and must not panic.
func TestVerifC09EmptyKey(t *testing.T) {
	vs.OnlyShard0(t)
	st := vs.New("C09", t)
	empty, err := pgBuildWorld("emptytrie", 1, nil, nil, false)
	if err != nil {
		t.Fatalf("VERIF-HARNESS-BUG: %v", err)
	}
	one, err := pgBuildWorld("onekey", 1, []pgKV{{K: []byte{0x00}, V: []byte{0x01}}}, nil, false)
	if err != nil {
		t.Fatalf("VERIF-HARNESS-BUG: %v", err)
	}
	four, err := pgBuildWorld("fourkeys", 2, []pgKV{{K: []byte{0, 0}, V: []byte{1}}, {K: []byte{0, 1}, V: bytes.Repeat([]byte{2}, 33)},
		{K: []byte{0x10, 0}, V: []byte{3}}, {K: []byte{0xff, 0xff}, V: []byte{4}}}, nil, false)
	if err != nil {
		t.Fatalf("VERIF-HARNESS-BUG: %v", err)
	}
	// the honest no-proof verification of the empty trie is accepted
	c09Check(t, st, &c09Input{W: empty, NoProof: true, I: 0, J: -1, Kind: "noproof"}, true)
	for _, w := range []*pgWorld{empty, one, four} {
		for _, first := range [][]byte{nil, {}, make([]byte, w.KeyLen), bytes.Repeat([]byte{0xff}, w.KeyLen)} {
			for _, val := range [][]byte{{0x01}, bytes.Repeat([]byte{0x07}, 33)} {
				for _, rest := range []int{0, 1, len(w.Ents)} {
					if rest > len(w.Ents) {
						continue
					}
					for _, proofKind := range []string{"nil", "emptydb", "genuine"} {
						in := &c09Input{W: w, First: first, Keys: [][]byte{{}}, Vals: [][]byte{val}, Kind: "emptykey", Tags: []string{"emptykey-" + proofKind}}
						ks, vsl := pgRun(w.Ents[:rest])
						in.Keys, in.Vals = append(in.Keys, ks...), append(in.Vals, vsl...)
						switch proofKind {
						case "nil":
							in.NoProof = true
						case "genuine":
							in.Nodes = w.pgGenuine()
						}
						c := st.Case()
						c.Fault()
						more, err, panicked := c09Call(in)
						if panicked != "" {
							t.Fatalf("VerifyRangeProof panicked: %s\ninput: %s", panicked, in)
						}
						if err == nil {
							t.Fatalf("range with a zero-length key accepted (more=%v)\ninput: %s", more, in)
						}
						c.Classf("T:emptykey-%s", proofKind)
						c.NonTrivial(c09PassesPrechecks(in), c09Descriptor(in))
					}
				}
			}
		}
	}
	st.Exhaustive("zero-length leading key x {empty, 1-entry, 4-entry trie} x 4 start keys x 2 value sizes x {no proof, empty proof db, all genuine nodes}")
}

// FuzzVerifC09Rapid drives the rapid property from the native fuzzer's byte stream.
func FuzzVerifC09Rapid(f *testing.F) {
	st := vs.New("C09", f)
	f.Fuzz(rapid.MakeFuzz(c09Prop(st)))
}

// FuzzVerifC09Bytes interprets raw bytes as (trie shape, runs, tamperings) and
// applies the same oracle.
func FuzzVerifC09Bytes(f *testing.F) {
	st := vs.New("C09", f)
	f.Add([]byte{0})
	f.Add([]byte{1, 5, 0x00, 0x00, 0x00, 0x01, 0x00, 0x10, 0x01, 0x00, 0xff, 0xff, 1, 2, 3, 4, 5, 6, 7, 8, 9, 10, 11, 12})
	f.Add(bytes.Repeat([]byte{3, 17, 0xaa, 0x10, 0x00, 0xaa, 0x20, 0x00, 9, 8, 7}, 12))
	f.Add(bytes.Repeat([]byte{0, 40, 0x00, 0x01, 0x02, 0x10, 0x11, 0x12, 0xf0, 0xff, 0xfe}, 16))
	f.Fuzz(func(t *testing.T, data []byte) {
		if len(data) > 4096 {
			data = data[:4096]
		}
		ch := &pgByteChooser{data: data}
		w := pgWorldFromBytes(t, ch)
		if w == nil {
			return
		}
		seed := int64(ch.Intn(256))
		c09RunWorld(t, st, w, ch, mrand.New(mrand.NewSource(seed)), 3, 6)
	})
}
