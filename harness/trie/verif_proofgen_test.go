//go:build verif

package trie

// Shared generators and helpers of the proof properties C08 (Merkle proofs) and
// C09 (range proofs). Owner: agent w1-trie-b. Overlay target:
// trie/zz_verif_proofgen_test.go. All identifiers carry the prefix pg.

import (
	"bytes"
	"encoding/binary"
	"errors"
	"fmt"
	"math/big"
	mrand "math/rand"
	"sort"

	"github.com/ethereum/go-ethereum/common"
	"github.com/ethereum/go-ethereum/core/rawdb"
	"github.com/ethereum/go-ethereum/core/types"
	"github.com/ethereum/go-ethereum/crypto"
	"github.com/ethereum/go-ethereum/ethdb/memorydb"
	"github.com/ethereum/go-ethereum/trie/trienode"
	"pgregory.net/rapid"
	"verif.local/kit/refrlp"
	"verif.local/kit/reftrie"
)

// pgKV is one trie entry.
type pgKV struct{ K, V []byte }

// pgWorld is a generated trie together with its model and the independent
// reference construction of the same key/value set.
type pgWorld struct {
	Class    string // key space label
	KeyLen   int    // all keys have this length
	Ents     []pgKV // ascending by key, distinct, values non-empty
	Model    map[string][]byte
	Tr       *Trie // geth trie holding Ents (hashed; either in memory or reopened from a node db)
	Root     common.Hash
	Ref      *reftrie.Result // independent node set (genuine nodes by hash)
	Reopened bool
}

// pgFataler is satisfied by *rapid.T and *testing.T.
type pgFataler interface {
	Fatalf(string, ...any)
}

var pgAlphabet = []byte{0x00, 0x01, 0x10, 0x11, 0xf0, 0xff}

// pgValLens are the hostile value lengths: tiny values give embedded (<32 byte)
// leaves, 24..30 make leaf encodings of exactly 31/32/33 bytes for short key remainders
// (the embedded/hashed boundary), 20 is the upstream fuzzer's size.
var pgValLens = []int{1, 1, 1, 2, 5, 20, 20, 24, 25, 26, 27, 28, 29, 30, 31, 32, 33, 40}

// pgKeyClasses are the key spaces; see pgDrawKeys.
var pgKeyClasses = []string{"k1few", "k1dense", "k2alpha", "k2rand", "k4", "k32", "k32shared", "single"}

// pgDrawKeys draws a non-empty set of distinct keys of one fixed length.
func pgDrawKeys(rt *rapid.T, class string, maxN int, rnd *mrand.Rand) (keyLen int, keys [][]byte) {
	id := func(b []byte) string { return string(b) }
	alpha := rapid.SampledFrom(pgAlphabet)
	switch class {
	case "k1few":
		bs := rapid.SliceOfNDistinct(rapid.Byte(), 1, 24, rapid.ID[byte]).Draw(rt, "k1")
		for _, b := range bs {
			keys = append(keys, []byte{b})
		}
		return 1, keys
	case "k1dense":
		// all 256 one-byte keys minus a drawn set of holes: every branch child pattern
		missing := rapid.SliceOfNDistinct(rapid.Byte(), 0, 40, rapid.ID[byte]).Draw(rt, "holes")
		hole := map[byte]bool{}
		for _, b := range missing {
			hole[b] = true
		}
		for i := 0; i < 256; i++ {
			if !hole[byte(i)] {
				keys = append(keys, []byte{byte(i)})
			}
		}
		return 1, keys
	case "k2alpha":
		g := rapid.Custom(func(t *rapid.T) []byte { return []byte{alpha.Draw(t, "a"), alpha.Draw(t, "b")} })
		return 2, rapid.SliceOfNDistinct(g, 1, 30, id).Draw(rt, "k2")
	case "k2rand":
		g := rapid.Custom(func(t *rapid.T) []byte { return []byte{alpha.Draw(t, "a"), rapid.Byte().Draw(t, "b")} })
		n := maxN
		if n > 120 {
			n = 120
		}
		return 2, rapid.SliceOfNDistinct(g, 1, n, id).Draw(rt, "k2")
	case "k4":
		g := rapid.Custom(func(t *rapid.T) []byte {
			return []byte{alpha.Draw(t, "a"), alpha.Draw(t, "b"), rapid.Byte().Draw(t, "c"), alpha.Draw(t, "d")}
		})
		n := maxN
		if n > 150 {
			n = 150
		}
		return 4, rapid.SliceOfNDistinct(g, 1, n, id).Draw(rt, "k4")
	case "k32", "k32shared":
		n := pgDrawSize(rt, maxN)
		seen := map[string]bool{}
		var seed [8]byte
		binary.BigEndian.PutUint64(seed[:], rnd.Uint64())
		for i := 0; len(keys) < n; i++ {
			var ib [8]byte
			binary.BigEndian.PutUint64(ib[:], uint64(i))
			h := reftrie.Keccak256(seed[:], ib[:])
			k := h[:]
			if class == "k32shared" && len(keys) > 0 && rnd.Intn(3) != 0 {
				// share 1..63 leading nibbles with an existing key
				base := keys[rnd.Intn(len(keys))]
				p := 1 + rnd.Intn(63)
				if rnd.Intn(2) == 0 {
					p = 56 + rnd.Intn(8) // deep: short leaf remainders, embedded leaves
				}
				k = pgSpliceNibbles(base, k, p)
			}
			if !seen[string(k)] {
				seen[string(k)] = true
				keys = append(keys, append([]byte{}, k...))
			}
		}
		return 32, keys
	case "single":
		l := rapid.SampledFrom([]int{1, 2, 4, 32}).Draw(rt, "singleLen")
		return l, [][]byte{rapid.SliceOfN(rapid.Byte(), l, l).Draw(rt, "singleKey")}
	}
	panic("pgDrawKeys: unknown class " + class)
}

// pgDrawSize draws an entry count biased to small tries with a tail up to maxN.
func pgDrawSize(rt *rapid.T, maxN int) int {
	switch rapid.IntRange(0, 9).Draw(rt, "sizeClass") {
	case 0:
		return rapid.IntRange(1, 3).Draw(rt, "n")
	case 1, 2, 3, 4:
		return rapid.IntRange(2, min(20, maxN)).Draw(rt, "n")
	case 5, 6, 7:
		return rapid.IntRange(min(10, maxN), min(80, maxN)).Draw(rt, "n")
	default:
		return rapid.IntRange(min(50, maxN), maxN).Draw(rt, "n")
	}
}

// pgSpliceNibbles returns a key equal to base on the first p nibbles and equal
// to other afterwards (the nibble at position p is forced to differ from base).
func pgSpliceNibbles(base, other []byte, p int) []byte {
	out := append([]byte{}, other...)
	for i := 0; i < p; i++ {
		pgSetNibble(out, i, pgNibble(base, i))
	}
	if p < 2*len(base) && pgNibble(out, p) == pgNibble(base, p) {
		pgSetNibble(out, p, (pgNibble(base, p)+1)&0x0f)
	}
	return out
}

func pgNibble(k []byte, i int) byte {
	if i%2 == 0 {
		return k[i/2] >> 4
	}
	return k[i/2] & 0x0f
}

func pgSetNibble(k []byte, i int, v byte) {
	if i%2 == 0 {
		k[i/2] = k[i/2]&0x0f | v<<4
	} else {
		k[i/2] = k[i/2]&0xf0 | v&0x0f
	}
}

// pgDrawWorld draws a trie. class "" draws the key space as well.
func pgDrawWorld(rt *rapid.T, class string, maxN int) *pgWorld {
	if class == "" {
		class = rapid.SampledFrom(pgKeyClasses).Draw(rt, "keyClass")
	}
	rnd := mrand.New(mrand.NewSource(int64(rapid.Uint64().Draw(rt, "bulkSeed"))))
	keyLen, keys := pgDrawKeys(rt, class, maxN, rnd)
	valMode := rapid.SampledFrom([]string{"mixed", "mixed", "tiny", "twenty", "big"}).Draw(rt, "valMode")
	ents := make([]pgKV, 0, len(keys))
	for _, k := range keys {
		var l int
		switch valMode {
		case "tiny":
			l = 1 + rnd.Intn(2)
		case "twenty":
			l = 20
		case "big":
			l = 32 + rnd.Intn(9)
		default:
			l = pgValLens[rnd.Intn(len(pgValLens))]
		}
		v := make([]byte, l)
		rnd.Read(v)
		ents = append(ents, pgKV{K: k, V: v})
	}
	reopen := rapid.IntRange(0, 3).Draw(rt, "reopen") == 0
	w, err := pgBuildWorld(class+"/"+valMode, keyLen, ents, rnd, reopen)
	if err != nil {
		rt.Fatalf("VERIF-HARNESS-BUG: %v", err)
	}
	return w
}

// pgBuildWorld builds the geth trie (insertion order shuffled by rnd), the model
// and the reference node set. reopen commits the trie into a hash-scheme node
// database and reopens it, so that proofs are produced through the node reader.
func pgBuildWorld(class string, keyLen int, ents []pgKV, rnd *mrand.Rand, reopen bool) (*pgWorld, error) {
	w := &pgWorld{Class: class, KeyLen: keyLen, Model: map[string][]byte{}, Reopened: reopen}
	w.Ents = append(w.Ents, ents...)
	sort.Slice(w.Ents, func(i, j int) bool { return bytes.Compare(w.Ents[i].K, w.Ents[j].K) < 0 })
	for i, e := range w.Ents {
		if len(e.K) != keyLen || len(e.V) == 0 {
			return nil, fmt.Errorf("generator produced bad entry %x=%x", e.K, e.V)
		}
		if i > 0 && bytes.Equal(e.K, w.Ents[i-1].K) {
			return nil, fmt.Errorf("generator produced duplicate key %x", e.K)
		}
		w.Model[string(e.K)] = e.V
	}
	db := newTestDatabase(rawdb.NewMemoryDatabase(), rawdb.HashScheme)
	tr := NewEmpty(db)
	order := make([]int, len(w.Ents))
	for i := range order {
		order[i] = i
	}
	if rnd != nil {
		rnd.Shuffle(len(order), func(i, j int) { order[i], order[j] = order[j], order[i] })
	}
	for _, i := range order {
		if err := tr.Update(w.Ents[i].K, w.Ents[i].V); err != nil {
			return nil, fmt.Errorf("trie update failed: %v", err)
		}
	}
	w.Root = tr.Hash()
	if reopen && len(w.Ents) > 0 {
		root, nodes := tr.Commit(false)
		if nodes != nil {
			if err := db.Update(root, types.EmptyRootHash, trienode.NewWithNodeSet(nodes)); err != nil {
				return nil, err
			}
		}
		nt, err := New(TrieID(root), db)
		if err != nil {
			return nil, fmt.Errorf("reopen failed: %v", err)
		}
		tr = nt
	}
	w.Tr = tr
	w.Ref = reftrie.Build(w.Model)
	if w.Ref.Root != [32]byte(w.Root) {
		// Root agreement with the reference is property C06, not C08/C09; without it the
		// oracles below have no ground truth, so the run is inconclusive.
		return nil, fmt.Errorf("geth root %x != reference root %x for %d entries (see C06)", w.Root, w.Ref.Root, len(w.Ents))
	}
	return w, nil
}

// pgSearchGE returns the index of the first entry with key >= k (len(Ents) if none).
func (w *pgWorld) pgSearchGE(k []byte) int {
	return sort.Search(len(w.Ents), func(i int) bool { return bytes.Compare(w.Ents[i].K, k) >= 0 })
}

// pgSearchGT returns the index of the first entry with key > k.
func (w *pgWorld) pgSearchGT(k []byte) int {
	return sort.Search(len(w.Ents), func(i int) bool { return bytes.Compare(w.Ents[i].K, k) > 0 })
}

// pgGenuine returns all genuine stored node blobs of the world, ordered by hash.
func (w *pgWorld) pgGenuine() [][]byte {
	hs := make([][32]byte, 0, len(w.Ref.ByHash))
	for h := range w.Ref.ByHash {
		hs = append(hs, h)
	}
	sort.Slice(hs, func(i, j int) bool { return bytes.Compare(hs[i][:], hs[j][:]) < 0 })
	out := make([][]byte, 0, len(hs))
	for _, h := range hs {
		out = append(out, w.Ref.ByHash[h])
	}
	return out
}

// pgProve collects the proofs the trie produces for the given keys in one database.
func pgProve(tr *Trie, keys ...[]byte) (*memorydb.Database, error) {
	db := memorydb.New()
	for _, k := range keys {
		if err := tr.Prove(k, db); err != nil {
			return nil, err
		}
	}
	return db, nil
}

// pgBlobs lists the values of a proof database ordered by key (deterministic).
func pgBlobs(db *memorydb.Database) [][]byte {
	type kv struct{ k, v []byte }
	var all []kv
	it := db.NewIterator(nil, nil)
	for it.Next() {
		all = append(all, kv{append([]byte{}, it.Key()...), append([]byte{}, it.Value()...)})
	}
	it.Release()
	sort.Slice(all, func(i, j int) bool { return bytes.Compare(all[i].k, all[j].k) < 0 })
	out := make([][]byte, len(all))
	for i := range all {
		out[i] = all[i].v
	}
	return out
}

// pgProofDB stores every blob under its own Keccak-256 hash, as all callers of the
// verifiers do (trienode.ProofList.Set, Trie.Prove).
func pgProofDB(blobs ...[][]byte) *memorydb.Database {
	db := memorydb.New()
	for _, bs := range blobs {
		for _, b := range bs {
			db.Put(crypto.Keccak256(b), b)
		}
	}
	return db
}

// pgInc returns k+1 as big-endian number of the same length, nil on overflow.
func pgInc(k []byte) []byte {
	out := append([]byte{}, k...)
	for i := len(out) - 1; i >= 0; i-- {
		out[i]++
		if out[i] != 0 {
			return out
		}
	}
	return nil
}

// pgDec returns k-1, nil if k is all zero.
func pgDec(k []byte) []byte {
	out := append([]byte{}, k...)
	for i := len(out) - 1; i >= 0; i-- {
		out[i]--
		if out[i] != 0xff {
			return out
		}
	}
	return nil
}

// pgBetween returns a key of the same length strictly between lo and hi chosen by
// sel (0: lo+1, 1: hi-1, otherwise the midpoint), or nil if there is none. lo may
// be nil meaning "below the all-zero key" (then the result may be all-zero).
func pgBetween(lo, hi []byte, sel int) []byte {
	l := len(hi)
	h := new(big.Int).SetBytes(hi)
	lv := big.NewInt(-1)
	if lo != nil {
		lv = new(big.Int).SetBytes(lo)
	}
	if new(big.Int).Sub(h, lv).Cmp(big.NewInt(2)) < 0 {
		return nil
	}
	var r *big.Int
	switch sel {
	case 0:
		r = new(big.Int).Add(lv, big.NewInt(1))
	case 1:
		r = new(big.Int).Sub(h, big.NewInt(1))
	default:
		r = new(big.Int).Add(lv, h)
		r.Rsh(r, 1)
		if r.Cmp(lv) <= 0 {
			r.Add(lv, big.NewInt(1))
		}
	}
	out := make([]byte, l)
	r.FillBytes(out)
	return out
}

// pgKeysOf / pgValsOf copy a run of entries into fresh slices.
func pgRun(ents []pgKV) (keys, vals [][]byte) {
	for _, e := range ents {
		keys = append(keys, append([]byte{}, e.K...))
		vals = append(vals, append([]byte{}, e.V...))
	}
	return keys, vals
}

// pgArbitraryBlobs draws blobs that are not genuine nodes: random bytes, well-formed
// RLP lists of 2 and 17 items with random content, truncated/extended genuine nodes.
func pgArbitraryBlobs(rnd *mrand.Rand, genuine [][]byte, n int) [][]byte {
	var out [][]byte
	for i := 0; i < n; i++ {
		switch rnd.Intn(5) {
		case 0:
			b := make([]byte, rnd.Intn(80))
			rnd.Read(b)
			out = append(out, b)
		case 1: // short-node shaped
			k := make([]byte, 1+rnd.Intn(5))
			rnd.Read(k)
			v := make([]byte, 1+rnd.Intn(40))
			rnd.Read(v)
			out = append(out, refrlp.Encode(refrlp.L(refrlp.S(k), refrlp.S(v))))
		case 2: // branch shaped with random 32-byte children
			items := make([]refrlp.Item, 17)
			for j := range items {
				if rnd.Intn(3) == 0 {
					h := make([]byte, 32)
					rnd.Read(h)
					items[j] = refrlp.S(h)
				} else {
					items[j] = refrlp.S(nil)
				}
			}
			out = append(out, refrlp.Encode(refrlp.L(items...)))
		case 3: // genuine node with a flipped byte
			if len(genuine) > 0 {
				b := append([]byte{}, genuine[rnd.Intn(len(genuine))]...)
				if len(b) > 0 {
					b[rnd.Intn(len(b))] ^= byte(1 << uint(rnd.Intn(8)))
				}
				out = append(out, b)
			}
		default: // genuine node truncated or extended
			if len(genuine) > 0 {
				b := append([]byte{}, genuine[rnd.Intn(len(genuine))]...)
				if rnd.Intn(2) == 0 && len(b) > 1 {
					b = b[:rnd.Intn(len(b))]
				} else {
					b = append(b, byte(rnd.Intn(256)))
				}
				out = append(out, b)
			}
		}
	}
	return out
}

// pgChooser abstracts the source of structural choices so that the same case
// construction runs under rapid and under the raw-bytes native fuzz target.
type pgChooser interface {
	Intn(n int) int // value in [0,n); n <= 1 yields 0
}

type pgRapidChooser struct{ rt *rapid.T }

func (c pgRapidChooser) Intn(n int) int {
	if n <= 1 {
		return 0
	}
	return rapid.IntRange(0, n-1).Draw(c.rt, "c")
}

type pgByteChooser struct {
	data []byte
	pos  int
}

func (c *pgByteChooser) Intn(n int) int {
	if n <= 1 {
		return 0
	}
	v := 0
	if c.pos < len(c.data) {
		v = int(c.data[c.pos])
		c.pos++
	}
	if n > 256 && c.pos < len(c.data) {
		v = v<<8 | int(c.data[c.pos])
		c.pos++
	}
	return v % n
}

func (c *pgByteChooser) exhausted() bool { return c.pos >= len(c.data) }

// pgSibling derives a world that differs from w in 1..3 entries (same key length),
// so that its nodes are plausible foreign nodes and its root a plausible wrong root.
func pgSibling(t pgFataler, w *pgWorld, ch pgChooser, rnd *mrand.Rand) *pgWorld {
	ents := append([]pgKV{}, w.Ents...)
	for m := 1 + ch.Intn(3); m > 0; m-- {
		switch op := ch.Intn(3); {
		case op == 0 && len(ents) > 1: // delete
			i := ch.Intn(len(ents))
			ents = append(ents[:i:i], ents[i+1:]...)
		case op == 1 && len(ents) > 0: // change value
			i := ch.Intn(len(ents))
			v := make([]byte, 1+rnd.Intn(40))
			rnd.Read(v)
			ents[i] = pgKV{K: ents[i].K, V: v}
		default: // add
			k := make([]byte, w.KeyLen)
			rnd.Read(k)
			if len(ents) > 0 && w.KeyLen > 1 && rnd.Intn(2) == 0 {
				k = pgSpliceNibbles(ents[rnd.Intn(len(ents))].K, k, 1+rnd.Intn(2*w.KeyLen-1))
			}
			dup := false
			for _, e := range ents {
				if bytes.Equal(e.K, k) {
					dup = true
				}
			}
			if !dup {
				v := make([]byte, 1+rnd.Intn(40))
				rnd.Read(v)
				ents = append(ents, pgKV{K: k, V: v})
			}
		}
	}
	b, err := pgBuildWorld("sibling-of-"+w.Class, w.KeyLen, ents, rnd, false)
	if err != nil {
		t.Fatalf("VERIF-HARNESS-BUG: %v", err)
	}
	return b
}

// pgWorldFromBytes builds a world directly from fuzzer bytes: the fuzzer controls
// key length, entry count and the leading bytes of every key (the trie shape).
func pgWorldFromBytes(t pgFataler, ch *pgByteChooser) *pgWorld {
	keyLen := []int{1, 2, 4, 32}[ch.Intn(4)]
	n := 1 + ch.Intn(48)
	seen := map[string]bool{}
	var ents []pgKV
	for i := 0; i < n && !ch.exhausted(); i++ {
		k := make([]byte, keyLen)
		ctl := min(keyLen, 3)
		for x := 0; x < ctl; x++ {
			k[x] = byte(ch.Intn(256))
		}
		if keyLen > ctl {
			h := reftrie.Keccak256(k[:ctl], []byte{byte(i)})
			copy(k[ctl:], h[:])
			if keyLen == 32 && ch.Intn(4) == 0 && len(ents) > 0 {
				k = pgSpliceNibbles(ents[ch.Intn(len(ents))].K, k, 1+ch.Intn(63))
			}
		}
		if seen[string(k)] {
			continue
		}
		seen[string(k)] = true
		vl := pgValLens[ch.Intn(len(pgValLens))]
		v := bytes.Repeat([]byte{byte(i + 1)}, vl)
		ents = append(ents, pgKV{K: k, V: v})
	}
	if len(ents) == 0 {
		return nil
	}
	w, err := pgBuildWorld(fmt.Sprintf("bytes%d", keyLen), keyLen, ents, nil, ch.Intn(4) == 0)
	if err != nil {
		t.Fatalf("VERIF-HARNESS-BUG: %v", err)
	}
	return w
}

// ---- independent reference proof walk (refrlp + x/crypto keccak, no geth code) ----

var errPgRefMissing = errors.New("reference walk: proof node missing")

func pgRefHPDecode(c []byte) (nib []byte, term bool, ok bool) {
	if len(c) == 0 {
		return nil, false, false
	}
	flag := c[0] >> 4
	if flag > 3 {
		return nil, false, false
	}
	term = flag&2 != 0
	if flag&1 == 1 {
		nib = append(nib, c[0]&0x0f)
	}
	for _, b := range c[1:] {
		nib = append(nib, b>>4, b&0x0f)
	}
	return nib, term, true
}

// pgRefWalk walks the hash chain from root along key through lookup and returns
// the value stored for key (nil if the nodes prove absence) and how the walk ended:
// "found", "found-branch-value", "leaf-mismatch", "ext-mismatch", "nil-slot", "branch-value-empty".
func pgRefWalk(root [32]byte, key []byte, lookup func(h [32]byte) []byte) ([]byte, string, error) {
	var nib []byte
	for _, b := range key {
		nib = append(nib, b>>4, b&0x0f)
	}
	blob := lookup(root)
	if blob == nil {
		return nil, "", errPgRefMissing
	}
	it, err := refrlp.Decode(blob)
	if err != nil {
		return nil, "", fmt.Errorf("reference walk: bad node: %v", err)
	}
	for {
		if !it.IsList {
			return nil, "", errors.New("reference walk: node is not a list")
		}
		var child refrlp.Item
		switch len(it.List) {
		case 2:
			if it.List[0].IsList {
				return nil, "", errors.New("reference walk: short node key is a list")
			}
			p, term, ok := pgRefHPDecode(it.List[0].Str)
			if !ok {
				return nil, "", errors.New("reference walk: bad compact key")
			}
			if term {
				if bytes.Equal(p, nib) {
					if it.List[1].IsList {
						return nil, "", errors.New("reference walk: leaf value is a list")
					}
					return it.List[1].Str, "found", nil
				}
				return nil, "leaf-mismatch", nil
			}
			if !bytes.HasPrefix(nib, p) {
				return nil, "ext-mismatch", nil
			}
			nib = nib[len(p):]
			child = it.List[1]
		case 17:
			if len(nib) == 0 {
				if it.List[16].IsList || len(it.List[16].Str) == 0 {
					return nil, "branch-value-empty", nil
				}
				return it.List[16].Str, "found-branch-value", nil
			}
			child = it.List[nib[0]]
			nib = nib[1:]
		default:
			return nil, "", fmt.Errorf("reference walk: node with %d items", len(it.List))
		}
		switch {
		case child.IsList:
			it = child // embedded node
		case len(child.Str) == 0:
			return nil, "nil-slot", nil
		case len(child.Str) == 32:
			var h [32]byte
			copy(h[:], child.Str)
			blob := lookup(h)
			if blob == nil {
				return nil, "", errPgRefMissing
			}
			if it, err = refrlp.Decode(blob); err != nil {
				return nil, "", fmt.Errorf("reference walk: bad node: %v", err)
			}
		default:
			return nil, "", fmt.Errorf("reference walk: child reference of %d bytes", len(child.Str))
		}
	}
}

// pgHashKey is the hash used as proof database key.
func pgHashKey(b []byte) common.Hash { return crypto.Keccak256Hash(b) }
