//go:build verif

package trie

// C07: the node set returned by Commit, applied to the node store of the original
// trie, reproduces the new trie exactly (contents readable from the new root; under
// the path scheme the store equals the new trie's node set path by path; original
// values of rewritten/deleted nodes are correct), over several commit generations.
// The streaming builder emits the same nodes as a regular trie commits.
// The store is a plain map kept by the harness (vtaStore); the expected node set is
// kit/reftrie's (independent construction).

import (
	"bytes"
	"fmt"
	"hash/fnv"
	"sort"
	"strings"
	"testing"

	"github.com/ethereum/go-ethereum/common"
	"github.com/ethereum/go-ethereum/core/types"
	"pgregory.net/rapid"
	"verif.local/kit/reftrie"
	vs "verif.local/kit/stat"
)

type c07Run struct {
	rt     *rapid.T
	sp     *vtaSpace
	prof   int
	store  *vtaStore
	model  vtaModel
	root   common.Hash
	gen    int
	mode   string
	labels map[string]bool
	desc   interface{ Write([]byte) (int, error) }
	// per generation
	collapse, emptied bool
}

func (r *c07Run) fail(format string, a ...any) {
	r.rt.Helper()
	scheme := "hash"
	if r.store.pathScheme {
		scheme = "path"
	}
	r.rt.Fatalf("C07 space=%s scheme=%s generation=%d mode=%s: %s", r.sp.name, scheme, r.gen, r.mode, fmt.Sprintf(format, a...))
}

// apply performs one update on trie and model (empty v = deletion).
func (r *c07Run) apply(tr *Trie, k, v []byte, viaDelete bool) {
	var err error
	if len(v) == 0 && viaDelete {
		err = tr.Delete(k)
	} else {
		err = tr.Update(k, v)
	}
	if err != nil {
		r.fail("update %x: %v", k, err)
	}
	r.applyModel(k, v)
}

func (r *c07Run) applyModel(k, v []byte) {
	if len(v) == 0 {
		col, emp := vtaCollapses(r.model, r.sp, string(k))
		r.collapse = r.collapse || col
		r.emptied = r.emptied || emp
	}
	r.model.apply(k, v)
	r.desc.Write(k)
	r.desc.Write([]byte{0xfe, byte(len(v))})
	r.desc.Write(v)
}

func (r *c07Run) presentKey(label string) []byte {
	ks := r.model.sortedKeys()
	return []byte(ks[rapid.IntRange(0, len(ks)-1).Draw(r.rt, label)])
}

func (r *c07Run) anyKey(label string) []byte {
	return r.sp.keys[rapid.IntRange(0, len(r.sp.keys)-1).Draw(r.rt, label)]
}

// modify applies one generation's modifications to tr.
func (r *c07Run) modify(tr *Trie) {
	rt := r.rt
	switch r.mode {
	case "base":
		// a drawn subset of the pool, inserted one by one or as one batch
		limit := rapid.SampledFrom([]int{0, 1, 2, 8, 40, 200}).Draw(rt, "baseSize")
		p := &vtaPRNG{s: rapid.Uint64().Draw(rt, "baseSeed")}
		perm := make([]int, len(r.sp.keys))
		for i := range perm {
			perm[i] = i
		}
		for i := len(perm) - 1; i > 0; i-- {
			j := p.intn(i + 1)
			perm[i], perm[j] = perm[j], perm[i]
		}
		if limit > len(perm) {
			limit = len(perm)
		}
		var ks, vals [][]byte
		for _, idx := range perm[:limit] {
			ks, vals = append(ks, r.sp.keys[idx]), append(vals, vtaBulkValueP(p, r.prof))
		}
		if rapid.Bool().Draw(rt, "baseBatch") {
			if err := tr.UpdateBatch(ks, vals); err != nil {
				r.fail("UpdateBatch: %v", err)
			}
			for i := range ks {
				r.applyModel(ks[i], vals[i])
			}
		} else {
			for i := range ks {
				r.apply(tr, ks[i], vals[i], false)
			}
		}
	case "ops":
		n := rapid.IntRange(1, 30).Draw(rt, "nops")
		for i := 0; i < n; i++ {
			switch rapid.SampledFrom([]string{"update", "update", "update", "delete", "delete", "delete", "get", "hash"}).Draw(rt, "op") {
			case "update":
				r.apply(tr, r.anyKey("k"), vtaDrawValueP(rt, r.prof), false)
			case "delete":
				k := r.anyKey("k")
				if len(r.model) > 0 && rapid.IntRange(0, 3).Draw(rt, "fromPresent") > 0 {
					k = r.presentKey("pk")
				}
				r.apply(tr, k, nil, rapid.Bool().Draw(rt, "viaDelete"))
			case "get":
				if err := vtaCheckGets(tr, r.model, [][]byte{r.anyKey("k")}); err != nil {
					r.fail("%v", err)
				}
			case "hash":
				if got, want := tr.Hash(), common.Hash(vtaRef(r.model).Root); got != want {
					r.fail("mid-generation Hash() %x, reference %x", got, want)
				}
			}
		}
	case "bulk":
		n := rapid.IntRange(101, 300).Draw(rt, "nbulk")
		p := &vtaPRNG{s: rapid.Uint64().Draw(rt, "bulkSeed")}
		delOutOf4 := rapid.IntRange(0, 3).Draw(rt, "delOutOf4")
		var ks, vals [][]byte
		for i := 0; i < n; i++ {
			k := r.sp.keys[p.intn(len(r.sp.keys))]
			if p.intn(4) < delOutOf4 {
				ks, vals = append(ks, k), append(vals, nil)
			} else {
				ks, vals = append(ks, k), append(vals, vtaBulkValueP(p, r.prof))
			}
		}
		if rapid.Bool().Draw(rt, "bulkBatch") {
			if err := tr.UpdateBatch(ks, vals); err != nil {
				r.fail("UpdateBatch: %v", err)
			}
			for i := range ks {
				r.applyModel(ks[i], vals[i])
			}
		} else {
			for i := range ks {
				r.apply(tr, ks[i], vals[i], i%2 == 0)
			}
		}
	case "wipe":
		// delete everything, then re-insert a subset (same or new values) or nothing
		old := r.model.clone()
		keys := old.sortedKeys()
		p := &vtaPRNG{s: rapid.Uint64().Draw(rt, "wipeSeed")}
		if rapid.Bool().Draw(rt, "shuffle") {
			for i := len(keys) - 1; i > 0; i-- {
				j := p.intn(i + 1)
				keys[i], keys[j] = keys[j], keys[i]
			}
		}
		for i, k := range keys {
			r.apply(tr, []byte(k), nil, i%2 == 0)
		}
		back := rapid.IntRange(0, 4).Draw(rt, "reinsertOutOf4")
		sameVal := rapid.Bool().Draw(rt, "sameValues")
		for _, k := range keys {
			if p.intn(4) < back {
				v := old[k]
				if !sameVal {
					v = vtaBulkValueP(p, r.prof)
				}
				r.apply(tr, []byte(k), v, false)
			}
		}
	case "churn":
		// insert-then-delete of absent keys and delete-then-reinsert of present keys:
		// the content is unchanged but the operation tracers see inserts and deletes.
		n := rapid.IntRange(1, 8).Draw(rt, "nchurn")
		for i := 0; i < n; i++ {
			k := r.anyKey("k")
			if v, ok := r.model[string(k)]; ok {
				r.apply(tr, k, nil, rapid.Bool().Draw(rt, "viaDelete"))
				if rapid.IntRange(0, 3).Draw(rt, "reinsert") > 0 {
					r.apply(tr, k, v, false)
				}
			} else {
				r.apply(tr, k, vtaDrawValueP(rt, r.prof), false)
				if rapid.IntRange(0, 3).Draw(rt, "redelete") > 0 {
					r.apply(tr, k, nil, rapid.Bool().Draw(rt, "viaDelete"))
				}
			}
		}
	case "subtree":
		// delete every present key below a drawn prefix of a present key
		if len(r.model) == 0 {
			return
		}
		base := r.sp.nibs[string(r.presentKey("pk"))]
		plen := rapid.IntRange(0, min(3, len(base)-1)).Draw(rt, "prefixNibbles")
		keepOne := rapid.Bool().Draw(rt, "keepOne")
		first := true
		for _, k := range r.model.sortedKeys() {
			if r.sp.nibs[k][:plen] != base[:plen] {
				continue
			}
			if keepOne && first {
				first = false
				continue
			}
			r.apply(tr, []byte(k), nil, true)
		}
	case "noop":
		n := rapid.IntRange(0, 5).Draw(rt, "ngets")
		for i := 0; i < n; i++ {
			if err := vtaCheckGets(tr, r.model, [][]byte{r.anyKey("k")}); err != nil {
				r.fail("%v", err)
			}
		}
		if len(r.model) > 0 && rapid.Bool().Draw(rt, "rewriteSame") {
			k := r.presentKey("pk")
			r.apply(tr, k, r.model[string(k)], false)
		}
	}
}

var c07Modes = []string{"ops", "ops", "ops", "bulk", "wipe", "wipe", "churn", "subtree", "subtree", "noop"}

// copyPhase optionally takes Trie.Copy() after the generation's first modifications,
// optionally modifies the side that will be thrown away (with a throw-away model, to
// expose state shared between the two tries), optionally continues modifying the side
// that will be committed, and returns the trie to commit: the copy or the original.
func (r *c07Run) copyPhase(tr *Trie) *Trie {
	rt := r.rt
	switch rapid.SampledFrom([]string{"none", "none", "commit-copy", "commit-copy", "commit-original"}).Draw(rt, "copyPhase") {
	case "none":
		return tr
	case "commit-copy":
		r.labels["commit-copy"] = true
		r.desc.Write([]byte("cc"))
		return r.diverge(tr.Copy(), tr)
	default:
		r.labels["commit-original-after-copy"] = true
		r.desc.Write([]byte("co"))
		return r.diverge(tr, tr.Copy())
	}
}

func (r *c07Run) diverge(keep, drop *Trie) *Trie {
	rt := r.rt
	firstMode := r.mode
	if rapid.Bool().Draw(rt, "modifyDropped") {
		saved, col, emp, desc := r.model, r.collapse, r.emptied, r.desc
		r.model, r.desc = r.model.clone(), fnv.New64a()
		r.mode = rapid.SampledFrom(c07Modes).Draw(rt, "droppedMode")
		r.modify(drop)
		r.mode = firstMode
		r.model, r.collapse, r.emptied, r.desc = saved, col, emp, desc
		r.labels["dropped-side-modified"] = true
	}
	if rapid.Bool().Draw(rt, "modifyKept") {
		m := rapid.SampledFrom(c07Modes).Draw(rt, "keptMode")
		r.mode = m
		r.modify(keep)
		r.desc.Write([]byte(m))
		r.mode = firstMode + "+" + m
		r.labels["kept-side-modified-after-copy"] = true
	} else {
		r.mode = firstMode + "+copy"
	}
	return keep
}

// commitAndCheck commits tr, applies the node set to the store and evaluates the oracles.
func (r *c07Run) commitAndCheck(tr *Trie, prevRef *reftrie.Result) {
	rt := r.rt
	ref := vtaRef(r.model)
	if rapid.Bool().Draw(rt, "hashBeforeCommit") {
		if got := tr.Hash(); got != common.Hash(ref.Root) {
			r.fail("Hash() before commit %x, reference %x", got, ref.Root)
		}
	}
	parallel := false
	if _, ok := tr.root.(*fullNode); ok && tr.uncommitted > 100 {
		parallel = true
		r.labels["parallel-commit"] = true
	}
	root, set := tr.Commit(rapid.Bool().Draw(rt, "collectLeaf"))
	if root != common.Hash(ref.Root) {
		r.fail("Commit returned root %x, reference root of the %d-entry model %x", root, len(r.model), ref.Root)
	}
	if parallel && set != nil && len(r.model) > 0 {
		for _, n := range set.Nodes {
			if n.IsDeleted() {
				r.labels["parallel-commit-with-deletions"] = true
				break
			}
		}
	}
	if set == nil {
		r.labels["nil-set"] = true
		if root != r.root {
			r.fail("Commit returned no node set although the root changed %x -> %x", r.root, root)
		}
	} else {
		paths := make([]string, 0, len(set.Nodes))
		for p := range set.Nodes {
			paths = append(paths, p)
		}
		sort.Strings(paths)
		for _, p := range paths {
			n := set.Nodes[p]
			// (3) original value of every rewritten or deleted node
			want := prevRef.Nodes[p]
			if got := set.Origins[p]; !bytes.Equal(got, want) {
				kind := "rewritten"
				if n.IsDeleted() {
					kind = "deleted"
				}
				r.fail("%s node at path %x carries previous value %x, the old trie held %x there", kind, []byte(p), got, want)
			}
			if n.IsDeleted() {
				r.labels["set-has-deletions"] = true
				if len(want) == 0 {
					r.labels["deletion-of-absent-path"] = true
				}
				if r.store.pathScheme {
					delete(r.store.nodes, p)
				}
				continue
			}
			if h := common.Hash(reftrie.Keccak256(n.Blob)); h != n.Hash {
				r.fail("node at path %x has hash field %x but its blob hashes to %x", []byte(p), n.Hash, h)
			}
			if r.store.pathScheme {
				r.store.nodes[p] = n.Blob
			} else {
				r.store.nodes[string(n.Hash[:])] = n.Blob
			}
		}
	}
	// (2) path scheme: the store is exactly the new trie's node set
	if r.store.pathScheme {
		for p, blob := range ref.Nodes {
			got, ok := r.store.nodes[p]
			if !ok {
				r.fail("store misses the node at path %x of the new trie (%d entries)", []byte(p), len(r.model))
			}
			if !bytes.Equal(got, blob) {
				r.fail("store holds %x at path %x, the new trie's node there is %x", got, []byte(p), blob)
			}
		}
		if len(r.store.nodes) != len(ref.Nodes) {
			var stale []string
			for p := range r.store.nodes {
				if _, ok := ref.Nodes[p]; !ok {
					stale = append(stale, p)
				}
			}
			sort.Strings(stale)
			r.fail("store holds %d stale node(s) not part of the new trie, first at path %x: %x", len(stale), []byte(stale[0]), r.store.nodes[stale[0]])
		}
	}
	// (1) the new root reads exactly the model from the store
	ntr, err := New(TrieID(root), r.store)
	if err != nil {
		r.fail("cannot open the new root %x from the store: %v", root, err)
	}
	if err := vtaCheckGets(ntr, r.model, r.sp.keys); err != nil {
		r.fail("reading the new root from the store: %v", err)
	}
	if err := vtaCheckLeaves(ntr, r.model); err != nil {
		r.fail("iterating the new root from the store: %v", err)
	}
	r.root = root
}

func c07History(rt *rapid.T, st *vs.S) {
	c := st.Case()
	h := fnv.New64a()
	r := &c07Run{rt: rt, sp: vtaDrawSpace(rt), prof: vtaDrawProfile(rt), model: vtaModel{}, root: types.EmptyRootHash,
		labels: map[string]bool{}, desc: h}
	r.store = vtaNewStore(rapid.Bool().Draw(rt, "pathScheme"))
	h.Write([]byte(r.sp.name))
	for _, k := range r.sp.keys[:min(4, len(r.sp.keys))] {
		h.Write(k)
	}
	gens := rapid.IntRange(1, 4).Draw(rt, "generations")
	nontrivial := false
	for r.gen = 0; r.gen <= gens; r.gen++ {
		r.mode = "base"
		if r.gen > 0 {
			r.mode = rapid.SampledFrom(c07Modes).Draw(rt, "mode")
		}
		r.collapse, r.emptied = false, false
		prevRef := vtaRef(r.model)
		tr, err := New(TrieID(r.root), r.store)
		if err != nil {
			r.fail("open root %x: %v", r.root, err)
		}
		r.modify(tr)
		h.Write([]byte(r.mode))
		if r.gen > 0 {
			tr = r.copyPhase(tr)
		}
		r.commitAndCheck(tr, prevRef)
		if r.gen > 0 {
			r.labels["mode-"+strings.SplitN(r.mode, "+", 2)[0]] = true
			if r.collapse {
				r.labels["collapse"] = true
			}
			if r.emptied && len(r.model) == 0 {
				r.labels["emptied"] = true
			}
			if r.emptied && len(r.model) > 0 {
				r.labels["emptied-and-refilled"] = true
			}
			if r.collapse || (r.emptied && len(r.model) == 0) {
				nontrivial = true
			}
		}
	}
	scheme := "hash"
	if r.store.pathScheme {
		scheme = "path"
	}
	c.NonTrivial(nontrivial, fmt.Sprintf("%s%x", scheme, h.Sum64()))
	c.Class("scheme-" + scheme)
	c.Class("space-" + r.sp.name)
	ls := make([]string, 0, len(r.labels))
	for l := range r.labels {
		ls = append(ls, l)
	}
	sort.Strings(ls)
	for _, l := range ls {
		c.Class(l)
	}
	c.Sample(nontrivial, func() any {
		return map[string]any{"space": r.sp.name, "scheme": scheme, "generations": gens, "final_entries": len(r.model), "labels": ls}
	})
}

// TestVerifC07Commit: commit generations through a plain map store.
func TestVerifC07Commit(t *testing.T) {
	st := vs.New("C07", t)
	vs.Check(t, 1, func(rt *rapid.T) { c07History(rt, st) })
}

// TestVerifC07Stack: nodes emitted by the streaming builder == nodes committed by a
// regular trie built from empty for the same key set (and == the reference set).
func TestVerifC07Stack(t *testing.T) {
	st := vs.New("C07", t)
	vs.Check(t, 0.5, func(rt *rapid.T) {
		c := st.Case()
		sp := vtaDrawSpace(rt)
		prof := vtaDrawProfile(rt)
		p := &vtaPRNG{s: rapid.Uint64().Draw(rt, "seed")}
		limit := rapid.SampledFrom([]int{0, 1, 2, 3, 8, 40, 300}).Draw(rt, "size")
		perm := make([]int, len(sp.keys))
		for i := range perm {
			perm[i] = i
		}
		for i := len(perm) - 1; i > 0; i-- {
			j := p.intn(i + 1)
			perm[i], perm[j] = perm[j], perm[i]
		}
		if limit > len(perm) {
			limit = len(perm)
		}
		model := vtaModel{}
		reg := NewEmpty(vtaNewStore(true))
		churn := rapid.Bool().Draw(rt, "churn")
		for _, idx := range perm[:limit] {
			v := vtaBulkValueP(p, prof)
			model.apply(sp.keys[idx], v)
			reg.MustUpdate(sp.keys[idx], v)
		}
		if churn {
			// keys outside the set inserted and removed again: same final set
			for _, idx := range perm[limit:min(limit+5, len(perm))] {
				reg.MustUpdate(sp.keys[idx], vtaBulkValueP(p, prof))
			}
			for _, idx := range perm[limit:min(limit+5, len(perm))] {
				reg.MustDelete(sp.keys[idx])
			}
		}
		ref := vtaRef(model)
		emitted := map[string][]byte{}
		sroot, err := vtaStackRoot(model, func(path []byte, hash common.Hash, blob []byte) {
			if _, dup := emitted[string(path)]; dup {
				rt.Fatalf("StackTrie emitted the node at path %x twice", path)
			}
			if common.Hash(reftrie.Keccak256(blob)) != hash {
				rt.Fatalf("StackTrie emitted path %x with hash %x, blob hashes to %x", path, hash, reftrie.Keccak256(blob))
			}
			emitted[string(path)] = common.CopyBytes(blob)
		})
		if err != nil {
			rt.Fatalf("StackTrie rejected the sorted set: %v", err)
		}
		rroot, set := reg.Commit(false)
		if sroot != rroot || rroot != common.Hash(ref.Root) {
			rt.Fatalf("roots differ: StackTrie %x, regular trie %x, reference %x (%d entries)", sroot, rroot, ref.Root, len(model))
		}
		committed := map[string][]byte{}
		if set != nil {
			for path, n := range set.Nodes {
				if n.IsDeleted() {
					rt.Fatalf("trie built from empty committed a deletion at path %x", []byte(path))
				}
				committed[path] = n.Blob
			}
		}
		if err := c07SameNodes(emitted, committed); err != nil {
			rt.Fatalf("StackTrie emissions vs regular trie commit (%d entries): %v", len(model), err)
		}
		if err := c07SameNodes(committed, ref.Nodes); err != nil {
			rt.Fatalf("regular trie commit vs reference node set (%d entries): %v", len(model), err)
		}
		nt := len(ref.Nodes) >= 2
		c.NonTrivial(nt, fmt.Sprintf("st%s/%d/%x", sp.name, limit, ref.Root))
		c.Class("stack-" + sp.name)
		if ref.Embedded > 0 {
			c.Class("stack-has-embedded")
		}
		c.Sample(nt, func() any {
			return map[string]any{"stack": true, "space": sp.name, "entries": len(model), "stored_nodes": len(ref.Nodes), "embedded": ref.Embedded}
		})
	})
}

func c07SameNodes(a, b map[string][]byte) error {
	for p, blob := range a {
		o, ok := b[p]
		if !ok {
			return fmt.Errorf("path %x (%x) only on the left side", []byte(p), blob)
		}
		if !bytes.Equal(o, blob) {
			return fmt.Errorf("path %x: left %x, right %x", []byte(p), blob, o)
		}
	}
	for p, blob := range b {
		if _, ok := a[p]; !ok {
			return fmt.Errorf("path %x (%x) only on the right side", []byte(p), blob)
		}
	}
	return nil
}
