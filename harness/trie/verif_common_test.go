//go:build verif

package trie

// Shared helpers of the trie checks C06/C07 (agent w1-trie-a): finite key spaces,
// value generators, the map model, and reference comparisons. All identifiers are
// prefixed "vta" so that they cannot collide with the package's own test helpers.

import (
	"bytes"
	"fmt"
	"sort"

	"github.com/ethereum/go-ethereum/common"
	"github.com/ethereum/go-ethereum/triedb/database"
	"pgregory.net/rapid"
	"verif.local/kit/reftrie"
)

// vtaPRNG is splitmix64; seeded from a rapid-drawn uint64 for bulk data.
type vtaPRNG struct{ s uint64 }

func (p *vtaPRNG) next() uint64 {
	p.s += 0x9e3779b97f4a7c15
	z := p.s
	z = (z ^ (z >> 30)) * 0xbf58476d1ce4e5b9
	z = (z ^ (z >> 27)) * 0x94d049bb133111eb
	return z ^ (z >> 31)
}

func (p *vtaPRNG) intn(n int) int { return int(p.next() % uint64(n)) }

func (p *vtaPRNG) bytes(n int) []byte {
	out := make([]byte, n)
	for i := range out {
		out[i] = byte(p.next() >> 24)
	}
	return out
}

// vtaSpace is a finite pool of distinct keys of one fixed length (so that no key
// is a prefix of another: the precondition of the secure/account/storage tries and
// of the committer, "the key length of leaves should be exactly same").
type vtaSpace struct {
	name    string
	keys    [][]byte // ascending
	nibs    map[string]string
	byFirst [16][]int // pool indices by first nibble
}

var vtaAlphabet = []byte{0x00, 0x01, 0x10, 0x11, 0xf0, 0xff}

func vtaNibbles(k []byte) string {
	out := make([]byte, 0, 2*len(k))
	for _, b := range k {
		out = append(out, b>>4, b&0x0f)
	}
	return string(out)
}

func vtaFinishSpace(name string, keys [][]byte) *vtaSpace {
	sort.Slice(keys, func(i, j int) bool { return bytes.Compare(keys[i], keys[j]) < 0 })
	sp := &vtaSpace{name: name, keys: keys, nibs: make(map[string]string, len(keys))}
	for i, k := range keys {
		sp.nibs[string(k)] = vtaNibbles(k)
		sp.byFirst[k[0]>>4] = append(sp.byFirst[k[0]>>4], i)
	}
	return sp
}

// vtaSmallSpace is every key of length l over the 6-letter alphabet.
func vtaSmallSpace(l int) *vtaSpace {
	var keys [][]byte
	var rec func(prefix []byte)
	rec = func(prefix []byte) {
		if len(prefix) == l {
			keys = append(keys, append([]byte{}, prefix...))
			return
		}
		for _, a := range vtaAlphabet {
			rec(append(prefix, a))
		}
	}
	rec(nil)
	return vtaFinishSpace(fmt.Sprintf("small%d", l), keys)
}

// vtaWideSpace builds n distinct 32-byte keys: keccak outputs mixed with crafted
// keys that share 1..63 leading nibbles with an earlier key of the pool.
func vtaWideSpace(n int, seed uint64) *vtaSpace {
	p := &vtaPRNG{s: seed}
	seen := map[string]bool{}
	var keys [][]byte
	hostile := []int{1, 2, 3, 31, 32, 33, 61, 62, 63}
	for i := 0; len(keys) < n; i++ {
		var k []byte
		if len(keys) == 0 || p.intn(2) == 0 {
			h := reftrie.Keccak256([]byte(fmt.Sprintf("vta-%d-%d", seed, i)))
			k = h[:]
		} else {
			base := keys[p.intn(len(keys))]
			var share int
			if p.intn(2) == 0 {
				share = hostile[p.intn(len(hostile))]
			} else {
				share = 1 + p.intn(63)
			}
			nib := []byte(vtaNibbles(base))
			nib[share] = (nib[share] + byte(1+p.intn(15))) & 0x0f
			if p.intn(2) == 0 {
				for j := share + 1; j < 64; j++ {
					nib[j] = byte(p.intn(16))
				}
			}
			k = make([]byte, 32)
			for j := 0; j < 32; j++ {
				k[j] = nib[2*j]<<4 | nib[2*j+1]
			}
		}
		if !seen[string(k)] {
			seen[string(k)] = true
			keys = append(keys, k)
		}
	}
	return vtaFinishSpace(fmt.Sprintf("wide%d", n), keys)
}

// vtaDrawSpace draws one of the key spaces.
func vtaDrawSpace(rt *rapid.T) *vtaSpace {
	switch rapid.IntRange(0, 7).Draw(rt, "space") {
	case 0:
		return vtaSmallSpace(1)
	case 1, 2:
		return vtaSmallSpace(2)
	case 3:
		return vtaSmallSpace(3)
	default:
		n := rapid.SampledFrom([]int{6, 24, 96, 320}).Draw(rt, "wideN")
		return vtaWideSpace(n, rapid.Uint64().Draw(rt, "wideSeed"))
	}
}

// Value lengths: 27/29 make exactly-32-byte leaves for short key remainders, 31/32/33
// straddle the embedding bound, 1 gives embedded leaves and embedded branch nodes.
var vtaValueLens = []int{1, 1, 2, 26, 27, 28, 29, 30, 31, 32, 33, 40}

func vtaValueLen(pick, uniform int) int {
	if pick < len(vtaValueLens) {
		return vtaValueLens[pick]
	}
	return 1 + uniform%40
}

// Value profiles: 0 mixed, 1 tiny (1..3 bytes: embedded leaves and embedded inner
// nodes), 2 around the 32-byte embedding bound.
func vtaProfileLen(prof, pick, uniform int) int {
	switch prof {
	case 1:
		return 1 + uniform%3
	case 2:
		return 26 + uniform%8
	}
	return vtaValueLen(pick, uniform)
}

// vtaDrawValueP draws a non-empty value of 1..40 bytes under a profile.
func vtaDrawValueP(rt *rapid.T, prof int) []byte {
	n := vtaProfileLen(prof, rapid.IntRange(0, 2*len(vtaValueLens)).Draw(rt, "vlenPick"), rapid.IntRange(0, 39).Draw(rt, "vlenU"))
	return rapid.SliceOfN(rapid.Byte(), n, n).Draw(rt, "val")
}

// vtaDrawValue draws a non-empty value of 1..40 bytes (mixed profile).
func vtaDrawValue(rt *rapid.T) []byte { return vtaDrawValueP(rt, 0) }

// vtaBulkValueP is vtaDrawValueP from the PRNG.
func vtaBulkValueP(p *vtaPRNG, prof int) []byte {
	n := vtaProfileLen(prof, p.intn(2*len(vtaValueLens)+1), p.intn(40))
	v := p.bytes(n)
	if p.intn(4) == 0 {
		v[0] &= 0x7f // single bytes below 0x80 encode as themselves
	}
	return v
}

func vtaBulkValue(p *vtaPRNG) []byte { return vtaBulkValueP(p, 0) }

// vtaDrawProfile draws a value profile for one case.
func vtaDrawProfile(rt *rapid.T) int {
	return rapid.SampledFrom([]int{0, 0, 1, 2}).Draw(rt, "valueProfile")
}

// vtaModel is the reference content: key -> non-empty value.
type vtaModel map[string][]byte

func (m vtaModel) clone() vtaModel {
	c := make(vtaModel, len(m))
	for k, v := range m {
		c[k] = v
	}
	return c
}

func (m vtaModel) sortedKeys() []string {
	ks := make([]string, 0, len(m))
	for k := range m {
		ks = append(ks, k)
	}
	sort.Strings(ks)
	return ks
}

// apply performs one update (empty value = deletion) and reports whether an existing
// key was removed.
func (m vtaModel) apply(k, v []byte) bool {
	if len(v) == 0 {
		_, had := m[string(k)]
		delete(m, string(k))
		return had
	}
	m[string(k)] = v
	return false
}

// vtaCollapses reports whether removing the (present) key makes a branch node of the
// minimal trie of m disappear: the deepest branch on the key's path has exactly two
// children. Removing the only key ("empties") is reported separately.
func vtaCollapses(m vtaModel, sp *vtaSpace, key string) (collapse, empties bool) {
	if _, ok := m[key]; !ok {
		return false, false
	}
	if len(m) == 1 {
		return false, true
	}
	kn := sp.nibs[key]
	best := -1
	var other [16]bool
	for o := range m {
		if o == key {
			continue
		}
		on := sp.nibs[o]
		d := 0
		for d < len(kn) && kn[d] == on[d] {
			d++
		}
		if d > best {
			best = d
			other = [16]bool{}
		}
		if d == best {
			other[on[d]] = true
		}
	}
	cnt := 0
	for _, b := range other {
		if b {
			cnt++
		}
	}
	return cnt == 1, false
}

// vtaRef builds the independent reference trie of the model.
func vtaRef(m vtaModel) *reftrie.Result { return reftrie.Build(map[string][]byte(m)) }

// vtaStackRoot feeds the sorted model to the streaming builder.
func vtaStackRoot(m vtaModel, onNode OnTrieNode) (common.Hash, error) {
	st := NewStackTrie(onNode)
	for _, k := range m.sortedKeys() {
		if err := st.Update([]byte(k), m[k]); err != nil {
			return common.Hash{}, err
		}
	}
	return st.Hash(), nil
}

// vtaFreshRoot builds a regular trie from empty with the sorted model.
func vtaFreshRoot(m vtaModel) common.Hash {
	tr := NewEmpty(nil)
	for _, k := range m.sortedKeys() {
		tr.MustUpdate([]byte(k), m[k])
	}
	return tr.Hash()
}

type vtaKV struct{ k, v []byte }

// vtaLeaves walks the node iterator and returns the leaf sequence.
func vtaLeaves(tr *Trie) ([]vtaKV, error) {
	nit, err := tr.NodeIterator(nil)
	if err != nil {
		return nil, err
	}
	it := NewIterator(nit)
	var out []vtaKV
	for it.Next() {
		out = append(out, vtaKV{common.CopyBytes(it.Key), common.CopyBytes(it.Value)})
	}
	return out, it.Err
}

// vtaCheckLeaves compares the iterated leaf sequence with the sorted model.
func vtaCheckLeaves(tr *Trie, m vtaModel) error {
	got, err := vtaLeaves(tr)
	if err != nil {
		return fmt.Errorf("iterator error: %v", err)
	}
	want := m.sortedKeys()
	for i := 0; i < len(got) || i < len(want); i++ {
		switch {
		case i >= len(want):
			return fmt.Errorf("iterator yields extra entry #%d key %x value %x (model has %d entries)", i, got[i].k, got[i].v, len(want))
		case i >= len(got):
			return fmt.Errorf("iterator ends after %d entries, model entry #%d key %x missing", len(got), i, want[i])
		case string(got[i].k) != want[i]:
			return fmt.Errorf("iterator entry #%d has key %x, model (ascending) has %x", i, got[i].k, want[i])
		case !bytes.Equal(got[i].v, m[want[i]]):
			return fmt.Errorf("iterator entry #%d key %x has value %x, model %x", i, got[i].k, got[i].v, m[want[i]])
		}
	}
	return nil
}

// vtaCheckGets looks every listed key up and compares with the model (absent = nil).
func vtaCheckGets(tr *Trie, m vtaModel, keys [][]byte) error {
	for _, k := range keys {
		got, err := tr.Get(k)
		if err != nil {
			return fmt.Errorf("Get(%x): %v", k, err)
		}
		want := m[string(k)]
		if !bytes.Equal(got, want) || (want != nil && got == nil) {
			return fmt.Errorf("Get(%x) = %x, model %x", k, got, want)
		}
	}
	return nil
}

// vtaStore is a plain map node store kept by the harness: path -> blob under the
// path scheme, hash -> blob under the hash scheme. It implements the trie's
// NodeDatabase/NodeReader interfaces by direct lookup, nothing else.
type vtaStore struct {
	pathScheme bool
	nodes      map[string][]byte
}

func vtaNewStore(pathScheme bool) *vtaStore {
	return &vtaStore{pathScheme: pathScheme, nodes: map[string][]byte{}}
}

func (s *vtaStore) NodeReader(common.Hash) (database.NodeReader, error) { return s, nil }

func (s *vtaStore) Node(_ common.Hash, path []byte, hash common.Hash) ([]byte, error) {
	if s.pathScheme {
		blob := s.nodes[string(path)]
		if blob == nil || common.Hash(reftrie.Keccak256(blob)) != hash {
			return nil, nil // "no error will be returned if the node is not found"
		}
		return blob, nil
	}
	return s.nodes[string(hash[:])], nil
}

func vtaHex(b []byte) string { return fmt.Sprintf("%x", b) }
