//go:build verif

package trie

// C06: the trie's root hash, lookups and ordered iteration depend only on the
// resulting key/value set, whatever the history of inserts, overwrites, deletions
// and (concurrent) batch updates. Oracles: Go map model + kit/reftrie (independent
// MPT construction), a fresh trie built from the sorted set, the streaming builder.

import (
	"bytes"
	"fmt"
	"hash/fnv"
	"runtime"
	"sort"
	"testing"

	"github.com/ethereum/go-ethereum/common"
	"github.com/ethereum/go-ethereum/core/rawdb"
	"github.com/ethereum/go-ethereum/core/types"
	"github.com/ethereum/go-ethereum/rlp"
	"github.com/ethereum/go-ethereum/trie/trienode"
	"pgregory.net/rapid"
	"verif.local/kit/reftrie"
	vs "verif.local/kit/stat"
)

// c06Src abstracts "small choices": rapid draws (shrinkable) for small batches,
// a rapid-seeded PRNG for bulk batches.
type c06Src interface {
	intn(n int) int
	value() []byte
}

type c06RapidSrc struct {
	rt   *rapid.T
	prof int
}

func (s c06RapidSrc) intn(n int) int { return rapid.IntRange(0, n-1).Draw(s.rt, "i") }
func (s c06RapidSrc) value() []byte  { return vtaDrawValueP(s.rt, s.prof) }

type c06BulkSrc struct {
	p    *vtaPRNG
	prof int
}

func (s c06BulkSrc) intn(n int) int { return s.p.intn(n) }
func (s c06BulkSrc) value() []byte  { return vtaBulkValueP(s.p, s.prof) }

type c06Frozen struct {
	tr    *Trie
	model vtaModel
	step  int
}

type c06Gen struct {
	cases, concurrent, collapse, fewSurvivors, rootNotFull, parallelHash, reopen, copies int
}

type c06Machine struct {
	rt     *rapid.T
	sp     *vtaSpace
	prof   int
	db     *testDb
	parent common.Hash
	tr     *Trie
	model  vtaModel
	used   map[string]bool
	frozen []c06Frozen
	step   int
	desc   interface{ Write([]byte) (int, error) }
	labels map[string]bool
}

func (m *c06Machine) fail(format string, a ...any) {
	m.rt.Helper()
	m.rt.Fatalf("C06 space=%s step=%d: %s", m.sp.name, m.step, fmt.Sprintf(format, a...))
}

func (m *c06Machine) note(op string, k, v []byte) {
	m.desc.Write([]byte(op))
	m.desc.Write(k)
	m.desc.Write([]byte{0xff, byte(len(v))})
	m.desc.Write(v)
}

func (m *c06Machine) touch(k []byte) { m.used[string(k)] = true }

// applyModel applies one entry to the model and classifies deletions.
func (m *c06Machine) applyModel(k, v []byte) {
	if len(v) == 0 {
		col, emp := vtaCollapses(m.model, m.sp, string(k))
		if col {
			m.labels["collapse"] = true
		}
		if emp {
			m.labels["empties"] = true
		}
	}
	m.model.apply(k, v)
	m.touch(k)
}

func (m *c06Machine) pickKey(preferPresent bool) []byte {
	if preferPresent && len(m.model) > 0 && rapid.IntRange(0, 3).Draw(m.rt, "fromPresent") > 0 {
		ks := m.model.sortedKeys()
		return []byte(ks[rapid.IntRange(0, len(ks)-1).Draw(m.rt, "presentIdx")])
	}
	return m.sp.keys[rapid.IntRange(0, len(m.sp.keys)-1).Draw(m.rt, "keyIdx")]
}

// batchRoute replicates the routing decision of UpdateBatch for labelling only.
func c06BatchRoute(tr *Trie, keys, vals [][]byte) string {
	if len(keys) < parallelUpdateThreshold {
		return "batch-small"
	}
	fn, ok := tr.root.(*fullNode)
	if !ok {
		return "batch-rootnotfull"
	}
	var deleted [17]bool
	for i, k := range keys {
		if len(vals[i]) == 0 {
			deleted[k[0]>>4] = true
		}
	}
	survivors := 0
	for i, child := range &fn.Children {
		if child != nil && !deleted[i] {
			survivors++
		}
	}
	if survivors < 2 {
		return "batch-fewsurvivors"
	}
	return "batch-concurrent"
}

// genBatch produces the entries of one batch.
func (m *c06Machine) genBatch() (keys, vals [][]byte, mode string) {
	rt := m.rt
	var size int
	switch rapid.IntRange(0, 6).Draw(rt, "sizeClass") {
	case 0:
		size = rapid.IntRange(0, 3).Draw(rt, "size")
	case 1:
		size = 4
	case 2, 3, 4:
		size = rapid.IntRange(5, 40).Draw(rt, "size")
	default:
		size = rapid.IntRange(101, 300).Draw(rt, "size")
	}
	var src c06Src
	if size <= 40 {
		src = c06RapidSrc{rt, m.prof}
	} else {
		src = c06BulkSrc{&vtaPRNG{s: rapid.Uint64().Draw(rt, "bulkSeed")}, m.prof}
	}
	add := func(k, v []byte) { keys = append(keys, k); vals = append(vals, v) }
	emptyVal := func() []byte {
		if src.intn(2) == 0 {
			return nil
		}
		return []byte{}
	}
	mode = rapid.SampledFrom([]string{"uniform", "uniform", "onenibble", "killer", "killer", "dups"}).Draw(rt, "mode")
	switch mode {
	case "uniform":
		delOutOf4 := rapid.IntRange(0, 4).Draw(rt, "delOutOf4")
		for i := 0; i < size; i++ {
			k := m.sp.keys[src.intn(len(m.sp.keys))]
			if src.intn(4) < delOutOf4 {
				add(k, emptyVal())
			} else {
				add(k, src.value())
			}
		}
	case "onenibble":
		var nibs []int
		for n := 0; n < 16; n++ {
			if len(m.sp.byFirst[n]) > 0 {
				nibs = append(nibs, n)
			}
		}
		group := m.sp.byFirst[nibs[src.intn(len(nibs))]]
		for i := 0; i < size; i++ {
			k := m.sp.keys[group[src.intn(len(group))]]
			if src.intn(3) == 0 {
				add(k, emptyVal())
			} else {
				add(k, src.value())
			}
		}
	case "killer":
		// delete every present key except those below `keep` first nibbles, so that the
		// root keeps 0, 1 or 2 children; optionally re-insert under other nibbles.
		present := [16][]string{}
		for _, k := range m.model.sortedKeys() {
			present[k[0]>>4] = append(present[k[0]>>4], k)
		}
		var nibs []int
		for n := 0; n < 16; n++ {
			if len(present[n]) > 0 {
				nibs = append(nibs, n)
			}
		}
		keep := rapid.IntRange(0, 2).Draw(rt, "keep")
		kept := map[int]bool{}
		for len(kept) < keep && len(kept) < len(nibs) {
			kept[nibs[src.intn(len(nibs))]] = true
		}
		for _, n := range nibs {
			if kept[n] {
				continue
			}
			for _, k := range present[n] {
				add([]byte(k), emptyVal())
			}
		}
		extra := rapid.IntRange(0, 6).Draw(rt, "extra")
		for i := 0; i < extra; i++ {
			k := m.sp.keys[src.intn(len(m.sp.keys))]
			if rapid.Bool().Draw(rt, "extraOnlyKept") && !kept[int(k[0]>>4)] {
				continue
			}
			add(k, src.value())
		}
		// shuffle so that deletions and insertions interleave
		for i := len(keys) - 1; i > 0; i-- {
			j := src.intn(i + 1)
			keys[i], keys[j] = keys[j], keys[i]
			vals[i], vals[j] = vals[j], vals[i]
		}
	case "dups":
		nk := 1 + src.intn(3)
		var pool [][]byte
		for i := 0; i < nk; i++ {
			pool = append(pool, m.sp.keys[src.intn(len(m.sp.keys))])
		}
		for i := 0; i < size; i++ {
			k := pool[src.intn(len(pool))]
			if src.intn(2) == 0 {
				add(k, emptyVal())
			} else {
				add(k, src.value())
			}
		}
	}
	return keys, vals, mode
}

func (m *c06Machine) opBatch() {
	keys, vals, mode := m.genBatch()
	route := c06BatchRoute(m.tr, keys, vals)
	m.labels[route] = true
	m.labels["mode-"+mode] = true
	if len(keys) > 100 {
		m.labels["batch>100"] = true
	}
	var seq *Trie
	if rapid.Bool().Draw(m.rt, "seqDifferential") {
		seq = m.tr.Copy()
	}
	if err := m.tr.UpdateBatch(keys, vals); err != nil {
		m.fail("UpdateBatch(%d entries, %s, %s): %v", len(keys), mode, route, err)
	}
	for i := range keys {
		m.note("b", keys[i], vals[i])
		m.applyModel(keys[i], vals[i])
	}
	if err := vtaCheckGets(m.tr, m.model, keys); err != nil {
		m.fail("after UpdateBatch(%d entries, %s, %s): %v", len(keys), mode, route, err)
	}
	if seq != nil {
		for i := range keys {
			if err := seq.Update(keys[i], vals[i]); err != nil {
				m.fail("sequential twin Update: %v", err)
			}
		}
		if a, b := m.tr.Hash(), seq.Hash(); a != b {
			m.fail("UpdateBatch(%d entries, %s, %s) root %x != one-by-one application on a copy %x", len(keys), mode, route, a, b)
		}
	}
}

func (m *c06Machine) checkHash(where string) {
	if m.tr.unhashed >= 100 {
		if _, ok := m.tr.root.(*fullNode); ok {
			m.labels["parallel-hash"] = true
		}
	}
	got := m.tr.Hash()
	if want := vtaRef(m.model).Root; got != common.Hash(want) {
		m.fail("%s: Hash() = %x, reference root of the %d-entry model = %x", where, got, len(m.model), want)
	}
}

func (m *c06Machine) usedKeys() [][]byte {
	ks := make([]string, 0, len(m.used))
	for k := range m.used {
		ks = append(ks, k)
	}
	sort.Strings(ks)
	out := make([][]byte, len(ks))
	for i, k := range ks {
		out[i] = []byte(k)
	}
	return out
}

func (m *c06Machine) fullCheck(tr *Trie, model vtaModel, where string, builders bool) {
	keys := m.usedKeys()
	// a few never-written keys as well
	for i := 0; i < 3; i++ {
		keys = append(keys, m.sp.keys[(i*7919+len(keys))%len(m.sp.keys)])
	}
	if err := vtaCheckGets(tr, model, keys); err != nil {
		m.fail("%s: %v", where, err)
	}
	ref := vtaRef(model)
	if got := tr.Hash(); got != common.Hash(ref.Root) {
		m.fail("%s: Hash() = %x, reference root of the %d-entry model = %x", where, got, len(model), ref.Root)
	}
	if err := vtaCheckLeaves(tr, model); err != nil {
		m.fail("%s: %v", where, err)
	}
	if builders {
		if fr := vtaFreshRoot(model); fr != common.Hash(ref.Root) {
			m.fail("%s: fresh trie built from the sorted model has root %x, reference %x", where, fr, ref.Root)
		}
		sr, err := vtaStackRoot(model, nil)
		if err != nil {
			m.fail("%s: StackTrie rejected the sorted model: %v", where, err)
		}
		if sr != common.Hash(ref.Root) {
			m.fail("%s: StackTrie root %x, reference %x (%d entries)", where, sr, ref.Root, len(model))
		}
	}
}

func (m *c06Machine) opCommit() {
	m.labels["commit-reopen"] = true
	if m.tr.uncommitted > 100 {
		m.labels["parallel-commit"] = true
	}
	root, nodes := m.tr.Commit(rapid.Bool().Draw(m.rt, "collectLeaf"))
	if want := vtaRef(m.model).Root; root != common.Hash(want) {
		m.fail("Commit root %x, reference %x", root, want)
	}
	if nodes != nil {
		if err := m.db.Update(root, m.parent, trienode.NewWithNodeSet(nodes)); err != nil {
			m.fail("db.Update: %v", err)
		}
	}
	tr, err := New(TrieID(root), m.db)
	if err != nil {
		m.fail("reopen %x: %v", root, err)
	}
	m.tr, m.parent = tr, root
	m.note("c", nil, nil)
}

func (m *c06Machine) opCopy() {
	m.labels["copy"] = true
	cp := m.tr.Copy()
	snap := m.model.clone()
	if len(m.frozen) >= 2 {
		m.frozen = m.frozen[1:]
	}
	if rapid.Bool().Draw(m.rt, "continueOnCopy") {
		m.frozen = append(m.frozen, c06Frozen{m.tr, snap, m.step})
		m.tr = cp
	} else {
		m.frozen = append(m.frozen, c06Frozen{cp, snap, m.step})
	}
	m.note("y", nil, nil)
}

func c06Sequence(rt *rapid.T, st *vs.S, gen *c06Gen) {
	c := st.Case()
	h := fnv.New64a()
	sp := vtaDrawSpace(rt)
	scheme := rapid.SampledFrom([]string{rawdb.HashScheme, rawdb.PathScheme}).Draw(rt, "scheme")
	m := &c06Machine{
		rt: rt, sp: sp, prof: vtaDrawProfile(rt), db: newTestDatabase(rawdb.NewMemoryDatabase(), scheme), parent: types.EmptyRootHash,
		model: vtaModel{}, used: map[string]bool{}, desc: h, labels: map[string]bool{},
	}
	m.tr = NewEmpty(m.db)
	h.Write([]byte(sp.name))
	for _, k := range sp.keys[:min(4, len(sp.keys))] {
		h.Write(k)
	}
	// optional pre-populated, committed and reopened base
	if rapid.IntRange(0, 2).Draw(rt, "base") == 0 {
		p := &vtaPRNG{s: rapid.Uint64().Draw(rt, "baseSeed")}
		frac := rapid.IntRange(1, 4).Draw(rt, "baseFrac")
		for _, k := range sp.keys {
			if p.intn(4) < frac {
				v := vtaBulkValueP(p, m.prof)
				m.tr.MustUpdate(k, v)
				m.model.apply(k, v)
				m.touch(k)
				m.note("p", k, v)
			}
		}
		m.opCommit()
		m.labels["base-reopened"] = true
	}
	steps := rapid.IntRange(1, 60).Draw(rt, "steps")
	for m.step = 1; m.step <= steps; m.step++ {
		switch op := rapid.SampledFrom([]string{
			"update", "update", "update", "update", "update", "delete", "delete", "delete", "updateEmpty",
			"batch", "batch", "batch", "batch", "hash", "hash", "commit", "copy", "full",
		}).Draw(rt, "op"); op {
		case "update":
			k, v := m.pickKey(false), vtaDrawValueP(rt, m.prof)
			if err := m.tr.Update(k, v); err != nil {
				m.fail("Update(%x): %v", k, err)
			}
			m.note("u", k, v)
			m.applyModel(k, v)
			if err := vtaCheckGets(m.tr, m.model, [][]byte{k}); err != nil {
				m.fail("after Update: %v", err)
			}
		case "delete":
			k := m.pickKey(true)
			if err := m.tr.Delete(k); err != nil {
				m.fail("Delete(%x): %v", k, err)
			}
			m.note("d", k, nil)
			m.applyModel(k, nil)
			if err := vtaCheckGets(m.tr, m.model, [][]byte{k}); err != nil {
				m.fail("after Delete: %v", err)
			}
		case "updateEmpty":
			k := m.pickKey(true)
			var v []byte
			if rapid.Bool().Draw(rt, "emptyNotNil") {
				v = []byte{}
			}
			if err := m.tr.Update(k, v); err != nil {
				m.fail("Update(%x, empty): %v", k, err)
			}
			m.note("e", k, nil)
			m.applyModel(k, nil)
			if err := vtaCheckGets(m.tr, m.model, [][]byte{k}); err != nil {
				m.fail("after Update(empty): %v", err)
			}
		case "batch":
			m.opBatch()
		case "hash":
			m.checkHash("mid-sequence")
			m.note("h", nil, nil)
		case "commit":
			m.opCommit()
		case "copy":
			m.opCopy()
		case "full":
			m.fullCheck(m.tr, m.model, "mid-sequence full check", false)
		}
	}
	m.step = steps + 1
	m.fullCheck(m.tr, m.model, "end of sequence", true)
	for _, f := range m.frozen {
		m.fullCheck(f.tr, f.model, fmt.Sprintf("copy taken at step %d", f.step), false)
	}
	if len(m.model) == 0 {
		m.labels["ends-empty"] = true
	}
	if ref := vtaRef(m.model); ref.Embedded > ref.Leaves {
		m.labels["embedded-inner-nodes"] = true
	}
	nontrivial := m.labels["collapse"] || m.labels["batch-concurrent"]
	c.NonTrivial(nontrivial, fmt.Sprintf("%x", h.Sum64()))
	c.Class("space-" + sp.name)
	c.Classf("valueprofile-%d", m.prof)
	ls := make([]string, 0, len(m.labels))
	for l := range m.labels {
		ls = append(ls, l)
	}
	sort.Strings(ls)
	for _, l := range ls {
		c.Class(l)
	}
	c.Sample(nontrivial, func() any {
		return map[string]any{"space": sp.name, "scheme": scheme, "steps": steps, "final_entries": len(m.model), "labels": ls}
	})
	gen.cases++
	for l, p := range map[string]*int{"batch-concurrent": &gen.concurrent, "collapse": &gen.collapse, "batch-fewsurvivors": &gen.fewSurvivors,
		"batch-rootnotfull": &gen.rootNotFull, "parallel-hash": &gen.parallelHash, "commit-reopen": &gen.reopen, "copy": &gen.copies} {
		if m.labels[l] {
			*p++
		}
	}
}

// selfCheck asserts minimum shares of the classes that matter (generator self-test).
func (g *c06Gen) selfCheck(t *testing.T) {
	if t.Failed() || g.cases < 400 {
		return
	}
	for name, n := range map[string]int{"batch-concurrent": g.concurrent, "collapse": g.collapse, "batch-fewsurvivors": g.fewSurvivors,
		"batch-rootnotfull": g.rootNotFull, "parallel-hash": g.parallelHash, "commit-reopen": g.reopen, "copy": g.copies} {
		if n*100 < g.cases*3 {
			t.Fatalf("VERIF-HARNESS-BUG: generator class %q has share %d/%d (< 3%%)", name, n, g.cases)
		}
	}
}

// TestVerifC06Seq is the main state machine.
func TestVerifC06Seq(t *testing.T) {
	st := vs.New("C06", t)
	gen := &c06Gen{}
	vs.Check(t, 1, func(rt *rapid.T) { c06Sequence(rt, st, gen) })
	gen.selfCheck(t)
}

// TestVerifC06ConcBatch concentrates on the concurrent batch path and the parallel
// hasher: big tries (resolved and unresolved), big mixed batches, GOMAXPROCS drawn,
// every batch repeated on copies of the same start state; results must equal the
// one-by-one application and the reference. Run under -race in the thorough tier.
func TestVerifC06ConcBatch(t *testing.T) {
	st := vs.New("C06", t)
	defer runtime.GOMAXPROCS(runtime.GOMAXPROCS(0))
	vs.Check(t, 0.1, func(rt *rapid.T) {
		c := st.Case()
		procs := rapid.SampledFrom([]int{1, 2, 4, 16}).Draw(rt, "gomaxprocs")
		runtime.GOMAXPROCS(procs)
		var sp *vtaSpace
		if rapid.IntRange(0, 3).Draw(rt, "space") == 0 {
			sp = vtaSmallSpace(3)
		} else {
			sp = vtaWideSpace(rapid.SampledFrom([]int{96, 320}).Draw(rt, "wideN"), rapid.Uint64().Draw(rt, "wideSeed"))
		}
		scheme := rapid.SampledFrom([]string{rawdb.HashScheme, rawdb.PathScheme}).Draw(rt, "scheme")
		db := newTestDatabase(rawdb.NewMemoryDatabase(), scheme)
		p := &vtaPRNG{s: rapid.Uint64().Draw(rt, "seed")}
		model := vtaModel{}
		tr := NewEmpty(db)
		frac := rapid.IntRange(1, 4).Draw(rt, "baseFrac")
		var bk, bv [][]byte
		for _, k := range sp.keys {
			if p.intn(4) < frac {
				v := vtaBulkValue(p)
				bk, bv = append(bk, k), append(bv, v)
				model.apply(k, v)
			}
		}
		// the base itself goes in as two batches: the first meets an empty root
		half := len(bk) / 2
		if err := tr.UpdateBatch(bk[:half], bv[:half]); err != nil {
			rt.Fatalf("base batch 1: %v", err)
		}
		if err := tr.UpdateBatch(bk[half:], bv[half:]); err != nil {
			rt.Fatalf("base batch 2: %v", err)
		}
		reopened := rapid.Bool().Draw(rt, "reopen")
		if reopened {
			root, nodes := tr.Commit(false)
			if root != common.Hash(vtaRef(model).Root) {
				rt.Fatalf("base commit root %x, reference %x", root, vtaRef(model).Root)
			}
			if nodes != nil {
				db.Update(root, types.EmptyRootHash, trienode.NewWithNodeSet(nodes))
			}
			var err error
			if tr, err = New(TrieID(root), db); err != nil {
				rt.Fatalf("reopen: %v", err)
			}
		}
		rounds := rapid.IntRange(1, 3).Draw(rt, "rounds")
		concurrent, collapse := 0, false
		h := fnv.New64a()
		fmt.Fprintf(h, "%s/%d/%v/%d", sp.name, procs, reopened, len(model))
		for r := 0; r < rounds; r++ {
			size := rapid.IntRange(101, 300).Draw(rt, "size")
			delOutOf4 := rapid.IntRange(0, 3).Draw(rt, "delOutOf4")
			var keys, vals [][]byte
			present := model.sortedKeys()
			for i := 0; i < size; i++ {
				if p.intn(4) < delOutOf4 && len(present) > 0 {
					keys, vals = append(keys, []byte(present[p.intn(len(present))])), append(vals, nil)
				} else {
					keys, vals = append(keys, sp.keys[p.intn(len(sp.keys))]), append(vals, vtaBulkValue(p))
				}
			}
			route := c06BatchRoute(tr, keys, vals)
			if route == "batch-concurrent" {
				concurrent++
			}
			for i := range keys {
				if len(vals[i]) == 0 {
					if col, _ := vtaCollapses(model, sp, string(keys[i])); col {
						collapse = true
					}
				}
				model.apply(keys[i], vals[i])
				h.Write(keys[i])
				h.Write(vals[i])
			}
			want := common.Hash(vtaRef(model).Root)
			seq := tr.Copy()
			for i := range keys {
				if err := seq.Update(keys[i], vals[i]); err != nil {
					rt.Fatalf("sequential Update: %v", err)
				}
			}
			if got := seq.Hash(); got != want {
				rt.Fatalf("round %d: one-by-one application root %x, reference %x", r, got, want)
			}
			repeats := rapid.IntRange(1, 3).Draw(rt, "repeats")
			var next *Trie
			for rep := 0; rep < repeats; rep++ {
				cp := tr.Copy()
				if err := cp.UpdateBatch(keys, vals); err != nil {
					rt.Fatalf("round %d rep %d UpdateBatch(%s): %v", r, rep, route, err)
				}
				if got := cp.Hash(); got != want {
					rt.Fatalf("round %d rep %d GOMAXPROCS=%d: UpdateBatch(%d entries, %s) root %x, reference %x", r, rep, procs, len(keys), route, got, want)
				}
				next = cp
			}
			tr = next
			if err := vtaCheckGets(tr, model, keys); err != nil {
				rt.Fatalf("round %d after UpdateBatch(%s): %v", r, route, err)
			}
		}
		if err := vtaCheckLeaves(tr, model); err != nil {
			rt.Fatalf("end: %v", err)
		}
		nt := concurrent > 0 || collapse
		c.NonTrivial(nt, fmt.Sprintf("%x", h.Sum64()))
		c.Classf("conc-procs%d", procs)
		c.Classf("conc-%s reopened=%v", sp.name, reopened)
		if concurrent > 0 {
			c.Class("batch-concurrent")
		}
		c.Sample(nt, func() any {
			return map[string]any{"space": sp.name, "gomaxprocs": procs, "reopened": reopened, "rounds": rounds, "concurrent_batches": concurrent, "final_entries": len(model)}
		})
	})
}

// TestVerifC06Secure runs the same oracle through the hashed-key StateTrie API.
func TestVerifC06Secure(t *testing.T) {
	st := vs.New("C06", t)
	vs.Check(t, 0.2, func(rt *rapid.T) {
		c := st.Case()
		db := newTestDatabase(rawdb.NewMemoryDatabase(), rawdb.HashScheme)
		tr, err := NewStateTrie(TrieID(types.EmptyRootHash), db)
		if err != nil {
			rt.Fatalf("NewStateTrie: %v", err)
		}
		// raw keys: small integers, so that histories collide
		nkeys := rapid.SampledFrom([]int{3, 12, 60, 200}).Draw(rt, "nkeys")
		raw := func(i int) []byte { return []byte(fmt.Sprintf("slot-%d", i)) }
		hashed := func(k []byte) string { h := reftrie.Keccak256(k); return string(h[:]) }
		sp := &vtaSpace{name: "secure", nibs: map[string]string{}}
		for i := 0; i < nkeys; i++ {
			hk := hashed(raw(i))
			sp.nibs[hk] = vtaNibbles([]byte(hk))
		}
		model := vtaModel{}  // hashed key -> stored (RLP) value
		plain := vtaModel{}  // raw key -> plain value
		collapse, concurrent := false, false
		h := fnv.New64a()
		del := func(k []byte) {
			hk := hashed(k)
			if col, _ := vtaCollapses(model, sp, hk); col {
				collapse = true
			}
			delete(model, hk)
			delete(plain, string(k))
		}
		put := func(k, v []byte) {
			enc, _ := rlp.EncodeToBytes(v)
			model[hashed(k)] = enc
			plain[string(k)] = v
		}
		steps := rapid.IntRange(1, 30).Draw(rt, "steps")
		for s := 0; s < steps; s++ {
			switch rapid.SampledFrom([]string{"put", "put", "del", "batch", "batch", "hash", "copy"}).Draw(rt, "op") {
			case "put":
				k, v := raw(rapid.IntRange(0, nkeys-1).Draw(rt, "k")), vtaDrawValue(rt)
				if err := tr.UpdateStorage(common.Address{}, k, v); err != nil {
					rt.Fatalf("UpdateStorage: %v", err)
				}
				put(k, v)
				h.Write(k)
				h.Write(v)
			case "del":
				k := raw(rapid.IntRange(0, nkeys-1).Draw(rt, "k"))
				if err := tr.DeleteStorage(common.Address{}, k); err != nil {
					rt.Fatalf("DeleteStorage: %v", err)
				}
				del(k)
				h.Write(k)
			case "batch":
				// StateTrie batches RLP-encode their values, so an empty value is not a
				// deletion there; only non-empty values are in the domain.
				n := rapid.SampledFrom([]int{1, 3, 4, 5, 17, 120}).Draw(rt, "n")
				p := &vtaPRNG{s: rapid.Uint64().Draw(rt, "seed")}
				var ks, vals [][]byte
				for i := 0; i < n; i++ {
					ks, vals = append(ks, raw(p.intn(nkeys))), append(vals, vtaBulkValue(p))
				}
				if _, ok := tr.trie.root.(*fullNode); ok && n >= parallelUpdateThreshold {
					concurrent = true
				}
				if err := tr.UpdateStorageBatch(common.Address{}, ks, vals); err != nil {
					rt.Fatalf("UpdateStorageBatch: %v", err)
				}
				for i := range ks {
					put(ks[i], vals[i])
					h.Write(ks[i])
					h.Write(vals[i])
				}
			case "hash":
				if got, want := tr.Hash(), common.Hash(vtaRef(model).Root); got != want {
					rt.Fatalf("step %d: StateTrie.Hash() %x, reference %x", s, got, want)
				}
			case "copy":
				tr = tr.Copy()
			}
		}
		if got, want := tr.Hash(), common.Hash(vtaRef(model).Root); got != want {
			rt.Fatalf("end: StateTrie.Hash() %x, reference %x (%d entries)", got, want, len(model))
		}
		for i := 0; i < nkeys; i++ {
			got, err := tr.GetStorage(common.Address{}, raw(i))
			if err != nil {
				rt.Fatalf("GetStorage: %v", err)
			}
			if !bytes.Equal(got, plain[string(raw(i))]) {
				rt.Fatalf("GetStorage(%s) = %x, model %x", raw(i), got, plain[string(raw(i))])
			}
		}
		if err := vtaCheckLeaves(&tr.trie, model); err != nil {
			rt.Fatalf("secure trie iteration: %v", err)
		}
		nt := collapse || concurrent
		c.NonTrivial(nt, fmt.Sprintf("s%x", h.Sum64()))
		c.Classf("secure-nkeys%d", nkeys)
		c.Sample(nt, func() any {
			return map[string]any{"secure": true, "nkeys": nkeys, "steps": steps, "final_entries": len(model)}
		})
	})
}
