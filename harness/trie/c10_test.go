//go:build verif

package trie

import (
	"bytes"
	"fmt"
	"testing"

	"pgregory.net/rapid"
	vs "verif.local/kit/stat"
)

// refHP is the Yellow Paper hex-prefix function HP(x, t) written independently.
func refHP(nibbles []byte, term bool) []byte {
	f := byte(0)
	if term {
		f = 2
	}
	var out []byte
	rest := nibbles
	if len(nibbles)%2 == 1 {
		out = append(out, 16*(f+1)+nibbles[0])
		rest = nibbles[1:]
	} else {
		out = append(out, 16*f)
	}
	for i := 0; i < len(rest); i += 2 {
		out = append(out, 16*rest[i]+rest[i+1])
	}
	return out
}

// refHPDecode inverts refHP.
func refHPDecode(c []byte) (nibbles []byte, term bool) {
	flag := c[0] >> 4
	term = flag&2 != 0
	if flag&1 == 1 {
		nibbles = append(nibbles, c[0]&0x0f)
	}
	for _, b := range c[1:] {
		nibbles = append(nibbles, b>>4, b&0x0f)
	}
	return nibbles, term
}

func c10CheckPath(t interface{ Fatalf(string, ...any) }, nib []byte, term bool) []byte {
	hex := append([]byte{}, nib...)
	if term {
		hex = append(hex, 16)
	}
	orig := append([]byte{}, hex...)
	comp := hexToCompact(hex)
	if !bytes.Equal(hex, orig) {
		t.Fatalf("hexToCompact mutated its input %x -> %x", orig, hex)
	}
	if want := refHP(nib, term); !bytes.Equal(comp, want) {
		t.Fatalf("hexToCompact(%x)=%x, reference HP=%x", orig, comp, want)
	}
	back := compactToHex(comp)
	if !bytes.Equal(back, orig) {
		t.Fatalf("compactToHex(hexToCompact(%x))=%x", orig, back)
	}
	if hasTerm(back) != term {
		t.Fatalf("hasTerm(%x)=%v want %v", back, hasTerm(back), term)
	}
	rn, rt := refHPDecode(comp)
	if !bytes.Equal(rn, nib) || rt != term {
		t.Fatalf("reference decode of %x = %x,%v want %x,%v", comp, rn, rt, nib, term)
	}
	// The in-place variant writes its (>= 1 byte) result into the input buffer, so it
	// is only defined for non-empty hex input (its callers, the stack trie's extension
	// and leaf keys, always have >= 1 element).
	if len(orig) > 0 {
		buf := append([]byte{}, orig...)
		inpl := hexToCompactInPlace(buf)
		if !bytes.Equal(inpl, comp) {
			t.Fatalf("hexToCompactInPlace(%x)=%x, hexToCompact=%x", orig, inpl, comp)
		}
		if len(inpl) != len(nib)/2+1 {
			t.Fatalf("hexToCompactInPlace(%x) length %d want %d", orig, len(inpl), len(nib)/2+1)
		}
	}
	if len(nib)%2 == 0 {
		kb := hexToKeybytes(orig)
		if !bytes.Equal(keybytesToHex(kb), append(append([]byte{}, nib...), 16)) {
			t.Fatalf("keybytesToHex(hexToKeybytes(%x)) = %x", orig, keybytesToHex(kb))
		}
	}
	return comp
}

// TestVerifC10Exhaustive enumerates every nibble path up to a length bound, with
// and without terminator, and checks the round trip, the in-place variant, the
// independent HP reference, leaf/extension separation and injectivity.
func TestVerifC10Exhaustive(t *testing.T) {
	vs.OnlyShard0(t)
	st := vs.New("C10", t)
	maxLen := 4
	if vs.Thorough() {
		maxLen = 5
	}
	seen := map[string]string{}
	total := 0
	var rec func(prefix []byte)
	rec = func(prefix []byte) {
		for _, term := range []bool{false, true} {
			c := st.Case()
			comp := c10CheckPath(t, prefix, term)
			desc := fmt.Sprintf("%x/%v", prefix, term)
			if prev, ok := seen[string(comp)]; ok {
				t.Fatalf("compact collision: %s and %s both encode to %x", prev, desc, comp)
			}
			seen[string(comp)] = desc
			nt := len(prefix)%2 == 1 || term
			c.NonTrivial(nt, desc)
			c.Classf("len%d", len(prefix))
			if total%9973 == 0 {
				c.Sample(nt, func() any {
					return map[string]any{"nibbles": fmt.Sprintf("%x", prefix), "term": term, "compact": fmt.Sprintf("%x", comp)}
				})
			}
			total++
		}
		// leaf vs extension never coincide
		if bytes.Equal(hexToCompact(append(append([]byte{}, prefix...), 16)), hexToCompact(prefix)) {
			t.Fatalf("leaf and extension compact forms coincide for %x", prefix)
		}
		if len(prefix) == maxLen {
			return
		}
		for n := byte(0); n < 16; n++ {
			rec(append(append([]byte{}, prefix...), n))
		}
	}
	rec(nil)
	st.Exhaustive(fmt.Sprintf("all nibble paths of length 0..%d with and without terminator (%d paths)", maxLen, total))

	// every byte key of length 0..2
	for l := 0; l <= 2; l++ {
		n := 1
		for i := 0; i < l; i++ {
			n *= 256
		}
		for v := 0; v < n; v++ {
			k := make([]byte, l)
			for i := 0; i < l; i++ {
				k[i] = byte(v >> (8 * i))
			}
			c := st.Case()
			c10CheckKey(t, k)
			c.Class("bytekey")
			c.NonTrivial(l > 0, fmt.Sprintf("k%x", k))
		}
	}
}

func c10CheckKey(t interface{ Fatalf(string, ...any) }, k []byte) {
	h := keybytesToHex(k)
	if len(h) != 2*len(k)+1 || h[len(h)-1] != 16 {
		t.Fatalf("keybytesToHex(%x)=%x: bad length/terminator", k, h)
	}
	for i, b := range k {
		if h[2*i] != b>>4 || h[2*i+1] != b&0x0f {
			t.Fatalf("keybytesToHex(%x)=%x: nibble %d wrong", k, h, i)
		}
	}
	if back := hexToKeybytes(h); !bytes.Equal(back, k) {
		t.Fatalf("hexToKeybytes(keybytesToHex(%x))=%x", k, back)
	}
	if back := hexToKeybytes(h[:len(h)-1]); !bytes.Equal(back, k) {
		t.Fatalf("hexToKeybytes without terminator (%x)=%x", k, back)
	}
	if len(k) > 0 {
		dst := make([]byte, 2*len(k))
		if w := writeHexKey(dst, k); !bytes.Equal(w, h[:len(h)-1]) {
			t.Fatalf("writeHexKey(%x)=%x want %x", k, w, h[:len(h)-1])
		}
	}
	// compact form of the full key path is HP(nibbles, true)
	c10CheckPath(t, h[:len(h)-1], true)
}

// TestVerifC10Random covers long paths and keys with random content.
func TestVerifC10Random(t *testing.T) {
	st := vs.New("C10", t)
	// lengths: mostly short, plus hostile lengths around the sizes a fixed scratch buffer would have
	// (64/65, 128..131, 255..258, 511..513 nibbles) and long paths up to 700
	nibGen := rapid.Custom(func(rt *rapid.T) []byte {
		var n int
		switch rapid.IntRange(0, 3).Draw(rt, "lenClass") {
		case 0:
			n = rapid.IntRange(0, 40).Draw(rt, "len")
		case 1:
			n = rapid.SampledFrom([]int{63, 64, 65, 127, 128, 129, 130, 131, 132, 254, 255, 256, 257, 258, 259, 511, 512, 513}).Draw(rt, "len")
		case 2:
			n = rapid.IntRange(41, 300).Draw(rt, "len")
		default:
			n = rapid.IntRange(301, 700).Draw(rt, "len")
		}
		return rapid.SliceOfN(rapid.ByteRange(0, 15), n, n).Draw(rt, "nib")
	})
	vs.Check(t, 1, func(rt *rapid.T) {
		c := st.Case()
		nib := nibGen.Draw(rt, "nibbles")
		term := rapid.Bool().Draw(rt, "term")
		comp := c10CheckPath(rt, nib, term)
		kl := rapid.SampledFrom([]int{0, 1, 20, 31, 32, 33, 63, 64, 65, 66, 127, 128, 129, 130, 200, 256, 257, 350}).Draw(rt, "keyLen")
		k := rapid.SliceOfN(rapid.Byte(), kl, kl).Draw(rt, "key")
		c10CheckKey(rt, k)
		// prefixLen against a model
		other := nibGen.Draw(rt, "other")
		cut := rapid.IntRange(0, len(nib)).Draw(rt, "cut")
		mixed := append(append([]byte{}, nib[:cut]...), other...)
		want := 0
		for want < len(nib) && want < len(mixed) && nib[want] == mixed[want] {
			want++
		}
		if got := prefixLen(nib, mixed); got != want {
			rt.Fatalf("prefixLen(%x,%x)=%d want %d", nib, mixed, got, want)
		}
		// two different (path,term) pairs never share a compact form
		other2 := nibGen.Draw(rt, "other2")
		term2 := rapid.Bool().Draw(rt, "term2")
		if !(bytes.Equal(other2, nib) && term2 == term) {
			h2 := append([]byte{}, other2...)
			if term2 {
				h2 = append(h2, 16)
			}
			if bytes.Equal(hexToCompact(h2), comp) {
				rt.Fatalf("collision %x/%v vs %x/%v", nib, term, other2, term2)
			}
		}
		nt := len(nib)%2 == 1 || term
		c.NonTrivial(nt, fmt.Sprintf("%x/%v", nib, term))
		c.Classf("odd=%v term=%v", len(nib)%2 == 1, term)
		c.Sample(nt, func() any {
			return map[string]any{"nibbles": fmt.Sprintf("%x", nib), "term": term, "compact": fmt.Sprintf("%x", comp)}
		})
	})
}

// FuzzVerifC10Bytes feeds coverage-guided bytes: low nibbles form the path, the
// first byte's top bit selects the terminator.
func FuzzVerifC10Bytes(f *testing.F) {
	f.Add([]byte{})
	f.Add([]byte{0x80, 1, 2, 3})
	f.Add([]byte{0x01, 15, 0, 7, 9})
	f.Fuzz(func(t *testing.T, data []byte) {
		term := len(data) > 0 && data[0]&0x80 != 0
		nib := make([]byte, 0, len(data))
		for _, b := range data {
			nib = append(nib, b&0x0f)
		}
		if len(nib) > 200 {
			nib = nib[:200]
		}
		c10CheckPath(t, nib, term)
		c10CheckKey(t, data)
	})
}
