//go:build verif

package trie

import (
	"bytes"
	"fmt"
	"sort"
	"testing"

	"github.com/ethereum/go-ethereum/common"
	"github.com/ethereum/go-ethereum/core/rawdb"
	"pgregory.net/rapid"
	"verif.local/kit/reftrie"
	vs "verif.local/kit/stat"
)

// TestVerifC12Counters drives the raw trie sync scheduler over a two-level trie (an outer
// trie whose leaves name inner tries, like accounts and storage) served from the independent
// reference trie, and checks the scheduler's own bookkeeping white-box: the per-depth fetch
// counters that throttle Missing() never go negative and are all zero again when nothing is
// pending, and no request is left behind. A counter that is charged at one depth and released
// at another only stalls the sync after ~16k nodes at one depth; the invariant shows it at once.
func TestVerifC12Counters(t *testing.T) {
	st := vs.New("C12", t)
	vs.Check(t, 0.5, func(rt *rapid.T) {
		c := st.Case()
		scheme := rapid.SampledFrom([]string{rawdb.HashScheme, rawdb.PathScheme}).Draw(rt, "scheme")
		nOuter := rapid.IntRange(1, 25).Draw(rt, "nOuter")
		inner := map[common.Hash]*reftrie.Result{}
		outerKV := map[string][]byte{}
		nInnerNodes := 0
		for i := 0; i < nOuter; i++ {
			var k common.Hash
			copy(k[:], rapid.SliceOfN(rapid.Byte(), 32, 32).Draw(rt, "outerKey"))
			kv := map[string][]byte{}
			for j := rapid.SampledFrom([]int{0, 1, 2, 9, 30}).Draw(rt, "nInner"); j > 0; j-- {
				kv[string(rapid.SliceOfN(rapid.Byte(), 32, 32).Draw(rt, "innerKey"))] = rapid.SliceOfN(rapid.Byte(), 1, 40).Draw(rt, "innerVal")
			}
			r := reftrie.Build(kv)
			if _, dup := inner[k]; dup {
				continue
			}
			inner[k] = r
			nInnerNodes += len(r.Nodes)
			// outer leaf value = 32-byte inner root followed by filler so the leaf is never embedded
			outerKV[string(k[:])] = append(append([]byte{}, r.Root[:]...), 0xaa, 0xbb)
		}
		outer := reftrie.Build(outerKV)
		db := rawdb.NewMemoryDatabase()

		var sched *Sync
		onLeaf := func(keys [][]byte, path []byte, leaf []byte, parent common.Hash, parentPath []byte) error {
			if len(leaf) < 32 {
				return fmt.Errorf("short leaf")
			}
			sched.AddSubTrie(common.BytesToHash(leaf[:32]), path, parent, parentPath, nil)
			return nil
		}
		sched = NewSync(common.Hash(outer.Root), db, onLeaf, scheme)

		lookup := func(path string) []byte {
			p := []byte(path)
			if len(p) < 64 {
				return outer.Nodes[path]
			}
			owner := common.BytesToHash(hexToKeybytes(p[:64]))
			if r, ok := inner[owner]; ok {
				return r.Nodes[string(p[64:])]
			}
			return nil
		}
		checkCounters := func(when string) {
			for d, n := range sched.fetches {
				if n < 0 {
					rt.Fatalf("%s: fetch counter of depth %d is negative (%d)", when, d, n)
				}
			}
		}
		type req struct {
			path string
			hash common.Hash
		}
		var outstanding []req
		rounds := 0
		for {
			rounds++
			if rounds > 20*(len(outer.Nodes)+nInnerNodes)+100 {
				rt.Fatalf("sync did not terminate: pending %d", sched.Pending())
			}
			paths, hashes, _ := sched.Missing(rapid.SampledFrom([]int{1, 3, 50}).Draw(rt, "k"))
			for i, p := range paths {
				outstanding = append(outstanding, req{p, hashes[i]})
			}
			checkCounters("after Missing")
			if len(outstanding) == 0 {
				if sched.Pending() == 0 {
					break
				}
				continue
			}
			n := rapid.IntRange(1, len(outstanding)).Draw(rt, "deliver")
			for j := 0; j < n; j++ {
				idx := rapid.IntRange(0, len(outstanding)-1).Draw(rt, "pick")
				r := outstanding[idx]
				outstanding = append(outstanding[:idx], outstanding[idx+1:]...)
				blob := lookup(r.path)
				if blob == nil || common.Hash(reftrie.Keccak256(blob)) != r.hash {
					rt.Fatalf("requested path %x hash %x is not a node of the target", r.path, r.hash)
				}
				if err := sched.ProcessNode(NodeSyncResult{Path: r.path, Data: blob}); err != nil {
					rt.Fatalf("honest delivery rejected: %v", err)
				}
				checkCounters("after ProcessNode")
			}
			if rapid.Bool().Draw(rt, "commit") {
				b := db.NewBatch()
				if err := sched.Commit(b); err != nil {
					rt.Fatalf("commit: %v", err)
				}
				b.Write()
			}
		}
		// nothing pending: all bookkeeping must be back to zero
		var depths []int
		for d := range sched.fetches {
			depths = append(depths, d)
		}
		sort.Ints(depths)
		for _, d := range depths {
			if sched.fetches[d] != 0 {
				rt.Fatalf("sync finished but the fetch counter of depth %d is %d (charged and released at different depths?)", d, sched.fetches[d])
			}
		}
		if len(sched.nodeReqs) != 0 || len(sched.codeReqs) != 0 || !sched.queue.Empty() {
			rt.Fatalf("sync finished but %d node requests / %d code requests / queue empty=%v remain", len(sched.nodeReqs), len(sched.codeReqs), sched.queue.Empty())
		}
		b := db.NewBatch()
		sched.Commit(b)
		b.Write()
		// all target nodes stored
		for p, blob := range outer.Nodes {
			if scheme == rawdb.PathScheme {
				if got := rawdb.ReadAccountTrieNode(db, []byte(p)); !bytes.Equal(got, blob) {
					rt.Fatalf("outer node %x missing after sync", p)
				}
			} else if got := rawdb.ReadLegacyTrieNode(db, common.Hash(reftrie.Keccak256(blob))); !bytes.Equal(got, blob) {
				rt.Fatalf("outer node %x missing after sync", p)
			}
		}
		nt := nInnerNodes > 0
		c.Classf("scheme=%s", scheme)
		c.NonTrivial(nt, fmt.Sprintf("%s/%x/%d/%d", scheme, outer.Root[:6], len(outer.Nodes), nInnerNodes))
		c.Sample(nt, func() any {
			return map[string]any{"scheme": scheme, "outer_nodes": len(outer.Nodes), "inner_nodes": nInnerNodes, "rounds": rounds}
		})
	})
}
