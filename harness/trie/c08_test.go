//go:build verif

package trie

// C08: Merkle proofs are sound and complete.
//
// Completeness: for every generated trie and key (present or absent, any length),
// VerifyProof(root, key, Prove(key)) returns exactly the model's value (nil when
// absent), and an independent reference walk over the same proof agrees.
// Soundness: for any bag of nodes stored under their own hash (genuine nodes of the
// trie, with omissions, plus nodes of a sibling trie, of other keys' proofs and
// arbitrary blobs) and for the root of either trie, the result is an error or the
// value the trie of that root really holds. No call panics.

import (
	"bytes"
	"fmt"
	"hash/fnv"
	mrand "math/rand"
	"runtime/debug"
	"strings"
	"testing"

	"github.com/ethereum/go-ethereum/common"
	"github.com/ethereum/go-ethereum/core/rawdb"
	"github.com/ethereum/go-ethereum/crypto"
	"github.com/ethereum/go-ethereum/ethdb/memorydb"
	"pgregory.net/rapid"
	vs "verif.local/kit/stat"
)

// c08Verify calls VerifyProof, turning a panic into a report.
func c08Verify(root common.Hash, key []byte, db *memorydb.Database) (val []byte, err error, panicked string) {
	defer func() {
		if r := recover(); r != nil {
			panicked = fmt.Sprintf("%v\n%s", r, debug.Stack())
		}
	}()
	val, err = VerifyProof(root, key, db)
	return val, err, ""
}

func c08Desc(w *pgWorld, key []byte, extra string) string {
	return fmt.Sprintf("%x|%x|%s", w.Root[:8], key, extra)
}

func c08WorldString(w *pgWorld) string {
	var sb strings.Builder
	fmt.Fprintf(&sb, "world=%s n=%d keyLen=%d reopened=%v root=%x", w.Class, len(w.Ents), w.KeyLen, w.Reopened, w.Root)
	if len(w.Ents) <= 12 {
		sb.WriteString(" trie={")
		for _, e := range w.Ents {
			fmt.Fprintf(&sb, " %x=%x", e.K, e.V)
		}
		sb.WriteString(" }")
	}
	return sb.String()
}

// c08Keys selects the keys to prove: present keys (all for small tries) and absent
// keys of every flavour. The label is the key's class.
func c08Keys(w *pgWorld, ch pgChooser, rnd *mrand.Rand) (keys [][]byte, labels []string) {
	add := func(k []byte, label string) {
		keys = append(keys, k)
		labels = append(labels, label)
	}
	n := len(w.Ents)
	if n <= 16 {
		for _, e := range w.Ents {
			add(e.K, "present")
		}
	} else {
		add(w.Ents[0].K, "present")
		add(w.Ents[n-1].K, "present")
		for i := 0; i < 6; i++ {
			add(w.Ents[ch.Intn(n)].K, "present")
		}
	}
	kl := w.KeyLen
	for i := 0; i < 2; i++ {
		k := make([]byte, kl)
		rnd.Read(k)
		add(k, "random")
	}
	if n > 0 {
		for i := 0; i < 3; i++ {
			base := w.Ents[ch.Intn(n)].K
			// neighbour differing in the last nibble
			k := append([]byte{}, base...)
			pgSetNibble(k, 2*kl-1, (pgNibble(k, 2*kl-1)+1+byte(ch.Intn(15)))&0x0f)
			add(k, "lastnibble")
			// diverge at a drawn nibble position (prefix of the path shared)
			k = append([]byte{}, base...)
			p := ch.Intn(2 * kl)
			pgSetNibble(k, p, (pgNibble(k, p)+1+byte(ch.Intn(15)))&0x0f)
			add(k, "diverge")
			if k := pgInc(base); k != nil {
				add(k, "succ")
			}
			if k := pgDec(base); k != nil {
				add(k, "pred")
			}
		}
		base := w.Ents[ch.Intn(n)].K
		add(append([]byte{}, base[:kl-1]...), "shorter")
		add(append(append([]byte{}, base...), byte(ch.Intn(2)*ch.Intn(256))), "longer")
	}
	add(make([]byte, kl), "zero")
	add(bytes.Repeat([]byte{0xff}, kl), "max")
	add([]byte{}, "emptykey")
	return keys, labels
}

// c08Honest checks completeness for one key and returns the honest proof blobs.
func c08Honest(t pgFataler, st *vs.S, w *pgWorld, key []byte, label string) [][]byte {
	c := st.Case()
	db, err := pgProve(w.Tr, key)
	if err != nil {
		t.Fatalf("Prove(%x) failed: %v\n%s", key, err, c08WorldString(w))
	}
	want, present := w.Model[string(key)]
	val, err, panicked := c08Verify(w.Root, key, db)
	if panicked != "" {
		t.Fatalf("VerifyProof panicked on an honest proof for key %x: %s\n%s", key, panicked, c08WorldString(w))
	}
	if err != nil {
		t.Fatalf("honest proof for key %x rejected: %v\n%s", key, err, c08WorldString(w))
	}
	if present && !bytes.Equal(val, want) {
		t.Fatalf("honest proof for present key %x returned %x, trie holds %x\n%s", key, val, want, c08WorldString(w))
	}
	if !present && val != nil {
		t.Fatalf("honest proof for absent key %x returned value %x\n%s", key, val, c08WorldString(w))
	}
	// the same proof through the independent reference walk
	rv, reason, rerr := pgRefWalk(w.Ref.Root, key, func(h [32]byte) []byte {
		b, _ := db.Get(h[:])
		return b
	})
	if rerr != nil {
		t.Fatalf("proof produced for key %x does not verify under the reference walk: %v\n%s", key, rerr, c08WorldString(w))
	}
	if !bytes.Equal(rv, want) || (len(rv) > 0) != present {
		t.Fatalf("proof produced for key %x yields %x under the reference walk, trie holds %x (present=%v)\n%s", key, rv, want, present, c08WorldString(w))
	}
	if present {
		label = "present" // a drawn "absent" key may coincide with an entry
	}
	c.Classf("H:%s", label)
	c.Classf("H-end:%s", reason)
	c.Classf("W:%s", strings.SplitN(w.Class, "/", 2)[0])
	nt := !present && len(w.Ents) > 0 // ends in a short-node mismatch or a nil branch slot
	c.NonTrivial(nt, c08Desc(w, key, reason))
	c.Sample(nt, func() any {
		return map[string]any{"world": w.Class, "entries": len(w.Ents), "key": fmt.Sprintf("%x", key), "class": label,
			"ends": reason, "proofnodes": db.Len(), "value": fmt.Sprintf("%x", val)}
	})
	return pgBlobs(db)
}

// c08Adversarial evaluates one (root world, key, node bag) against the soundness oracle.
func c08Adversarial(t pgFataler, st *vs.S, w *pgWorld, key []byte, bag [][]byte, tags []string, omitted int) {
	c := st.Case()
	c.Fault()
	db := pgProofDB(bag)
	val, err, panicked := c08Verify(w.Root, key, db)
	if panicked != "" {
		t.Fatalf("VerifyProof panicked: %s\nkey=%x tags=%v bag=%d nodes\n%s", panicked, key, tags, len(bag), c08WorldString(w))
	}
	want, present := w.Model[string(key)]
	if err == nil {
		if present && !bytes.Equal(val, want) {
			t.Fatalf("VerifyProof returned %x for key %x, the trie of this root holds %x (tags=%v, bag=%d nodes)\n%s", val, key, want, tags, len(bag), c08WorldString(w))
		}
		if !present && val != nil {
			t.Fatalf("VerifyProof returned %x for key %x which the trie of this root does not hold (tags=%v, bag=%d nodes)\n%s", val, key, tags, len(bag), c08WorldString(w))
		}
	}
	for _, tag := range tags {
		c.Classf("A:%s", tag)
	}
	res := "failed"
	if err == nil {
		res = "verified"
	}
	c.Classf("A-result:%s(present=%v)", res, present)
	nt := omitted > 0 && err == nil
	if nt {
		c.Class("A-omission-still-verifies")
	}
	h := fnv.New64a()
	for _, b := range bag {
		h.Write(b[:min(8, len(b))])
	}
	c.NonTrivial(nt, c08Desc(w, key, fmt.Sprintf("%v|%d|%x", tags, len(bag), h.Sum64())))
	c.Sample(nt, func() any {
		return map[string]any{"world": w.Class, "entries": len(w.Ents), "key": fmt.Sprintf("%x", key), "tags": tags,
			"bag": len(bag), "omitted": omitted, "result": res}
	})
}

// c08RunWorld performs all checks for one world a (and its sibling b).
func c08RunWorld(t pgFataler, st *vs.S, a *pgWorld, ch pgChooser, rnd *mrand.Rand) {
	b := pgSibling(t, a, ch, rnd)
	keys, labels := c08Keys(a, ch, rnd)
	genA, genB := a.pgGenuine(), b.pgGenuine()
	var prevProof [][]byte
	for i, key := range keys {
		honest := c08Honest(t, st, a, key, labels[i])
		// 1. every single omission when the proof is short, a drawn omission otherwise
		if len(honest) <= 6 {
			for x := range honest {
				bag := append(append([][]byte{}, honest[:x]...), honest[x+1:]...)
				c08Adversarial(t, st, a, key, bag, []string{"omit-one"}, 1)
			}
		} else {
			x := ch.Intn(len(honest))
			bag := append(append([][]byte{}, honest[:x]...), honest[x+1:]...)
			c08Adversarial(t, st, a, key, bag, []string{"omit-one"}, 1)
		}
		// 2. a drawn composition
		for rep := 0; rep < 2; rep++ {
			w := a
			var bag [][]byte
			var tags []string
			omitted := 0
			switch ch.Intn(6) {
			case 0: // honest plus another key's proof plus foreign nodes
				bag = append(bag, honest...)
				bag = append(bag, prevProof...)
				bag = append(bag, genB...)
				tags = append(tags, "honest+foreign")
			case 1: // everything genuine of both tries
				bag = append(append(bag, genA...), genB...)
				tags = append(tags, "bloat-both")
			case 2: // all genuine nodes minus a drawn subset (often off the key's path)
				bag = append(bag, genA...)
				for m := 1 + ch.Intn(3); m > 0 && len(bag) > 0; m-- {
					x := ch.Intn(len(bag))
					bag = append(bag[:x:x], bag[x+1:]...)
					omitted++
				}
				tags = append(tags, "bloat-minus")
			case 3: // another key's proof only
				bag = append(bag, prevProof...)
				tags = append(tags, "other-proof")
			case 4: // random subset of everything
				for _, n := range append(append([][]byte{}, genA...), genB...) {
					if rnd.Intn(4) != 0 {
						bag = append(bag, n)
					} else {
						omitted++
					}
				}
				tags = append(tags, "random-subset")
			default:
				bag = append(bag, honest...)
				tags = append(tags, "honest")
			}
			if ch.Intn(3) == 0 {
				bag = append(bag, pgArbitraryBlobs(rnd, genA, 3)...)
				tags = append(tags, "arbitrary")
			}
			if ch.Intn(3) == 0 { // the root of the sibling trie: the truth is the sibling's content
				w = b
				tags = append(tags, "sibling-root")
			}
			c08Adversarial(t, st, w, key, bag, tags, omitted)
		}
		prevProof = honest
	}
}

func c08Prop(st *vs.S) func(rt *rapid.T) {
	return func(rt *rapid.T) {
		maxN := 150
		if vs.Thorough() {
			maxN = 300
		}
		w := pgDrawWorld(rt, "", maxN)
		rnd := mrand.New(mrand.NewSource(int64(rapid.Uint64().Draw(rt, "advSeed"))))
		c08RunWorld(rt, st, w, pgRapidChooser{rt}, rnd)
	}
}

// TestVerifC08Proofs is the main property.
func TestVerifC08Proofs(t *testing.T) {
	st := vs.New("C08", t)
	vs.Check(t, 1, c08Prop(st))
}

// TestVerifC08Secure checks the secure (hashed-key) trie: entries are stored under
// keccak(key); proving and verifying the hashed key returns the stored value.
func TestVerifC08Secure(t *testing.T) {
	st := vs.New("C08", t)
	vs.Check(t, 0.25, func(rt *rapid.T) {
		n := rapid.IntRange(1, 40).Draw(rt, "n")
		rnd := mrand.New(mrand.NewSource(int64(rapid.Uint64().Draw(rt, "seed"))))
		db := newTestDatabase(rawdb.NewMemoryDatabase(), rawdb.HashScheme)
		tr, err := NewStateTrie(TrieID(common.Hash{}), db)
		if err != nil {
			rt.Fatalf("VERIF-HARNESS-BUG: NewStateTrie: %v", err)
		}
		model := map[string][]byte{}
		var raw [][]byte
		for i := 0; i < n; i++ {
			k := make([]byte, 1+rnd.Intn(40))
			rnd.Read(k)
			if rnd.Intn(4) == 0 {
				k = k[:1] // collisions
			}
			v := make([]byte, pgValLens[rnd.Intn(len(pgValLens))])
			rnd.Read(v)
			tr.MustUpdate(k, v)
			model[string(crypto.Keccak256(k))] = v
			raw = append(raw, k)
		}
		root := tr.Hash()
		extra := make([]byte, 7)
		rnd.Read(extra)
		raw = append(raw, extra)
		for _, k := range raw {
			c := st.Case()
			hk := crypto.Keccak256(k)
			pdb := memorydb.New()
			if err := tr.Prove(hk, pdb); err != nil {
				rt.Fatalf("StateTrie.Prove failed: %v", err)
			}
			val, err, panicked := c08Verify(root, hk, pdb)
			if panicked != "" {
				rt.Fatalf("VerifyProof panicked: %s", panicked)
			}
			want, present := model[string(hk)]
			if err != nil || !bytes.Equal(val, want) || (!present && val != nil) {
				rt.Fatalf("secure trie: key %x (hashed %x): got %x err=%v, want %x present=%v", k, hk, val, err, want, present)
			}
			c.Classf("S:present=%v", present)
			c.NonTrivial(!present, fmt.Sprintf("S|%x|%x", root[:8], hk))
		}
	})
}

// TestVerifC08TinyExhaustive enumerates all non-empty subsets of a 6-key universe
// (long shared prefixes) x value sizes; for every trie, every key of the universe
// and its neighbours is proven, and every sub-bag of the honest proof (all 2^m
// omissions, m <= 5 nodes) is verified against the soundness oracle.
func TestVerifC08TinyExhaustive(t *testing.T) {
	vs.OnlyShard0(t)
	st := vs.New("C08", t)
	universe := [][]byte{{0x00, 0x00}, {0x00, 0x01}, {0x00, 0x10}, {0x01, 0x00}, {0x10, 0x00}, {0xff, 0xff}}
	probes := append([][]byte{}, universe...)
	probes = append(probes, []byte{0x00, 0x02}, []byte{0x00, 0x11}, []byte{0x02, 0x00}, []byte{0x11, 0x00}, []byte{0xff, 0xfe}, []byte{0x80, 0x00},
		[]byte{0x00}, []byte{0x00, 0x00, 0x00}, []byte{})
	worlds := 0
	for _, vl := range []int{1, 20, 33} {
		for mask := 1; mask < 1<<len(universe); mask++ {
			var ents []pgKV
			for i, k := range universe {
				if mask&(1<<i) != 0 {
					ents = append(ents, pgKV{K: k, V: bytes.Repeat([]byte{byte(0xa0 + i)}, vl)})
				}
			}
			w, err := pgBuildWorld(fmt.Sprintf("tiny%d", vl), 2, ents, nil, false)
			if err != nil {
				t.Fatalf("VERIF-HARNESS-BUG: %v", err)
			}
			worlds++
			for _, key := range probes {
				honest := c08Honest(t, st, w, key, "enum")
				if len(honest) > 5 {
					continue
				}
				for sub := 0; sub < 1<<len(honest)-1; sub++ { // every proper sub-bag
					var bag [][]byte
					for x := range honest {
						if sub&(1<<x) != 0 {
							bag = append(bag, honest[x])
						}
					}
					c08Adversarial(t, st, w, key, bag, []string{"enum-subbag"}, len(honest)-len(bag))
				}
			}
		}
	}
	st.Exhaustive(fmt.Sprintf("%d tries (all non-empty subsets of a 6-key universe x 3 value sizes) x %d keys x every sub-bag of the honest proof", worlds, len(probes)))
}

// FuzzVerifC08Rapid drives the rapid property from the native fuzzer's byte stream.
func FuzzVerifC08Rapid(f *testing.F) {
	st := vs.New("C08", f)
	f.Fuzz(rapid.MakeFuzz(c08Prop(st)))
}

// c08SplitBlobs cuts fuzzer bytes into length-prefixed blobs.
func c08SplitBlobs(data []byte) [][]byte {
	var out [][]byte
	for len(data) > 0 && len(out) < 64 {
		l := int(data[0])
		data = data[1:]
		if l > len(data) {
			l = len(data)
		}
		out = append(out, data[:l])
		data = data[l:]
	}
	return out
}

// FuzzVerifC08Blobs feeds raw node blobs as the proof database: the first blob's
// hash is the root, the second blob is the key. Nothing is known about the "true"
// trie here, so only the absence of panics is asserted; in a second step the blobs
// are added to a genuine trie's node bag, where the soundness oracle applies.
func FuzzVerifC08Blobs(f *testing.F) {
	st := vs.New("C08", f)
	if w, err := pgBuildWorld("seed", 2, []pgKV{{K: []byte{0, 0}, V: []byte{1}}, {K: []byte{0, 1}, V: bytes.Repeat([]byte{2}, 33)},
		{K: []byte{0x10, 0}, V: bytes.Repeat([]byte{3}, 20)}}, nil, false); err == nil {
		var seed []byte
		for _, b := range append([][]byte{w.Ref.Nodes[""], {0x00, 0x01}}, w.pgGenuine()...) {
			seed = append(append(seed, byte(len(b))), b...)
		}
		f.Add(seed)
	}
	f.Add([]byte{3, 0xc2, 0x20, 0x01, 1, 0x00})
	f.Add([]byte{})
	f.Fuzz(func(t *testing.T, data []byte) {
		if len(data) > 8192 {
			data = data[:8192]
		}
		blobs := c08SplitBlobs(data)
		if len(blobs) < 2 {
			return
		}
		key := blobs[1]
		db := pgProofDB(blobs)
		if _, _, panicked := c08Verify(pgHashKey(blobs[0]), key, db); panicked != "" {
			t.Fatalf("VerifyProof panicked on raw blobs: %s\nroot blob %x key %x", panicked, blobs[0], key)
		}
		// genuine world shaped by the same bytes, with the raw blobs as extra nodes
		ch := &pgByteChooser{data: data}
		w := pgWorldFromBytes(t, ch)
		if w == nil {
			return
		}
		gen := w.pgGenuine()
		for x := 0; x < 4; x++ {
			var k []byte
			if ch.Intn(2) == 0 {
				k = w.Ents[ch.Intn(len(w.Ents))].K
			} else {
				k = append([]byte{}, key...)
				if len(k) > w.KeyLen {
					k = k[:w.KeyLen]
				}
			}
			bag := append([][]byte{}, blobs...)
			omitted := 0
			for _, n := range gen {
				if ch.Intn(8) != 0 {
					bag = append(bag, n)
				} else {
					omitted++
				}
			}
			c08Adversarial(t, st, w, k, bag, []string{"fuzz-blobs"}, omitted)
		}
	})
}
