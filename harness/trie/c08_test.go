//go:build verif

package trie

// C08: Merkle proofs are sound and complete.
//
// Completeness: for every generated trie and key (present or absent, any length),
// VerifyProof(root, key, Prove(key)) returns exactly the model's value (nil when
// absent), and an independent reference walk over the same proof agrees.
// Soundness: for any bag of nodes stored under their own hash (genuine nodes of the
// trie, with omissions, plus nodes of a sibling trie, of other keys' proofs and
// arbitrary blobs) and for the root of either trie, the result is an error or the
// value the trie of that root really holds. No call panics.

import (
	"bytes"
	"fmt"
	"hash/fnv"
	mrand "math/rand"
	"runtime/debug"
	"sort"
	"strings"
	"testing"

	"github.com/ethereum/go-ethereum/common"
	"github.com/ethereum/go-ethereum/core/rawdb"
	"github.com/ethereum/go-ethereum/core/types"
	"github.com/ethereum/go-ethereum/crypto"
	"github.com/ethereum/go-ethereum/ethdb/memorydb"
	"github.com/ethereum/go-ethereum/trie/trienode"
	"pgregory.net/rapid"
	vs "verif.local/kit/stat"
)

// c08Verify calls VerifyProof, turning a panic into a report.
func c08Verify(root common.Hash, key []byte, db *memorydb.Database) (val []byte, err error, panicked string) {
	defer func() {
		if r := recover(); r != nil {
			panicked = fmt.Sprintf("%v\n%s", r, debug.Stack())
		}
	}()
	val, err = VerifyProof(root, key, db)
	return val, err, ""
}

func c08Desc(w *pgWorld, key []byte, extra string) string {
	return fmt.Sprintf("%x|%x|%s", w.Root[:8], key, extra)
}

func c08WorldString(w *pgWorld) string {
	var sb strings.Builder
	fmt.Fprintf(&sb, "world=%s n=%d keyLen=%d reopened=%v root=%x", w.Class, len(w.Ents), w.KeyLen, w.Reopened, w.Root)
	if len(w.Ents) <= 12 {
		sb.WriteString(" trie={")
		for _, e := range w.Ents {
			fmt.Fprintf(&sb, " %x=%x", e.K, e.V)
		}
		sb.WriteString(" }")
	}
	return sb.String()
}

// c08Keys selects the keys to prove: present keys (all for small tries) and absent
// keys of every flavour. The label is the key's class.
func c08Keys(w *pgWorld, ch pgChooser, rnd *mrand.Rand) (keys [][]byte, labels []string) {
	add := func(k []byte, label string) {
		keys = append(keys, k)
		labels = append(labels, label)
	}
	n := len(w.Ents)
	if n <= 16 {
		for _, e := range w.Ents {
			add(e.K, "present")
		}
	} else {
		add(w.Ents[0].K, "present")
		add(w.Ents[n-1].K, "present")
		for i := 0; i < 6; i++ {
			add(w.Ents[ch.Intn(n)].K, "present")
		}
	}
	kl := w.KeyLen
	for i := 0; i < 2; i++ {
		k := make([]byte, kl)
		rnd.Read(k)
		add(k, "random")
	}
	if n > 0 {
		for i := 0; i < 3; i++ {
			base := w.Ents[ch.Intn(n)].K
			// neighbour differing in the last nibble
			k := append([]byte{}, base...)
			pgSetNibble(k, 2*kl-1, (pgNibble(k, 2*kl-1)+1+byte(ch.Intn(15)))&0x0f)
			add(k, "lastnibble")
			// diverge at a drawn nibble position (prefix of the path shared)
			k = append([]byte{}, base...)
			p := ch.Intn(2 * kl)
			pgSetNibble(k, p, (pgNibble(k, p)+1+byte(ch.Intn(15)))&0x0f)
			add(k, "diverge")
			if k := pgInc(base); k != nil {
				add(k, "succ")
			}
			if k := pgDec(base); k != nil {
				add(k, "pred")
			}
		}
		base := w.Ents[ch.Intn(n)].K
		add(append([]byte{}, base[:kl-1]...), "shorter")
		add(append(append([]byte{}, base...), byte(ch.Intn(2)*ch.Intn(256))), "longer")
	}
	add(make([]byte, kl), "zero")
	add(bytes.Repeat([]byte{0xff}, kl), "max")
	add([]byte{}, "emptykey")
	return keys, labels
}

// c08Honest checks completeness for one key and returns the honest proof blobs.
func c08Honest(t pgFataler, st *vs.S, w *pgWorld, key []byte, label string) [][]byte {
	c := st.Case()
	db, err := pgProve(w.Tr, key)
	if err != nil {
		t.Fatalf("Prove(%x) failed: %v\n%s", key, err, c08WorldString(w))
	}
	want, present := w.Model[string(key)]
	val, err, panicked := c08Verify(w.Root, key, db)
	if panicked != "" {
		t.Fatalf("VerifyProof panicked on an honest proof for key %x: %s\n%s", key, panicked, c08WorldString(w))
	}
	if err != nil {
		t.Fatalf("honest proof for key %x rejected: %v\n%s", key, err, c08WorldString(w))
	}
	if present && !bytes.Equal(val, want) {
		t.Fatalf("honest proof for present key %x returned %x, trie holds %x\n%s", key, val, want, c08WorldString(w))
	}
	if !present && val != nil {
		t.Fatalf("honest proof for absent key %x returned value %x\n%s", key, val, c08WorldString(w))
	}
	// the same proof through the independent reference walk
	rv, reason, rerr := pgRefWalk([32]byte(w.Root), key, func(h [32]byte) []byte {
		b, _ := db.Get(h[:])
		return b
	})
	if rerr != nil {
		t.Fatalf("proof produced for key %x does not verify under the reference walk: %v\n%s", key, rerr, c08WorldString(w))
	}
	if !bytes.Equal(rv, want) || (len(rv) > 0) != present {
		t.Fatalf("proof produced for key %x yields %x under the reference walk, trie holds %x (present=%v)\n%s", key, rv, want, present, c08WorldString(w))
	}
	if present {
		label = "present" // a drawn "absent" key may coincide with an entry
	}
	c.Classf("H:%s", label)
	c.Classf("H-end:%s", reason)
	c.Classf("W:%s", strings.SplitN(w.Class, "/", 2)[0])
	// absent: ends in a short-node mismatch or a nil branch slot; or the value sits in a branch's value slot
	nt := (!present && len(w.Ents) > 0) || reason == "found-branch-value"
	c.NonTrivial(nt, c08Desc(w, key, reason))
	c.Sample(nt, func() any {
		return map[string]any{"world": w.Class, "entries": len(w.Ents), "key": fmt.Sprintf("%x", key), "class": label,
			"ends": reason, "proofnodes": db.Len(), "value": fmt.Sprintf("%x", val)}
	})
	return pgBlobs(db)
}

// c08Adversarial evaluates one (root world, key, node bag) against the soundness oracle.
func c08Adversarial(t pgFataler, st *vs.S, w *pgWorld, key []byte, bag [][]byte, tags []string, omitted int) {
	c := st.Case()
	c.Fault()
	db := pgProofDB(bag)
	val, err, panicked := c08Verify(w.Root, key, db)
	if panicked != "" {
		t.Fatalf("VerifyProof panicked: %s\nkey=%x tags=%v bag=%d nodes\n%s", panicked, key, tags, len(bag), c08WorldString(w))
	}
	want, present := w.Model[string(key)]
	if err == nil {
		if present && !bytes.Equal(val, want) {
			t.Fatalf("VerifyProof returned %x for key %x, the trie of this root holds %x (tags=%v, bag=%d nodes)\n%s", val, key, want, tags, len(bag), c08WorldString(w))
		}
		if !present && val != nil {
			t.Fatalf("VerifyProof returned %x for key %x which the trie of this root does not hold (tags=%v, bag=%d nodes)\n%s", val, key, tags, len(bag), c08WorldString(w))
		}
	}
	for _, tag := range tags {
		c.Classf("A:%s", tag)
	}
	res := "failed"
	if err == nil {
		res = "verified"
	}
	c.Classf("A-result:%s(present=%v)", res, present)
	nt := omitted > 0 && err == nil
	if nt {
		c.Class("A-omission-still-verifies")
	}
	h := fnv.New64a()
	for _, b := range bag {
		h.Write(b[:min(8, len(b))])
	}
	c.NonTrivial(nt, c08Desc(w, key, fmt.Sprintf("%v|%d|%x", tags, len(bag), h.Sum64())))
	c.Sample(nt, func() any {
		return map[string]any{"world": w.Class, "entries": len(w.Ents), "key": fmt.Sprintf("%x", key), "tags": tags,
			"bag": len(bag), "omitted": omitted, "result": res}
	})
}

// c08RunWorld performs all checks for one world a (and its sibling b).
func c08RunWorld(t pgFataler, st *vs.S, a *pgWorld, ch pgChooser, rnd *mrand.Rand) {
	b := pgSibling(t, a, ch, rnd)
	keys, labels := c08Keys(a, ch, rnd)
	genA, genB := a.pgGenuine(), b.pgGenuine()
	var prevProof [][]byte
	for i, key := range keys {
		honest := c08Honest(t, st, a, key, labels[i])
		// 1. every single omission when the proof is short, a drawn omission otherwise
		if len(honest) <= 6 {
			for x := range honest {
				bag := append(append([][]byte{}, honest[:x]...), honest[x+1:]...)
				c08Adversarial(t, st, a, key, bag, []string{"omit-one"}, 1)
			}
		} else {
			x := ch.Intn(len(honest))
			bag := append(append([][]byte{}, honest[:x]...), honest[x+1:]...)
			c08Adversarial(t, st, a, key, bag, []string{"omit-one"}, 1)
		}
		// 2. a drawn composition
		for rep := 0; rep < 2; rep++ {
			w := a
			var bag [][]byte
			var tags []string
			omitted := 0
			switch ch.Intn(6) {
			case 0: // honest plus another key's proof plus foreign nodes
				bag = append(bag, honest...)
				bag = append(bag, prevProof...)
				bag = append(bag, genB...)
				tags = append(tags, "honest+foreign")
			case 1: // everything genuine of both tries
				bag = append(append(bag, genA...), genB...)
				tags = append(tags, "bloat-both")
			case 2: // all genuine nodes minus a drawn subset (often off the key's path)
				bag = append(bag, genA...)
				for m := 1 + ch.Intn(3); m > 0 && len(bag) > 0; m-- {
					x := ch.Intn(len(bag))
					bag = append(bag[:x:x], bag[x+1:]...)
					omitted++
				}
				tags = append(tags, "bloat-minus")
			case 3: // another key's proof only
				bag = append(bag, prevProof...)
				tags = append(tags, "other-proof")
			case 4: // random subset of everything
				for _, n := range append(append([][]byte{}, genA...), genB...) {
					if rnd.Intn(4) != 0 {
						bag = append(bag, n)
					} else {
						omitted++
					}
				}
				tags = append(tags, "random-subset")
			default:
				bag = append(bag, honest...)
				tags = append(tags, "honest")
			}
			if ch.Intn(3) == 0 {
				bag = append(bag, pgArbitraryBlobs(rnd, genA, 3)...)
				tags = append(tags, "arbitrary")
			}
			if ch.Intn(3) == 0 { // the root of the sibling trie: the truth is the sibling's content
				w = b
				tags = append(tags, "sibling-root")
			}
			c08Adversarial(t, st, w, key, bag, tags, omitted)
		}
		prevProof = honest
	}
}

func c08Prop(st *vs.S) func(rt *rapid.T) {
	return func(rt *rapid.T) {
		maxN := 150
		if vs.Thorough() {
			maxN = 300
		}
		w := pgDrawWorld(rt, "", maxN)
		rnd := mrand.New(mrand.NewSource(int64(rapid.Uint64().Draw(rt, "advSeed"))))
		c08RunWorld(rt, st, w, pgRapidChooser{rt}, rnd)
	}
}

// TestVerifC08Proofs is the main property.
func TestVerifC08Proofs(t *testing.T) {
	st := vs.New("C08", t)
	vs.Check(t, 1, c08Prop(st))
}

// TestVerifC08Secure checks the secure (hashed-key) trie: entries are stored under
// keccak(key); proving and verifying the hashed key returns the stored value.
func TestVerifC08Secure(t *testing.T) {
	st := vs.New("C08", t)
	vs.Check(t, 0.25, func(rt *rapid.T) {
		n := rapid.IntRange(1, 40).Draw(rt, "n")
		rnd := mrand.New(mrand.NewSource(int64(rapid.Uint64().Draw(rt, "seed"))))
		db := newTestDatabase(rawdb.NewMemoryDatabase(), rawdb.HashScheme)
		tr, err := NewStateTrie(TrieID(common.Hash{}), db)
		if err != nil {
			rt.Fatalf("VERIF-HARNESS-BUG: NewStateTrie: %v", err)
		}
		model := map[string][]byte{}
		var raw [][]byte
		for i := 0; i < n; i++ {
			k := make([]byte, 1+rnd.Intn(40))
			rnd.Read(k)
			if rnd.Intn(4) == 0 {
				k = k[:1] // collisions
			}
			v := make([]byte, pgValLens[rnd.Intn(len(pgValLens))])
			rnd.Read(v)
			tr.MustUpdate(k, v)
			model[string(crypto.Keccak256(k))] = v
			raw = append(raw, k)
		}
		root := tr.Hash()
		extra := make([]byte, 7)
		rnd.Read(extra)
		raw = append(raw, extra)
		for _, k := range raw {
			c := st.Case()
			hk := crypto.Keccak256(k)
			pdb := memorydb.New()
			if err := tr.Prove(hk, pdb); err != nil {
				rt.Fatalf("StateTrie.Prove failed: %v", err)
			}
			val, err, panicked := c08Verify(root, hk, pdb)
			if panicked != "" {
				rt.Fatalf("VerifyProof panicked: %s", panicked)
			}
			want, present := model[string(hk)]
			if err != nil || !bytes.Equal(val, want) || (!present && val != nil) {
				rt.Fatalf("secure trie: key %x (hashed %x): got %x err=%v, want %x present=%v", k, hk, val, err, want, present)
			}
			c.Classf("S:present=%v", present)
			c.NonTrivial(!present, fmt.Sprintf("S|%x|%x", root[:8], hk))
		}
	})
}

// TestVerifC08TinyExhaustive enumerates all non-empty subsets of a 6-key universe
// (long shared prefixes) x value sizes; for every trie, every key of the universe
// and its neighbours is proven, and every sub-bag of the honest proof (all 2^m
// omissions, m <= 5 nodes) is verified against the soundness oracle.
func TestVerifC08TinyExhaustive(t *testing.T) {
	vs.OnlyShard0(t)
	st := vs.New("C08", t)
	universe := [][]byte{{0x00, 0x00}, {0x00, 0x01}, {0x00, 0x10}, {0x01, 0x00}, {0x10, 0x00}, {0xff, 0xff}}
	probes := append([][]byte{}, universe...)
	probes = append(probes, []byte{0x00, 0x02}, []byte{0x00, 0x11}, []byte{0x02, 0x00}, []byte{0x11, 0x00}, []byte{0xff, 0xfe}, []byte{0x80, 0x00},
		[]byte{0x00}, []byte{0x00, 0x00, 0x00}, []byte{})
	worlds := 0
	for _, vl := range []int{1, 20, 33} {
		for mask := 1; mask < 1<<len(universe); mask++ {
			var ents []pgKV
			for i, k := range universe {
				if mask&(1<<i) != 0 {
					ents = append(ents, pgKV{K: k, V: bytes.Repeat([]byte{byte(0xa0 + i)}, vl)})
				}
			}
			w, err := pgBuildWorld(fmt.Sprintf("tiny%d", vl), 2, ents, nil, false)
			if err != nil {
				t.Fatalf("VERIF-HARNESS-BUG: %v", err)
			}
			worlds++
			for _, key := range probes {
				honest := c08Honest(t, st, w, key, "enum")
				if len(honest) > 5 {
					continue
				}
				for sub := 0; sub < 1<<len(honest)-1; sub++ { // every proper sub-bag
					var bag [][]byte
					for x := range honest {
						if sub&(1<<x) != 0 {
							bag = append(bag, honest[x])
						}
					}
					c08Adversarial(t, st, w, key, bag, []string{"enum-subbag"}, len(honest)-len(bag))
				}
			}
		}
	}
	st.Exhaustive(fmt.Sprintf("%d tries (all non-empty subsets of a 6-key universe x 3 value sizes) x %d keys x every sub-bag of the honest proof", worlds, len(probes)))
}

// ---- variable-length keys: keys that are prefixes of one another (branch value slots) ----
//
// kit/reftrie does not model prefix keys, so these worlds carry no reference node
// set: the oracle is the plain model map, the independent reference walk still
// applies (it reads the 17th branch item), and "genuine nodes" are the union of the
// proofs the trie produces for all its keys.

var c08PrefixClasses = []string{"ab", "nibbly", "words", "chain"}

// c08DrawPrefixEntries draws distinct keys of mixed lengths with many prefix pairs.
func c08DrawPrefixEntries(rt *rapid.T, rnd *mrand.Rand) (class string, ents []pgKV) {
	class = rapid.SampledFrom(c08PrefixClasses).Draw(rt, "prefixClass")
	id := func(b []byte) string { return string(b) }
	var keys [][]byte
	switch class {
	case "ab": // alphabet {a,b}, lengths 0..4 including the empty key
		g := rapid.SliceOfN(rapid.SampledFrom([]byte{'a', 'b'}), 0, 4)
		keys = rapid.SliceOfNDistinct(g, 1, 20, id).Draw(rt, "keys")
	case "nibbly": // nibble-level collisions, lengths 0..3
		g := rapid.SliceOfN(rapid.SampledFrom(pgAlphabet), 0, 3)
		keys = rapid.SliceOfNDistinct(g, 1, 24, id).Draw(rt, "keys")
	case "words":
		words := []string{"", "d", "do", "dog", "doge", "dogglesworth", "dot", "horse", "hors", "h", "somethingveryoddindeedthis is", "somethingveryodd"}
		idx := rapid.SliceOfNDistinct(rapid.IntRange(0, len(words)-1), 1, len(words), rapid.ID[int]).Draw(rt, "words")
		for _, i := range idx {
			keys = append(keys, []byte(words[i]))
		}
	default: // chains k, k+x, k+x+y, ... over 1..3 random bases (incl. 32-byte bases)
		seen := map[string]bool{}
		for b := 1 + rnd.Intn(3); b > 0; b-- {
			k := make([]byte, []int{0, 1, 2, 31, 32}[rnd.Intn(5)])
			rnd.Read(k)
			for l := 1 + rnd.Intn(6); l > 0; l-- {
				if !seen[string(k)] {
					seen[string(k)] = true
					keys = append(keys, append([]byte{}, k...))
				}
				ext := make([]byte, 1+rnd.Intn(2))
				rnd.Read(ext)
				k = append(append([]byte{}, k...), ext...)
			}
		}
	}
	for _, k := range keys {
		v := make([]byte, pgValLens[rnd.Intn(len(pgValLens))])
		rnd.Read(v)
		ents = append(ents, pgKV{K: k, V: v})
	}
	return class, ents
}

// c08BuildPrefixWorld builds a trie over arbitrary distinct keys (Ref == nil, KeyLen == -1).
func c08BuildPrefixWorld(class string, ents []pgKV, rnd *mrand.Rand, reopen bool) (*pgWorld, error) {
	w := &pgWorld{Class: class, KeyLen: -1, Model: map[string][]byte{}, Reopened: reopen}
	w.Ents = append(w.Ents, ents...)
	sort.Slice(w.Ents, func(i, j int) bool { return bytes.Compare(w.Ents[i].K, w.Ents[j].K) < 0 })
	for _, e := range w.Ents {
		if _, dup := w.Model[string(e.K)]; dup || len(e.V) == 0 {
			return nil, fmt.Errorf("generator produced bad or duplicate entry %x", e.K)
		}
		w.Model[string(e.K)] = e.V
	}
	db := newTestDatabase(rawdb.NewMemoryDatabase(), rawdb.HashScheme)
	tr := NewEmpty(db)
	order := make([]int, len(w.Ents))
	for i := range order {
		order[i] = i
	}
	if rnd != nil {
		rnd.Shuffle(len(order), func(i, j int) { order[i], order[j] = order[j], order[i] })
	}
	for _, i := range order {
		if err := tr.Update(w.Ents[i].K, w.Ents[i].V); err != nil {
			return nil, err
		}
	}
	w.Root = tr.Hash()
	if reopen {
		root, nodes := tr.Commit(false)
		if nodes != nil {
			if err := db.Update(root, types.EmptyRootHash, trienode.NewWithNodeSet(nodes)); err != nil {
				return nil, err
			}
		}
		nt, err := New(TrieID(root), db)
		if err != nil {
			return nil, err
		}
		tr = nt
	}
	w.Tr = tr
	return w, nil
}

// c08PrefixKeys: every present key, every proper prefix of a present key, present keys
// extended by one byte, the empty key and a random key.
func c08PrefixKeys(w *pgWorld, rnd *mrand.Rand) (keys [][]byte, labels []string) {
	seen := map[string]bool{}
	add := func(k []byte, label string) {
		if !seen[string(k)] {
			seen[string(k)] = true
			keys = append(keys, append([]byte{}, k...))
			labels = append(labels, label)
		}
	}
	for _, e := range w.Ents {
		add(e.K, "present")
	}
	for _, e := range w.Ents {
		for l := 0; l < len(e.K) && l <= 4; l++ {
			add(e.K[:l], "prefix-of-present")
		}
		if len(e.K) > 5 {
			add(e.K[:len(e.K)-1], "prefix-of-present")
		}
		add(append(append([]byte{}, e.K...), byte(rnd.Intn(2)*rnd.Intn(256))), "extension-of-present")
	}
	add([]byte{}, "emptykey")
	r := make([]byte, rnd.Intn(4))
	rnd.Read(r)
	add(r, "random")
	return keys, labels
}

// c08RunPrefixWorld: completeness for all keys, then the adversarial bags.
func c08RunPrefixWorld(t pgFataler, st *vs.S, a *pgWorld, ch pgChooser, rnd *mrand.Rand) {
	// sibling: 1..2 entries changed (value changed, entry dropped, extension/prefix key added)
	ents := append([]pgKV{}, a.Ents...)
	for m := 1 + ch.Intn(2); m > 0; m-- {
		i := ch.Intn(len(ents))
		nv := make([]byte, 1+rnd.Intn(40))
		rnd.Read(nv)
		switch op := ch.Intn(4); {
		case op == 0 && len(ents) > 1:
			ents = append(ents[:i:i], ents[i+1:]...)
		case op == 1:
			ents[i] = pgKV{K: ents[i].K, V: nv}
		default:
			k := append(append([]byte{}, ents[i].K...), byte(rnd.Intn(256)))
			if op == 3 && len(ents[i].K) > 0 {
				k = append([]byte{}, ents[i].K[:len(ents[i].K)-1]...)
			}
			dup := false
			for _, e := range ents {
				dup = dup || bytes.Equal(e.K, k)
			}
			if !dup {
				ents = append(ents, pgKV{K: k, V: nv})
			}
		}
	}
	b, err := c08BuildPrefixWorld("sibling-of-"+a.Class, ents, rnd, false)
	if err != nil {
		t.Fatalf("VERIF-HARNESS-BUG: %v", err)
	}
	collect := func(w *pgWorld) [][]byte {
		var ks [][]byte
		for _, e := range w.Ents {
			ks = append(ks, e.K)
		}
		db, err := pgProve(w.Tr, ks...)
		if err != nil {
			t.Fatalf("Prove failed: %v\n%s", err, c08WorldString(w))
		}
		return pgBlobs(db)
	}
	genA, genB := collect(a), collect(b)
	keys, labels := c08PrefixKeys(a, rnd)
	for i, key := range keys {
		honest := c08Honest(t, st, a, key, labels[i])
		if len(honest) <= 6 {
			for x := range honest {
				bag := append(append([][]byte{}, honest[:x]...), honest[x+1:]...)
				c08Adversarial(t, st, a, key, bag, []string{"omit-one"}, 1)
			}
		}
		w, tags, omitted := a, []string{"prefix-bag"}, 0
		var bag [][]byte
		for _, n := range append(append([][]byte{}, genA...), genB...) {
			if rnd.Intn(5) != 0 {
				bag = append(bag, n)
			} else {
				omitted++
			}
		}
		if ch.Intn(3) == 0 {
			bag = append(bag, pgArbitraryBlobs(rnd, genA, 3)...)
			tags = append(tags, "arbitrary")
		}
		if ch.Intn(3) == 0 {
			w = b
			tags = append(tags, "sibling-root")
		}
		c08Adversarial(t, st, w, key, bag, tags, omitted)
	}
}

func c08PrefixProp(st *vs.S) func(rt *rapid.T) {
	return func(rt *rapid.T) {
		rnd := mrand.New(mrand.NewSource(int64(rapid.Uint64().Draw(rt, "bulkSeed"))))
		class, ents := c08DrawPrefixEntries(rt, rnd)
		reopen := rapid.IntRange(0, 3).Draw(rt, "reopen") == 0
		w, err := c08BuildPrefixWorld("prefix-"+class, ents, rnd, reopen)
		if err != nil {
			rt.Fatalf("VERIF-HARNESS-BUG: %v", err)
		}
		c08RunPrefixWorld(rt, st, w, pgRapidChooser{rt}, rnd)
	}
}

// TestVerifC08PrefixKeys: tries whose keys are prefixes of one another (values in
// branch value slots, the empty key), judged by the plain model map.
func TestVerifC08PrefixKeys(t *testing.T) {
	st := vs.New("C08", t)
	vs.Check(t, 0.5, c08PrefixProp(st))
}

// TestVerifC08PrefixExhaustive enumerates all non-empty subsets of a 7-key universe
// with nested prefixes (byte- and nibble-level) x 2 value sizes; every key of the
// universe is proven in every trie and every proper sub-bag of its proof verified.
func TestVerifC08PrefixExhaustive(t *testing.T) {
	vs.OnlyShard0(t)
	st := vs.New("C08", t)
	universe := [][]byte{{}, {0x61}, {0x61, 0x61}, {0x61, 0x62}, {0x61, 0x61, 0x62}, {0x62}, {0x60}}
	probes := append([][]byte{}, universe...)
	probes = append(probes, []byte{0x61, 0x61, 0x61}, []byte{0x6f}, []byte{0x61, 0x62, 0x00}, []byte{0x71})
	worlds := 0
	for _, vl := range []int{1, 33} {
		for mask := 1; mask < 1<<len(universe); mask++ {
			var ents []pgKV
			for i, k := range universe {
				if mask&(1<<i) != 0 {
					ents = append(ents, pgKV{K: k, V: bytes.Repeat([]byte{byte(0xa0 + i)}, vl)})
				}
			}
			w, err := c08BuildPrefixWorld(fmt.Sprintf("prefix-enum%d", vl), ents, nil, false)
			if err != nil {
				t.Fatalf("VERIF-HARNESS-BUG: %v", err)
			}
			worlds++
			for _, key := range probes {
				honest := c08Honest(t, st, w, key, "enum")
				if len(honest) > 5 {
					continue
				}
				for sub := 0; sub < 1<<len(honest)-1; sub++ {
					var bag [][]byte
					for x := range honest {
						if sub&(1<<x) != 0 {
							bag = append(bag, honest[x])
						}
					}
					c08Adversarial(t, st, w, key, bag, []string{"enum-subbag"}, len(honest)-len(bag))
				}
			}
		}
	}
	st.Exhaustive(fmt.Sprintf("%d tries over a 7-key universe with nested prefixes (incl. the empty key) x %d keys x every proper sub-bag of the honest proof", worlds, len(probes)))
}

// FuzzVerifC08Rapid drives the rapid property from the native fuzzer's byte stream.
func FuzzVerifC08Rapid(f *testing.F) {
	st := vs.New("C08", f)
	fixed, prefix := c08Prop(st), c08PrefixProp(st)
	f.Fuzz(rapid.MakeFuzz(func(rt *rapid.T) {
		if rapid.IntRange(0, 2).Draw(rt, "space") == 0 {
			prefix(rt)
		} else {
			fixed(rt)
		}
	}))
}

// c08SplitBlobs cuts fuzzer bytes into length-prefixed blobs.
func c08SplitBlobs(data []byte) [][]byte {
	var out [][]byte
	for len(data) > 0 && len(out) < 64 {
		l := int(data[0])
		data = data[1:]
		if l > len(data) {
			l = len(data)
		}
		out = append(out, data[:l])
		data = data[l:]
	}
	return out
}

// FuzzVerifC08Blobs feeds raw node blobs as the proof database: the first blob's
// hash is the root, the second blob is the key. Nothing is known about the "true"
// trie here, so only the absence of panics is asserted; in a second step the blobs
// are added to a genuine trie's node bag, where the soundness oracle applies.
func FuzzVerifC08Blobs(f *testing.F) {
	st := vs.New("C08", f)
	if w, err := pgBuildWorld("seed", 2, []pgKV{{K: []byte{0, 0}, V: []byte{1}}, {K: []byte{0, 1}, V: bytes.Repeat([]byte{2}, 33)},
		{K: []byte{0x10, 0}, V: bytes.Repeat([]byte{3}, 20)}}, nil, false); err == nil {
		var seed []byte
		for _, b := range append([][]byte{w.Ref.Nodes[""], {0x00, 0x01}}, w.pgGenuine()...) {
			seed = append(append(seed, byte(len(b))), b...)
		}
		f.Add(seed)
	}
	f.Add([]byte{3, 0xc2, 0x20, 0x01, 1, 0x00})
	f.Add([]byte{})
	f.Fuzz(func(t *testing.T, data []byte) {
		if len(data) > 8192 {
			data = data[:8192]
		}
		blobs := c08SplitBlobs(data)
		if len(blobs) < 2 {
			return
		}
		key := blobs[1]
		db := pgProofDB(blobs)
		if _, _, panicked := c08Verify(pgHashKey(blobs[0]), key, db); panicked != "" {
			t.Fatalf("VerifyProof panicked on raw blobs: %s\nroot blob %x key %x", panicked, blobs[0], key)
		}
		// genuine world shaped by the same bytes, with the raw blobs as extra nodes
		ch := &pgByteChooser{data: data}
		w := pgWorldFromBytes(t, ch)
		if w == nil {
			return
		}
		gen := w.pgGenuine()
		for x := 0; x < 4; x++ {
			var k []byte
			if ch.Intn(2) == 0 {
				k = w.Ents[ch.Intn(len(w.Ents))].K
			} else {
				k = append([]byte{}, key...)
				if len(k) > w.KeyLen {
					k = k[:w.KeyLen]
				}
			}
			bag := append([][]byte{}, blobs...)
			omitted := 0
			for _, n := range gen {
				if ch.Intn(8) != 0 {
					bag = append(bag, n)
				} else {
					omitted++
				}
			}
			c08Adversarial(t, st, w, k, bag, []string{"fuzz-blobs"}, omitted)
		}
	})
}
