//go:build verif

// Package kvdiff hosts the C23 lock-step comparison of the key-value backends
// (memorydb, Pebble, LevelDB and rawdb table views); it only contains tests.
package kvdiff
