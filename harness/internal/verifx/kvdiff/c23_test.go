//go:build verif

package kvdiff

// C23 - key-value backends are observationally equivalent.
//
// One rapid-generated history is applied in lock-step to three backends -
// memorydb, Pebble and LevelDB (the disk stores in a temp dir) - each accessed
// both directly and through a rawdb.NewTable(prefix) view over the same store.
// A sorted-map model of the underlying key space predicts every read, every
// iterator sequence and the effect of every write, batch, replay and range
// deletion; all backends must agree with the model and therefore with each other.

import (
	"bytes"
	"fmt"
	"os"
	"sort"
	"strings"
	"testing"
	"time"

	"github.com/ethereum/go-ethereum/core/rawdb"
	"github.com/ethereum/go-ethereum/ethdb"
	"github.com/ethereum/go-ethereum/ethdb/leveldb"
	"github.com/ethereum/go-ethereum/ethdb/memorydb"
	"github.com/ethereum/go-ethereum/ethdb/pebble"
	"pgregory.net/rapid"
	vs "verif.local/kit/stat"
)

const testName = "TestVerifC23LockStep"

// Class labels of known-finding signatures (notes/C23.md).
const (
	knownMemBatchDeleteEmptyKey = "memorydb-batch-delete-of-empty-key-purges-store"
	knownLevelBatchRangeEager   = "leveldb-batch-deleterange-evaluated-at-call-time"
	knownTableReplayRange       = "table-batch-replay-rejects-range-deletion"
)

// ---------------------------------------------------------------- model

type kvop struct {
	kind             int // 0 put, 1 delete, 2 deleteRange
	key, val, end    []byte
	hasStart, hasEnd bool
}

func (o kvop) String() string {
	b := func(x []byte, has bool) string {
		if !has {
			return "nil"
		}
		return fmt.Sprintf("%q", x)
	}
	switch o.kind {
	case 0:
		return fmt.Sprintf("put(%q,%x)", o.key, o.val)
	case 1:
		return fmt.Sprintf("del(%q)", o.key)
	default:
		return fmt.Sprintf("delRange(%s,%s)", b(o.key, o.hasStart), b(o.end, o.hasEnd))
	}
}

// model is the content of the underlying store; views address it through a prefix.
type model map[string][]byte

func (m model) clone() model {
	c := make(model, len(m))
	for k, v := range m {
		c[k] = v
	}
	return c
}

// apply executes op, given in the key space of the view with prefix p.
func (m model) apply(p string, o kvop) {
	switch o.kind {
	case 0:
		m[p+string(o.key)] = append([]byte{}, o.val...)
	case 1:
		delete(m, p+string(o.key))
	case 2:
		for k := range m {
			if !strings.HasPrefix(k, p) {
				continue
			}
			s := k[len(p):]
			if o.hasStart && s < string(o.key) {
				continue
			}
			if o.hasEnd && s >= string(o.end) {
				continue
			}
			delete(m, k)
		}
	}
}

type pair struct{ k, v []byte }

// iterate lists what NewIterator(prefix, start) on the view p must yield.
func (m model) iterate(p string, prefix, start []byte) []pair {
	full := p + string(prefix)
	low := full + string(start)
	var keys []string
	for k := range m {
		if strings.HasPrefix(k, full) && k >= low {
			keys = append(keys, k)
		}
	}
	sort.Strings(keys)
	out := make([]pair, len(keys))
	for i, k := range keys {
		out[i] = pair{[]byte(k[len(p):]), m[k]}
	}
	return out
}

func (m model) overlaps(p string, o kvop) bool {
	c := m.clone()
	c.apply(p, o)
	return len(c) != len(m)
}

// ---------------------------------------------------------------- backends

type backend struct {
	name   string
	kv     ethdb.KeyValueStore // direct access
	tab    ethdb.Database      // table view over kv
	open   func() (ethdb.KeyValueStore, error)
	active bool
}

func (b *backend) view(v int) ethdb.KeyValueStore {
	if v == 0 {
		return b.kv
	}
	return b.tab
}

type world struct {
	rt       *rapid.T
	prefix   string // table prefix
	backends []*backend
	m        model
	// open batches: [view][slot]
	batchOps [2][2][]kvop
	batches  [][2][2]ethdb.Batch // per backend
	// pending iterator opened earlier
	itOpen    bool
	itView    int
	itPrefix  []byte
	itStart   []byte
	itSnap    []pair
	itSeen    int
	itDirty   bool
	itLast    [][]byte // last key yielded per backend
	its       []ethdb.Iterator
	itDone    []bool
	trace     []string
	window    [2][2]bool // batch slots holding a range deletion while the LevelDB class is gated
	excluded  int
	nontriv   map[string]bool
	stepCount int
}

func (w *world) logf(format string, a ...any) {
	w.trace = append(w.trace, fmt.Sprintf(format, a...))
}

func (w *world) fail(format string, a ...any) {
	w.rt.Fatalf("%s\nhistory (table prefix %q):\n  %s", fmt.Sprintf(format, a...), w.prefix, strings.Join(w.trace, "\n  "))
}

var tempRoot string

func setupTemp(t *testing.T) {
	const shm = "/dev/shm"
	if fi, err := os.Stat(shm); err != nil || !fi.IsDir() {
		return
	}
	if ents, err := os.ReadDir(shm); err == nil {
		for _, e := range ents {
			if !strings.HasPrefix(e.Name(), "verif-c23-") {
				continue
			}
			if info, err := e.Info(); err == nil && time.Since(info.ModTime()) > time.Hour {
				os.RemoveAll(shm + "/" + e.Name())
			}
		}
	}
	dir, err := os.MkdirTemp(shm, "verif-c23-")
	if err != nil {
		return
	}
	tempRoot = dir
	t.Cleanup(func() { os.RemoveAll(dir); tempRoot = "" })
}

func newWorld(rt *rapid.T, dir string) *world {
	w := &world{rt: rt, m: model{}, nontriv: map[string]bool{}}
	w.prefix = rapid.SampledFrom([]string{"a", "\xff", "ab", "\x00", "a\xff"}).Draw(rt, "tablePrefix")
	mem := &backend{name: "memorydb", open: func() (ethdb.KeyValueStore, error) { return nil, nil }}
	mem.kv = memorydb.New()
	peb := &backend{name: "pebble", open: func() (ethdb.KeyValueStore, error) { return pebble.New(dir+"/pebble", 16, 16, "", false) }}
	lvl := &backend{name: "leveldb", open: func() (ethdb.KeyValueStore, error) { return leveldb.New(dir+"/leveldb", 16, 16, "", false) }}
	w.backends = []*backend{mem, peb, lvl}
	for _, b := range w.backends {
		if b.kv == nil {
			kv, err := b.open()
			if err != nil {
				rt.Fatalf("VERIF-HARNESS-BUG: open %s: %v", b.name, err)
			}
			b.kv = kv
		}
		b.tab = rawdb.NewTable(rawdb.NewDatabase(b.kv), w.prefix)
		b.active = true
	}
	w.batches = make([][2][2]ethdb.Batch, len(w.backends))
	w.its = make([]ethdb.Iterator, len(w.backends))
	w.itDone = make([]bool, len(w.backends))
	w.itLast = make([][]byte, len(w.backends))
	return w
}

func (w *world) close() {
	w.releaseIter()
	for _, b := range w.backends {
		if b.kv != nil {
			b.kv.Close()
		}
	}
}

func (w *world) viewPrefix(v int) string {
	if v == 0 {
		return ""
	}
	return w.prefix
}

func viewName(v int) string {
	if v == 0 {
		return "direct"
	}
	return "table"
}

// ---------------------------------------------------------------- generators

var alphabet = []byte{'a', 'b', 0x00, 0xff}

func (w *world) drawKey(label string, view int) []byte {
	rt := w.rt
	n := rapid.IntRange(0, 4).Draw(rt, label+"/len")
	k := make([]byte, n)
	for i := range k {
		k[i] = rapid.SampledFrom(alphabet).Draw(rt, label+"/byte")
	}
	// direct keys often fall into (or next to) the table's range
	if view == 0 && rapid.IntRange(0, 2).Draw(rt, label+"/inTable") == 0 {
		k = append([]byte(w.prefix), k...)
		if len(k) > 5 {
			k = k[:5]
		}
	}
	return k
}

func (w *world) drawBound(label string, view int) ([]byte, bool) {
	if rapid.IntRange(0, 4).Draw(w.rt, label+"/nil") == 0 {
		return nil, false
	}
	return w.drawKey(label, view), true
}

func (w *world) drawValue() []byte {
	rt := w.rt
	w.stepCount++
	n := rapid.IntRange(0, 8).Draw(rt, "valueLen")
	v := make([]byte, n)
	for i := range v {
		v[i] = byte(w.stepCount + i*31)
	}
	return v
}

func (w *world) drawRange(view int) kvop {
	s, hs := w.drawBound("rangeStart", view)
	e, he := w.drawBound("rangeEnd", view)
	// inverted ranges (start > end) are outside the domain: no caller issues them and
	// the interface does not define them; equal bounds (empty range) are kept
	if hs && he && bytes.Compare(s, e) > 0 {
		s, e = e, s
	}
	return kvop{kind: 2, key: s, end: e, hasStart: hs, hasEnd: he}
}

// ---------------------------------------------------------------- comparison

func (w *world) checkKey(view int, key []byte) {
	want, ok := w.m[w.viewPrefix(view)+string(key)]
	for _, b := range w.backends {
		if !b.active {
			continue
		}
		st := b.view(view)
		has, err := st.Has(key)
		if err != nil {
			w.fail("%s/%s: Has(%q) error %v", b.name, viewName(view), key, err)
		}
		got, gerr := st.Get(key)
		if has != ok {
			w.fail("%s/%s: Has(%q)=%v, model %v", b.name, viewName(view), key, has, ok)
		}
		if ok {
			if gerr != nil || !bytes.Equal(got, want) {
				w.fail("%s/%s: Get(%q)=%x,%v, model %x", b.name, viewName(view), key, got, gerr, want)
			}
		} else if gerr == nil {
			w.fail("%s/%s: Get(%q) of an absent key returned %x without error", b.name, viewName(view), key, got)
		}
	}
}

func (w *world) collect(it ethdb.Iterator) ([]pair, error) {
	var out []pair
	for it.Next() {
		out = append(out, pair{append([]byte{}, it.Key()...), append([]byte{}, it.Value()...)})
	}
	err := it.Error()
	it.Release()
	return out, err
}

func samePairs(a, b []pair) bool {
	if len(a) != len(b) {
		return false
	}
	for i := range a {
		if !bytes.Equal(a[i].k, b[i].k) || !bytes.Equal(a[i].v, b[i].v) {
			return false
		}
	}
	return true
}

func fmtPairs(ps []pair) string {
	var sb strings.Builder
	for _, p := range ps {
		fmt.Fprintf(&sb, "%q=%x ", p.k, p.v)
	}
	return "[" + strings.TrimSpace(sb.String()) + "]"
}

func (w *world) checkIter(view int, prefix, start []byte, what string) {
	want := w.m.iterate(w.viewPrefix(view), prefix, start)
	for _, b := range w.backends {
		if !b.active {
			continue
		}
		// fresh copies: implementations append to the slices they are given
		p, s := append([]byte(nil), prefix...), append([]byte(nil), start...)
		if prefix == nil {
			p = nil
		}
		if start == nil {
			s = nil
		}
		got, err := w.collect(b.view(view).NewIterator(p, s))
		if err != nil {
			w.fail("%s/%s: iterator(%q,%q) error %v", b.name, viewName(view), prefix, start, err)
		}
		if !samePairs(got, want) {
			w.fail("%s: %s/%s NewIterator(%q,%q) yields %s, model %s", what, b.name, viewName(view), prefix, start, fmtPairs(got), fmtPairs(want))
		}
	}
}

func (w *world) checkAll(what string) {
	w.checkIter(0, nil, nil, what)
	w.checkIter(1, nil, nil, what)
}

// ---------------------------------------------------------------- actions

func (w *world) mutated() {
	if w.itOpen {
		w.itDirty = true
	}
}

func (w *world) noteRange(view int, o kvop) {
	if w.m.overlaps(w.viewPrefix(view), o) {
		w.nontriv["range-deletion-over-live-keys"] = true
	}
}

func (w *world) actPut(view int) {
	o := kvop{kind: 0, key: w.drawKey("key", view), val: w.drawValue()}
	w.logf("%s.%s", viewName(view), o)
	for _, b := range w.backends {
		if b.kv != nil {
			if err := b.view(view).Put(o.key, o.val); err != nil {
				w.fail("%s/%s: Put error %v", b.name, viewName(view), err)
			}
		}
	}
	w.m.apply(w.viewPrefix(view), o)
	w.mutated()
	w.checkKey(view, o.key)
}

func (w *world) actDelete(view int) {
	o := kvop{kind: 1, key: w.drawKey("key", view)}
	w.logf("%s.%s", viewName(view), o)
	for _, b := range w.backends {
		if b.kv != nil {
			if err := b.view(view).Delete(o.key); err != nil {
				w.fail("%s/%s: Delete error %v", b.name, viewName(view), err)
			}
		}
	}
	w.m.apply(w.viewPrefix(view), o)
	w.mutated()
	w.checkKey(view, o.key)
}

func bound(b []byte, has bool) []byte {
	if !has {
		return nil
	}
	if b == nil {
		return []byte{}
	}
	return append([]byte{}, b...)
}

func (w *world) actDeleteRange(view int) {
	o := w.drawRange(view)
	w.logf("%s.%s", viewName(view), o)
	w.noteRange(view, o)
	for _, b := range w.backends {
		if b.kv != nil {
			if err := b.view(view).DeleteRange(bound(o.key, o.hasStart), bound(o.end, o.hasEnd)); err != nil {
				w.fail("%s/%s: %s error %v", b.name, viewName(view), o, err)
			}
		}
	}
	w.m.apply(w.viewPrefix(view), o)
	w.mutated()
}

func (w *world) actGet(view int) {
	k := w.drawKey("key", view)
	w.checkKey(view, k)
}

func (w *world) ensureBatch(view, slot int) {
	if w.batches[0][view][slot] != nil {
		return
	}
	size := -1
	if rapid.Bool().Draw(w.rt, "batchWithSize") {
		size = rapid.SampledFrom([]int{0, 1, 64}).Draw(w.rt, "batchSize")
	}
	for i, b := range w.backends {
		if size >= 0 {
			w.batches[i][view][slot] = b.view(view).NewBatchWithSize(size)
		} else {
			w.batches[i][view][slot] = b.view(view).NewBatch()
		}
	}
}

func (w *world) actBatchAdd(view, slot int) {
	rt := w.rt
	w.ensureBatch(view, slot)
	var o kvop
	switch rapid.IntRange(0, 5).Draw(rt, "batchOp") {
	case 0, 1, 2:
		// reuse keys already in the batch so that puts and deletes of one key meet
		o = kvop{kind: 0, key: w.batchKey(view, slot), val: w.drawValue()}
	case 3, 4:
		o = kvop{kind: 1, key: w.batchKey(view, slot)}
	default:
		o = w.drawRange(view)
	}
	if o.kind == 1 && len(o.key) == 0 && view == 0 {
		if vs.Known(testName, knownMemBatchDeleteEmptyKey) {
			o.key = []byte{'a'}
			w.excluded++
		} else {
			w.nontriv["history:"+knownMemBatchDeleteEmptyKey] = true
		}
	}
	if o.kind == 2 {
		w.nontriv["info:batch-range-deletion"] = true
		if vs.Known(testName, knownLevelBatchRangeEager) && !w.window[view][slot] {
			// known finding: LevelDB keeps executing every action but is not compared from
			// here until this batch is written or reset; then its content is reconciled
			w.window[view][slot] = true
			w.excluded++
			w.suspendLevel()
		}
	}
	w.logf("%s.batch%d.%s", viewName(view), slot, o)
	for i, b := range w.backends {
		if b.kv == nil {
			continue
		}
		bt := w.batches[i][view][slot]
		before := bt.ValueSize()
		var err error
		switch o.kind {
		case 0:
			err = bt.Put(o.key, o.val)
		case 1:
			err = bt.Delete(o.key)
		default:
			err = bt.DeleteRange(bound(o.key, o.hasStart), bound(o.end, o.hasEnd))
		}
		if err != nil {
			w.fail("%s/%s: batch %s error %v", b.name, viewName(view), o, err)
		}
		if bt.ValueSize() < before {
			w.fail("%s/%s: batch ValueSize shrank from %d to %d after %s", b.name, viewName(view), before, bt.ValueSize(), o)
		}
	}
	for _, prev := range w.batchOps[view][slot] {
		if prev.kind != 2 && o.kind != 2 && prev.kind != o.kind && bytes.Equal(prev.key, o.key) {
			w.nontriv["batch-put-and-delete-of-one-key"] = true
		}
	}
	w.batchOps[view][slot] = append(w.batchOps[view][slot], o)
	// an unwritten batch is invisible
	w.checkAll("after adding to an unwritten batch")
}

func (w *world) batchKey(view, slot int) []byte {
	ops := w.batchOps[view][slot]
	if len(ops) > 0 && rapid.Bool().Draw(w.rt, "reuseBatchKey") {
		o := ops[rapid.IntRange(0, len(ops)-1).Draw(w.rt, "reuseIdx")]
		if o.kind != 2 {
			return append([]byte{}, o.key...)
		}
	}
	return w.drawKey("key", view)
}

func (w *world) actBatchWrite(view, slot int) {
	if w.batchOps[view][slot] == nil && w.batches[0][view][slot] == nil {
		return
	}
	w.ensureBatch(view, slot)
	w.logf("%s.batch%d.Write()", viewName(view), slot)
	for _, o := range w.batchOps[view][slot] {
		if o.kind == 2 {
			w.noteRange(view, o)
		}
		w.m.apply(w.viewPrefix(view), o)
	}
	for i, b := range w.backends {
		if b.kv == nil {
			continue
		}
		if err := w.batches[i][view][slot].Write(); err != nil {
			w.fail("%s/%s: batch Write error %v", b.name, viewName(view), err)
		}
	}
	w.closeWindow(view, slot)
	w.mutated()
	w.checkAll("after batch write")
	// callers reset a written batch before reusing it
	w.actBatchReset(view, slot)
}

func (w *world) actBatchReset(view, slot int) {
	if w.batches[0][view][slot] == nil {
		return
	}
	w.logf("%s.batch%d.Reset()", viewName(view), slot)
	for i, b := range w.backends {
		if w.batches[i][view][slot] == nil {
			continue
		}
		bt := w.batches[i][view][slot]
		bt.Reset()
		if bt.ValueSize() != 0 {
			w.fail("%s/%s: ValueSize %d after Reset", b.name, viewName(view), bt.ValueSize())
		}
	}
	w.batchOps[view][slot] = nil
	w.closeWindow(view, slot)
}

func (w *world) level() (int, *backend) {
	for i, b := range w.backends {
		if b.name == "leveldb" {
			return i, b
		}
	}
	return -1, nil
}

// suspendLevel takes LevelDB out of the comparisons (it still executes everything).
func (w *world) suspendLevel() {
	i, b := w.level()
	if b == nil || !b.active {
		return
	}
	b.active = false
	if w.its[i] != nil {
		w.its[i].Release()
		w.its[i] = nil
	}
	w.logf("[leveldb suspended: batch range deletion pending]")
}

// closeWindow ends the suspension caused by one batch slot; when no slot is left
// LevelDB's content is reconciled with the model and it rejoins the lock-step.
func (w *world) closeWindow(view, slot int) {
	if !w.window[view][slot] {
		return
	}
	w.window[view][slot] = false
	for v := range w.window {
		for s := range w.window[v] {
			if w.window[v][s] {
				return
			}
		}
	}
	_, b := w.level()
	if b == nil || b.active {
		return
	}
	it := b.kv.NewIterator(nil, nil)
	var stale [][]byte
	for it.Next() {
		if v, ok := w.m[string(it.Key())]; !ok || !bytes.Equal(v, it.Value()) {
			stale = append(stale, append([]byte{}, it.Key()...))
		}
	}
	it.Release()
	for _, k := range stale {
		b.kv.Delete(k)
	}
	for k, v := range w.m {
		if has, _ := b.kv.Has([]byte(k)); !has {
			b.kv.Put([]byte(k), v)
		}
	}
	b.active = true
	w.logf("[leveldb reconciled (%d stale keys) and back in the lock-step]", len(stale))
}

// recorder is a KeyValueWriter (+range deleter) that records what is replayed into it.
type recorder struct{ ops []kvop }

func (r *recorder) Put(k, v []byte) error {
	r.ops = append(r.ops, kvop{kind: 0, key: append([]byte{}, k...), val: append([]byte{}, v...)})
	return nil
}
func (r *recorder) Delete(k []byte) error {
	r.ops = append(r.ops, kvop{kind: 1, key: append([]byte{}, k...)})
	return nil
}
func (r *recorder) DeleteRange(s, e []byte) error {
	r.ops = append(r.ops, kvop{kind: 2, key: append([]byte{}, s...), end: append([]byte{}, e...), hasStart: s != nil, hasEnd: e != nil})
	return nil
}

// actBatchReplay replays a batch (a) into a recorder: the recorded operations, applied
// to the current content, must have the same effect as the batch's operations; and
// (b) into a fresh batch of the same view which is then written.
func (w *world) actBatchReplay(view, slot int) {
	ops := w.batchOps[view][slot]
	if len(ops) == 0 {
		return
	}
	hasRange := false
	for _, o := range ops {
		hasRange = hasRange || o.kind == 2
	}
	if view == 1 && hasRange {
		if vs.Known(testName, knownTableReplayRange) {
			w.excluded++
			return
		}
		w.nontriv["history:"+knownTableReplayRange] = true
	}
	intoBatch := rapid.Bool().Draw(w.rt, "replayIntoBatch")
	w.nontriv[fmt.Sprintf("info:replay(intoBatch=%v,range=%v)", intoBatch, hasRange)] = true
	w.logf("%s.batch%d.Replay(intoBatch=%v)", viewName(view), slot, intoBatch)
	p := w.viewPrefix(view)
	want := w.m.clone()
	for _, o := range ops {
		want.apply(p, o)
	}
	if !intoBatch {
		for i, b := range w.backends {
			if !b.active {
				continue
			}
			rec := &recorder{}
			if err := w.batches[i][view][slot].Replay(rec); err != nil {
				w.fail("%s/%s: Replay into a recording writer failed: %v (batch %v)", b.name, viewName(view), err, ops)
			}
			got := w.m.clone()
			for _, o := range rec.ops {
				got.apply(p, o)
			}
			if !samePairs(got.iterate("", nil, nil), want.iterate("", nil, nil)) {
				w.fail("%s/%s: Replay produced %v, whose effect on the current content differs from the batch %v", b.name, viewName(view), rec.ops, ops)
			}
		}
		return
	}
	for i, b := range w.backends {
		if b.kv == nil {
			continue
		}
		nb := b.view(view).NewBatch()
		if err := w.batches[i][view][slot].Replay(nb); err != nil {
			w.fail("%s/%s: Replay into a batch failed: %v (batch %v)", b.name, viewName(view), err, ops)
		}
		if err := nb.Write(); err != nil {
			w.fail("%s/%s: write of replayed batch failed: %v", b.name, viewName(view), err)
		}
		nb.Close()
	}
	for _, o := range ops {
		if o.kind == 2 {
			w.noteRange(view, o)
		}
	}
	w.m = want
	w.mutated()
	w.checkAll("after writing a replayed batch")
}

func (w *world) actIterFull(view int) {
	var prefix, start []byte
	if rapid.Bool().Draw(w.rt, "iterHasPrefix") {
		prefix = w.drawKey("iterPrefix", view)
		if len(prefix) > 2 {
			prefix = prefix[:2]
		}
	}
	if rapid.Bool().Draw(w.rt, "iterHasStart") {
		start = w.drawKey("iterStart", view)
	}
	w.logf("%s.iterate(%q,%q)", viewName(view), prefix, start)
	w.checkIter(view, prefix, start, "iterator")
}

func (w *world) releaseIter() {
	for i := range w.its {
		if w.its[i] != nil {
			w.its[i].Release()
			w.its[i].Release() // releasing twice is allowed
			w.its[i] = nil
		}
	}
	w.itOpen = false
}

func (w *world) actIterOpen(view int) {
	if w.itOpen {
		return
	}
	var prefix, start []byte
	if rapid.Bool().Draw(w.rt, "iterHasPrefix") {
		prefix = w.drawKey("iterPrefix", view)
		if len(prefix) > 1 {
			prefix = prefix[:1]
		}
	}
	if rapid.IntRange(0, 2).Draw(w.rt, "iterHasStart") == 0 {
		start = w.drawKey("iterStart", view)
	}
	w.logf("%s.openIterator(%q,%q)", viewName(view), prefix, start)
	w.itOpen, w.itView, w.itPrefix, w.itStart = true, view, prefix, start
	w.itSnap = w.m.iterate(w.viewPrefix(view), prefix, start)
	w.itSeen, w.itDirty = 0, false
	for i, b := range w.backends {
		w.itDone[i], w.itLast[i] = false, nil
		if b.active {
			w.its[i] = b.view(view).NewIterator(append([]byte(nil), prefix...), append([]byte(nil), start...))
		}
	}
}

// actIterStep consumes up to n pairs from the pending iterator of every backend.
func (w *world) actIterStep(n int) {
	if !w.itOpen {
		return
	}
	w.logf("iterator.next x%d (writes since it was opened: %v)", n, w.itDirty)
	if w.itDirty {
		w.nontriv["iterator-opened-before-a-write"] = true
	}
	p := w.viewPrefix(w.itView)
	low := string(w.itPrefix) + string(w.itStart)
	for i, b := range w.backends {
		it := w.its[i]
		if it == nil || !b.active || w.itDone[i] {
			continue
		}
		for j := 0; j < n; j++ {
			if !it.Next() {
				w.itDone[i] = true
				if err := it.Error(); err != nil {
					w.fail("%s: pending iterator error %v", b.name, err)
				}
				if !w.itDirty && w.itSeen+j != len(w.itSnap) {
					w.fail("%s/%s: iterator(%q,%q) ended after %d pairs, model has %d", b.name, viewName(w.itView), w.itPrefix, w.itStart, w.itSeen+j, len(w.itSnap))
				}
				break
			}
			k, v := append([]byte{}, it.Key()...), append([]byte{}, it.Value()...)
			if !w.itDirty {
				idx := w.itSeen + j
				if idx >= len(w.itSnap) || !bytes.Equal(w.itSnap[idx].k, k) || !bytes.Equal(w.itSnap[idx].v, v) {
					w.fail("%s/%s: iterator(%q,%q) pair %d = %q=%x, model %s", b.name, viewName(w.itView), w.itPrefix, w.itStart, idx, k, v, fmtPairs(w.itSnap))
				}
			} else {
				// no snapshot isolation is promised: demand order, range and liveness only
				if w.itLast[i] != nil && bytes.Compare(w.itLast[i], k) >= 0 {
					w.fail("%s/%s: iterator keys not ascending: %q after %q", b.name, viewName(w.itView), k, w.itLast[i])
				}
				if !bytes.HasPrefix(k, w.itPrefix) || string(k) < low {
					w.fail("%s/%s: iterator(%q,%q) yielded out-of-range key %q", b.name, viewName(w.itView), w.itPrefix, w.itStart, k)
				}
				live := false
				if cur, ok := w.m[p+string(k)]; ok && bytes.Equal(cur, v) {
					live = true
				}
				for _, s := range w.itSnap {
					if bytes.Equal(s.k, k) && bytes.Equal(s.v, v) {
						live = true
					}
				}
				if !live {
					w.fail("%s/%s: iterator yielded %q=%x which was live neither when it was opened nor now", b.name, viewName(w.itView), k, v)
				}
			}
			w.itLast[i] = k
		}
	}
	if !w.itDirty {
		w.itSeen += n
		if w.itSeen > len(w.itSnap) {
			w.itSeen = len(w.itSnap)
		}
	}
}

func (w *world) actReopen() {
	w.logf("close and reopen the disk stores")
	w.releaseIter()
	for v := 0; v < 2; v++ {
		for s := 0; s < 2; s++ {
			for i := range w.backends {
				if w.batches[i][v][s] != nil {
					w.batches[i][v][s].Close()
					w.batches[i][v][s] = nil
				}
			}
			w.batchOps[v][s] = nil
		}
	}
	for _, b := range w.backends {
		if b.name == "memorydb" {
			continue
		}
		if err := b.kv.Close(); err != nil {
			w.fail("%s: Close error %v", b.name, err)
		}
		kv, err := b.open()
		if err != nil {
			w.fail("%s: reopen error %v", b.name, err)
		}
		b.kv = kv
		b.tab = rawdb.NewTable(rawdb.NewDatabase(kv), w.prefix)
	}
	for v := range w.window {
		for s := range w.window[v] {
			w.closeWindow(v, s)
		}
	}
	w.checkAll("after reopen")
}

// ---------------------------------------------------------------- property

func lockStep(rt *rapid.T, st *vs.S) {
	dir, err := os.MkdirTemp(tempRoot, "c23")
	if err != nil {
		rt.Fatalf("VERIF-HARNESS-BUG: mkdir: %v", err)
	}
	defer os.RemoveAll(dir)
	w := newWorld(rt, dir)
	defer w.close()
	steps := rapid.IntRange(8, 50).Draw(rt, "steps")
	for i := 0; i < steps; i++ {
		view := rapid.IntRange(0, 1).Draw(rt, "view")
		slot := rapid.IntRange(0, 1).Draw(rt, "slot")
		switch k := rapid.IntRange(0, 35).Draw(rt, "action"); {
		case k < 7:
			w.actPut(view)
		case k < 9:
			w.actDelete(view)
		case k < 12:
			w.actDeleteRange(view)
		case k < 13:
			w.actGet(view)
		case k < 22:
			w.actBatchAdd(view, slot)
		case k < 24:
			w.actBatchWrite(view, slot)
		case k < 25:
			w.actBatchReset(view, slot)
		case k < 28:
			w.actBatchReplay(view, slot)
		case k < 30:
			w.actIterFull(view)
		case k < 32:
			w.actIterOpen(view)
		case k < 34:
			w.actIterStep(rapid.IntRange(1, 3).Draw(rt, "iterN"))
		case k < 35:
			if w.itOpen {
				w.logf("iterator.release (partially consumed)")
				w.nontriv["info:iterator-released-early"] = true
				w.releaseIter()
			}
		default:
			if rapid.IntRange(0, 2).Draw(rt, "reopen") == 0 {
				w.nontriv["info:reopen"] = true
				w.actReopen()
			}
		}
		w.checkAll("after step")
	}
	// drain the pending iterator
	w.actIterStep(1 << 20)
	w.releaseIter()
	w.checkAll("at the end")

	c := st.Case()
	for i := 0; i < w.excluded; i++ {
		st.Excluded()
	}
	var labels []string
	for l := range w.nontriv {
		labels = append(labels, l)
	}
	sort.Strings(labels)
	nt := false
	for _, l := range labels {
		c.Class(l)
		if !strings.HasPrefix(l, "history:") && !strings.HasPrefix(l, "info:") {
			nt = true
		}
	}
	for _, b := range w.backends {
		if b.active {
			c.Class("in-lock-step-to-the-end:" + b.name)
		}
	}
	c.Classf("prefix:%q", w.prefix)
	c.Classf("steps:%d", steps/10*10)
	c.NonTrivial(nt, w.prefix+"|"+strings.Join(w.trace, ";"))
	c.Sample(nt, func() any { return map[string]any{"table_prefix": w.prefix, "history": w.trace, "classes": labels} })
}

// TestVerifC23LockStep applies random histories to memorydb, Pebble, LevelDB and
// table views over each, comparing every observation with a sorted-map model.
func TestVerifC23LockStep(t *testing.T) {
	st := vs.New("C23", t)
	setupTemp(t)
	vs.Check(t, 1, func(rt *rapid.T) { lockStep(rt, st) })
}
