//go:build verif

// Package recfreezer is a passive, recording wrapper around freezers
// (ethdb.ResettableAncientStore) for crash-consistency checks of code that
// owns a freezer next to a key-value store (DESIGN §2.7, §2.12; used by C20).
//
// A Recorder observes ONE directory (the "ancient root", which may hold several
// freezers in sub-directories, e.g. state/ and trienode/) with a kit/crashfs
// Tracker and shares a crashkv.Log with the key-value wrapper, so that freezer
// operations and key-value writes form one merged event history:
//
//	log := crashkv.NewLog()
//	kv  := crashkv.Wrap(memorydb.New(), log)
//	rec := recfreezer.NewRecorder(log, ancientRoot)
//	db  := pathdb.New(...)                       // opens its freezers itself
//	rec.Barrier("open")                          // everything on disk is durable now
//	db.stateFreezer = rec.Wrap(db.stateFreezer, "state")
//
// Every mutating operation that goes through a wrapped store (ModifyAncients,
// TruncateHead, TruncateTail, SyncAncient, Reset, Close) is executed on the
// inner store under the recorder's mutex (freezer operations of all wrapped
// stores are serialised; reads pass through unlocked), then the directory is
// observed, a Mark event "fz:<sub>:<op>" is appended to the log and a Point
// (log index of the mark, crashfs.State, metadata bookkeeping) is recorded.
// SyncAncient, Close and Reset are durability barriers for the files of that
// store; the tracker is updated before the point is taken.
//
// A crash at log index i (after Events[:i]) sees the freezer files as they were
// at PointAt(i): the last point whose mark index is < i. Instants strictly inside
// a freezer operation are not observed; they are approximated by the per-file
// cuts of the next point (same limitation as C24, see notes/C24.md).
//
// Point.Cuts(rt, mode) draws one crash image of the directory in the family used
// by C24 (the logic is a port of c24Image, generalised to several freezers):
//
//	mode 0  process kill: nothing lost
//	mode 1  everything not known durable is lost (fresh files missing)
//	mode 2  as 1, but lost ranges are left as zero-filled extensions
//	mode 3  random per-file cuts real[0:K] ++ zeros[K:L], random metadata version
//	mode 4  metadata regress: oldest metadata version seen since the last barrier, files intact
//
// Images respect the flushOffset contract documented in core/rawdb/freezer_meta.go:
// a metadata record stating flushOffset F vouches for the first F index bytes (as
// they were when that record was first observed) and for all data they reference.
// Metadata files (~20 bytes) are assumed to be rewritten atomically; index files
// are only ever replaced through temp-file+fsync+rename.
package recfreezer

import (
	"bytes"
	"encoding/binary"
	"fmt"
	"path"
	"strings"
	"sync"

	"github.com/ethereum/go-ethereum/ethdb"
	"github.com/ethereum/go-ethereum/internal/verifx/crashkv"
	"github.com/ethereum/go-ethereum/rlp"
	"pgregory.net/rapid"
	"verif.local/kit/crashfs"
)

// Point is the observed state of the directory after one recorded operation.
type Point struct {
	LogIndex int    // index of the Mark event in the shared log; the state holds for crash indices > LogIndex
	Label    string // "fz:<sub>:<op>" or the label given to Barrier
	State    *crashfs.State
	// refs[meta file name][metadata content] = index content when that metadata version was first observed
	refs map[string]map[string][]byte
}

// Recorder owns the tracker, the points and the mutex serialising freezer operations.
type Recorder struct {
	mu       sync.Mutex
	log      *crashkv.Log
	tracker  *crashfs.Tracker
	points   []Point
	lastMeta map[string]string
	metaRef  map[string]map[string][]byte
	err      error
}

// NewRecorder creates a recorder for the directory root (which may not exist yet).
func NewRecorder(log *crashkv.Log, root string) *Recorder {
	t := crashfs.NewTracker(root,
		func(n string) bool { return strings.HasSuffix(n, ".meta") },
		func(n string) bool { return path.Base(n) == "FLOCK" })
	t.AtomicReplace(func(n string) bool { return strings.HasSuffix(n, "idx") })
	return &Recorder{log: log, tracker: t, lastMeta: map[string]string{}, metaRef: map[string]map[string][]byte{}}
}

// Err returns the first observation error (a harness problem), if any.
func (r *Recorder) Err() error {
	r.mu.Lock()
	defer r.mu.Unlock()
	return r.err
}

// Points returns the recorded points (shared backing array; do not modify).
func (r *Recorder) Points() []Point {
	r.mu.Lock()
	defer r.mu.Unlock()
	return r.points[:len(r.points):len(r.points)]
}

// PointAt returns the point describing the directory for a crash at log index
// crash (after Events[:crash]): the last point with LogIndex < crash, nil if none.
func (r *Recorder) PointAt(crash int) *Point {
	r.mu.Lock()
	defer r.mu.Unlock()
	for i := len(r.points) - 1; i >= 0; i-- {
		if r.points[i].LogIndex < crash {
			return &r.points[i]
		}
	}
	return nil
}

// Barrier declares that everything currently in the directory (below sub, or the
// whole directory if sub is "") is durable - call it after the freezers were
// opened or closed outside the wrapper - and records a point.
func (r *Recorder) Barrier(label, sub string) {
	r.mu.Lock()
	defer r.mu.Unlock()
	r.record(label, sub, true)
}

func under(name, sub string) bool { return sub == "" || strings.HasPrefix(name, sub+"/") }

// record observes the directory, applies a barrier for the files below sub if
// requested, appends the mark and stores the point. Caller holds r.mu.
func (r *Recorder) record(label, sub string, barrier bool) {
	s, err := r.tracker.Observe()
	if err != nil {
		if r.err == nil {
			r.err = fmt.Errorf("recfreezer: observe at %q: %w", label, err)
		}
		return
	}
	if barrier {
		var names []string
		for i := range s.Files {
			if under(s.Files[i].Name, sub) {
				names = append(names, s.Files[i].Name)
			}
		}
		if len(names) > 0 {
			r.tracker.Sync(names...)
		}
		// forget older metadata versions of the synced tables
		for m := range r.metaRef {
			if under(m, sub) {
				delete(r.metaRef, m)
				delete(r.lastMeta, m)
			}
		}
		if s, err = r.tracker.Observe(); err != nil {
			if r.err == nil {
				r.err = fmt.Errorf("recfreezer: observe at %q: %w", label, err)
			}
			return
		}
	}
	r.noteMeta(s)
	refs := make(map[string]map[string][]byte, len(r.metaRef))
	for m, vers := range r.metaRef {
		cp := make(map[string][]byte, len(vers))
		for k, v := range vers {
			cp[k] = v
		}
		refs[m] = cp
	}
	idx := r.log.Mark(label)
	r.points = append(r.points, Point{LogIndex: idx, Label: label, State: s, refs: refs})
}

// table describes the files of one freezer table inside a State.
type table struct {
	prefix string // "<sub>/<table name>"
	meta   *crashfs.File
	idx    *crashfs.File
	dats   []*crashfs.File // sorted by name (= by file number)
}

func tablesOf(s *crashfs.State) []table {
	var out []table
	for i := range s.Files {
		f := &s.Files[i]
		if !strings.HasSuffix(f.Name, ".meta") {
			continue
		}
		t := table{prefix: strings.TrimSuffix(f.Name, ".meta"), meta: f}
		for _, ext := range []string{".ridx", ".cidx"} {
			if x := s.File(t.prefix + ext); x != nil {
				t.idx = x
			}
		}
		for j := range s.Files {
			d := &s.Files[j]
			if strings.HasPrefix(d.Name, t.prefix+".") && strings.HasSuffix(d.Name, "dat") {
				t.dats = append(t.dats, d)
			}
		}
		out = append(out, t)
	}
	return out
}

// noteMeta records, for every metadata content that newly became current, the
// index content at this observation.
func (r *Recorder) noteMeta(s *crashfs.State) {
	for _, t := range tablesOf(s) {
		if t.idx == nil {
			continue
		}
		m := t.meta.Name
		if r.metaRef[m] == nil {
			r.metaRef[m] = map[string][]byte{}
		}
		if cur := string(t.meta.Data); r.lastMeta[m] != cur || r.metaRef[m][cur] == nil {
			r.metaRef[m][cur] = t.idx.Data
			r.lastMeta[m] = cur
		}
	}
}

// Meta is the content of a freezer table metadata file (format of freezer_meta.go).
type Meta struct {
	Version uint16
	Tail    uint64
	Offset  uint64
}

// ParseMeta decodes a metadata file.
func ParseMeta(b []byte) (Meta, error) {
	var m Meta
	err := rlp.Decode(bytes.NewReader(b), &m)
	return m, err
}

type entry struct{ file, offset uint32 }

func parseIndex(b []byte) []entry {
	var es []entry
	for i := 0; i+6 <= len(b); i += 6 {
		es = append(es, entry{file: uint32(binary.BigEndian.Uint16(b[i:])), offset: binary.BigEndian.Uint32(b[i+2:])})
	}
	return es
}

func commonPrefix(a, b []byte) int64 {
	n := min(len(a), len(b))
	for i := 0; i < n; i++ {
		if a[i] != b[i] {
			return int64(i)
		}
	}
	return int64(n)
}

// Unsynced reports whether some file of the point holds data that is not known
// durable (so that a power-loss image differs from the kill image).
func (p *Point) Unsynced() bool {
	for i := range p.State.Files {
		f := &p.State.Files[i]
		if f.InPlace {
			if len(f.Versions) > 1 {
				return true
			}
		} else if f.Fresh || f.Durable < f.Size() {
			return true
		}
	}
	return false
}

// Cuts draws one crash image of the point (see the package comment for the modes).
// It panics with a "VERIF-HARNESS-BUG" message if the observation is inconsistent.
func (p *Point) Cuts(rt *rapid.T, mode int) crashfs.Cuts {
	s := p.State
	cuts := s.KeepAll()
	if mode == 0 {
		return cuts
	}
	for _, t := range tablesOf(s) {
		meta, idx := t.meta, t.idx
		if idx == nil {
			panic(fmt.Sprintf("VERIF-HARNESS-BUG: recfreezer: table %s lacks an index file", t.prefix))
		}
		parse := func(i int) Meta {
			mv, err := ParseMeta(meta.Versions[i])
			if err != nil {
				panic(fmt.Sprintf("VERIF-HARNESS-BUG: recfreezer: cannot parse observed metadata of %s: %v (%x)", t.prefix, err, meta.Versions[i]))
			}
			return mv
		}
		// 1. metadata version: every metadata write is fsynced except the virtual-tail
		// update, so a crash can leave the current version or predecessors that differ
		// only in the tail field (and whose index prefix was not rewritten since).
		last := len(meta.Versions) - 1
		chain := last
		unchanged := func(i int) bool {
			ref, ok := p.refs[meta.Name][string(meta.Versions[i])]
			if !ok {
				return false
			}
			n := min(int64(parse(i).Offset), int64(len(ref)))
			return commonPrefix(ref[:n], idx.Data) == n
		}
		for chain > 0 && parse(chain-1).Offset == parse(last).Offset && unchanged(chain-1) {
			chain--
		}
		vi := last
		switch mode {
		case 1, 2:
			vi = chain
		case 3:
			vi = rapid.IntRange(0, last).Draw(rt, t.prefix+"/metaVersion")
		case 4:
			vi = 0
		}
		cuts[meta.Name] = crashfs.Cut{Version: vi}
		if vi < chain {
			continue // metadata regress: the table's other files stay intact
		}
		mv := parse(vi)
		// 2. index: everything below the version's flushOffset is durable by contract
		ref, ok := p.refs[meta.Name][string(meta.Versions[vi])]
		if !ok {
			panic(fmt.Sprintf("VERIF-HARNESS-BUG: recfreezer: no reference index recorded for metadata version %x of %s", meta.Versions[vi], t.prefix))
		}
		covered := min(int64(mv.Offset), int64(len(ref)))
		covered = commonPrefix(ref[:covered], idx.Data)
		var ic crashfs.Cut
		lo := max(idx.Durable, covered)
		switch mode {
		case 1:
			ic = crashfs.Cut{Keep: lo, Len: lo}
		case 2:
			ic = crashfs.Cut{Keep: lo, Len: idx.Size()}
		default:
			ic = crashfs.DrawCut(rt, idx, covered, t.prefix+"/idx")
		}
		cuts[idx.Name] = ic
		// 3. data: everything referenced by index entries below min(flushOffset, kept) is durable by contract
		lim := min(covered, ic.Keep)
		req := map[uint32]int64{}
		for i, e := range parseIndex(idx.Data[:lim]) {
			if i == 0 {
				continue // entry 0 carries (tail file, deleted items)
			}
			if int64(e.offset) > req[e.file] {
				req[e.file] = int64(e.offset)
			}
		}
		var newest *crashfs.File
		for _, df := range t.dats {
			newest = df
			var num uint32
			fmt.Sscanf(df.Name[len(t.prefix)+1:], "%04d", &num)
			need := req[num]
			if need > df.Size() {
				panic(fmt.Sprintf("VERIF-HARNESS-BUG: recfreezer: index of %s below flushOffset references %d bytes of %s which has %d", t.prefix, need, df.Name, df.Size()))
			}
			var dc crashfs.Cut
			lo := max(df.Durable, need)
			switch mode {
			case 1:
				dc = crashfs.Cut{Keep: lo, Len: lo}
			case 2:
				dc = crashfs.Cut{Keep: lo, Len: df.Size()}
			default:
				dc = crashfs.DrawCut(rt, df, need, df.Name)
			}
			cuts[df.Name] = dc
		}
		// 4. the newest data file may be missing if it was created since the last
		// barrier and nothing below the flushOffset refers to it
		if newest != nil && newest.Fresh {
			var num uint32
			fmt.Sscanf(newest.Name[len(t.prefix)+1:], "%04d", &num)
			if req[num] == 0 && newest.Durable == 0 {
				drop := mode == 1
				if mode == 3 {
					drop = rapid.IntRange(0, 3).Draw(rt, newest.Name+"/missing") == 0
				}
				if drop {
					cuts[newest.Name] = crashfs.Cut{Missing: true}
				}
			}
		}
	}
	return cuts
}

// CutsString renders the cuts that differ from "keep everything".
func (p *Point) CutsString(cuts crashfs.Cuts) string {
	var parts []string
	for i := range p.State.Files {
		f := &p.State.Files[i]
		c, ok := cuts[f.Name]
		switch {
		case !ok:
			continue
		case c.Missing:
			parts = append(parts, f.Name+":missing")
		case f.InPlace:
			if c.Version == len(f.Versions)-1 {
				continue
			}
			vs := ""
			for _, v := range f.Versions {
				if mv, err := ParseMeta(v); err == nil {
					vs += fmt.Sprintf("(tail %d,flush %d)", mv.Tail, mv.Offset)
				}
			}
			parts = append(parts, fmt.Sprintf("%s:v%d of %s", f.Name, c.Version, vs))
		case c.Keep == f.Size() && c.Len == f.Size():
			continue
		default:
			parts = append(parts, fmt.Sprintf("%s:%d+0*%d/%d(dur %d)", f.Name, c.Keep, c.Len-c.Keep, f.Size(), f.Durable))
		}
	}
	return "{" + strings.Join(parts, " ") + "}"
}

// ImageTail predicts, from a rendered image alone, the tail the freezer below sub
// will report after it was opened: the largest virtual tail of its tables' metadata.
func ImageTail(img *crashfs.Snapshot, sub string) uint64 {
	var tail uint64
	for name, data := range img.Files {
		if !under(name, sub) || !strings.HasSuffix(name, ".meta") {
			continue
		}
		if m, err := ParseMeta(data); err == nil && m.Tail > tail {
			tail = m.Tail
		}
	}
	return tail
}

// Store is the recording wrapper around one freezer.
type Store struct {
	ethdb.ResettableAncientStore
	rec *Recorder
	sub string
}

// Wrap wraps inner, whose files live in the sub-directory sub of the recorder's root.
func (r *Recorder) Wrap(inner ethdb.ResettableAncientStore, sub string) *Store {
	return &Store{ResettableAncientStore: inner, rec: r, sub: sub}
}

// Inner returns the wrapped store.
func (s *Store) Inner() ethdb.ResettableAncientStore { return s.ResettableAncientStore }

func (s *Store) ModifyAncients(fn func(ethdb.AncientWriteOp) error) (int64, error) {
	s.rec.mu.Lock()
	defer s.rec.mu.Unlock()
	n, err := s.ResettableAncientStore.ModifyAncients(fn)
	s.rec.record("fz:"+s.sub+":modify", s.sub, false)
	return n, err
}

func (s *Store) SyncAncient() error {
	s.rec.mu.Lock()
	defer s.rec.mu.Unlock()
	err := s.ResettableAncientStore.SyncAncient()
	s.rec.record("fz:"+s.sub+":sync", s.sub, err == nil)
	return err
}

func (s *Store) TruncateHead(n uint64) (uint64, error) {
	s.rec.mu.Lock()
	defer s.rec.mu.Unlock()
	old, err := s.ResettableAncientStore.TruncateHead(n)
	s.rec.record(fmt.Sprintf("fz:%s:truncateHead(%d)", s.sub, n), s.sub, false)
	return old, err
}

func (s *Store) TruncateTail(group string, n uint64) (uint64, error) {
	s.rec.mu.Lock()
	defer s.rec.mu.Unlock()
	old, err := s.ResettableAncientStore.TruncateTail(group, n)
	s.rec.record(fmt.Sprintf("fz:%s:truncateTail(%d)", s.sub, n), s.sub, false)
	return old, err
}

func (s *Store) Reset() error {
	s.rec.mu.Lock()
	defer s.rec.mu.Unlock()
	err := s.ResettableAncientStore.Reset()
	s.rec.record("fz:"+s.sub+":reset", s.sub, err == nil)
	return err
}

func (s *Store) Close() error {
	s.rec.mu.Lock()
	defer s.rec.mu.Unlock()
	err := s.ResettableAncientStore.Close()
	s.rec.record("fz:"+s.sub+":close", s.sub, err == nil)
	return err
}

var _ ethdb.ResettableAncientStore = (*Store)(nil)
