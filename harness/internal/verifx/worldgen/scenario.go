//go:build verif

package worldgen

import (
	"fmt"
	"strings"

	"github.com/ethereum/go-ethereum/common"
	"pgregory.net/rapid"
	ep "verif.local/kit/evmprog"
)

// ValueExpr is how a scenario step computes the value it sends.
type ValueExpr int

const (
	VZero ValueExpr = iota
	VOne
	VSeven
	VCallValue   // CALLVALUE
	VHalf        // SELFBALANCE / 2
	VSelfBalance // SELFBALANCE (everything)
	VTooMuch     // SELFBALANCE + 1 (the transfer must fail)
	nValueExpr
)

var valueNames = []string{"0", "1", "7", "callvalue", "half", "all", "toomuch"}

// InitKind selects the initcode of a scenario CREATE.
type InitKind int

const (
	IDeploySuicide InitKind = iota // deploys runtime "SELFDESTRUCT(benef)"
	IInitSuicide                   // initcode itself is "SELFDESTRUCT(benef)"
	IDeployPayer                   // deploys runtime "CALL(benef, SELFBALANCE); STOP"
	IDeployStop                    // deploys runtime "STOP"
	IEmpty                         // empty initcode: account with endowment, no code
	IRevert                        // initcode reverts
	IInvalid                       // initcode halts (INVALID)
	nInitKind
)

var initNames = []string{"deploy-suicide", "init-suicide", "deploy-payer", "deploy-stop", "empty", "revert", "invalid"}

// StepKind is the kind of a scenario step.
type StepKind int

const (
	SCall    StepKind = iota // CALL(target, value)
	SCreate                  // CREATE(value, init) [+ calls of the created account]
	SCreate2                 // CREATE2(value, init, salt) [+ calls of the created account]
	SStore                   // SSTORE(slot N, value V) with N in 0..3, V in {0, 0, 1, 2}
	SProbe                   // BALANCE / EXTCODESIZE / EXTCODEHASH / EXTCODECOPY of Target, result stored (V=0) or logged (V=1)
	SBlockHash               // BLOCKHASH(NUMBER - N), N in 1..3, stored to slot 8+N (V=0) or logged as LOG0 data (V=1)
)

// Step is one straight-line action of a scenario contract.
type Step struct {
	Kind   StepKind
	Target common.Address // SCall: callee (Self: the contract itself)
	Self   bool
	Value  ValueExpr
	Init   InitKind
	Benef  common.Address // beneficiary inside the child (BenefSelf: the child itself)
	BSelf  bool
	Salt   byte
	N, V   byte // SStore: slot and value; SBlockHash: distance and sink; SProbe: opcode index and sink
	// After a create: call the new account (runs its runtime: e.g. self-destructs it
	// in the transaction that created it) and/or pay it afterwards.
	CallChild bool
	PayChild  ValueExpr // VZero = no second call
}

// TermKind ends a scenario.
type TermKind int

const (
	TStop TermKind = iota
	TRevert
	TInvalid
	TSelfDestruct
)

var probeOps = []byte{ep.BALANCE, ep.EXTCODESIZE, ep.EXTCODEHASH, ep.EXTCODECOPY}

var termNames = []string{"stop", "revert", "invalid", "selfdestruct"}

// Scenario is a short value-moving program.
type Scenario struct {
	Steps      []Step
	Term       TermKind
	TermTarget common.Address
	TermSelf   bool
	Push0      bool
}

func pickW(rt *rapid.T, label string, w []int) int {
	total := 0
	for _, x := range w {
		total += x
	}
	r := ep.Uniform(rt, label, total)
	for i, x := range w {
		if r < x {
			return i
		}
		r -= x
	}
	return len(w) - 1
}

func drawValue(rt *rapid.T, label string) ValueExpr {
	return ValueExpr(pickW(rt, label, []int{3, 3, 2, 4, 3, 2, 1}))
}

func drawAddr(rt *rapid.T, label string, pool []common.Address) (common.Address, bool) {
	if pickW(rt, label+"-self", []int{4, 1}) == 1 {
		return common.Address{}, true // self
	}
	return pool[ep.Uniform(rt, label, len(pool))], false
}

// DrawScenario draws a scenario whose calls and beneficiaries come from pool.
// asInit biases the terminator towards STOP/SELFDESTRUCT (used for creation txs).
func DrawScenario(rt *rapid.T, push0 bool, pool []common.Address, asInit bool) *Scenario {
	s := &Scenario{Push0: push0}
	n := 1 + pickW(rt, "sc-steps", []int{4, 4, 2, 1})
	for i := 0; i < n; i++ {
		var st Step
		switch pickW(rt, "sc-kind", []int{10, 6, 2, 5, 2, 3}) {
		case 0:
			st.Kind = SCall
			st.Target, st.Self = drawAddr(rt, "sc-target", pool)
			st.Value = drawValue(rt, "sc-value")
		case 1:
			st.Kind = SCreate
		case 2:
			st.Kind = SCreate2
			st.Salt = byte(ep.Uniform(rt, "sc-salt", 2))
		case 3:
			st.Kind = SStore
			st.N = byte(ep.Uniform(rt, "sc-slot", 4))
			st.V = []byte{0, 0, 1, 2}[ep.Uniform(rt, "sc-slot-value", 4)]
		case 5:
			st.Kind = SProbe
			st.Target, st.Self = drawAddr(rt, "sc-probe-target", pool)
			st.N = byte(ep.Uniform(rt, "sc-probe-op", len(probeOps)))
			st.V = byte(ep.Uniform(rt, "sc-probe-sink", 2))
		default:
			st.Kind = SBlockHash
			st.N = byte(1 + pickW(rt, "sc-blockhash-distance", []int{1, 2, 2}))
			st.V = byte(ep.Uniform(rt, "sc-blockhash-sink", 2))
		}
		if st.Kind == SCreate || st.Kind == SCreate2 {
			st.Value = drawValue(rt, "sc-endow")
			st.Init = InitKind(pickW(rt, "sc-init", []int{5, 4, 2, 2, 1, 1, 1}))
			st.Benef, st.BSelf = drawAddr(rt, "sc-benef", pool)
			st.CallChild = pickW(rt, "sc-callchild", []int{1, 2}) == 1
			if pickW(rt, "sc-paychild", []int{1, 1}) == 1 {
				st.PayChild = ValueExpr(1 + ep.Uniform(rt, "sc-payvalue", 2)) // 1 or 7 wei
			}
		}
		s.Steps = append(s.Steps, st)
	}
	tw := []int{6, 2, 1, 4}
	if asInit {
		tw = []int{5, 1, 1, 4}
	}
	s.Term = TermKind(pickW(rt, "sc-term", tw))
	if s.Term == TSelfDestruct {
		s.TermTarget, s.TermSelf = drawAddr(rt, "sc-term-target", pool)
	}
	return s
}

func emitValue(a *ep.Asm, v ValueExpr) {
	switch v {
	case VZero:
		a.PushU(0)
	case VOne:
		a.PushU(1)
	case VSeven:
		a.PushU(7)
	case VCallValue:
		a.Op(ep.CALLVALUE)
	case VHalf:
		a.PushU(2).Op(ep.SELFBALANCE, ep.DIV)
	case VSelfBalance:
		a.Op(ep.SELFBALANCE)
	case VTooMuch:
		a.PushU(1).Op(ep.SELFBALANCE, ep.ADD)
	}
}

// emitGas pushes a third of the remaining gas, so that a callee burning everything
// it gets does not starve the rest of the scenario.
func emitGas(a *ep.Asm) { a.PushU(3).Op(ep.GAS, ep.DIV) }

func emitAddr(a *ep.Asm, addr common.Address, self bool) {
	if self {
		a.Op(ep.ADDRESS)
	} else {
		a.PushAddr(addr)
	}
}

// childInit renders the initcode of a created child.
func childInit(st Step, push0 bool) []byte {
	suicide := func() []byte {
		a := ep.NewAsm(push0)
		emitAddr(a, st.Benef, st.BSelf)
		a.Op(ep.SELFDESTRUCT)
		return a.MustBytes()
	}
	switch st.Init {
	case IDeploySuicide:
		return ep.Deployer(suicide(), push0)
	case IInitSuicide:
		return suicide()
	case IDeployPayer:
		a := ep.NewAsm(push0)
		a.PushU(0).PushU(0).PushU(0).PushU(0).Op(ep.SELFBALANCE)
		emitAddr(a, st.Benef, st.BSelf)
		a.Op(ep.GAS, ep.CALL, ep.POP, ep.STOP)
		return ep.Deployer(a.MustBytes(), push0)
	case IDeployStop:
		return ep.Deployer([]byte{ep.STOP}, push0)
	case IEmpty:
		return nil
	case IRevert:
		return ep.NewAsm(push0).PushU(0).PushU(0).Op(ep.REVERT).MustBytes()
	default:
		return []byte{ep.INVALID}
	}
}

// Code assembles the scenario.
func (s *Scenario) Code() []byte {
	a := ep.NewAsm(s.Push0)
	for _, st := range s.Steps {
		switch st.Kind {
		case SCall:
			a.PushU(0).PushU(0).PushU(0).PushU(0)
			emitValue(a, st.Value)
			emitAddr(a, st.Target, st.Self)
			emitGas(a)
			a.Op(ep.CALL, ep.POP)
		case SStore:
			a.PushU(uint64(st.V)).PushU(uint64(st.N)).Op(ep.SSTORE)
		case SProbe:
			op := probeOps[st.N]
			if op == ep.EXTCODECOPY { // copy 32 code bytes to memory 0, then load them
				a.PushU(32).PushU(0).PushU(0)
				emitAddr(a, st.Target, st.Self)
				a.Op(ep.EXTCODECOPY).PushU(0).Op(ep.MLOAD)
			} else {
				emitAddr(a, st.Target, st.Self)
				a.Op(op)
			}
			if st.V == 0 {
				a.PushU(12).Op(ep.SSTORE)
			} else {
				a.PushU(0).Op(ep.MSTORE).PushU(32).PushU(0).Op(ep.LOG0)
			}
		case SBlockHash:
			a.PushU(uint64(st.N)).Op(ep.NUMBER, ep.SUB, ep.BLOCKHASH)
			if st.V == 0 {
				a.PushU(8 + uint64(st.N)).Op(ep.SSTORE)
			} else { // LOG0 with the hash as data: gas and bloom do not depend on the value
				a.PushU(0).Op(ep.MSTORE).PushU(32).PushU(0).Op(ep.LOG0)
			}
		default:
			init := childInit(st, s.Push0)
			if len(init) > 0 {
				ds, de := a.Data(init)
				a.PushDistance(ds, de).PushLabel(ds).PushU(0).Op(ep.CODECOPY)
			}
			if st.Kind == SCreate2 {
				a.PushU(uint64(st.Salt))
			}
			a.PushU(uint64(len(init))).PushU(0)
			emitValue(a, st.Value)
			if st.Kind == SCreate2 {
				a.Op(ep.CREATE2)
			} else {
				a.Op(ep.CREATE)
			}
			// stack: [addr]
			if st.CallChild {
				a.PushU(0).PushU(0).PushU(0).PushU(0).PushU(0).Op(ep.DUP1 + 5)
				emitGas(a)
				a.Op(ep.CALL, ep.POP)
			}
			if st.PayChild != VZero {
				a.PushU(0).PushU(0).PushU(0).PushU(0)
				emitValue(a, st.PayChild)
				a.Op(ep.DUP1 + 5)
				emitGas(a)
				a.Op(ep.CALL, ep.POP)
			}
			a.Op(ep.POP)
		}
	}
	switch s.Term {
	case TStop:
		a.Op(ep.STOP)
	case TRevert:
		a.PushU(0).PushU(0).Op(ep.REVERT)
	case TInvalid:
		a.Op(ep.INVALID)
	case TSelfDestruct:
		emitAddr(a, s.TermTarget, s.TermSelf)
		a.Op(ep.SELFDESTRUCT)
	}
	return a.MustBytes()
}

// Describe renders the scenario on one line.
func (s *Scenario) Describe() string {
	var parts []string
	name := func(a common.Address, self bool) string {
		if self {
			return "self"
		}
		return fmt.Sprintf("%x", a[:2]) + ".." + fmt.Sprintf("%x", a[19:])
	}
	for _, st := range s.Steps {
		switch st.Kind {
		case SCall:
			parts = append(parts, fmt.Sprintf("call(%s,%s)", name(st.Target, st.Self), valueNames[st.Value]))
		case SStore:
			parts = append(parts, fmt.Sprintf("sstore(%d,%d)", st.N, st.V))
		case SProbe:
			parts = append(parts, fmt.Sprintf("%s(%s)->%s", ep.OpName(probeOps[st.N]), name(st.Target, st.Self), []string{"sstore", "log"}[st.V]))
		case SBlockHash:
			parts = append(parts, fmt.Sprintf("blockhash(-%d)->%s", st.N, []string{"sstore", "log"}[st.V]))
		default:
			k := "create"
			if st.Kind == SCreate2 {
				k = "create2"
			}
			p := fmt.Sprintf("%s(%s,%s->%s)", k, valueNames[st.Value], initNames[st.Init], name(st.Benef, st.BSelf))
			if st.CallChild {
				p += "+call"
			}
			if st.PayChild != VZero {
				p += "+pay" + valueNames[st.PayChild]
			}
			parts = append(parts, p)
		}
	}
	t := termNames[s.Term]
	if s.Term == TSelfDestruct {
		t += "(" + name(s.TermTarget, s.TermSelf) + ")"
	}
	return strings.Join(append(parts, t), ";")
}

// Has reports structural features used for class labels.
func (s *Scenario) Has() (selfdestruct, createValue, childDestruct bool) {
	for _, st := range s.Steps {
		if st.Kind == SCreate || st.Kind == SCreate2 {
			if st.Value != VZero {
				createValue = true
			}
			if st.Init == IInitSuicide || (st.Init == IDeploySuicide && st.CallChild) {
				childDestruct = true
			}
		}
	}
	return s.Term == TSelfDestruct, createValue, childDestruct
}
