//go:build verif

package worldgen

import (
	"crypto/ecdsa"
	"math/big"

	"github.com/ethereum/go-ethereum/common"
	"github.com/ethereum/go-ethereum/consensus"
	"github.com/ethereum/go-ethereum/consensus/beacon"
	"github.com/ethereum/go-ethereum/consensus/ethash"
	"github.com/ethereum/go-ethereum/core/types"
	"github.com/ethereum/go-ethereum/crypto"
	"github.com/ethereum/go-ethereum/params"
	"verif.local/kit/evmprog"
)

// Variant names a rule set plus consensus engine.
type Variant struct {
	Name string
	Fork evmprog.Fork // opcode set for the program generator
	PoW  bool         // ethash faker (block rewards, uncles) instead of the beacon engine
}

// Variants lists every supported variant, oldest first.
var Variants = []Variant{
	{"london-pow", evmprog.London, true},
	{"paris", evmprog.Merge, false},
	{"shanghai", evmprog.Shanghai, false},
	{"cancun", evmprog.Cancun, false},
	{"prague", evmprog.Prague, false},
	{"osaka", evmprog.Osaka, false},
	{"amsterdam", evmprog.Amsterdam, false},
}

// VariantByName returns the variant with the given name (panics if unknown).
func VariantByName(name string) Variant {
	for _, v := range Variants {
		if v.Name == name {
			return v
		}
	}
	panic("worldgen: unknown variant " + name)
}

// ChainConfig returns a fresh chain configuration for v: all block-number forks at
// 0, the time forks up to v at 0, later ones absent.
func ChainConfig(v Variant) *params.ChainConfig {
	c := *params.MergedTestChainConfig
	c.ChainID = big.NewInt(1)
	bs := *params.MergedTestChainConfig.BlobScheduleConfig
	c.BlobScheduleConfig = &bs
	c.ShanghaiTime, c.CancunTime, c.PragueTime, c.OsakaTime, c.AmsterdamTime = nil, nil, nil, nil, nil
	z := func() *uint64 { return new(uint64) }
	if v.Fork >= evmprog.Shanghai {
		c.ShanghaiTime = z()
	}
	if v.Fork >= evmprog.Cancun {
		c.CancunTime = z()
	}
	if v.Fork >= evmprog.Prague {
		c.PragueTime = z()
	}
	if v.Fork >= evmprog.Osaka {
		c.OsakaTime = z()
	}
	if v.Fork >= evmprog.Amsterdam {
		c.AmsterdamTime = z()
	}
	if v.PoW {
		c.TerminalTotalDifficulty = nil
		c.MergeNetsplitBlock = nil
	}
	return &c
}

// Engine returns the consensus engine for v.
func Engine(v Variant) consensus.Engine {
	if v.PoW {
		return ethash.NewFaker()
	}
	return beacon.New(ethash.NewFaker())
}

// SystemAlloc returns the system contracts v needs at genesis.
func SystemAlloc(v Variant) types.GenesisAlloc {
	a := types.GenesisAlloc{}
	if v.Fork >= evmprog.Cancun {
		a[params.BeaconRootsAddress] = types.Account{Nonce: 1, Code: params.BeaconRootsCode, Balance: new(big.Int)}
	}
	if v.Fork >= evmprog.Prague {
		a[params.HistoryStorageAddress] = types.Account{Nonce: 1, Code: params.HistoryStorageCode, Balance: new(big.Int)}
		a[params.WithdrawalQueueAddress] = types.Account{Nonce: 1, Code: params.WithdrawalQueueCode, Balance: new(big.Int)}
		a[params.ConsolidationQueueAddress] = types.Account{Nonce: 1, Code: params.ConsolidationQueueCode, Balance: new(big.Int)}
	}
	if v.Fork >= evmprog.Amsterdam {
		a[params.BuilderDepositAddress] = types.Account{Nonce: 1, Code: params.BuilderDepositCode, Balance: new(big.Int)}
		a[params.BuilderExitAddress] = types.Account{Nonce: 1, Code: params.BuilderExitCode, Balance: new(big.Int)}
	}
	return a
}

// Key is one member of the fixed key pool.
type Key struct {
	Priv *ecdsa.PrivateKey
	Addr common.Address
}

// Keys is the key pool: private keys are the scalars 1..5.
var Keys = func() []Key {
	var ks []Key
	for i := 1; i <= 5; i++ {
		var b [32]byte
		b[31] = byte(i)
		k, err := crypto.ToECDSA(b[:])
		if err != nil {
			panic(err)
		}
		ks = append(ks, Key{Priv: k, Addr: crypto.PubkeyToAddress(k.PublicKey)})
	}
	return ks
}()

// KeyIndex returns the index of addr in Keys or -1.
func KeyIndex(addr common.Address) int {
	for i, k := range Keys {
		if k.Addr == addr {
			return i
		}
	}
	return -1
}

// ScenarioAddr is the address of scenario contract j: 5ce0..00<j+1>.
func ScenarioAddr(j int) common.Address {
	return common.Address{0x5c, 0xe0, 19: byte(j + 1)}
}

// FreshCoinbase is the fee recipient used for the "fresh" coinbase class: it is in
// no allocation and nothing else refers to it unless a program draws it as target.
var FreshCoinbase = common.HexToAddress("0xc01b000000000000000000000000000000000001")
