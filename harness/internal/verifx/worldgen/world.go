//go:build verif

package worldgen

import (
	"fmt"
	"math/big"

	"github.com/ethereum/go-ethereum/common"
	"github.com/ethereum/go-ethereum/core"
	"github.com/ethereum/go-ethereum/core/types"
	"github.com/ethereum/go-ethereum/params"
	"pgregory.net/rapid"
	ep "verif.local/kit/evmprog"
)

// Options control Draw. Zero values select the defaults.
type Options struct {
	// Variants are the candidates the variant is drawn from (default: all).
	Variants []Variant
	// MaxBlocks is the maximum chain length (default 2), MaxTxs the maximum number
	// of transaction plans per block (default 8).
	MaxBlocks, MaxTxs int
	// MaxContracts bounds the evmprog contracts (default 3), MaxScenarios the
	// scenario contracts (default 3).
	MaxContracts, MaxScenarios int
	// Gen overrides the evmprog generator configuration (default: EffectBias,
	// MaxBlocks 6). Fork, Self, Contracts and Others are filled in by Draw.
	Gen *ep.GenConfig
	// GasLimit is the genesis (and therefore block) gas limit, default 30M.
	GasLimit uint64
	// NoBlobs / NoSetCode / NoWithdrawals / NoUncles / NoStorage (no genesis storage
	// for generated contracts) switch features off.
	NoBlobs, NoSetCode, NoWithdrawals, NoUncles, NoStorage bool
	// Collapse adds, to about half of the worlds, an engineered contract whose
	// transaction in the LAST block deletes storage slots / an account such that a
	// two-child branch node of the storage / account trie collapses (collapse.go).
	// Drawn after everything else: worlds without the option are unaffected.
	Collapse bool
	// BigWithdrawals (opt-in, used by C32) appends to about half of the blocks of a
	// Shanghai+ world one or two withdrawals with hostile amounts: full exits (32 ETH,
	// 2048 ETH), the values around 2^64/10^9 gwei (where amount*10^9 no longer fits 64
	// bits), powers of two, the maximum and arbitrary 64-bit amounts
	// (bigwithdrawals.go). Drawn after Collapse: worlds without the option are unaffected.
	BigWithdrawals bool
	// LateDestruct (opt-in, used by C32) adds to about two thirds of the worlds a
	// contract that is CREATED by one transaction of a block (creation transaction, or
	// CREATE2 through a genesis factory; constructor with or without SSTORE) and made to
	// SELFDESTRUCT by later transactions of the same block (directly, or through a
	// genesis driver contract that also pays it after the SELFDESTRUCT), sometimes by a
	// transaction of the next block as well (latedestruct.go, World.Late). Drawn last.
	LateDestruct bool
}

func (o *Options) defaults() {
	if len(o.Variants) == 0 {
		o.Variants = Variants
	}
	if o.MaxBlocks == 0 {
		o.MaxBlocks = 2
	}
	if o.MaxTxs == 0 {
		o.MaxTxs = 8
	}
	if o.MaxContracts == 0 {
		o.MaxContracts = 3
	}
	if o.MaxScenarios == 0 {
		o.MaxScenarios = 3
	}
	if o.GasLimit == 0 {
		o.GasLimit = 30_000_000
	}
}

// UnclePlan describes one uncle of a proof-of-work block.
type UnclePlan struct {
	Coinbase common.Address
}

// BlockPlan is the drawn content of one block.
type BlockPlan struct {
	Coinbase      common.Address
	CoinbaseClass string // fresh | sender | prog | scenario | zero
	Withdrawals   []*types.Withdrawal
	Uncle         *UnclePlan
	Txs           []*TxPlan
}

// World is a drawn world: everything Build needs, no rapid draws left.
type World struct {
	Variant Variant
	Config  *params.ChainConfig
	Genesis *core.Genesis
	Opt     Options

	Prog         *ep.World
	Scenarios    []*Scenario
	ScenarioCode [][]byte
	// Pool lists the addresses programs and plans refer to: keys, evmprog
	// contracts, scenario contracts, evmprog.EOAAddr, evmprog.MissingAddr,
	// FreshCoinbase.
	Pool []common.Address
	// Delegated maps a key index to the delegation target installed at genesis.
	Delegated map[int]common.Address
	PoorKey   int // index of the sender with a small balance, -1 if none
	Blocks    []*BlockPlan
	// Collapse is the engineered branch-collapse arrangement (Options.Collapse), or nil.
	Collapse *CollapsePlan
	// BigWithdrawals counts the withdrawals appended by Options.BigWithdrawals.
	BigWithdrawals int
	// Late is the create-then-destruct-later arrangement (Options.LateDestruct), or nil.
	Late *LatePlan
}

// Wei helpers.
var (
	big1e9  = big.NewInt(1_000_000_000)
	big1e18 = new(big.Int).Exp(big.NewInt(10), big.NewInt(18), nil)
)

func ether(n int64) *big.Int { return new(big.Int).Mul(big.NewInt(n), big1e18) }

// Draw draws a world.
func Draw(rt *rapid.T, opt Options) *World {
	opt.defaults()
	v := opt.Variants[ep.Uniform(rt, "variant", len(opt.Variants))]
	w := &World{Variant: v, Config: ChainConfig(v), Opt: opt, Delegated: map[int]common.Address{}, PoorKey: -1}
	push0 := v.Fork >= ep.Shanghai

	// Address pool (fixed addresses; code is drawn below).
	nsc := 1 + ep.Uniform(rt, "nscenarios", opt.MaxScenarios)
	for _, k := range Keys {
		w.Pool = append(w.Pool, k.Addr)
	}
	var scAddrs []common.Address
	for j := 0; j < nsc; j++ {
		scAddrs = append(scAddrs, ScenarioAddr(j))
	}
	progMax := opt.MaxContracts
	var progAddrs []common.Address
	for i := 0; i < progMax; i++ {
		progAddrs = append(progAddrs, common.Address(ep.ContractAddr(i)))
	}
	w.Pool = append(w.Pool, scAddrs...)

	// evmprog contracts: other targets = defaults + the pool (as plain addresses).
	gen := ep.GenConfig{EffectBias: true, MaxBlocks: 6}
	if opt.Gen != nil {
		gen = *opt.Gen
	} else if pickW(rt, "prog-tame", []int{1, 2}) == 1 {
		// Most worlds: no deliberately faulty terminators, so that more transactions
		// succeed (REVERT, INVALID and SELFDESTRUCT stay).
		gen.Disable = map[ep.Kind]bool{ep.TOOGLoop: true, ep.TBadJump: true, ep.TUnderflow: true, ep.TOverflow: true,
			ep.TRawTail: true, ep.KInactive: true}
	}
	others := ep.DefaultOthers()
	for _, a := range scAddrs {
		others = append(others, ep.Target{Kind: ep.TgtEOA, Addr: a}, ep.Target{Kind: ep.TgtEOA, Addr: a})
	}
	others = append(others, ep.Target{Kind: ep.TgtEOA, Addr: Keys[0].Addr}, ep.Target{Kind: ep.TgtEOA, Addr: Keys[4].Addr},
		ep.Target{Kind: ep.TgtEOA, Addr: FreshCoinbase})
	gen.Others = others
	prog, err := ep.DrawWorld(rt, ep.WorldConfig{Fork: v.Fork, MinContracts: 1, MaxContracts: progMax, Gen: gen})
	if err != nil {
		rt.Fatalf("VERIF-HARNESS-BUG: evmprog assembly: %v", err)
	}
	w.Prog = prog
	for i := range prog.Contracts {
		w.Pool = append(w.Pool, progAddrs[i])
	}
	w.Pool = append(w.Pool, common.Address(ep.EOAAddr), common.Address(ep.MissingAddr), FreshCoinbase)

	// Scenario contracts.
	for j := 0; j < nsc; j++ {
		s := DrawScenario(rt, push0, w.Pool, false)
		w.Scenarios = append(w.Scenarios, s)
		w.ScenarioCode = append(w.ScenarioCode, s.Code())
	}

	// Genesis allocation.
	alloc := SystemAlloc(v)
	contractBal := func(label string) *big.Int {
		switch pickW(rt, label, []int{1, 1, 3, 4}) {
		case 0:
			return new(big.Int)
		case 1:
			return big.NewInt(1)
		case 2:
			return big.NewInt(1000)
		default:
			return ether(1)
		}
	}
	// Generated contracts start with some of the slots their SSTOREs aim at (0, 1, 2,
	// 2^256-1 and the sink slot 3), so that stores delete and overwrite committed
	// values (storage trie nodes collapse, refunds arise).
	slots := []common.Hash{{}, {31: 1}, {31: 2}, {31: 3}, common.MaxHash}
	for i, c := range prog.Contracts {
		acc := types.Account{Nonce: 1, Code: c.Code, Balance: contractBal("prog-balance")}
		if !opt.NoStorage {
			acc.Storage = map[common.Hash]common.Hash{}
			for _, k := range slots {
				switch pickW(rt, "prog-slot", []int{2, 2, 1}) {
				case 1:
					acc.Storage[k] = common.Hash{31: 1}
				case 2:
					acc.Storage[k] = common.Hash{0: 0x80, 31: 0x07}
				}
			}
		}
		alloc[progAddrs[i]] = acc
	}
	for j := range w.Scenarios {
		acc := types.Account{Nonce: 1, Code: w.ScenarioCode[j], Balance: contractBal("scenario-balance")}
		if !opt.NoStorage {
			acc.Storage = map[common.Hash]common.Hash{}
			for k := 0; k < 4; k++ { // the slots scenario SSTORE steps write
				if pickW(rt, "scenario-slot", []int{1, 1}) == 1 {
					acc.Storage[common.Hash{31: byte(k)}] = common.Hash{31: 1}
				}
			}
		}
		alloc[scAddrs[j]] = acc
	}
	if pickW(rt, "poor-key", []int{2, 1}) == 1 {
		w.PoorKey = 1 + ep.Uniform(rt, "poor-key-idx", len(Keys)-1)
	}
	for i, k := range Keys {
		acc := types.Account{Balance: ether(1000)}
		if i == w.PoorKey {
			acc.Balance = new(big.Int).Mul(big.NewInt(20_000_000), big1e9) // 0.02 ether
		}
		alloc[k.Addr] = acc
	}
	if v.Fork >= ep.Prague && !opt.NoSetCode && pickW(rt, "predelegated", []int{3, 2}) == 1 {
		tgt := w.contractTargets()[ep.Uniform(rt, "predelegated-target", len(w.contractTargets()))]
		acc := alloc[Keys[4].Addr]
		acc.Code = types.AddressToDelegation(tgt)
		acc.Nonce = 1
		alloc[Keys[4].Addr] = acc
		w.Delegated[4] = tgt
	}
	alloc[common.Address(ep.EOAAddr)] = types.Account{Balance: new(big.Int).Mul(big.NewInt(1_000_000), big1e9)}

	g := &core.Genesis{Config: w.Config, Alloc: alloc, GasLimit: opt.GasLimit}
	switch pickW(rt, "basefee", []int{1, 2, 4, 2}) {
	case 0:
		g.BaseFee = new(big.Int)
	case 1:
		g.BaseFee = big.NewInt(int64(7 + ep.Uniform(rt, "basefee-small", 1000)))
	case 2:
		g.BaseFee = new(big.Int).Set(big1e9)
	default:
		g.BaseFee = new(big.Int).Mul(big.NewInt(100), big1e9)
	}
	if v.Fork >= ep.Cancun {
		ex := []uint64{0, 10_000_000, 60_000_000}[pickW(rt, "excess-blob-gas", []int{2, 2, 1})]
		used := uint64(0)
		g.ExcessBlobGas, g.BlobGasUsed = &ex, &used
	}
	w.Genesis = g

	// Blocks.
	maxBlocks := opt.MaxBlocks
	if v.PoW && !opt.NoUncles && maxBlocks < 3 {
		maxBlocks = 3 // the chain maker can only attach uncles from the third block on
	}
	nblocks := 1 + ep.Uniform(rt, "nblocks", maxBlocks)
	for bi := 0; bi < nblocks; bi++ {
		bp := &BlockPlan{}
		switch pickW(rt, "coinbase", []int{4, 3, 1, 2, 1}) {
		case 0:
			bp.Coinbase, bp.CoinbaseClass = FreshCoinbase, "fresh"
		case 1:
			bp.Coinbase, bp.CoinbaseClass = Keys[ep.Uniform(rt, "coinbase-key", len(Keys))].Addr, "sender"
		case 2:
			bp.Coinbase, bp.CoinbaseClass = progAddrs[ep.Uniform(rt, "coinbase-prog", len(prog.Contracts))], "prog"
		case 3:
			bp.Coinbase, bp.CoinbaseClass = scAddrs[ep.Uniform(rt, "coinbase-scenario", nsc)], "scenario"
		default:
			bp.Coinbase, bp.CoinbaseClass = common.Address{}, "zero"
		}
		if v.Fork >= ep.Shanghai && !opt.NoWithdrawals {
			nw := pickW(rt, "nwithdrawals", []int{3, 3, 2, 1})
			for k := 0; k < nw; k++ {
				amt := []uint64{0, 1, 1_000_000_000, 12_345_678}[pickW(rt, "withdrawal-amount", []int{1, 2, 3, 3})]
				bp.Withdrawals = append(bp.Withdrawals, &types.Withdrawal{
					Validator: uint64(100 + k),
					Address:   w.Pool[ep.Uniform(rt, "withdrawal-address", len(w.Pool))],
					Amount:    amt,
				})
			}
		}
		if v.PoW && bi >= 2 && !opt.NoUncles && pickW(rt, "uncle", []int{1, 1}) == 1 {
			bp.Uncle = &UnclePlan{Coinbase: w.Pool[ep.Uniform(rt, "uncle-coinbase", len(w.Pool))]}
		}
		ntx := pickW(rt, "ntxs-class", []int{1, 6, 3})
		switch ntx {
		case 0:
			ntx = 0
		case 1:
			ntx = 1 + ep.Uniform(rt, "ntxs", 4)
		default:
			ntx = 1 + ep.Uniform(rt, "ntxs", opt.MaxTxs)
		}
		for k := 0; k < ntx; k++ {
			bp.Txs = append(bp.Txs, w.DrawPlan(rt))
		}
		w.Blocks = append(w.Blocks, bp)
	}
	if opt.Collapse && pickW(rt, "collapse", []int{1, 1}) == 1 {
		w.drawCollapse(rt, alloc)
	}
	// Opt-in additions of single checks: always drawn AFTER everything above, in this
	// order, so that worlds drawn without them are unchanged.
	if opt.BigWithdrawals && v.Fork >= ep.Shanghai && !opt.NoWithdrawals {
		w.drawBigWithdrawals(rt)
	}
	if opt.LateDestruct {
		w.drawLateDestruct(rt, alloc)
	}
	return w
}

// contractTargets lists the addresses that carry generated code.
func (w *World) contractTargets() []common.Address {
	var out []common.Address
	for j := range w.Scenarios {
		out = append(out, ScenarioAddr(j))
	}
	for i := range w.Prog.Contracts {
		out = append(out, common.Address(ep.ContractAddr(i)))
	}
	return out
}

// Describe summarises the world for failure reports.
func (w *World) Describe() string {
	s := fmt.Sprintf("variant=%s baseFee=%v", w.Variant.Name, w.Genesis.BaseFee)
	if w.Genesis.ExcessBlobGas != nil {
		s += fmt.Sprintf(" excessBlobGas=%d", *w.Genesis.ExcessBlobGas)
	}
	for j, sc := range w.Scenarios {
		s += fmt.Sprintf("\n  scenario[%d] %s bal=%v: %s", j, ScenarioAddr(j).Hex(), w.Genesis.Alloc[ScenarioAddr(j)].Balance, sc.Describe())
	}
	for i, c := range w.Prog.Contracts {
		a := common.Address(ep.ContractAddr(i))
		s += fmt.Sprintf("\n  prog[%d] %s bal=%v: %s", i, a.Hex(), w.Genesis.Alloc[a].Balance, c.Prog.Describe())
	}
	for k, t := range w.Delegated {
		s += fmt.Sprintf("\n  key[%d] delegated to %s", k, t.Hex())
	}
	if w.Collapse != nil {
		s += "\n  " + w.Collapse.Describe()
	}
	if w.Late != nil {
		s += "\n  " + w.Late.Describe()
	}
	for bi, bp := range w.Blocks {
		s += fmt.Sprintf("\n  block %d coinbase=%s(%s) withdrawals=%d uncle=%v", bi+1, bp.Coinbase.Hex(), bp.CoinbaseClass, len(bp.Withdrawals), bp.Uncle != nil)
		for _, wd := range bp.Withdrawals {
			if wd.Amount > 1_000_000_000 {
				s += fmt.Sprintf(" [%d gwei -> %s]", wd.Amount, wd.Address.Hex())
			}
		}
		for ti, p := range bp.Txs {
			s += fmt.Sprintf("\n    plan %d: %s", ti, p.Describe())
		}
	}
	return s
}
