//go:build verif

package worldgen

import (
	"fmt"
	"math/big"

	"github.com/ethereum/go-ethereum/common"
	"github.com/ethereum/go-ethereum/core"
	"github.com/ethereum/go-ethereum/core/types"
	"github.com/ethereum/go-ethereum/params"
	"github.com/holiman/uint256"
	"pgregory.net/rapid"
	ep "verif.local/kit/evmprog"
)

// Value classes of a plan.
const (
	ValZero = iota
	ValOne
	ValSmall  // Plan.SmallValue wei (2..1000)
	ValLarge  // a quarter of the sender's balance
	ValMost   // everything the sender can afford after the worst-case gas cost
	nValClass
)

var valClassNames = []string{"0", "1", "small", "large", "most"}

// Gas classes of a plan.
const (
	GasExact  = iota // max(intrinsic, floor)
	GasLittle        // + Plan.GasExtra (1..5000)
	Gas60k
	Gas250k
	Gas1M
	Gas3M
	nGasClass
)

var gasClassNames = []string{"exact", "little", "60k", "250k", "1M", "3M"}

// Fee cap classes (relative to the block's base fee and the drawn tip).
const (
	CapBase     = iota // cap == base fee (effective tip 0)
	CapBinding         // base fee < cap < base fee + tip where possible (cap binds)
	CapExact           // cap == base fee + tip
	CapAbove           // cap == 2*base fee + tip + 7
	CapHuge            // cap == base fee + 10^12
	nCapClass
)

var capClassNames = []string{"base", "binding", "exact", "above", "huge"}

// AuthPlan is one EIP-7702 authorization of a set-code plan.
type AuthPlan struct {
	Key      int            // authority (index into Keys)
	Target   common.Address // delegation target (zero address clears)
	NonceOff uint64         // added to the correct nonce (0 = valid)
	ChainID  uint64         // 0 (any chain), 1 (this chain), 2 (wrong chain)
}

// TxPlan is an abstract transaction; see Materialize.
type TxPlan struct {
	Sender      int
	Type        byte   // types.LegacyTxType ... types.SetCodeTxType
	TargetClass string // scenario | prog | create | eoa | key | missing | precompile | self | coinbase
	To          *common.Address
	ToCoinbase  bool
	Data        []byte
	InitClass   string // create only
	ValClass    int
	SmallValue  uint64
	GasClass    int
	GasExtra    uint64
	Tip         uint64 // requested priority fee per gas
	CapClass    int
	AccessList  types.AccessList
	Blobs       int // number of blob hashes (blob txs)
	BlobCap     int // 0: == blob base fee, 1: +1, 2: 2x+10
	Auths       []AuthPlan
	// RefCreate, if set, points at an earlier contract-creation plan (same or earlier
	// block): World.Build replaces To (RefData false) or Data (RefData true: the
	// address left-padded to 32 bytes) by the address that plan's transaction created,
	// and skips this plan ("ref-not-created") if that plan was not included. Only the
	// opt-in engineered arrangements set it (latedestruct.go); Materialize ignores it.
	RefCreate *TxPlan
	RefData   bool
}

// Describe renders the plan.
func (p *TxPlan) Describe() string {
	to := "create:" + p.InitClass
	if p.ToCoinbase {
		to = "coinbase"
	} else if p.To != nil {
		to = p.To.Hex()
	}
	if p.RefCreate != nil && p.RefData {
		to += "[data=address created by an earlier plan]"
	} else if p.RefCreate != nil {
		to = "address created by an earlier plan"
	}
	s := fmt.Sprintf("type=%d sender=key%d target=%s(%s) value=%s gas=%s tip=%d cap=%s data=%x", p.Type, p.Sender, p.TargetClass, to,
		valClassNames[p.ValClass], gasClassNames[p.GasClass], p.Tip, capClassNames[p.CapClass], p.Data)
	if len(p.AccessList) > 0 {
		s += fmt.Sprintf(" al=%d", len(p.AccessList))
	}
	if p.Blobs > 0 {
		s += fmt.Sprintf(" blobs=%d/cap%d", p.Blobs, p.BlobCap)
	}
	for _, a := range p.Auths {
		s += fmt.Sprintf(" auth(key%d->%s,nonce+%d,chain%d)", a.Key, a.Target.Hex(), a.NonceOff, a.ChainID)
	}
	return s
}

// DrawPlan draws one transaction plan for the world.
func (w *World) DrawPlan(rt *rapid.T) *TxPlan {
	v := w.Variant
	push0 := v.Fork >= ep.Shanghai
	p := &TxPlan{Sender: ep.Uniform(rt, "sender", len(Keys))}
	addr := func(a common.Address) *common.Address { return &a }

	switch pickW(rt, "target-class", []int{30, 22, 16, 6, 6, 4, 3, 3, 4}) {
	case 0:
		p.TargetClass = "scenario"
		p.To = addr(ScenarioAddr(ep.Uniform(rt, "target-scenario", len(w.Scenarios))))
	case 1:
		p.TargetClass = "prog"
		p.To = addr(common.Address(ep.ContractAddr(ep.Uniform(rt, "target-prog", len(w.Prog.Contracts)))))
		p.Data = rapid.SliceOfN(rapid.Byte(), 0, 64).Draw(rt, "calldata")
	case 2:
		p.TargetClass = "create"
		switch pickW(rt, "init-class", []int{5, 4, 1, 1, 1, 1}) {
		case 0:
			p.InitClass = "scenario-init"
			p.Data = DrawScenario(rt, push0, w.Pool, true).Code()
		case 1:
			p.InitClass = "deploy-scenario"
			p.Data = ep.Deployer(DrawScenario(rt, push0, w.Pool, false).Code(), push0)
		case 2:
			p.InitClass = "empty"
		case 3:
			p.InitClass = "revert"
			p.Data = []byte{ep.PUSH1, 0, ep.PUSH1, 0, ep.REVERT}
		case 4:
			p.InitClass = "invalid"
			p.Data = []byte{ep.INVALID}
		default:
			p.InitClass = "raw"
			p.Data = rapid.SliceOfN(rapid.Byte(), 1, 40).Draw(rt, "init-raw")
		}
	case 3:
		p.TargetClass = "eoa"
		p.To = addr(common.Address(ep.EOAAddr))
	case 4:
		p.TargetClass = "key"
		p.To = addr(Keys[ep.Uniform(rt, "target-key", len(Keys))].Addr)
	case 5:
		p.TargetClass = "missing"
		p.To = addr(common.Address(ep.MissingAddr))
	case 6:
		p.TargetClass = "precompile"
		p.To = addr(common.Address(ep.PrecompileAddr(1 + ep.Uniform(rt, "target-precompile", 9))))
		p.Data = rapid.SliceOfN(rapid.Byte(), 0, 64).Draw(rt, "calldata")
	case 7:
		p.TargetClass = "self"
		p.To = addr(Keys[p.Sender].Addr)
	default:
		p.TargetClass = "coinbase"
		p.ToCoinbase = true
	}

	p.ValClass = pickW(rt, "value-class", []int{4, 3, 4, 2, 1})
	p.SmallValue = uint64(2 + ep.Uniform(rt, "value-small", 999))
	p.GasClass = pickW(rt, "gas-class", []int{1, 1, 2, 5, 4, 2})
	p.GasExtra = uint64(1 + ep.Uniform(rt, "gas-extra", 5000))
	p.Tip = []uint64{0, 1, uint64(2 + ep.Uniform(rt, "tip-small", 999)), 1_000_000_000}[pickW(rt, "tip-class", []int{2, 2, 3, 3})]
	p.CapClass = pickW(rt, "cap-class", []int{2, 3, 2, 3, 1})

	// Transaction type (gated by fork; creations cannot be blob or set-code txs).
	tw := []int{3, 2, 5, 0, 0}
	if v.Fork >= ep.Cancun && !w.Opt.NoBlobs && p.TargetClass != "create" {
		tw[3] = 2
	}
	if v.Fork >= ep.Prague && !w.Opt.NoSetCode && p.TargetClass != "create" {
		tw[4] = 3
	}
	p.Type = byte(pickW(rt, "tx-type", tw))
	if p.Type >= types.AccessListTxType {
		n := pickW(rt, "al-entries", []int{3, 2, 1})
		for i := 0; i < n; i++ {
			e := types.AccessTuple{Address: w.Pool[ep.Uniform(rt, "al-address", len(w.Pool))]}
			for k := ep.Uniform(rt, "al-keys", 3); k > 0; k-- {
				e.StorageKeys = append(e.StorageKeys, common.BigToHash(big.NewInt(int64(ep.Uniform(rt, "al-key", 4)))))
			}
			p.AccessList = append(p.AccessList, e)
		}
	}
	if p.Type == types.BlobTxType {
		p.Blobs = 1 + ep.Uniform(rt, "blobs", 3)
		p.BlobCap = ep.Uniform(rt, "blob-cap", 3)
	}
	if p.Type == types.SetCodeTxType {
		n := 1 + pickW(rt, "auths", []int{4, 2, 1})
		targets := append(w.contractTargets(), common.Address{}, common.Address(ep.EOAAddr), common.Address(ep.PrecompileAddr(4)))
		for i := 0; i < n; i++ {
			p.Auths = append(p.Auths, AuthPlan{
				Key:      ep.Uniform(rt, "auth-key", len(Keys)),
				Target:   targets[ep.Uniform(rt, "auth-target", len(targets))],
				NonceOff: uint64(pickW(rt, "auth-nonce", []int{5, 1})),
				ChainID:  uint64(pickW(rt, "auth-chain", []int{2, 3, 1})),
			})
		}
	}
	return p
}

// StateView is what Materialize needs to know about the current state.
type StateView interface {
	GetBalance(common.Address) *uint256.Int
	GetNonce(common.Address) uint64
}

// Env is the block context a plan is materialised in.
type Env struct {
	Config      *params.ChainConfig
	Rules       params.Rules
	Signer      types.Signer
	BaseFee     *big.Int
	BlobBaseFee *big.Int // nil before Cancun
	Coinbase    common.Address
	GasLeft     uint64 // block gas still available (sum of gas limits so far subtracted)
	BlobsLeft   int
	State       StateView
}

// TxInfo is a materialised plan.
type TxInfo struct {
	Plan *TxPlan
	Tx   *types.Transaction
	From common.Address
	// Value/Gas after clipping; Clipped lists what had to be adjusted.
	Clipped []string
}

func u256(b *big.Int) *uint256.Int { return uint256.MustFromBig(b) }

// Materialize turns p into a signed transaction that passes every validity check of
// the state transition in env, or returns a skip reason.
func Materialize(p *TxPlan, env *Env) (*TxInfo, string) {
	key := Keys[p.Sender]
	from := key.Addr
	info := &TxInfo{Plan: p, From: from}
	nonce := env.State.GetNonce(from)
	bal := env.State.GetBalance(from).ToBig()

	to := p.To
	if p.ToCoinbase {
		cb := env.Coinbase
		to = &cb
	}
	typ := p.Type
	if to == nil && (typ == types.BlobTxType || typ == types.SetCodeTxType) {
		typ = types.DynamicFeeTxType
	}

	// Authorizations.
	var auths []types.SetCodeAuthorization
	if typ == types.SetCodeTxType {
		seen := map[int]uint64{}
		for _, ap := range p.Auths {
			n := env.State.GetNonce(Keys[ap.Key].Addr) + seen[ap.Key]
			if ap.Key == p.Sender {
				n++ // the sender's nonce is bumped before authorizations are applied
			}
			auth := types.SetCodeAuthorization{Address: ap.Target, Nonce: n + ap.NonceOff}
			switch ap.ChainID {
			case 1:
				auth.ChainID = *uint256.MustFromBig(env.Config.ChainID)
			case 2:
				auth.ChainID = *uint256.NewInt(env.Config.ChainID.Uint64() + 1)
			}
			signed, err := types.SignSetCode(Keys[ap.Key].Priv, auth)
			if err != nil {
				return nil, "sign-auth-error"
			}
			if ap.NonceOff == 0 && ap.ChainID != 2 {
				seen[ap.Key]++
			}
			auths = append(auths, signed)
		}
	}

	// Fees.
	base := new(big.Int).Set(env.BaseFee)
	tip := new(big.Int).SetUint64(p.Tip)
	var feeCap *big.Int
	switch p.CapClass {
	case CapBase:
		feeCap = new(big.Int).Set(base)
	case CapBinding:
		feeCap = new(big.Int).Add(base, new(big.Int).Rsh(tip, 1))
	case CapExact:
		feeCap = new(big.Int).Add(base, tip)
	case CapAbove:
		feeCap = new(big.Int).Add(new(big.Int).Lsh(base, 1), tip)
		feeCap.Add(feeCap, big.NewInt(7))
	default:
		feeCap = new(big.Int).Add(base, big.NewInt(1_000_000_000_000))
	}
	if tip.Cmp(feeCap) > 0 {
		tip.Set(feeCap)
	}
	blobGas := uint64(0)
	blobCap := new(big.Int)
	if typ == types.BlobTxType {
		if env.BlobBaseFee == nil || p.Blobs > env.BlobsLeft {
			if env.BlobBaseFee == nil || env.BlobsLeft == 0 {
				typ = types.DynamicFeeTxType
			}
		}
	}
	nblobs := 0
	if typ == types.BlobTxType {
		nblobs = p.Blobs
		if nblobs > env.BlobsLeft {
			nblobs = env.BlobsLeft
		}
		blobGas = uint64(nblobs) * params.BlobTxBlobGasPerBlob
		switch p.BlobCap {
		case 0:
			blobCap.Set(env.BlobBaseFee)
		case 1:
			blobCap.Add(env.BlobBaseFee, big.NewInt(1))
		default:
			blobCap.Add(new(big.Int).Lsh(env.BlobBaseFee, 1), big.NewInt(10))
		}
	}
	blobCost := new(big.Int).Mul(new(big.Int).SetUint64(blobGas), blobCap)

	// Value candidate.
	value := new(big.Int)
	switch p.ValClass {
	case ValOne:
		value.SetUint64(1)
	case ValSmall:
		value.SetUint64(p.SmallValue)
	case ValLarge:
		value.Rsh(bal, 2)
	case ValMost:
		value.Set(bal) // clipped below
	}

	gasFor := func(val *big.Int, class int) (uint64, string) {
		intrinsic, err := core.IntrinsicGas(p.Data, p.AccessList, auths, from, to, u256(val), env.Rules)
		if err != nil {
			return 0, "intrinsic-error"
		}
		minGas := intrinsic
		if env.Rules.IsPrague {
			floor, err := core.FloorDataGas(env.Rules, from, to, u256(val), p.Data, p.AccessList)
			if err != nil {
				return 0, "floor-error"
			}
			minGas = max(minGas, floor)
		}
		gas := minGas
		switch class {
		case GasLittle:
			gas += p.GasExtra
		case Gas60k:
			gas = max(gas, 60_000)
		case Gas250k:
			gas = max(gas, 250_000)
		case Gas1M:
			gas = max(gas, 1_000_000)
		case Gas3M:
			gas = max(gas, 3_000_000)
		}
		if env.Rules.IsOsaka && !env.Rules.IsAmsterdam && gas > params.MaxTxGas {
			gas = params.MaxTxGas
		}
		if gas > env.GasLeft {
			gas = env.GasLeft
			info.Clipped = append(info.Clipped, "gas-to-block")
		}
		if gas < minGas {
			return 0, "block-gas"
		}
		return gas, ""
	}
	gas, skip := gasFor(value, p.GasClass)
	if skip != "" {
		return nil, skip
	}
	need := func() *big.Int {
		n := new(big.Int).Mul(new(big.Int).SetUint64(gas), feeCap)
		n.Add(n, blobCost)
		return n
	}
	// Affordability: gas*cap + blob cost + value <= balance.
	if need().Cmp(bal) > 0 {
		// lower the fee cap to the base fee, then the gas to the minimum
		feeCap.Set(base)
		if tip.Cmp(feeCap) > 0 {
			tip.Set(feeCap)
		}
		info.Clipped = append(info.Clipped, "cap-to-base")
		if need().Cmp(bal) > 0 {
			gas, skip = gasFor(value, GasExact)
			if skip != "" {
				return nil, skip
			}
			info.Clipped = append(info.Clipped, "gas-to-min")
			if need().Cmp(bal) > 0 {
				return nil, "funds"
			}
		}
	}
	if avail := new(big.Int).Sub(bal, need()); value.Cmp(avail) > 0 {
		value.Set(avail)
		if p.ValClass != ValMost {
			info.Clipped = append(info.Clipped, "value")
		}
		// The intrinsic cost may depend on value != 0 (Amsterdam); it can only drop.
		if value.Sign() == 0 && p.GasClass == GasExact {
			if g2, s2 := gasFor(value, GasExact); s2 == "" && g2 <= gas {
				gas = g2
			}
		}
	}

	chainID := env.Config.ChainID
	var txdata types.TxData
	switch typ {
	case types.LegacyTxType:
		txdata = &types.LegacyTx{Nonce: nonce, GasPrice: feeCap, Gas: gas, To: to, Value: value, Data: p.Data}
	case types.AccessListTxType:
		txdata = &types.AccessListTx{ChainID: chainID, Nonce: nonce, GasPrice: feeCap, Gas: gas, To: to, Value: value, Data: p.Data, AccessList: p.AccessList}
	case types.DynamicFeeTxType:
		txdata = &types.DynamicFeeTx{ChainID: chainID, Nonce: nonce, GasTipCap: tip, GasFeeCap: feeCap, Gas: gas, To: to, Value: value, Data: p.Data, AccessList: p.AccessList}
	case types.BlobTxType:
		hashes := make([]common.Hash, nblobs)
		for i := range hashes {
			hashes[i] = common.Hash{0: 0x01, 1: byte(p.Sender), 2: byte(nonce), 31: byte(i + 1)}
		}
		txdata = &types.BlobTx{ChainID: u256(chainID), Nonce: nonce, GasTipCap: u256(tip), GasFeeCap: u256(feeCap), Gas: gas, To: *to,
			Value: u256(value), Data: p.Data, AccessList: p.AccessList, BlobFeeCap: u256(blobCap), BlobHashes: hashes}
	case types.SetCodeTxType:
		txdata = &types.SetCodeTx{ChainID: u256(chainID), Nonce: nonce, GasTipCap: u256(tip), GasFeeCap: u256(feeCap), Gas: gas, To: *to,
			Value: u256(value), Data: p.Data, AccessList: p.AccessList, AuthList: auths}
	}
	tx, err := types.SignNewTx(key.Priv, env.Signer, txdata)
	if err != nil {
		return nil, "sign-error"
	}
	info.Tx = tx
	return info, ""
}
