//go:build verif

package worldgen

// Created in one transaction, destructed by a later one (Options.LateDestruct).
//
// Draw's scenario contracts create children and destroy them within ONE transaction
// (EIP-6780's "created in the same transaction" case), and its creation transactions
// deploy contracts nobody calls afterwards, because the address of a contract created by
// a transaction is only known once the creator's nonce is. The history in between -
// created by transaction i, SELFDESTRUCT executed in a LATER transaction j of the same
// block, where every account touched by i is still cached by the block's state - is
// built here on purpose:
//
//   - a victim contract, created either by a creation transaction (its address is
//     resolved by World.Build through TxPlan.RefCreate) or by CREATE2 through the
//     genesis factory at LateFactoryAddr (address known when drawn). The constructor
//     is the plain deployer or writes a storage slot first; the endowment is drawn.
//     Runtime kinds: "always" (SELFDESTRUCT(benef) on every call), "if-no-value"
//     (SELFDESTRUCT(benef) when called without value, accepts value silently otherwise)
//     and "scenario" (a drawn scenario that ends in SELFDESTRUCT(benef)); the
//     beneficiary is the victim itself or a pool address;
//   - one to three later transactions of the same block that call the victim directly
//     (with or without value) or call the genesis driver at LateDriverAddr with the
//     victim's address as calldata. The driver runs a drawn sequence of zero-value calls
//     ("poke": the victim destructs) and value calls ("pay": the victim is paid after -
//     or before - its SELFDESTRUCT within the same transaction) and ends in STOP, rarely
//     REVERT. With some probability the last of these transactions goes to the NEXT
//     block instead (contrast class: nothing of the creating block is cached any more).
//
// Everything is drawn at the very end of Draw (after Collapse and BigWithdrawals), so a
// world without the option is drawn exactly as before. Positions recorded by
// CollapsePlan.Position are not adjusted for plans inserted here (no check uses both).

import (
	"fmt"
	"math/big"
	"strings"

	"github.com/ethereum/go-ethereum/common"
	"github.com/ethereum/go-ethereum/core/types"
	"github.com/ethereum/go-ethereum/crypto"
	"pgregory.net/rapid"
	ep "verif.local/kit/evmprog"
)

// LateFactoryAddr runs its calldata as initcode of a CREATE2 (salt 0, endowment =
// call value); LateDriverAddr calls the address given as calldata word 0. Neither is
// in World.Pool, so nothing else refers to them.
var (
	LateFactoryAddr = common.HexToAddress("0x1a7e000000000000000000000000000000000001")
	LateDriverAddr  = common.HexToAddress("0x1a7e000000000000000000000000000000000002")
)

// LatePlan describes the engineered part of a world (World.Late).
type LatePlan struct {
	Block      int            // index into World.Blocks of the creating block
	Via        string         // tx-create | factory-create2
	Ctor       string         // plain | sstore (the constructor writes a storage slot)
	Victim     string         // always | if-no-value | scenario
	Benef      common.Address // beneficiary of the victim's SELFDESTRUCT unless BenefSelf
	BenefSelf  bool
	VictimAddr common.Address // factory-create2 only; tx-create: see Built.Created[Create]
	Create     *TxPlan
	Calls      []*TxPlan // later transactions, in order
	CallKinds  []string  // direct | driver, per call
	NextBlock  bool      // the last call was placed in the following block
	Driver     []string  // the driver's steps ("poke", "pay:<value>") and terminator
}

// Describe renders the plan.
func (l *LatePlan) Describe() string {
	b := "self"
	if !l.BenefSelf {
		b = l.Benef.Hex()
	}
	s := fmt.Sprintf("late-destruct: block %d via=%s ctor=%s victim=%s benef=%s calls=%s driver=[%s]", l.Block+1, l.Via, l.Ctor, l.Victim, b,
		strings.Join(l.CallKinds, ","), strings.Join(l.Driver, ","))
	if l.NextBlock {
		s += " (last call in the next block)"
	}
	return s
}

// Shape is a short class label.
func (l *LatePlan) Shape() string {
	b := "other"
	if l.BenefSelf {
		b = "self"
	}
	return fmt.Sprintf("%s/ctor-%s/%s/benef-%s", l.Via, l.Ctor, l.Victim, b)
}

// latePlanBase draws an ordinary plan (sender, fee classes, type) and strips what the
// engineered transactions set themselves.
func (w *World) latePlanBase(rt *rapid.T) *TxPlan {
	p := w.DrawPlan(rt)
	if p.Type == types.BlobTxType || p.Type == types.SetCodeTxType {
		p.Type = types.DynamicFeeTxType
	}
	p.Auths, p.Blobs = nil, 0
	p.To, p.ToCoinbase, p.Data, p.InitClass = nil, false, nil, ""
	if p.Sender == w.PoorKey {
		p.Sender = (p.Sender + 1) % len(Keys)
	}
	return p
}

func insertPlan(txs []*TxPlan, pos int, p *TxPlan) []*TxPlan {
	txs = append(txs, nil)
	copy(txs[pos+1:], txs[pos:])
	txs[pos] = p
	return txs
}

// drawLateDestruct draws the arrangement, adds factory and driver to alloc and the
// transactions to the blocks. Called at the very end of Draw.
func (w *World) drawLateDestruct(rt *rapid.T, alloc types.GenesisAlloc) {
	if pickW(rt, "late", []int{1, 2}) == 0 {
		return
	}
	push0 := w.Variant.Fork >= ep.Shanghai
	l := &LatePlan{}
	l.Block = ep.Uniform(rt, "late-block", len(w.Blocks))
	l.Via = []string{"tx-create", "factory-create2"}[pickW(rt, "late-via", []int{3, 1})]
	l.Ctor = []string{"plain", "sstore"}[pickW(rt, "late-ctor", []int{4, 1})]
	l.Victim = []string{"always", "if-no-value", "scenario"}[pickW(rt, "late-victim", []int{4, 4, 2})]
	if pickW(rt, "late-benef-self", []int{1, 1}) == 1 {
		l.BenefSelf = true
	} else {
		l.Benef = w.Pool[ep.Uniform(rt, "late-benef", len(w.Pool))]
	}

	// Victim runtime.
	var runtime []byte
	switch l.Victim {
	case "always":
		a := ep.NewAsm(push0)
		emitAddr(a, l.Benef, l.BenefSelf)
		runtime = a.Op(ep.SELFDESTRUCT).MustBytes()
	case "if-no-value":
		a := ep.NewAsm(push0)
		paid := a.NewLabel()
		a.Op(ep.CALLVALUE).Jumpi(paid)
		emitAddr(a, l.Benef, l.BenefSelf)
		a.Op(ep.SELFDESTRUCT).SetDepth(0).Bind(paid).Op(ep.STOP)
		runtime = a.MustBytes()
	default:
		s := DrawScenario(rt, push0, w.Pool, false)
		s.Term, s.TermTarget, s.TermSelf = TSelfDestruct, l.Benef, l.BenefSelf
		runtime = s.Code()
	}
	// Constructor: [SSTORE(0, 1);] deploy runtime.
	ia := ep.NewAsm(push0)
	if l.Ctor == "sstore" {
		ia.PushU(1).PushU(0).Op(ep.SSTORE)
	}
	ds, de := ia.Data(runtime)
	ia.PushDistance(ds, de).Op(ep.DUP1).PushLabel(ds).PushU(0).Op(ep.CODECOPY).PushU(0).Op(ep.RETURN)
	initcode := ia.MustBytes()

	// Factory: CREATE2(CALLVALUE, calldata, salt 0); STOP.
	fa := ep.NewAsm(push0)
	fa.Op(ep.CALLDATASIZE).PushU(0).PushU(0).Op(ep.CALLDATACOPY)
	fa.PushU(0).Op(ep.CALLDATASIZE).PushU(0).Op(ep.CALLVALUE, ep.CREATE2, ep.POP, ep.STOP)
	alloc[LateFactoryAddr] = types.Account{Nonce: 1, Code: fa.MustBytes(), Balance: new(big.Int)}

	// Driver: victim := CALLDATALOAD(0); steps; STOP | REVERT.
	patterns := [][]bool{{false, true}, {false, true, false}, {true, false}, {false}, {true}, {false, true, true}, {true, false, true}} // true = pay
	pattern := patterns[pickW(rt, "late-driver-pattern", []int{4, 2, 2, 1, 1, 2, 2})]
	da := ep.NewAsm(push0)
	da.PushU(0).Op(ep.CALLDATALOAD)
	for _, pay := range pattern {
		v := VZero
		if pay {
			v = []ValueExpr{VOne, VSeven, VCallValue, VHalf}[ep.Uniform(rt, "late-driver-value", 4)]
			l.Driver = append(l.Driver, "pay:"+valueNames[v])
		} else {
			l.Driver = append(l.Driver, "poke")
		}
		da.PushU(0).PushU(0).PushU(0).PushU(0)
		emitValue(da, v)
		da.Op(ep.DUP1 + 5)
		emitGas(da)
		da.Op(ep.CALL, ep.POP)
	}
	da.Op(ep.POP)
	if pickW(rt, "late-driver-term", []int{7, 1}) == 1 {
		da.PushU(0).PushU(0).Op(ep.REVERT)
		l.Driver = append(l.Driver, "revert")
	} else {
		da.Op(ep.STOP)
		l.Driver = append(l.Driver, "stop")
	}
	driverBal := []*big.Int{big.NewInt(1000), ether(1)}[ep.Uniform(rt, "late-driver-balance", 2)]
	alloc[LateDriverAddr] = types.Account{Nonce: 1, Code: da.MustBytes(), Balance: driverBal}

	// The creating transaction.
	bp := w.Blocks[l.Block]
	cr := w.latePlanBase(rt)
	cr.ValClass = pickW(rt, "late-endowment", []int{2, 2, 3, 1}) // 0 | 1 | small | large
	cr.GasClass = Gas1M
	cr.Data = initcode
	if l.Via == "tx-create" {
		cr.TargetClass, cr.InitClass = "create", "late-victim"
	} else {
		to := LateFactoryAddr
		cr.TargetClass, cr.To = "late-factory", &to
		l.VictimAddr = crypto.CreateAddress2(LateFactoryAddr, common.Hash{}, crypto.Keccak256(initcode))
	}
	pos := ep.Uniform(rt, "late-create-pos", len(bp.Txs)+1)
	bp.Txs = insertPlan(bp.Txs, pos, cr)
	l.Create = cr

	// The later transactions.
	ncalls := 1 + pickW(rt, "late-ncalls", []int{3, 2, 1})
	for k := 0; k < ncalls; k++ {
		p := w.latePlanBase(rt)
		p.GasClass = Gas250k + ep.Uniform(rt, "late-call-gas", 2)
		kind := []string{"direct", "driver"}[pickW(rt, "late-call-kind", []int{2, 3})]
		if kind == "direct" {
			p.TargetClass = "late-victim"
			p.ValClass = pickW(rt, "late-call-value", []int{2, 1, 2}) // 0 | 1 | small
			if l.Via == "tx-create" {
				p.RefCreate = cr
			} else {
				to := l.VictimAddr
				p.To = &to
			}
		} else {
			to := LateDriverAddr
			p.TargetClass, p.To = "late-driver", &to
			p.ValClass = pickW(rt, "late-call-value", []int{1, 1, 2})
			if l.Via == "tx-create" {
				p.RefCreate, p.RefData = cr, true
			} else {
				p.Data = common.LeftPadBytes(l.VictimAddr[:], 32)
			}
		}
		if k == ncalls-1 && l.Block+1 < len(w.Blocks) && pickW(rt, "late-next-block", []int{4, 1}) == 1 {
			nb := w.Blocks[l.Block+1]
			nb.Txs = insertPlan(nb.Txs, ep.Uniform(rt, "late-next-pos", len(nb.Txs)+1), p)
			l.NextBlock = true
		} else {
			pos = pos + 1 + ep.Uniform(rt, "late-call-pos", len(bp.Txs)-pos)
			bp.Txs = insertPlan(bp.Txs, pos, p)
		}
		l.Calls = append(l.Calls, p)
		l.CallKinds = append(l.CallKinds, kind)
	}
	w.Late = l
}
