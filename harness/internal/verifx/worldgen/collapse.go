//go:build verif

package worldgen

// Engineered branch collapses (Options.Collapse).
//
// Deleting a trie leaf whose parent branch node has exactly ONE other child makes the
// branch collapse into a short node; to do that the trie has to resolve the remaining
// sibling - a node that no EVM read ever touched and that is loaded only when the
// tries are updated/hashed at the end of the block (StateDB.IntermediateRoot). Random
// worlds hit that shape rarely (a contract must own exactly two slots under one
// branch, the block must zero one of them and nothing may re-populate the branch), so
// Options.Collapse builds it on purpose:
//
//   - a dedicated contract at CollapseAddr (not in World.Pool, so nothing else calls
//     it) whose genesis storage is a pair of slots whose HASHED keys share exactly k
//     nibbles (k drawn from 0..3; pairs found by brute force over the slot indices
//     0..255) plus 0..2 extra slots under other root children; its code zeroes (and
//     sometimes updates) a drawn subset of them;
//   - optionally a victim account that leaves the ACCOUNT trie in that block: a
//     pre-funded address onto which the contract CREATE2s an initcode that
//     self-destructs (every variant), a genesis contract that self-destructs when
//     called (before Cancun), or an empty genesis account touched by a zero-value CALL
//     (EIP-161 clearing; proof-of-work variant only, EIP-7523 rules empty accounts out
//     of post-merge states); plus a "twin" EOA in genesis whose hashed address shares
//     more leading nibbles with the victim's than any other genesis account does, so
//     that victim and twin are the only children of one account-trie branch. The twin
//     is never referenced by any transaction or program;
//   - one plain transaction to CollapseAddr inserted at a drawn position of the LAST
//     block (the block C34 collects the witness for).
//
// Everything is drawn at the very end of Draw, so a world without the option is
// drawn exactly as before.

import (
	"fmt"
	"math/big"
	"sort"
	"sync"

	"github.com/ethereum/go-ethereum/common"
	"github.com/ethereum/go-ethereum/core/types"
	"github.com/ethereum/go-ethereum/crypto"
	"pgregory.net/rapid"
	ep "verif.local/kit/evmprog"
)

// CollapseAddr is the contract with the engineered storage, CollapseVictimAddr the
// account it removes from the account trie (victim kinds empty and suicide; the
// create2-suicide victim sits at the CREATE2 address).
var (
	CollapseAddr       = common.HexToAddress("0xc011a95e00000000000000000000000000000001")
	CollapseVictimAddr = common.HexToAddress("0xc011a95e00000000000000000000000000000002")
)

// CollapsePlan describes the engineered part of a world (World.Collapse).
type CollapsePlan struct {
	Pair      [2]byte // slot indices whose hashed keys share exactly PairDepth nibbles
	PairDepth int
	Extras    []byte // further genesis slots, each under a root child of its own
	Zero      []byte // slots the code sets to zero, in code order
	Update    []byte // slots the code overwrites with 2
	// Victim: none | empty (empty genesis account touched by a zero-value CALL; proof-of-work
	// variant only) | suicide (genesis contract that self-destructs when called; before
	// Cancun) | create2-suicide (pre-funded address onto which the contract CREATE2s an
	// initcode that self-destructs).
	Victim     string
	VictimAddr common.Address
	Twin       common.Address
	TwinDepth  int // nibbles shared by the hashed addresses of victim and twin; 0 = no twin
	Sender     int
	Position   int // index of the transaction among the last block's plans
}

// Describe renders the plan.
func (c *CollapsePlan) Describe() string {
	s := fmt.Sprintf("collapse %s: slots pair=%v@%d extras=%v zero=%v update=%v victim=%s", CollapseAddr.Hex(), c.Pair, c.PairDepth, c.Extras, c.Zero, c.Update, c.Victim)
	if c.TwinDepth > 0 {
		s += fmt.Sprintf(" twin=%s@%d", c.Twin.Hex(), c.TwinDepth)
	}
	return s + fmt.Sprintf(" tx: key%d at position %d of the last block", c.Sender, c.Position)
}

// Shape is a short class label: storage shape / what is zeroed / victim kind.
func (c *CollapsePlan) Shape() string {
	z := ""
	for _, s := range c.Zero {
		switch {
		case s == c.Pair[0] || s == c.Pair[1]:
			z += "p"
		default:
			z += "x"
		}
	}
	return fmt.Sprintf("pair@%d+%d/zero=%s/victim=%s", c.PairDepth, len(c.Extras), z, c.Victim)
}

func nibble(h common.Hash, i int) byte {
	if i%2 == 0 {
		return h[i/2] >> 4
	}
	return h[i/2] & 0x0f
}

// sharedNibbles is the length of the common nibble prefix of a and b.
func sharedNibbles(a, b common.Hash) int {
	n := 0
	for n < 64 && nibble(a, n) == nibble(b, n) {
		n++
	}
	return n
}

var (
	slotOnce   sync.Once
	slotHash   [256]common.Hash // hashed storage key of slot index i
	slotPairs  [4][][2]byte     // pairs (i<j) sharing exactly k nibbles, k = 0..3
	twinMu     sync.Mutex
	twinCache  = map[string]common.Address{}
	maxTwinGap = 3
)

func slotTables() {
	slotOnce.Do(func() {
		for i := range slotHash {
			slotHash[i] = crypto.Keccak256Hash(common.Hash{31: byte(i)}.Bytes())
		}
		for i := 0; i < 256; i++ {
			for j := i + 1; j < 256; j++ {
				if k := sharedNibbles(slotHash[i], slotHash[j]); k < len(slotPairs) {
					slotPairs[k] = append(slotPairs[k], [2]byte{byte(i), byte(j)})
				}
			}
		}
	})
}

// findTwin returns an address whose hash shares exactly d nibbles with hv.
func findTwin(hv common.Hash, d int) common.Address {
	key := fmt.Sprintf("%x/%d", hv, d)
	twinMu.Lock()
	defer twinMu.Unlock()
	if a, ok := twinCache[key]; ok {
		return a
	}
	for ctr := uint32(0); ; ctr++ {
		a := common.Address{0: 0x77, 1: 0x17, 2: byte(d), 16: byte(ctr >> 24), 17: byte(ctr >> 16), 18: byte(ctr >> 8), 19: byte(ctr)}
		if sharedNibbles(crypto.Keccak256Hash(a[:]), hv) == d {
			twinCache[key] = a
			return a
		}
	}
}

// drawCollapse draws the engineered part, adds its accounts to alloc and its
// transaction to the last block. Called at the end of Draw.
func (w *World) drawCollapse(rt *rapid.T, alloc types.GenesisAlloc) {
	slotTables()
	push0 := w.Variant.Fork >= ep.Shanghai
	c := &CollapsePlan{}

	// Storage shape.
	c.PairDepth = pickW(rt, "collapse-pair-depth", []int{3, 3, 2, 1})
	for len(slotPairs[c.PairDepth]) == 0 {
		c.PairDepth--
	}
	pairs := slotPairs[c.PairDepth]
	c.Pair = pairs[ep.Uniform(rt, "collapse-pair", len(pairs))]
	if ep.Uniform(rt, "collapse-pair-swap", 2) == 1 {
		c.Pair[0], c.Pair[1] = c.Pair[1], c.Pair[0]
	}
	used := map[byte]bool{nibble(slotHash[c.Pair[0]], 0): true, nibble(slotHash[c.Pair[1]], 0): true}
	for n := pickW(rt, "collapse-extras", []int{3, 3, 1}); n > 0; n-- {
		start := ep.Uniform(rt, "collapse-extra", 256)
		for off := 0; off < 256; off++ {
			s := byte((start + off) % 256)
			if nb := nibble(slotHash[s], 0); !used[nb] {
				used[nb] = true
				c.Extras = append(c.Extras, s)
				break
			}
		}
	}
	mode := pickW(rt, "collapse-mode", []int{4, 1, 2, 1, 1})
	if len(c.Extras) == 0 && (mode == 2 || mode == 4) {
		mode = 0
	}
	switch mode {
	case 0: // the sibling of the pair is left alone
		c.Zero = []byte{c.Pair[0]}
	case 1: // the sibling is written as well (read by the EVM)
		c.Zero, c.Update = []byte{c.Pair[0]}, []byte{c.Pair[1]}
	case 2: // the lone slot goes: the sibling is the pair's subtree
		c.Zero = []byte{c.Extras[0]}
	case 3:
		c.Zero = []byte{c.Pair[0], c.Pair[1]}
	default:
		c.Zero = []byte{c.Extras[0], c.Pair[0]}
	}

	// Victim of the account trie.
	c.Victim = []string{"none", "create2-suicide", "suicide", "empty"}[pickW(rt, "collapse-victim", []int{2, 3, 2, 2})]
	if c.Victim == "suicide" && w.Variant.Fork >= ep.Cancun {
		c.Victim = "create2-suicide" // EIP-6780: a pre-existing contract no longer leaves the trie
	}
	if c.Victim == "empty" && !w.Variant.PoW {
		// EIP-7523: no empty account exists in a post-merge state, and later rule sets
		// rely on it (the block-access-list processor does not clear touched empty
		// accounts); only the proof-of-work variant may start with one.
		c.Victim = "create2-suicide"
	}
	suicideInit := []byte{ep.ORIGIN, ep.SELFDESTRUCT}
	c.VictimAddr = CollapseVictimAddr
	if c.Victim == "create2-suicide" {
		c.VictimAddr = crypto.CreateAddress2(CollapseAddr, common.Hash{}, crypto.Keccak256(suicideInit))
	}

	// Code: the stores, then the call of the victim, STOP.
	a := ep.NewAsm(push0)
	for _, s := range c.Update {
		a.PushU(2).PushU(uint64(s)).Op(ep.SSTORE)
	}
	for _, s := range c.Zero {
		a.PushU(0).PushU(uint64(s)).Op(ep.SSTORE)
	}
	switch c.Victim {
	case "none":
	case "create2-suicide":
		// CREATE2 onto the pre-funded address; the initcode self-destructs, and an account
		// destroyed in the transaction that created it leaves the trie under every rule set.
		for i, b := range suicideInit {
			a.PushU(uint64(b)).PushU(uint64(i)).Op(ep.MSTORE8)
		}
		a.PushU(0).PushU(uint64(len(suicideInit))).PushU(0).PushU(0).Op(ep.CREATE2, ep.POP)
	default:
		a.PushU(0).PushU(0).PushU(0).PushU(0).PushU(0).PushAddr(c.VictimAddr)
		emitGas(a)
		a.Op(ep.CALL, ep.POP)
	}
	a.Op(ep.STOP)
	storage := map[common.Hash]common.Hash{
		{31: c.Pair[0]}: {31: 1},
		{31: c.Pair[1]}: {31: 1},
	}
	for _, s := range c.Extras {
		storage[common.Hash{31: s}] = common.Hash{31: 1}
	}
	alloc[CollapseAddr] = types.Account{Nonce: 1, Code: a.MustBytes(), Balance: big.NewInt(1), Storage: storage}
	switch c.Victim {
	case "empty":
		alloc[c.VictimAddr] = types.Account{Balance: new(big.Int)}
	case "suicide":
		alloc[c.VictimAddr] = types.Account{Nonce: 1, Code: suicideInit, Balance: big.NewInt(int64(ep.Uniform(rt, "collapse-victim-balance", 2)))}
	case "create2-suicide":
		alloc[c.VictimAddr] = types.Account{Balance: big.NewInt(1)}
	}

	// Twin: deeper under the victim's path than any other genesis account.
	if c.Victim != "none" {
		hv := crypto.Keccak256Hash(c.VictimAddr[:])
		addrs := make([]common.Address, 0, len(alloc))
		for addr := range alloc {
			addrs = append(addrs, addr)
		}
		sort.Slice(addrs, func(i, j int) bool { return addrs[i].Cmp(addrs[j]) < 0 })
		deepest := 0
		for _, addr := range addrs {
			if addr != c.VictimAddr {
				deepest = max(deepest, sharedNibbles(crypto.Keccak256Hash(addr[:]), hv))
			}
		}
		d := deepest + 1 + ep.Uniform(rt, "collapse-twin-extra-depth", 2)
		if d > maxTwinGap {
			d = deepest + 1
		}
		if d <= maxTwinGap {
			c.TwinDepth, c.Twin = d, findTwin(hv, d)
			alloc[c.Twin] = types.Account{Balance: ether(1)}
		}
	}

	// The transaction, in the last block.
	c.Sender = ep.Uniform(rt, "collapse-sender", len(Keys))
	if c.Sender == w.PoorKey {
		c.Sender = (c.Sender + 1) % len(Keys)
	}
	last := w.Blocks[len(w.Blocks)-1]
	c.Position = ep.Uniform(rt, "collapse-position", len(last.Txs)+1)
	to := CollapseAddr
	p := &TxPlan{Sender: c.Sender, Type: []byte{types.LegacyTxType, types.DynamicFeeTxType}[ep.Uniform(rt, "collapse-tx-type", 2)],
		TargetClass: "collapse", To: &to, ValClass: ValZero, GasClass: Gas1M, Tip: 1, CapClass: CapAbove}
	last.Txs = append(last.Txs, nil)
	copy(last.Txs[c.Position+1:], last.Txs[c.Position:])
	last.Txs[c.Position] = p
	w.Collapse = c
}
