//go:build verif

// Package worldgen draws complete little Ethereum worlds from rapid: a chain
// configuration for a named fork, a genesis allocation (key-pool EOAs, generated
// contracts, system contracts), transaction plans of every type and valid blocks
// executed by go-ethereum's chain maker. It is the block/world generator of DESIGN
// §2.12 shared by the chain-level checks (C32 ether conservation, C34 stateless
// re-execution; intended for reuse by C33, C36, C37).
//
// worldgen imports package core. A check hosted in package core must therefore live
// in the EXTERNAL test package (`package core_test`); in-package test files (package
// core) cannot import worldgen (import cycle). Every core API worldgen and the
// checks need (GenerateChain, BlockGen, NewBlockChain, StateProcessor,
// ExecuteStateless, IntrinsicGas, ...) is exported.
//
// # Pipeline
//
//	w := worldgen.Draw(rt, worldgen.Options{...})   // ALL rapid draws happen here
//	b, err := w.Build(worldgen.BuildOptions{...})   // deterministic; runs geth
//
// Draw fixes: the variant (fork + engine), genesis fee parameters, the account pool,
// the contract code, and per block the coinbase, withdrawals, uncles (proof-of-work
// variant) and an ordered list of *TxPlan. A plan is abstract (sender index, target,
// value class, gas class, fee classes, type, access list, blob count,
// authorizations); it becomes a signed transaction only inside the chain-maker
// callback, where the current nonce, balance, base fee and remaining block gas are
// known (Materialize). Plans that cannot be made valid (not enough funds, block gas
// or blob budget exhausted) are skipped and counted in Built.Skipped; value and gas
// are clipped to what is affordable first. Materialize mirrors every check of
// core's stateTransition.preCheck/execute so that BlockGen.AddTx cannot reject a
// transaction; should it happen anyway, Build returns an error (a harness bug, not a
// finding) because the chain maker's state is dirty after a rejected transaction.
//
// # Variants (type Variant, Variants, VariantByName)
//
//	london-pow  London rules, ethash faker engine: block reward 2 ETH, uncles
//	paris       London rules after the merge (PREVRANDAO), beacon engine
//	shanghai, cancun, prague, osaka, amsterdam   beacon engine, all forks at time 0
//
// ChainConfig(v) is a copy of params.MergedTestChainConfig with the later forks
// removed (Amsterdam added), so blob schedules are present. SystemAlloc(v) deploys
// the system contracts each fork needs exactly as core's own tests do
// (newBALTestEnv): 4788 beacon roots (Cancun), 2935 history + 7002/7251 queues
// (Prague), builder deposit/exit (Amsterdam).
//
// # Account pool (World.Pool)
//
//   - Keys[0..4]: EOAs with private keys derived from the scalars 1..5 (senders and
//     7702 authorities); funded richly, except one optional "poor" sender.
//     From Prague on one key may be delegated (EIP-7702) in genesis already.
//   - evmprog contracts (World.Prog.Contracts, at evmprog.ContractAddr(i)), drawn
//     with evmprog.DrawWorld (EffectBias by default); evmprog.EOAAddr is funded,
//     evmprog.MissingAddr is absent.
//   - scenario contracts (World.Scenarios, at ScenarioAddr(j)): short straight-line
//     programs built with evmprog.Asm that move value on purpose: CALL with value to
//     pool members, CREATE/CREATE2 with endowment whose child self-destructs (in the
//     initcode or when called afterwards in the same transaction), payments to an
//     account after it self-destructed, SSTOREs over four slots (half of them
//     present at genesis, so that slots are deleted and storage tries collapse),
//     BLOCKHASH of the last three blocks and BALANCE/EXTCODESIZE/EXTCODEHASH/
//     EXTCODECOPY of pool members (stored or logged), and STOP/REVERT/
//     INVALID/SELFDESTRUCT terminators (DrawScenario).
//   - coinbase per block: a fresh address, a sender, a contract, or the zero address.
//
// Pool addresses are also handed to evmprog as call/selfdestruct targets, so the
// histories of a handful of accounts collide.
//
// # Transactions (TxPlan, DrawPlan, Materialize)
//
// Types: legacy, access list, dynamic fee, blob (Cancun+; versioned hashes only, no
// sidecar), set code (Prague+). Targets: transfer to EOA / missing / precompile /
// self / coinbase, call of a generated or scenario contract or delegated EOA,
// contract creation (deployer of a scenario, scenario run as initcode, reverting,
// empty, raw bytes). Value classes 0 / 1 / small / large / nearly-everything. Gas
// classes: exactly the intrinsic (or floor) cost, a little more, 60k, 250k, 1M, 3M.
// Fee classes: fee cap == base fee, cap between base fee and base fee + tip (cap
// binds), cap above; tip 0 / 1 / small / large; legacy gas price >= base fee.
// Nonces come from the chain maker's state (per-sender tracking is implicit).
//
// # Building (World.Build, Built)
//
// Build commits the genesis, runs core.GenerateChainWithGenesis and, while the
// chain maker advances, inserts every finished block into a real core.BlockChain
// (BuildOptions.Chain: tracer, state scheme, ...) so that BLOCKHASH has a chain
// to look at and so that callers get the blocks re-executed through the real
// insertion path. With BuildOptions.HoldLast the last block is generated but NOT
// inserted (Built.Chain's head is its parent): C34 inserts it itself with witness
// collection. Built.GenDB holds every state the chain maker committed (hash scheme,
// all tries on disk) - Balances(db, root) walks an account trie and returns balance
// by hashed address (the "balance dump" of C32).
//
// # Reuse notes (C33, C36, C37)
//
//   - Options: Variants restricts the rule sets (e.g. only VariantByName("amsterdam")
//     for C33), MaxBlocks/MaxTxs/MaxContracts/MaxScenarios size the world, Gen
//     replaces the evmprog configuration (e.g. Monotone for C37, Bounded when code
//     runs without a gas limit), NoBlobs/NoSetCode/NoWithdrawals/NoUncles/NoStorage
//     switch features off. Collapse (opt-in, used by C34) adds to about half of the
//     worlds an engineered contract (CollapseAddr, outside the pool) called once in the
//     LAST block, whose stores / victim account make a two-child branch node of its
//     storage trie / of the account trie collapse (collapse.go, World.Collapse); it is
//     drawn after everything else, so worlds drawn without it are unchanged.
//     BigWithdrawals and LateDestruct (opt-in, used by C32; bigwithdrawals.go,
//     latedestruct.go) are drawn after Collapse, in that order: hostile withdrawal
//     amounts (full exits, around 2^64/10^9 gwei, 2^64-1, arbitrary), and a contract
//     created by one transaction and made to SELFDESTRUCT by later transactions of
//     the same block (World.Late). A NEW option must be drawn after these, at the end
//     of Draw, and must be off by default.
//   - TxPlan.RefCreate/RefData let a plan call (or pass as calldata) the address
//     created by an earlier creation plan; World.Build resolves it exactly
//     (Built.Created) and skips the plan ("ref-not-created") if the creation was skipped.
//   - Transactions without the chain maker: draw plans with World.DrawPlan and turn
//     them into signed transactions with Materialize(plan, &Env{...}) against any
//     StateView (GetBalance/GetNonce - a *state.StateDB satisfies it); Env carries the
//     signer, rules, base fee, blob base fee, coinbase and the gas/blob budget left.
//     TxInfo.From/Tx/Clipped tell what came out. Keys[i].Priv signs anything else.
//   - Built.Txs[i][j] pairs every included transaction with its plan; Built.Receipts
//     are the chain maker's receipts; Built.Chain is a live BlockChain (Close it).
//   - Known classes of outcome (C32 evidence): about 40% of the transactions fail on
//     purpose (REVERT/INVALID terminators, tight gas); about a third of the blocks
//     contain an effective SELFDESTRUCT.
//   - Any change to the order or number of rapid draws in this package changes the
//     cases of every dependent check for a given seed (not their validity).
//
// # Determinism
//
// All randomness comes from the *rapid.T given to Draw. Build uses no randomness,
// no clock and no map iteration order that could influence results.
package worldgen
