//go:build verif

package worldgen

import (
	"fmt"
	"math/big"
	"runtime/debug"

	"github.com/ethereum/go-ethereum/common"
	"github.com/ethereum/go-ethereum/consensus"
	"github.com/ethereum/go-ethereum/consensus/misc/eip4844"
	"github.com/ethereum/go-ethereum/core"
	"github.com/ethereum/go-ethereum/core/rawdb"
	"github.com/ethereum/go-ethereum/core/types"
	"github.com/ethereum/go-ethereum/crypto"
	"github.com/ethereum/go-ethereum/ethdb"
	"github.com/ethereum/go-ethereum/rlp"
	"github.com/ethereum/go-ethereum/trie"
	"github.com/ethereum/go-ethereum/triedb"
	"github.com/holiman/uint256"
)

// BuildOptions control World.Build.
type BuildOptions struct {
	// Chain is the configuration of the BlockChain the blocks are inserted into
	// (tracer, state scheme, ...). nil: core.DefaultConfig() without snapshots.
	Chain *core.BlockChainConfig
	// HoldLast leaves the last block out of the chain (Built.Chain's head is its
	// parent), so the caller can insert it itself.
	HoldLast bool
	// OnBlockBuilt, if set, is called after each block was inserted into the chain.
	OnBlockBuilt func(index int, block *types.Block)
}

// Built is the result of Build.
type Built struct {
	World    *World
	Engine   consensus.Engine
	GenDB    ethdb.Database // chain maker's database: every state committed (hash scheme)
	Genesis  *types.Block
	Blocks   []*types.Block
	Receipts []types.Receipts
	Chain    *core.BlockChain
	Txs      [][]*TxInfo    // materialised plans per block, in block order
	Skipped  map[string]int // skip reason -> count
	// Created maps every included contract-creation plan to the address its
	// transaction created (CreateAddress(sender, nonce)), whether or not it succeeded.
	Created map[*TxPlan]common.Address
}

// Close stops the chain.
func (b *Built) Close() {
	if b.Chain != nil {
		b.Chain.Stop()
		b.Chain = nil
	}
}

// Parent returns the parent block of Blocks[i].
func (b *Built) Parent(i int) *types.Block {
	if i == 0 {
		return b.Genesis
	}
	return b.Blocks[i-1]
}

type genView struct{ b *core.BlockGen }

func (v genView) GetBalance(a common.Address) *uint256.Int { return v.b.GetBalance(a) }
func (v genView) GetNonce(a common.Address) (n uint64) {
	defer func() {
		if recover() != nil { // BlockGen.TxNonce panics for a non-existent account
			n = 0
		}
	}()
	return v.b.TxNonce(a)
}

// Build runs the chain maker over the drawn plans. The returned error (if any) is
// a harness problem (a transaction the chain maker rejected, an invalid block),
// never a property violation by itself; the caller decides how to report it.
func (w *World) Build(opt BuildOptions) (built *Built, err error) {
	cfg := opt.Chain
	if cfg == nil {
		cfg = core.DefaultConfig()
		cfg.SnapshotLimit = 0
	}
	engine := Engine(w.Variant)
	b := &Built{World: w, Engine: engine, Skipped: map[string]int{}, Created: map[*TxPlan]common.Address{}}
	chain, cerr := core.NewBlockChain(rawdb.NewMemoryDatabase(), w.Genesis, engine, cfg)
	if cerr != nil {
		return nil, fmt.Errorf("new blockchain: %w", cerr)
	}
	b.Chain = chain
	b.Genesis = chain.Genesis()
	b.Txs = make([][]*TxInfo, len(w.Blocks))
	defer func() {
		if r := recover(); r != nil {
			err = fmt.Errorf("chain maker panicked: %v\n%s", r, debug.Stack())
			b.Close()
			built = nil
		}
	}()
	insert := func(i int, blk *types.Block) {
		if _, ierr := chain.InsertChain(types.Blocks{blk}); ierr != nil {
			panic(fmt.Errorf("insert block %d: %w", i+1, ierr))
		}
		if opt.OnBlockBuilt != nil {
			opt.OnBlockBuilt(i, blk)
		}
	}
	db, blocks, receipts := core.GenerateChainWithGenesis(w.Genesis, engine, len(w.Blocks), func(i int, g *core.BlockGen) {
		if i > 0 {
			insert(i-1, g.PrevBlock(i-1))
		}
		bp := w.Blocks[i]
		g.SetCoinbase(bp.Coinbase)
		number, time := g.Number(), g.Timestamp()
		env := &Env{
			Config:   w.Config,
			Rules:    w.Config.Rules(number, !w.Variant.PoW, time),
			Signer:   g.Signer(),
			BaseFee:  g.BaseFee(),
			Coinbase: bp.Coinbase,
			GasLeft:  g.Gas(),
			State:    genView{g},
		}
		if w.Config.IsCancun(number, time) {
			parent := g.PrevBlock(i - 1).Header()
			excess := eip4844.CalcExcessBlobGas(w.Config, parent, time)
			env.BlobBaseFee = eip4844.CalcBlobFee(w.Config, &types.Header{Number: number, Time: time, ExcessBlobGas: &excess})
			env.BlobsLeft = min(eip4844.MaxBlobsPerBlock(w.Config, time), 6)
		}
		if bp.Uncle != nil && i >= 2 {
			g.AddUncle(&types.Header{ParentHash: g.PrevBlock(i - 2).Hash(), Number: big.NewInt(int64(i)), Coinbase: bp.Uncle.Coinbase})
		}
		for _, p := range bp.Txs {
			q := p
			if p.RefCreate != nil { // resolve the reference to an earlier creation (opt-in arrangements only)
				addr, ok := b.Created[p.RefCreate]
				if !ok {
					b.Skipped["ref-not-created"]++
					continue
				}
				cp := *p
				if p.RefData {
					cp.Data = common.LeftPadBytes(addr[:], 32)
				} else {
					cp.To = &addr
				}
				q = &cp
			}
			info, skip := Materialize(q, env)
			if skip != "" {
				b.Skipped[skip]++
				continue
			}
			info.Plan = p
			if info.Tx.To() == nil {
				b.Created[p] = crypto.CreateAddress(info.From, info.Tx.Nonce())
			}
			g.AddTxWithChain(chain, info.Tx)
			env.GasLeft -= info.Tx.Gas()
			env.BlobsLeft -= len(info.Tx.BlobHashes())
			b.Txs[i] = append(b.Txs[i], info)
		}
		for _, wd := range bp.Withdrawals {
			g.AddWithdrawal(wd)
		}
	})
	b.GenDB, b.Blocks, b.Receipts = db, blocks, receipts
	if n := len(blocks); n > 0 && !opt.HoldLast {
		insert(n-1, blocks[n-1])
	}
	return b, nil
}

// Balances walks the account trie at root in db (hash scheme) and returns the
// balance of every account keyed by the hash of its address.
func Balances(db ethdb.Database, root common.Hash) (map[common.Hash]*big.Int, error) {
	tdb := triedb.NewDatabase(db, triedb.HashDefaults)
	defer tdb.Close()
	tr, err := trie.New(trie.StateTrieID(root), tdb)
	if err != nil {
		return nil, err
	}
	nit, err := tr.NodeIterator(nil)
	if err != nil {
		return nil, err
	}
	out := map[common.Hash]*big.Int{}
	it := trie.NewIterator(nit)
	for it.Next() {
		var acc types.StateAccount
		if err := rlp.DecodeBytes(it.Value, &acc); err != nil {
			return nil, fmt.Errorf("account %x: %w", it.Key, err)
		}
		out[common.BytesToHash(it.Key)] = acc.Balance.ToBig()
	}
	if it.Err != nil {
		return nil, it.Err
	}
	return out, nil
}
