//go:build verif

package worldgen

// Hostile withdrawal amounts (Options.BigWithdrawals).
//
// A withdrawal carries its amount in gwei as a uint64; the consensus engine credits
// amount * 10^9 wei. The amounts Draw uses by default (0, 1, 12_345_678, 10^9 gwei)
// are all far below 2^64 / 10^9 = 18_446_744_073.7 gwei (about 18.45 ETH), the point
// from which the product no longer fits 64 bits - yet ordinary full validator exits
// (32 ETH, up to 2048 ETH with EIP-7251) lie above it. The option appends withdrawals
// drawn from the classes below to about half of the blocks; everything is drawn at the
// end of Draw, so a world without the option is drawn exactly as before.

import (
	"math"

	"github.com/ethereum/go-ethereum/core/types"
	"pgregory.net/rapid"
	ep "verif.local/kit/evmprog"
)

// WeiOverflowGwei is the smallest gwei amount whose value in wei needs more than 64 bits.
const WeiOverflowGwei = math.MaxUint64/1_000_000_000 + 1 // 18_446_744_074

// BigWithdrawalClass labels a withdrawal amount (evidence classes).
func BigWithdrawalClass(gwei uint64) string {
	switch {
	case gwei == 0:
		return "0"
	case gwei < 1_000_000_000:
		return "<1eth"
	case gwei < WeiOverflowGwei:
		return "1eth..2^64wei"
	case gwei == math.MaxUint64:
		return "max-uint64"
	default:
		return ">=2^64wei"
	}
}

func drawBigAmount(rt *rapid.T) uint64 {
	switch pickW(rt, "bigwd-class", []int{3, 2, 3, 2, 1, 2, 2}) {
	case 0: // full exit of a 32 ETH validator, sometimes with a few gwei of rewards on top
		return 32_000_000_000 + []uint64{0, 0, 1, 7_654_321}[ep.Uniform(rt, "bigwd-32-extra", 4)]
	case 1: // EIP-7251 compounding validator at the maximum effective balance
		return 2_048_000_000_000 + []uint64{0, 0, 1, 987_654_321}[ep.Uniform(rt, "bigwd-2048-extra", 4)]
	case 2: // around the 64-bit boundary of the value in wei
		return WeiOverflowGwei - 2 + uint64(ep.Uniform(rt, "bigwd-edge", 5)) // -2 .. +2
	case 3: // powers of two and their neighbours
		sh := 34 + ep.Uniform(rt, "bigwd-shift", 30) // 2^34 .. 2^63
		return uint64(1)<<sh - 1 + uint64(ep.Uniform(rt, "bigwd-shift-off", 3))
	case 4:
		return math.MaxUint64 - uint64(ep.Uniform(rt, "bigwd-max-off", 2))
	case 5: // anything
		return rapid.Uint64().Draw(rt, "bigwd-any")
	default: // 1 .. 1000 ETH with gwei noise
		return rapid.Uint64Range(1_000_000_000, 1_000_000_000_000).Draw(rt, "bigwd-eth")
	}
}

// drawBigWithdrawals appends hostile withdrawals; called at the end of Draw.
func (w *World) drawBigWithdrawals(rt *rapid.T) {
	for bi, bp := range w.Blocks {
		if pickW(rt, "bigwd", []int{1, 1}) == 0 {
			continue
		}
		for n := 1 + pickW(rt, "bigwd-n", []int{2, 1}); n > 0; n-- {
			bp.Withdrawals = append(bp.Withdrawals, &types.Withdrawal{
				Index:     uint64(1000*bi + len(bp.Withdrawals)),
				Validator: uint64(500 + len(bp.Withdrawals)),
				Address:   w.Pool[ep.Uniform(rt, "bigwd-address", len(w.Pool))],
				Amount:    drawBigAmount(rt),
			})
			w.BigWithdrawals++
		}
	}
}
