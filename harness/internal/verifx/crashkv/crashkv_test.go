//go:build verif

package crashkv

import (
	"bytes"
	"testing"

	"github.com/ethereum/go-ethereum/ethdb"
	"github.com/ethereum/go-ethereum/ethdb/memorydb"
)

func dump(db ethdb.KeyValueStore) string {
	var sb bytes.Buffer
	it := db.NewIterator(nil, nil)
	defer it.Release()
	for it.Next() {
		sb.Write(it.Key())
		sb.WriteByte('=')
		sb.Write(it.Value())
		sb.WriteByte(' ')
	}
	return sb.String()
}

// TestCrashkvSelf is a self-check of the wrapper (not a property check).
func TestCrashkvSelf(t *testing.T) {
	inner := memorydb.New()
	inner.Put([]byte("base"), []byte("0"))
	log := NewLog()
	s := Wrap(inner, log)
	s.Put([]byte("a"), []byte("1")) // 0
	b := s.NewBatch()
	b.Put([]byte("b"), []byte("2"))
	b.Delete([]byte("a"))
	b.DeleteRange([]byte("base"), nil)
	if log.Len() != 1 {
		t.Fatalf("unwritten batch logged: %d", log.Len())
	}
	b.Write()        // 1
	s.SyncKeyValue() // 2
	m := log.Mark("x") // 3
	s.Delete([]byte("b")) // 4
	s.DeleteRange(nil, nil)
	if m != 3 || log.Len() != 6 {
		t.Fatalf("mark %d len %d", m, log.Len())
	}
	for n, want := range []string{"base=0 ", "a=1 base=0 ", "b=2 ", "b=2 ", "b=2 ", "", ""} {
		if got := dump(log.Materialize(n)); got != want {
			t.Fatalf("prefix %d: %q want %q", n, got, want)
		}
	}
	if got := dump(inner); got != "" {
		t.Fatalf("inner: %q", got)
	}
	if lo, hi := log.CrashRange(5); lo != 3 || hi != 5 {
		t.Fatalf("crash range %d..%d", lo, hi)
	}
	if lo, hi := log.CrashRange(2); lo != 0 || hi != 2 {
		t.Fatalf("crash range before sync %d..%d", lo, hi)
	}
	b.Reset()
	b.Put([]byte("z"), nil)
	b.Write()
	if ev := log.Events(); len(ev[6].Ops) != 1 || string(ev[6].Ops[0].Key) != "z" {
		t.Fatalf("batch after reset: %+v", ev[6])
	}
}
