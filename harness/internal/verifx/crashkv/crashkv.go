//go:build verif

// Package crashkv is a passive, recording wrapper around an ethdb.KeyValueStore
// for crash-consistency checks (DESIGN §2.7, §2.12; used by C20, C25, C39).
//
// Every durable effect that goes through the wrapper - Put, Delete, DeleteRange,
// Batch.Write (with the batch contents, as one atomic event) and SyncKeyValue -
// is appended to an event Log after it succeeded on the inner store. Harness code
// can add Mark events (e.g. "freezer op 7 done") to correlate the log with other
// histories. Reads, iterators, Stat and Compact pass through unrecorded.
//
// A crash state of the key-value store is the replay of a prefix of the log:
//
//	img := log.Materialize(n)          // fresh memorydb holding base + Events[:n]
//	lo, hi := log.CrashRange(upTo)     // valid n for a crash at event index upTo:
//	                                   // every prefix from the last completed
//	                                   // SyncKeyValue before upTo (everything before
//	                                   // it is durable) up to upTo itself (nothing lost)
//
// Batches are atomic (all or nothing), as the ethdb contract and Pebble/LevelDB
// guarantee; torn batches are not modelled. If the inner store already holds data
// when it is wrapped, that content is captured once as the log's base image.
//
// API summary: NewLog, Wrap, (*Log).Len/Events/Mark/LastSync/CrashRange/
// Materialize, (*Store) implements ethdb.KeyValueStore, Store.Inner/Log.
// The wrapper is safe for concurrent use (one mutex around the log).
package crashkv

import (
	"sync"

	"github.com/ethereum/go-ethereum/ethdb"
	"github.com/ethereum/go-ethereum/ethdb/memorydb"
)

// Kind is the type of a logged event or of an operation inside a batch.
type Kind uint8

const (
	Put Kind = iota
	Delete
	DeleteRange
	Batch // Ops holds the batch contents in order
	Sync  // a completed SyncKeyValue
	Mark  // harness marker, no effect on the store
)

func (k Kind) String() string {
	return [...]string{"put", "delete", "deleteRange", "batch", "sync", "mark"}[k]
}

// Op is one write operation. For DeleteRange, Key is the start and End the limit;
// a nil bound means unbounded (HasStart/HasEnd keep nil and empty apart).
type Op struct {
	Kind             Kind
	Key, Value, End  []byte
	HasStart, HasEnd bool
}

// Event is one entry of the log.
type Event struct {
	Kind  Kind
	Ops   []Op   // one element for Put/Delete/DeleteRange, the contents for Batch, empty otherwise
	Label string // Mark only
}

// Log is the shared event log.
type Log struct {
	mu     sync.Mutex
	base   []Op // Put ops describing the content of the inner store when it was wrapped
	events []Event
}

// NewLog creates an empty log.
func NewLog() *Log { return &Log{} }

// Len returns the number of events recorded so far.
func (l *Log) Len() int {
	l.mu.Lock()
	defer l.mu.Unlock()
	return len(l.events)
}

// Events returns a copy of the event slice (events themselves are immutable).
func (l *Log) Events() []Event {
	l.mu.Lock()
	defer l.mu.Unlock()
	return append([]Event(nil), l.events...)
}

// Mark appends a harness marker and returns its index.
func (l *Log) Mark(label string) int {
	return l.add(Event{Kind: Mark, Label: label})
}

func (l *Log) add(e Event) int {
	l.mu.Lock()
	defer l.mu.Unlock()
	l.events = append(l.events, e)
	return len(l.events) - 1
}

// LastSync returns the smallest prefix length that a crash at event index upTo
// (i.e. after Events[:upTo] were issued) can leave behind: one past the index of
// the last Sync event before upTo, 0 if there is none.
func (l *Log) LastSync(upTo int) int {
	l.mu.Lock()
	defer l.mu.Unlock()
	if upTo > len(l.events) {
		upTo = len(l.events)
	}
	for i := upTo - 1; i >= 0; i-- {
		if l.events[i].Kind == Sync {
			return i + 1
		}
	}
	return 0
}

// CrashRange returns the inclusive range [lo, hi] of prefix lengths that are
// possible images for a crash after Events[:upTo].
func (l *Log) CrashRange(upTo int) (lo, hi int) {
	if n := l.Len(); upTo > n {
		upTo = n
	}
	return l.LastSync(upTo), upTo
}

func apply(db *memorydb.Database, op Op) {
	switch op.Kind {
	case Put:
		db.Put(op.Key, op.Value)
	case Delete:
		db.Delete(op.Key)
	case DeleteRange:
		var start, end []byte
		if op.HasStart {
			start = op.Key
			if start == nil {
				start = []byte{}
			}
		}
		if op.HasEnd {
			end = op.End
			if end == nil {
				end = []byte{}
			}
		}
		db.DeleteRange(start, end)
	}
}

// Materialize returns a fresh in-memory database holding the base image plus the
// effects of Events[:prefix].
func (l *Log) Materialize(prefix int) *memorydb.Database {
	l.mu.Lock()
	defer l.mu.Unlock()
	if prefix > len(l.events) {
		prefix = len(l.events)
	}
	db := memorydb.New()
	for _, op := range l.base {
		apply(db, op)
	}
	for _, e := range l.events[:prefix] {
		for _, op := range e.Ops {
			apply(db, op)
		}
	}
	return db
}

func cp(b []byte) []byte {
	if b == nil {
		return nil
	}
	return append([]byte{}, b...)
}

func rangeOp(start, end []byte) Op {
	return Op{Kind: DeleteRange, Key: cp(start), End: cp(end), HasStart: start != nil, HasEnd: end != nil}
}

// Store is the recording wrapper.
type Store struct {
	inner ethdb.KeyValueStore
	log   *Log
}

// Wrap wraps inner; the current content of inner becomes the log's base image if
// the log has no events and no base yet.
func Wrap(inner ethdb.KeyValueStore, log *Log) *Store {
	log.mu.Lock()
	if len(log.events) == 0 && log.base == nil {
		it := inner.NewIterator(nil, nil)
		for it.Next() {
			log.base = append(log.base, Op{Kind: Put, Key: cp(it.Key()), Value: cp(it.Value())})
		}
		it.Release()
	}
	log.mu.Unlock()
	return &Store{inner: inner, log: log}
}

// Inner returns the wrapped store.
func (s *Store) Inner() ethdb.KeyValueStore { return s.inner }

// Log returns the event log.
func (s *Store) Log() *Log { return s.log }

func (s *Store) Has(key []byte) (bool, error)   { return s.inner.Has(key) }
func (s *Store) Get(key []byte) ([]byte, error) { return s.inner.Get(key) }
func (s *Store) Stat() (string, error)          { return s.inner.Stat() }
func (s *Store) Compact(start, limit []byte) error {
	return s.inner.Compact(start, limit)
}
func (s *Store) NewIterator(prefix, start []byte) ethdb.Iterator {
	return s.inner.NewIterator(prefix, start)
}
func (s *Store) Close() error { return s.inner.Close() }

func (s *Store) Put(key, value []byte) error {
	if err := s.inner.Put(key, value); err != nil {
		return err
	}
	s.log.add(Event{Kind: Put, Ops: []Op{{Kind: Put, Key: cp(key), Value: cp(value)}}})
	return nil
}

func (s *Store) Delete(key []byte) error {
	if err := s.inner.Delete(key); err != nil {
		return err
	}
	s.log.add(Event{Kind: Delete, Ops: []Op{{Kind: Delete, Key: cp(key)}}})
	return nil
}

func (s *Store) DeleteRange(start, end []byte) error {
	if err := s.inner.DeleteRange(start, end); err != nil {
		return err
	}
	s.log.add(Event{Kind: DeleteRange, Ops: []Op{rangeOp(start, end)}})
	return nil
}

func (s *Store) SyncKeyValue() error {
	if err := s.inner.SyncKeyValue(); err != nil {
		return err
	}
	s.log.add(Event{Kind: Sync})
	return nil
}

func (s *Store) NewBatch() ethdb.Batch { return &batch{inner: s.inner.NewBatch(), log: s.log} }
func (s *Store) NewBatchWithSize(size int) ethdb.Batch {
	return &batch{inner: s.inner.NewBatchWithSize(size), log: s.log}
}

// batch records its contents and logs them as one event on Write.
type batch struct {
	inner ethdb.Batch
	log   *Log
	ops   []Op
}

func (b *batch) Put(key, value []byte) error {
	if err := b.inner.Put(key, value); err != nil {
		return err
	}
	b.ops = append(b.ops, Op{Kind: Put, Key: cp(key), Value: cp(value)})
	return nil
}

func (b *batch) Delete(key []byte) error {
	if err := b.inner.Delete(key); err != nil {
		return err
	}
	b.ops = append(b.ops, Op{Kind: Delete, Key: cp(key)})
	return nil
}

func (b *batch) DeleteRange(start, end []byte) error {
	if err := b.inner.DeleteRange(start, end); err != nil {
		return err
	}
	b.ops = append(b.ops, rangeOp(start, end))
	return nil
}

func (b *batch) ValueSize() int { return b.inner.ValueSize() }

func (b *batch) Write() error {
	if err := b.inner.Write(); err != nil {
		return err
	}
	b.log.add(Event{Kind: Batch, Ops: append([]Op(nil), b.ops...)})
	return nil
}

func (b *batch) Reset() {
	b.inner.Reset()
	b.ops = b.ops[:0:0]
}

func (b *batch) Replay(w ethdb.KeyValueWriter) error { return b.inner.Replay(w) }
func (b *batch) Close()                              { b.inner.Close() }

var _ ethdb.KeyValueStore = (*Store)(nil)
