//go:build verif

// Package evmx glues kit/evmprog (pure bytecode generator) to go-ethereum: chain
// configs per evmprog.Fork, installing a generated World into a StateDB, and a
// stable classification of vm errors. Shared by the EVM-level checks (C27-C29);
// later checks that execute evmprog worlds (C26, C32-C34, C36, C37) can reuse it.
package evmx

import (
	"errors"
	"math/big"

	"github.com/ethereum/go-ethereum/common"
	"github.com/ethereum/go-ethereum/core/state"
	"github.com/ethereum/go-ethereum/core/tracing"
	"github.com/ethereum/go-ethereum/core/types"
	"github.com/ethereum/go-ethereum/core/vm"
	"github.com/ethereum/go-ethereum/params"
	"github.com/holiman/uint256"
	"verif.local/kit/evmprog"
)

// Origin is the externally owned account used as transaction sender.
var Origin = common.HexToAddress("0x0a11ce00000000000000000000000000000000aa")

// Coinbase is the block beneficiary used by the EVM-level checks.
var Coinbase = common.HexToAddress("0xc01b000000000000000000000000000000000001")

// ChainConfig returns a chain configuration in which exactly the forks up to and
// including f are active from genesis (block 0 / time 0); UBT/Verkle and Bogota
// stay off.
func ChainConfig(f evmprog.Fork) *params.ChainConfig {
	zero := func() *big.Int { return new(big.Int) }
	tz := func() *uint64 { z := uint64(0); return &z }
	c := &params.ChainConfig{ChainID: big.NewInt(1)}
	if f >= evmprog.Homestead {
		c.HomesteadBlock = zero()
	}
	if f >= evmprog.Tangerine {
		c.EIP150Block = zero()
	}
	if f >= evmprog.Spurious {
		c.EIP155Block, c.EIP158Block = zero(), zero()
	}
	if f >= evmprog.Byzantium {
		c.ByzantiumBlock = zero()
	}
	if f >= evmprog.Constantinople {
		c.ConstantinopleBlock = zero()
	}
	if f >= evmprog.Petersburg {
		c.PetersburgBlock = zero()
	}
	if f >= evmprog.Istanbul {
		c.IstanbulBlock, c.MuirGlacierBlock = zero(), zero()
	}
	if f >= evmprog.Berlin {
		c.BerlinBlock = zero()
	}
	if f >= evmprog.London {
		c.LondonBlock, c.ArrowGlacierBlock, c.GrayGlacierBlock = zero(), zero(), zero()
	}
	if f >= evmprog.Merge {
		c.TerminalTotalDifficulty = zero()
		c.MergeNetsplitBlock = zero()
	}
	if f >= evmprog.Shanghai {
		c.ShanghaiTime = tz()
	}
	if f >= evmprog.Cancun {
		c.CancunTime = tz()
	}
	if f >= evmprog.Prague {
		c.PragueTime = tz()
	}
	if f >= evmprog.Osaka {
		c.OsakaTime = tz()
	}
	if f >= evmprog.Amsterdam {
		c.AmsterdamTime = tz()
	}
	return c
}

// Merged reports whether f is a proof-of-stake fork (PREVRANDAO present).
func Merged(f evmprog.Fork) bool { return f >= evmprog.Merge }

// Rules returns the params.Rules for f at block 0 / time 0.
func Rules(f evmprog.Fork) params.Rules {
	return ChainConfig(f).Rules(new(big.Int), Merged(f), 0)
}

// Addr converts an evmprog address.
func Addr(a [20]byte) common.Address { return common.Address(a) }

// NewState returns an empty in-memory state.
func NewState() *state.StateDB {
	db, err := state.New(types.EmptyRootHash, state.NewDatabaseForTesting())
	if err != nil {
		panic(err)
	}
	return db
}

// Pre describes the pre-state around a world.
type Pre struct {
	ContractBalance uint64 // balance of each generated contract
	EOABalance      uint64 // balance of evmprog.EOAAddr
	OriginBalance   *uint256.Int
	// Storage[i] = initial storage of contract i (becomes "original" values).
	Storage map[int]map[common.Hash]common.Hash
}

// Install writes the world into db: contract code/balances/storage, the funded EOA
// and the origin account; evmprog.MissingAddr is left absent. The result is
// finalised so that the installed storage is the committed ("original") state of
// the following execution.
func Install(db *state.StateDB, w *evmprog.World, pre Pre) {
	for i, c := range w.Contracts {
		a := Addr(c.Addr)
		db.CreateAccount(a)
		db.SetCode(a, c.Code, tracing.CodeChangeUnspecified)
		db.SetNonce(a, 1, tracing.NonceChangeUnspecified)
		if pre.ContractBalance > 0 {
			db.SetBalance(a, uint256.NewInt(pre.ContractBalance), tracing.BalanceChangeUnspecified)
		}
		for k, v := range pre.Storage[i] {
			db.SetState(a, k, v)
		}
	}
	eoa := Addr(evmprog.EOAAddr)
	db.CreateAccount(eoa)
	db.SetBalance(eoa, uint256.NewInt(pre.EOABalance+1), tracing.BalanceChangeUnspecified)
	ob := pre.OriginBalance
	if ob == nil {
		ob = uint256.NewInt(1_000_000_000_000_000_000)
	}
	db.CreateAccount(Origin)
	db.SetBalance(Origin, ob, tracing.BalanceChangeUnspecified)
	db.SetNonce(Origin, 1, tracing.NonceChangeUnspecified)
	db.Finalise(Rules(w.Fork))
}

// ErrClass maps a vm error to a stable class label.
func ErrClass(err error) string {
	var (
		uf *vm.ErrStackUnderflow
		of *vm.ErrStackOverflow
		io *vm.ErrInvalidOpCode
	)
	switch {
	case err == nil:
		return "ok"
	case errors.Is(err, vm.ErrExecutionReverted):
		return "revert"
	case errors.Is(err, vm.ErrCodeStoreOutOfGas):
		return "codestore-oog"
	case errors.Is(err, vm.ErrGasUintOverflow): // wrapped as "out of gas: gas uint64 overflow" by the interpreter
		return "gas-overflow"
	case errors.Is(err, vm.ErrWriteProtection):
		return "write-protection"
	case errors.Is(err, vm.ErrMaxInitCodeSizeExceeded):
		return "initcode-size"
	case errors.Is(err, vm.ErrOutOfGas):
		return "oog"
	case errors.Is(err, vm.ErrDepth):
		return "depth"
	case errors.Is(err, vm.ErrInsufficientBalance):
		return "balance"
	case errors.Is(err, vm.ErrContractAddressCollision):
		return "collision"
	case errors.Is(err, vm.ErrMaxCodeSizeExceeded):
		return "code-size"
	case errors.Is(err, vm.ErrInvalidJump):
		return "invalid-jump"
	case errors.Is(err, vm.ErrReturnDataOutOfBounds):
		return "returndata-oob"
	case errors.Is(err, vm.ErrInvalidCode):
		return "invalid-code"
	case errors.Is(err, vm.ErrNonceUintOverflow):
		return "nonce-overflow"
	case errors.As(err, &uf):
		return "stack-underflow"
	case errors.As(err, &of):
		return "stack-overflow"
	case errors.As(err, &io):
		return "invalid-opcode"
	}
	return "other:" + err.Error()
}

// Halts reports whether err is an exceptional halt that consumes all execution gas
// of the frame it occurred in (everything except success, REVERT, the pre-frame
// failures that hand the gas back, and pre-Homestead code-store OOG).
func Halts(err error, rules params.Rules) bool {
	switch {
	case err == nil, errors.Is(err, vm.ErrExecutionReverted):
		return false
	case errors.Is(err, vm.ErrDepth), errors.Is(err, vm.ErrInsufficientBalance), errors.Is(err, vm.ErrNonceUintOverflow):
		return false
	case errors.Is(err, vm.ErrCodeStoreOutOfGas) && !rules.IsHomestead:
		return false
	}
	return true
}
