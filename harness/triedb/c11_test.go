//go:build verif

package triedb

import (
	"bytes"
	"fmt"
	"math/big"
	"runtime"
	"sort"
	"strings"
	"testing"

	"github.com/ethereum/go-ethereum/common"
	"github.com/ethereum/go-ethereum/core/rawdb"
	"github.com/ethereum/go-ethereum/core/types"
	"github.com/ethereum/go-ethereum/ethdb"
	"github.com/ethereum/go-ethereum/trie"
	"github.com/holiman/uint256"
	"pgregory.net/rapid"
	"verif.local/kit/refrlp"
	"verif.local/kit/reftrie"
	vs "verif.local/kit/stat"
)

// ---- flush-forcing database wrapper: batches report an inflated ValueSize ----

type c11InflBatch struct {
	ethdb.Batch
	k       int
	flushes *int
}

func (b *c11InflBatch) ValueSize() int { return b.Batch.ValueSize() * b.k }
func (b *c11InflBatch) Write() error {
	if b.Batch.ValueSize() > 0 {
		*b.flushes++
	}
	return b.Batch.Write()
}

type c11InflDB struct {
	ethdb.Database
	k       int
	flushes *int
}

func (d c11InflDB) NewBatch() ethdb.Batch {
	return &c11InflBatch{Batch: d.Database.NewBatch(), k: d.k, flushes: d.flushes}
}
func (d c11InflDB) NewBatchWithSize(size int) ethdb.Batch {
	return &c11InflBatch{Batch: d.Database.NewBatchWithSize(size), k: d.k, flushes: d.flushes}
}

// ---- model ----

type c11Acct struct {
	hash     common.Hash
	nonce    uint64
	balance  *big.Int
	codeHash []byte
	slots    map[common.Hash][]byte
	rootKind string // how the stored Root field was chosen
	stored   common.Hash
}

func c11Hash(rt *rapid.T, label string, prefix []byte) common.Hash {
	var h common.Hash
	b := rapid.SliceOfN(rapid.Byte(), 32, 32).Draw(rt, label)
	copy(h[:], b)
	copy(h[:], prefix)
	return h
}

// nibblePrefix builds a byte prefix from nibbles (odd count: low nibble of last byte random).
func c11SetNibbles(h *common.Hash, nibs []byte) {
	for i, n := range nibs {
		if i%2 == 0 {
			h[i/2] = n<<4 | h[i/2]&0x0f
		} else {
			h[i/2] = h[i/2]&0xf0 | n
		}
	}
}

func c11AccountRLP(a *c11Acct, root [32]byte) []byte {
	return refrlp.Encode(refrlp.L(refrlp.Uint(a.nonce), refrlp.BigInt(a.balance), refrlp.S(root[:]), refrlp.S(a.codeHash)))
}

func c11StorageKV(a *c11Acct) map[string][]byte {
	kv := map[string][]byte{}
	for k, v := range a.slots {
		kv[string(k[:])] = v
	}
	return kv
}

func TestVerifC11Generate(t *testing.T) {
	st := vs.New("C11", t)
	vs.Check(t, 1, func(rt *rapid.T) {
		c := st.Case()
		scheme := rapid.SampledFrom([]string{rawdb.HashScheme, rawdb.PathScheme}).Draw(rt, "scheme")
		layout := rapid.SampledFrom([]string{"random", "one", "one", "two", "sixteen", "boundary"}).Draw(rt, "layout")
		maxAcc := 40
		if vs.Thorough() {
			maxAcc = 150
		}
		nAcc := rapid.SampledFrom([]int{0, 1, 1, 2, 2, 3, 5, 9, 17, maxAcc}).Draw(rt, "nAcc")
		if nAcc == maxAcc {
			nAcc = rapid.IntRange(3, maxAcc).Draw(rt, "nAccBig")
		}
		// partition / shared-prefix shaping
		var shared []byte
		switch layout {
		case "one":
			shared = rapid.SliceOfN(rapid.ByteRange(0, 15), 1, 7).Draw(rt, "sharedNibbles")
		}
		parts := rapid.SliceOfN(rapid.ByteRange(0, 15), 2, 2).Draw(rt, "twoParts")
		accts := map[common.Hash]*c11Acct{}
		for i := 0; i < nAcc; i++ {
			h := c11Hash(rt, "acct", nil)
			switch layout {
			case "one":
				c11SetNibbles(&h, shared)
			case "two":
				c11SetNibbles(&h, []byte{parts[i%2]})
			case "sixteen":
				c11SetNibbles(&h, []byte{byte(i % 16)})
			case "boundary":
				n := rapid.ByteRange(0, 15).Draw(rt, "bn")
				if rapid.Bool().Draw(rt, "low") {
					h = common.Hash{}
					h[0] = n << 4
					h[31] = byte(rapid.IntRange(1, 3).Draw(rt, "lo")) // never the all-zero hash: rawdb treats owner 0x0 as "account trie"
				} else {
					for j := range h {
						h[j] = 0xff
					}
					h[0] = n<<4 | 0x0f
					h[31] = 0xff - byte(rapid.IntRange(0, 2).Draw(rt, "hi"))
				}
			}
			if _, dup := accts[h]; dup {
				continue
			}
			a := &c11Acct{hash: h, nonce: rapid.Uint64Range(0, 3).Draw(rt, "nonce"),
				balance:  new(big.Int).SetUint64(rapid.SampledFrom([]uint64{0, 1, 1 << 40, ^uint64(0)}).Draw(rt, "bal")),
				codeHash: types.EmptyCodeHash.Bytes(), slots: map[common.Hash][]byte{}}
			if rapid.IntRange(0, 3).Draw(rt, "hasCode") == 0 {
				ch := c11Hash(rt, "codehash", nil)
				a.codeHash = ch[:]
			}
			nSlots := rapid.SampledFrom([]int{0, 0, 0, 1, 2, 3, 6, 14}).Draw(rt, "nSlots")
			if nSlots == 14 && vs.Thorough() {
				nSlots = rapid.IntRange(10, 60).Draw(rt, "nSlotsBig")
			}
			slotShared := rapid.SliceOfN(rapid.ByteRange(0, 15), 0, 5).Draw(rt, "slotShared")
			for j := 0; j < nSlots; j++ {
				sh := c11Hash(rt, "slot", nil)
				if rapid.Bool().Draw(rt, "slotPrefixed") {
					c11SetNibbles(&sh, slotShared)
				}
				a.slots[sh] = rapid.SliceOfN(rapid.Byte(), 1, 33).Draw(rt, "slotVal")
			}
			accts[h] = a
		}
		// sorted account list
		var order []common.Hash
		for h := range accts {
			order = append(order, h)
		}
		sort.Slice(order, func(i, j int) bool { return bytes.Compare(order[i][:], order[j][:]) < 0 })

		// stale roots
		stale := 0
		for _, h := range order {
			a := accts[h]
			true_ := common.Hash(reftrie.Root(c11StorageKV(a)))
			kind := rapid.SampledFrom([]string{"correct", "correct", "correct", "random", "empty", "othertrue"}).Draw(rt, "rootKind")
			switch kind {
			case "correct":
				a.stored = true_
			case "random":
				a.stored = c11Hash(rt, "staleRoot", nil)
			case "empty":
				a.stored = types.EmptyRootHash
			case "othertrue":
				a.stored = common.Hash(reftrie.Root(map[string][]byte{"k": {1}}))
			}
			a.rootKind = kind
			if a.stored != true_ {
				stale++
			}
		}

		// dangling storage: account hashes with no account
		type dang struct {
			acc, slot common.Hash
			val       []byte
		}
		var dangling []dang
		nDang := rapid.SampledFrom([]int{0, 0, 1, 2, 4}).Draw(rt, "nDangling")
		dangKinds := map[string]int{}
		for i := 0; i < nDang; i++ {
			kind := rapid.SampledFrom([]string{"random", "before", "between", "after", "boundaryLo", "boundaryHi", "emptyPartition"}).Draw(rt, "dangKind")
			var dh common.Hash
			switch {
			case kind == "before" && len(order) > 0:
				dh = order[0]
				// decrement
				for j := 31; j >= 0; j-- {
					dh[j]--
					if dh[j] != 0xff {
						break
					}
				}
			case kind == "after" && len(order) > 0:
				dh = order[len(order)-1]
				for j := 31; j >= 0; j-- {
					dh[j]++
					if dh[j] != 0 {
						break
					}
				}
			case kind == "between" && len(order) > 1:
				i := rapid.IntRange(0, len(order)-2).Draw(rt, "betweenIdx")
				dh = order[i]
				for j := 31; j >= 0; j-- {
					dh[j]++
					if dh[j] != 0 {
						break
					}
				}
			case kind == "boundaryLo":
				dh = common.Hash{}
				dh[0] = rapid.ByteRange(0, 15).Draw(rt, "dn") << 4
				dh[31] = 1
			case kind == "boundaryHi":
				for j := range dh {
					dh[j] = 0xff
				}
				dh[0] = rapid.ByteRange(0, 15).Draw(rt, "dn")<<4 | 0x0f
			case kind == "emptyPartition":
				used := map[byte]bool{}
				for _, h := range order {
					used[h[0]>>4] = true
				}
				dh = c11Hash(rt, "dangAcc", nil)
				for n := byte(0); n < 16; n++ {
					if !used[n] {
						c11SetNibbles(&dh, []byte{n})
						break
					}
				}
			default:
				dh = c11Hash(rt, "dangAcc", nil)
				kind = "random"
			}
			if _, exists := accts[dh]; exists {
				continue
			}
			dangKinds[kind]++
			ns := rapid.IntRange(1, 3).Draw(rt, "dangSlots")
			for j := 0; j < ns; j++ {
				dangling = append(dangling, dang{dh, c11Hash(rt, "dangSlot", nil), rapid.SliceOfN(rapid.Byte(), 1, 33).Draw(rt, "dangVal")})
			}
		}

		// write the flat state
		flushes := 0
		k := rapid.SampledFrom([]int{1, 1, 300, 3000}).Draw(rt, "inflate")
		mem := rawdb.NewMemoryDatabase()
		var db ethdb.Database = mem
		if k > 1 {
			db = c11InflDB{Database: mem, k: k, flushes: &flushes}
		}
		for _, h := range order {
			a := accts[h]
			sa := types.StateAccount{Nonce: a.nonce, Balance: uint256.MustFromBig(a.balance), Root: a.stored, CodeHash: a.codeHash}
			rawdb.WriteAccountSnapshot(mem, h, types.SlimAccountRLP(sa))
			for sh, v := range a.slots {
				rawdb.WriteStorageSnapshot(mem, h, sh, v)
			}
		}
		for _, d := range dangling {
			rawdb.WriteStorageSnapshot(mem, d.acc, d.slot, d.val)
		}

		// reference: corrected model
		acctKV := map[string][]byte{}
		storRef := map[common.Hash]*reftrie.Result{}
		for _, h := range order {
			a := accts[h]
			sr := reftrie.Build(c11StorageKV(a))
			storRef[h] = sr
			acctKV[string(h[:])] = c11AccountRLP(a, sr.Root)
		}
		acctRef := reftrie.Build(acctKV)
		want := common.Hash(acctRef.Root)

		populated := map[byte]bool{}
		for _, h := range order {
			populated[h[0]>>4] = true
		}
		nontrivial := (len(populated) == 1 && len(order) >= 2) || len(dangling) > 0 || stale > 0
		desc := fmt.Sprintf("%s/%s/%d/%x/st%d/d%d/k%d", scheme, layout, len(order), want[:6], stale, len(dangling), k)

		procs := rapid.SampledFrom([]int{1, 2, 4, 16}).Draw(rt, "gomaxprocs")
		old := runtime.GOMAXPROCS(procs)
		defer runtime.GOMAXPROCS(old)

		wrongRoot := rapid.IntRange(0, 5).Draw(rt, "wrongRoot") == 0
		if wrongRoot {
			bad := want
			bad[rapid.IntRange(0, 31).Draw(rt, "badIdx")] ^= 1 << uint(rapid.IntRange(0, 7).Draw(rt, "badBit"))
			_, err := GenerateTrie(db, scheme, bad, nil)
			if err == nil {
				rt.Fatalf("GenerateTrie succeeded with wrong expected root %x (true %x)", bad, want)
			}
			if !strings.Contains(err.Error(), "state root mismatch") {
				rt.Fatalf("GenerateTrie with wrong root: unexpected error %v", err)
			}
			c.Class("wrong-root")
			c.NonTrivial(nontrivial, desc+"/wrong")
			return
		}
		if rapid.IntRange(0, 9).Draw(rt, "preCancelled") == 0 {
			ch := make(chan struct{})
			close(ch)
			_, err := GenerateTrie(db, scheme, want, ch)
			if err != nil && err != ErrCancelled {
				rt.Fatalf("cancelled GenerateTrie: unexpected error %v", err)
			}
			c.Class("pre-cancelled")
		}
		_, err := GenerateTrie(db, scheme, want, nil)
		if err != nil {
			rt.Fatalf("GenerateTrie failed on %s (accounts=%d dangling=%d stale=%d): %v", desc, len(order), len(dangling), stale, err)
		}
		if flushes > 1 {
			nontrivial = true
		}

		// (1) flat state == corrected model exactly
		gotAcc := map[common.Hash][]byte{}
		it := mem.NewIterator(rawdb.SnapshotAccountPrefix, nil)
		for it.Next() {
			if len(it.Key()) != len(rawdb.SnapshotAccountPrefix)+32 {
				continue
			}
			gotAcc[common.BytesToHash(it.Key()[len(rawdb.SnapshotAccountPrefix):])] = common.CopyBytes(it.Value())
		}
		it.Release()
		if len(gotAcc) != len(order) {
			rt.Fatalf("flat accounts: got %d want %d", len(gotAcc), len(order))
		}
		for _, h := range order {
			a := accts[h]
			sa := types.StateAccount{Nonce: a.nonce, Balance: uint256.MustFromBig(a.balance), Root: common.Hash(storRef[h].Root), CodeHash: a.codeHash}
			if exp := types.SlimAccountRLP(sa); !bytes.Equal(gotAcc[h], exp) {
				rt.Fatalf("flat account %x after generation = %x, want corrected %x (stored root kind %s)", h, gotAcc[h], exp, a.rootKind)
			}
		}
		nSlots := 0
		it = mem.NewIterator(rawdb.SnapshotStoragePrefix, nil)
		for it.Next() {
			if len(it.Key()) != len(rawdb.SnapshotStoragePrefix)+64 {
				continue
			}
			ah := common.BytesToHash(it.Key()[len(rawdb.SnapshotStoragePrefix) : len(rawdb.SnapshotStoragePrefix)+32])
			sh := common.BytesToHash(it.Key()[len(rawdb.SnapshotStoragePrefix)+32:])
			a, ok := accts[ah]
			if !ok {
				rt.Fatalf("dangling storage left behind: account %x slot %x", ah, sh)
			}
			if !bytes.Equal(a.slots[sh], it.Value()) {
				rt.Fatalf("storage %x/%x = %x want %x", ah, sh, it.Value(), a.slots[sh])
			}
			nSlots++
		}
		it.Release()
		wantSlots := 0
		for _, a := range accts {
			wantSlots += len(a.slots)
		}
		if nSlots != wantSlots {
			rt.Fatalf("flat storage: %d slots remain, want %d", nSlots, wantSlots)
		}

		// (2) node store
		if scheme == rawdb.PathScheme {
			gotA := map[string][]byte{}
			it := mem.NewIterator(rawdb.TrieNodeAccountPrefix, nil)
			for it.Next() {
				// raw scan (rawdb.ResolveAccountTrieNodeKey excludes 64-nibble paths, which the
				// boundary layout can produce with hashes differing only in the last nibble)
				gotA[string(it.Key()[len(rawdb.TrieNodeAccountPrefix):])] = common.CopyBytes(it.Value())
			}
			it.Release()
			c11SameNodes(rt, "account trie", gotA, acctRef.Nodes)
			gotS := map[common.Hash]map[string][]byte{}
			it = mem.NewIterator(rawdb.TrieNodeStoragePrefix, nil)
			for it.Next() {
				rest := it.Key()[len(rawdb.TrieNodeStoragePrefix):]
				if len(rest) < 32 {
					rt.Fatalf("malformed storage trie node key %x", it.Key())
				}
				owner := common.BytesToHash(rest[:32])
				if gotS[owner] == nil {
					gotS[owner] = map[string][]byte{}
				}
				gotS[owner][string(rest[32:])] = common.CopyBytes(it.Value())
			}
			it.Release()
			for owner, nodes := range gotS {
				ref, ok := storRef[owner]
				if !ok {
					rt.Fatalf("storage trie nodes stored for non-existent account %x", owner)
				}
				c11SameNodes(rt, fmt.Sprintf("storage trie %x", owner), nodes, ref.Nodes)
			}
			for owner, ref := range storRef {
				if len(ref.Nodes) > 0 && gotS[owner] == nil {
					rt.Fatalf("storage trie of %x missing entirely", owner)
				}
			}
		} else {
			for h, blob := range acctRef.ByHash {
				if got := rawdb.ReadLegacyTrieNode(mem, common.Hash(h)); !bytes.Equal(got, blob) {
					rt.Fatalf("hash scheme: account trie node %x missing/wrong", h)
				}
			}
			for owner, ref := range storRef {
				for h, blob := range ref.ByHash {
					if got := rawdb.ReadLegacyTrieNode(mem, common.Hash(h)); !bytes.Equal(got, blob) {
						rt.Fatalf("hash scheme: storage trie node %x of %x missing/wrong", h, owner)
					}
				}
			}
			// open with geth's own trie and iterate: exactly the corrected accounts
			tdb := NewDatabase(mem, HashDefaults)
			tr, err := trie.New(trie.StateTrieID(want), tdb)
			if err != nil {
				rt.Fatalf("open generated trie: %v", err)
			}
			nit, err := tr.NodeIterator(nil)
			if err != nil {
				rt.Fatalf("iterator: %v", err)
			}
			li := trie.NewIterator(nit)
			idx := 0
			for li.Next() {
				if idx >= len(order) || !bytes.Equal(li.Key, order[idx][:]) || !bytes.Equal(li.Value, acctKV[string(order[idx][:])]) {
					rt.Fatalf("generated account trie leaf %d = %x, mismatch with model", idx, li.Key)
				}
				idx++
			}
			if li.Err != nil || idx != len(order) {
				rt.Fatalf("generated account trie iteration: %d leaves (want %d), err %v", idx, len(order), li.Err)
			}
			for _, h := range order {
				if len(accts[h].slots) == 0 {
					continue
				}
				str, err := trie.New(trie.StorageTrieID(want, h, common.Hash(storRef[h].Root)), tdb)
				if err != nil {
					rt.Fatalf("open storage trie %x: %v", h, err)
				}
				nit, _ := str.NodeIterator(nil)
				li := trie.NewIterator(nit)
				n := 0
				for li.Next() {
					if !bytes.Equal(accts[h].slots[common.BytesToHash(li.Key)], li.Value) {
						rt.Fatalf("storage trie %x leaf %x mismatch", h, li.Key)
					}
					n++
				}
				if li.Err != nil || n != len(accts[h].slots) {
					rt.Fatalf("storage trie %x: %d leaves want %d err %v", h, n, len(accts[h].slots), li.Err)
				}
			}
			tdb.Close()
		}

		c.Classf("layout=%s", layout)
		c.Classf("scheme=%s", scheme)
		c.Classf("partitions=%d", min(len(populated), 3))
		if stale > 0 {
			c.Class("stale-root")
		}
		for kd := range dangKinds {
			c.Class("dangling-" + kd)
		}
		if flushes > 1 {
			c.Class("mid-run-flush")
		}
		c.NonTrivial(nontrivial, desc)
		c.Sample(nontrivial, func() any {
			return map[string]any{"scheme": scheme, "layout": layout, "accounts": len(order), "populated_partitions": len(populated),
				"stale_roots": stale, "dangling_slots": len(dangling), "dangling_kinds": dangKinds, "batch_inflation": k, "flushes": flushes,
				"root": fmt.Sprintf("%x", want), "gomaxprocs": procs}
		})
	})
}

func c11SameNodes(rt *rapid.T, label string, got, want map[string][]byte) {
	for p, b := range got {
		w, ok := want[p]
		if !ok {
			rt.Fatalf("%s: extra node on disk at path %x (not in canonical trie)", label, p)
		}
		if !bytes.Equal(w, b) {
			rt.Fatalf("%s: node at path %x differs from canonical", label, p)
		}
	}
	for p := range want {
		if _, ok := got[p]; !ok {
			rt.Fatalf("%s: canonical node at path %x missing on disk", label, p)
		}
	}
}
